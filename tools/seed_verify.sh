#!/bin/sh
# usage: seed_verify.sh <dir with patch.diff and demo.rs>
# Confirms in a scratch worktree (outside /repo and /verif) that the change compiles, that the whole existing suite
# passes with it, and that the demonstration fails with the change and passes without it.
set -u
D="$1"
W=/tmp/sv-scratch
if [ ! -d "$W" ]; then git -C /repo worktree add -q "$W" HEAD || exit 2; fi
cd "$W" || exit 2
git checkout -q -- . ; git clean -fdq -- tests src
git checkout -q --detach "$(git -C /repo rev-parse HEAD)" 2>/dev/null
cp /repo/Cargo.lock . 2>/dev/null
echo "== baseline demo (must pass)"
cp "$D/demo.rs" tests/zz_demo.rs
CARGO_NET_OFFLINE=true cargo test --offline --test zz_demo 2>&1 | grep -E "^test result|error" | head -3
git apply "$D/patch.diff" || { echo "PATCH DOES NOT APPLY"; exit 1; }
echo "== with change: demo (must fail)"
CARGO_NET_OFFLINE=true cargo test --offline --test zz_demo 2>&1 | grep -E "^test result|error(\[|:)" | head -3
rm tests/zz_demo.rs
echo "== with change: full suite (must pass)"
CARGO_NET_OFFLINE=true cargo test --offline 2>&1 | grep -E "^test result|error(\[|:)|FAILED" | head -8
git checkout -q -- . ; git clean -fdq -- tests src
