#!/bin/sh
# usage: seed_run.sh <seeded dir> <property ids...> : applies the change to /repo, runs the checks, undoes it
D="$1"; shift
git -C /repo apply "$D/patch.diff" || exit 2
for p in "$@"; do
  out=$(VERIF_NO_EVIDENCE=1 /verif/check $p --tier quick 2>&1); rc=$?
  echo "--- $p exit=$rc"; echo "$out" | grep -E "^VIOLATION|^  (PROPFAIL|DIVERGE)|^C[0-9]+ tier" | cut -c1-260 | head -5
done
git -C /repo checkout -- .
git -C /repo status --short | grep -v Cargo.lock
