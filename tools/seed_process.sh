#!/bin/sh
# usage: seed_process.sh <ID> <name> <check ids...>
# Copies /tmp/wt-<ID>/_mutant into /verif/seeded/<name>, confirms it (seed_verify.sh), runs the named checks against
# it (seed_run.sh) and removes the sub-agent's worktree.  Output of both steps is kept in seeded/<name>/run.log.
ID="$1"; NAME="$2"; shift 2
D=/verif/seeded/$NAME
mkdir -p "$D"
cp ${WTP:-/tmp/wt-}$ID/_mutant/patch.diff ${WTP:-/tmp/wt-}$ID/_mutant/demo.rs ${WTP:-/tmp/wt-}$ID/_mutant/meta.json "$D/" || exit 2
{
  echo "### seed_verify"; /verif/tools/seed_verify.sh "$D" 2>&1 | tail -12
  echo "### seed_run $*"; /verif/tools/seed_run.sh "$D" "$@" 2>&1
} | tee "$D/run.log"
git -C /repo worktree remove --force ${WTP:-/tmp/wt-}$ID 2>/dev/null
git -C /repo status --short | grep -v Cargo.lock
