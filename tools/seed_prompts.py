#!/usr/bin/env python3
"""usage: seed_prompts.py <round tag, e.g. 4> : writes /tmp/prompt<tag>-<ID>.txt for every property and creates the scratch
worktrees /tmp/wt<tag>-<ID>.  A prompt holds only the text of the property (from properties.jsonl), the task, and one-line
summaries of the changes earlier sub-agents made for that property (so that a new one picks a different mechanism)."""
import json, os, subprocess, sys, glob
tag = sys.argv[1]
props = [json.loads(l) for l in open('/verif/properties.jsonl')]
earlier = {}
for m in sorted(glob.glob('/verif/seeded/*/meta.json')):
    d = json.load(open(m))
    earlier.setdefault(d['property'], []).append(d['summary'][:330].replace('\n', ' '))
for p in props:
    pid = p['id']
    wt = f'/tmp/wt{tag}-{pid}'
    if not os.path.isdir(wt):
        subprocess.run(['git', '-C', '/repo', 'worktree', 'add', '-q', '--detach', wt, 'HEAD'], check=True)
        if os.path.exists('/repo/Cargo.lock'):
            subprocess.run(['cp', '/repo/Cargo.lock', wt], check=True)
    text = [f"{pid}: {p.get('title','')}", '', p['statement'], '']
    q = p.get('quantifier')
    if q:
        text += ['Quantifier: ' + (q.get('text', '') if isinstance(q, dict) else str(q)), '']
    a = p.get('anchors')
    if a:
        files = a.get('files', []) if isinstance(a, dict) else a
        text += ['Anchored in: ' + ', '.join(files), '']
    tried = ' || '.join(earlier.get(pid, []))
    body = f"""You are helping to test a verification framework by producing a *seeded defect* (a mutation) for a Rust library. Work ONLY inside the git worktree at {wt} (a checkout of the Rust crate `affinitree`: piece-wise linear functions / ReLU networks as oblique decision trees, with composition, arithmetic and LP-based infeasible-path elimination). Do NOT read or touch /repo or /verif or any other directory outside {wt}. No network is available; build/test with `cargo test --offline` (first build takes ~1-2 minutes) inside {wt}.

The property that your change must BREAK:

---
{chr(10).join(text).strip()}
---

Task: make a small, realistic change to the library source (under {wt}/src) such that
1. the crate still compiles and the ENTIRE existing test suite still passes (`cargo test --offline` in {wt}: all unit tests, integration tests and doc tests must pass);
2. the property above is violated by the changed code;
3. the violation needs something specific to manifest — a particular interleaving or multi-step sequence of operations, an unusual input (boundary point, partial tree, degenerate shape, particular parameter value), a fault at a particular point, or two cooperating code sites that each look fine alone — NOT something that ordinary use would expose at once. Think of a plausible programmer mistake (off-by-one, wrong sign or index in a rare branch, stale cache, missing re-check, condition weakened or strengthened slightly), not sabotage. Prefer a mistake in a DIFFERENT place than the most obvious one. Earlier testers already tried the following changes; choose a different function and a different mechanism from all of them: {tried}

Deliverables, all placed in the directory {wt}/_mutant/ (create it):
- `patch.diff`: output of `git -C {wt} diff -- src` (the source change only);
- `demo.rs`: a demonstration written as a Rust integration test file (it will be copied to `tests/` of the crate) with one or more `#[test]` functions that PASS on the unmodified code and FAIL with your change. It may only use the crate's public API (`affinitree::...`), `ndarray`, and the macros `aff!`/`poly!` (dev-dependencies `approx` / `assertables` are also available). Verify both directions yourself: copy it to {wt}/tests/zz_demo.rs, run `cargo test --offline --test zz_demo` with the change (must fail) and with the change reverted (`git apply -R _mutant/patch.diff`, afterwards `git apply _mutant/patch.diff` again; do NOT use `git stash`: the stash is shared with other testers' worktrees; must pass). Remove tests/zz_demo.rs from the tree afterwards (keep only the copy in _mutant/).
- `meta.json`: {{"property": "{pid}", "summary": "<what was changed>", "needs": "<what is needed for the violation to manifest>", "verified": "<the commands you ran and what they showed>"}}.

Leave the source change applied in the worktree when you finish. In your final answer give a short summary (what you changed, what it needs to manifest, and confirmation that the full test suite passes with the change and that the demo fails with / passes without it)."""
    open(f'/tmp/prompt{tag}-{pid}.txt', 'w').write(body)
print('written', len(props))
