#!/bin/sh
# builds every Lean module, runs every check (quick) on the clean /repo, regenerates MANIFEST.json; commit only if all pass
cd /verif/lean && lake build 2>&1 | grep -E "error" && { echo "LEAN BUILD FAILED"; exit 1; }
cd /verif && [ -z "$(git -C /repo status --short | grep -v Cargo.lock)" ] || { echo "/repo is not clean"; exit 1; }
./run_all.sh > /tmp/runall.log 2>&1 || { grep -E "VIOLATION|FAILED" /tmp/runall.log | head; echo "CHECKS FAILED"; exit 1; }
python3 gen_manifest.py && git add -A && git commit -qm "$1" && git log --oneline | head -1
