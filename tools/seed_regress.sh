#!/bin/sh
# Re-runs, for every kept seeded change, the checks recorded in its meta.json (`caught_by`) with the change applied
# and reports the ones that no longer exit 1.  Evidence files are not touched (VERIF_NO_EVIDENCE=1).
cd /verif
bad=0
for d in seeded/*/; do
  [ -f "$d/patch.diff" ] || continue
  ids=$(python3 -c "import json,sys; m=json.load(open('$d/meta.json')); print('' if m.get('superseded_by') else ' '.join(m.get('caught_by',[])))")
  [ -n "$ids" ] || { echo "skipped (superseded by a fix, or recorded as not caught): $d"; continue; }
  git -C /repo apply "/verif/$d/patch.diff" || { echo "PATCH DOES NOT APPLY: $d"; bad=1; continue; }
  for p in $ids; do
    VERIF_NO_EVIDENCE=1 ./check $p --tier quick >/dev/null 2>&1; rc=$?
    if [ $rc -ne 1 ]; then echo "NOT CAUGHT: $d by $p (exit=$rc)"; bad=1; fi
  done
  git -C /repo checkout -- .
done
[ $bad -eq 0 ] && echo "ALL SEEDED CHANGES STILL CAUGHT" || echo "REGRESSIONS"
exit $bad
