#!/bin/sh
# For every kept seeded change and every check recorded in its meta.json (`caught_by`): how many cases report it in
# the quick tier (seed 1)?  Lines with fewer than 3 reports are fragile: the next generator change may lose them.
cd /verif
for d in seeded/*/; do
  [ -f "$d/patch.diff" ] || continue
  ids=$(python3 -c "import json,sys; m=json.load(open('$d/meta.json')); print('' if m.get('superseded_by') else ' '.join(m.get('caught_by',[])))")
  [ -n "$ids" ] || continue
  git -C /repo apply "/verif/$d/patch.diff" || { echo "PATCH DOES NOT APPLY: $d"; continue; }
  for p in $ids; do
    line=$(VERIF_NO_EVIDENCE=1 ./check $p --tier quick 2>&1 | tail -1)
    n=$(echo "$line" | python3 -c "
import sys,re,ast
l=sys.stdin.read()
m=re.search(r'\{.*\}',l)
c=ast.literal_eval(m.group(0)) if m else {}
print(sum(v for k,v in c.items() if k in ('PROPFAIL','DIVERGE','CRASH','BAD')))")
    echo "$n $d $p"
  done
  git -C /repo checkout -- .
done
