"""Per-property configuration of ./check: harness case kinds with (quick, thorough) counts,
the rule that makes a case non-trivial, and the assumptions recorded in the evidence."""

COMMON_ASSUMPTIONS = [
    "the Lean model (lean/AffVerif/Model) is hand written; it is tied to /repo by running model and crate on the same generated cases (sampled instances, exact dyadic arithmetic)",
    "floating point: theorems are over ordered fields / commutative rings; cases whose f64 arithmetic is not exact are reported INEXACT and not compared",
]

PROPS = {
    "C16": {
        "kinds": [("C16", 3000, 60000)],
        "rule": "one random operator/constructor call of AffFunc per case on lattice data (dims 1-5); non-trivial = the call returns (does not panic on a deliberately incompatible argument); distinct by case text",
        "assumptions": COMMON_ASSUMPTIONS + ["ndarray kernels (dot, concatenate, stack) compute the mathematically defined result on exactly representable data"],
    },
}
