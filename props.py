"""Per-property configuration of ./check: harness case kinds with (quick, thorough) counts,
the rule that makes a case non-trivial, and the assumptions recorded in the evidence."""

COMMON_ASSUMPTIONS = [
    "the Lean model (lean/AffVerif/Model) is hand written; it is tied to /repo by running model and crate on the same generated cases (sampled instances, exact dyadic arithmetic)",
    "floating point: theorems are over ordered fields / commutative rings; cases whose f64 arithmetic is not exact are reported INEXACT and not compared",
]

PROPS = {
    "C19": {
        "kinds": [("C19", 6000, 240000)],
        "rule": "one rendering per case: an affine function or polytope (1-4 rows, 1-6 columns; entries incl. -0.0, zero rows, powers of two up to 2^40 and down to 2^-20, rounding ties, non-dyadic values) with default or random FormatOptions (sorting threshold, simplify_zero, simplify_tautologies, normalize, skip ranges for rows and axes) at precision 0-6, or the DOT / Display text of a random tree with index holes; the string is read back term by term against the stored values and compared with the model string; non-trivial = at least 2 rows / 3 nodes; distinct by case text",
        "assumptions": COMMON_ASSUMPTIONS + ["{:.p} float formatting is modelled as exact round-half-even of the binary value", "rows printed normalised are float quotients: there the model string may differ in the last place (reported INEXACT), the read-back check still applies"],
    },
    "C18": {
        "kinds": [("C18A", 1200, 24000), ("C18N", 600, 9000)],
        "rule": "C18A: one sequence of 1-7 Architecture builder calls (valid and invalid, also after argmax), current_shape after each, real distillation of the accepted architecture, every split point (up to 5) with the composed halves evaluated at 8 inputs, one random extract_range; C18N: one npz file written in the numpy dialect (1-12 linear layers, widths 1-3, relu / hard_tanh / hard_sigmoid markers, padded and unpadded indices reaching 10 and above, unrelated entries, shuffled file order) read back with read_layers; non-trivial = at least 3 queued layers / 6 entries; distinct by case text",
        "assumptions": COMMON_ASSUMPTIONS + ["zip / npy decoding and the regex engine are external: the model starts from the list of entry names and decoded arrays", "inputs whose exact evaluation comes within 1e-9 of a breakpoint or tie in networks containing the non-dyadic hard-sigmoid slope are excluded (rounding clause of C01)"],
    },
    "C01": {
        "kinds": [("H01", 800, 15000), ("H01T", 0, 7500)],
        "rule": "one network per case: 1-2 (thorough: up to 3) hidden layers of width 1-3 with per-neuron ReLU / leaky ReLU / hard tanh / hard sigmoid, optional output layer and argmax / class head, optional polyhedral precondition (box, random, with an empty tail); distilled by the real afftree_from_layers and, step by step, by the public operations the builder uses (each step replayed by the model); 14 inputs (6 on hyperplanes of the precondition) compared with the direct evaluation of the layer list; non-trivial = at least 3 steps or a pruning step; distinct by case text",
        "assumptions": COMMON_ASSUMPTIONS + ["the model of afftree_from_layers is the sequence of public operations (apply_func / compose::<false> + infeasible_elimination / compose::<true>); the harness checks on every case that the builder's tree equals the result of that sequence", "rounding clause (non-dyadic weights, inputs away from breakpoints): cases containing the hard-sigmoid slope 1/6 are compared up to relative 2^-40 and reported INEXACT; no claim is made for inputs within rounding distance of a breakpoint"],
    },
    "C09": {
        "kinds": [("C09", 2400, 80000), ("C09T", 0, 32000)],
        "rule": "one random binary tree (total/partial, index holes) with a skip schedule for polyhedra(), the plain polyhedra_iter() stream, and 10 inputs (half on hyperplanes) for find_terminal; regions compared with the closed path half-spaces, routing both ways, disjoint interiors decided exactly for up to 8 terminals; non-trivial = at least 5 nodes; distinct by case text",
        "assumptions": COMMON_ASSUMPTIONS + ["cover of the input space by the terminal regions of a total tree follows from the reported regions being exactly the two closed sides of every decision, which is what is compared"],
    },
    "C14": {
        "kinds": [("C14", 6000, 240000)],
        "rule": "one constructor / transformation call of Polytope per case (intersection, intersection_n incl. empty list, translate, apply_pre, apply_post with exact unimodular inverse pairs, rotate with signed permutations, hypercube, hyperrectangle and axis_bounds with infinite bounds, unbounded, empty, simplex, cross_polytope, from_normal), dims 1-4; 10 lattice points per case, half on a facet; membership, contains and distance signs judged exactly; non-trivial = the call returns; distinct by case text",
        "assumptions": COMMON_ASSUMPTIONS + ["simplex: sqrt(n+1) is taken from the implementation and checked to square to n+1 within 1e-9; convex-hull statement not checked (partial)"],
    },
    "C10": {
        "kinds": [("C10", 4500, 160000)],
        "rule": "one constraint system per case from nine classes (boxes with missing sides, random rows, equality pairs, empty by a margin, parallel/scaled rows, zero rows, simplex-like, half-spaces and strips) in dimension 1-4 with a random objective; status, is_feasible, solve_linprog and the Chebyshev-centre program are judged against an exact certified simplex; non-trivial = at least 2 rows; distinct by case text",
        "assumptions": COMMON_ASSUMPTIONS + ["minilp's floating-point simplex is not modelled; its answers are validated per call against exact certificates with the margins 1e-6 (emptiness / optimal value) and 1e-6 (containment)", "only the default `minilp` backend is built (the `highs` feature needs the HiGHS C++ library)"],
    },
    "C15": {
        "kinds": [("C15", 4500, 160000)],
        "rule": "one clean-up call per case (remove_tautologies, remove_duplicate_rows, remove_redundant_row_constraints, normalize, remove_zero_rows, remove_rows) on the constraint classes of C10; sub-sequence, exact set equality row by row, tightness of remove_redundant; non-trivial = at least 3 rows; distinct by case text",
        "assumptions": COMMON_ASSUMPTIONS + ["remove_rows removes the rows the caller names: only the sub-sequence clause applies to it", "normalize: rows are compared as positive multiples up to 1e-12 relative (the quotients are rounded)", "duplicate detection uses the float relation relative_eq: only the direct checks (sub-sequence, set equality) apply"],
    },
    "C03": {
        "kinds": [("H03", 1500, 48000), ("H01", 400, 8000)],
        "rule": "one operation history on AffTree<2> (random constructor incl. partial trees; 1-6 steps weighted towards compose::<true>, infeasible_elimination and tree arithmetic), plus the step-by-step distillation of random networks (one in eight with weights of magnitude 2^5..2^12, where the solver's vertices fail the containment test and the repair paths are exercised); 12 fixed inputs evaluated after every step, 8 of them on decision hyperplanes; non-trivial = a pruning step with a result of at least 3 nodes or at least 3 steps; distinct by case text",
        "assumptions": COMMON_ASSUMPTIONS + ["LP answers and mirror_points results are oracles of the model; the replay feeds it the answers logged by the hooks (H1 LP log, H2 state trace); every logged Infeasible answer is checked exactly to be sound by a margin of 1e-6", "pruning is binary-only in the crate (K = 2)"],
    },
    "C04": {
        "kinds": [("H04", 1500, 48000)],
        "rule": "one operation history (1-10 steps over apply_func, compose<prune on/off>(schema or tree), infeasible_elimination, reduce, + - * /, neg, affine operands) from every constructor; shape checked after each step; non-trivial = at least 3 steps; distinct by case text",
        "assumptions": COMMON_ASSUMPTIONS + ["LP answers and mirror_points results are oracles of the model; the replay feeds it the answers logged by the hooks (H1 LP log, H2 state trace); every logged Infeasible answer is checked exactly to be sound by a margin of 1e-6", "pruning is binary-only in the crate (K = 2)"],
    },
    "C05": {
        "kinds": [("H05", 1500, 48000), ("C05M", 3000, 160000), ("C17R", 1500, 48000), ("H01", 400, 8000)],
        "rule": "one operation history (1-8 steps, elimination/composition heavy); after every step each stored witness is checked exactly against its path polytope (1e-8 slack) and each node marked infeasible against an exact LP with margin 1e-6; kind C05M: mirror_points on random polytopes / start points / round limits against the exact model loop (normalised polytope taken from the dump, its rows checked to be the original rows divided by their Euclidean norm), returned points checked exactly against the polytope; kind H01: step-by-step distillation of random networks, one in eight with weights of magnitude 2^5..2^12 (solver vertices that fail the containment test and are repaired by the mirror heuristic); kind C17R: remove_axes on trees that carry cached states (after infeasible_elimination): every cached state must be reset; non-trivial = at least 3 steps or a pruning step; distinct by case text",
        "assumptions": COMMON_ASSUMPTIONS + ["LP answers and mirror_points results are oracles of the model; the replay feeds it the answers logged by the hooks (H1 LP log, H2 state trace); every logged Infeasible answer is checked exactly to be sound by a margin of 1e-6", "pruning is binary-only in the crate (K = 2)"],
    },
    "C06": {
        "kinds": [("H06", 1500, 48000), ("H01", 400, 8000)],
        "rule": "one compose/eliminate pipeline on total binary trees (schemas and affine maps, fresh and cached states), plus distilled networks (one in eight with weights of magnitude 2^5..2^12, where solver vertices fail the containment test); after each elimination: exact emptiness certificates for every remaining node, single-child check, second run compared and its LP calls counted; non-trivial = at least 3 steps or a pruning step; distinct by case text",
        "assumptions": COMMON_ASSUMPTIONS + ["LP answers and mirror_points results are oracles of the model; the replay feeds it the answers logged by the hooks (H1 LP log, H2 state trace); every logged Infeasible answer is checked exactly to be sound by a margin of 1e-6", "pruning is binary-only in the crate (K = 2)"],
    },
    "C07": {
        "kinds": [("H07", 1500, 48000)],
        "rule": "one history weighted towards + - * / between trees (all four ownership variants), tree-affine forms on either side, neg; values compared with the coefficient-wise operator on the terminals reached; non-trivial = at least 3 steps or a pruning step; distinct by case text",
        "assumptions": COMMON_ASSUMPTIONS + ["LP answers and mirror_points results are oracles of the model; the replay feeds it the answers logged by the hooks (H1 LP log, H2 state trace); every logged Infeasible answer is checked exactly to be sound by a margin of 1e-6", "pruning is binary-only in the crate (K = 2)"],
    },
    "C08": {
        "kinds": [("H08", 1500, 48000), ("H08R", 1500, 48000)],
        "rule": "one history weighted towards reduce after compositions (H08), or starting from a deep tree with re-grown sub-trees (arena indices not in insertion order) whose terminals come from a palette of 3 maps with near-duplicates differing only in a bias or one coefficient, so that merges cascade over several levels (H08R); values before/after, node count, idempotence, no remaining equal-terminal siblings; non-trivial = at least 3 steps or a pruning step; distinct by case text",
        "assumptions": COMMON_ASSUMPTIONS + ["LP answers and mirror_points results are oracles of the model; the replay feeds it the answers logged by the hooks (H1 LP log, H2 state trace); every logged Infeasible answer is checked exactly to be sound by a margin of 1e-6", "pruning is binary-only in the crate (K = 2)"],
    },
    "C11": {
        "kinds": [("H11", 1500, 48000)],
        "rule": "one history with a random fault plan per step (Error, Unbounded, perturbed witness, far-off witness at up to 4 of the first 14 LP calls); no panic, values, shape, caches, node count against the fault-free run; non-trivial = at least 3 steps or a pruning step; distinct by case text",
        "assumptions": COMMON_ASSUMPTIONS + ["LP answers and mirror_points results are oracles of the model; the replay feeds it the answers logged by the hooks (H1 LP log, H2 state trace); every logged Infeasible answer is checked exactly to be sound by a margin of 1e-6", "pruning is binary-only in the crate (K = 2)"],
    },
    "C17": {
        "kinds": [("C17", 4500, 240000), ("C17R", 1500, 48000)],
        "rule": "one predefined tree per case (six activations, argmax, class characterisation, inf_norm, from_poly with/without else-branch, from_slice+compose+remove_axes; kind C17R: remove_axes alone on random trees with and without cached states), dims 1-5, random parameters incl. invalid ones; 8-13 inputs per case on and around every breakpoint / with ties; non-trivial = generator returns a tree; distinct by case text",
        "assumptions": COMMON_ASSUMPTIONS + ["hard sigmoid: the slope constant is the f64 value of 1/6 (checked to be within 2^-50 of 1/6); evaluation with it is compared up to rounding"],
    },
    "C02": {
        "kinds": [("C02", 1800, 64000), ("C02T", 0, 24000)],
        "rule": "one pair of random trees (K in {2,4}, total/partial, leaf-rooted operands, index holes) composed without pruning, or one apply_func; 8-10 lattice inputs per case, half of them moved onto a decision hyperplane; non-trivial = both operands have at least 3 nodes; distinct by case text",
        "assumptions": COMMON_ASSUMPTIONS + ["indices of new nodes are not compared (slab policy), only required to be fresh and distinct"],
    },
    "C13": {
        "kinds": [("C13", 4500, 160000), ("C13T", 0, 64000), ("C09", 900, 24000)],
        "rule": "one (tree shape with index holes, K in {2,3}; start node; traversal kind; skip schedule with repeated skips) per case plus all metrics and the index-order iterators with their values (node_indices forwards and backwards, terminal/decision_indices, node_iter, terminals(), decisions(), edge_iter via extract()); non-trivial = tree has at least 5 nodes; distinct by case text",
        "assumptions": COMMON_ASSUMPTIONS + ["size_hint is judged against the number of items still to come if skip_subtree is not called again (the iterator cannot know future skips)"],
    },
    "C12": {
        "kinds": [("C12", 1200, 32000), ("C12T", 0, 12000)],
        "rule": "one operation history on Tree<usize,K>, K in {2,3}, 5-30 (thorough: up to 120) steps over add_root/add_child_node/try_remove_child/remove_all_descendants/merge_child_with_parent/update_node with ~35% invalid arguments and index reuse; non-trivial = at least 12 steps; distinct by case text",
        "assumptions": COMMON_ASSUMPTIONS + ["slab key allocation is a parameter of the model (the index the implementation used is checked to be fresh)", "calls that panic (label >= K, merge on a node without exactly one child) are outside the property and only recorded"],
    },
    "C16": {
        "kinds": [("C16", 9000, 480000)],
        "rule": "one random operator/constructor call of AffFunc per case on lattice data (dims 1-5); non-trivial = the call returns (does not panic on a deliberately incompatible argument); distinct by case text",
        "assumptions": COMMON_ASSUMPTIONS + ["ndarray kernels (dot, concatenate, stack) compute the mathematically defined result on exactly representable data"],
    },
}
