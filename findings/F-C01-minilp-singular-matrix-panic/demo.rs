//! Finding F-C01-minilp-singular-matrix-panic: `afftree_from_layers` panics on a dimension-consistent network whose
//! weights are small integers times 2^9..2^11 (three stacked layers).  The panic is raised inside the external LP
//! solver: minilp 0.2.2 unwraps `Err(SingularMatrix)` in `BasisSolver::reset` (solver.rs:1301) while
//! `infeasible_elimination` solves the LP of a path polytope.
use affinitree::distill::builder::{afftree_from_layers, Layer};
use affinitree::linalg::affine::AffFunc;
use ndarray::{arr1, arr2};
use std::panic::{catch_unwind, AssertUnwindSafe};

#[test]
fn builder_completes_on_a_dimension_consistent_network() {
    let layers = vec![
        Layer::Linear(AffFunc::from_mats(arr2(&[[-10240., 2560., 6144.]]), arr1(&[-8192.]))),
        Layer::ReLU(0),
        Layer::Linear(AffFunc::from_mats(arr2(&[[1024.], [-2560.]]), arr1(&[-10240., -14336.]))),
        Layer::HardSigmoid(0),
        Layer::HardTanh(1),
        Layer::Linear(AffFunc::from_mats(
            arr2(&[[-2048., 16384.], [512., 8192.], [14336., -16384.]]),
            arr1(&[-2048., 6144., -6144.]),
        )),
        Layer::ReLU(0),
        Layer::ReLU(1),
        Layer::HardTanh(2),
    ];
    let r = catch_unwind(AssertUnwindSafe(|| afftree_from_layers(3, &layers, None)));
    assert!(r.is_ok(), "afftree_from_layers panicked: {:?}", r.err().and_then(|e| e.downcast_ref::<String>().cloned()));
}
