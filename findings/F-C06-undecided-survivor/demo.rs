//! Finding F-C06-undecided-survivor: after `infeasible_elimination` (inside `afftree_from_layers`) a decision below the
//! root is left with a single branch.  The surviving child stayed `Indeterminate`: the LP vertex minilp returned for it
//! misses `Polytope::contains` (absolute tolerance 1e-8 on un-normalised rows of norm ~1e3..1e4) and the repair
//! heuristics give up; `forward_if_redundant` only forwards a child that is marked feasible, while the deferred
//! removal still deletes the infeasible sibling.  All weights are exactly representable (small integers times 2^8..2^11).
use affinitree::distill::builder::{afftree_from_layers, Layer};
use affinitree::linalg::affine::AffFunc;
use ndarray::{arr1, arr2};

#[test]
fn distilled_network_keeps_a_single_branch_decision() {
    let l1 = AffFunc::from_mats(
        arr2(&[[2048., 0., 0.], [0., -3584., 256.], [-768., -7168., -768.]]),
        arr1(&[-3072., -2048., -6144.]),
    );
    let l2 = AffFunc::from_mats(
        arr2(&[[1536., -1536., -3584.], [-2560., 0., 3072.], [0., 768., -1024.]]),
        arr1(&[0., -7168., -3072.]),
    );
    let layers = vec![
        Layer::Linear(l1),
        Layer::ReLU(1),
        Layer::HardTanh(2),
        Layer::Linear(l2),
        Layer::HardSigmoid(0),
        Layer::HardTanh(1),
    ];
    let dd = afftree_from_layers(3, &layers, None);
    let root = dd.tree.get_root_idx();
    for idx in dd.tree.node_indices() {
        if idx != root && !dd.tree.is_leaf(idx).unwrap() {
            assert_eq!(
                dd.tree.num_children(idx),
                2,
                "decision {} below the root is left with a single branch (state of the remaining child: {:?})",
                idx,
                dd.tree.children(idx).map(|e| e.target_value.state.clone()).collect::<Vec<_>>()
            );
        }
    }
}
