#!/usr/bin/env python3
"""Regenerates MANIFEST.json from props.py and the table below (run after adding a property)."""
import json, sys, os
sys.path.insert(0, os.path.dirname(os.path.abspath(__file__)))
from props import PROPS

ALL = ["C%02d" % i for i in range(1, 20)]

REPO_FIXES = [l.strip() for l in open(os.path.join(os.path.dirname(os.path.abspath(__file__)), "hook_commits.txt")) if l.strip()] if os.path.exists(os.path.join(os.path.dirname(os.path.abspath(__file__)), "hook_commits.txt")) else []

man = {
    "version": 1,
    "setup_cmd": "./check --setup",
    "hooks": {
        "guard": "cargo feature `verif-hooks` of the affinitree crate (off by default)",
        "enable": "the harness crate /verif/harness depends on affinitree = { path = \"/repo\", features = [\"verif-hooks\"] }; with the feature on, src/verif_hooks.rs is compiled and Polytope::solve_linprog first consults verif_hooks::intercept (thread-local LP call log + fault plan)",
        "baseline_off_cmd": "cd /repo && cargo nextest run --workspace --no-fail-fast --test-threads 8 --offline || cargo test --workspace --no-fail-fast --offline",
        "source_commits": REPO_FIXES,
        "add_only": True,
    },
    "engines": [
        {"name": "lean-model-and-proofs", "path": "lean/AffVerif", "serves_properties": sorted(PROPS.keys()),
         "kind_free_text": "Lean 4 model of the crate (Model/), helper lemmas (Proofs/), property theorems (Props/Cxx.lean), kernel-checked by lake build, axioms audited with #print axioms"},
        {"name": "judge", "path": "lean/Main.lean", "serves_properties": sorted(PROPS.keys()),
         "kind_free_text": "native executable built from the Mathlib-free model: runs the model's executable definitions on the cases the harness produced from the real crate and reports every difference"},
        {"name": "harness", "path": "harness", "serves_properties": sorted(PROPS.keys()),
         "kind_free_text": "Rust crate with a path dependency on /repo (feature verif-hooks): seeded structured generators, runs the real code in-process, prints cases with exact float encoding"},
    ],
    "checks": [],
    "not_applicable": [],
    "notes": "Technique family: machine-checked proof in Lean 4. See DESIGN.md. known_findings.txt lists fixed and open findings (demonstrations of two of them on the real crate: findings/); seeded/ holds 209 independent seeded changes with the checks that report each.",
}
for pid in ALL:
    if pid in PROPS:
        c = PROPS[pid]
        man["checks"].append({
            "property_id": pid,
            "quick_cmd": f"./check {pid} --tier quick",
            "thorough_cmd": f"./check {pid} --tier thorough",
            "evidence_file": f"/verif/evidence/{pid}.json",
            "replay_cmd_template": f"./check {pid} --replay {{path}}",
            "engine": "lean-model-and-proofs",
            "level_claimed": {
                "category": "proof",
                "text": c.get("level_text", "Property theorems about the Lean model (all inputs / sizes / histories, kernel-checked), tied to the current /repo by a differential correspondence check of model vs crate on generated instances."),
                "design_ref": c.get("design_ref", "DESIGN.md section 3/" + pid),
            },
            "level_note": c.get("level_note", "Trusted: Lean kernel; axioms propext, Classical.choice, Quot.sound; hand-written model tied to the code only by sampled correspondence; harness, judge glue; f64 rounding is outside the model (exact dyadic cases only)."),
            "technique": c.get("technique", "Lean 4 theorems about an executable model + model/implementation correspondence check"),
        })
    else:
        man["not_applicable"].append({"property_id": pid, "reason": "not claimed yet: model, theorems and correspondence for this property are still being built (see DESIGN.md section 3/" + pid + ")"})
json.dump(man, open(os.path.join(os.path.dirname(os.path.abspath(__file__)), "MANIFEST.json"), "w"), indent=1)
print("MANIFEST.json written:", len(man["checks"]), "checks,", len(man["not_applicable"]), "not claimed")
