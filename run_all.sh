#!/bin/sh
# runs every claimed check (quick tier) on the current /repo; refreshes evidence/*.json
cd "$(dirname "$0")"
rc=0
for p in $(python3 -c "from props import PROPS; print(' '.join(sorted(PROPS)))"); do
  ./check $p --tier ${1:-quick} | tail -1
  [ $? -ne 0 ] && rc=1
done
exit $rc
