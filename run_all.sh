#!/bin/sh
# runs every claimed check (quick tier by default) on the current /repo; refreshes evidence/*.json.
# Prints the summary line of every check and every VIOLATION line; exit 1 if any check exits non-zero.
cd "$(dirname "$0")"
rc=0
for p in $(python3 -c "from props import PROPS; print(' '.join(sorted(PROPS)))"); do
  out=$(./check $p --tier ${1:-quick} 2>&1); c=$?
  echo "$out" | grep -E "^VIOLATION" | head -5
  echo "$out" | tail -1
  if [ $c -ne 0 ]; then rc=1; echo "FAILED: $p exit=$c"; fi
done
[ $rc -eq 0 ] && echo "ALL CHECKS PASSED" || echo "SOME CHECKS FAILED"
exit $rc
