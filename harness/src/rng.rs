//! SplitMix64: every random choice of the harness derives from one state seeded by (seed, case number).
#[derive(Clone)]
pub struct Rng(pub u64);

impl Rng {
    pub fn new(seed: u64, case: u64) -> Rng {
        let mut r = Rng(seed.wrapping_mul(0x9E3779B97F4A7C15) ^ case.wrapping_mul(0xD1B54A32D192ED03) ^ 0x5851F42D4C957F2D);
        r.next();
        r.next();
        r
    }
    pub fn next(&mut self) -> u64 {
        self.0 = self.0.wrapping_add(0x9E3779B97F4A7C15);
        let mut z = self.0;
        z = (z ^ (z >> 30)).wrapping_mul(0xBF58476D1CE4E5B9);
        z = (z ^ (z >> 27)).wrapping_mul(0x94D049BB133111EB);
        z ^ (z >> 31)
    }
    /// uniform in 0..n (n > 0)
    pub fn below(&mut self, n: usize) -> usize {
        (self.next() % (n as u64)) as usize
    }
    /// uniform in lo..=hi
    pub fn range(&mut self, lo: i64, hi: i64) -> i64 {
        lo + (self.next() % ((hi - lo + 1) as u64)) as i64
    }
    pub fn chance(&mut self, num: u64, den: u64) -> bool {
        self.next() % den < num
    }
    pub fn pick<'a, T>(&mut self, xs: &'a [T]) -> &'a T {
        &xs[self.below(xs.len())]
    }
    /// small dyadic lattice value: k / d with k in -8..=8, d in {1,2,4}; zero with extra weight
    pub fn lat(&mut self) -> f64 {
        if self.chance(1, 6) {
            return 0.0;
        }
        let k = self.range(-8, 8) as f64;
        let d = *self.pick(&[1.0, 1.0, 2.0, 4.0]);
        k / d
    }
    /// non-zero lattice value
    pub fn lat_nz(&mut self) -> f64 {
        loop {
            let v = self.lat();
            if v != 0.0 {
                return v;
            }
        }
    }
    /// small integer lattice value
    pub fn lat_int(&mut self) -> f64 {
        self.range(-4, 4) as f64
    }
}
