//! C02: un-pruned composition and apply_func on random pairs of trees (K = 2, 4), with evaluation points.
use crate::enc;
use crate::gen::*;
use crate::rng::Rng;
use affinitree::pwl::afftree::AffTree;
use ndarray::Array1;
use std::fmt::Write;
use std::panic::{catch_unwind, AssertUnwindSafe};

pub fn eval_guard<const K: usize>(t: &AffTree<K>, x: &Array1<f64>) -> String {
    let mut out = String::new();
    match catch_unwind(AssertUnwindSafe(|| t.evaluate(x))) {
        Ok(v) => enc::opt_vec(&mut out, &v),
        Err(_) => out.push_str("panic"),
    }
    out
}

/// `npts (x eval(x))…`
pub fn points_block<const K: usize>(out: &mut String, t: &AffTree<K>, pts: &[Array1<f64>]) {
    write!(out, "{}", pts.len()).unwrap();
    for x in pts {
        out.push(' ');
        enc::vec(out, x);
        out.push(' ');
        out.push_str(&eval_guard(t, x));
    }
}

fn one<const K: usize>(rng: &mut Rng, thorough: bool) -> String {
    let n = 1 + rng.below(3);
    let m = 1 + rng.below(3);
    let p = 1 + rng.below(3);
    let depth = if thorough { 3 } else { 2 };
    let fp = TreeParams { in_dim: n, out_dim: m, max_depth: depth + rng.below(2), partial16: *rng.pick(&[0, 0, 3, 6]), holes: rng.chance(1, 2), palette: 0 };
    let gp = TreeParams { in_dim: m, out_dim: p, max_depth: depth, partial16: *rng.pick(&[0, 0, 3, 6]), holes: rng.chance(1, 3), palette: 0 };
    let f: AffTree<K> = rand_tree(rng, &fp);
    let g: AffTree<K> = rand_tree(rng, &gp);
    let mut out = String::new();
    if rng.chance(1, 5) {
        // apply_func(a)
        let a = rand_aff(rng, p, m);
        let mut h = f.clone();
        let res = catch_unwind(AssertUnwindSafe(|| h.apply_func(&a)));
        out.push_str("C02 apply_func ");
        enc::afftree(&mut out, &f);
        out.push(' ');
        enc::aff(&mut out, &a);
        out.push_str(" | ");
        if res.is_err() {
            out.push_str("panic");
            return out;
        }
        out.push_str("ok ");
        enc::afftree(&mut out, &h);
        out.push(' ');
        let pts = rand_points(rng, &f, 8);
        points_block(&mut out, &h, &pts);
        return out;
    }
    let mut h = f.clone();
    let g_before = g.clone();
    // both spellings of the un-pruned composition (the VERBOSE variant only adds a progress bar)
    let verbose = rng.chance(1, 3);
    let res = catch_unwind(AssertUnwindSafe(|| if verbose { h.compose::<false, true>(&g) } else { h.compose::<false, false>(&g) }));
    out.push_str("C02 compose ");
    enc::afftree(&mut out, &f);
    out.push(' ');
    enc::afftree(&mut out, &g_before);
    out.push_str(" | ");
    if res.is_err() {
        out.push_str("panic");
        return out;
    }
    out.push_str("ok ");
    enc::afftree(&mut out, &h);
    out.push(' ');
    enc::afftree(&mut out, &g);
    out.push(' ');
    let pts = rand_points(rng, &f, 10);
    points_block(&mut out, &h, &pts);
    out
}

pub fn case(rng: &mut Rng, thorough: bool) -> String {
    if rng.chance(1, 2) {
        one::<2>(rng, thorough)
    } else {
        one::<4>(rng, thorough)
    }
}
