//! C02: un-pruned composition and apply_func on random pairs of trees (K = 2, 4), with evaluation points.
use crate::enc;
use crate::gen::*;
use crate::rng::Rng;
use affinitree::pwl::afftree::AffTree;
use ndarray::Array1;
use std::fmt::Write;
use std::panic::{catch_unwind, AssertUnwindSafe};

pub fn eval_guard<const K: usize>(t: &AffTree<K>, x: &Array1<f64>) -> String {
    let mut out = String::new();
    match catch_unwind(AssertUnwindSafe(|| t.evaluate(x))) {
        Ok(v) => enc::opt_vec(&mut out, &v),
        Err(_) => out.push_str("panic"),
    }
    out
}

/// `npts (x eval(x))…`
pub fn points_block<const K: usize>(out: &mut String, t: &AffTree<K>, pts: &[Array1<f64>]) {
    write!(out, "{}", pts.len()).unwrap();
    for x in pts {
        out.push(' ');
        enc::vec(out, x);
        out.push(' ');
        out.push_str(&eval_guard(t, x));
    }
}

/// the same tree as `g`, stored in an arena whose first root was a draft that a second `Tree::add_root` replaced
/// (documented behaviour: the new node becomes the root, the former root stays in the arena, disconnected): the
/// root does not live in slot 0 and every index differs from the usual layout
fn rerooted<const K: usize>(rng: &mut Rng, g: &AffTree<K>) -> AffTree<K> {
    use affinitree::pwl::node::AffContent;
    use affinitree::tree::graph::Tree;
    let mut tree: Tree<AffContent, K> = Tree::new();
    let root_val = g.tree.tree_node(g.tree.get_root_idx()).unwrap().value.clone();
    let draft_rows = 1 + rng.below(3);
    tree.add_root(AffContent::new(rand_aff(rng, draft_rows, g.in_dim())));
    let root = tree.add_root(root_val);
    let mut stack = vec![(g.tree.get_root_idx(), root)];
    while let Some((src, dst)) = stack.pop() {
        let children = g.tree.tree_node(src).unwrap().children;
        for (label, c) in children.iter().enumerate() {
            if let Some(c) = c {
                let v = g.tree.tree_node(*c).unwrap().value.clone();
                let d = tree.add_child_node(dst, label, v).unwrap();
                stack.push((*c, d));
            }
        }
    }
    AffTree::<K>::from_tree(tree, g.in_dim())
}

fn one<const K: usize>(rng: &mut Rng, thorough: bool) -> String {
    let n = 1 + rng.below(3);
    let m = 1 + rng.below(3);
    let p = 1 + rng.below(3);
    let depth = if thorough { 3 } else { 2 };
    let fp = TreeParams { in_dim: n, out_dim: m, max_depth: depth + rng.below(2), partial16: *rng.pick(&[0, 0, 3, 6]), holes: rng.chance(1, 2), palette: 0 };
    let gp = TreeParams { in_dim: m, out_dim: p, max_depth: depth, partial16: *rng.pick(&[0, 0, 3, 6]), holes: rng.chance(1, 3), palette: 0 };
    let f: AffTree<K> = rand_tree(rng, &fp);
    let g: AffTree<K> = rand_tree(rng, &gp);
    let mut out = String::new();
    if rng.chance(1, 5) {
        // apply_func(a)
        let a = rand_aff(rng, p, m);
        let mut h = f.clone();
        let res = catch_unwind(AssertUnwindSafe(|| h.apply_func(&a)));
        out.push_str("C02 apply_func ");
        enc::afftree(&mut out, &f);
        out.push(' ');
        enc::aff(&mut out, &a);
        out.push_str(" | ");
        if res.is_err() {
            out.push_str("panic");
            return out;
        }
        out.push_str("ok ");
        enc::afftree(&mut out, &h);
        out.push(' ');
        let pts = rand_points(rng, &f, 8);
        points_block(&mut out, &h, &pts);
        return out;
    }
    let mut h = f.clone();
    let g_before = g.clone();
    // both spellings of the un-pruned composition (the VERBOSE variant only adds a progress bar)
    let verbose = rng.chance(1, 3);
    // one right operand in eight lives in a re-rooted arena; the judge is given the plain twin (the law speaks about
    // the function of g, and indices of g never reach the result)
    let gr = if rng.chance(1, 8) { Some(rerooted(rng, &g)) } else { None };
    let gr_before = gr.as_ref().map(|t| { let mut s = String::new(); enc::afftree(&mut s, t); s });
    let g_used: &AffTree<K> = gr.as_ref().unwrap_or(&g);
    let res = catch_unwind(AssertUnwindSafe(|| if verbose { h.compose::<false, true>(g_used) } else { h.compose::<false, false>(g_used) }));
    out.push_str("C02 compose ");
    enc::afftree(&mut out, &f);
    out.push(' ');
    enc::afftree(&mut out, &g_before);
    out.push_str(" | ");
    if res.is_err() {
        out.push_str("panic");
        return out;
    }
    out.push_str("ok ");
    enc::afftree(&mut out, &h);
    out.push(' ');
    match (&gr, &gr_before) {
        (Some(t), Some(b)) => {
            let mut s = String::new();
            enc::afftree(&mut s, t);
            // unchanged re-rooted operand: reported as its plain twin; a changed one as it is
            if &s == b { enc::afftree(&mut out, &g) } else { out.push_str(&s) }
        }
        _ => enc::afftree(&mut out, &g),
    }
    out.push(' ');
    let pts = rand_points(rng, &f, 10);
    points_block(&mut out, &h, &pts);
    out
}

pub fn case(rng: &mut Rng, thorough: bool) -> String {
    if rng.chance(1, 2) {
        one::<2>(rng, thorough)
    } else {
        one::<4>(rng, thorough)
    }
}
