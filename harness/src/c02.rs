//! C02: un-pruned composition and apply_func on random pairs of trees (K = 2, 4), with evaluation points.
use crate::enc;
use crate::gen::*;
use crate::rng::Rng;
use affinitree::pwl::afftree::AffTree;
use ndarray::Array1;
use std::fmt::Write;
use std::panic::{catch_unwind, AssertUnwindSafe};

pub fn eval_guard<const K: usize>(t: &AffTree<K>, x: &Array1<f64>) -> String {
    let mut out = String::new();
    match catch_unwind(AssertUnwindSafe(|| t.evaluate(x))) {
        Ok(v) => enc::opt_vec(&mut out, &v),
        Err(_) => out.push_str("panic"),
    }
    out
}

/// `npts (x eval(x))…`
pub fn points_block<const K: usize>(out: &mut String, t: &AffTree<K>, pts: &[Array1<f64>]) {
    write!(out, "{}", pts.len()).unwrap();
    for x in pts {
        out.push(' ');
        enc::vec(out, x);
        out.push(' ');
        out.push_str(&eval_guard(t, x));
    }
}

use crate::gen::rerooted;

fn one<const K: usize>(rng: &mut Rng, thorough: bool) -> String {
    let n = 1 + rng.below(3);
    let m = 1 + rng.below(3);
    let p = 1 + rng.below(3);
    let depth = if thorough { 3 } else { 2 };
    let fp = TreeParams { in_dim: n, out_dim: m, max_depth: depth + rng.below(2), partial16: *rng.pick(&[0, 0, 3, 6]), holes: rng.chance(1, 2), palette: 0 };
    let gp = TreeParams { in_dim: m, out_dim: p, max_depth: depth, partial16: *rng.pick(&[0, 0, 3, 6]), holes: rng.chance(1, 3), palette: 0 };
    let f: AffTree<K> = rand_tree(rng, &fp);
    let mut g: AffTree<K> = rand_tree(rng, &gp);
    // now and then every terminal of the right operand (the affine map of `apply_func`) is scaled by 2^-60 or 2^-70
    // (exact: a power of two): all coefficients of the composed terminals are then far below `f64::EPSILON`, and they
    // are the function — nothing may flush them to zero
    let tiny: f64 = if rng.chance(1, 8) { (2.0f64).powi(*rng.pick(&[-60, -70])) } else { 1.0 };
    if tiny != 1.0 {
        let terms: Vec<usize> = g.tree.terminal_indices().collect();
        for i in terms {
            let v = g.tree.node_value_mut(i).unwrap();
            v.aff.mat.mapv_inplace(|c| c * tiny);
            v.aff.bias.mapv_inplace(|c| c * tiny);
        }
    }
    let mut out = String::new();
    if rng.chance(1, 5) {
        // apply_func(a)
        let mut a = rand_aff(rng, p, m);
        a.mat.mapv_inplace(|c| c * tiny);
        a.bias.mapv_inplace(|c| c * tiny);
        let mut h = f.clone();
        let res = catch_unwind(AssertUnwindSafe(|| h.apply_func(&a)));
        out.push_str(if tiny != 1.0 { "C02 apply_func tiny " } else { "C02 apply_func " });
        enc::afftree(&mut out, &f);
        out.push(' ');
        enc::aff(&mut out, &a);
        out.push_str(" | ");
        if res.is_err() {
            out.push_str("panic");
            return out;
        }
        out.push_str("ok ");
        enc::afftree(&mut out, &h);
        out.push(' ');
        let pts = rand_points(rng, &f, 8);
        points_block(&mut out, &h, &pts);
        return out;
    }
    let mut h = f.clone();
    let g_before = g.clone();
    // both spellings of the un-pruned composition (the VERBOSE variant only adds a progress bar)
    let verbose = rng.chance(1, 3);
    // one right operand in eight lives in a re-rooted arena; the judge is given the plain twin (the law speaks about
    // the function of g, and indices of g never reach the result)
    let gr = if rng.chance(1, 8) { Some(rerooted(rng, &g)) } else { None };
    let gr_before = gr.as_ref().map(|t| { let mut s = String::new(); enc::afftree(&mut s, t); s });
    let g_used: &AffTree<K> = gr.as_ref().unwrap_or(&g);
    let res = catch_unwind(AssertUnwindSafe(|| if verbose { h.compose::<false, true>(g_used) } else { h.compose::<false, false>(g_used) }));
    out.push_str(if tiny != 1.0 { "C02 compose tiny " } else { "C02 compose " });
    enc::afftree(&mut out, &f);
    out.push(' ');
    enc::afftree(&mut out, &g_before);
    out.push_str(" | ");
    if res.is_err() {
        out.push_str("panic");
        return out;
    }
    out.push_str("ok ");
    enc::afftree(&mut out, &h);
    out.push(' ');
    match (&gr, &gr_before) {
        (Some(t), Some(b)) => {
            let mut s = String::new();
            enc::afftree(&mut s, t);
            // unchanged re-rooted operand: reported as its plain twin; a changed one as it is
            if &s == b { enc::afftree(&mut out, &g) } else { out.push_str(&s) }
        }
        _ => enc::afftree(&mut out, &g),
    }
    out.push(' ');
    let pts = rand_points(rng, &f, 10);
    points_block(&mut out, &h, &pts);
    out
}

pub fn case(rng: &mut Rng, thorough: bool) -> String {
    if rng.chance(1, 2) {
        one::<2>(rng, thorough)
    } else {
        one::<4>(rng, thorough)
    }
}
