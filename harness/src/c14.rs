//! C14: polytope constructors and transformations, with membership queries at lattice points (half of them on a facet).
use crate::enc;
use crate::gen::*;
use crate::rng::Rng;
use affinitree::linalg::affine::Polytope;
use ndarray::{Array1, Array2};
use std::fmt::Write;
use std::panic::{catch_unwind, AssertUnwindSafe};

fn unimodular(rng: &mut Rng, n: usize) -> (Array2<f64>, Array2<f64>) {
    // product of elementary integer row operations and its exact inverse
    let mut m = Array2::<f64>::eye(n);
    let mut inv = Array2::<f64>::eye(n);
    for _ in 0..(1 + rng.below(4)) {
        if n < 2 {
            let s = if rng.chance(1, 2) { 1.0 } else { -1.0 };
            m[[0, 0]] *= s;
            inv[[0, 0]] *= s;
            continue;
        }
        let i = rng.below(n);
        let mut j = rng.below(n);
        if i == j {
            j = (j + 1) % n;
        }
        let k = rng.range(-2, 2) as f64;
        // M := E M with E = I + k e_i e_j^T ; inv := inv E^{-1}
        let mut e = Array2::<f64>::eye(n);
        e[[i, j]] = k;
        let mut einv = Array2::<f64>::eye(n);
        einv[[i, j]] = -k;
        m = e.dot(&m);
        inv = inv.dot(&einv);
    }
    (m, inv)
}

fn signed_perm(rng: &mut Rng, n: usize) -> Array2<f64> {
    let mut idx: Vec<usize> = (0..n).collect();
    for i in (1..n).rev() {
        let j = rng.below(i + 1);
        idx.swap(i, j);
    }
    let mut r = Array2::<f64>::zeros((n, n));
    for (i, j) in idx.iter().enumerate() {
        r[[i, *j]] = if rng.chance(1, 2) { 1.0 } else { -1.0 };
    }
    r
}

/// lattice points, about half of them moved onto a facet of `p`
fn pts_for(rng: &mut Rng, p: &Polytope, n: usize, count: usize) -> Vec<Array1<f64>> {
    let mut pts = Vec::new();
    for _ in 0..count {
        let mut x = rand_int_vec(rng, n);
        if p.n_constraints() > 0 && rng.chance(1, 2) {
            let r = rng.below(p.n_constraints());
            for j in 0..n {
                let c = p.mat[[r, j]];
                if c != 0.0 {
                    let rest: f64 = (0..n).filter(|k| *k != j).map(|k| p.mat[[r, k]] * x[k]).sum();
                    let v = (p.bias[r] - rest) / c;
                    if (v * 64.0).fract() == 0.0 && v.abs() < 1024.0 {
                        x[j] = v;
                    }
                    break;
                }
            }
        }
        pts.push(x);
    }
    pts
}

fn finish(out: &mut String, r: Result<Polytope, ()>, rng: &mut Rng, n_out: usize) {
    out.push_str(" | ");
    match r {
        Err(_) => out.push_str("panic"),
        Ok(q) => {
            out.push_str("ok ");
            enc::poly(out, &q);
            let pts = pts_for(rng, &q, n_out, 10);
            write!(out, " {}", pts.len()).unwrap();
            for x in pts {
                out.push(' ');
                enc::vec(out, &x);
                let c = catch_unwind(AssertUnwindSafe(|| q.contains(&x)));
                match c {
                    Ok(b) => write!(out, " {}", if b { 1 } else { 0 }).unwrap(),
                    Err(_) => out.push_str(" 2"),
                }
                let d = catch_unwind(AssertUnwindSafe(|| q.distance(&x)));
                out.push(' ');
                match d {
                    Ok(d) => enc::vec(out, &d),
                    Err(_) => out.push('0'),
                }
            }
        }
    }
}

fn opt(x: Option<f64>, neg: bool) -> f64 {
    match x {
        Some(v) => v,
        None => {
            if neg {
                f64::NEG_INFINITY
            } else {
                f64::INFINITY
            }
        }
    }
}

pub fn case(rng: &mut Rng) -> String {
    let n = 1 + rng.below(4);
    let mut out = String::from("C14 ");
    let guard = |f: &dyn Fn() -> Polytope| -> Result<Polytope, ()> { catch_unwind(AssertUnwindSafe(f)).map_err(|_| ()) };
    match rng.below(15) {
        0 => {
            let rp = 1 + rng.below(4);
            let rq = 1 + rng.below(4);
            let p = rand_poly(rng, rp, n);
            let qn = if rng.chance(1, 10) { n + 1 } else { n };
            let q = rand_poly(rng, rq, qn);
            out.push_str("intersection ");
            enc::poly(&mut out, &p);
            out.push(' ');
            enc::poly(&mut out, &q);
            let r = guard(&|| p.intersection(&q));
            finish(&mut out, r, rng, n);
        }
        1 => {
            let k = rng.below(4);
            let ps: Vec<Polytope> = (0..k).map(|_| { let r = 1 + rng.below(3); rand_poly(rng, r, n) }).collect();
            write!(out, "intersection_n {} {}", n, k).unwrap();
            for p in &ps {
                out.push(' ');
                enc::poly(&mut out, p);
            }
            let r = guard(&|| Polytope::intersection_n(n, &ps));
            finish(&mut out, r, rng, n);
        }
        2 => {
            let rp = 1 + rng.below(4);
            let p = rand_poly(rng, rp, n);
            let d = rand_vec(rng, n);
            out.push_str("translate ");
            enc::poly(&mut out, &p);
            out.push(' ');
            enc::vec(&mut out, &d);
            let r = guard(&|| p.translate(&d));
            finish(&mut out, r, rng, n);
        }
        3 => {
            let m = 1 + rng.below(3);
            let rp = 1 + rng.below(4);
            let p = rand_poly(rng, rp, m);
            let fm = if rng.chance(1, 10) { m + 1 } else { m };
            let f = rand_aff(rng, fm, n);
            out.push_str("apply_pre ");
            enc::poly(&mut out, &p);
            out.push(' ');
            enc::aff(&mut out, &f);
            let r = guard(&|| p.apply_pre(&f));
            finish(&mut out, r, rng, n);
        }
        4 => {
            let rp = 1 + rng.below(4);
            let p = rand_poly(rng, rp, n);
            let (m, inv) = unimodular(rng, n);
            let c = rand_int_vec(rng, n);
            out.push_str("apply_post ");
            enc::poly(&mut out, &p);
            out.push(' ');
            enc::mat(&mut out, &m);
            out.push(' ');
            enc::mat(&mut out, &inv);
            out.push(' ');
            enc::vec(&mut out, &c);
            let r = guard(&|| p.apply_post(&inv, &c));
            finish(&mut out, r, rng, n);
        }
        5 => {
            let rp = 1 + rng.below(4);
            let mut p = rand_poly(rng, rp, n);
            // now and then some rows are scaled by 2^-40 (coefficients and bias: the same half-space, exactly): small
            // coefficients are the facet, nothing may snap them to zero
            if rng.chance(1, 4) {
                let k = (2.0f64).powi(-40);
                for i in 0..rp {
                    if rng.chance(1, 2) {
                        p.mat.row_mut(i).mapv_inplace(|v| v * k);
                        p.bias[i] *= k;
                    }
                }
            }
            let rot = signed_perm(rng, n);
            out.push_str("rotate ");
            enc::poly(&mut out, &p);
            out.push(' ');
            enc::mat(&mut out, &rot);
            let r = guard(&|| p.rotate(&rot));
            finish(&mut out, r, rng, n);
        }
        6 => {
            let r0 = rng.lat().abs();
            write!(out, "hypercube {} {}", n, enc::num(r0)).unwrap();
            let r = guard(&|| Polytope::hypercube(n, r0));
            finish(&mut out, r, rng, n);
        }
        7 => {
            let ivs: Vec<(Option<f64>, Option<f64>)> = (0..n)
                .map(|_| {
                    let lo = if rng.chance(1, 4) { None } else { Some(rng.lat_int()) };
                    let hi = if rng.chance(1, 4) { None } else { Some(lo.unwrap_or(0.0) + rng.below(4) as f64) };
                    (lo, hi)
                })
                .collect();
            write!(out, "hyperrectangle {}", n).unwrap();
            for (l, h) in &ivs {
                write!(out, " {} {}", enc::num(opt(*l, true)), enc::num(opt(*h, false))).unwrap();
            }
            let raw: Vec<(f64, f64)> = ivs.iter().map(|(l, h)| (opt(*l, true), opt(*h, false))).collect();
            let r = guard(&|| Polytope::hyperrectangle(&raw));
            finish(&mut out, r, rng, n);
        }
        8 => {
            let axis = if rng.chance(1, 10) { n } else { rng.below(n) };
            let lo = if rng.chance(1, 3) { None } else { Some(rng.lat_int()) };
            let hi = if rng.chance(1, 3) { None } else { Some(lo.unwrap_or(0.0) + rng.below(4) as f64 - if rng.chance(1, 10) { 5.0 } else { 0.0 }) };
            write!(out, "axis_bounds {} {} {} {}", n, axis, enc::num(opt(lo, true)), enc::num(opt(hi, false))).unwrap();
            let r = guard(&|| Polytope::axis_bounds(n, axis, opt(lo, true), opt(hi, false)));
            finish(&mut out, r, rng, n);
        }
        9 => {
            write!(out, "unbounded {}", n).unwrap();
            let r = guard(&|| Polytope::unbounded(n));
            finish(&mut out, r, rng, n);
        }
        10 => {
            write!(out, "empty {}", n).unwrap();
            let r = guard(&|| Polytope::empty(n));
            finish(&mut out, r, rng, n);
        }
        11 => {
            write!(out, "simplex {}", n).unwrap();
            let r = guard(&|| Polytope::simplex(n));
            finish(&mut out, r, rng, n);
        }
        12 => {
            write!(out, "cross_polytope {}", n).unwrap();
            let r = guard(&|| Polytope::cross_polytope(n));
            finish(&mut out, r, rng, n);
        }
        _ => {
            let k = 1 + rng.below(4);
            let nv = rand_mat(rng, k, n);
            let pv = rand_mat(rng, k, n);
            out.push_str("from_normal ");
            enc::mat(&mut out, &nv);
            out.push(' ');
            enc::mat(&mut out, &pv);
            let r = guard(&|| Polytope::from_normal(nv.clone(), pv.clone()));
            finish(&mut out, r, rng, n);
        }
    }
    out
}
