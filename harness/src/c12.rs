//! C12: operation histories on the bare arena tree `Tree<usize, K>`; the full arena is dumped after every step.
use crate::enc;
use crate::rng::Rng;
use affinitree::tree::graph::{NodeError, Tree};
use std::fmt::Write;
use std::panic::{catch_unwind, AssertUnwindSafe};

fn err_name(e: &NodeError) -> &'static str {
    match e {
        NodeError::InvalidIndex(_) => "invalidIndex",
        NodeError::MissingChild { .. } => "missingChild",
        NodeError::MissingParent { .. } => "missingParent",
        NodeError::NodeExists { .. } => "nodeExists",
        NodeError::ChildExists { .. } => "childExists",
        NodeError::RootNode => "rootNode",
        NodeError::NodeNotFound => "nodeNotFound",
    }
}

fn history<const K: usize>(rng: &mut Rng, steps: usize) -> String {
    let mut out = String::new();
    let mut t = Tree::<usize, K>::new();
    write!(out, "C12 {} ", steps).unwrap();
    enc::tree_usize(&mut out, &t, false);
    let mut has_root = false;
    let mut next_val = 100;
    // after a second `add_root` the replaced tree stays in the arena, disconnected (the documented exception): the
    // operations are then aimed at the nodes of the current tree or at indices that are not stored at all
    let mut rerooted = false;
    for _ in 0..steps {
        let live: Vec<usize> = if rerooted { t.dfs_iter().map(|d| d.index).collect() } else { t.node_indices().collect() };
        let max_idx = t.node_indices().max().unwrap_or(0);
        let pick_idx = |rng: &mut Rng| -> usize {
            if live.is_empty() || rng.chance(1, 8) {
                if rerooted { max_idx + 1 + rng.below(4) } else { rng.below(live.len() + 4) } // possibly dead / never used index
            } else {
                *rng.pick(&live)
            }
        };
        next_val += 1;
        out.push_str(" ; ");
        if has_root && t.len() >= 2 && rng.chance(1, 30) {
            let v = next_val;
            let idx = t.add_root(v);
            rerooted = true;
            write!(out, "root {} | ok {} ", v, idx).unwrap();
            enc::tree_usize(&mut out, &t, has_root);
            continue;
        }
        if !has_root {
            let v = next_val;
            let idx = t.add_root(v);
            has_root = true;
            write!(out, "root {} | ok {} ", v, idx).unwrap();
            enc::tree_usize(&mut out, &t, has_root);
            continue;
        }
        let choice = rng.below(100);
        if choice < 45 {
            let p = pick_idx(rng);
            let l = rng.below(K);
            let v = next_val;
            write!(out, "add {} {} {} | ", p, l, v).unwrap();
            match catch_unwind(AssertUnwindSafe(|| t.add_child_node(p, l, v))) {
                Ok(Ok(i)) => write!(out, "ok {} ", i).unwrap(),
                Ok(Err(e)) => write!(out, "err {} ", err_name(&e)).unwrap(),
                Err(_) => out.push_str("panic "),
            }
        } else if choice < 62 {
            let p = pick_idx(rng);
            let l = rng.below(K);
            write!(out, "rm {} {} | ", p, l).unwrap();
            // the panicking spelling `remove_child` for half of the calls that are valid (it is `try_remove_child`
            // plus `expect`: same effect, same returned value)
            let valid = l < K && t.contains(p) && t.child(p, l).is_ok();
            let via_expect = valid && rng.chance(1, 2);
            match catch_unwind(AssertUnwindSafe(|| if via_expect { Ok(t.remove_child(p, l)) } else { t.try_remove_child(p, l) })) {
                Ok(Ok(v)) => write!(out, "ok {} ", v).unwrap(),
                Ok(Err(e)) => write!(out, "err {} ", err_name(&e)).unwrap(),
                Err(_) => out.push_str("panic "),
            }
        } else if choice < 72 {
            let i = pick_idx(rng);
            write!(out, "rmall {} | ", i).unwrap();
            match catch_unwind(AssertUnwindSafe(|| t.remove_all_descendants(i))) {
                Ok(Ok(n)) => write!(out, "ok {} ", n).unwrap(),
                Ok(Err(_)) => out.push_str("err invalidIndex "),
                Err(_) => out.push_str("panic "),
            }
        } else if choice < 88 {
            // prefer nodes with exactly one child (the call asserts that), sometimes others
            let single: Vec<usize> = live.iter().copied().filter(|i| t.num_children(*i) == 1).collect();
            let p = if !single.is_empty() && rng.chance(7, 8) { *rng.pick(&single) } else if live.is_empty() { 0 } else { *rng.pick(&live) };
            let l = if rng.chance(3, 4) {
                t.tree_node(p).ok().and_then(|nd| nd.children_iter().next().map(|(l, _)| l)).unwrap_or(0)
            } else {
                rng.below(K)
            };
            write!(out, "merge {} {} | ", p, l).unwrap();
            match catch_unwind(AssertUnwindSafe(|| t.merge_child_with_parent(p, l))) {
                Ok(Ok(nd)) => write!(out, "ok {} ", nd.value).unwrap(),
                Ok(Err(e)) => write!(out, "err {} ", err_name(&e)).unwrap(),
                Err(_) => out.push_str("panic "),
            }
        } else {
            let i = pick_idx(rng);
            let v = next_val;
            write!(out, "upd {} {} | ", i, v).unwrap();
            match catch_unwind(AssertUnwindSafe(|| t.update_node(i, v))) {
                Ok(Ok(old)) => write!(out, "ok {} ", old).unwrap(),
                Ok(Err(e)) => write!(out, "err {} ", err_name(&e)).unwrap(),
                Err(_) => out.push_str("panic "),
            }
        }
        enc::tree_usize(&mut out, &t, has_root);
    }
    out
}

pub fn case(rng: &mut Rng, thorough: bool) -> String {
    let steps = if thorough { 10 + rng.below(110) } else { 5 + rng.below(25) };
    if rng.chance(1, 2) {
        history::<2>(rng, steps)
    } else {
        history::<3>(rng, steps)
    }
}
