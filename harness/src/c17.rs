//! C17: the predefined trees of `distill::schema`, `from_poly`, `from_slice` + `remove_axes`.
use crate::c02::points_block;
use crate::enc;
use crate::gen::*;
use crate::rng::Rng;
use affinitree::distill::schema;
use affinitree::linalg::affine::{AffFunc, Polytope};
use affinitree::pwl::afftree::AffTree;
use ndarray::Array1;
use std::fmt::Write;
use std::panic::{catch_unwind, AssertUnwindSafe};

/// points with component `r` on and around the given breakpoints
fn pts_around(rng: &mut Rng, n: usize, r: usize, breaks: &[f64], count: usize) -> Vec<Array1<f64>> {
    let mut pts = Vec::new();
    for k in 0..count {
        let mut x = rand_vec(rng, n);
        if r < n && !breaks.is_empty() && k % 3 != 2 {
            let b = *rng.pick(breaks);
            x[r] = b + *rng.pick(&[0.0, 0.0, 0.25, -0.25, 1.0, -1.0]);
            if rng.chance(1, 8) {
                x[r] = nudge(b, rng.chance(1, 2));
            }
        }
        pts.push(x);
    }
    pts
}

fn tie_points(rng: &mut Rng, n: usize, count: usize) -> Vec<Array1<f64>> {
    (0..count)
        .map(|_| {
            let mut x = Array1::from_iter((0..n).map(|_| *rng.pick(&[-1.0, 0.0, 0.0, 1.0, 1.0, 2.0, 0.5])));
            // near ties: one component one unit in the last place above / below another
            if n >= 2 && rng.chance(1, 3) {
                let i = rng.below(n);
                let j = (i + 1 + rng.below(n - 1)) % n;
                x[j] = nudge(x[i], rng.chance(1, 2));
            }
            x
        })
        .collect()
}

fn finish(out: &mut String, t: Result<AffTree<2>, ()>, pts: &[Array1<f64>]) {
    out.push_str(" | ");
    match t {
        Err(_) => out.push_str("panic"),
        Ok(t) => {
            out.push_str("ok ");
            enc::afftree(out, &t);
            out.push(' ');
            points_block(out, &t, pts);
        }
    }
}

fn build<F: FnOnce() -> AffTree<2>>(f: F) -> Result<AffTree<2>, ()> {
    catch_unwind(AssertUnwindSafe(f)).map_err(|_| ())
}

pub fn case(rng: &mut Rng) -> String {
    let mut out = String::from("C17 ");
    let n = 1 + rng.below(5);
    let r = if rng.chance(1, 12) { n } else { rng.below(n) };
    match rng.below(14) {
        0 => {
            write!(out, "relu {} {}", n, r).unwrap();
            let pts = pts_around(rng, n, r, &[0.0], 8);
            finish(&mut out, build(|| schema::partial_ReLU(n, r)), &pts);
        }
        1 => {
            let a = *rng.pick(&[0.0, 0.5, 0.25, -0.5, 1.0, 2.0, -1.0, 0.125]);
            write!(out, "leaky {} {} {}", n, r, enc::num(a)).unwrap();
            let pts = pts_around(rng, n, r, &[0.0], 8);
            finish(&mut out, build(|| schema::partial_leaky_ReLU(n, r, a)), &pts);
        }
        2 => {
            let lo = rng.lat();
            let hi = if rng.chance(1, 6) { lo } else if rng.chance(1, 10) { lo - 1.0 } else { lo + rng.lat().abs() };
            write!(out, "hard_tanh {} {} {} {}", n, r, enc::num(lo), enc::num(hi)).unwrap();
            let pts = pts_around(rng, n, r, &[lo, hi], 9);
            finish(&mut out, build(|| schema::partial_hard_tanh(n, r, lo, hi)), &pts);
        }
        3 => {
            let lam = if rng.chance(1, 8) { -rng.lat().abs() } else { rng.lat().abs() };
            write!(out, "hard_shrink {} {} {}", n, r, enc::num(lam)).unwrap();
            let pts = pts_around(rng, n, r, &[lam, -lam], 9);
            finish(&mut out, build(|| schema::partial_hard_shrink(n, r, lam)), &pts);
        }
        4 => {
            // the constants of the code, printed exactly, so that the model uses the very same numbers
            write!(out, "hard_sigmoid {} {} {} {} {}", n, r, enc::num(3.), enc::num(1. / 6.), enc::num(0.5)).unwrap();
            let pts = pts_around(rng, n, r, &[3.0, -3.0, 0.0], 9);
            finish(&mut out, build(|| schema::partial_hard_sigmoid(n, r)), &pts);
        }
        5 => {
            let thr = rng.lat();
            let v = rng.lat();
            write!(out, "threshold {} {} {} {}", n, r, enc::num(thr), enc::num(v)).unwrap();
            let pts = pts_around(rng, n, r, &[thr], 8);
            finish(&mut out, build(|| schema::partial_threshold(n, r, thr, v)), &pts);
        }
        6 | 7 => {
            let n = if rng.chance(1, 12) { 1 } else { 2 + rng.below(4) };
            write!(out, "argmax {}", n).unwrap();
            let mut pts = tie_points(rng, n, 10);
            pts.extend(pts_around(rng, n, 0, &[], 3));
            finish(&mut out, build(|| schema::argmax(n)), &pts);
        }
        8 => {
            let n = if rng.chance(1, 12) { 1 } else { 2 + rng.below(4) };
            let c = if rng.chance(1, 12) { n } else { rng.below(n) };
            write!(out, "class_char {} {}", n, c).unwrap();
            let mut pts = tie_points(rng, n, 10);
            pts.extend(pts_around(rng, n, 0, &[], 3));
            finish(&mut out, build(|| schema::class_characterization(n, c)), &pts);
        }
        9 => {
            let lo = if rng.chance(2, 3) { Some(-rng.lat().abs()) } else { None };
            let hi = if lo.is_none() || rng.chance(2, 3) { Some(rng.lat().abs()) } else { None };
            write!(out, "inf_norm {} {} {}", n, lo.map(enc::num).unwrap_or("none".into()), hi.map(enc::num).unwrap_or("none".into())).unwrap();
            let mut pts = Vec::new();
            for _ in 0..10 {
                let mut x = Array1::from_iter((0..n).map(|_| {
                    let l = lo.unwrap_or(-2.0);
                    let h = hi.unwrap_or(2.0);
                    *rng.pick(&[l, h, (l + h) / 2.0, l, h, 0.0])
                }));
                if rng.chance(1, 2) {
                    let j = rng.below(n);
                    x[j] += *rng.pick(&[0.25, -0.25, 1.0, -1.0]);
                }
                pts.push(x);
            }
            finish(&mut out, build(|| schema::inf_norm(n, lo, hi)), &pts);
        }
        10 | 11 => {
            let rows = 1 + rng.below(3);
            let p = rand_poly(rng, rows, n);
            let m = 1 + rng.below(3);
            let ft = rand_aff(rng, m, n);
            let ff = if rng.chance(1, 2) { Some(rand_aff(rng, m, n)) } else { None };
            out.push_str("from_poly ");
            enc::poly(&mut out, &p);
            out.push(' ');
            enc::aff(&mut out, &ft);
            match &ff {
                Some(f) => {
                    out.push_str(" some ");
                    enc::aff(&mut out, f);
                }
                None => out.push_str(" none"),
            }
            let t = build(|| AffTree::<2>::from_poly(p.clone(), ft.clone(), ff.as_ref()).unwrap());
            let pts = match &t {
                Ok(t) => rand_points(rng, t, 10),
                Err(_) => vec![],
            };
            finish(&mut out, t, &pts);
        }
        _ => {
            // from_slice + compose + remove_axes = restriction of a tree to an axis-aligned slice
            let n = 2 + rng.below(3);
            let tp = TreeParams { in_dim: n, out_dim: 1 + rng.below(2), max_depth: 2, partial16: *rng.pick(&[0, 3]), holes: false, palette: 0 };
            let g: AffTree<2> = rand_tree(rng, &tp);
            // the reference point: an integer vector, or a point that lies on a decision hyperplane of g (then a
            // decision whose variables are all fixed becomes the constant predicate `0 <= 0` in the slice)
            // (only points on the small dyadic lattice: a reference point one unit in the last place off a hyperplane
            // is rounded away when `from_slice` is composed, which is the rounding clause, not the restriction law)
            let mut refp = if rng.chance(1, 2) {
                rand_int_vec(rng, n)
            } else {
                rand_points(rng, &g, 4)
                    .into_iter()
                    .find(|p| p.iter().all(|v| (v * 1024.0).fract() == 0.0 && v.abs() < 64.0))
                    .unwrap_or_else(|| rand_int_vec(rng, n))
            };
            let mut mask = Vec::new();
            for j in 0..n {
                let keep = rng.chance(1, 2);
                mask.push(keep);
                if keep {
                    refp[j] = f64::NAN;
                }
            }
            if mask.iter().all(|k| !*k) {
                mask[0] = true;
                refp[0] = f64::NAN;
            }
            // both spellings of the composition: without pruning (compared with the model tree) and with pruning on
            // the fly (the restriction law is the same; the tree is only evaluated)
            let pruned = rng.chance(1, 3);
            out.push_str(if pruned { "sliceP " } else { "slice " });
            enc::afftree(&mut out, &g);
            out.push(' ');
            enc::vec(&mut out, &refp);
            let t = build(|| {
                let mut s = AffTree::<2>::from_slice(&refp);
                if pruned {
                    s.compose::<true, false>(&g);
                } else {
                    s.compose::<false, false>(&g);
                }
                s.remove_axes(&Array1::from_vec(mask.clone())).unwrap();
                s
            });
            let kept = mask.iter().filter(|k| **k).count();
            let pts: Vec<Array1<f64>> = (0..8).map(|_| rand_int_vec(rng, kept)).collect();
            finish(&mut out, t, &pts);
        }
    }
    out
}

/// C17R: `remove_axes` on a tree that carries cached feasibility states (after `infeasible_elimination`): the dropped
/// columns pin the removed coordinates to 0, every path condition changes, so every cached state must be reset
pub fn case_remove_axes(rng: &mut Rng) -> String {
    let mut out = String::from("C17R ");
    let n = 2 + rng.below(3);
    let tp = TreeParams { in_dim: n, out_dim: 1 + rng.below(2), max_depth: 3, partial16: *rng.pick(&[0, 0, 3]), holes: false, palette: 0 };
    let mut g: AffTree<2> = rand_tree(rng, &tp);
    let swept = rng.chance(3, 4);
    if swept {
        if catch_unwind(AssertUnwindSafe(|| { g.infeasible_elimination(); })).is_err() {
            return String::from("C17R sweep-panic");
        }
    }
    let mut mask = Vec::new();
    for _ in 0..n {
        mask.push(rng.chance(1, 2));
    }
    if mask.iter().all(|k| !*k) {
        mask[0] = true;
    }
    if mask.iter().all(|k| *k) {
        mask[n - 1] = false;
    }
    write!(out, "{} ", n).unwrap();
    for k in &mask {
        write!(out, "{} ", if *k { 1 } else { 0 }).unwrap();
    }
    enc::afftree(&mut out, &g);
    let t = build(|| {
        let mut s = g.clone();
        s.remove_axes(&Array1::from_vec(mask.clone())).unwrap();
        s
    });
    let kept = mask.iter().filter(|k| **k).count();
    let pts: Vec<Array1<f64>> = (0..8).map(|_| rand_int_vec(rng, kept)).collect();
    finish(&mut out, t, &pts);
    out
}

