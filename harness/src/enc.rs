//! Exact text encoding of floats, arrays, affine maps and trees (the line protocol read by the judge).
use affinitree::linalg::affine::{AffFunc, Polytope};
use affinitree::pwl::afftree::AffTree;
use affinitree::pwl::node::{AffContent, NodeState};
use affinitree::tree::graph::Tree;
use ndarray::{Array1, Array2};
use std::fmt::Write;

/// `<mantissa>p<exponent>` with value = mantissa * 2^exponent; `nan`, `inf`, `-inf` otherwise
pub fn num(x: f64) -> String {
    if x.is_nan() {
        return "nan".to_string();
    }
    if x.is_infinite() {
        return if x > 0.0 { "inf".to_string() } else { "-inf".to_string() };
    }
    if x == 0.0 {
        return if x.is_sign_negative() { "-0p0".to_string() } else { "0p0".to_string() };
    }
    let bits = x.to_bits();
    let neg = (bits >> 63) != 0;
    let exp_bits = ((bits >> 52) & 0x7ff) as i64;
    let frac = bits & 0x000f_ffff_ffff_ffff;
    let (mut mant, mut exp) = if exp_bits == 0 {
        (frac, -1074i64)
    } else {
        (frac | (1u64 << 52), exp_bits - 1075)
    };
    while mant & 1 == 0 {
        mant >>= 1;
        exp += 1;
    }
    format!("{}{}p{}", if neg { "-" } else { "" }, mant, exp)
}

pub fn vec(out: &mut String, v: &Array1<f64>) {
    write!(out, "{}", v.len()).unwrap();
    for x in v.iter() {
        write!(out, " {}", num(*x)).unwrap();
    }
}

pub fn slice(out: &mut String, v: &[f64]) {
    write!(out, "{}", v.len()).unwrap();
    for x in v.iter() {
        write!(out, " {}", num(*x)).unwrap();
    }
}

pub fn nats(out: &mut String, v: &[usize]) {
    write!(out, "{}", v.len()).unwrap();
    for x in v.iter() {
        write!(out, " {}", x).unwrap();
    }
}

pub fn mat(out: &mut String, m: &Array2<f64>) {
    write!(out, "{} {}", m.nrows(), m.ncols()).unwrap();
    for r in m.rows() {
        for x in r.iter() {
            write!(out, " {}", num(*x)).unwrap();
        }
    }
}

pub fn aff_parts(out: &mut String, m: &Array2<f64>, b: &Array1<f64>) {
    mat(out, m);
    for x in b.iter() {
        write!(out, " {}", num(*x)).unwrap();
    }
}

pub fn aff(out: &mut String, f: &AffFunc) {
    aff_parts(out, &f.mat, &f.bias);
}

pub fn poly(out: &mut String, f: &Polytope) {
    aff_parts(out, &f.mat, &f.bias);
}

pub fn opt_idx(x: Option<usize>) -> String {
    match x {
        Some(i) => i.to_string(),
        None => "-1".to_string(),
    }
}

pub fn state(out: &mut String, s: &NodeState) {
    match s {
        NodeState::Indeterminate => out.push('I'),
        NodeState::Infeasible => out.push('X'),
        NodeState::Feasible => out.push('F'),
        NodeState::FeasibleWitness(ws) => {
            write!(out, "W {}", ws.len()).unwrap();
            for w in ws {
                out.push(' ');
                vec(out, w);
            }
        }
    }
}

/// arena dump of a generic tree with `usize` values
pub fn tree_usize<const K: usize>(out: &mut String, t: &Tree<usize, K>, has_root: bool) {
    let root = if has_root && !t.is_empty() { Some(t.get_root_idx()) } else { None };
    write!(out, "{} {} {}", K, opt_idx(root), t.len()).unwrap();
    for (idx, nd) in t.node_iter() {
        write!(out, " {} {}", idx, opt_idx(nd.parent)).unwrap();
        for c in nd.children.iter() {
            write!(out, " {}", opt_idx(*c)).unwrap();
        }
        write!(out, " {} {}", if nd.isleaf { 1 } else { 0 }, nd.value).unwrap();
    }
}

/// arena dump of an AffTree: `in_dim` then the arena with `state aff` as node value
pub fn afftree<const K: usize>(out: &mut String, t: &AffTree<K>) {
    write!(out, "{} ", t.in_dim()).unwrap();
    afftree_arena(out, &t.tree);
}

thread_local! {
    /// arena index of the draft root that a second `Tree::add_root` left behind, disconnected (the documented
    /// exception to reachability); it is not part of the tree and is left out of the dumps of the current case
    pub static ORPHAN: std::cell::Cell<Option<usize>> = const { std::cell::Cell::new(None) };
}

pub fn afftree_arena<const K: usize>(out: &mut String, t: &Tree<AffContent, K>) {
    let orphan = ORPHAN.with(|o| o.get()).filter(|o| t.node_iter().any(|(i, nd)| i == *o && nd.parent.is_none() && i != t.get_root_idx()));
    write!(out, "{} {} {}", K, opt_idx(Some(t.get_root_idx())), t.len() - if orphan.is_some() { 1 } else { 0 }).unwrap();
    for (idx, nd) in t.node_iter() {
        if Some(idx) == orphan {
            continue;
        }
        write!(out, " {} {}", idx, opt_idx(nd.parent)).unwrap();
        for c in nd.children.iter() {
            write!(out, " {}", opt_idx(*c)).unwrap();
        }
        write!(out, " {} ", if nd.isleaf { 1 } else { 0 }).unwrap();
        state(out, &nd.value.state);
        out.push(' ');
        aff(out, &nd.value.aff);
    }
}

/// `some <vec>` / `none`
pub fn opt_vec(out: &mut String, v: &Option<Array1<f64>>) {
    match v {
        Some(v) => {
            out.push_str("some ");
            vec(out, v);
        }
        None => out.push_str("none"),
    }
}

/// hex of the UTF-8 bytes (strings travel as one token)
pub fn hex(s: &str) -> String {
    let mut out = String::with_capacity(2 * s.len() + 1);
    if s.is_empty() {
        out.push('-');
    }
    for b in s.bytes() {
        out.push_str(&format!("{:02x}", b));
    }
    out
}
