//! Structured generators built from the crate's own constructors.
use crate::rng::Rng;
use affinitree::linalg::affine::{AffFunc, Polytope};
use affinitree::pwl::afftree::AffTree;
use affinitree::tree::graph::Tree;
use ndarray::{Array1, Array2};

pub fn rand_vec(rng: &mut Rng, n: usize) -> Array1<f64> {
    Array1::from_iter((0..n).map(|_| rng.lat()))
}

pub fn rand_int_vec(rng: &mut Rng, n: usize) -> Array1<f64> {
    Array1::from_iter((0..n).map(|_| rng.lat_int()))
}

pub fn rand_mat(rng: &mut Rng, rows: usize, cols: usize) -> Array2<f64> {
    // one matrix in four is stored column-major (what `.t().to_owned()`, Fortran-order `.npy` files and
    // `from_shape_vec(.f())` produce): nothing in the crate may depend on the memory layout
    let mut m = if rng.chance(1, 4) {
        use ndarray::ShapeBuilder;
        Array2::zeros((rows, cols).f())
    } else {
        Array2::zeros((rows, cols))
    };
    for i in 0..rows {
        for j in 0..cols {
            m[[i, j]] = rng.lat();
        }
    }
    m
}

pub fn rand_aff(rng: &mut Rng, rows: usize, cols: usize) -> AffFunc {
    AffFunc::from_mats(rand_mat(rng, rows, cols), rand_vec(rng, rows))
}

/// a predicate with `rows` rows; now and then a zero row, an axis-aligned row or a copy / negation of `hint`
pub fn rand_pred(rng: &mut Rng, rows: usize, cols: usize, hint: Option<&AffFunc>) -> AffFunc {
    let mut f = rand_aff(rng, rows, cols);
    for i in 0..rows {
        match rng.below(10) {
            0 => {
                for j in 0..cols {
                    f.mat[[i, j]] = 0.0;
                }
            }
            1 | 2 => {
                for j in 0..cols {
                    f.mat[[i, j]] = 0.0;
                }
                let j = rng.below(cols);
                f.mat[[i, j]] = if rng.chance(1, 2) { 1.0 } else { -1.0 };
            }
            3 | 4 => {
                if let Some(h) = hint {
                    if h.outdim() > 0 && h.indim() == cols {
                        let k = rng.below(h.outdim());
                        let s = if rng.chance(1, 2) { 1.0 } else { -1.0 };
                        for j in 0..cols {
                            f.mat[[i, j]] = s * h.mat[[k, j]];
                        }
                        // shifted copies: by nothing, by an integer, or by a hair (2^-21 ≈ 4.8e-7, 2^-25 ≈ 3e-8): slabs and
                        // gaps that are thin but wider than the tolerance 1e-8 of `Polytope::contains`
                        f.bias[i] = s * h.bias[k]
                            + match rng.below(8) {
                                0..=2 => 0.0,
                                3..=6 => rng.lat_int(),
                                _ => {
                                    let g = if rng.chance(1, 2) { (2.0f64).powi(-21) } else { (2.0f64).powi(-25) };
                                    if rng.chance(1, 2) { g } else { -g }
                                }
                            };
                    }
                }
            }
            _ => {}
        }
    }
    f
}

/// the next representable number above / below `v` (2^-60 away from zero): a near miss of a breakpoint, decided by
/// the sign of the predicate and not by any tolerance; exactly representable, so the exact model evaluates it too
pub fn nudge(v: f64, up: bool) -> f64 {
    if v == 0.0 {
        return if up { (2.0f64).powi(-60) } else { -(2.0f64).powi(-60) };
    }
    let bits = v.to_bits();
    let away = (v > 0.0) == up;
    f64::from_bits(if away { bits + 1 } else { bits - 1 })
}

pub struct TreeParams {
    pub in_dim: usize,
    pub out_dim: usize,
    pub max_depth: usize,
    /// probability (in 1/16) that a reachable slot of a decision stays empty
    pub partial16: u64,
    /// regrow some sub-trees to create a non-contiguous index layout
    pub holes: bool,
    /// terminals are drawn from a palette of this many maps (0: every terminal is random); the palette holds
    /// near-duplicates that differ only in the bias or in one coefficient
    pub palette: usize,
}

fn make_palette(rng: &mut Rng, p: &TreeParams) -> Vec<AffFunc> {
    let mut pal: Vec<AffFunc> = Vec::new();
    for i in 0..p.palette {
        if i == 0 || rng.chance(1, 3) {
            pal.push(rand_aff(rng, p.out_dim, p.in_dim));
        } else {
            let mut f = rng.pick(&pal).clone();
            if rng.chance(1, 4) {
                // differs from another palette entry by one unit in the last place (or by 2^-60 at zero): still a
                // different function, the decision above two such terminals must stay
                let r = rng.below(p.out_dim);
                if rng.chance(1, 2) {
                    f.bias[r] = nudge(f.bias[r], rng.chance(1, 2));
                } else {
                    let c = rng.below(p.in_dim);
                    f.mat[[r, c]] = nudge(f.mat[[r, c]], rng.chance(1, 2));
                }
            } else if rng.chance(1, 2) {
                let r = rng.below(p.out_dim);
                f.bias[r] += 1.0;
            } else {
                let r = rng.below(p.out_dim);
                let c = rng.below(p.in_dim);
                f.mat[[r, c]] += 0.5;
            }
            pal.push(f);
        }
    }
    pal
}

fn log2_floor(k: usize) -> usize {
    let mut r = 0;
    while (1usize << (r + 1)) <= k {
        r += 1;
    }
    r
}

fn grow<const K: usize>(rng: &mut Rng, t: &mut AffTree<K>, p: &TreeParams, pal: &[AffFunc], parent: usize, label: usize, depth: usize) {
    let terminal = depth >= p.max_depth || rng.chance(1 + depth as u64, if pal.is_empty() { 6 } else { 10 });
    if terminal {
        let f = if pal.is_empty() { rand_aff(rng, p.out_dim, p.in_dim) } else { rng.pick(pal).clone() };
        // both spellings of the node constructor (`add_terminal` is `add_child_node` by another name)
        if rng.chance(1, 2) {
            t.add_terminal(parent, label, f).unwrap();
        } else {
            t.add_child_node(parent, label, f).unwrap();
        }
    } else {
        let rows = 1 + rng.below(log2_floor(K));
        let hint = t.tree.node_value(parent).unwrap().aff.clone();
        let mut f = rand_pred(rng, rows, p.in_dim, Some(&hint));
        // now and then the predicate of a decision is, as a map, identical to the terminal map of its left sibling
        // (predicates and terminal maps share one field: only the leaf flag tells them apart)
        if label >= 1 && rng.chance(1, 5) {
            let sib = t.tree.children(parent).find(|e| e.label == label - 1).map(|e| e.target_idx);
            if let Some(si) = sib {
                if t.tree.is_leaf(si).unwrap_or(false) {
                    let a = t.tree.node_value(si).unwrap().aff.clone();
                    if a.outdim() == rows && a.indim() == p.in_dim {
                        f = a;
                    }
                }
            }
        }
        // `add_decision` checks the number of rows against K and is `add_child_node` otherwise
        let idx = if rng.chance(1, 2) { t.add_decision(parent, label, f).unwrap() } else { t.add_child_node(parent, label, f).unwrap() };
        grow_children(rng, t, p, pal, idx, rows, depth);
    }
}

fn grow_children<const K: usize>(rng: &mut Rng, t: &mut AffTree<K>, p: &TreeParams, pal: &[AffFunc], idx: usize, rows: usize, depth: usize) {
    let n_labels = 1usize << rows;
    let forced = rng.below(n_labels);
    for l in 0..n_labels {
        if l != forced && rng.chance(p.partial16, 16) {
            continue;
        }
        grow(rng, t, p, pal, idx, l, depth + 1);
    }
}

/// random piece-wise linear tree with `K` slots per node
pub fn rand_tree<const K: usize>(rng: &mut Rng, p: &TreeParams) -> AffTree<K> {
    let pal = make_palette(rng, p);
    let pal = &pal[..];
    let leaf_root = p.max_depth == 0 || rng.chance(1, 8);
    if leaf_root {
        return AffTree::<K>::from_aff(rand_aff(rng, p.out_dim, p.in_dim));
    }
    let rows = 1 + rng.below(log2_floor(K));
    let mut t = AffTree::<K>::from_aff(rand_pred(rng, rows, p.in_dim, None));
    grow_children(rng, &mut t, p, pal, 0, rows, 0);
    if p.holes {
        for _ in 0..(if p.palette > 0 { 1 + rng.below(4) } else { rng.below(3) }) {
            // remove a random non-root sub-tree and regrow it: the slab reuses indices LIFO
            let cands: Vec<usize> = t.tree.node_indices().filter(|i| *i != t.tree.get_root_idx()).collect();
            if cands.is_empty() {
                break;
            }
            let mut victim = *rng.pick(&cands);
            if p.palette > 0 && rng.chance(2, 3) {
                // a child of the root: the re-grown sub-tree is deep, and the slab hands out the freed indices
                // in an order that puts child decisions below their parents' indices
                let kids: Vec<usize> = t.tree.children(t.tree.get_root_idx()).map(|e| e.target_idx).collect();
                if !kids.is_empty() {
                    victim = *rng.pick(&kids);
                }
            }
            let edge = t.tree.parent(victim).unwrap().edge();
            let depth = t.tree.path_to_node(victim).unwrap().len();
            t.tree.remove_child(edge.source_idx, edge.label);
            grow(rng, &mut t, p, pal, edge.source_idx, edge.label, depth);
        }
    }
    if p.partial16 > 0 && rng.chance(1, 3) {
        // partial by *removal*: drop one child of a decision that keeps another child (no regrowth)
        let cands: Vec<(usize, usize)> = t
            .tree
            .node_indices()
            .filter(|i| t.tree.num_children(*i) >= 2)
            .flat_map(|i| t.tree.children(i).map(move |e| (i, e.label)).collect::<Vec<_>>())
            .collect();
        if !cands.is_empty() {
            let (parent, label) = *rng.pick(&cands);
            t.tree.remove_child(parent, label);
        }
    }
    t
}

/// random shape for the bare `Tree<usize, K>` (values are arbitrary numbers)
pub fn rand_shape<const K: usize>(rng: &mut Rng, max_nodes: usize, holes: bool) -> Tree<usize, K> {
    let mut t = Tree::<usize, K>::new();
    let r = t.add_root(rng.below(100));
    let mut live = vec![r];
    let target = 1 + rng.below(max_nodes);
    let mut guard = 0;
    while t.len() < target && guard < 200 {
        guard += 1;
        let p = *rng.pick(&live);
        let l = rng.below(K);
        if let Ok(i) = t.add_child_node(p, l, rng.below(100)) {
            live.push(i);
        }
        if holes && rng.chance(1, 8) && live.len() > 2 {
            let victim = *rng.pick(&live[1..]);
            if let Ok(e) = t.parent(victim) {
                let e = e.edge();
                t.remove_child(e.source_idx, e.label);
                live = t.node_indices().collect();
            }
        }
    }
    // now and then the last operation is a removal of an early sub-tree: surviving nodes then have indices beyond
    // `len()` (the slab keeps the holes)
    if holes && rng.chance(1, 4) && t.len() > 3 {
        let low: Vec<usize> = t.node_indices().filter(|i| *i != r).take(3).collect();
        if !low.is_empty() {
            let victim = *rng.pick(&low);
            if let Ok(e) = t.parent(victim) {
                let e = e.edge();
                t.remove_child(e.source_idx, e.label);
            }
        }
    }
    t
}

/// input points: lattice points, some of them moved onto a hyperplane of a decision of the tree
pub fn rand_points<const K: usize>(rng: &mut Rng, t: &AffTree<K>, n: usize) -> Vec<Array1<f64>> {
    let dim = t.in_dim();
    let decisions: Vec<AffFunc> = t.tree.decisions().map(|d| d.value.aff.clone()).collect();
    let mut pts = Vec::new();
    // at most one near miss per call, in a quarter of the calls: the values at such an input are rounded, which makes the
    // whole case INEXACT for the value comparison (differences are still reported)
    let mut near_miss = rng.chance(1, 4);
    for _ in 0..n {
        let mut x = rand_int_vec(rng, dim);
        if near_miss && rng.chance(1, 2) {
            // all other coordinates zero: the products stay exact in binary64
            for k in 0..dim {
                x[k] = 0.0;
            }
        }
        if !decisions.is_empty() && rng.chance(1, 2) {
            // move x onto the hyperplane of a random row: find coordinate with coefficient ±1, ±1/2, …
            let d = rng.pick(&decisions);
            if d.outdim() > 0 {
                let r = rng.below(d.outdim());
                for j in 0..dim {
                    let c = d.mat[[r, j]];
                    if c != 0.0 {
                        let rest: f64 = (0..dim).filter(|k| *k != j).map(|k| d.mat[[r, k]] * x[k]).sum();
                        let v = (d.bias[r] - rest) / c;
                        // keep only exactly representable small dyadics
                        if (v * 64.0).fract() == 0.0 && v.abs() < 1024.0 {
                            x[j] = v;
                            // a near miss: 2^-60 off the hyperplane (exactly representable next to small values),
                            // so that the predicate is decided by its sign and not by a tolerance
                            if near_miss {
                                x[j] = nudge(v, rng.chance(1, 2));
                                near_miss = false;
                            }
                        }
                        break;
                    }
                }
            }
        }
        pts.push(x);
    }
    pts
}

pub fn rand_poly(rng: &mut Rng, rows: usize, cols: usize) -> Polytope {
    let f = rand_pred(rng, rows, cols, None);
    Polytope::from_mats(f.mat, f.bias)
}

/// the same tree as `g`, stored in an arena whose first root was a draft that a second `Tree::add_root` replaced
/// (documented behaviour: the new node becomes the root, the former root stays in the arena, disconnected): the
/// root does not live in slot 0 and every index differs from the usual layout.  Cached states are kept.
pub fn rerooted<const K: usize>(rng: &mut Rng, g: &AffTree<K>) -> AffTree<K> {
    use affinitree::pwl::node::AffContent;
    let mut tree: Tree<AffContent, K> = Tree::new();
    let root_val = g.tree.tree_node(g.tree.get_root_idx()).unwrap().value.clone();
    let draft_rows = 1 + rng.below(3);
    tree.add_root(AffContent::new(rand_aff(rng, draft_rows, g.in_dim())));
    let root = tree.add_root(root_val);
    let mut stack = vec![(g.tree.get_root_idx(), root)];
    while let Some((src, dst)) = stack.pop() {
        let children = g.tree.tree_node(src).unwrap().children;
        for (label, c) in children.iter().enumerate() {
            if let Some(c) = c {
                let v = g.tree.tree_node(*c).unwrap().value.clone();
                let d = tree.add_child_node(dst, label, v).unwrap();
                stack.push((*c, d));
            }
        }
    }
    AffTree::<K>::from_tree(tree, g.in_dim())
}

/// `t` below a new root: a one-row decision is put on top with `Tree::add_root`, the former root (arena slot 0) is
/// linked below it at label `l` through the public node accessors, the other slot gets a terminal (or stays empty).
/// The result is a consistent tree whose root is not slot 0 and whose slot 0 is an inner node.
pub fn uprooted(rng: &mut Rng, t: &AffTree<2>, out_dim: usize, partial: bool) -> AffTree<2> {
    use affinitree::pwl::node::AffContent;
    let n = t.in_dim();
    let mut tree = t.tree.clone();
    let old = tree.get_root_idx();
    let l = rng.below(2);
    let new_root = tree.add_root(AffContent::new(rand_pred(rng, 1, n, None)));
    {
        let r = tree.tree_node_mut(new_root).unwrap();
        r.children[l] = Some(old);
        r.isleaf = false;
    }
    tree.tree_node_mut(old).unwrap().parent = Some(new_root);
    if !partial {
        tree.add_child_node(new_root, 1 - l, AffContent::new(rand_aff(rng, out_dim, n))).unwrap();
    }
    AffTree::<2>::from_tree(tree, n)
}
