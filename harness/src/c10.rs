//! C10: the LP layer on random constraint systems of every class (empty, lower-dimensional, unbounded, redundant,
//! zero rows, parallel rows, lineality directions) with random objectives; C15: constraint clean-up.
use crate::enc;
use crate::gen::*;
use crate::hist::lp_log;
use crate::rng::Rng;
use affinitree::linalg::affine::Polytope;
use affinitree::linalg::polyhedron::PolytopeStatus;
use affinitree::verif_hooks;
use ndarray::{Array1, Array2};
use std::collections::HashMap;
use std::fmt::Write;
use std::panic::{catch_unwind, AssertUnwindSafe};

pub fn status_str(s: &PolytopeStatus) -> String {
    let mut out = String::new();
    match s {
        PolytopeStatus::Infeasible => out.push('I'),
        PolytopeStatus::Unbounded => out.push('U'),
        PolytopeStatus::Error(_) => out.push('E'),
        PolytopeStatus::Optimal(x) => {
            out.push_str("O ");
            enc::vec(&mut out, x);
        }
    }
    out
}

/// a constraint system of a random class
/// `tiny`: also systems with coefficients far below the LP solver's pivot tolerance (only meaningful for the
/// operations that do not consult the solver)
pub fn rand_system(rng: &mut Rng, tiny: bool) -> Polytope {
    let n = 1 + rng.below(4);
    let class = rng.below(if tiny { 12 } else { 11 });
    let mut rows: Vec<(Vec<f64>, f64)> = Vec::new();
    let unit = |j: usize, s: f64| -> Vec<f64> { (0..n).map(|k| if k == j { s } else { 0.0 }).collect() };
    match class {
        0 | 1 => {
            // box, possibly missing some sides (unbounded / lineality directions), plus random cuts
            for j in 0..n {
                if rng.chance(3, 4) {
                    rows.push((unit(j, 1.0), rng.range(0, 4) as f64));
                }
                if rng.chance(3, 4) {
                    rows.push((unit(j, -1.0), rng.range(0, 4) as f64));
                }
            }
            for _ in 0..rng.below(3) {
                rows.push(((0..n).map(|_| rng.lat_int()).collect(), rng.lat_int()));
            }
        }
        2 => {
            // random rows
            for _ in 0..1 + rng.below(6) {
                rows.push(((0..n).map(|_| rng.lat()).collect(), rng.lat()));
            }
        }
        3 => {
            // equality pairs: lower-dimensional set
            let a: Vec<f64> = (0..n).map(|_| rng.lat_int()).collect();
            let b = rng.lat_int();
            rows.push((a.clone(), b));
            rows.push((a.iter().map(|v| -v).collect(), -b));
            for _ in 0..rng.below(4) {
                rows.push(((0..n).map(|_| rng.lat_int()).collect(), rng.range(0, 5) as f64));
            }
        }
        4 => {
            // empty by a margin: a <= b and -a <= -b - k
            let a: Vec<f64> = (0..n).map(|_| rng.lat_nz()).collect();
            let b = rng.lat_int();
            rows.push((a.clone(), b));
            rows.push((a.iter().map(|v| -v).collect(), -b - 1.0 - rng.below(3) as f64));
            for _ in 0..rng.below(4) {
                rows.push(((0..n).map(|_| rng.lat_int()).collect(), rng.lat_int()));
            }
        }
        5 => {
            // parallel and duplicated / scaled rows
            let a: Vec<f64> = (0..n).map(|_| rng.lat_int()).collect();
            for _ in 0..2 + rng.below(3) {
                let s = *rng.pick(&[1.0, 2.0, 0.5, 4.0]);
                rows.push((a.iter().map(|v| v * s).collect(), rng.lat_int() * s));
            }
            for j in 0..n {
                rows.push((unit(j, 1.0), 3.0));
                rows.push((unit(j, -1.0), 3.0));
            }
        }
        6 => {
            // zero rows with positive / zero / negative bias among ordinary ones
            for _ in 0..1 + rng.below(3) {
                // (negative zero is zero: `0·x <= -0.0` holds everywhere; some coefficients are `-0.0` as well)
                let z: Vec<f64> = (0..n).map(|_| if rng.chance(1, 4) { -0.0 } else { 0.0 }).collect();
                rows.push((z, *rng.pick(&[1.0, 0.0, -0.0, 2.0, -1.0, -0.0])));
            }
            for _ in 0..rng.below(4) {
                rows.push(((0..n).map(|_| rng.lat_int()).collect(), rng.range(0, 5) as f64));
            }
        }
        7 => {
            // simplex-like bounded region
            for j in 0..n {
                rows.push((unit(j, -1.0), 0.0));
            }
            rows.push((vec![1.0; n], 1.0 + rng.below(4) as f64));
        }
        9 => {
            // axis-aligned strip away from the origin: every coordinate boxed, bounded below only or above only
            for j in 0..n {
                let lo = 1 + rng.below(3) as i64;
                match rng.below(3) {
                    0 => {
                        rows.push((unit(j, -1.0), -(lo as f64)));
                        rows.push((unit(j, 1.0), (lo + 1 + rng.below(3) as i64) as f64));
                    }
                    1 => rows.push((unit(j, -1.0), -(lo as f64))),
                    _ => rows.push((unit(j, 1.0), -(lo as f64))),
                }
            }
        }
        10 | 11 if !tiny || class == 11 => {
            // far from the origin: oblique integer rows around a centre with coordinates of size 1e5..1e6, every row
            // leaves the centre a slack of at least 40 (in units of its 1-norm): non-empty by a wide margin, but a
            // solver vertex is accurate to ~1e-8 in raw residuals only
            // (one system in four lies beyond 2^31: a region does not have to be near the origin to be non-empty)
            let very_far = rng.chance(1, 4);
            let c: Vec<f64> = (0..n)
                .map(|_| {
                    let v = if very_far { (2_147_483_648usize + rng.below(2_147_483_648)) as f64 } else { (100_000 + rng.below(900_000)) as f64 };
                    if rng.chance(1, 2) { v } else { -v }
                })
                .collect();
            let m = n + 1 + rng.below(n + 2);
            for i in 0..m {
                let mut a: Vec<f64> = (0..n).map(|_| rng.range(-25, 25) as f64).collect();
                if i < n {
                    // make sure every axis is bounded from one side at least
                    a[i] = if rng.chance(1, 2) { 1.0 + rng.below(25) as f64 } else { -1.0 - rng.below(25) as f64 };
                }
                if a.iter().all(|v| *v == 0.0) {
                    a[0] = 1.0;
                }
                let l1: f64 = a.iter().map(|v| v.abs()).sum();
                let ac: f64 = a.iter().zip(c.iter()).map(|(x, y)| x * y).sum();
                rows.push((a, ac + l1 * (40 + rng.below(60)) as f64));
            }
        }
        10 => {
            // rows with tiny but non-zero coefficients (far-away faces) among ordinary ones
            for _ in 0..1 + rng.below(2) {
                let mut r = vec![0.0; n];
                let tiny = *rng.pick(&[(2.0f64).powi(-60), -(2.0f64).powi(-60), (2.0f64).powi(-55), (2.0f64).powi(-70)]);
                for v in r.iter_mut() {
                    if rng.chance(2, 3) {
                        *v = tiny;
                    }
                }
                if r.iter().all(|v| *v == 0.0) {
                    r[0] = tiny;
                }
                rows.push((r, *rng.pick(&[1.0, -1.0, 0.0, 2.0])));
            }
            for _ in 0..rng.below(4) {
                rows.push(((0..n).map(|_| rng.lat_int()).collect(), rng.range(0, 5) as f64));
            }
        }
        _ => {
            // single half-space or strip: lineality space of dimension n-1
            let a: Vec<f64> = (0..n).map(|_| rng.lat_int()).collect();
            rows.push((a.clone(), rng.lat_int()));
            if rng.chance(1, 2) {
                rows.push((a.iter().map(|v| -v).collect(), rng.range(0, 4) as f64));
            }
        }
    }
    if rows.is_empty() {
        rows.push((vec![0.0; n], 1.0));
    }
    let m = rows.len();
    // a quarter of the systems are stored column-major (same matrix, different memory layout)
    let mut mat = if rng.chance(1, 4) {
        use ndarray::ShapeBuilder;
        Array2::zeros((m, n).f())
    } else {
        Array2::zeros((m, n))
    };
    let mut bias = Array1::zeros(m);
    for (i, (r, b)) in rows.iter().enumerate() {
        for j in 0..n {
            mat[[i, j]] = r[j];
        }
        bias[i] = *b;
    }
    Polytope::from_mats(mat, bias)
}

pub fn case(rng: &mut Rng) -> String {
    let p = rand_system(rng, false);
    let n = p.indim();
    let mut out = String::from("C10 ");
    enc::poly(&mut out, &p);
    let c: Array1<f64> = match rng.below(8) {
        0 | 1 => Array1::zeros(n),
        2 | 3 => {
            let mut c = Array1::zeros(n);
            let j = rng.below(n);
            c[j] = if rng.chance(1, 2) { 1.0 } else { -1.0 };
            c
        }
        _ => rand_int_vec(rng, n),
    };
    out.push(' ');
    enc::vec(&mut out, &c);
    out.push_str(" | ");
    // The answers must be a function of the program alone.  In a quarter of the cases a *different* program is solved
    // immediately before each call (same thread): the same numbers in the transposed shape, the same system with one
    // entry changed, or the same system with another objective.  Its answer is discarded; the case line is unchanged.
    let warm_mode = if rng.chance(1, 4) { 1 + rng.below(3) } else { 0 };
    let warm_pos = rng.below(1 << 16);
    let warm = |obj: &Array1<f64>| {
        if warm_mode == 0 {
            return;
        }
        let (m, n) = (p.n_constraints(), p.indim());
        let (wp, wc) = match warm_mode {
            1 => {
                let flat: Vec<f64> = p.mat.iter().chain(p.bias.iter()).chain(obj.iter()).copied().collect();
                let mat = Array2::from_shape_vec((n, m), flat[..m * n].to_vec()).unwrap();
                let bias = Array1::from(flat[m * n..m * n + n].to_vec());
                (Polytope::from_mats(mat, bias), Array1::from(flat[m * n + n..].to_vec()))
            }
            2 => {
                let mut q = Polytope::from_mats(p.mat.to_owned(), p.bias.to_owned());
                if n > 0 && warm_pos % 2 == 0 {
                    let (i, j) = ((warm_pos / 2) % m, (warm_pos / 64) % n);
                    q.mat[[i, j]] += 1.0;
                } else {
                    q.bias[(warm_pos / 2) % m] -= 3.0;
                }
                (q, obj.clone())
            }
            _ => {
                let mut o = obj.clone();
                if n > 0 {
                    o[warm_pos % n] += if warm_pos % 4 < 2 { 1.0 } else { -1.0 };
                }
                (Polytope::from_mats(p.mat.to_owned(), p.bias.to_owned()), o)
            }
        };
        let _ = catch_unwind(AssertUnwindSafe(|| wp.solve_linprog(wc, false)));
    };
    let zeros = Array1::zeros(n);
    warm(&zeros);
    let st = catch_unwind(AssertUnwindSafe(|| p.status()));
    match &st {
        Ok(s) => out.push_str(&status_str(s)),
        Err(_) => out.push_str("panic"),
    }
    out.push(' ');
    warm(&zeros);
    match catch_unwind(AssertUnwindSafe(|| p.is_feasible())) {
        Ok(b) => write!(out, "{}", if b { 1 } else { 0 }).unwrap(),
        Err(_) => out.push_str("panic"),
    }
    out.push(' ');
    warm(&c);
    match catch_unwind(AssertUnwindSafe(|| p.solve_linprog(c.clone(), false))) {
        Ok(s) => out.push_str(&status_str(&s)),
        Err(_) => out.push_str("panic"),
    }
    // Chebyshev centre program and its solution
    out.push(' ');
    match catch_unwind(AssertUnwindSafe(|| {
        let (cp, cost) = p.chebyshev_center();
        let sol = cp.solve_linprog(cost.clone(), false);
        (cp, cost, sol)
    })) {
        Ok((cp, cost, sol)) => {
            out.push_str("cheb ");
            enc::poly(&mut out, &cp);
            out.push(' ');
            enc::vec(&mut out, &cost);
            out.push(' ');
            out.push_str(&status_str(&sol));
        }
        Err(_) => out.push_str("chebpanic"),
    }
    out
}

/// C15: the clean-up operations on the same classes of systems
pub fn cleanup_case(rng: &mut Rng) -> String {
    let op = rng.below(7);
    let mut p = rand_system(rng, op != 2 && op != 6);
    // systems over the zero-dimensional space (rows `0 <= b`): empty iff some bias is negative
    if rng.chance(1, 12) {
        let m = 1 + rng.below(4);
        let bias: Vec<f64> = (0..m).map(|_| *rng.pick(&[0.0, 1.0, -1.0, 2.0, 3.0, -1.0, 4.0])).collect();
        p = Polytope::from_mats(Array2::zeros((m, 0)), Array1::from(bias));
    }
    // near-duplicates for `remove_duplicate_rows`: a copy of a row with one coefficient moved by 2^-32 of the row's size
    // (an angle of about 2e-10 between the normals: not a duplicate — far from the origin the two rows cut differently)
    if op == 1 && p.indim() >= 2 && p.n_constraints() >= 1 && rng.chance(1, 3) {
        let i = rng.below(p.n_constraints());
        let j = rng.below(p.indim());
        let mut r = p.mat.row(i).to_owned();
        let size = r.iter().fold(0.0f64, |m, v| m.max(v.abs()));
        if size > 0.0 {
            r[j] += size * (2.0f64).powi(-32);
            let (m, n) = (p.n_constraints(), p.indim());
            let mut mat = Array2::<f64>::zeros((m + 1, n));
            let mut bias = Array1::<f64>::zeros(m + 1);
            for a in 0..m {
                mat.row_mut(a).assign(&p.mat.row(a));
                bias[a] = p.bias[a];
            }
            mat.row_mut(m).assign(&r);
            bias[m] = p.bias[i];
            p = Polytope::from_mats(mat, bias);
        }
    }
    let mut out = String::from("C15 ");
    let name = ["remove_tautologies", "remove_duplicate_rows", "remove_redundant", "normalize", "remove_zero_rows", "remove_rows", "remove_redundant"][op];
    write!(out, "{} ", name).unwrap();
    enc::poly(&mut out, &p);
    let idxs: Vec<usize> = (0..p.n_constraints()).filter(|_| rng.chance(1, 3)).collect();
    if op == 5 {
        out.push(' ');
        enc::nats(&mut out, &idxs);
    }
    out.push_str(" | ");
    verif_hooks::start(HashMap::new());
    let r = catch_unwind(AssertUnwindSafe(|| match op {
        0 => Ok(p.remove_tautologies()),
        1 => Ok(p.remove_duplicate_rows()),
        2 | 6 => p.remove_redundant_row_constraints(),
        3 => Ok(p.clone().normalize()),
        4 => Ok(p.remove_zero_rows()),
        // the indices arrive through different iterator types (exact and inexact size hints, empty selections)
        _ => Ok(match idxs.len() % 3 {
            0 => p.remove_rows(idxs.clone()),
            1 => p.remove_rows((0..p.n_constraints()).filter(|i| idxs.contains(i))),
            _ => p.remove_rows(idxs.iter().copied().filter(|_| true)),
        }),
    }));
    let log = verif_hooks::stop();
    match r {
        Ok(Ok(q)) => {
            out.push_str("ok ");
            enc::poly(&mut out, &q);
        }
        Ok(Err(_)) => out.push_str("err"),
        Err(_) => out.push_str("panic"),
    }
    out.push(' ');
    lp_log(&mut out, &log);
    out
}
