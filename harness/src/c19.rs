//! C19: text renderings of affine functions / polytopes under random FormatOptions and precisions, DOT and Display of trees.
use crate::enc;
use crate::gen::*;
use crate::rng::Rng;
use affinitree::linalg::affine::{AffFunc, Polytope};
use affinitree::linalg::impl_affineformat::FormatOptions;
use affinitree::pwl::afftree::AffTree;
use affinitree::pwl::dot::Dot;
use ndarray::{Array1, Array2};
use std::fmt::Write;
use std::ops::Bound;

fn weird(rng: &mut Rng) -> f64 {
    match rng.below(12) {
        0 => -0.0,
        1 => 0.0,
        2 => (1u64 << rng.below(40)) as f64,
        3 => -((1u64 << rng.below(40)) as f64),
        4 => 1.0 / ((1u64 << (1 + rng.below(20))) as f64),
        5 => -(rng.range(1, 999) as f64) / 8.0,
        6 => rng.range(-999, 999) as f64 / 1000.0, // not dyadic
        7 => 0.125 * rng.range(-40, 40) as f64,    // many rounding ties at precision 2
        8 => 0.5 + rng.range(-3, 3) as f64,
        _ => rng.lat(),
    }
}

fn bound(rng: &mut Rng, lo: bool, n: i32) -> Bound<i32> {
    match rng.below(4) {
        0 => Bound::Unbounded,
        1 => Bound::Included(rng.range(0, n as i64) as i32),
        2 => Bound::Excluded(rng.range(0, n as i64) as i32),
        _ => {
            if lo {
                Bound::Included(1)
            } else {
                Bound::Excluded(0)
            }
        }
    }
}

fn bound_str(b: &Bound<i32>) -> String {
    match b {
        Bound::Unbounded => "U".to_string(),
        Bound::Included(v) => format!("I{}", v),
        Bound::Excluded(v) => format!("E{}", v),
    }
}

fn rand_opts(rng: &mut Rng, rows: usize, cols: usize) -> FormatOptions {
    let all_rows = rng.chance(1, 2);
    let all_axes = rng.chance(1, 2);
    FormatOptions {
        sort_coefficients: *rng.pick(&[0usize, 0, 1, 3, 5]),
        simplify_zero: rng.chance(1, 2),
        simplify_tautologies: rng.chance(1, 2),
        normalize: rng.chance(1, 2),
        skip_axes_n: 0,
        skip_axes: if all_axes { (Bound::Included(1), Bound::Excluded(0)) } else { (bound(rng, true, cols as i32), bound(rng, false, cols as i32)) },
        skip_rows_n: 0,
        skip_rows: if all_rows { (Bound::Included(1), Bound::Excluded(0)) } else { (bound(rng, true, rows as i32), bound(rng, false, rows as i32)) },
    }
}

fn opts_str(o: &FormatOptions) -> String {
    format!(
        "{} {} {} {} {} {} {} {}",
        o.sort_coefficients,
        o.simplify_zero as u8,
        o.simplify_tautologies as u8,
        o.normalize as u8,
        bound_str(&o.skip_axes.0),
        bound_str(&o.skip_axes.1),
        bound_str(&o.skip_rows.0),
        bound_str(&o.skip_rows.1)
    )
}

pub fn case(rng: &mut Rng) -> String {
    let mut out = String::from("C19 ");
    match rng.below(5) {
        0 | 1 | 2 => {
            let rows = 1 + rng.below(4);
            let cols = 1 + rng.below(6);
            let mut mat = Array2::<f64>::zeros((rows, cols));
            let mut bias = Array1::<f64>::zeros(rows);
            let dyadic_only = rng.chance(1, 2);
            for i in 0..rows {
                let zero_row = rng.chance(1, 6);
                // a row whose coefficients are all tiny but not all zero (it prints as zeros, it is not a zero row)
                let tiny_row = !zero_row && rng.chance(1, 8);
                for j in 0..cols {
                    mat[[i, j]] = if zero_row { if rng.chance(1, 3) { -0.0 } else { 0.0 } } else { weird(rng) };
                    if dyadic_only && (mat[[i, j]] * 1048576.0).fract() != 0.0 {
                        mat[[i, j]] = rng.lat();
                    }
                    if tiny_row {
                        mat[[i, j]] = *rng.pick(&[0.0, (2.0f64).powi(-60), -(2.0f64).powi(-60), (2.0f64).powi(-70), -(2.0f64).powi(-70)]);
                    }
                }
                if tiny_row && (0..cols).all(|j| mat[[i, j]] == 0.0) {
                    mat[[i, 0]] = (2.0f64).powi(-60);
                }
                bias[i] = weird(rng);
                if dyadic_only && (bias[i] * 1048576.0).fract() != 0.0 {
                    bias[i] = rng.lat();
                }
            }
            let opts = rand_opts(rng, rows, cols);
            let prec = rng.below(7);
            let as_poly = rng.chance(1, 2);
            let s = if as_poly {
                let p = Polytope::from_mats(mat.clone(), bias.clone());
                match rng.below(3) {
                    0 => {
                        write!(out, "poly default {} ", prec).unwrap();
                        format!("{:.*}", prec, p)
                    }
                    _ => {
                        write!(out, "poly opts {} {} ", prec, opts_str(&opts)).unwrap();
                        format!("{:.*}", prec, p.display_with(opts.clone()))
                    }
                }
            } else {
                let f = AffFunc::from_mats(mat.clone(), bias.clone());
                match rng.below(3) {
                    0 => {
                        write!(out, "func default {} ", prec).unwrap();
                        format!("{:.*}", prec, f)
                    }
                    _ => {
                        write!(out, "func opts {} {} ", prec, opts_str(&opts)).unwrap();
                        format!("{:.*}", prec, f.display_with(opts.clone()))
                    }
                }
            };
            enc::aff_parts(&mut out, &mat, &bias);
            write!(out, " | {}", enc::hex(&s)).unwrap();
        }
        _ => {
            let n = 1 + rng.below(3);
            let tp = TreeParams { in_dim: n, out_dim: 1 + rng.below(2), max_depth: 2 + rng.below(2), partial16: *rng.pick(&[0, 3]), holes: rng.chance(1, 2), palette: 0 };
            let dot = rng.chance(1, 2);
            if !dot && rng.chance(1, 2) {
                // K = 4 (Display only, `Dot` is binary): decisions with one or two rows, every row has to be shown
                out.push_str("display ");
                let t: AffTree<4> = rand_tree(rng, &tp);
                enc::afftree(&mut out, &t);
                let s = format!("{}", t);
                write!(out, " | {}", enc::hex(&s)).unwrap();
            } else {
                write!(out, "{} ", if dot { "dot" } else { "display" }).unwrap();
                let mut t: AffTree<2> = rand_tree(rng, &tp);
                if rng.chance(1, 8) {
                    // a second `add_root`: the former tree stays in the arena, disconnected (documented); both renderings
                    // go over the arena, so all stored nodes *and their links* are still shown
                    use affinitree::pwl::node::AffContent;
                    let r = t.tree.add_root(AffContent::new(rand_aff(rng, tp.out_dim, n)));
                    if rng.chance(1, 2) {
                        let _ = t.add_child_node(r, 0, rand_aff(rng, tp.out_dim, n));
                    }
                }
                enc::afftree(&mut out, &t);
                let s = if dot { format!("{}", Dot::from(&t)) } else { format!("{}", t) };
                write!(out, " | {}", enc::hex(&s)).unwrap();
            }
        }
    }
    out
}
