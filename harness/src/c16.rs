//! C16 (affine algebra, named constructors) and C14/C15 helpers share the encoding used here.
use crate::enc;
use crate::gen::*;
use crate::rng::Rng;
use affinitree::linalg::affine::{AffFunc, PolyRepr, Polytope};
use ndarray::{Array1, Array2};
use std::fmt::Write;
use std::panic::{catch_unwind, AssertUnwindSafe};

pub enum Res {
    Aff(AffFunc),
    Vec(Array1<f64>),
    Panic,
    Differ(String),
}

pub fn res(out: &mut String, r: &Res) {
    match r {
        Res::Aff(f) => {
            out.push_str("aff ");
            enc::aff(out, f);
        }
        Res::Vec(v) => {
            out.push_str("vec ");
            enc::vec(out, v);
        }
        Res::Panic => out.push_str("panic"),
        Res::Differ(s) => {
            write!(out, "differ {}", s).unwrap();
        }
    }
}

fn guard<F: FnOnce() -> Res>(f: F) -> Res {
    match catch_unwind(AssertUnwindSafe(f)) {
        Ok(r) => r,
        Err(_) => Res::Panic,
    }
}

fn same(a: &AffFunc, b: &AffFunc) -> bool {
    a.mat.shape() == b.mat.shape() && a.bias.shape() == b.bias.shape() && a.mat == b.mat && a.bias == b.bias
}

pub fn case(rng: &mut Rng) -> String {
    let mut out = String::from("C16 ");
    let n = 1 + rng.below(5);
    let m = 1 + rng.below(4);
    let k = 1 + rng.below(4);
    let op = rng.below(30);
    // functions of zero inputs (a matrix with rows but no columns: only the bias carries data)
    let n = if op <= 14 && rng.chance(1, 10) { 0 } else { n };
    match op {
        0 | 1 => {
            // compose f g ; occasionally with mismatching dimensions (the code asserts)
            let g = rand_aff(rng, m, n);
            let fin = if rng.chance(1, 8) { m + 1 } else { m };
            let mut f = rand_aff(rng, k, fin);
            // now and then the outer function is a translation (unit matrix, non-zero offset) or the identity
            if fin == m && rng.chance(1, 5) {
                let off = rand_vec(rng, m);
                f = AffFunc::from_mats(ndarray::Array2::eye(m), if rng.chance(1, 4) { ndarray::Array1::zeros(m) } else { off });
            }
            out.push_str("compose ");
            enc::aff(&mut out, &f);
            out.push(' ');
            enc::aff(&mut out, &g);
            out.push_str(" | ");
            res(&mut out, &guard(|| Res::Aff(f.compose(&g))));
        }
        2 => {
            let f = rand_aff(rng, m, n);
            let gin = if rng.chance(1, 8) { n + 1 } else { n };
            let g = rand_aff(rng, k, gin);
            out.push_str("stack ");
            enc::aff(&mut out, &f);
            out.push(' ');
            enc::aff(&mut out, &g);
            out.push_str(" | ");
            res(&mut out, &guard(|| Res::Aff(f.stack(&g))));
        }
        3..=7 => {
            let names = ["add", "sub", "mul", "div", "rem"];
            let which = op - 3;
            let f = rand_aff(rng, m, n);
            let mut g = rand_aff(rng, m, n);
            if which >= 3 && rng.chance(3, 4) {
                // divisors without zero entries, powers of two so that the quotient is exact
                for v in g.mat.iter_mut() {
                    *v = *rng.pick(&[1.0, -1.0, 2.0, -2.0, 0.5, 4.0, -0.25]);
                }
                for v in g.bias.iter_mut() {
                    *v = *rng.pick(&[1.0, -1.0, 2.0, -2.0, 0.5, 4.0, -0.25]);
                }
            }
            write!(out, "{} ", names[which]).unwrap();
            enc::aff(&mut out, &f);
            out.push(' ');
            enc::aff(&mut out, &g);
            out.push_str(" | ");
            let r = guard(|| {
                let (a, b, c) = match which {
                    0 => (&f + &g, f.clone() + g.clone(), f.clone() + &g),
                    1 => (&f - &g, f.clone() - g.clone(), f.clone() - &g),
                    2 => (&f * &g, f.clone() * g.clone(), f.clone() * &g),
                    3 => (&f / &g, f.clone() / g.clone(), f.clone() / &g),
                    _ => (&f % &g, f.clone() % g.clone(), f.clone() % &g),
                };
                if !same(&a, &b) || !same(&a, &c) {
                    Res::Differ("ownership-variants".to_string())
                } else {
                    Res::Aff(a)
                }
            });
            res(&mut out, &r);
        }
        8 => {
            let f = rand_aff(rng, m, n);
            out.push_str("neg ");
            enc::aff(&mut out, &f);
            out.push_str(" | ");
            let r = guard(|| {
                let a = -f.clone();
                let b = -&f;
                let c = f.clone().negate();
                if !same(&a, &b) || !same(&a, &c) {
                    Res::Differ("neg-variants".to_string())
                } else {
                    Res::Aff(a)
                }
            });
            res(&mut out, &r);
        }
        9 | 10 => {
            let f = rand_aff(rng, m, n);
            let x = rand_vec(rng, n);
            out.push_str("apply ");
            enc::aff(&mut out, &f);
            out.push(' ');
            enc::vec(&mut out, &x);
            out.push_str(" | ");
            res(&mut out, &guard(|| Res::Vec(f.apply(&x))));
        }
        11 => {
            let f = rand_aff(rng, m, n);
            let x = rand_vec(rng, m);
            out.push_str("apply_transpose ");
            enc::aff(&mut out, &f);
            out.push(' ');
            enc::vec(&mut out, &x);
            out.push_str(" | ");
            res(&mut out, &guard(|| Res::Vec(f.apply_transpose(&x))));
        }
        12 => {
            let f = rand_aff(rng, m, n);
            let i = rng.below(m + 1);
            write!(out, "row {} ", i).unwrap();
            enc::aff(&mut out, &f);
            out.push_str(" | ");
            res(&mut out, &guard(|| Res::Aff(f.row(i).to_owned())));
        }
        13 => {
            // row_iter + from_row_iter round trip, view / to_owned, as_polytope / as_function / new
            let f = rand_aff(rng, m, n);
            out.push_str("roundtrip ");
            enc::aff(&mut out, &f);
            out.push_str(" | ");
            let r = guard(|| {
                let rows: Vec<AffFunc> = f.row_iter().map(|r| r.to_owned()).collect();
                let it = rows.iter().map(|r| (r.mat.row(0).to_owned(), &r.bias[0]));
                let g = AffFunc::from_row_iter(f.indim(), f.outdim(), it);
                let h = f.view().to_owned();
                let p = Polytope::new(f.as_polytope().as_function()).as_function();
                if !same(&g, &h) || !same(&g, &p) {
                    Res::Differ("roundtrip".to_string())
                } else {
                    Res::Aff(g)
                }
            });
            res(&mut out, &r);
        }
        14 => {
            let f = rand_aff(rng, m + 1, n);
            let mut idxs: Vec<usize> = (0..m + 1).filter(|_| rng.chance(1, 3)).collect();
            if rng.chance(1, 10) {
                idxs.push(m + 3);
            }
            out.push_str("remove_rows ");
            enc::aff(&mut out, &f);
            out.push(' ');
            enc::nats(&mut out, &idxs);
            out.push_str(" | ");
            // the indices arrive through different iterator types (exact and inexact size hints, empty selections)
            let lazy = rng.below(3);
            let total = m + 1;
            res(&mut out, &guard(|| Res::Aff(match lazy {
                0 => f.remove_rows(idxs.clone()),
                1 if idxs.iter().all(|i| *i < total) => f.remove_rows((0..total).filter(|i| idxs.contains(i))),
                _ => f.remove_rows(idxs.iter().copied().filter(|_| true)),
            })));
        }
        15 | 16 => {
            let mut f = rand_aff(rng, m + 1, n);
            for i in 0..m + 1 {
                if rng.chance(1, 3) {
                    for j in 0..n {
                        f.mat[[i, j]] = 0.0;
                    }
                    if rng.chance(1, 2) {
                        f.bias[i] = 0.0;
                    }
                }
            }
            for j in 0..n {
                if rng.chance(1, 3) {
                    for i in 0..m + 1 {
                        f.mat[[i, j]] = 0.0;
                    }
                }
            }
            // entries far below f64::EPSILON are not zeros: such rows / columns must stay
            if rng.chance(1, 4) {
                let tiny = *rng.pick(&[(2.0f64).powi(-60), -(2.0f64).powi(-70), (2.0f64).powi(-1000)]);
                let i = rng.below(m + 1);
                let j = rng.below(n);
                match rng.below(3) {
                    0 => {
                        for k in 0..n {
                            f.mat[[i, k]] = 0.0;
                        }
                        f.mat[[i, j]] = tiny;
                        f.bias[i] = 0.0;
                    }
                    1 => {
                        for k in 0..n {
                            f.mat[[i, k]] = 0.0;
                        }
                        f.bias[i] = tiny;
                    }
                    _ => {
                        for k in 0..m + 1 {
                            f.mat[[k, j]] = 0.0;
                        }
                        f.mat[[i, j]] = tiny;
                    }
                }
            }
            if op == 15 {
                out.push_str("remove_zero_rows ");
                enc::aff(&mut out, &f);
                out.push_str(" | ");
                res(&mut out, &guard(|| Res::Aff(f.remove_zero_rows())));
            } else {
                if rng.chance(1, 6) {
                    f.mat.fill(0.0);
                }
                out.push_str("remove_zero_columns ");
                enc::aff(&mut out, &f);
                out.push_str(" | ");
                res(&mut out, &guard(|| Res::Aff(f.remove_zero_columns())));
            }
        }
        17 => {
            write!(out, "identity {} | ", n).unwrap();
            res(&mut out, &guard(|| Res::Aff(AffFunc::identity(n))));
        }
        18 => {
            write!(out, "zeros {} | ", n).unwrap();
            res(&mut out, &guard(|| Res::Aff(AffFunc::zeros(n))));
        }
        19 => {
            let v = rng.lat();
            write!(out, "constant {} {} | ", n, enc::num(v)).unwrap();
            res(&mut out, &guard(|| Res::Aff(AffFunc::constant(n, v))));
        }
        20 => {
            let i = rng.below(n + 1);
            write!(out, "unit {} {} | ", n, i).unwrap();
            res(&mut out, &guard(|| Res::Aff(AffFunc::unit(n, i))));
        }
        21 => {
            let i = rng.below(n + 1);
            write!(out, "zero_idx {} {} | ", n, i).unwrap();
            res(&mut out, &guard(|| Res::Aff(AffFunc::zero_idx(n, i))));
        }
        22 => {
            write!(out, "sum {} | ", n).unwrap();
            res(&mut out, &guard(|| Res::Aff(AffFunc::sum(n))));
        }
        23 => {
            let l = rng.below(n + 1);
            let r = rng.below(n + 1);
            write!(out, "subtraction {} {} {} | ", n, l, r).unwrap();
            res(&mut out, &guard(|| Res::Aff(AffFunc::subtraction(n, l, r))));
        }
        24 => {
            let cols = if rng.chance(1, 8) { n + 1 } else { n };
            let r: Array2<f64> = rand_mat(rng, n, cols);
            out.push_str("rotation ");
            enc::mat(&mut out, &r);
            out.push_str(" | ");
            res(&mut out, &guard(|| Res::Aff(AffFunc::rotation(r.clone()))));
        }
        25 => {
            let s = rand_vec(rng, n);
            out.push_str("scaling ");
            enc::vec(&mut out, &s);
            out.push_str(" | ");
            res(&mut out, &guard(|| Res::Aff(AffFunc::scaling(&s))));
        }
        26 => {
            let c = rng.lat();
            write!(out, "uniform_scaling {} {} | ", n, enc::num(c)).unwrap();
            res(&mut out, &guard(|| Res::Aff(AffFunc::uniform_scaling(n, c))));
        }
        27 => {
            let mut r = rand_vec(rng, n);
            for v in r.iter_mut() {
                if rng.chance(1, 2) {
                    *v = f64::NAN;
                }
            }
            out.push_str("slice ");
            enc::vec(&mut out, &r);
            out.push_str(" | ");
            res(&mut out, &guard(|| Res::Aff(AffFunc::slice(&r))));
        }
        28 => {
            let len = if rng.chance(1, 8) { n + 1 } else { n };
            let off = rand_vec(rng, len);
            write!(out, "translation {} ", n).unwrap();
            enc::vec(&mut out, &off);
            out.push_str(" | ");
            res(&mut out, &guard(|| Res::Aff(AffFunc::translation(n, off.clone()))));
        }
        _ => {
            let f = rand_aff(rng, m, n);
            let which = rng.below(4);
            let repr = [PolyRepr::MatrixLeqBias, PolyRepr::MatrixBiasLeqZero, PolyRepr::MatrixGeqBias, PolyRepr::MatrixBiasGeqZero][which];
            write!(out, "convert_to {} ", which).unwrap();
            enc::aff(&mut out, &f);
            out.push_str(" | ");
            res(&mut out, &guard(|| Res::Aff(f.as_polytope().convert_to(repr))));
        }
    }
    out
}
