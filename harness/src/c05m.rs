//! C05 (third clause): `mirror_points` on random polytopes and start points. The normalised polytope is dumped too:
//! its entries are rounded quotients by a square root, which the exact model takes as given.
use crate::c10::rand_system;
use crate::enc;
use crate::gen::*;
use crate::rng::Rng;
use affinitree::pwl::afftree::AffTree;
use ndarray::Array2;
use std::fmt::Write;
use std::panic::{catch_unwind, AssertUnwindSafe};

pub fn case(rng: &mut Rng) -> String {
    let (r0, c0) = (1 + rng.below(4), 1 + rng.below(3));
    let p = if rng.chance(1, 2) { rand_system(rng, false) } else { rand_poly(rng, r0, c0) };
    let n = p.indim();
    let npts = 1 + rng.below(3);
    let mut pts = Array2::<f64>::zeros((n, npts));
    for j in 0..npts {
        let x = if rng.chance(1, 2) { rand_int_vec(rng, n) } else { rand_vec(rng, n) };
        for i in 0..n {
            pts[[i, j]] = x[i] * if rng.chance(1, 4) { 4.0 } else { 1.0 };
        }
    }
    let iters = *rng.pick(&[1usize, 2, 3, 8, 20]);
    let mut out = String::from("C05M ");
    enc::poly(&mut out, &p);
    out.push(' ');
    enc::poly(&mut out, &p.clone().normalize());
    write!(out, " {}", npts).unwrap();
    for j in 0..npts {
        out.push(' ');
        enc::vec(&mut out, &pts.column(j).to_owned());
    }
    write!(out, " {} | ", iters).unwrap();
    match catch_unwind(AssertUnwindSafe(|| AffTree::<2>::mirror_points(&p, &pts, iters))) {
        Ok(Some((res, count))) => {
            write!(out, "some {} {}", count, res.shape()[1]).unwrap();
            for j in 0..res.shape()[1] {
                out.push(' ');
                enc::vec(&mut out, &res.column(j).to_owned());
            }
        }
        Ok(None) => out.push_str("none"),
        Err(_) => out.push_str("panic"),
    }
    out
}
