//! C18: Architecture builder call sequences, extract_range split law, read_layers on generated npz files.
use crate::c02::eval_guard;
use crate::enc;
use crate::gen::*;
use crate::rng::Rng;
use affinitree::distill::arch::{Architecture, ShapeError, TensorShape};
use affinitree::distill::builder::{afftree_from_layers, read_layers, Layer};
use affinitree::pwl::afftree::AffTree;
use ndarray::{Array1, Array2};
use ndarray_npy::NpzWriter;
use std::fmt::Write;
use std::panic::{catch_unwind, AssertUnwindSafe};

fn err_name(e: &ShapeError) -> &'static str {
    match e {
        ShapeError::Dim { .. } => "dim",
        ShapeError::Index { .. } => "index",
        ShapeError::Type => "type",
    }
}

fn layer_desc(l: &Layer) -> String {
    match l {
        Layer::Linear(a) => {
            let mut s = String::from("linear ");
            enc::aff(&mut s, a);
            s
        }
        Layer::ReLU(i) => format!("relu {}", i),
        Layer::LeakyReLU(i, a) => format!("leaky {} {}", i, enc::num(*a)),
        Layer::HardTanh(i) => format!("hard_tanh {}", i),
        Layer::HardSigmoid(i) => format!("hard_sigmoid {}", i),
        Layer::Argmax => "argmax".to_string(),
        Layer::ClassChar(c) => format!("class_char {}", c),
    }
}

fn shape_of(s: &TensorShape) -> usize {
    s.max_dim()
}

pub fn arch_case(rng: &mut Rng) -> String {
    // now and then the input has width 0 (an empty shape is a shape: only a 0-column layer is compatible with it)
    let n0 = if rng.chance(1, 16) { 0 } else { 1 + rng.below(3) };
    let mut arch = Architecture::new(TensorShape::Flat { in_dim: n0 });
    let mut out = String::new();
    // now and then a wide first layer (64 .. 66 neurons, two of them with an activation): anything the builder derives
    // from the layer widths (capacity estimates such as 2^width) has to cope with it
    let planned: Option<Vec<u64>> = if n0 > 0 && rng.chance(1, 24) { Some(vec![100, 3, 3, 101]) } else { None };
    let ncalls = match &planned { Some(p) => p.len(), None => 1 + rng.below(7) };
    write!(out, "C18 arch {} {}", n0, ncalls).unwrap();
    for call in 0..ncalls {
        let cur = shape_of(&arch.current_shape);
        let idx = if planned.is_none() && rng.chance(1, 6) { cur + rng.below(2) } else { rng.below(cur.max(1)) };
        let code = match &planned { Some(p) => p[call], None => rng.below(11) as u64 };
        let (desc, res): (String, Result<(), ShapeError>) = match code {
            100 | 101 => {
                let outdim = if code == 100 { 64 + rng.below(3) } else { 1 + rng.below(2) };
                let a = rand_aff(rng, outdim, cur);
                let mut d = String::from("linear ");
                enc::aff(&mut d, &a);
                (d, arch.linear(a))
            }
            0 | 1 | 2 => {
                let indim = if rng.chance(1, 5) { cur + 1 } else { cur };
                // now and then a layer without outputs: the shape after it has width 0
                let outdim = if rng.chance(1, 16) { 0 } else { 1 + rng.below(3) };
                // now and then an input shift: identity matrix, non-zero offset
                let a = if cur > 0 && rng.chance(1, 8) { affinitree::linalg::affine::AffFunc::from_mats(Array2::eye(cur), rand_int_vec(rng, cur)) } else { rand_aff(rng, outdim, indim) };
                let mut d = String::from("linear ");
                enc::aff(&mut d, &a);
                (d, arch.linear(a))
            }
            3 => (format!("partial_relu {}", idx), arch.partial_relu(idx)),
            4 => ("relu".to_string(), arch.relu()),
            5 => {
                let a = *rng.pick(&[0.5, 0.25, 2.0]);
                (format!("partial_leaky_relu {} {}", idx, enc::num(a)), arch.partial_leaky_relu(idx, a))
            }
            6 => (format!("partial_hard_tanh {}", idx), arch.partial_hard_tanh(idx)),
            7 => ("hard_tanh".to_string(), arch.hard_tanh()),
            8 => (format!("partial_hard_sigmoid {}", idx), arch.partial_hard_sigmoid(idx)),
            9 => {
                let a = *rng.pick(&[0.5, 0.25, 2.0]);
                (format!("leaky_relu {}", enc::num(a)), arch.leaky_relu(a))
            }
            _ => ("argmax".to_string(), arch.argmax()),
        };
        write!(out, " ; {} | {} {} {}", desc, match &res { Ok(()) => "ok", Err(e) => err_name(e) }, shape_of(&arch.current_shape), arch.operators.len()).unwrap();
    }
    // the queued layers with the recorded shapes
    write!(out, " ;; {}", arch.operators.len()).unwrap();
    for (l, s) in &arch.operators {
        write!(out, " {} @{}", layer_desc(l), shape_of(s)).unwrap();
    }
    // distillation of the accepted architecture and the split law
    let layers: Vec<Layer> = arch.operators().cloned().collect();
    let nops = layers.len();
    let pts: Vec<Array1<f64>> = (0..8).map(|_| rand_int_vec(rng, n0)).collect();
    write!(out, " ;; {}", pts.len()).unwrap();
    for x in &pts {
        out.push(' ');
        enc::vec(&mut out, x);
    }
    let whole = catch_unwind(AssertUnwindSafe(|| afftree_from_layers(n0, &layers, None)));
    match &whole {
        Ok(t) => {
            out.push_str(" whole");
            for x in &pts {
                out.push(' ');
                out.push_str(&eval_guard(t, x));
            }
        }
        Err(_) => out.push_str(" wholepanic"),
    }
    // extract_range: all split points (bounded), plus some invalid ranges
    let mut splits = Vec::new();
    for k in 1..nops.min(6) {
        splits.push(k);
    }
    write!(out, " ;; {}", splits.len()).unwrap();
    for k in splits {
        let r = catch_unwind(AssertUnwindSafe(|| -> Result<(AffTree<2>, usize, usize, usize), String> {
            let a = arch.extract_range(0, k).map_err(|e| err_name(&e).to_string())?;
            let b = arch.extract_range(k, nops).map_err(|e| err_name(&e).to_string())?;
            let mut ta = afftree_from_layers(shape_of(&a.input_shape), a.operators(), None);
            let tb = afftree_from_layers(shape_of(&b.input_shape), b.operators(), None);
            ta.compose::<false, false>(&tb);
            Ok((ta, shape_of(&a.current_shape), shape_of(&b.input_shape), shape_of(&b.current_shape)))
        }));
        match r {
            Ok(Ok((t, sa, sb, sc))) => {
                write!(out, " split {} ok {} {} {}", k, sa, sb, sc).unwrap();
                for x in &pts {
                    out.push(' ');
                    out.push_str(&eval_guard(&t, x));
                }
            }
            Ok(Err(e)) => write!(out, " split {} err {}", k, e).unwrap(),
            Err(_) => write!(out, " split {} panic", k).unwrap(),
        }
    }
    // invalid ranges
    let (s, e) = (rng.below(nops + 2), rng.below(nops + 3));
    match arch.extract_range(s, e) {
        Ok(a) => write!(out, " ;; range {} {} ok {} {} {}", s, e, a.operators.len(), shape_of(&a.input_shape), shape_of(&a.current_shape)).unwrap(),
        Err(er) => write!(out, " ;; range {} {} {}", s, e, err_name(&er)).unwrap(),
    }
    out
}

/// writes an npz file in the documented dialect and reads it back with `read_layers`
pub fn npz_case(rng: &mut Rng, case_no: u64) -> String {
    let mut out = String::from("C18 npz ");
    let dir = std::env::temp_dir().join(format!("avharness-{}", std::process::id()));
    std::fs::create_dir_all(&dir).unwrap();
    let path = dir.join(format!("net-{}.npz", case_no));
    let maxlin = if rng.chance(1, 4) { 12 } else { 4 };
    let nlin = 1 + rng.below(maxlin);
    let pad = *rng.pick(&[0usize, 0, 3]);
    let in_dim = 1 + rng.below(3);
    let mut entries: Vec<(String, Option<(Array2<f64>, Array1<f64>)>)> = Vec::new();
    let mut idx = 0usize;
    let mut dim = in_dim;
    let name = |i: usize, rest: &str| -> String {
        if pad > 0 {
            format!("{:0width$}.{}", i, rest, width = pad)
        } else {
            format!("{}.{}", i, rest)
        }
    };
    for _ in 0..nlin {
        let width = 1 + rng.below(3);
        let a = rand_aff(rng, width, dim);
        entries.push((name(idx, "linear.weights"), Some((a.mat.clone(), a.bias.clone()))));
        entries.push((name(idx, "linear.bias"), None));
        idx += 1;
        dim = width;
        match rng.below(5) {
            0 | 1 => {
                entries.push((name(idx, "relu"), None));
                idx += 1;
            }
            2 => {
                entries.push((name(idx, "hard_tanh"), None));
                idx += 1;
            }
            3 => {
                entries.push((name(idx, "hard_sigmoid"), None));
                idx += 1;
            }
            _ => {}
        }
        // now and then a second activation entry after the same linear layer (a clipped ReLU, say): it applies to the
        // neurons of that linear layer as well
        if rng.chance(1, 4) {
            entries.push((name(idx, *rng.pick(&["relu", "hard_tanh", "hard_sigmoid"])), None));
            idx += 1;
        }
    }
    if rng.chance(1, 3) {
        entries.push(("layers".to_string(), None));
    }
    if rng.chance(1, 3) {
        entries.push((name(idx + 5, "layers"), None));
    }
    // file order is shuffled: the reader has to order by index
    for i in (1..entries.len()).rev() {
        let j = rng.below(i + 1);
        entries.swap(i, j);
    }
    {
        let file = std::fs::File::create(&path).unwrap();
        let mut npz = NpzWriter::new(file);
        // bias arrays need their weights' data: find it
        let lookup: std::collections::HashMap<String, (Array2<f64>, Array1<f64>)> = entries
            .iter()
            .filter_map(|(n, d)| d.as_ref().map(|d| (n.replace("linear.weights", ""), d.clone())))
            .collect();
        for (n, d) in &entries {
            match d {
                Some((m, _)) => npz.add_array(format!("{}.npy", n), m).unwrap(),
                None => {
                    if n.ends_with("linear.bias") {
                        let key = n.replace("linear.bias", "");
                        npz.add_array(format!("{}.npy", n), &lookup[&key].1).unwrap()
                    } else {
                        npz.add_array(format!("{}.npy", n), &Array1::<f64>::zeros(1)).unwrap()
                    }
                }
            }
        }
        npz.finish().unwrap();
    }
    write!(out, "{}", entries.len()).unwrap();
    for (n, d) in &entries {
        write!(out, " {}.npy", n).unwrap();
        match d {
            Some((m, b)) => {
                out.push_str(" W ");
                enc::aff_parts(&mut out, m, b);
            }
            None => out.push_str(" -"),
        }
    }
    out.push_str(" | ");
    let r = catch_unwind(AssertUnwindSafe(|| read_layers(&path)));
    let _ = std::fs::remove_file(&path);
    let _ = std::fs::remove_dir(&dir);
    match r {
        Ok(Ok(layers)) => {
            write!(out, "ok {}", layers.len()).unwrap();
            for l in &layers {
                out.push(' ');
                out.push_str(&layer_desc(l));
            }
        }
        Ok(Err(_)) => out.push_str("err"),
        Err(_) => out.push_str("panic"),
    }
    out
}
