//! C13: traversals (DfsPre, DfsEdge, Bfs) from any start node with arbitrary skip schedules, and tree metrics.
use crate::enc;
use crate::gen::rand_shape;
use crate::rng::Rng;
use affinitree::tree::graph::Tree;
use affinitree::tree::iter::{Bfs, DfsEdge, DfsPre, TraversalMut};
use std::fmt::Write;

fn one<const K: usize>(rng: &mut Rng, thorough: bool) -> String {
    let max_nodes = if thorough { 24 } else { 12 };
    let t: Tree<usize, K> = rand_shape::<K>(rng, max_nodes, true);
    let live: Vec<usize> = t.node_indices().collect();
    let start = if rng.chance(1, 2) { t.get_root_idx() } else { *rng.pick(&live) };
    let kind = rng.below(3);
    // skip schedule: after the k-th item call skip_subtree sk[k] times
    let nsk = t.len() + 2;
    let sk: Vec<usize> = (0..nsk)
        .map(|_| match rng.below(12) {
            0 | 1 => 1,
            2 => 2,
            3 => 3,
            _ => 0,
        })
        .collect();
    let sk: Vec<usize> = if rng.chance(1, 3) { vec![0; nsk] } else { sk };
    let mut out = String::from("C13 ");
    enc::tree_usize(&mut out, &t, true);
    write!(out, " {} {} ", ["dfs", "edge", "bfs"][kind], start).unwrap();
    enc::nats(&mut out, &sk);
    // skip_subtree before the first item (node traversals only: nothing has been returned yet, so nothing is skipped)
    let pre = if kind != 1 && rng.chance(1, 6) { 1 + rng.below(2) } else { 0 };
    write!(out, " {}", pre).unwrap();
    out.push_str(" | ");
    // run
    let mut rows: Vec<String> = Vec::new();
    let hint0;
    macro_rules! drive {
        ($trav:expr, $fmt:expr) => {{
            let mut tr = $trav;
            for _ in 0..pre {
                tr.skip_subtree();
            }
            let h = tr.size_hint();
            hint0 = (h.0, h.1.unwrap_or(usize::MAX));
            let mut k = 0;
            while let Some(item) = tr.next(&t) {
                for _ in 0..sk.get(k).copied().unwrap_or(0) {
                    tr.skip_subtree();
                }
                let h = tr.size_hint();
                rows.push(format!("{} {} {}", $fmt(item), h.0, h.1.unwrap_or(usize::MAX)));
                k += 1;
                if k > 10 * (t.len() + 2) {
                    break;
                }
            }
        }};
    }
    match kind {
        0 => drive!(DfsPre::new(&t, start), |d: affinitree::tree::iter::DfsNodeData| format!("{} {} {}", d.depth, d.index, d.n_remaining)),
        1 => drive!(DfsEdge::new(&t, start), |e: affinitree::tree::iter::EdgeData| format!("{} {} {}", e.src, e.label, e.dest)),
        _ => drive!(Bfs::new(&t, start), |d: affinitree::tree::iter::DfsNodeData| format!("{} {} {}", d.depth, d.index, d.n_remaining)),
    }
    write!(out, "{} {} {}", hint0.0, hint0.1, rows.len()).unwrap();
    for r in rows {
        out.push(' ');
        out.push_str(&r);
    }
    // metrics
    out.push_str(" ; ");
    write!(out, "{} {} {} ", t.num_nodes(start), t.num_terminals(), t.depth()).unwrap();
    let path = t.path_to_node(start).unwrap();
    write!(out, "{}", path.len()).unwrap();
    for (i, l) in path {
        write!(out, " {} {}", i, l).unwrap();
    }
    out.push(' ');
    enc::nats(&mut out, &t.node_indices().collect::<Vec<_>>());
    out.push(' ');
    enc::nats(&mut out, &t.terminal_indices().collect::<Vec<_>>());
    out.push(' ');
    enc::nats(&mut out, &t.decision_indices().collect::<Vec<_>>());
    let (mn, mean, var, mx) = t.depth_stats();
    write!(out, " {} {} {} {}", enc::num(mn), enc::num(mean), enc::num(var), enc::num(mx)).unwrap();
    // the dfs_iter / dfs_edge_iter / node counts through the iterator API (Iterator impl)
    let via_iter: Vec<usize> = t.dfs_iter().map(|d| d.index).collect();
    out.push(' ');
    enc::nats(&mut out, &via_iter);
    let edges: Vec<usize> = t.dfs_edge_iter().flat_map(|e| vec![e.src, e.label, e.dest]).collect();
    out.push(' ');
    enc::nats(&mut out, &edges);
    // the index-order iterators with values: edge_iter (source, value, label, target, value via `extract`), node_iter,
    // terminals(), decisions(), and node_indices from the back
    let ei: Vec<usize> = t
        .edge_iter()
        .flat_map(|e| {
            let (s, sv, l, d, dv) = e.extract();
            vec![s, *sv, l, d, *dv]
        })
        .collect();
    out.push(' ');
    enc::nats(&mut out, &ei);
    let ni: Vec<usize> = t.node_iter().flat_map(|(i, nd)| vec![i, nd.value]).collect();
    out.push(' ');
    enc::nats(&mut out, &ni);
    let ti: Vec<usize> = t.terminals().flat_map(|r| vec![r.idx, *r.value]).collect();
    out.push(' ');
    enc::nats(&mut out, &ti);
    let di: Vec<usize> = t.decisions().flat_map(|r| vec![r.idx, *r.value]).collect();
    out.push(' ');
    enc::nats(&mut out, &di);
    out.push(' ');
    enc::nats(&mut out, &t.node_indices().rev().collect::<Vec<_>>());
    out
}

pub fn case(rng: &mut Rng, thorough: bool) -> String {
    if rng.chance(1, 2) {
        one::<2>(rng, thorough)
    } else {
        one::<3>(rng, thorough)
    }
}
