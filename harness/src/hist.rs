//! Operation histories on `AffTree<2>` (C03 C04 C05 C06 C07 C08 C11): a random constructor followed by a random
//! sequence of transformations; after every step the tree, the LP log, the elimination trace and the values at a
//! fixed set of inputs are dumped.
use crate::c02::eval_guard;
use crate::enc;
use crate::gen::*;
use crate::rng::Rng;
use affinitree::distill::schema;
use affinitree::linalg::affine::AffFunc;
use affinitree::linalg::polyhedron::PolytopeStatus;
use affinitree::pwl::afftree::AffTree;
use affinitree::pwl::node::NodeState;
use affinitree::verif_hooks::{self, LpFault, LpRecord};
use ndarray::{Array1, Array2};
use std::collections::HashMap;
use std::fmt::Write;
use std::panic::{catch_unwind, AssertUnwindSafe};

pub struct Weights {
    pub apply_func: u64,
    pub compose0: u64,
    pub compose1: u64,
    pub elim: u64,
    pub reduce: u64,
    pub arith_tree: u64,
    pub arith_aff: u64,
    pub neg: u64,
    pub faults: bool,
    pub partial16: u64,
    pub max_steps: usize,
    /// > 0: start (mostly) from a deep tree whose terminals come from a palette of this size, with re-grown sub-trees
    pub palette: usize,
}

fn status(out: &mut String, s: &PolytopeStatus) {
    match s {
        PolytopeStatus::Infeasible => out.push('I'),
        PolytopeStatus::Unbounded => out.push('U'),
        PolytopeStatus::Error(_) => out.push('E'),
        PolytopeStatus::Optimal(x) => {
            out.push_str("O ");
            enc::vec(out, x);
        }
    }
}

pub fn lp_log(out: &mut String, log: &[LpRecord]) {
    write!(out, "{}", log.len()).unwrap();
    for r in log {
        out.push(' ');
        enc::aff_parts(out, &r.mat, &r.bias);
        out.push(' ');
        enc::vec(out, &r.coeffs);
        out.push(' ');
        status(out, &r.real);
        out.push(' ');
        status(out, &r.returned);
    }
}

fn schema_tree(rng: &mut Rng, m: usize) -> (String, AffTree<2>) {
    let r = rng.below(m);
    match rng.below(7) {
        0 | 1 | 2 => (format!("relu {} {}", m, r), schema::partial_ReLU(m, r)),
        3 => {
            let a = *rng.pick(&[0.5, 0.25, 2.0, -1.0]);
            (format!("leaky {} {} {}", m, r, enc::num(a)), schema::partial_leaky_ReLU(m, r, a))
        }
        4 => (format!("hard_tanh {} {} {} {}", m, r, enc::num(-1.0), enc::num(1.0)), schema::partial_hard_tanh(m, r, -1.0, 1.0)),
        5 => {
            let l = *rng.pick(&[0.5, 1.0, 2.0]);
            (format!("hard_shrink {} {} {}", m, r, enc::num(l)), schema::partial_hard_shrink(m, r, l))
        }
        _ => {
            let thr = rng.lat();
            let v = rng.lat();
            (format!("threshold {} {} {} {}", m, r, enc::num(thr), enc::num(v)), schema::partial_threshold(m, r, thr, v))
        }
    }
}

fn fault_plan(rng: &mut Rng, enabled: bool, wide: bool) -> (String, HashMap<usize, LpFault>) {
    let mut plan = HashMap::new();
    let mut s = String::new();
    let mut items = Vec::new();
    if enabled && rng.chance(3, 4) {
        let k = 1 + rng.below(4);
        for _ in 0..k {
            let call = rng.below(if wide { 6 } else { 14 });
            // histories with a wide domain bound: mostly small perturbations (far above the containment slack of
            // 1e-8, far below the bound)
            let kind = if wide && rng.chance(2, 3) { 2 } else { rng.below(4) };
            let (name, f) = match kind {
                0 => ("E".to_string(), LpFault::Error),
                1 => ("U".to_string(), LpFault::Unbounded),
                2 => {
                    let d = if wide { *rng.pick(&[(2.0f64).powi(-16), -(2.0f64).powi(-16), (2.0f64).powi(-15), -(2.0f64).powi(-18)]) } else { *rng.pick(&[0.5, -0.5, 1e-3, 4.0]) };
                    (format!("P {}", enc::num(d)), LpFault::Perturb(d))
                }
                _ => ("F".to_string(), LpFault::FarOff),
            };
            if plan.insert(call, f).is_none() {
                items.push(format!("{} {}", call, name));
            }
        }
    }
    write!(s, "{}", items.len()).unwrap();
    for it in items {
        s.push(' ');
        s.push_str(&it);
    }
    (s, plan)
}

/// an operand whose root decision passes a cached witness of one of `t`'s terminals at a tiny Euclidean distance
/// (2^-30) on the wrong side, with a large row norm (2^20): the raw violation 2^-10 is far above the containment
/// tolerance, the normalised one far below it. Followed by an elimination this probes `phase_inh` / `contains`.
fn witness_operand(rng: &mut Rng, t: &AffTree<2>, m: usize) -> Option<(String, AffTree<2>, usize)> {
    use affinitree::pwl::node::NodeState;
    let mut cands: Vec<(AffFunc, Array1<f64>)> = Vec::new();
    for idx in t.tree.terminal_indices() {
        let node = t.tree.tree_node(idx).ok()?;
        if let NodeState::FeasibleWitness(ws) = &node.value.state {
            if let Some(w) = ws.first() {
                cands.push((node.value.aff.clone(), w.clone()));
            }
        }
    }
    if cands.is_empty() {
        return None;
    }
    let (aff, w) = rng.pick(&cands).clone();
    if aff.outdim() != m || m == 0 {
        return None;
    }
    let y = aff.apply(&w);
    let j = rng.below(m);
    let k = (2.0f64).powi(20) * if rng.chance(1, 2) { 1.0 } else { -1.0 };
    let delta = (2.0f64).powi(-10);
    let mut mat = Array2::<f64>::zeros((1, m));
    mat[[0, j]] = k;
    let bias = ndarray::arr1(&[k * y[j] - delta]);
    if !bias[0].is_finite() {
        return None;
    }
    let p = 1 + rng.below(2);
    let mut g = AffTree::<2>::from_aff(AffFunc::from_mats(mat, bias));
    g.add_child_node(0, 0, rand_aff(rng, p, m)).ok()?;
    g.add_child_node(0, 1, rand_aff(rng, p, m)).ok()?;
    let mut s = String::from("tree ");
    enc::afftree(&mut s, &g);
    Some((s, g, p))
}

pub fn case(rng: &mut Rng, w: &Weights, tag: &str) -> String {
    let n = 1 + rng.below(3);
    let mut m;
    let mut out = String::new();
    write!(out, "HIST {} {} ", tag, enc::num(1e-8)).unwrap();
    // constructor
    let ctor = if w.palette > 0 && rng.chance(3, 4) { 5 } else { rng.below(6) };
    let mut wide = false;
    // the start tree lives in a re-rooted arena: its disconnected draft root is still listed by the arena-order
    // iterators (the documented exception of `Tree::add_root`), so only operations that walk from the root are applied
    // to it — `infeasible_elimination`, repeatedly
    let mut rerooted_start = false;
    let mut t: AffTree<2> = match ctor {
        0 => {
            m = n;
            write!(out, "new {}", n).unwrap();
            AffTree::<2>::new(n)
        }
        1 => {
            m = 1 + rng.below(3);
            let f = rand_aff(rng, m, n);
            out.push_str("from_aff ");
            enc::aff(&mut out, &f);
            AffTree::<2>::from_aff(f)
        }
        2 | 3 => {
            m = 1 + rng.below(3);
            let nrows = 1 + rng.below(3);
            let mut p = rand_poly(rng, nrows, n);
            // fault histories: now and then one wide domain bound (a bias of 2^12, first row = decision at the root, next to rows of ordinary size; not larger: at a vertex on a bound of
            // 2^20 binary64 cannot decide the containment slack of 1e-8 any more), so
            // that a containment test whose slack grows with the largest bias would let perturbed points through
            if w.faults && rng.chance(1, 2) {
                wide = true;
                let j = rng.below(n);
                let mut r = Array1::<f64>::zeros(n);
                r[j] = if rng.chance(1, 2) { 1.0 } else { -1.0 };
                // first row = decision at the root: the bound is on the path of every node below its closed side
                let mut mat = Array2::<f64>::zeros((0, n));
                let mut bias = Array1::<f64>::zeros(0);
                mat.push_row(r.view()).unwrap();
                bias.append(ndarray::Axis(0), ndarray::arr1(&[(2.0f64).powi(12)]).view()).unwrap();
                for (row, b) in p.mat.rows().into_iter().zip(p.bias.iter()) {
                    mat.push_row(row).unwrap();
                    bias.append(ndarray::Axis(0), ndarray::arr1(&[*b]).view()).unwrap();
                }
                p = Polytope::from_mats(mat, bias);
            }
            // now and then one row of the precondition is scaled by 2^27 (coefficients and bias: the same half-space): the
            // solver's vertex then misses `contains` by more than its absolute slack and the repair branch of the sweep runs
            if !w.faults && !wide && rng.chance(1, 8) {
                let i = rng.below(p.mat.nrows());
                let k = (2.0f64).powi(27);
                let mut mat = p.mat.clone();
                let mut bias = p.bias.clone();
                mat.row_mut(i).mapv_inplace(|v| v * k);
                bias[i] *= k;
                p = Polytope::from_mats(mat, bias);
            }
            let ft = rand_aff(rng, m, n);
            let ff = if rng.chance(1, 2) { Some(rand_aff(rng, m, n)) } else { None };
            out.push_str("from_poly ");
            enc::poly(&mut out, &p);
            out.push(' ');
            enc::aff(&mut out, &ft);
            match &ff {
                Some(f) => {
                    out.push_str(" some ");
                    enc::aff(&mut out, f);
                }
                None => out.push_str(" none"),
            }
            AffTree::<2>::from_poly(p, ft, ff.as_ref()).unwrap()
        }
        4 => {
            m = n;
            let (name, t) = schema_tree(rng, n);
            write!(out, "schema {}", name).unwrap();
            t
        }
        _ => {
            m = 1 + rng.below(3);
            let tp = if w.palette > 0 {
                TreeParams { in_dim: n, out_dim: m, max_depth: 3 + rng.below(3), partial16: w.partial16, holes: true, palette: if rng.chance(1, 2) { 2 } else { w.palette } }
            } else {
                TreeParams { in_dim: n, out_dim: m, max_depth: 2 + rng.below(2), partial16: w.partial16, holes: rng.chance(1, 3), palette: 0 }
            };
            out.push_str("tree");
            let t0: AffTree<2> = rand_tree(rng, &tp);
            if w.elim > 0 && rng.chance(1, 5) {
                rerooted_start = true;
                // the same tree in a re-rooted arena: the root is not slot 0 (slot 0 holds the disconnected draft)
                enc::ORPHAN.with(|o| o.set(Some(0)));
                crate::gen::rerooted(rng, &t0)
            } else if rng.chance(1, 5) {
                // grown upwards: a new root on top, the former root (slot 0) is an inner node now
                let part = w.partial16 > 0 && rng.chance(1, 4);
                crate::gen::uprooted(rng, &t0, m, part)
            } else {
                t0
            }
        }
    };
    out.push_str(" | ");
    enc::afftree(&mut out, &t);
    // fixed inputs
    let pts: Vec<Array1<f64>> = {
        let mut p = rand_points(rng, &t, 8);
        p.extend((0..4).map(|_| rand_int_vec(rng, n)));
        p
    };
    write!(out, " {}", pts.len()).unwrap();
    for x in &pts {
        out.push(' ');
        enc::vec(&mut out, x);
    }
    let evals = |t: &AffTree<2>| -> String {
        let mut s = String::new();
        for x in &pts {
            s.push(' ');
            s.push_str(&eval_guard(t, x));
        }
        s
    };
    out.push_str(&evals(&t));
    let steps = 1 + rng.below(w.max_steps);
    let total = w.apply_func + w.compose0 + w.compose1 + w.elim + w.reduce + w.arith_tree + w.arith_aff + w.neg;
    for _ in 0..steps {
        if t.len() > 400 {
            break;
        }
        out.push_str(" ; ");
        let mut pick = rng.next() % total;
        if rerooted_start {
            pick = w.apply_func + w.compose0 + w.compose1;
        }
        let (plan_s, plan) = fault_plan(rng, w.faults, wide);
        let mut opdesc = String::new();
        // build the operation as a closure over a clone, run it under the hooks
        let mut next = t.clone();
        let mut extra_before: Option<AffTree<2>> = None; // un-pruned reference result, where there is one
        let mut opclass = 0; // 1 = elim, 2 = reduce
        let run: Box<dyn FnOnce(&mut AffTree<2>)>;
        // now and then the user adds witnesses of their own to the public cache of a node (the cache is a list):
        // points strictly inside the node's path region, next to the cached one
        let planted = if !rerooted_start && rng.chance(1, 10) { plant_witnesses(rng, &t) } else { None };
        if let Some((idx, pts)) = planted {
            write!(opdesc, "plant {} {}", idx, pts.len()).unwrap();
            for x in &pts {
                opdesc.push(' ');
                enc::vec(&mut opdesc, x);
            }
            run = Box::new(move |t| {
                if let NodeState::FeasibleWitness(v) = &mut t.tree.node_value_mut(idx).unwrap().state {
                    v.extend(pts);
                }
            });
        } else if pick < w.apply_func {
            let mut p = 1 + rng.below(3);
            let mut a = rand_aff(rng, p, m);
            // now and then a pure translation (identity matrix, non-zero offset): terminals of the form x + b are where
            // "is this the identity?" shortcuts go wrong
            if rng.chance(1, 6) {
                p = m;
                a = AffFunc::from_mats(Array2::eye(m), rand_int_vec(rng, m));
            }
            opdesc.push_str("apply_func ");
            enc::aff(&mut opdesc, &a);
            m = p;
            run = Box::new(move |t| t.apply_func(&a));
        } else if { pick -= w.apply_func; pick < w.compose0 + w.compose1 } {
            let prune = pick >= w.compose0;
            let wit = if tag == "C05" && rng.chance(1, 2) { witness_operand(rng, &t, m) } else { None };
            let (gname, g) = if let Some((s, g, p)) = wit {
                m = p;
                (s, g)
            } else if rng.chance(2, 3) {
                let (name, g) = schema_tree(rng, m);
                (format!("schema {}", name), g)
            } else {
                let p = 1 + rng.below(3);
                let tp = TreeParams { in_dim: m, out_dim: p, max_depth: 1 + rng.below(2), partial16: w.partial16, holes: false, palette: 0 };
                let mut g: AffTree<2> = rand_tree(rng, &tp);
                if rng.chance(1, 2) {
                    // an operand that carries cached feasibility states from its own earlier elimination
                    g.infeasible_elimination();
                }
                m = p;
                let mut s = String::from("tree ");
                enc::afftree(&mut s, &g);
                (s, g)
            };
            write!(opdesc, "compose{} {}", if prune { 1 } else { 0 }, gname).unwrap();
            if prune {
                let mut u = t.clone();
                let g2 = g.clone();
                if catch_unwind(AssertUnwindSafe(|| u.compose::<false, false>(&g2))).is_ok() {
                    extra_before = Some(u);
                }
                if rng.chance(1, 4) {
                    run = Box::new(move |t| t.compose::<true, true>(&g));
                } else {
                    run = Box::new(move |t| t.compose::<true, false>(&g));
                }
            } else if rng.chance(1, 4) {
                run = Box::new(move |t| t.compose::<false, true>(&g));
            } else {
                run = Box::new(move |t| t.compose::<false, false>(&g));
            }
        } else if { pick -= w.compose0 + w.compose1; pick < w.elim } {
            opdesc.push_str("elim");
            opclass = 1;
            run = Box::new(move |t| {
                t.infeasible_elimination();
            });
        } else if { pick -= w.elim; pick < w.reduce } {
            opdesc.push_str("reduce");
            opclass = 2;
            run = Box::new(move |t| t.reduce());
        } else if { pick -= w.reduce; pick < w.arith_tree } {
            let nops = if rng.chance(1, 6) { 4 } else { 3 };
            let which = rng.below(nops);
            let tp = TreeParams { in_dim: n, out_dim: m, max_depth: 1 + rng.below(2), partial16: w.partial16, holes: false, palette: 0 };
            let mut g: AffTree<2> = rand_tree(rng, &tp);
            if rng.chance(1, 2) {
                g.infeasible_elimination();
            }
            if which == 3 {
                // divisor without zero coefficients
                for term in g.tree.terminals_mut() {
                    for v in term.value.aff.mat.iter_mut() {
                        *v = *rng.pick(&[1.0, -1.0, 2.0, 0.5, -4.0]);
                    }
                    for v in term.value.aff.bias.iter_mut() {
                        *v = *rng.pick(&[1.0, -1.0, 2.0, 0.5, -4.0]);
                    }
                }
            }
            let variant = rng.below(4);
            write!(opdesc, "{} {} ", ["add", "sub", "mul", "div"][which], variant).unwrap();
            enc::afftree(&mut opdesc, &g);
            run = Box::new(move |t| {
                let a = t.clone();
                let r = match (which, variant) {
                    (0, 0) => &a + &g,
                    (0, 1) => a + &g,
                    (0, 2) => a + g,
                    (0, _) => &a + g,
                    (1, 0) => &a - &g,
                    (1, 1) => a - &g,
                    (1, 2) => a - g,
                    (1, _) => &a - g,
                    (2, 0) => &a * &g,
                    (2, 1) => a * &g,
                    (2, 2) => a * g,
                    (2, _) => &a * g,
                    (_, 0) => &a / &g,
                    (_, 1) => a / &g,
                    (_, 2) => a / g,
                    (_, _) => &a / g,
                };
                *t = r;
            });
        } else if { pick -= w.arith_tree; pick < w.arith_aff } {
            let which = rng.below(3);
            let side = rng.below(2); // 0: tree op aff, 1: aff op tree
            let byref = rng.below(2);
            let a = rand_aff(rng, m, n);
            write!(opdesc, "{}f {} ", ["add", "sub", "mul"][which], side).unwrap();
            enc::aff(&mut opdesc, &a);
            run = Box::new(move |t| {
                let x = t.clone();
                let r = match (which, side, byref) {
                    (0, 0, 0) => x + a,
                    (0, 0, _) => x + &a,
                    (0, _, 0) => a + x,
                    (0, _, _) => &a + x,
                    (1, 0, 0) => x - a,
                    (1, 0, _) => x - &a,
                    (1, _, 0) => a - x,
                    (1, _, _) => &a - x,
                    (_, 0, 0) => x * a,
                    (_, 0, _) => x * &a,
                    (_, _, 0) => a * x,
                    (_, _, _) => &a * x,
                };
                *t = r;
            });
        } else {
            opdesc.push_str("neg");
            run = Box::new(move |t| {
                let x = t.clone();
                *t = -x;
            });
        }
        write!(out, "{} {} | ", opdesc, plan_s).unwrap();
        let has_plan = !plan.is_empty();
        // fault-free reference run (node count) for the "only less pruning" clause
        let base_len: Option<usize> = if has_plan && opclass == 1 {
            let mut b = t.clone();
            catch_unwind(AssertUnwindSafe(|| {
                b.infeasible_elimination();
                // nodes of the tree: the disconnected draft root of a re-rooted arena is not one of them
                b.len() - if rerooted_start { 1 } else { 0 }
            }))
            .ok()
        } else {
            None
        };
        verif_hooks::start(plan);
        let res = catch_unwind(AssertUnwindSafe(|| run(&mut next)));
        let trace = verif_hooks::take_trace();
        let log = verif_hooks::stop();
        if let Err(e) = &res {
            out.push_str(panic_token(e));
            break;
        }
        out.push_str("ok ");
        enc::afftree(&mut out, &next);
        out.push(' ');
        lp_log(&mut out, &log);
        write!(out, " {}", trace.len()).unwrap();
        for (i, st) in &trace {
            write!(out, " {} ", i).unwrap();
            enc::state(&mut out, st);
        }
        out.push_str(&evals(&next));
        match &extra_before {
            Some(u) => {
                out.push_str(" ref");
                out.push_str(&evals(u));
            }
            None => out.push_str(" noref"),
        }
        // idempotence: run the same clean-up once more on a clone
        if opclass == 1 {
            let mut again = next.clone();
            verif_hooks::start(HashMap::new());
            let r = catch_unwind(AssertUnwindSafe(|| again.infeasible_elimination()));
            let log2 = verif_hooks::stop();
            match r {
                Ok(counter) => write!(out, " idem {} {} {}", same_code(&again, &next), counter.lps_solved, log2.len()).unwrap(),
                Err(_) => out.push_str(" idem 0 999 999"),
            }
            // the values after the second run (a sweep that trusts the caches must not change the function)
            out.push_str(&evals(&again));
        } else if opclass == 2 {
            let mut again = next.clone();
            let r = catch_unwind(AssertUnwindSafe(|| again.reduce()));
            let mut a = String::new();
            let mut b = String::new();
            enc::afftree(&mut a, &again);
            enc::afftree(&mut b, &next);
            write!(out, " idem {} 0 0", if r.is_ok() && a == b { 1 } else { 0 }).unwrap();
            out.push_str(&evals(&again));
        } else {
            out.push_str(" noidem");
        }
        match base_len {
            Some(l) => write!(out, " base {}", l).unwrap(),
            None => out.push_str(" nobase"),
        }
        t = next;
    }
    out
}

// ---------------------------------------------------------------------------------------------------------
// C01: a network is distilled (a) by the real builder in one call and (b) step by step with the same public
// operations the builder uses; (b) is dumped as a history, and the final trees of (a) and (b) are compared.

use affinitree::distill::builder::{afftree_from_layers, afftree_from_layers_csv, afftree_from_layers_verbose, Layer};
use affinitree::linalg::affine::Polytope;

/// 1: identical, 2: identical up to the cached feasibility states, 0: structure or maps differ
fn same_code(x: &AffTree<2>, y: &AffTree<2>) -> u8 {
    let mut a = String::new();
    let mut b = String::new();
    enc::afftree(&mut a, x);
    enc::afftree(&mut b, y);
    if a == b {
        return 1;
    }
    let strip = |t: &AffTree<2>| -> String {
        let mut c = t.clone();
        for i in c.tree.node_indices().collect::<Vec<_>>() {
            c.tree.node_value_mut(i).unwrap().state = affinitree::pwl::node::NodeState::Indeterminate;
        }
        let mut s = String::new();
        enc::afftree(&mut s, &c);
        s
    };
    if strip(x) == strip(y) { 2 } else { 0 }
}

/// "panic", or "panicS" when the panic is the `SingularMatrix` unwrap inside the external LP solver (minilp 0.2.2,
/// `BasisSolver::reset`): the message of the payload tells
fn panic_token(e: &Box<dyn std::any::Any + Send>) -> &'static str {
    let msg = e.downcast_ref::<String>().map(|s| s.as_str()).or_else(|| e.downcast_ref::<&str>().copied()).unwrap_or("");
    if msg.contains("SingularMatrix") { "panicS" } else { "panic" }
}

/// a node that caches a witness, and one or two further points strictly inside its path region (slack >= 2^-10 in every
/// row), found next to the cached witness
fn plant_witnesses(rng: &mut Rng, t: &AffTree<2>) -> Option<(usize, Vec<Array1<f64>>)> {
    let n = t.in_dim();
    let mut cands: Vec<(usize, Polytope, Array1<f64>)> = Vec::new();
    let mut it = t.polyhedra();
    while let Some((data, polys)) = it.next(&t.tree) {
        if let NodeState::FeasibleWitness(ws) = &t.tree.node_value(data.index).unwrap().state {
            if let Some(w0) = ws.first() {
                if w0.iter().all(|v| (v * 1024.0).fract() == 0.0 && v.abs() < 4096.0) {
                    cands.push((data.index, Polytope::intersection_n(n, polys.as_slice()), w0.clone()));
                }
            }
        }
    }
    if cands.is_empty() {
        return None;
    }
    let (idx, poly, w0) = rng.pick(&cands).clone();
    let mut pts = Vec::new();
    for _ in 0..12 {
        let mut x = w0.clone();
        let s = *rng.pick(&[1.0, 0.5, 0.25, 2.0, 4.0]);
        for j in 0..n {
            x[j] += s * rng.lat_int();
        }
        if x != w0 && poly.distance_raw(&x).iter().all(|d| *d >= 0.0009765625) {
            pts.push(x);
            if pts.len() >= 2 {
                break;
            }
        }
    }
    if pts.is_empty() { None } else { Some((idx, pts)) }
}

fn layer_desc(l: &Layer) -> String {
    match l {
        Layer::Linear(a) => {
            let mut s = String::from("linear ");
            enc::aff(&mut s, a);
            s
        }
        Layer::ReLU(i) => format!("relu {}", i),
        Layer::LeakyReLU(i, a) => format!("leaky {} {}", i, enc::num(*a)),
        Layer::HardTanh(i) => format!("hard_tanh {}", i),
        Layer::HardSigmoid(i) => format!("hard_sigmoid {}", i),
        Layer::Argmax => "argmax".to_string(),
        Layer::ClassChar(c) => format!("class_char {}", c),
    }
}

pub fn net_case(rng: &mut Rng, thorough: bool) -> String {
    let n = 1 + rng.below(3);
    let mut out = String::new();
    write!(out, "HIST C01 {} ", enc::num(1e-8)).unwrap();
    // a head directly on the single-terminal root, with comparisons that are decided on the whole input space
    // (rows with identical weights and different biases, or zero weights): `compose::<true>` prunes at the root
    let head_only = rng.chance(1, 8);
    // precondition
    let mut pre_desc = String::new();
    let pre: Option<(Polytope, AffTree<2>)> = if head_only {
        None
    } else if rng.chance(1, 2) {
        let rows = 1 + rng.below(3);
        let p = match rng.below(4) {
            0 => Polytope::hypercube(n, 1.0 + rng.below(3) as f64),
            1 => {
                // contains an infeasible tail: the chain of decisions has an empty last region
                let mut q = rand_poly(rng, rows, n);
                let r0 = q.mat.row(0).to_owned();
                let b0 = q.bias[0];
                let mut mat = q.mat.clone();
                let mut bias = q.bias.clone();
                mat.push_row((&r0 * -1.0).view()).unwrap();
                bias.append(ndarray::Axis(0), ndarray::arr1(&[-b0 - 1.0]).view()).unwrap();
                q = Polytope::from_mats(mat, bias);
                q
            }
            _ => rand_poly(rng, rows, n),
        };
        // without else-branch (partial) or with one (total: infeasible tails can be removed, the tree shrinks)
        // the polytope itself is handed to the judge: C01 speaks about the precondition, not about the tree made of it
        pre_desc.push_str(" poly ");
        enc::poly(&mut pre_desc, &p);
        let t = if rng.chance(1, 2) {
            pre_desc.push_str(" none");
            AffTree::<2>::from_poly(p.clone(), AffFunc::identity(n), None).unwrap()
        } else {
            let other = rand_aff(rng, n, n);
            pre_desc.push_str(" some ");
            enc::aff(&mut pre_desc, &other);
            AffTree::<2>::from_poly(p.clone(), AffFunc::identity(n), Some(&other)).unwrap()
        };
        Some((p, t))
    } else if rng.chance(1, 4) {
        // an arbitrary total tree as precondition
        let m = 1 + rng.below(3);
        let tp = TreeParams { in_dim: n, out_dim: m, max_depth: 2, partial16: 0, holes: false, palette: 0 };
        let t: AffTree<2> = rand_tree(rng, &tp);
        Some((Polytope::unbounded(n), t))
    } else {
        None
    };
    // layers
    let mut layers: Vec<Layer> = Vec::new();
    let mut dim = match &pre {
        Some((_, t)) => t.terminals().map(|x| x.aff.outdim()).next().unwrap(),
        None => n,
    };
    let dim_start = dim;
    let maxhidden = if thorough { 3 } else { 2 };
    let hidden = if head_only { 0 } else { 1 + rng.below(maxhidden) };
    if head_only {
        let width = 2 + rng.below(2);
        let mut a = rand_aff(rng, width, dim);
        for i in 1..width {
            match rng.below(3) {
                0 => {
                    for j in 0..dim {
                        a.mat[[i, j]] = a.mat[[0, j]];
                    }
                }
                1 => {
                    for j in 0..dim {
                        a.mat[[i, j]] = 0.0;
                    }
                }
                _ => {}
            }
        }
        layers.push(Layer::Linear(a));
        dim = width;
        if rng.chance(1, 2) {
            layers.push(Layer::Argmax);
        } else {
            layers.push(Layer::ClassChar(rng.below(dim)));
        }
    }
    // one network in eight has weights of large magnitude (small lattice values times 2^5 .. 2^12): the solver's vertices
    // then miss `contains` by more than its absolute tolerance and the repair heuristics are exercised
    let big: f64 = if rng.chance(1, 8) { (2.0f64).powi(5 + rng.below(8) as i32) } else { 1.0 };
    // now and then the network starts with an input shift (identity matrix, non-zero offset)
    if !head_only && rng.chance(1, 8) {
        layers.push(Layer::Linear(AffFunc::from_mats(Array2::eye(dim), rand_int_vec(rng, dim))));
    }
    // now and then a head in the middle of the network (a classifier feeding a second network): the pruned composition
    // of a head is then followed by eliminations and by another pruned composition on the same tree
    if !head_only && rng.chance(1, 6) {
        let width = 2 + rng.below(3);
        layers.push(Layer::Linear(rand_aff(rng, width, dim)));
        if rng.chance(2, 3) {
            layers.push(Layer::Argmax);
        } else {
            layers.push(Layer::ClassChar(rng.below(width)));
        }
        dim = 1;
    }
    for _ in 0..hidden {
        let width = 1 + rng.below(3);
        let mut a = rand_aff(rng, width, dim);
        if big != 1.0 {
            a.mat.mapv_inplace(|v| v * big);
            a.bias.mapv_inplace(|v| v * big);
        }
        layers.push(Layer::Linear(a));
        dim = width;
        for i in 0..dim {
            match rng.below(8) {
                0 | 1 | 2 => layers.push(Layer::ReLU(i)),
                3 => layers.push(Layer::LeakyReLU(i, *rng.pick(&[0.5, 0.25, 2.0, -1.0]))),
                4 => layers.push(Layer::HardTanh(i)),
                5 => layers.push(Layer::HardSigmoid(i)),
                _ => {}
            }
        }
    }
    if !head_only && rng.chance(1, 2) {
        let width = 1 + rng.below(3);
        layers.push(Layer::Linear(rand_aff(rng, width, dim)));
        dim = width;
    }
    if !head_only && dim >= 2 && rng.chance(1, 2) {
        if rng.chance(1, 2) {
            layers.push(Layer::Argmax);
        } else {
            layers.push(Layer::ClassChar(rng.below(dim)));
        }
    }
    // (b) step by step
    let mut t: AffTree<2> = match &pre {
        Some((_, tree)) => {
            out.push_str("precondition");
            out.push_str(&pre_desc);
            tree.clone()
        }
        None => {
            write!(out, "new {}", n).unwrap();
            AffTree::<2>::new(n)
        }
    };
    out.push_str(" | ");
    enc::afftree(&mut out, &t);
    let pts: Vec<Array1<f64>> = {
        let mut p = rand_points(rng, &t, 6);
        p.extend((0..8).map(|_| rand_int_vec(rng, n)));
        // inputs on, and one unit in the last place off, the activation breakpoints and head ties of the network: the
        // hyperplanes of the distilled tree itself
        let pre_probe = pre.as_ref().map(|(_, t)| t.clone());
        if let Ok(probe) = catch_unwind(AssertUnwindSafe(|| afftree_from_layers(n, &layers, pre_probe))) {
            p.extend(rand_points(rng, &probe, 5));
        }
        p
    };
    write!(out, " {}", pts.len()).unwrap();
    for x in &pts {
        out.push(' ');
        enc::vec(&mut out, x);
    }
    let evals = |t: &AffTree<2>| -> String {
        let mut s = String::new();
        for x in &pts {
            s.push(' ');
            s.push_str(&eval_guard(t, x));
        }
        s
    };
    out.push_str(&evals(&t));
    let mut d = dim_start;
    let mut panicked = false;
    for l in &layers {
        // the operations of `afftree_from_layers_generic` for this layer
        let mut ops: Vec<(String, Box<dyn FnOnce(&mut AffTree<2>)>, i32)> = Vec::new();
        match l {
            Layer::Linear(a) => {
                let mut s = String::from("apply_func ");
                enc::aff(&mut s, a);
                let a2 = a.clone();
                d = a.outdim();
                ops.push((s, Box::new(move |t| t.apply_func(&a2)), 0));
            }
            Layer::ReLU(r) => {
                let g = schema::partial_ReLU(d, *r);
                ops.push((format!("compose0 schema relu {} {}", d, r), Box::new(move |t| t.compose::<false, false>(&g)), 0));
                ops.push(("elim".to_string(), Box::new(|t| { t.infeasible_elimination(); }), 1));
            }
            Layer::LeakyReLU(r, a) => {
                let g = schema::partial_leaky_ReLU(d, *r, *a);
                ops.push((format!("compose0 schema leaky {} {} {}", d, r, enc::num(*a)), Box::new(move |t| t.compose::<false, false>(&g)), 0));
                ops.push(("elim".to_string(), Box::new(|t| { t.infeasible_elimination(); }), 1));
            }
            Layer::HardTanh(r) => {
                let g = schema::partial_hard_tanh(d, *r, -1., 1.);
                ops.push((format!("compose0 schema hard_tanh {} {} {} {}", d, r, enc::num(-1.0), enc::num(1.0)), Box::new(move |t| t.compose::<false, false>(&g)), 0));
                ops.push(("elim".to_string(), Box::new(|t| { t.infeasible_elimination(); }), 1));
            }
            Layer::HardSigmoid(r) => {
                let g = schema::partial_hard_sigmoid(d, *r);
                ops.push((format!("compose0 schema hard_sigmoid {} {} {} {} {}", d, r, enc::num(3.), enc::num(1. / 6.), enc::num(0.5)), Box::new(move |t| t.compose::<false, false>(&g)), 0));
                ops.push(("elim".to_string(), Box::new(|t| { t.infeasible_elimination(); }), 1));
            }
            Layer::Argmax => {
                let g = schema::argmax(d);
                ops.push((format!("compose1 schema argmax {}", d), Box::new(move |t| t.compose::<true, false>(&g)), 0));
                d = 1;
            }
            Layer::ClassChar(c) => {
                let g = schema::class_characterization(d, *c);
                ops.push((format!("compose1 schema class_char {} {}", d, c), Box::new(move |t| t.compose::<true, false>(&g)), 0));
                d = 1;
            }
        }
        for (desc, run, opclass) in ops {
            out.push_str(" ; ");
            write!(out, "{} 0 | ", desc).unwrap();
            let mut next = t.clone();
            verif_hooks::start(HashMap::new());
            let res = catch_unwind(AssertUnwindSafe(|| run(&mut next)));
            let trace = verif_hooks::take_trace();
            let log = verif_hooks::stop();
            if let Err(e) = &res {
                out.push_str(panic_token(e));
                panicked = true;
                break;
            }
            out.push_str("ok ");
            enc::afftree(&mut out, &next);
            out.push(' ');
            lp_log(&mut out, &log);
            write!(out, " {}", trace.len()).unwrap();
            for (i, st) in &trace {
                write!(out, " {} ", i).unwrap();
                enc::state(&mut out, st);
            }
            out.push_str(&evals(&next));
            out.push_str(" noref");
            if opclass == 1 {
                let mut again = next.clone();
                verif_hooks::start(HashMap::new());
                let r = catch_unwind(AssertUnwindSafe(|| again.infeasible_elimination()));
                let log2 = verif_hooks::stop();
                match r {
                    Ok(counter) => write!(out, " idem {} {} {}", same_code(&again, &next), counter.lps_solved, log2.len()).unwrap(),
                    Err(_) => out.push_str(" idem 0 999 999"),
                }
                out.push_str(&evals(&again));
            } else {
                out.push_str(" noidem");
            }
            out.push_str(" nobase");
            t = next;
        }
        if panicked {
            break;
        }
    }
    // (a) the real builder, and the specification side
    out.push_str(" NET ");
    write!(out, "{} {}", n, layers.len()).unwrap();
    for l in &layers {
        out.push(' ');
        out.push_str(&layer_desc(l));
    }
    let pre_tree = pre.as_ref().map(|(_, t)| t.clone());
    // the three public wrappers of the builder (silent, console progress, csv log) must build the same tree
    let wrapper = rng.below(6);
    let built = catch_unwind(AssertUnwindSafe(|| match wrapper {
        0 => afftree_from_layers_verbose(n, &layers, pre_tree),
        1 => {
            let path = std::env::temp_dir().join(format!("avharness-{}.csv", std::process::id()));
            let t = afftree_from_layers_csv(n, &layers, &path, pre_tree);
            let _ = std::fs::remove_file(&path);
            t
        }
        _ => afftree_from_layers(n, &layers, pre_tree),
    }));
    match built {
        Ok(b) => {
            let mut sa = String::new();
            let mut sb = String::new();
            enc::afftree(&mut sa, &b);
            enc::afftree(&mut sb, &t);
            write!(out, " built {}", if !panicked && sa == sb { 1 } else { 0 }).unwrap();
            out.push_str(&evals(&b));
        }
        Err(e) => {
            out.push_str(" build");
            out.push_str(panic_token(&e));
        }
    }
    out
}
