//! Correspondence harness: generates cases from (seed, case number), runs the real crate in-process
//! and prints one self-contained case per line for the Lean judge.
mod c16;
mod enc;
mod gen;
mod rng;

use rng::Rng;
use std::io::Write;

fn main() {
    let args: Vec<String> = std::env::args().collect();
    if args.len() < 5 || args[1] != "gen" {
        eprintln!("usage: avharness gen <kind> <seed> <first-case> <n-cases>");
        std::process::exit(2);
    }
    std::panic::set_hook(Box::new(|_| {}));
    let kind = args[2].as_str();
    let seed: u64 = args[3].parse().unwrap();
    let first: u64 = args[4].parse().unwrap();
    let n: u64 = args[5].parse().unwrap();
    let stdout = std::io::stdout();
    let mut lock = stdout.lock();
    for case in first..first + n {
        let mut rng = Rng::new(seed, case);
        let line = match kind {
            "C16" => c16::case(&mut rng),
            _ => {
                eprintln!("unknown kind {}", kind);
                std::process::exit(2);
            }
        };
        writeln!(lock, "{}", line).unwrap();
    }
}
