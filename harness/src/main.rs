//! Correspondence harness: generates cases from (seed, case number), runs the real crate in-process
//! and prints one self-contained case per line for the Lean judge.
mod c02;
mod c05m;
mod c09;
mod c10;
mod c12;
mod c13;
mod c14;
mod c16;
mod c17;
mod c18;
mod c19;
mod enc;
mod gen;
mod hist;
mod rng;

use rng::Rng;
use std::io::Write;

fn main() {
    let args: Vec<String> = std::env::args().collect();
    if args.len() < 5 || args[1] != "gen" {
        eprintln!("usage: avharness gen <kind> <seed> <first-case> <n-cases>");
        std::process::exit(2);
    }
    // panics of the crate are data here (caught per call); AVH_PANIC=1 prints them to stderr for diagnosis
    if std::env::var_os("AVH_PANIC").is_none() {
        std::panic::set_hook(Box::new(|_| {}));
    }
    let kind = args[2].as_str();
    let seed: u64 = args[3].parse().unwrap();
    let first: u64 = args[4].parse().unwrap();
    let n: u64 = args[5].parse().unwrap();
    // The case lines go to the original stdout; fd 1 itself is pointed at /dev/null so that the crate's own
    // `println!` (the verbose distillation variants print progress to the terminal) cannot corrupt the protocol.
    let mut lock = unsafe {
        use std::os::unix::io::FromRawFd;
        let keep = libc::dup(1);
        let devnull = libc::open(b"/dev/null\0".as_ptr() as *const libc::c_char, libc::O_WRONLY);
        libc::dup2(devnull, 1);
        std::io::BufWriter::new(std::fs::File::from_raw_fd(keep))
    };
    for case in first..first + n {
        let mut rng = Rng::new(seed, case);
        enc::ORPHAN.with(|o| o.set(None));
        let line = std::panic::catch_unwind(std::panic::AssertUnwindSafe(|| match kind {
            "C16" => c16::case(&mut rng),
            "C17" => c17::case(&mut rng),
            "C17R" => c17::case_remove_axes(&mut rng),
            "C19" => c19::case(&mut rng),
            "C18A" => c18::arch_case(&mut rng),
            "C18N" => c18::npz_case(&mut rng, case),
            "H01" => hist::net_case(&mut rng, false),
            "H01T" => hist::net_case(&mut rng, true),
            "H03" => hist::case(&mut rng, &hist::Weights { apply_func: 2, compose0: 4, compose1: 4, elim: 6, reduce: 1, arith_tree: 3, arith_aff: 1, neg: 1, faults: false, partial16: 4, max_steps: 6, palette: 0 }, "C03"),
            "H04" => hist::case(&mut rng, &hist::Weights { apply_func: 3, compose0: 3, compose1: 3, elim: 3, reduce: 3, arith_tree: 3, arith_aff: 2, neg: 1, faults: false, partial16: 4, max_steps: 10, palette: 0 }, "C04"),
            "H05" => hist::case(&mut rng, &hist::Weights { apply_func: 2, compose0: 4, compose1: 3, elim: 6, reduce: 2, arith_tree: 2, arith_aff: 1, neg: 1, faults: false, partial16: 2, max_steps: 8, palette: 0 }, "C05"),
            "H06" => hist::case(&mut rng, &hist::Weights { apply_func: 2, compose0: 6, compose1: 1, elim: 8, reduce: 0, arith_tree: 0, arith_aff: 1, neg: 0, faults: false, partial16: 0, max_steps: 8, palette: 0 }, "C06"),
            "H07" => hist::case(&mut rng, &hist::Weights { apply_func: 1, compose0: 2, compose1: 0, elim: 1, reduce: 0, arith_tree: 8, arith_aff: 5, neg: 2, faults: false, partial16: 4, max_steps: 5, palette: 0 }, "C07"),
            "H08" => hist::case(&mut rng, &hist::Weights { apply_func: 2, compose0: 4, compose1: 1, elim: 2, reduce: 8, arith_tree: 1, arith_aff: 1, neg: 1, faults: false, partial16: 3, max_steps: 7, palette: 0 }, "C08"),
            "H08R" => hist::case(&mut rng, &hist::Weights { apply_func: 1, compose0: 2, compose1: 0, elim: 1, reduce: 8, arith_tree: 0, arith_aff: 1, neg: 1, faults: false, partial16: 2, max_steps: 4, palette: 3 }, "C08"),
            "H11" => hist::case(&mut rng, &hist::Weights { apply_func: 1, compose0: 4, compose1: 4, elim: 8, reduce: 0, arith_tree: 2, arith_aff: 0, neg: 0, faults: true, partial16: 3, max_steps: 6, palette: 0 }, "C11"),
            "C02" => c02::case(&mut rng, false),
            "C02T" => c02::case(&mut rng, true),
            "C09" => c09::case(&mut rng, false),
            "C09T" => c09::case(&mut rng, true),
            "C05M" => c05m::case(&mut rng),
            "C10" => c10::case(&mut rng),
            "C15" => c10::cleanup_case(&mut rng),
            "C14" => c14::case(&mut rng),
            "C12" => c12::case(&mut rng, false),
            "C12T" => c12::case(&mut rng, true),
            "C13" => c13::case(&mut rng, false),
            "C13T" => c13::case(&mut rng, true),
            _ => {
                eprintln!("unknown kind {}", kind);
                std::process::exit(2);
            }
        }));
        // a panic that no per-call guard caught: the crate panicked on a call the generator considers valid
        let line = match line {
            Ok(l) => l,
            Err(e) => {
                let msg = e.downcast_ref::<String>().cloned().or_else(|| e.downcast_ref::<&str>().map(|s| s.to_string())).unwrap_or_default();
                format!("PANIC {} {} {} {}", kind, seed, case, msg.replace(char::is_whitespace, "_"))
            }
        };
        writeln!(lock, "{}", line).unwrap();
    }
}
