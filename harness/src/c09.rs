//! C09: reported regions (polyhedra(), polyhedra_iter()) with skip schedules, find_terminal on boundary points.
use crate::enc;
use crate::gen::*;
use crate::rng::Rng;
use affinitree::pwl::afftree::AffTree;
use std::fmt::Write;
use std::panic::{catch_unwind, AssertUnwindSafe};

pub fn case(rng: &mut Rng, thorough: bool) -> String {
    let n = 1 + rng.below(3);
    let tp = TreeParams { in_dim: n, out_dim: 1 + rng.below(2), max_depth: if thorough { 4 } else { 3 }, partial16: *rng.pick(&[0, 0, 4]), holes: rng.chance(1, 2), palette: 0 };
    let mut t: AffTree<2> = rand_tree(rng, &tp);
    // one tree in six was pruned in place before the regions are listed: an inner node loses all its descendants
    // (`Tree::remove_all_descendants`, public) and becomes a terminal; sometimes a sub-tree is re-grown elsewhere
    // afterwards, which re-uses the freed indices
    if rng.chance(1, 6) {
        let inner: Vec<usize> = t.tree.node_iter().filter(|(_, nd)| !nd.isleaf).map(|(i, _)| i).collect();
        if !inner.is_empty() {
            let idx = *rng.pick(&inner);
            let f = rand_aff(rng, tp.out_dim, n);
            let _ = catch_unwind(AssertUnwindSafe(|| {
                t.tree.remove_all_descendants(idx);
                t.tree.node_value_mut(idx).unwrap().aff = f;
            }));
            if rng.chance(1, 2) {
                let leaves: Vec<usize> = t.tree.node_iter().filter(|(i, nd)| nd.isleaf && *i != idx).map(|(i, _)| i).collect();
                if !leaves.is_empty() {
                    let at = *rng.pick(&leaves);
                    let pred = rand_pred(rng, 1, n, None);
                    let (a, b) = (rand_aff(rng, tp.out_dim, n), rand_aff(rng, tp.out_dim, n));
                    let _ = catch_unwind(AssertUnwindSafe(|| {
                        t.tree.node_value_mut(at).unwrap().aff = pred;
                        t.add_child_node(at, 0, a).unwrap();
                        t.add_child_node(at, 1, b).unwrap();
                    }));
                }
            }
        }
    }
    // now and then the tree has been asked feasibility questions before its regions are listed (`is_edge_feasible`
    // is what the pruned composition calls for every new edge; it takes `&self`): the regions must not depend on it
    if rng.chance(1, 4) {
        let edges: Vec<(usize, usize)> = t.tree.node_iter().filter_map(|(i, nd)| nd.parent.map(|p| (p, i))).collect();
        for _ in 0..1 + rng.below(3) {
            if let Some((p, c)) = edges.get(rng.below(edges.len().max(1))).copied() {
                #[allow(deprecated)]
                let _ = catch_unwind(AssertUnwindSafe(|| t.is_edge_feasible(p, c)));
            }
        }
    }
    let mut out = String::from("C09 ");
    if rng.chance(1, 8) {
        // grown upwards: the root is not slot 0 and slot 0 is an inner node
        let part = rng.chance(1, 3);
        t = crate::gen::uprooted(rng, &t, tp.out_dim, part);
    } else if rng.chance(1, 6) {
        // re-rooted arena: the root is not slot 0; `len()` counts the disconnected draft root as well (the documented
        // exception to reachability), which the judge takes into account for the size hints
        enc::ORPHAN.with(|o| o.set(Some(0)));
        t = crate::gen::rerooted(rng, &t);
        out.push_str("rerooted ");
    }
    enc::afftree(&mut out, &t);
    // now and then the generator is started at an inner node or a terminal (`PolyhedraGen::with_root`): the reported
    // conditions are then those from the parent of the start node on (the edge into the start node, then the sub-tree)
    let mut start: Option<usize> = None;
    if rng.chance(1, 6) {
        let root = t.tree.get_root_idx();
        let cands: Vec<usize> = t.tree.dfs_iter().map(|d| d.index).filter(|i| *i != root).collect();
        if !cands.is_empty() {
            let s0 = *rng.pick(&cands);
            start = Some(s0);
            write!(out, " start {}", s0).unwrap();
        }
    }
    // skip schedule
    let nsk = t.len() + 2;
    let sk: Vec<usize> = if rng.chance(1, 3) { vec![0; nsk] } else { (0..nsk).map(|_| match rng.below(10) { 0 => 1, 1 => 2, _ => 0 }).collect() };
    out.push(' ');
    enc::nats(&mut out, &sk);
    // skip_subtree before the first item: nothing has been returned yet, so nothing is skipped
    let pre = if rng.chance(1, 6) { 1 + rng.below(2) } else { 0 };
    write!(out, " {}", pre).unwrap();
    out.push_str(" | ");
    // generator with skips
    let r = catch_unwind(AssertUnwindSafe(|| {
        let mut rows: Vec<String> = Vec::new();
        let mut gen = match start {
            Some(s0) => affinitree::pwl::iter::PolyhedraGen::with_root(&t.tree, s0),
            None => t.polyhedra(),
        };
        for _ in 0..pre {
            gen.skip_subtree();
        }
        let mut k = 0;
        while let Some((data, polys)) = gen.next(&t.tree) {
            let mut s = format!("{} {} {} {}", data.depth, data.index, data.n_remaining, polys.len());
            for p in polys.iter() {
                s.push(' ');
                enc::poly(&mut s, p);
            }
            rows.push(s);
            for _ in 0..sk.get(k).copied().unwrap_or(0) {
                gen.skip_subtree();
            }
            k += 1;
            if k > 4 * t.len() + 8 {
                break;
            }
        }
        rows
    }));
    match r {
        Ok(rows) => {
            write!(out, "{}", rows.len()).unwrap();
            for r in rows {
                out.push(' ');
                out.push_str(&r);
            }
        }
        Err(_) => out.push_str("panic"),
    }
    // iterator form without skips: indices, polytope counts and size hints
    out.push_str(" ; ");
    let mut it = t.polyhedra_iter();
    let mut items = Vec::new();
    let h0 = it.size_hint();
    items.push(format!("{} {}", h0.0, h0.1.unwrap_or(usize::MAX)));
    while let Some((d, i, r, polys)) = it.next() {
        let h = it.size_hint();
        items.push(format!("{} {} {} {} {} {}", d, i, r, polys.len(), h.0, h.1.unwrap_or(usize::MAX)));
    }
    write!(out, "{}", items.len() - 1).unwrap();
    for s in items {
        out.push(' ');
        out.push_str(&s);
    }
    // find_terminal on points (half of them on hyperplanes)
    out.push_str(" ; ");
    let pts = rand_points(rng, &t, 10);
    write!(out, "{}", pts.len()).unwrap();
    for x in &pts {
        out.push(' ');
        enc::vec(&mut out, x);
        let r = catch_unwind(AssertUnwindSafe(|| {
            t.find_terminal(t.tree.get_root(), x).map(|(node, labels)| {
                let idx = t.tree.node_iter().find(|(_, nd)| std::ptr::eq(*nd, node)).map(|(i, _)| i).unwrap();
                (idx, labels)
            })
        }));
        match r {
            Ok(Some((idx, labels))) => {
                write!(out, " some {} ", idx).unwrap();
                enc::nats(&mut out, &labels);
            }
            Ok(None) => out.push_str(" none"),
            Err(_) => out.push_str(" panic"),
        }
    }
    out
}
