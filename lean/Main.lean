import AffVerif.Judge.C16
import AffVerif.Judge.C12
import AffVerif.Judge.C13
import AffVerif.Judge.C02
import AffVerif.Judge.C17
import AffVerif.Judge.Hist
import AffVerif.Judge.C10
import AffVerif.Judge.C15
import AffVerif.Judge.C05M
import AffVerif.Judge.C14
import AffVerif.Judge.C09
import AffVerif.Judge.C18
import AffVerif.Judge.C19
/-! The judge: reads one case per line on stdin, prints one verdict per line. -/
open AV AV.Judge

def judgeLine (line : String) : String :=
  let toks := (line.splitOn " ").filter (· ≠ "") |>.toArray
  if toks.size == 0 then "SKIP empty" else
  let p : P Verdict := do
    let kind ← tok
    match kind with
    | "C16" => judgeC16
    | "C12" => judgeC12
    | "C10" => judgeC10
    | "C19" => judgeC19
    | "C18" => judgeC18
    | "C09" => judgeC09
    | "C14" => judgeC14
    | "C15" => judgeC15
    | "C05M" => judgeC05M
    | "HIST" => judgeHist
    | "C17" => judgeC17
    | "C17R" => judgeC17R
    | "C02" => judgeC02
    | "PANIC" => do
      let k ← tok; let _ ← tok; let _ ← tok
      let msg ← (do if (← atEnd) then pure "" else tok)
      pure (.propfail s!"the crate panicked on a call the generator considers valid (kind {k}): {msg}")
    | "C13" => judgeC13
    | _ => throw s!"unknown case kind '{kind}'"
  match p.run' toks with
  | .ok (v, tags) => if tags.isEmpty then v.render else v.render ++ " ## " ++ " ".intercalate tags.toList
  | .error e => if e.startsWith "PROPFAIL " then e else s!"BAD {e}"

partial def loop (h : IO.FS.Stream) (out : IO.FS.Stream) : IO Unit := do
  let line ← h.getLine
  if line.isEmpty then return ()
  out.putStrLn (judgeLine (line.trimAscii.toString))
  loop h out

def main : IO Unit := do
  let stdin ← IO.getStdin
  let stdout ← IO.getStdout
  loop stdin stdout
