import AffVerif.Proofs.StateSound
import AffVerif.Proofs.ElimIdem
import AffVerif.Proofs.CachePrune
import AffVerif.Proofs.CacheReduce
import AffVerif.Proofs.CachePlant
/-!
Two clauses about cached states that the sweep establishes at every node, as instances of `PT.stSound_elimNode`:

* `StNE` — a witness list is never empty (the code asserts this in `phase_one`: "nodes with the state FeasibleWitness
  should contain a non-empty vector"), and a node cached `Feasible` has a point in its closed path polytope (the state
  comes from an `Unbounded` answer of the solver only).
* combined with the witness clause and "no undecided node" this is the first clause of C06: every node below the root
  of the swept tree is marked infeasible or has a point within the containment tolerance of all its path conditions.
-/
set_option linter.unusedSectionVars false
set_option linter.unusedVariables false
set_option linter.unusedSimpArgs false
namespace AV
variable {α : Type} [Field α] [LinearOrder α] [IsStrictOrderedRing α]

/-- `mirror_points` never answers `Some` with no point -/
def MirrorNonempty {σ : Type} (mirror : MirrorOracle σ α) : Prop :=
  ∀ s node poly ws k pts s', mirror s node poly ws k = (some pts, s') → pts ≠ []

/-- an `Unbounded` answer is given for non-empty sets only -/
def UnboundedNonempty {σ : Type} (lp : LPOracle σ α) : Prop :=
  ∀ s p c, (lp s p c).1 = LPAnswer.unbounded → ∃ x, Poly.Mem p x

def StNE (path : List (Aff α)) (st : NState α) : Prop :=
  (∀ ws, st = .witness ws → ws ≠ []) ∧ (st = .feasible → ∃ x, InPath path x)

theorem stNE_pred : StPred (StNE (α := α)) :=
  ⟨fun p q hqp st h => ⟨h.1, fun hf => by
    obtain ⟨x, hx⟩ := h.2 hf
    exact ⟨x, fun g hg => hx g (hqp g hg)⟩⟩⟩

theorem stNE_indeterminate (path : List (Aff α)) : StNE path (.indeterminate : NState α) :=
  ⟨fun ws h => (by cases h), fun h => (by cases h)⟩

theorem stNE_infeasible (path : List (Aff α)) : StNE path (.infeasible : NState α) :=
  ⟨fun ws h => (by cases h), fun h => (by cases h)⟩

theorem inPath_of_mem_intersectionN (n : Nat) (path : List (Aff α)) (x : List α) (hne : path ≠ [])
    (h : Poly.Mem (Poly.intersectionN n path) x) : InPath path x := by
  intro g hg rb hrb
  unfold Poly.intersectionN at h
  have he : path.isEmpty = false := by cases path <;> simp_all
  rw [he] at h
  simp only [Bool.false_eq_true, if_false] at h
  exact h rb (by rw [ofRows_rows]; exact List.mem_flatMap.mpr ⟨g, hg, hrb⟩)

/-- the three phases establish `StNE` for the node they decide -/
theorem decideNode_ne {σ : Type} (tol : α) (O : Oracles σ α) (hmn : MirrorNonempty O.mirror)
    (hub : UnboundedNonempty O.lp) (n : Nat) (s : σ) (node : Nat) (pst : NState α) (path : List (Aff α))
    (hyper : Aff α) (hp : StNE path pst) :
    StNE (path ++ [hyper]) (decideNode tol O s node pst path hyper n).1 := by
  unfold decideNode
  simp only
  have hinh : StNE (path ++ [hyper]) (phaseInh tol pst hyper) := by
    unfold phaseInh
    cases pst with
    | witness ws =>
      simp only
      split
      · exact stNE_indeterminate _
      · rename_i hne
        refine ⟨fun ws' hw => ?_, fun h => (by cases h)⟩
        cases hw
        intro he; rw [he] at hne; simp at hne
    | _ => exact stNE_indeterminate _
  cases hst : phaseInh tol pst hyper with
  | indeterminate =>
    simp only
    have hone : StNE (path ++ [hyper]) (phaseOne O s node pst (Poly.intersectionN n (path ++ [hyper]))).1 := by
      unfold phaseOne
      cases pst with
      | witness ws =>
        simp only
        rcases h : O.mirror s node (Poly.intersectionN n (path ++ [hyper])) ws 8 with ⟨r, s'⟩
        cases r with
        | none => exact stNE_indeterminate _
        | some pts =>
          refine ⟨fun ws' hw => ?_, fun h => (by cases h)⟩
          cases hw
          exact hmn s node _ ws 8 pts s' h
      | _ => exact stNE_indeterminate _
    rcases h1 : phaseOne O s node pst (Poly.intersectionN n (path ++ [hyper])) with ⟨st1, s1⟩
    rw [h1] at hone
    cases st1 with
    | indeterminate =>
      simp only
      unfold phaseTwo
      rcases hr : O.lp s1 (Poly.intersectionN n (path ++ [hyper])) (zeros n) with ⟨a, s2⟩
      cases a with
      | infeasible => exact stNE_infeasible _
      | error => exact stNE_indeterminate _
      | unbounded =>
        refine ⟨fun ws h => (by cases h), fun _ => ?_⟩
        obtain ⟨x, hx⟩ := hub s1 (Poly.intersectionN n (path ++ [hyper])) (zeros n) (by rw [hr])
        exact ⟨x, inPath_of_mem_intersectionN n _ x (by simp) hx⟩
      | optimal sol =>
        simp only
        split
        · exact ⟨fun ws h => (by cases h; simp), fun h => (by cases h)⟩
        · rcases hm : O.mirror s2 node (Poly.intersectionN n (path ++ [hyper])) [sol] 20 with ⟨r, s3⟩
          cases r with
          | none => exact stNE_indeterminate _
          | some pts =>
            cases pts with
            | nil => exact stNE_indeterminate _
            | cons p ps =>
              simp only
              split
              · exact ⟨fun ws h => (by cases h; simp), fun h => (by cases h)⟩
              · exact stNE_indeterminate _
    | infeasible => exact hone
    | feasible => exact hone
    | witness ws => exact hone
  | infeasible => rw [hst] at hinh; exact hinh
  | feasible => rw [hst] at hinh; exact hinh
  | witness ws => rw [hst] at hinh; exact hinh

mutual
/-- fresh nodes satisfy any clause that holds for undecided states -/
theorem PT.stSound_of_fresh (P : List (Aff α) → NState α → Prop) (hind : ∀ p, P p .indeterminate) (t : PT α)
    (path : List (Aff α)) (h : PT.Fresh t) : PT.StSound P path t := by
  match t with
  | .node i c ks =>
    unfold PT.Fresh at h
    unfold PT.StSound
    exact ⟨by rw [h.1]; exact hind _, PKids.stSound_of_fresh P hind ks path c.aff 0 h.2⟩
theorem PKids.stSound_of_fresh (P : List (Aff α) → NState α → Prop) (hind : ∀ p, P p .indeterminate) (ks : PKids α)
    (path : List (Aff α)) (a : Aff α) (l : Nat) (h : PKids.Fresh ks) : PKids.StSound P path a l ks := by
  match ks with
  | .nil => simp [PKids.StSound]
  | .cons none r => simp only [PKids.Fresh, PKids.StSound] at h ⊢; exact PKids.stSound_of_fresh P hind r path a (l+1) h
  | .cons (some t) r =>
    simp only [PKids.Fresh, PKids.StSound] at h ⊢
    exact ⟨PT.stSound_of_fresh P hind t _ h.1, PKids.stSound_of_fresh P hind r path a (l+1) h.2⟩
end

mutual
theorem PT.stSound_of_witSound (tol : α) (t : PT α) (path : List (Aff α)) (h : PT.WitSound tol path t) :
    PT.StSound (StWit tol) path t := by
  match t with
  | .node i c ks =>
    unfold PT.WitSound at h
    unfold PT.StSound
    exact ⟨h.1, PKids.stSound_of_witSound tol ks path c.aff 0 h.2⟩
theorem PKids.stSound_of_witSound (tol : α) (ks : PKids α) (path : List (Aff α)) (a : Aff α) (l : Nat)
    (h : PKids.WitSound tol path a l ks) : PKids.StSound (StWit tol) path a l ks := by
  match ks with
  | .nil => simp [PKids.StSound]
  | .cons none r => simp only [PKids.WitSound, PKids.StSound] at h ⊢; exact PKids.stSound_of_witSound tol r path a (l+1) h
  | .cons (some t) r =>
    simp only [PKids.WitSound, PKids.StSound] at h ⊢
    exact ⟨PT.stSound_of_witSound tol t _ h.1, PKids.stSound_of_witSound tol r path a (l+1) h.2⟩
end

theorem inPathTol_of_inPath (tol : α) (htol : 0 ≤ tol) (path : List (Aff α)) (x : List α) (h : InPath path x) :
    InPathTol tol path x := by
  intro g hg
  rw [containsTol_iff_rows]
  intro rb hrb
  have := h g hg rb hrb
  linarith

mutual
/-- the first clause of C06 for the nodes below a node: every child is marked infeasible (and then is the child
    that a decision keeps because it never loses its last one) or has a point within `tol` of all its path conditions,
    and so on below it -/
def PT.Effective (tol : α) : List (Aff α) → PT α → Prop
  | path, .node _ c ks => PKids.Effective tol path c.aff 0 ks
def PKids.Effective (tol : α) : List (Aff α) → Aff α → Nat → PKids α → Prop
  | _, _, _, .nil => True
  | path, a, l, .cons none r => PKids.Effective tol path a (l+1) r
  | path, a, l, .cons (some t) r =>
    (t.val.state = .infeasible ∨
      ((∃ x, InPathTol tol (path ++ [halfspace a l]) x) ∧ PT.Effective tol (path ++ [halfspace a l]) t)) ∧
    PKids.Effective tol path a (l+1) r
end

theorem isFeasible_cases (st : NState α) (h : st.isFeasible = true) : st = .feasible ∨ ∃ ws, st = .witness ws := by
  cases st <;> simp_all [NState.isFeasible]

mutual
theorem PT.effective_of (tol : α) (htol : 0 ≤ tol) (t : PT α) (path : List (Aff α))
    (h1 : PT.StSound (StWit tol) path t) (h2 : PT.StSound StNE path t) (hs : PT.SettledBelow t) :
    PT.Effective tol path t := by
  match t with
  | .node i c ks =>
    unfold PT.StSound at h1 h2
    unfold PT.SettledBelow at hs
    unfold PT.Effective
    exact PKids.effective_of tol htol ks path c.aff 0 h1.2 h2.2 hs
theorem PKids.effective_of (tol : α) (htol : 0 ≤ tol) (ks : PKids α) (path : List (Aff α)) (a : Aff α) (l : Nat)
    (h1 : PKids.StSound (StWit tol) path a l ks) (h2 : PKids.StSound StNE path a l ks) (hs : PKids.Settled ks) :
    PKids.Effective tol path a l ks := by
  match ks with
  | .nil => simp [PKids.Effective]
  | .cons none r =>
    simp only [PKids.StSound, PKids.Settled, PKids.Effective] at h1 h2 hs ⊢
    exact PKids.effective_of tol htol r path a (l+1) h1 h2 hs
  | .cons (some t) r =>
    simp only [PKids.StSound, PKids.Settled, PKids.Effective] at h1 h2 hs ⊢
    refine ⟨?_, PKids.effective_of tol htol r path a (l+1) h1.2 h2.2 hs.2⟩
    rcases hs.1 with hinf | ⟨hfeas, hbelow⟩
    · exact Or.inl hinf
    · right
      refine ⟨?_, PT.effective_of tol htol t _ h1.1 h2.1 hbelow⟩
      have w1 := stSound_state (StWit tol) _ t h1.1
      have w2 := stSound_state StNE _ t h2.1
      rcases isFeasible_cases _ hfeas with hf | ⟨ws, hw⟩
      · obtain ⟨x, hx⟩ := w2.2 hf
        exact ⟨x, inPathTol_of_inPath tol htol _ x hx⟩
      · have hne := w2.1 ws hw
        cases ws with
        | nil => exact absurd rfl hne
        | cons w rest => exact ⟨w, w1 (w :: rest) hw w (by simp)⟩
end

/-- a backend that answers every feasibility question with "unbounded" or "infeasible" makes the phases decisive -/
theorem decisive_of_lp_decides {σ : Type} (tol : α) (O : Oracles σ α)
    (h : ∀ s p c, (O.lp s p c).1 = .unbounded ∨ (O.lp s p c).1 = .infeasible) : Decisive tol O := by
  intro s node pst path hyper n
  unfold decideNode
  simp only
  cases hst : phaseInh tol pst hyper with
  | indeterminate =>
    simp only
    rcases h1 : phaseOne O s node pst (Poly.intersectionN n (path ++ [hyper])) with ⟨st1, s1⟩
    cases st1 with
    | indeterminate =>
      simp only
      unfold phaseTwo
      rcases hr : O.lp s1 (Poly.intersectionN n (path ++ [hyper])) (zeros n) with ⟨a, s2⟩
      have := h s1 (Poly.intersectionN n (path ++ [hyper])) (zeros n)
      rw [hr] at this
      rcases this with ha | ha
      · simp only at ha; subst ha; simp
      · simp only at ha; subst ha; simp
    | infeasible => simp
    | feasible => simp
    | witness ws => simp
  | infeasible => simp
  | feasible => simp
  | witness ws => simp

/-! ### un-pruned composition and maps on terminals keep any clause that holds for undecided states -/

mutual
theorem PT.stSound_composeS (P : List (Aff α) → NState α → Prop) (hind : ∀ p, P p .indeterminate) (S : Schema α) (f g : PT α) (c : Nat) (path : List (Aff α))
    (h : PT.StSound P path f) : PT.StSound P path (PT.composeS S f g c).1 := by
  match f with
  | .node i fc ks =>
    unfold PT.StSound at h
    cases hl : ks.allNone with
    | true =>
      match g with
      | .node j gc gk =>
        simp only [PT.composeS, hl, if_true]
        unfold PT.StSound
        exact ⟨h.1, PKids.stSound_of_fresh P hind _ path _ 0 (PKids.fresh_graft S gk fc.aff c)⟩
    | false =>
      simp only [PT.composeS, hl, Bool.false_eq_true, if_false]
      unfold PT.StSound
      exact ⟨h.1, PKids.stSound_composeS P hind S ks g c path fc.aff 0 h.2⟩
theorem PKids.stSound_composeS (P : List (Aff α) → NState α → Prop) (hind : ∀ p, P p .indeterminate) (S : Schema α) (ks : PKids α) (g : PT α) (c : Nat) (path : List (Aff α))
    (a : Aff α) (l : Nat) (h : PKids.StSound P path a l ks) :
    PKids.StSound P path a l (PKids.composeS S ks g c).1 := by
  match ks with
  | .nil => simp [PKids.composeS, PKids.StSound]
  | .cons none r =>
    simp only [PKids.composeS, PKids.StSound] at h ⊢
    exact PKids.stSound_composeS P hind S r g c path a (l+1) h
  | .cons (some k) r =>
    simp only [PKids.composeS, PKids.StSound] at h ⊢
    exact ⟨PT.stSound_composeS P hind S k g c _ h.1, PKids.stSound_composeS P hind S r g _ path a (l+1) h.2⟩
end

mutual
theorem PT.stSound_mapTerminals (P : List (Aff α) → NState α → Prop) (φ : Aff α → Aff α) (t : PT α) (path : List (Aff α))
    (h : PT.StSound P path t) : PT.StSound P path (PT.mapTerminals φ t) := by
  match t with
  | .node i c ks =>
    unfold PT.StSound at h
    cases hl : ks.allNone with
    | true =>
      simp only [PT.mapTerminals, hl, if_true]
      unfold PT.StSound
      exact ⟨h.1, PKids.stSound_allNone P ks path _ 0 hl⟩
    | false =>
      simp only [PT.mapTerminals, hl, Bool.false_eq_true, if_false]
      unfold PT.StSound
      exact ⟨h.1, PKids.stSound_mapTerminals P φ ks path c.aff 0 h.2⟩
theorem PKids.stSound_mapTerminals (P : List (Aff α) → NState α → Prop) (φ : Aff α → Aff α) (ks : PKids α) (path : List (Aff α)) (a : Aff α)
    (l : Nat) (h : PKids.StSound P path a l ks) : PKids.StSound P path a l (PKids.mapTerminals φ ks) := by
  match ks with
  | .nil => simp [PKids.mapTerminals, PKids.StSound]
  | .cons none r =>
    simp only [PKids.mapTerminals, PKids.StSound] at h ⊢
    exact PKids.stSound_mapTerminals P φ r path a (l+1) h
  | .cons (some k) r =>
    simp only [PKids.mapTerminals, PKids.StSound] at h ⊢
    exact ⟨PT.stSound_mapTerminals P φ k _ h.1, PKids.stSound_mapTerminals P φ r path a (l+1) h.2⟩
theorem PKids.stSound_allNone (P : List (Aff α) → NState α → Prop) (ks : PKids α) (path : List (Aff α)) (a : Aff α) (l : Nat)
    (h : ks.allNone = true) : PKids.StSound P path a l ks := by
  match ks, h with
  | .nil, _ => simp [PKids.StSound]
  | .cons none r, h =>
    simp only [PKids.StSound]; exact PKids.stSound_allNone P r path a (l+1) (by simpa [IKids.allNone] using h)
end

/-! ### pruned composition (any schema, any `explore` filter) -/

mutual
theorem PT.stSound_composeP {σ : Type} (P : List (Aff α) → NState α → Prop) (hind : ∀ p, P p .indeterminate) (S : Schema α) (ex : Explore σ α) (n : Nat) (path : List (Aff α))
    (f g : PT α) (s : σ) (c : Nat) (h : PT.StSound P path f) :
    PT.StSound P path (PT.composeP S ex n path f g s c).1 := by
  match f with
  | .node i fc ks =>
    unfold PT.StSound at h
    unfold PT.composeP
    split
    · rcases PT.graftP_root_cases S ex fc.aff n i fc.state (i == 0) path g s c with hf | ⟨aff', ks', he, hk⟩
      · exact PT.stSound_of_fresh P hind _ path hf
      · rw [he]
        unfold PT.StSound
        exact ⟨h.1, PKids.stSound_of_fresh P hind ks' path aff' 0 hk⟩
    · simp only
      unfold PT.StSound
      exact ⟨h.1, PKids.stSound_composeP P hind S ex n path fc.aff ks 0 g s c h.2⟩
theorem PKids.stSound_composeP {σ : Type} (P : List (Aff α) → NState α → Prop) (hind : ∀ p, P p .indeterminate) (S : Schema α) (ex : Explore σ α) (n : Nat)
    (path : List (Aff α)) (paff : Aff α) (ks : PKids α) (l : Nat) (g : PT α) (s : σ) (c : Nat)
    (h : PKids.StSound P path paff l ks) :
    PKids.StSound P path paff l (PKids.composeP S ex n path paff ks l g s c).1 := by
  match ks with
  | .nil => simp [PKids.composeP, PKids.StSound]
  | .cons none r =>
    simp only [PKids.composeP, PKids.StSound] at h ⊢
    exact PKids.stSound_composeP P hind S ex n path paff r (l+1) g s c h
  | .cons (some k) r =>
    simp only [PKids.composeP, PKids.StSound] at h ⊢
    exact ⟨PT.stSound_composeP P hind S ex n _ k g s c h.1, PKids.stSound_composeP P hind S ex n path paff r (l+1) g _ _ h.2⟩
end

/-! ### `reduce` and planted witnesses -/

mutual
theorem PT.stSound_reduceAux (P : List (Aff α) → NState α → Prop) (hP : StPred P) (isRoot : Bool) (t : PT α) (path : List (Aff α))
    (h : PT.StSound P path t) : PT.StSound P path (PT.reduceAux isRoot t) := by
  match t with
  | .node i c ks =>
    unfold PT.StSound at h
    have hk := PKids.stSound_reduceAux P hP ks path c.aff 0 h.2
    have hnode : PT.StSound P path (.node i c (PKids.reduceAux ks)) := by
      unfold PT.StSound; exact ⟨h.1, hk⟩
    unfold PT.reduceAux
    simp only
    cases isRoot with
    | true => simpa using hnode
    | false =>
      simp only [Bool.false_eq_true, if_false]
      cases hm : mergeable? (PKids.reduceAux ks) with
      | none => simpa using hnode
      | some a =>
        simp only
        obtain ⟨b, hks, _, _, _⟩ := mergeable_spec _ a hm
        rw [hks] at hk
        simp only [PKids.StSound] at hk
        exact PT.stSound_mono P hP a _ path (fun g hg => List.mem_append_left _ hg) hk.1
theorem PKids.stSound_reduceAux (P : List (Aff α) → NState α → Prop) (hP : StPred P) (ks : PKids α) (path : List (Aff α)) (a : Aff α) (l : Nat)
    (h : PKids.StSound P path a l ks) : PKids.StSound P path a l (PKids.reduceAux ks) := by
  match ks with
  | .nil => simp [PKids.reduceAux, PKids.StSound]
  | .cons none r =>
    simp only [PKids.reduceAux, PKids.StSound] at h ⊢
    exact PKids.stSound_reduceAux P hP r path a (l+1) h
  | .cons (some k) r =>
    simp only [PKids.reduceAux, PKids.StSound] at h ⊢
    exact ⟨PT.stSound_reduceAux P hP false k _ h.1, PKids.stSound_reduceAux P hP r path a (l+1) h.2⟩
end


mutual
/-- the user appends points to the witness list of a node (`plant`): any clause that survives the append at one state -/
theorem PT.stSound_plant (P : List (Aff α) → NState α → Prop)
    (hplant : ∀ path st pts, P path st → P path (NState.plant pts st)) (pts : List (List α)) (path : List (Aff α))
    (t : PT α) (i : Nat) (h : PT.StSound P path t) : PT.StSound P path (ITree.modifyAt (PT.plantFn pts) t i) := by
  match t with
  | .node j c ks =>
    unfold PT.StSound at h
    simp only [ITree.modifyAt]
    split
    · simp only [PT.plantFn]; unfold PT.StSound
      exact ⟨hplant _ _ _ h.1, h.2⟩
    · unfold PT.StSound
      exact ⟨h.1, PKids.stSound_plant P hplant pts path c.aff 0 ks i h.2⟩
theorem PKids.stSound_plant (P : List (Aff α) → NState α → Prop)
    (hplant : ∀ path st pts, P path st → P path (NState.plant pts st)) (pts : List (List α)) (path : List (Aff α))
    (a : Aff α) (l : Nat) (ks : PKids α) (i : Nat) (h : PKids.StSound P path a l ks) :
    PKids.StSound P path a l (IKids.modifyAt (PT.plantFn pts) ks i) := by
  match ks with
  | .nil => simp only [IKids.modifyAt]; exact h
  | .cons none r =>
    simp only [IKids.modifyAt]; unfold PKids.StSound at h ⊢
    exact PKids.stSound_plant P hplant pts path a (l+1) r i h
  | .cons (some t) r =>
    simp only [IKids.modifyAt]; unfold PKids.StSound at h ⊢
    exact ⟨PT.stSound_plant P hplant pts _ t i h.1, PKids.stSound_plant P hplant pts path a (l+1) r i h.2⟩
end

theorem stNE_plant (path : List (Aff α)) (st : NState α) (pts : List (List α)) (h : StNE path st) :
    StNE path (NState.plant pts st) := by
  cases st with
  | witness ws =>
    refine ⟨fun ws' hw => ?_, fun hf => (by simp [NState.plant] at hf)⟩
    simp only [NState.plant, NState.witness.injEq] at hw
    subst hw
    have := h.1 ws rfl
    cases ws with
    | nil => exact absurd rfl this
    | cons w rest => simp
  | indeterminate => simpa [NState.plant] using h
  | infeasible => simpa [NState.plant] using h
  | feasible => simpa [NState.plant] using h

/-! ### witness lists are never empty — for every LP behaviour (the `assert!` of `phase_one`) -/

/-- no cached witness list is empty -/
def StWNE (_path : List (Aff α)) (st : NState α) : Prop := ∀ ws, st = .witness ws → ws ≠ []

theorem stWNE_pred : StPred (StWNE (α := α)) := ⟨fun _ _ _ _ h => h⟩

theorem stWNE_of_not_witness (path : List (Aff α)) (st : NState α) (h : ∀ ws, st ≠ .witness ws) : StWNE path st :=
  fun ws hw => absurd hw (h ws)

/-- the three phases never store an empty witness list, whatever the solver answers -/
theorem decideNode_wne {σ : Type} (tol : α) (O : Oracles σ α) (hmn : MirrorNonempty O.mirror) (n : Nat) (s : σ)
    (node : Nat) (pst : NState α) (path : List (Aff α)) (hyper : Aff α) (hp : StWNE path pst) :
    StWNE (path ++ [hyper]) (decideNode tol O s node pst path hyper n).1 := by
  unfold decideNode
  simp only
  have hinh : StWNE (path ++ [hyper]) (phaseInh tol pst hyper) := by
    unfold phaseInh
    cases pst with
    | witness ws =>
      simp only
      split
      · exact stWNE_of_not_witness _ _ (by intro ws h; cases h)
      · rename_i hne
        intro ws' hw
        cases hw
        intro he; rw [he] at hne; simp at hne
    | _ => exact stWNE_of_not_witness _ _ (by intro ws h; cases h)
  cases hst : phaseInh tol pst hyper with
  | indeterminate =>
    simp only
    have hone : StWNE (path ++ [hyper]) (phaseOne O s node pst (Poly.intersectionN n (path ++ [hyper]))).1 := by
      unfold phaseOne
      cases pst with
      | witness ws =>
        simp only
        rcases h : O.mirror s node (Poly.intersectionN n (path ++ [hyper])) ws 8 with ⟨r, s'⟩
        cases r with
        | none => exact stWNE_of_not_witness _ _ (by intro ws h; cases h)
        | some pts =>
          intro ws' hw
          cases hw
          exact hmn s node _ ws 8 pts s' h
      | _ => exact stWNE_of_not_witness _ _ (by intro ws h; cases h)
    rcases h1 : phaseOne O s node pst (Poly.intersectionN n (path ++ [hyper])) with ⟨st1, s1⟩
    rw [h1] at hone
    cases st1 with
    | indeterminate =>
      simp only
      unfold phaseTwo
      rcases hr : O.lp s1 (Poly.intersectionN n (path ++ [hyper])) (zeros n) with ⟨a, s2⟩
      cases a with
      | infeasible => exact stWNE_of_not_witness _ _ (by intro ws h; cases h)
      | error => exact stWNE_of_not_witness _ _ (by intro ws h; cases h)
      | unbounded => exact stWNE_of_not_witness _ _ (by intro ws h; cases h)
      | optimal sol =>
        simp only
        split
        · intro ws h; cases h; simp
        · rcases hm : O.mirror s2 node (Poly.intersectionN n (path ++ [hyper])) [sol] 20 with ⟨r, s3⟩
          cases r with
          | none => exact stWNE_of_not_witness _ _ (by intro ws h; cases h)
          | some pts =>
            cases pts with
            | nil => exact stWNE_of_not_witness _ _ (by intro ws h; cases h)
            | cons p ps =>
              simp only
              split
              · intro ws h; cases h; simp
              · exact stWNE_of_not_witness _ _ (by intro ws h; cases h)
    | infeasible => exact hone
    | feasible => exact hone
    | witness ws => exact hone
  | infeasible => rw [hst] at hinh; exact hinh
  | feasible => rw [hst] at hinh; exact hinh
  | witness ws => rw [hst] at hinh; exact hinh

theorem stWNE_plant (path : List (Aff α)) (st : NState α) (pts : List (List α)) (h : StWNE path st) :
    StWNE path (NState.plant pts st) := by
  cases st with
  | witness ws =>
    intro ws' hw
    simp only [NState.plant, NState.witness.injEq] at hw
    subst hw
    have := h ws rfl
    cases ws with
    | nil => exact absurd rfl this
    | cons w rest => simp
  | indeterminate => simpa [NState.plant] using h
  | infeasible => simpa [NState.plant] using h
  | feasible => simpa [NState.plant] using h

end AV
