import AffVerif.Proofs.CoordLemmas
import AffVerif.Model.Schema
import AffVerif.Model.Spec
/-! Semantics of the named constructors and of the activation schema trees. -/
set_option linter.unusedSectionVars false
set_option linter.unusedVariables false
namespace AV
variable {α : Type} [Field α] [LinearOrder α] [IsStrictOrderedRing α]

theorem apply_diagIdx (n i : Nat) (c : α) (x : List α) (hx : x.length = n) :
    (Aff.diagIdx n i c : Aff α).apply x = x.set i (c * x.getD i 0) := by
  unfold Aff.diagIdx
  rw [zeros_eq_range_map]
  rw [apply_coord n (fun k => if k = i then c else 1) (fun _ => 0) x]
  subst hx
  rw [← range_map_set]
  apply List.map_congr_left
  intro k _
  by_cases h : k = i
  · subst h; simp
  · simp [h]

theorem apply_identity (n : Nat) (x : List α) (hx : x.length = n) : (Aff.identity n : Aff α).apply x = x := by
  unfold Aff.identity eye
  rw [zeros_eq_range_map]
  rw [apply_coord n (fun _ => 1) (fun _ => 0) x]
  subst hx
  conv_rhs => rw [← range_map_getD x]
  apply List.map_congr_left
  intro k _
  simp

theorem apply_zeroIdx (n i : Nat) (x : List α) (hx : x.length = n) :
    (Aff.zeroIdx n i : Aff α).apply x = x.set i 0 := by
  unfold Aff.zeroIdx
  rw [apply_diagIdx n i 0 x hx]; simp

theorem apply_setConst (n r : Nat) (v : α) (x : List α) (hx : x.length = n) :
    (Sch.setConst n r v : Aff α).apply x = x.set r v := by
  unfold Sch.setConst Aff.zeroIdx Aff.diagIdx
  simp only
  unfold unitVec
  rw [show (List.range n).map (fun j => if j = r then v else (0 : α)) = (List.range n).map (fun j => if j = r then v else 0) from rfl]
  have := apply_coord n (fun k => if k = r then (0 : α) else 1) (fun j => if j = r then v else 0) x
  unfold unitVec at this
  rw [this]
  subst hx
  rw [← range_map_set]
  apply List.map_congr_left
  intro k _
  by_cases h : k = r
  · subst h; simp
  · simp [h]

theorem apply_scaleShift (n r : Nat) (s o : α) (x : List α) (hx : x.length = n) :
    (Sch.scaleShift n r s o : Aff α).apply x = x.set r (s * x.getD r 0 + o) := by
  unfold Sch.scaleShift Aff.diagIdx
  simp only
  have := apply_coord n (fun k => if k = r then s else 1) (fun j => if j = r then o else 0) x
  unfold unitVec at this ⊢
  rw [this]
  subst hx
  rw [← range_map_set]
  apply List.map_congr_left
  intro k _
  by_cases h : k = r
  · subst h; simp
  · simp [h]

/-- the label of the one-row predicate `c·x_r ≤ b` -/
theorem label_axisPred (n r : Nat) (c b : α) (x : List α) (hr : r < n) :
    (Sch.axisPred n r c b : Aff α).label x = if c * x.getD r 0 - b ≤ 0 then 1 else 0 := by
  unfold Sch.axisPred Aff.label
  simp only [labelBits, dot_unitVec, hr, if_true]
  split <;> simp

theorem label_unit (n r : Nat) (x : List α) (hr : r < n) :
    (Aff.unit n r : Aff α).label x = if x.getD r 0 ≤ 0 then 1 else 0 := by
  unfold Aff.unit Aff.label
  simp only [labelBits, dot_unitVec, hr, if_true, one_mul, sub_zero]
  split <;> simp

theorem set_getD_self (x : List α) (r : Nat) : x.set r (x.getD r 0) = x := by
  apply List.ext_getElem
  · simp
  · intro i h1 h2
    simp only [List.getElem_set]
    split
    · rename_i h; subst h
      simp [List.getD_eq_getElem?_getD, h2]
    · rfl

theorem eval_leaf (i : Nat) (a : Aff α) (x : List α) : PT.eval (Sch.leaf i a) x = some (a.apply x) := by
  simp [Sch.leaf, PT.eval, IKids.empty, IKids.allNone, Content.new]

theorem eval_dec (i : Nat) (a : Aff α) (l0 l1 : Option (PT α)) (x : List α) (h : l0.isSome ∨ l1.isSome) :
    PT.eval (Sch.dec i a l0 l1) x =
      match a.label x with
      | 0 => l0.bind (fun t => PT.eval t x)
      | 1 => l1.bind (fun t => PT.eval t x)
      | _ => none := by
  unfold Sch.dec
  have hall : (IKids.cons l0 (IKids.cons l1 IKids.nil)).allNone = false := by
    cases l0 <;> cases l1 <;> simp_all [IKids.allNone]
  simp only [PT.eval, hall, Bool.false_eq_true, if_false, Content.new]
  exact evalAt_two' l0 l1 _ x
where
  evalAt_two' (a b : Option (PT α)) (lab : Nat) (x : List α) :
      PKids.evalAt (.cons a (.cons b .nil)) lab x =
        match lab with
        | 0 => a.bind (fun t => PT.eval t x)
        | 1 => b.bind (fun t => PT.eval t x)
        | _ => none := by
    match lab, a, b with
    | 0, none, _ => simp [PKids.evalAt]
    | 0, some _, _ => simp [PKids.evalAt]
    | 1, _, none => simp [PKids.evalAt]
    | 1, _, some _ => simp [PKids.evalAt]
    | n+2, _, _ => simp [PKids.evalAt]

end AV
