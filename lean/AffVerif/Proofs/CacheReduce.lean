import AffVerif.Proofs.InfOnly
import AffVerif.Props.C08
/-!
Cache invariant (C05) across `reduce`: the label-0 child that replaces a decision with two equal terminal children
moves one step up (its path loses the decision's half-space). Its witnesses still satisfy the shorter path; it is
not marked infeasible because it had a sibling (`InfOnly`).
-/
set_option linter.unusedSectionVars false
set_option linter.unusedVariables false
set_option linter.unusedSimpArgs false
namespace AV
variable {α : Type} [Field α] [LinearOrder α] [IsStrictOrderedRing α]

theorem PKids.reduceAux_count (ks : PKids α) : (PKids.reduceAux ks).count = ks.count := by
  match ks with
  | .nil => simp [PKids.reduceAux, IKids.count]
  | .cons none r => simp only [PKids.reduceAux, IKids.count]; exact PKids.reduceAux_count r
  | .cons (some k) r => simp only [PKids.reduceAux, IKids.count]; rw [PKids.reduceAux_count r]

mutual
/-- `reduce` keeps "marked infeasible ⇒ no sibling", and the node standing where a node stood is marked infeasible
    only if that node was -/
theorem PT.infOnly_reduceAux (isRoot : Bool) (t : PT α) (h : PT.InfOnly t) :
    PT.InfOnly (PT.reduceAux isRoot t) ∧
    (t.val.state ≠ .infeasible → (PT.reduceAux isRoot t).val.state ≠ .infeasible) := by
  match t with
  | .node i c ks =>
    unfold PT.InfOnly at h
    have hk := PKids.infOnly_reduceAux ks h.2
    have hnode : PT.InfOnly (.node i c (PKids.reduceAux ks)) := by
      unfold PT.InfOnly
      exact ⟨fun hc => hk.2 (h.1 (by rw [PKids.reduceAux_count] at hc; exact hc)), hk.1⟩
    unfold PT.reduceAux
    simp only
    cases isRoot with
    | true => simp only [if_true]; exact ⟨hnode, fun hs => by simpa [ITree.val] using hs⟩
    | false =>
      simp only [Bool.false_eq_true, if_false]
      cases hm : mergeable? (PKids.reduceAux ks) with
      | none => simp only; exact ⟨hnode, fun hs => by simpa [ITree.val] using hs⟩
      | some a =>
        simp only
        obtain ⟨b, hks, _, _, _⟩ := mergeable_spec _ a hm
        have hcnt : 2 ≤ ks.count := by
          have := PKids.reduceAux_count ks
          rw [hks] at this
          simp [IKids.count] at this
          omega
        have hno := hk.2 (h.1 hcnt)
        have hio := hk.1
        rw [hks] at hno hio
        simp only [PKids.noInf, PKids.InfOnly] at hno hio
        exact ⟨hio.1, fun _ => hno.1⟩
theorem PKids.infOnly_reduceAux (ks : PKids α) (h : PKids.InfOnly ks) :
    PKids.InfOnly (PKids.reduceAux ks) ∧ (PKids.noInf ks → PKids.noInf (PKids.reduceAux ks)) := by
  match ks with
  | .nil => simp [PKids.reduceAux, PKids.InfOnly, PKids.noInf]
  | .cons none r =>
    simp only [PKids.reduceAux, PKids.InfOnly, PKids.noInf] at h ⊢
    exact PKids.infOnly_reduceAux r h
  | .cons (some k) r =>
    simp only [PKids.reduceAux, PKids.InfOnly, PKids.noInf] at h ⊢
    have hk := PT.infOnly_reduceAux false k h.1
    have hr := PKids.infOnly_reduceAux r h.2
    exact ⟨⟨hk.1, hr.1⟩, fun hn => ⟨hk.2 hn.1, hr.2 hn.2⟩⟩
end

mutual
theorem PT.witSound_reduceAux (tol : α) (isRoot : Bool) (t : PT α) (path : List (Aff α))
    (h : PT.WitSound tol path t) : PT.WitSound tol path (PT.reduceAux isRoot t) := by
  match t with
  | .node i c ks =>
    unfold PT.WitSound at h
    have hk := PKids.witSound_reduceAux tol ks path c.aff 0 h.2
    have hnode : PT.WitSound tol path (.node i c (PKids.reduceAux ks)) := by
      unfold PT.WitSound; exact ⟨h.1, hk⟩
    unfold PT.reduceAux
    simp only
    cases isRoot with
    | true => simpa using hnode
    | false =>
      simp only [Bool.false_eq_true, if_false]
      cases hm : mergeable? (PKids.reduceAux ks) with
      | none => simpa using hnode
      | some a =>
        simp only
        obtain ⟨b, hks, _, _, _⟩ := mergeable_spec _ a hm
        rw [hks] at hk
        simp only [PKids.WitSound] at hk
        exact PT.witSound_mono tol a _ path (fun g hg => List.mem_append_left _ hg) hk.1
theorem PKids.witSound_reduceAux (tol : α) (ks : PKids α) (path : List (Aff α)) (a : Aff α) (l : Nat)
    (h : PKids.WitSound tol path a l ks) : PKids.WitSound tol path a l (PKids.reduceAux ks) := by
  match ks with
  | .nil => simp [PKids.reduceAux, PKids.WitSound]
  | .cons none r =>
    simp only [PKids.reduceAux, PKids.WitSound] at h ⊢
    exact PKids.witSound_reduceAux tol r path a (l+1) h
  | .cons (some k) r =>
    simp only [PKids.reduceAux, PKids.WitSound] at h ⊢
    exact ⟨PT.witSound_reduceAux tol false k _ h.1, PKids.witSound_reduceAux tol r path a (l+1) h.2⟩
end

mutual
theorem PT.infSound_reduceAux (isRoot : Bool) (t : PT α) (path : List (Aff α))
    (h : PT.InfSound path t) (ho : PT.InfOnly t) : PT.InfSound path (PT.reduceAux isRoot t) := by
  match t with
  | .node i c ks =>
    unfold PT.InfSound at h
    unfold PT.InfOnly at ho
    have hk := PKids.infSound_reduceAux ks path c.aff 0 h.2 ho.2
    have hnode : PT.InfSound path (.node i c (PKids.reduceAux ks)) := by
      unfold PT.InfSound; exact ⟨h.1, hk⟩
    unfold PT.reduceAux
    simp only
    cases isRoot with
    | true => simpa using hnode
    | false =>
      simp only [Bool.false_eq_true, if_false]
      cases hm : mergeable? (PKids.reduceAux ks) with
      | none => simpa using hnode
      | some a =>
        simp only
        obtain ⟨b, hks, hat, _, _⟩ := mergeable_spec _ a hm
        have hcnt : 2 ≤ ks.count := by
          have := PKids.reduceAux_count ks
          rw [hks] at this
          simp [IKids.count] at this
          omega
        have hno := (PKids.infOnly_reduceAux ks ho.2).2 (ho.1 hcnt)
        rw [hks] at hno
        simp only [PKids.noInf] at hno
        -- `a` is a terminal that is not marked infeasible: both clauses are immediate
        cases a with
        | node j ac ak =>
          unfold PT.InfSound
          exact ⟨fun hs => absurd hs (by simpa [ITree.val] using hno.1),
            PKids.infSound_allNone ak path ac.aff 0 (by simpa [ITree.kids] using hat)⟩
theorem PKids.infSound_reduceAux (ks : PKids α) (path : List (Aff α)) (a : Aff α) (l : Nat)
    (h : PKids.InfSound path a l ks) (ho : PKids.InfOnly ks) : PKids.InfSound path a l (PKids.reduceAux ks) := by
  match ks with
  | .nil => simp [PKids.reduceAux, PKids.InfSound]
  | .cons none r =>
    simp only [PKids.reduceAux, PKids.InfSound, PKids.InfOnly] at h ho ⊢
    exact PKids.infSound_reduceAux r path a (l+1) h ho
  | .cons (some k) r =>
    simp only [PKids.reduceAux, PKids.InfSound, PKids.InfOnly] at h ho ⊢
    exact ⟨PT.infSound_reduceAux false k _ h.1 ho.1, PKids.infSound_reduceAux r path a (l+1) h.2 ho.2⟩
end

end AV
