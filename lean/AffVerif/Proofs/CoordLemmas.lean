import AffVerif.Proofs.VecLemmas
/-! Lemmas about unit vectors, diagonal-like matrices and `List.set` used by C16 / C17 / C01. -/
set_option linter.unusedSectionVars false
set_option linter.unusedVariables false
namespace AV
variable {α : Type} [CommRing α]

/-- `dot` with a masked range: only position `i` contributes -/
theorem dot_range'_ite (s n i : Nat) (c : α) (x : List α) :
    dot ((List.range' s n).map (fun j => if j = i then c else 0)) x =
      if s ≤ i ∧ i < s + n then c * x.getD (i - s) 0 else 0 := by
  induction n generalizing s x with
  | zero => simp
  | succ n ih =>
    cases x with
    | nil =>
      simp only [dot_nil_right, List.getD_nil, mul_zero, ite_self]
    | cons a as =>
      simp only [List.range'_succ, List.map_cons, dot_cons]
      rw [ih (s+1) as]
      by_cases h : s = i
      · subst h
        simp
      · have hne : ¬ (s = i) := h
        simp only [hne, if_false, zero_mul, zero_add]
        by_cases h2 : s + 1 ≤ i ∧ i < s + 1 + n
        · have h3 : s ≤ i ∧ i < s + (n + 1) := by omega
          simp only [h2, h3, and_self, if_true]
          have : i - s = (i - (s+1)) + 1 := by omega
          rw [this]; simp
        · have h3 : ¬ (s ≤ i ∧ i < s + (n + 1)) := by omega
          simp [h2, h3]

theorem dot_unitVec (n i : Nat) (c : α) (x : List α) :
    dot (unitVec n i c) x = if i < n then c * x.getD i 0 else 0 := by
  unfold unitVec
  rw [List.range_eq_range']
  have := dot_range'_ite 0 n i c x
  simpa using this

theorem unitVec_length (n i : Nat) (c : α) : (unitVec n i c).length = n := by simp [unitVec]

/-- a matrix whose `k`-th row is `d k` times the `k`-th unit vector acts coordinate-wise -/
theorem matVec_diagLike (n : Nat) (d : Nat → α) (x : List α) :
    matVec ((List.range n).map (fun k => unitVec n k (d k))) x = (List.range n).map (fun k => d k * x.getD k 0) := by
  simp only [matVec, List.map_map]
  apply List.map_congr_left
  intro k hk
  simp only [Function.comp, dot_unitVec]
  have : k < n := List.mem_range.mp hk
  simp [this]

theorem range_map_getD (x : List α) : (List.range x.length).map (fun k => x.getD k 0) = x := by
  apply List.ext_getElem
  · simp
  · intro i h1 h2
    simp only [List.getElem_map, List.getElem_range]
    simp only [List.length_map, List.length_range] at h1
    simp [List.getD_eq_getElem?_getD, h1]

theorem range_map_set (x : List α) (r : Nat) (v : α) :
    (List.range x.length).map (fun k => if k = r then v else x.getD k 0) = x.set r v := by
  apply List.ext_getElem
  · simp
  · intro i h1 h2
    simp only [List.length_map, List.length_range] at h1
    simp only [List.getElem_map, List.getElem_range, List.getElem_set]
    by_cases h : i = r
    · subst h; simp
    · have : ¬ r = i := fun e => h e.symm
      simp [h, this, List.getD_eq_getElem?_getD, h1]

theorem vadd_range_map (n : Nat) (f g : Nat → α) :
    vadd ((List.range n).map f) ((List.range n).map g) = (List.range n).map (fun k => f k + g k) := by
  rw [List.range_eq_range']
  generalize 0 = s
  induction n generalizing s with
  | zero => simp
  | succ n ih => simp only [List.range'_succ, List.map_cons, vadd_cons, ih]

theorem zeros_eq_range_map (n : Nat) : (zeros n : List α) = (List.range n).map (fun _ => 0) := by
  unfold zeros
  apply List.ext_getElem
  · simp
  · intro i h1 h2; simp

/-- the coordinate map `x ↦ (d_k · x_k + b_k)_k` -/
theorem apply_coord (n : Nat) (d b : Nat → α) (x : List α) :
    (⟨(List.range n).map (fun k => unitVec n k (d k)), (List.range n).map b, n⟩ : Aff α).apply x =
      (List.range n).map (fun k => d k * x.getD k 0 + b k) := by
  unfold Aff.apply
  simp only
  rw [matVec_diagLike, vadd_range_map]

end AV
