import AffVerif.Proofs.CacheReduce
/-!
# The cache invariant when the user appends witnesses (`plant`)

`PT.hitPaths t i []` lists the path of the node(s) with index `i` as `modifyAt` meets them; the four clauses of
`CacheOK` survive `PT.plant` when the appended points satisfy that path within `tol`.
-/
set_option linter.unusedSectionVars false
set_option linter.unusedVariables false
namespace AV
variable {α : Type}

section hp
variable [Neg α]
mutual
def PT.hitPaths : PT α → Nat → List (Aff α) → List (List (Aff α))
  | .node j c ks, i, path => if j = i then [path] else PKids.hitPaths ks i path c.aff 0
def PKids.hitPaths : PKids α → Nat → List (Aff α) → Aff α → Nat → List (List (Aff α))
  | .nil, _, _, _, _ => []
  | .cons none r, i, path, a, l => PKids.hitPaths r i path a (l+1)
  | .cons (some t) r, i, path, a, l => PT.hitPaths t i (path ++ [halfspace a l]) ++ PKids.hitPaths r i path a (l+1)
end
end hp

theorem NState.plant_inf (pts : List (List α)) (st : NState α) : st.plant pts = .infeasible ↔ st = .infeasible := by
  cases st <;> simp [NState.plant]

theorem PT.plant_val_aff (pts : List (List α)) (t : PT α) (i : Nat) :
    (ITree.modifyAt (PT.plantFn pts) t i).val.aff = t.val.aff := by
  cases t with
  | node j c ks => simp only [ITree.modifyAt]; split <;> simp [PT.plantFn, ITree.val]

theorem PT.plant_val_inf (pts : List (List α)) (t : PT α) (i : Nat) :
    (ITree.modifyAt (PT.plantFn pts) t i).val.state = .infeasible ↔ t.val.state = .infeasible := by
  cases t with
  | node j c ks =>
    simp only [ITree.modifyAt]; split
    · simp [PT.plantFn, ITree.val, NState.plant_inf]
    · simp [ITree.val]

theorem PKids.plant_allNone (pts : List (List α)) (ks : PKids α) (i : Nat) :
    (IKids.modifyAt (PT.plantFn pts) ks i).allNone = ks.allNone := by
  match ks with
  | .nil => simp [IKids.modifyAt]
  | .cons none r => simp [IKids.modifyAt, IKids.allNone, PKids.plant_allNone pts r i]
  | .cons (some t) r => simp [IKids.modifyAt, IKids.allNone]

theorem PKids.plant_length (pts : List (List α)) (ks : PKids α) (i : Nat) :
    (IKids.modifyAt (PT.plantFn pts) ks i).length = ks.length := by
  match ks with
  | .nil => simp [IKids.modifyAt]
  | .cons none r => simp [IKids.modifyAt, IKids.length, PKids.plant_length pts r i]
  | .cons (some t) r => simp [IKids.modifyAt, IKids.length, PKids.plant_length pts r i]

theorem PKids.plant_count (pts : List (List α)) (ks : PKids α) (i : Nat) :
    (IKids.modifyAt (PT.plantFn pts) ks i).count = ks.count := by
  match ks with
  | .nil => simp [IKids.modifyAt]
  | .cons none r => simp [IKids.modifyAt, IKids.count, PKids.plant_count pts r i]
  | .cons (some t) r => simp [IKids.modifyAt, IKids.count, PKids.plant_count pts r i]

mutual
theorem PT.shaped_plant (pts : List (List α)) (K n m : Nat) (t : PT α) (i : Nat) (h : PT.Shaped K n m t) :
    PT.Shaped K n m (ITree.modifyAt (PT.plantFn pts) t i) := by
  match t with
  | .node j c ks =>
    unfold PT.Shaped at h
    simp only [ITree.modifyAt]
    split
    · simp only [PT.plantFn]; unfold PT.Shaped; exact h
    · unfold PT.Shaped
      rw [PKids.plant_allNone, PKids.plant_length]
      exact ⟨h.1, h.2.1, h.2.2.1, h.2.2.2.1, h.2.2.2.2.1, PKids.shaped_plant pts K n m ks i h.2.2.2.2.2⟩
theorem PKids.shaped_plant (pts : List (List α)) (K n m : Nat) (ks : PKids α) (i : Nat) (h : PKids.Shaped K n m ks) :
    PKids.Shaped K n m (IKids.modifyAt (PT.plantFn pts) ks i) := by
  match ks with
  | .nil => simp only [IKids.modifyAt]; exact h
  | .cons none r => simp only [IKids.modifyAt]; unfold PKids.Shaped at h ⊢; exact PKids.shaped_plant pts K n m r i h
  | .cons (some t) r =>
    simp only [IKids.modifyAt]; unfold PKids.Shaped at h ⊢
    exact ⟨PT.shaped_plant pts K n m t i h.1, PKids.shaped_plant pts K n m r i h.2⟩
end

section fld
variable [Field α] [LinearOrder α] [IsStrictOrderedRing α]

mutual
theorem PT.infSound_plant (pts : List (List α)) (path : List (Aff α)) (t : PT α) (i : Nat) (h : PT.InfSound path t) :
    PT.InfSound path (ITree.modifyAt (PT.plantFn pts) t i) := by
  match t with
  | .node j c ks =>
    unfold PT.InfSound at h
    simp only [ITree.modifyAt]
    split
    · simp only [PT.plantFn]; unfold PT.InfSound
      exact ⟨fun hi => h.1 ((NState.plant_inf pts c.state).1 hi), h.2⟩
    · unfold PT.InfSound
      exact ⟨h.1, PKids.infSound_plant pts path c.aff 0 ks i h.2⟩
theorem PKids.infSound_plant (pts : List (List α)) (path : List (Aff α)) (a : Aff α) (l : Nat) (ks : PKids α) (i : Nat)
    (h : PKids.InfSound path a l ks) : PKids.InfSound path a l (IKids.modifyAt (PT.plantFn pts) ks i) := by
  match ks with
  | .nil => simp only [IKids.modifyAt]; exact h
  | .cons none r =>
    simp only [IKids.modifyAt]; unfold PKids.InfSound at h ⊢; exact PKids.infSound_plant pts path a (l+1) r i h
  | .cons (some t) r =>
    simp only [IKids.modifyAt]; unfold PKids.InfSound at h ⊢
    exact ⟨PT.infSound_plant pts _ t i h.1, PKids.infSound_plant pts path a (l+1) r i h.2⟩
end

mutual
theorem PT.witSound_plant (tol : α) (pts : List (List α)) (path : List (Aff α)) (t : PT α) (i : Nat)
    (h : PT.WitSound tol path t) (hp : ∀ q ∈ PT.hitPaths t i path, ∀ w ∈ pts, InPathTol tol q w) :
    PT.WitSound tol path (ITree.modifyAt (PT.plantFn pts) t i) := by
  match t with
  | .node j c ks =>
    unfold PT.WitSound at h
    simp only [ITree.modifyAt]
    unfold PT.hitPaths at hp
    split
    · rename_i hj
      simp only [hj, if_true, List.mem_singleton, forall_eq] at hp
      simp only [PT.plantFn]; unfold PT.WitSound
      refine ⟨?_, h.2⟩
      intro ws hws w hw
      cases hst : c.state with
      | witness ws0 =>
        rw [hst] at hws; simp only [NState.plant, NState.witness.injEq] at hws
        subst hws
        rcases List.mem_append.1 hw with h1 | h1
        · exact h.1 ws0 hst w h1
        · exact hp w h1
      | indeterminate => rw [hst] at hws; simp [NState.plant] at hws
      | infeasible => rw [hst] at hws; simp [NState.plant] at hws
      | feasible => rw [hst] at hws; simp [NState.plant] at hws
    · rename_i hj
      simp only [hj, if_false] at hp
      unfold PT.WitSound
      exact ⟨h.1, PKids.witSound_plant tol pts path c.aff 0 ks i h.2 hp⟩
theorem PKids.witSound_plant (tol : α) (pts : List (List α)) (path : List (Aff α)) (a : Aff α) (l : Nat) (ks : PKids α)
    (i : Nat) (h : PKids.WitSound tol path a l ks)
    (hp : ∀ q ∈ PKids.hitPaths ks i path a l, ∀ w ∈ pts, InPathTol tol q w) :
    PKids.WitSound tol path a l (IKids.modifyAt (PT.plantFn pts) ks i) := by
  match ks with
  | .nil => simp only [IKids.modifyAt]; exact h
  | .cons none r =>
    simp only [IKids.modifyAt]; unfold PKids.WitSound at h ⊢; unfold PKids.hitPaths at hp
    exact PKids.witSound_plant tol pts path a (l+1) r i h hp
  | .cons (some t) r =>
    simp only [IKids.modifyAt]; unfold PKids.WitSound at h ⊢; unfold PKids.hitPaths at hp
    exact ⟨PT.witSound_plant tol pts _ t i h.1 (fun q hq => hp q (List.mem_append.2 (Or.inl hq))),
      PKids.witSound_plant tol pts path a (l+1) r i h.2 (fun q hq => hp q (List.mem_append.2 (Or.inr hq)))⟩
end

theorem PKids.noInf_plant (pts : List (List α)) (ks : PKids α) (i : Nat) (h : PKids.noInf ks) :
    PKids.noInf (IKids.modifyAt (PT.plantFn pts) ks i) := by
  match ks with
  | .nil => simp only [IKids.modifyAt]; exact h
  | .cons none r => simp only [IKids.modifyAt]; unfold PKids.noInf at h ⊢; exact PKids.noInf_plant pts r i h
  | .cons (some t) r =>
    simp only [IKids.modifyAt]; unfold PKids.noInf at h ⊢
    exact ⟨fun hi => h.1 ((PT.plant_val_inf pts t i).1 hi), PKids.noInf_plant pts r i h.2⟩

mutual
theorem PT.infOnly_plant (pts : List (List α)) (t : PT α) (i : Nat) (h : PT.InfOnly t) :
    PT.InfOnly (ITree.modifyAt (PT.plantFn pts) t i) := by
  match t with
  | .node j c ks =>
    unfold PT.InfOnly at h
    simp only [ITree.modifyAt]
    split
    · simp only [PT.plantFn]; unfold PT.InfOnly; exact h
    · unfold PT.InfOnly
      rw [PKids.plant_count]
      exact ⟨fun h2 => PKids.noInf_plant pts ks i (h.1 h2), PKids.infOnly_plant pts ks i h.2⟩
theorem PKids.infOnly_plant (pts : List (List α)) (ks : PKids α) (i : Nat) (h : PKids.InfOnly ks) :
    PKids.InfOnly (IKids.modifyAt (PT.plantFn pts) ks i) := by
  match ks with
  | .nil => simp only [IKids.modifyAt]; exact h
  | .cons none r => simp only [IKids.modifyAt]; unfold PKids.InfOnly at h ⊢; exact PKids.infOnly_plant pts r i h
  | .cons (some t) r =>
    simp only [IKids.modifyAt]; unfold PKids.InfOnly at h ⊢
    exact ⟨PT.infOnly_plant pts t i h.1, PKids.infOnly_plant pts r i h.2⟩
end

end fld
end AV
