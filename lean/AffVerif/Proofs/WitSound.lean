import AffVerif.Proofs.InfSound
/-!
The witness clause of the cache invariant (C05): every point stored at a node satisfies all path conditions from the
root to that node, within the containment tolerance `tol` of the code (`1e-8`). It is preserved by composition, maps
on terminals and by `infeasible_elimination` — for *every* LP backend (the sweep re-checks the solver's point with
`contains`) and for every `mirror_points` oracle whose `phase_one` answers lie in the polytope they were asked for.
-/
set_option linter.unusedSectionVars false
set_option linter.unusedVariables false
namespace AV
variable {α : Type} [Field α] [LinearOrder α] [IsStrictOrderedRing α]

/-- `x` satisfies every half-space of the path up to the slack `tol` (the code's `contains`) -/
def InPathTol (tol : α) (path : List (Aff α)) (x : List α) : Prop :=
  ∀ h ∈ path, Poly.containsTol tol h x = true

/-- the witness clause for one cached state at a node with the given path -/
def StWit (tol : α) (path : List (Aff α)) (st : NState α) : Prop :=
  ∀ ws, st = .witness ws → ∀ w ∈ ws, InPathTol tol path w

mutual
def PT.WitSound (tol : α) : List (Aff α) → PT α → Prop
  | path, .node _ c ks => StWit tol path c.state ∧ PKids.WitSound tol path c.aff 0 ks
def PKids.WitSound (tol : α) : List (Aff α) → Aff α → Nat → PKids α → Prop
  | _, _, _, .nil => True
  | path, a, l, .cons none r => PKids.WitSound tol path a (l+1) r
  | path, a, l, .cons (some t) r => PT.WitSound tol (path ++ [halfspace a l]) t ∧ PKids.WitSound tol path a (l+1) r
end

theorem stWit_indeterminate (tol : α) (path : List (Aff α)) : StWit tol path (.indeterminate : NState α) := by
  intro ws h; cases h

theorem stWit_of_not_witness (tol : α) (path : List (Aff α)) (st : NState α) (h : ∀ ws, st ≠ .witness ws) :
    StWit tol path st := fun ws hw => absurd hw (h ws)

theorem stWit_mono (tol : α) (p q : List (Aff α)) (hqp : ∀ h ∈ q, h ∈ p) (st : NState α) (h : StWit tol p st) :
    StWit tol q st := fun ws hw w hm hh hq => h ws hw w hm hh (hqp hh hq)

/-! ### `contains` on a path polytope -/

theorem vsub_matVec_eq (mat : List (List α)) (bias : List α) (x : List α) :
    vsub bias (matVec mat x) = (mat.zip bias).map (fun rb => rb.2 - dot rb.1 x) := by
  induction mat generalizing bias with
  | nil => cases bias <;> simp [matVec, vsub]
  | cons r rs ih =>
    cases bias with
    | nil => simp [matVec, vsub]
    | cons b bs =>
      have := ih bs
      simp only [matVec] at this
      simp [matVec, vsub, this]

theorem containsTol_iff_rows (tol : α) (p : Aff α) (x : List α) :
    Poly.containsTol tol p x = true ↔ ∀ rb ∈ p.rows, -tol ≤ rb.2 - dot rb.1 x := by
  unfold Poly.containsTol Poly.distanceRaw Aff.rows
  rw [vsub_matVec_eq]
  simp [List.all_eq_true]

/-- the code's `contains` on the path polytope handed to the solver is `contains` on every half-space of the path -/
theorem containsTol_intersectionN (tol : α) (n : Nat) (path : List (Aff α)) (x : List α)
    (h : Poly.containsTol tol (Poly.intersectionN n path) x = true) : InPathTol tol path x := by
  intro hh hm
  rw [containsTol_iff_rows] at h ⊢
  unfold Poly.intersectionN at h
  have hne : path.isEmpty = false := by cases path <;> simp at hm ⊢
  rw [hne] at h
  simp only [Bool.false_eq_true, if_false, ofRows_rows] at h
  intro rb hrb
  exact h rb (List.mem_flatMap.mpr ⟨hh, hm, hrb⟩)

theorem inPathTol_append (tol : α) (p : List (Aff α)) (h : Aff α) (x : List α) (hp : InPathTol tol p x)
    (hh : Poly.containsTol tol h x = true) : InPathTol tol (p ++ [h]) x := by
  intro g hg
  rcases List.mem_append.mp hg with h1 | h1
  · exact hp g h1
  · simp at h1; subst h1; exact hh

/-! ### fresh nodes, composition, maps on terminals -/

mutual
theorem PT.witSound_of_fresh (tol : α) (t : PT α) (path : List (Aff α)) (h : PT.Fresh t) : PT.WitSound tol path t := by
  match t with
  | .node i c ks =>
    unfold PT.Fresh at h
    unfold PT.WitSound
    exact ⟨by rw [h.1]; exact stWit_indeterminate tol path, PKids.witSound_of_fresh tol ks path c.aff 0 h.2⟩
theorem PKids.witSound_of_fresh (tol : α) (ks : PKids α) (path : List (Aff α)) (a : Aff α) (l : Nat)
    (h : PKids.Fresh ks) : PKids.WitSound tol path a l ks := by
  match ks with
  | .nil => simp [PKids.WitSound]
  | .cons none r =>
    simp only [PKids.WitSound]; unfold PKids.Fresh at h; exact PKids.witSound_of_fresh tol r path a (l+1) h
  | .cons (some t) r =>
    unfold PKids.Fresh at h
    simp only [PKids.WitSound]
    exact ⟨PT.witSound_of_fresh tol t _ h.1, PKids.witSound_of_fresh tol r path a (l+1) h.2⟩
end

mutual
theorem PT.witSound_composeS (tol : α) (S : Schema α) (f g : PT α) (c : Nat) (path : List (Aff α))
    (h : PT.WitSound tol path f) : PT.WitSound tol path (PT.composeS S f g c).1 := by
  match f with
  | .node i fc ks =>
    unfold PT.WitSound at h
    cases hl : ks.allNone with
    | true =>
      match g with
      | .node j gc gk =>
        simp only [PT.composeS, hl, if_true]
        unfold PT.WitSound
        exact ⟨h.1, PKids.witSound_of_fresh tol _ path _ 0 (PKids.fresh_graft S gk fc.aff c)⟩
    | false =>
      simp only [PT.composeS, hl, Bool.false_eq_true, if_false]
      unfold PT.WitSound
      exact ⟨h.1, PKids.witSound_composeS tol S ks g c path fc.aff 0 h.2⟩
theorem PKids.witSound_composeS (tol : α) (S : Schema α) (ks : PKids α) (g : PT α) (c : Nat) (path : List (Aff α))
    (a : Aff α) (l : Nat) (h : PKids.WitSound tol path a l ks) :
    PKids.WitSound tol path a l (PKids.composeS S ks g c).1 := by
  match ks with
  | .nil => simp [PKids.composeS, PKids.WitSound]
  | .cons none r =>
    simp only [PKids.composeS, PKids.WitSound] at h ⊢
    exact PKids.witSound_composeS tol S r g c path a (l+1) h
  | .cons (some k) r =>
    simp only [PKids.composeS, PKids.WitSound] at h ⊢
    exact ⟨PT.witSound_composeS tol S k g c _ h.1, PKids.witSound_composeS tol S r g _ path a (l+1) h.2⟩
end

mutual
theorem PT.witSound_mapTerminals (tol : α) (φ : Aff α → Aff α) (t : PT α) (path : List (Aff α))
    (h : PT.WitSound tol path t) : PT.WitSound tol path (PT.mapTerminals φ t) := by
  match t with
  | .node i c ks =>
    unfold PT.WitSound at h
    cases hl : ks.allNone with
    | true =>
      simp only [PT.mapTerminals, hl, if_true]
      unfold PT.WitSound
      exact ⟨h.1, PKids.witSound_allNone tol ks path _ 0 hl⟩
    | false =>
      simp only [PT.mapTerminals, hl, Bool.false_eq_true, if_false]
      unfold PT.WitSound
      exact ⟨h.1, PKids.witSound_mapTerminals tol φ ks path c.aff 0 h.2⟩
theorem PKids.witSound_mapTerminals (tol : α) (φ : Aff α → Aff α) (ks : PKids α) (path : List (Aff α)) (a : Aff α)
    (l : Nat) (h : PKids.WitSound tol path a l ks) : PKids.WitSound tol path a l (PKids.mapTerminals φ ks) := by
  match ks with
  | .nil => simp [PKids.mapTerminals, PKids.WitSound]
  | .cons none r =>
    simp only [PKids.mapTerminals, PKids.WitSound] at h ⊢
    exact PKids.witSound_mapTerminals tol φ r path a (l+1) h
  | .cons (some k) r =>
    simp only [PKids.mapTerminals, PKids.WitSound] at h ⊢
    exact ⟨PT.witSound_mapTerminals tol φ k _ h.1, PKids.witSound_mapTerminals tol φ r path a (l+1) h.2⟩
theorem PKids.witSound_allNone (tol : α) (ks : PKids α) (path : List (Aff α)) (a : Aff α) (l : Nat)
    (h : ks.allNone = true) : PKids.WitSound tol path a l ks := by
  match ks, h with
  | .nil, _ => simp [PKids.WitSound]
  | .cons none r, h =>
    simp only [PKids.WitSound]; exact PKids.witSound_allNone tol r path a (l+1) (by simpa [IKids.allNone] using h)
end

mutual
/-- shortening a path (forwarding drops the forwarded decision's half-space) keeps the witness clause -/
theorem PT.witSound_mono (tol : α) (t : PT α) (p q : List (Aff α)) (hqp : ∀ h ∈ q, h ∈ p)
    (h : PT.WitSound tol p t) : PT.WitSound tol q t := by
  match t with
  | .node i c ks =>
    unfold PT.WitSound at h ⊢
    exact ⟨stWit_mono tol p q hqp _ h.1, PKids.witSound_mono tol ks p q c.aff 0 hqp h.2⟩
theorem PKids.witSound_mono (tol : α) (ks : PKids α) (p q : List (Aff α)) (a : Aff α) (l : Nat)
    (hqp : ∀ h ∈ q, h ∈ p) (h : PKids.WitSound tol p a l ks) : PKids.WitSound tol q a l ks := by
  match ks with
  | .nil => simp [PKids.WitSound]
  | .cons none r => simp only [PKids.WitSound] at h ⊢; exact PKids.witSound_mono tol r p q a (l+1) hqp h
  | .cons (some t) r =>
    simp only [PKids.WitSound] at h ⊢
    refine ⟨PT.witSound_mono tol t _ _ (fun g hg => ?_) h.1, PKids.witSound_mono tol r p q a (l+1) hqp h.2⟩
    rcases List.mem_append.mp hg with h1 | h1
    · exact List.mem_append_left _ (hqp g h1)
    · exact List.mem_append_right _ h1
end

theorem PKids.witSound_set_none (tol : α) (ks : PKids α) (path : List (Aff α)) (a : Aff α) (l0 l : Nat)
    (h : PKids.WitSound tol path a l0 ks) : PKids.WitSound tol path a l0 (ks.set l none) := by
  match ks, l with
  | .nil, _ => simp [IKids.set, PKids.WitSound]
  | .cons none r, 0 => simpa [IKids.set, PKids.WitSound] using h
  | .cons (some t) r, 0 => simp only [IKids.set, PKids.WitSound] at h ⊢; exact h.2
  | .cons none r, l+1 =>
    simp only [IKids.set, PKids.WitSound] at h ⊢; exact PKids.witSound_set_none tol r path a (l0+1) l h
  | .cons (some t) r, l+1 =>
    simp only [IKids.set, PKids.WitSound] at h ⊢; exact ⟨h.1, PKids.witSound_set_none tol r path a (l0+1) l h.2⟩

theorem PKids.witSound_removeLabels (tol : α) (ks : PKids α) (path : List (Aff α)) (a : Aff α) (ls : List Nat)
    (h : PKids.WitSound tol path a 0 ks) : PKids.WitSound tol path a 0 (removeLabels ks ls) := by
  induction ls generalizing ks with
  | nil => simpa [removeLabels] using h
  | cons l ls ih =>
    simp only [removeLabels]
    split
    · exact ih _ (PKids.witSound_set_none tol ks path a 0 l h)
    · exact ih _ h

/-! ### the three phases -/

/-- `phase_one` hands out what `mirror_points` returns; the heuristic's contract (C05, third clause) is that the
    returned points lie in the polytope they were asked for -/
def MirrorSound {σ : Type} (tol : α) (mirror : MirrorOracle σ α) : Prop :=
  ∀ s node poly ws k pts s', mirror s node poly ws k = (some pts, s') → ∀ p ∈ pts, Poly.containsTol tol poly p = true

theorem phaseInh_wit (tol : α) (pst : NState α) (path : List (Aff α)) (hyper : Aff α)
    (hp : StWit tol path pst) : StWit tol (path ++ [hyper]) (phaseInh tol pst hyper) := by
  unfold phaseInh
  cases pst with
  | witness ws =>
    simp only
    split
    · exact stWit_indeterminate tol _
    · intro ws' hw w hm
      cases hw
      have := List.mem_filter.mp hm
      exact inPathTol_append tol path hyper w (hp ws rfl w this.1) (by simpa using this.2)
  | _ => exact stWit_indeterminate tol _

theorem phaseOne_wit {σ : Type} (tol : α) (O : Oracles σ α) (hm : MirrorSound tol O.mirror) (s : σ) (node : Nat)
    (pst : NState α) (n : Nat) (path : List (Aff α)) :
    StWit tol path (phaseOne O s node pst (Poly.intersectionN n path)).1 := by
  unfold phaseOne
  cases pst with
  | witness ws =>
    simp only
    rcases h : O.mirror s node (Poly.intersectionN n path) ws 8 with ⟨r, s'⟩
    cases r with
    | none => exact stWit_indeterminate tol _
    | some pts =>
      intro ws' hw w hmem
      cases hw
      exact containsTol_intersectionN tol n path w (hm s node _ ws 8 pts s' h w hmem)
  | _ => exact stWit_indeterminate tol _

/-- `phase_two` stores a point only after `contains` accepted it — whatever the solver and the heuristic return -/
theorem phaseTwo_wit {σ : Type} (tol : α) (O : Oracles σ α) (s : σ) (node : Nat) (n : Nat) (path : List (Aff α)) :
    StWit tol path (phaseTwo tol O s node (Poly.intersectionN n path) n).1 := by
  unfold phaseTwo
  rcases hr : O.lp s (Poly.intersectionN n path) (zeros n) with ⟨a, s1⟩
  cases a with
  | infeasible => exact stWit_of_not_witness tol _ _ (by intro ws h; cases h)
  | unbounded => exact stWit_of_not_witness tol _ _ (by intro ws h; cases h)
  | error => exact stWit_indeterminate tol _
  | optimal sol =>
    simp only
    split
    · rename_i hc
      intro ws hw w hmem
      cases hw
      simp at hmem; subst hmem
      exact containsTol_intersectionN tol n path _ hc
    · rcases hm : O.mirror s1 node (Poly.intersectionN n path) [sol] 20 with ⟨r, s2⟩
      cases r with
      | none => exact stWit_indeterminate tol _
      | some pts =>
        cases pts with
        | nil => exact stWit_indeterminate tol _
        | cons p ps =>
          simp only
          split
          · rename_i hc
            intro ws hw w hmem
            cases hw
            simp at hmem; subst hmem
            exact containsTol_intersectionN tol n path _ hc
          · exact stWit_indeterminate tol _

theorem decideNode_wit {σ : Type} (tol : α) (O : Oracles σ α) (hm : MirrorSound tol O.mirror)
    (s : σ) (node : Nat) (pst : NState α) (path : List (Aff α)) (hyper : Aff α) (n : Nat)
    (hp : StWit tol path pst) :
    StWit tol (path ++ [hyper]) (decideNode tol O s node pst path hyper n).1 := by
  unfold decideNode
  simp only
  have hi := phaseInh_wit tol pst path hyper hp
  cases hst : phaseInh tol pst hyper with
  | indeterminate =>
    simp only
    have h1 := phaseOne_wit tol O hm s node pst n (path ++ [hyper])
    rcases hone : phaseOne O s node pst (Poly.intersectionN n (path ++ [hyper])) with ⟨st1, s1⟩
    rw [hone] at h1
    cases st1 with
    | indeterminate => exact phaseTwo_wit tol O s1 node n (path ++ [hyper])
    | infeasible => exact h1
    | feasible => exact h1
    | witness ws => exact h1
  | infeasible => rw [hst] at hi; exact hi
  | feasible => rw [hst] at hi; exact hi
  | witness ws => rw [hst] at hi; exact hi

/-! ### the sweep -/

theorem witSound_state (tol : α) (p : List (Aff α)) (t : PT α) (h : PT.WitSound tol p t) : StWit tol p t.val.state := by
  cases t with
  | node i c ks => unfold PT.WitSound at h; exact h.1

theorem elimChild_witSound {σ : Type} (tol : α) (O : Oracles σ α) (hm : MirrorSound tol O.mirror) (n : Nat)
    (path : List (Aff α)) (paff : Aff α) (pst : NState α) (ch : PT α) (l : Nat) (s : σ)
    (hpst : StWit tol path pst)
    (hw : PT.WitSound tol (path ++ [halfspace paff l]) ch)
    (ih : ∀ (st' : NState α) (s' : σ), StWit tol (path ++ [halfspace paff l]) st' →
      PT.WitSound tol (path ++ [halfspace paff l]) (elimNode tol O n false (path ++ [halfspace paff l]) st' ch s').1) :
    PT.WitSound tol (path ++ [halfspace paff l]) (elimChild tol O n path paff pst ch l s).1 := by
  unfold elimChild
  have hd := decideNode_wit tol O hm s ch.idx pst path (halfspace paff l) n hpst
  cases hs : ch.val.state with
  | infeasible => simpa using hw
  | indeterminate =>
    simp only
    by_cases hdi : (decideNode tol O s ch.idx pst path (halfspace paff l) n).1.isInfeasible = true
    · simp only [hdi, if_true]
      cases ch with
      | node j cc ks =>
        simp only [ITree.idx, ITree.val, ITree.kids]
        unfold PT.WitSound at hw ⊢
        exact ⟨hd, hw.2⟩
    · simp only [hdi, Bool.false_eq_true, if_false]
      exact ih _ _ hd
  | feasible => exact ih _ _ (stWit_of_not_witness tol _ _ (by intro ws h; cases h))
  | witness ws =>
    refine ih _ _ ?_
    have := witSound_state tol _ ch hw
    rw [hs] at this; exact this

theorem finish_two_witSound (tol : α) (i : Nat) (aff : Aff α) (st : NState α) (ra rb : PT α) (newInf : List Nat)
    (lastFresh isRoot : Bool) (path : List (Aff α)) (hst : StWit tol path st)
    (fa : PT.WitSound tol (path ++ [halfspace aff 0]) ra) (fb : PT.WitSound tol (path ++ [halfspace aff 1]) rb) :
    PT.WitSound tol path (finishNode i ⟨aff, st⟩ (.cons (some ra) (.cons (some rb) .nil)) newInf lastFresh isRoot) := by
  have hkids : PKids.WitSound tol path aff 0 (.cons (some ra) (.cons (some rb) .nil)) := by
    simp only [PKids.WitSound]; exact ⟨fa, fb, trivial⟩
  unfold finishNode
  cases hfl : (if lastFresh then forwardLabel? (.cons (some ra) (.cons (some rb) .nil)) else none) with
  | none =>
    simp only
    unfold PT.WitSound
    exact ⟨hst, PKids.witSound_removeLabels tol _ path aff _ hkids⟩
  | some l =>
    simp only
    have hl : forwardLabel? (.cons (some ra) (.cons (some rb) .nil)) = some l := by
      by_cases hf : lastFresh = true
      · simpa [hf] using hfl
      · simp [hf] at hfl
    obtain ⟨a, b, hks, hcase⟩ := forwardLabel_spec _ l hl
    simp only [IKids.cons.injEq, Option.some.injEq, and_true] at hks
    obtain ⟨rfl, rfl⟩ := hks
    cases isRoot with
    | true =>
      simp only [if_true]
      unfold PT.WitSound
      exact ⟨hst, PKids.witSound_set_none tol _ path aff 0 _ hkids⟩
    | false =>
      simp only [Bool.false_eq_true, if_false]
      rcases hcase with ⟨rfl, _, _⟩ | ⟨rfl, _, _⟩
      · simp only [IKids.get?]
        exact PT.witSound_mono tol _ _ path (fun g hg => List.mem_append_left _ hg) fa
      · simp only [IKids.get?]
        exact PT.witSound_mono tol _ _ path (fun g hg => List.mem_append_left _ hg) fb

/-- C05 (witness clause) for `infeasible_elimination`, also across `forward_if_redundant` -/
theorem PT.witSound_elimNode {σ : Type} (tol : α) (O : Oracles σ α) (hm : MirrorSound tol O.mirror) (n : Nat)
    (isRoot : Bool) (path : List (Aff α)) (st : NState α) (t : PT α) (s : σ)
    (hok : PT.ElimOK t) (hc : PKids.WitSound tol path t.val.aff 0 t.kids)
    (hst : StWit tol path st) :
    PT.WitSound tol path (elimNode tol O n isRoot path st t s).1 := by
  match t, hok, hc with
  | .node i c .nil, hok, _ => simp [PT.ElimOK, IKids.length] at hok
  | .node i c (.cons _ .nil), hok, _ => simp [PT.ElimOK, IKids.length] at hok
  | .node i c (.cons _ (.cons _ (.cons _ _))), hok, _ => simp [PT.ElimOK, IKids.length] at hok
  | .node i c (.cons none (.cons none .nil)), _, _ =>
    rw [elimNode_eq]
    simp only [elimKids_cons_none, elimKids_nil, finishNode, forwardLabel?, ite_self, removeLabels]
    unfold PT.WitSound
    exact ⟨hst, by simp [PKids.WitSound]⟩
  | .node i c (.cons (some ka) (.cons none .nil)), hok, hc =>
    unfold PT.ElimOK at hok
    obtain ⟨_, _, hkok⟩ := hok
    simp only [PKids.ElimOK] at hkok
    simp only [ITree.val, ITree.kids, PKids.WitSound] at hc
    have fa := elimChild_witSound tol O hm n path c.aff st ka 0 s hst hc.1
      (fun st' s' hs' => PT.witSound_elimNode tol O hm n false _ st' ka s' hkok.1 (by
        have := hc.1; cases ka with | node j cc kk => unfold PT.WitSound at this; exact this.2) hs')
    rw [elimNode_eq]
    simp only [elimKids_cons_some, elimKids_cons_none, elimKids_nil, IKids.count]
    simp only [finishNode, forwardLabel?, ite_self]
    unfold PT.WitSound
    refine ⟨hst, PKids.witSound_removeLabels tol _ path c.aff _ ?_⟩
    simp only [PKids.WitSound]
    exact ⟨fa, trivial⟩
  | .node i c (.cons none (.cons (some kb) .nil)), hok, hc =>
    unfold PT.ElimOK at hok
    obtain ⟨_, _, hkok⟩ := hok
    simp only [PKids.ElimOK] at hkok
    simp only [ITree.val, ITree.kids, PKids.WitSound] at hc
    have fb := elimChild_witSound tol O hm n path c.aff st kb 1 s hst hc.1
      (fun st' s' hs' => PT.witSound_elimNode tol O hm n false _ st' kb s' hkok.1 (by
        have := hc.1; cases kb with | node j cc kk => unfold PT.WitSound at this; exact this.2) hs')
    rw [elimNode_eq]
    simp only [elimKids_cons_some, elimKids_cons_none, elimKids_nil, IKids.count]
    simp only [finishNode, forwardLabel?, ite_self]
    unfold PT.WitSound
    refine ⟨hst, PKids.witSound_removeLabels tol _ path c.aff _ ?_⟩
    simp only [PKids.WitSound]
    exact ⟨fb, trivial⟩
  | .node i c (.cons (some ka) (.cons (some kb) .nil)), hok, hc =>
    unfold PT.ElimOK at hok
    obtain ⟨_, hdec, hkok⟩ := hok
    simp only [PKids.ElimOK] at hkok
    simp only [ITree.val, ITree.kids, PKids.WitSound] at hc
    have fa := elimChild_witSound tol O hm n path c.aff st ka 0 s hst hc.1
      (fun st' s' hs' => PT.witSound_elimNode tol O hm n false _ st' ka s' hkok.1 (by
        have := hc.1; cases ka with | node j cc kk => unfold PT.WitSound at this; exact this.2) hs')
    have fb := fun s1 => elimChild_witSound tol O hm n path c.aff st kb 1 s1 hst hc.2.1
      (fun st' s' hs' => PT.witSound_elimNode tol O hm n false _ st' kb s' hkok.2.1 (by
        have := hc.2.1; cases kb with | node j cc kk => unfold PT.WitSound at this; exact this.2) hs')
    rw [elimNode_eq]
    simp only [elimKids_cons_some, elimKids_nil, IKids.count]
    generalize elimChild tol O n path c.aff st ka 0 s = ca at fa
    have fb' := fb ca.2.1
    generalize elimChild tol O n path c.aff st kb (0+1) ca.2.1 = cb at fb'
    simp only [Nat.zero_add] at fb' ⊢
    exact finish_two_witSound tol i c.aff st ca.1 cb.1 _ _ isRoot path hst fa fb'
termination_by sizeOf t
decreasing_by
  all_goals simp_wf
  all_goals omega

end AV
