import AffVerif.Model.Stats
import Mathlib.Tactic.Ring
import Mathlib.Tactic.FieldSimp
import Mathlib.Tactic.Linarith
import Mathlib.Algebra.Order.Field.Basic
import Mathlib.Algebra.BigOperators.Group.List.Basic
/-!
Welford's running update computes the textbook mean and sum of squared deviations (over any ordered field, where the
sample count never vanishes): `C13_depth_stats_welford` in `Props/C13.lean`.
-/
set_option linter.unusedSectionVars false
namespace AV
variable {α : Type} [Field α] [LinearOrder α] [IsStrictOrderedRing α]

def sqSum (xs : List α) : α := (xs.map (fun x => x * x)).sum

/-- the invariant of the running update after the samples `xs` -/
def Welford.Inv (xs : List α) (w : Welford α) : Prop :=
  w.n = (xs.length : α) ∧ w.n * w.mean = xs.sum ∧ w.sum2 = sqSum xs - w.n * (w.mean * w.mean)

theorem Welford.inv_new : Welford.Inv ([] : List α) Welford.new := by
  simp [Welford.Inv, Welford.new, sqSum]

theorem Welford.inv_add (xs : List α) (w : Welford α) (x : α) (h : Welford.Inv xs w) :
    Welford.Inv (xs ++ [x]) (w.add x) := by
  obtain ⟨hn, hm, hs⟩ := h
  have hk : (0 : α) ≤ (xs.length : α) := Nat.cast_nonneg _
  have hk1 : ((xs.length : α) + 1) ≠ 0 := by linarith
  unfold Welford.add
  refine ⟨?_, ?_, ?_⟩
  · simp [hn]
  · simp only [List.sum_append, List.sum_cons, List.sum_nil, add_zero]
    rw [← hm, hn]
    field_simp
    ring
  · simp only [List.sum_append, List.sum_cons, List.sum_nil, add_zero, sqSum, List.map_append, List.map_cons,
      List.map_nil]
    simp only [sqSum] at hs
    rw [hs, hn]
    field_simp
    ring

theorem Welford.inv_run_aux (pre xs : List α) (w : Welford α) (h : Welford.Inv pre w) :
    Welford.Inv (pre ++ xs) (xs.foldl Welford.add w) := by
  induction xs generalizing pre w with
  | nil => simpa using h
  | cons x xs ih =>
    simp only [List.foldl_cons]
    have := ih (pre ++ [x]) (w.add x) (Welford.inv_add pre w x h)
    simpa [List.append_assoc] using this

theorem Welford.inv_run (xs : List α) : Welford.Inv xs (Welford.run xs) := by
  have := Welford.inv_run_aux [] xs Welford.new Welford.inv_new
  simpa [Welford.run] using this

/-- textbook sum of squared deviations from `c` -/
theorem sum_sq_dev (xs : List α) (c : α) :
    (xs.map (fun x => (x - c) * (x - c))).sum = sqSum xs - 2 * c * xs.sum + (xs.length : α) * (c * c) := by
  induction xs with
  | nil => simp [sqSum]
  | cons x xs ih =>
    simp only [List.map_cons, List.sum_cons, ih, sqSum, List.length_cons, Nat.cast_add, Nat.cast_one]
    ring

end AV
