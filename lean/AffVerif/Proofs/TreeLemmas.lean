import AffVerif.Model.Tree
import Mathlib.Data.List.Basic
import Mathlib.Data.List.Nodup
import Mathlib.Data.List.Perm.Basic
/-!
# Lemmas about the arena tree (`Tree<N,K>`): entries, `modifyAt`, arena view

`entries t` is the list of `(index, value)` pairs of the stored nodes in pre-order. Every operation of the tree
rewrites one sub-tree (`modifyAt`), so the entries of the result are `pre ++ entries (f s) ++ suf` where
`entries t = pre ++ entries s ++ suf`. All statements of C12 about surviving nodes and distinct indices are read
off this decomposition.
-/
set_option linter.unusedVariables false
namespace AV
variable {β : Type}

mutual
def ITree.entries : ITree β → List (Nat × β)
  | .node i v ks => (i, v) :: ks.entries
def IKids.entries : IKids β → List (Nat × β)
  | .nil => []
  | .cons none r => r.entries
  | .cons (some t) r => t.entries ++ r.entries
end

mutual
theorem ITree.indices_eq_entries (t : ITree β) : t.indices = t.entries.map Prod.fst := by
  match t with
  | .node i v ks => simp [ITree.indices, ITree.entries, IKids.indices_eq_entries ks]
theorem IKids.indices_eq_entries (ks : IKids β) : ks.indices = ks.entries.map Prod.fst := by
  match ks with
  | .nil => simp [IKids.indices, IKids.entries]
  | .cons none r => simp [IKids.indices, IKids.entries, IKids.indices_eq_entries r]
  | .cons (some t) r =>
    simp [IKids.indices, IKids.entries, IKids.indices_eq_entries r, ITree.indices_eq_entries t]
end

mutual
theorem ITree.size_eq_entries (t : ITree β) : t.size = t.entries.length := by
  match t with
  | .node i v ks => simp [ITree.size, ITree.entries, IKids.size_eq_entries ks]; omega
theorem IKids.size_eq_entries (ks : IKids β) : ks.size = ks.entries.length := by
  match ks with
  | .nil => simp [IKids.size, IKids.entries]
  | .cons none r => simp [IKids.size, IKids.entries, IKids.size_eq_entries r]
  | .cons (some t) r =>
    simp [IKids.size, IKids.entries, IKids.size_eq_entries r, ITree.size_eq_entries t]
end

theorem ITree.idx_mem_indices (t : ITree β) : t.idx ∈ t.indices := by
  cases t with | node i v ks => simp [ITree.idx, ITree.indices]

/-! ### `find?` -/

mutual
theorem ITree.find?_idx (t : ITree β) (i : Nat) (s : ITree β) (h : t.find? i = some s) : s.idx = i := by
  match t with
  | .node j v ks =>
    simp only [ITree.find?] at h
    split at h
    · rename_i hj; cases h; simp [ITree.idx, hj]
    · exact IKids.find?_idx ks i s h
theorem IKids.find?_idx (ks : IKids β) (i : Nat) (s : ITree β) (h : ks.find? i = some s) : s.idx = i := by
  match ks with
  | .nil => simp [IKids.find?] at h
  | .cons none r => simp only [IKids.find?] at h; exact IKids.find?_idx r i s h
  | .cons (some t) r =>
    simp only [IKids.find?] at h
    cases ht : t.find? i with
    | some s' => rw [ht] at h; cases h; exact ITree.find?_idx t i s ht
    | none => rw [ht] at h; exact IKids.find?_idx r i s h
end

mutual
theorem ITree.find?_none (t : ITree β) (i : Nat) : t.find? i = none ↔ i ∉ t.indices := by
  match t with
  | .node j v ks =>
    simp only [ITree.find?, ITree.indices, List.mem_cons, not_or]
    split
    · rename_i hj; simp [hj]
    · rename_i hj
      rw [IKids.find?_none ks i]
      constructor
      · intro h; exact ⟨fun e => hj e.symm, h⟩
      · intro h; exact h.2
theorem IKids.find?_none (ks : IKids β) (i : Nat) : ks.find? i = none ↔ i ∉ ks.indices := by
  match ks with
  | .nil => simp [IKids.find?, IKids.indices]
  | .cons none r => simp only [IKids.find?, IKids.indices]; exact IKids.find?_none r i
  | .cons (some t) r =>
    simp only [IKids.find?, IKids.indices, List.mem_append, not_or]
    cases ht : t.find? i with
    | some s' =>
      simp only [reduceCtorEq, false_iff, not_and, not_not]
      intro h
      exact absurd ((ITree.find?_none t i).mpr h) (by rw [ht]; simp)
    | none =>
      simp only
      rw [IKids.find?_none r i]
      have := (ITree.find?_none t i).mp ht
      constructor
      · intro h; exact ⟨this, h⟩
      · intro h; exact h.2
end

theorem ITree.find?_isSome (t : ITree β) (i : Nat) : (t.find? i).isSome ↔ i ∈ t.indices := by
  rw [← not_iff_not, ← ITree.find?_none]; cases t.find? i <;> simp

/-! ### `modifyAt` -/

mutual
theorem ITree.modifyAt_of_not_mem (f : ITree β → ITree β) (t : ITree β) (i : Nat) (h : i ∉ t.indices) :
    t.modifyAt f i = t := by
  match t with
  | .node j v ks =>
    simp only [ITree.indices, List.mem_cons, not_or] at h
    simp only [ITree.modifyAt]
    rw [if_neg (fun e => h.1 e.symm), IKids.modifyAt_of_not_mem f ks i h.2]
theorem IKids.modifyAt_of_not_mem (f : ITree β → ITree β) (ks : IKids β) (i : Nat) (h : i ∉ ks.indices) :
    ks.modifyAt f i = ks := by
  match ks with
  | .nil => simp [IKids.modifyAt]
  | .cons none r =>
    simp only [IKids.indices] at h
    simp only [IKids.modifyAt]; rw [IKids.modifyAt_of_not_mem f r i h]
  | .cons (some t) r =>
    simp only [IKids.indices, List.mem_append, not_or] at h
    simp only [IKids.modifyAt]
    rw [IKids.modifyAt_of_not_mem f r i h.2, ITree.modifyAt_of_not_mem f t i h.1]
end

mutual
/-- the sub-tree found at `i` occupies a contiguous block of the entries, and (indices distinct) `modifyAt`
    replaces exactly that block -/
theorem ITree.modifyAt_entries (f : ITree β → ITree β) (t : ITree β) (i : Nat) (s : ITree β)
    (hs : t.find? i = some s) (hnd : t.indices.Nodup) :
    ∃ pre suf, t.entries = pre ++ s.entries ++ suf ∧ (t.modifyAt f i).entries = pre ++ (f s).entries ++ suf := by
  match t with
  | .node j v ks =>
    simp only [ITree.find?] at hs
    by_cases hj : j = i
    · rw [if_pos hj] at hs; cases hs
      refine ⟨[], [], by simp, ?_⟩
      simp [ITree.modifyAt, hj]
    · rw [if_neg hj] at hs
      simp only [ITree.indices, List.nodup_cons] at hnd
      obtain ⟨pre, suf, h1, h2⟩ := IKids.modifyAt_entries f ks i s hs hnd.2
      refine ⟨(j, v) :: pre, suf, ?_, ?_⟩
      · simp [ITree.entries, h1]
      · simp [ITree.modifyAt, hj, ITree.entries, h2]
theorem IKids.modifyAt_entries (f : ITree β → ITree β) (ks : IKids β) (i : Nat) (s : ITree β)
    (hs : ks.find? i = some s) (hnd : ks.indices.Nodup) :
    ∃ pre suf, ks.entries = pre ++ s.entries ++ suf ∧ (ks.modifyAt f i).entries = pre ++ (f s).entries ++ suf := by
  match ks with
  | .nil => simp [IKids.find?] at hs
  | .cons none r =>
    simp only [IKids.find?] at hs
    simp only [IKids.indices] at hnd
    obtain ⟨pre, suf, h1, h2⟩ := IKids.modifyAt_entries f r i s hs hnd
    exact ⟨pre, suf, by simp [IKids.entries, h1], by simp [IKids.modifyAt, IKids.entries, h2]⟩
  | .cons (some t) r =>
    simp only [IKids.find?] at hs
    simp only [IKids.indices] at hnd
    have hnd' := List.nodup_append.mp hnd
    cases ht : t.find? i with
    | some s' =>
      rw [ht] at hs; cases hs
      obtain ⟨pre, suf, h1, h2⟩ := ITree.modifyAt_entries f t i s ht hnd'.1
      have hi : i ∈ t.indices := (ITree.find?_isSome t i).mp (by rw [ht]; rfl)
      have hr : i ∉ r.indices := fun hm => hnd'.2.2 i hi i hm rfl
      refine ⟨pre, suf ++ r.entries, ?_, ?_⟩
      · simp [IKids.entries, h1]
      · simp [IKids.modifyAt, IKids.entries, h2, IKids.modifyAt_of_not_mem f r i hr]
    | none =>
      rw [ht] at hs
      obtain ⟨pre, suf, h1, h2⟩ := IKids.modifyAt_entries f r i s hs hnd'.2.1
      have hi : i ∉ t.indices := (ITree.find?_none t i).mp ht
      refine ⟨t.entries ++ pre, suf, ?_, ?_⟩
      · simp [IKids.entries, h1]
      · simp [IKids.modifyAt, IKids.entries, h2, ITree.modifyAt_of_not_mem f t i hi]
end

/-! ### entries of the slot operations -/

theorem IKids.entries_empty (n : Nat) : (IKids.empty n : IKids β).entries = [] := by
  induction n with
  | zero => simp [IKids.empty, IKids.entries]
  | succ n ih => simp [IKids.empty, IKids.entries, ih]

theorem IKids.length_empty (n : Nat) : (IKids.empty n : IKids β).length = n := by
  induction n with
  | zero => simp [IKids.empty, IKids.length]
  | succ n ih => simp [IKids.empty, IKids.length, ih]

theorem IKids.allNone_empty (n : Nat) : (IKids.empty n : IKids β).allNone = true := by
  induction n with
  | zero => simp [IKids.empty, IKids.allNone]
  | succ n ih => simp [IKids.empty, IKids.allNone, ih]

theorem IKids.length_set (ks : IKids β) (l : Nat) (o : Option (ITree β)) : (ks.set l o).length = ks.length := by
  match ks, l with
  | .nil, _ => simp [IKids.set]
  | .cons k r, 0 => simp [IKids.set, IKids.length]
  | .cons k r, l+1 => simp [IKids.set, IKids.length, IKids.length_set r l o]

/-- filling an empty slot inserts the new sub-tree's entries somewhere: a permutation of prepending them -/
theorem IKids.entries_set_some (ks : IKids β) (l : Nat) (c : ITree β) (hl : l < ks.length)
    (hnone : ks.get? l = none) : (ks.set l (some c)).entries.Perm (c.entries ++ ks.entries) := by
  match ks, l with
  | .nil, _ => simp [IKids.length] at hl
  | .cons k r, 0 =>
    simp only [IKids.get?] at hnone
    subst hnone
    simp [IKids.set, IKids.entries]
  | .cons none r, l+1 =>
    simp only [IKids.get?] at hnone
    simp only [IKids.length, Nat.add_lt_add_iff_right] at hl
    simpa [IKids.set, IKids.entries] using IKids.entries_set_some r l c hl hnone
  | .cons (some t) r, l+1 =>
    simp only [IKids.get?] at hnone
    simp only [IKids.length, Nat.add_lt_add_iff_right] at hl
    have := IKids.entries_set_some r l c hl hnone
    simp only [IKids.set, IKids.entries]
    refine (List.Perm.append_left _ this).trans ?_
    rw [← List.append_assoc, ← List.append_assoc]
    exact List.Perm.append_right _ List.perm_append_comm

/-- emptying a slot drops a block of entries -/
theorem IKids.entries_set_none (ks : IKids β) (l : Nat) : (ks.set l none).entries.Sublist ks.entries := by
  match ks, l with
  | .nil, _ => simp [IKids.set]
  | .cons none r, 0 => simp [IKids.set, IKids.entries]
  | .cons (some t) r, 0 => simp [IKids.set, IKids.entries]
  | .cons none r, l+1 => simpa [IKids.set, IKids.entries] using IKids.entries_set_none r l
  | .cons (some t) r, l+1 =>
    simp only [IKids.set, IKids.entries]
    exact List.Sublist.append (List.Sublist.refl _) (IKids.entries_set_none r l)

/-- the entries of a child are a block of the entries of the slots -/
theorem IKids.entries_get (ks : IKids β) (l : Nat) (c : ITree β) (h : ks.get? l = some c) :
    c.entries.Sublist ks.entries := by
  match ks, l with
  | .nil, _ => simp [IKids.get?] at h
  | .cons k r, 0 =>
    simp only [IKids.get?] at h; subst h
    simp [IKids.entries]
  | .cons none r, l+1 =>
    simp only [IKids.get?] at h
    simpa [IKids.entries] using IKids.entries_get r l c h
  | .cons (some t) r, l+1 =>
    simp only [IKids.get?] at h
    simp only [IKids.entries]
    exact (IKids.entries_get r l c h).trans (List.sublist_append_right _ _)

/-! ### arena view -/

/-- the record the arena holds for the node at the root of `s`, given its parent -/
def ITree.record (s : ITree β) (p : Option Nat) : ANode β :=
  ⟨s.idx, p, s.kids.slotIdx, s.kids.allNone, s.val⟩

mutual
theorem ITree.toArenaAux_entries (t : ITree β) (p : Option Nat) :
    (t.toArenaAux p).map (fun nd => (nd.idx, nd.val)) = t.entries := by
  match t with
  | .node i v ks => simp [ITree.toArenaAux, ITree.entries, IKids.toArenaAux_entries ks i]
theorem IKids.toArenaAux_entries (ks : IKids β) (p : Nat) :
    (ks.toArenaAux p).map (fun nd => (nd.idx, nd.val)) = ks.entries := by
  match ks with
  | .nil => simp [IKids.toArenaAux, IKids.entries]
  | .cons none r => simp [IKids.toArenaAux, IKids.entries, IKids.toArenaAux_entries r p]
  | .cons (some t) r =>
    simp [IKids.toArenaAux, IKids.entries, IKids.toArenaAux_entries r p, ITree.toArenaAux_entries t (some p)]
end

theorem IKids.allNone_iff_slotIdx (ks : IKids β) : ks.allNone = ks.slotIdx.all Option.isNone := by
  match ks with
  | .nil => simp [IKids.allNone, IKids.slotIdx]
  | .cons none r => simp [IKids.allNone, IKids.slotIdx, IKids.allNone_iff_slotIdx r]
  | .cons (some t) r => simp [IKids.allNone, IKids.slotIdx]

mutual
theorem ITree.arena_leaf_flag (t : ITree β) (p : Option Nat) :
    ∀ nd ∈ t.toArenaAux p, nd.isleaf = nd.children.all Option.isNone := by
  match t with
  | .node i v ks =>
    intro nd hnd
    simp only [ITree.toArenaAux, List.mem_cons] at hnd
    rcases hnd with h | h
    · subst h; exact IKids.allNone_iff_slotIdx ks
    · exact IKids.arena_leaf_flag ks i nd h
theorem IKids.arena_leaf_flag (ks : IKids β) (p : Nat) :
    ∀ nd ∈ ks.toArenaAux p, nd.isleaf = nd.children.all Option.isNone := by
  match ks with
  | .nil => simp [IKids.toArenaAux]
  | .cons none r => simp only [IKids.toArenaAux]; exact IKids.arena_leaf_flag r p
  | .cons (some t) r =>
    intro nd hnd
    simp only [IKids.toArenaAux, List.mem_append] at hnd
    rcases hnd with h | h
    · exact ITree.arena_leaf_flag t (some p) nd h
    · exact IKids.arena_leaf_flag r p nd h
end

mutual
theorem ITree.arena_tail_parent (t : ITree β) (p : Option Nat) :
    ∀ nd ∈ (t.toArenaAux p).tail, nd.parent.isSome = true := by
  match t with
  | .node i v ks =>
    simp only [ITree.toArenaAux, List.tail_cons]
    exact IKids.arena_parent ks i
theorem IKids.arena_parent (ks : IKids β) (p : Nat) :
    ∀ nd ∈ ks.toArenaAux p, nd.parent.isSome = true := by
  match ks with
  | .nil => simp [IKids.toArenaAux]
  | .cons none r => simp only [IKids.toArenaAux]; exact IKids.arena_parent r p
  | .cons (some t) r =>
    intro nd hnd
    simp only [IKids.toArenaAux, List.mem_append] at hnd
    rcases hnd with h | h
    · match t, h with
      | .node j w gk, h =>
        simp only [ITree.toArenaAux, List.mem_cons] at h
        rcases h with h | h
        · subst h; rfl
        · exact IKids.arena_parent gk j nd h
    · exact IKids.arena_parent r p nd h
end

end AV

namespace AV
variable {β : Type}

/-! ### sub-trees with their parent: the relational reading of the arena -/

def IKids.members : IKids β → List (ITree β)
  | .nil => []
  | .cons none r => r.members
  | .cons (some t) r => t :: r.members

mutual
def ITree.subs : ITree β → Option Nat → List (ITree β × Option Nat)
  | .node i v ks, p => (.node i v ks, p) :: ks.subs i
def IKids.subs : IKids β → Nat → List (ITree β × Option Nat)
  | .nil, _ => []
  | .cons none r, p => r.subs p
  | .cons (some t) r, p => t.subs (some p) ++ r.subs p
end

theorem ITree.subs_head (t : ITree β) (p : Option Nat) : (t, p) ∈ t.subs p := by
  cases t with | node i v ks => simp [ITree.subs]

mutual
theorem ITree.toArenaAux_eq_subs (t : ITree β) (p : Option Nat) :
    t.toArenaAux p = (t.subs p).map (fun sq => sq.1.record sq.2) := by
  match t with
  | .node i v ks =>
    simp [ITree.toArenaAux, ITree.subs, ITree.record, ITree.idx, ITree.kids, ITree.val,
      IKids.toArenaAux_eq_subs ks i]
theorem IKids.toArenaAux_eq_subs (ks : IKids β) (p : Nat) :
    ks.toArenaAux p = (ks.subs p).map (fun sq => sq.1.record sq.2) := by
  match ks with
  | .nil => simp [IKids.toArenaAux, IKids.subs]
  | .cons none r => simp [IKids.toArenaAux, IKids.subs, IKids.toArenaAux_eq_subs r p]
  | .cons (some t) r =>
    simp [IKids.toArenaAux, IKids.subs, IKids.toArenaAux_eq_subs r p, ITree.toArenaAux_eq_subs t (some p)]
end

mutual
theorem ITree.subs_idx (t : ITree β) (p : Option Nat) : (t.subs p).map (fun sq => sq.1.idx) = t.indices := by
  match t with
  | .node i v ks => rw [ITree.subs, List.map_cons, IKids.subs_idx ks i]; rfl
theorem IKids.subs_idx (ks : IKids β) (p : Nat) : (ks.subs p).map (fun sq => sq.1.idx) = ks.indices := by
  match ks with
  | .nil => simp [IKids.subs, IKids.indices]
  | .cons none r => simp [IKids.subs, IKids.indices, IKids.subs_idx r p]
  | .cons (some t) r => simp [IKids.subs, IKids.indices, IKids.subs_idx r p, ITree.subs_idx t (some p)]
end

theorem IKids.mem_slotIdx (ks : IKids β) (j : Nat) : some j ∈ ks.slotIdx ↔ ∃ c ∈ ks.members, c.idx = j := by
  match ks with
  | .nil => simp [IKids.slotIdx, IKids.members]
  | .cons none r => simp [IKids.slotIdx, IKids.members, IKids.mem_slotIdx r j]
  | .cons (some t) r =>
    simp only [IKids.slotIdx, IKids.members, Option.map_some, List.mem_cons, Option.some.injEq,
      IKids.mem_slotIdx r j, exists_eq_or_imp]
    constructor
    · rintro (h | h)
      · exact Or.inl h.symm
      · exact Or.inr h
    · rintro (h | h)
      · exact Or.inl h.symm
      · exact Or.inr h

mutual
/-- downwards: the children of every listed sub-tree are listed, with that sub-tree's index as parent -/
theorem ITree.subs_down (t : ITree β) (p : Option Nat) :
    ∀ sq ∈ t.subs p, ∀ c ∈ sq.1.kids.members, (c, some sq.1.idx) ∈ t.subs p := by
  match t with
  | .node i v ks =>
    intro sq hsq c hc
    simp only [ITree.subs, List.mem_cons] at hsq ⊢
    rcases hsq with h | h
    · subst h
      exact Or.inr ((IKids.subs_down ks i).1 c hc)
    · exact Or.inr ((IKids.subs_down ks i).2 sq h c hc)
theorem IKids.subs_down (ks : IKids β) (p : Nat) :
    (∀ c ∈ ks.members, (c, some p) ∈ ks.subs p) ∧
    (∀ sq ∈ ks.subs p, ∀ c ∈ sq.1.kids.members, (c, some sq.1.idx) ∈ ks.subs p) := by
  match ks with
  | .nil => simp [IKids.members, IKids.subs]
  | .cons none r => simp only [IKids.members, IKids.subs]; exact IKids.subs_down r p
  | .cons (some t) r =>
    have hr := IKids.subs_down r p
    have ht := ITree.subs_down t (some p)
    constructor
    · intro c hc
      simp only [IKids.members, List.mem_cons] at hc
      simp only [IKids.subs, List.mem_append]
      rcases hc with h | h
      · subst h; exact Or.inl (ITree.subs_head _ _)
      · exact Or.inr (hr.1 c h)
    · intro sq hsq c hc
      simp only [IKids.subs, List.mem_append] at hsq ⊢
      rcases hsq with h | h
      · exact Or.inl (ht sq h c hc)
      · exact Or.inr (hr.2 sq h c hc)
end

mutual
/-- upwards: every listed sub-tree other than the top one is a child of a listed sub-tree, whose index is its
    recorded parent -/
theorem ITree.subs_up (t : ITree β) (p : Option Nat) :
    ∀ sq ∈ t.subs p, sq = (t, p) ∨ ∃ sq' ∈ t.subs p, sq.2 = some sq'.1.idx ∧ sq.1 ∈ sq'.1.kids.members := by
  match t with
  | .node i v ks =>
    intro sq hsq
    simp only [ITree.subs, List.mem_cons] at hsq
    rcases hsq with h | h
    · exact Or.inl h
    · right
      rcases IKids.subs_up ks i sq h with ⟨h1, h2⟩ | ⟨sq', h1, h2, h3⟩
      · exact ⟨(.node i v ks, p), ITree.subs_head _ _, by simpa [ITree.idx] using h1, by simpa [ITree.kids] using h2⟩
      · exact ⟨sq', by simp only [ITree.subs, List.mem_cons]; exact Or.inr h1, h2, h3⟩
theorem IKids.subs_up (ks : IKids β) (p : Nat) :
    ∀ sq ∈ ks.subs p, (sq.2 = some p ∧ sq.1 ∈ ks.members) ∨
      ∃ sq' ∈ ks.subs p, sq.2 = some sq'.1.idx ∧ sq.1 ∈ sq'.1.kids.members := by
  match ks with
  | .nil => simp [IKids.subs]
  | .cons none r => simp only [IKids.members, IKids.subs]; exact IKids.subs_up r p
  | .cons (some t) r =>
    intro sq hsq
    simp only [IKids.subs, List.mem_append] at hsq
    rcases hsq with h | h
    · rcases ITree.subs_up t (some p) sq h with h1 | ⟨sq', h1, h2, h3⟩
      · left; subst h1; simp [IKids.members]
      · right; exact ⟨sq', by simp only [IKids.subs, List.mem_append]; exact Or.inl h1, h2, h3⟩
    · rcases IKids.subs_up r p sq h with ⟨h1, h2⟩ | ⟨sq', h1, h2, h3⟩
      · left; exact ⟨h1, by simp only [IKids.members, List.mem_cons]; exact Or.inr h2⟩
      · right; exact ⟨sq', by simp only [IKids.subs, List.mem_append]; exact Or.inr h1, h2, h3⟩
end

/-- distinct indices: a listed sub-tree is determined by its index -/
theorem ITree.subs_inj (t : ITree β) (p : Option Nat) (hnd : t.indices.Nodup) :
    ∀ a ∈ t.subs p, ∀ b ∈ t.subs p, a.1.idx = b.1.idx → a = b := by
  rw [← ITree.subs_idx t p] at hnd
  exact List.inj_on_of_nodup_map hnd

/-- parent and child links mirror each other (on the relational reading) -/
theorem ITree.subs_mirror (t : ITree β) (hnd : t.indices.Nodup) :
    ∀ a ∈ t.subs none, ∀ b ∈ t.subs none, (b.2 = some a.1.idx ↔ some b.1.idx ∈ a.1.kids.slotIdx) := by
  intro a ha b hb
  rw [IKids.mem_slotIdx]
  constructor
  · intro h
    rcases ITree.subs_up t none b hb with h1 | ⟨sq', h1, h2, h3⟩
    · rw [h1] at h; simp at h
    · have : sq'.1.idx = a.1.idx := by rw [h2] at h; exact Option.some.inj h
      have := ITree.subs_inj t none hnd sq' h1 a ha this
      subst this
      exact ⟨b.1, h3, rfl⟩
  · rintro ⟨c, hc, hci⟩
    have hd := ITree.subs_down t none a ha c hc
    have := ITree.subs_inj t none hnd (c, some a.1.idx) hd b hb hci
    rw [← this]

end AV

namespace AV
variable {β : Type}

/-! ### look-ups by index in a tree with distinct indices -/

theorem ITree.subs_idx_mem (t : ITree β) (p : Option Nat) (sq : ITree β × Option Nat) (h : sq ∈ t.subs p) :
    sq.1.idx ∈ t.indices := by
  rw [← ITree.subs_idx t p]
  exact List.mem_map.mpr ⟨sq, h, rfl⟩

theorem IKids.subs_idx_mem (ks : IKids β) (p : Nat) (sq : ITree β × Option Nat) (h : sq ∈ ks.subs p) :
    sq.1.idx ∈ ks.indices := by
  rw [← IKids.subs_idx ks p]
  exact List.mem_map.mpr ⟨sq, h, rfl⟩

mutual
/-- `find?` returns the listed sub-tree with that index -/
theorem ITree.find?_of_sub (t : ITree β) (p : Option Nat) (hnd : t.indices.Nodup) :
    ∀ sq ∈ t.subs p, t.find? sq.1.idx = some sq.1 := by
  match t with
  | .node j v ks =>
    intro sq hsq
    simp only [ITree.subs, List.mem_cons] at hsq
    simp only [ITree.indices, List.nodup_cons] at hnd
    rcases hsq with h | h
    · subst h; simp [ITree.find?, ITree.idx]
    · have hmem := IKids.subs_idx_mem ks j sq h
      have hne : j ≠ sq.1.idx := fun e => hnd.1 (e ▸ hmem)
      simp only [ITree.find?, if_neg hne]
      exact IKids.find?_of_sub ks j hnd.2 sq h
theorem IKids.find?_of_sub (ks : IKids β) (p : Nat) (hnd : ks.indices.Nodup) :
    ∀ sq ∈ ks.subs p, ks.find? sq.1.idx = some sq.1 := by
  match ks with
  | .nil => simp [IKids.subs]
  | .cons none r =>
    simp only [IKids.subs, IKids.find?, IKids.indices] at hnd ⊢
    exact IKids.find?_of_sub r p hnd
  | .cons (some t) r =>
    intro sq hsq
    simp only [IKids.subs, List.mem_append] at hsq
    simp only [IKids.indices] at hnd
    have hnd' := List.nodup_append.mp hnd
    simp only [IKids.find?]
    rcases hsq with h | h
    · rw [ITree.find?_of_sub t (some p) hnd'.1 sq h]
    · have hr := IKids.subs_idx_mem r p sq h
      have hnt : sq.1.idx ∉ t.indices := fun hm => hnd'.2.2 _ hm _ hr rfl
      rw [(ITree.find?_none t sq.1.idx).mpr hnt]
      exact IKids.find?_of_sub r p hnd'.2.1 sq h
end

mutual
theorem ITree.parentOf?_none (t : ITree β) (i : Nat) (h : i ∉ t.kids.indices) : t.parentOf? i = none := by
  match t with
  | .node j v ks => simp only [ITree.parentOf?]; exact IKids.parentOf?_none ks j 0 i (by simpa [ITree.kids] using h)
theorem IKids.parentOf?_none (ks : IKids β) (p l i : Nat) (h : i ∉ ks.indices) : ks.parentOf? p l i = none := by
  match ks with
  | .nil => simp [IKids.parentOf?]
  | .cons none r => simp only [IKids.parentOf?, IKids.indices] at h ⊢; exact IKids.parentOf?_none r p (l+1) i h
  | .cons (some t) r =>
    simp only [IKids.indices, List.mem_append, not_or] at h
    simp only [IKids.parentOf?]
    have hti : t.idx ≠ i := fun e => h.1 (e ▸ ITree.idx_mem_indices t)
    rw [if_neg hti]
    have hk : i ∉ t.kids.indices := by
      cases t with
      | node j v gk => simp only [ITree.indices, List.mem_cons, not_or] at h; simpa [ITree.kids] using h.1.2
    rw [ITree.parentOf?_none t i hk]
    exact IKids.parentOf?_none r p (l+1) i h.2
end

theorem ITree.kids_indices_sub (t : ITree β) : ∀ i ∈ t.kids.indices, i ∈ t.indices := by
  cases t with
  | node j v ks => intro i hi; simp [ITree.indices, ITree.kids] at hi ⊢; exact Or.inr hi

/-- the root has no parent -/
theorem ITree.parentOf?_root (t : ITree β) (hnd : t.indices.Nodup) : t.parentOf? t.idx = none := by
  cases t with
  | node j v ks =>
    simp only [ITree.indices, List.nodup_cons] at hnd
    exact ITree.parentOf?_none _ j (by simpa [ITree.kids] using hnd.1)

theorem IKids.get?_mem_members (ks : IKids β) (l : Nat) (c : ITree β) (h : ks.get? l = some c) : c ∈ ks.members := by
  match ks, l with
  | .nil, _ => simp [IKids.get?] at h
  | .cons none r, 0 => simp [IKids.get?] at h
  | .cons (some t) r, 0 => simp only [IKids.get?, Option.some.injEq] at h; subst h; simp [IKids.members]
  | .cons none r, l+1 => simp only [IKids.get?] at h; simp only [IKids.members]; exact IKids.get?_mem_members r l c h
  | .cons (some t) r, l+1 =>
    simp only [IKids.get?] at h; simp only [IKids.members, List.mem_cons]; exact Or.inr (IKids.get?_mem_members r l c h)

theorem IKids.members_idx_mem (ks : IKids β) (c : ITree β) (h : c ∈ ks.members) : c.idx ∈ ks.indices := by
  match ks with
  | .nil => simp [IKids.members] at h
  | .cons none r => simp only [IKids.members] at h; simp only [IKids.indices]; exact IKids.members_idx_mem r c h
  | .cons (some t) r =>
    simp only [IKids.members, List.mem_cons] at h
    simp only [IKids.indices, List.mem_append]
    rcases h with rfl | h
    · exact Or.inl (ITree.idx_mem_indices _)
    · exact Or.inr (IKids.members_idx_mem r c h)

/-- a direct child at slot `k` is found with parent `p` and label `l0 + k` -/
theorem IKids.parentOf?_direct (ks : IKids β) (p l0 k : Nat) (c : ITree β) (hnd : ks.indices.Nodup)
    (h : ks.get? k = some c) : ks.parentOf? p l0 c.idx = some (p, l0 + k) := by
  match ks, k with
  | .nil, _ => simp [IKids.get?] at h
  | .cons none r, 0 => simp [IKids.get?] at h
  | .cons (some t) r, 0 =>
    simp only [IKids.get?, Option.some.injEq] at h; subst h
    simp [IKids.parentOf?]
  | .cons none r, k+1 =>
    simp only [IKids.get?] at h
    simp only [IKids.indices] at hnd
    simp only [IKids.parentOf?]
    rw [IKids.parentOf?_direct r p (l0+1) k c hnd h]; congr 2; omega
  | .cons (some t) r, k+1 =>
    simp only [IKids.get?] at h
    simp only [IKids.indices] at hnd
    have hnd' := List.nodup_append.mp hnd
    have hcr : c.idx ∈ r.indices := IKids.members_idx_mem r c (IKids.get?_mem_members r k c h)
    have hct : c.idx ∉ t.indices := fun hm => hnd'.2.2 _ hm _ hcr rfl
    simp only [IKids.parentOf?]
    have hne : t.idx ≠ c.idx := fun e => hct (by rw [← e]; exact ITree.idx_mem_indices t)
    rw [if_neg hne, ITree.parentOf?_none t c.idx (fun hm => hct (ITree.kids_indices_sub t _ hm))]
    simp only
    rw [IKids.parentOf?_direct r p (l0+1) k c hnd'.2.1 h]; congr 2; omega

mutual
/-- the child in slot `l` of a listed sub-tree `s` is found with parent `s` and label `l` -/
theorem ITree.parentOf?_of_child (t : ITree β) (q0 : Option Nat) (hnd : t.indices.Nodup) :
    ∀ sq ∈ t.subs q0, ∀ l c, sq.1.kids.get? l = some c → t.parentOf? c.idx = some (sq.1.idx, l) := by
  match t with
  | .node j v ks =>
    intro sq hsq l c hc
    simp only [ITree.subs, List.mem_cons] at hsq
    simp only [ITree.indices, List.nodup_cons] at hnd
    simp only [ITree.parentOf?]
    rcases hsq with h | h
    · subst h
      simp only [ITree.kids] at hc
      have := IKids.parentOf?_direct ks j 0 l c hnd.2 hc
      simp only [Nat.zero_add] at this
      exact this
    · exact IKids.parentOf?_of_child ks j 0 hnd.2 sq h l c hc
theorem IKids.parentOf?_of_child (ks : IKids β) (p l0 : Nat) (hnd : ks.indices.Nodup) :
    ∀ sq ∈ ks.subs p, ∀ l c, sq.1.kids.get? l = some c → ks.parentOf? p l0 c.idx = some (sq.1.idx, l) := by
  match ks with
  | .nil => simp [IKids.subs]
  | .cons none r =>
    simp only [IKids.subs, IKids.parentOf?, IKids.indices] at hnd ⊢
    exact IKids.parentOf?_of_child r p (l0+1) hnd
  | .cons (some t) r =>
    intro sq hsq l c hc
    simp only [IKids.subs, List.mem_append] at hsq
    simp only [IKids.indices] at hnd
    have hnd' := List.nodup_append.mp hnd
    simp only [IKids.parentOf?]
    -- the child's index lies inside the sub-tree `sq.1`
    have hcs : c.idx ∈ sq.1.kids.indices := IKids.members_idx_mem _ c (IKids.get?_mem_members _ l c hc)
    rcases hsq with h | h
    · -- inside t
      have hsub : ∀ i ∈ sq.1.indices, i ∈ t.indices := by
        intro i hi
        have hd := ITree.subs_indices_sub t (some p) sq h
        exact hd i hi
      have hct : c.idx ∈ t.indices := hsub _ (ITree.kids_indices_sub sq.1 _ hcs)
      have hne : t.idx ≠ c.idx := by
        -- c is a proper descendant: its index differs from t's root index
        intro e
        have hpar := ITree.parentOf?_of_child t (some p) hnd'.1 sq h l c hc
        cases t with
        | node j v gk =>
          simp only [ITree.indices, List.nodup_cons] at hnd'
          have : c.idx ∈ gk.indices := by
            by_contra hn
            rw [ITree.parentOf?_none _ c.idx (by simpa [ITree.kids] using hn)] at hpar
            cases hpar
          simp only [ITree.idx] at e
          exact hnd'.1.1 (e ▸ this)
      rw [if_neg hne, ITree.parentOf?_of_child t (some p) hnd'.1 sq h l c hc]
    · have hsub : ∀ i ∈ sq.1.indices, i ∈ r.indices := IKids.subs_indices_sub r p sq h
      have hcr : c.idx ∈ r.indices := hsub _ (ITree.kids_indices_sub sq.1 _ hcs)
      have hct : c.idx ∉ t.indices := fun hm => hnd'.2.2 _ hm _ hcr rfl
      have hne : t.idx ≠ c.idx := fun e => hct (by rw [← e]; exact ITree.idx_mem_indices t)
      rw [if_neg hne, ITree.parentOf?_none t c.idx (fun hm => hct (ITree.kids_indices_sub t _ hm))]
      exact IKids.parentOf?_of_child r p (l0+1) hnd'.2.1 sq h l c hc
theorem ITree.subs_indices_sub (t : ITree β) (q0 : Option Nat) :
    ∀ sq ∈ t.subs q0, ∀ i ∈ sq.1.indices, i ∈ t.indices := by
  match t with
  | .node j v ks =>
    intro sq hsq i hi
    simp only [ITree.subs, List.mem_cons] at hsq
    rcases hsq with h | h
    · subst h; exact hi
    · simp only [ITree.indices, List.mem_cons]
      exact Or.inr (IKids.subs_indices_sub ks j sq h i hi)
theorem IKids.subs_indices_sub (ks : IKids β) (p : Nat) :
    ∀ sq ∈ ks.subs p, ∀ i ∈ sq.1.indices, i ∈ ks.indices := by
  match ks with
  | .nil => simp [IKids.subs]
  | .cons none r => simp only [IKids.subs, IKids.indices]; exact IKids.subs_indices_sub r p
  | .cons (some t) r =>
    intro sq hsq i hi
    simp only [IKids.subs, List.mem_append] at hsq
    simp only [IKids.indices, List.mem_append]
    rcases hsq with h | h
    · exact Or.inl (ITree.subs_indices_sub t (some p) sq h i hi)
    · exact Or.inr (IKids.subs_indices_sub r p sq h i hi)
end

end AV
