import AffVerif.Proofs.ElimObs
import AffVerif.Proofs.ElimShape
import AffVerif.Proofs.PruneShapeP
import Mathlib.Data.List.Perm.Subperm
/-!
The terminals of the swept tree: `infeasible_elimination` never creates a terminal — the terminals of the result
(index and map) are a sub-list of the terminals of the original tree, in the same order (a decision never loses
its last child, so it never turns into a terminal).  For every oracle behaviour, any branching factor.
-/
set_option linter.unusedSectionVars false
set_option linter.unusedVariables false
set_option linter.unusedSimpArgs false
namespace AV
variable {α : Type} [Field α] [LinearOrder α] [IsStrictOrderedRing α]

theorem PKids.terminals_set_none (ks : PKids α) (l : Nat) :
    (PKids.terminals (ks.set l none)).Sublist (PKids.terminals ks) := by
  match ks, l with
  | .nil, _ => simp [IKids.set]
  | .cons none r, 0 => simp [IKids.set, PKids.terminals]
  | .cons (some t) r, 0 => simp [IKids.set, PKids.terminals]
  | .cons none r, l+1 => simp only [IKids.set, PKids.terminals]; exact PKids.terminals_set_none r l
  | .cons (some t) r, l+1 =>
    simp only [IKids.set, PKids.terminals]
    exact List.Sublist.append (List.Sublist.refl _) (PKids.terminals_set_none r l)

theorem PKids.terminals_get (ks : PKids α) (l : Nat) (ch : PT α) (h : ks.get? l = some ch) :
    (PT.terminals ch).Sublist (PKids.terminals ks) := by
  match ks, l with
  | .nil, _ => simp [IKids.get?] at h
  | .cons none r, 0 => simp [IKids.get?] at h
  | .cons (some t) r, 0 =>
    simp only [IKids.get?, Option.some.injEq] at h
    subst h
    simp only [PKids.terminals]
    exact List.sublist_append_left _ _
  | .cons none r, l+1 =>
    simp only [IKids.get?] at h
    simp only [PKids.terminals]
    exact PKids.terminals_get r l ch h
  | .cons (some t) r, l+1 =>
    simp only [IKids.get?] at h
    simp only [PKids.terminals]
    exact (PKids.terminals_get r l ch h).trans (List.sublist_append_right _ _)

/-- deferred removal: a sub-list of the terminals, and a decision stays a decision -/
theorem removeLabels_terminals (ks : PKids α) (ls : List Nat) :
    (PKids.terminals (removeLabels ks ls)).Sublist (PKids.terminals ks) ∧
    (removeLabels ks ls).allNone = ks.allNone := by
  induction ls generalizing ks with
  | nil => simp [removeLabels]
  | cons l ls ih =>
    simp only [removeLabels]
    split
    · rename_i hc
      obtain ⟨i1, i2⟩ := ih (ks.set l none)
      have h1 := IKids.count_set_none ks l
      refine ⟨i1.trans (PKids.terminals_set_none ks l), ?_⟩
      rw [i2, allNone_false_of_count ks (by omega), allNone_false_of_count (ks.set l none) (by omega)]
    · exact ih ks

/-- the tail of `elimNode` on a decision: sub-list of the children's terminals -/
theorem finishNode_terminals (i : Nat) (c' : Content α) (kids : PKids α) (newInf : List Nat) (lastFresh isRoot : Bool)
    (h : kids.allNone = false) :
    (PT.terminals (finishNode i c' kids newInf lastFresh isRoot)).Sublist (PKids.terminals kids) := by
  unfold finishNode
  cases hfl : (if lastFresh then forwardLabel? kids else none) with
  | none =>
    simp only
    obtain ⟨r1, r2⟩ := removeLabels_terminals kids newInf
    unfold PT.terminals
    rw [r2, h]
    simpa using r1
  | some l =>
    have hl : forwardLabel? kids = some l := by
      by_cases hf : lastFresh = true
      · simpa [hf] using hfl
      · simp [hf] at hfl
    obtain ⟨a, b, hks, hcase⟩ := forwardLabel_spec _ l hl
    subst hks
    simp only
    cases isRoot with
    | true =>
      simp only [if_true]
      rcases hcase with ⟨rfl, _, _⟩ | ⟨rfl, _, _⟩
      · simp [IKids.set, PT.terminals, IKids.allNone, PKids.terminals]
      · simp [IKids.set, PT.terminals, IKids.allNone, PKids.terminals]
    | false =>
      simp only [Bool.false_eq_true, if_false]
      rcases hcase with ⟨rfl, _, _⟩ | ⟨rfl, _, _⟩
      · simp [IKids.get?, PKids.terminals]
      · simp [IKids.get?, PKids.terminals]

/-- the tail of `elimNode` on a terminal: the terminal itself -/
theorem finishNode_terminals_leaf (i : Nat) (c' : Content α) (kids : PKids α) (newInf : List Nat)
    (lastFresh isRoot : Bool) (h : kids.allNone = true) :
    PT.terminals (finishNode i c' kids newInf lastFresh isRoot) = [(i, c'.aff)] := by
  have hnone : forwardLabel? kids = none := by
    cases hf : forwardLabel? kids with
    | none => rfl
    | some l =>
      obtain ⟨a, b, hks, _⟩ := forwardLabel_spec _ l hf
      subst hks
      simp [IKids.allNone] at h
  unfold finishNode
  simp only [hnone, ite_self]
  unfold PT.terminals
  rw [(removeLabels_terminals kids newInf).2, h]
  simp

theorem PT.terminals_restate (ch : PT α) (st : NState α) :
    PT.terminals (.node ch.idx ⟨ch.val.aff, st⟩ ch.kids) = PT.terminals ch := by
  cases ch with
  | node j cc kk => simp only [ITree.idx, ITree.val, ITree.kids]; unfold PT.terminals; rfl

mutual
theorem PT.terminals_elimNode {σ : Type} (tol : α) (O : Oracles σ α) (n : Nat) (isRoot : Bool) (path : List (Aff α))
    (st : NState α) (t : PT α) (s : σ) :
    (PT.terminals (elimNode tol O n isRoot path st t s).1).Sublist (PT.terminals t) := by
  match t with
  | .node i c ks =>
    rw [elimNode_eq]
    simp only
    obtain ⟨hs, hc⟩ := PKids.terminals_elimKids tol O n path c.aff st ks 0 s
    have ha := allNone_eq_of_count_eq _ _ hc
    generalize elimKids tol O n path c.aff st ks 0 s = r at hs hc ha
    cases hall : ks.allNone with
    | true =>
      rw [finishNode_terminals_leaf _ _ _ _ _ _ (by rw [ha, hall])]
      simp [PT.terminals, hall]
    | false =>
      have := finishNode_terminals i ⟨c.aff, st⟩ r.kids r.newInf r.lastFresh isRoot (by rw [ha, hall])
      refine this.trans ?_
      simpa [PT.terminals, hall] using hs
theorem PKids.terminals_elimKids {σ : Type} (tol : α) (O : Oracles σ α) (n : Nat) (path : List (Aff α))
    (paff : Aff α) (pst : NState α) (ks : PKids α) (l : Nat) (s : σ) :
    (PKids.terminals (elimKids tol O n path paff pst ks l s).kids).Sublist (PKids.terminals ks) ∧
    (elimKids tol O n path paff pst ks l s).kids.count = ks.count := by
  match ks with
  | .nil => rw [elimKids_nil]; simp [PKids.terminals, IKids.count]
  | .cons none r =>
    rw [elimKids_cons_none]
    obtain ⟨h1, h2⟩ := PKids.terminals_elimKids tol O n path paff pst r (l+1) s
    simpa [PKids.terminals, IKids.count] using ⟨h1, h2⟩
  | .cons (some ch) r =>
    rw [elimKids_cons_some]
    simp only
    have hch : (PT.terminals (elimChild tol O n path paff pst ch l s).1).Sublist (PT.terminals ch) := by
      unfold elimChild
      cases hst : ch.val.state with
      | infeasible => simp
      | indeterminate =>
        simp only
        split
        · simp only [PT.terminals_restate]; exact List.Sublist.refl _
        · exact PT.terminals_elimNode tol O n false _ _ ch _
      | feasible => exact PT.terminals_elimNode tol O n false _ _ ch _
      | witness ws => exact PT.terminals_elimNode tol O n false _ _ ch _
    obtain ⟨h1, h2⟩ := PKids.terminals_elimKids tol O n path paff pst r (l+1)
      (elimChild tol O n path paff pst ch l s).2.1
    simp only [PKids.terminals, IKids.count]
    exact ⟨List.Sublist.append hch h1, by omega⟩
end

/-- `infeasible_elimination` creates no terminal: the terminals of the result are a sub-list of the original's -/
theorem PT.terminals_infeasibleElimination {σ : Type} (tol : α) (O : Oracles σ α) (n : Nat) (t : PT α) (s : σ) :
    (PT.terminals (infeasibleElimination tol O n t s).1).Sublist (PT.terminals t) :=
  PT.terminals_elimNode tol O n true [] t.val.state t s

end AV
