import AffVerif.Proofs.ComposeLaw
/-! Lifting of coefficient-wise operators to trees (C07). -/
set_option linter.unusedSectionVars false
set_option linter.unusedVariables false
namespace AV
variable {α : Type} [Field α] [LinearOrder α] [IsStrictOrderedRing α]

mutual
/-- evaluation is "apply the terminal reached" -/
theorem PT.eval_eq_leafAt (t : PT α) (x : List α) : PT.eval t x = (PT.leafAt t x).map (fun u => u.apply x) := by
  match t with
  | .node i c ks =>
    simp only [PT.eval, PT.leafAt]
    split
    · rfl
    · exact PKids.evalAt_eq_leafAtK ks _ x
theorem PKids.evalAt_eq_leafAtK (ks : PKids α) (l : Nat) (x : List α) :
    PKids.evalAt ks l x = (PKids.leafAtK ks l x).map (fun u => u.apply x) := by
  match ks, l with
  | .nil, _ => simp [PKids.evalAt, PKids.leafAtK]
  | .cons none r, 0 => simp [PKids.evalAt, PKids.leafAtK]
  | .cons (some k) r, 0 => simp only [PKids.evalAt, PKids.leafAtK]; exact PT.eval_eq_leafAt k x
  | .cons none r, l+1 => simp only [PKids.evalAt, PKids.leafAtK]; exact PKids.evalAt_eq_leafAtK r l x
  | .cons (some k) r, l+1 => simp only [PKids.evalAt, PKids.leafAtK]; exact PKids.evalAt_eq_leafAtK r l x
end

mutual
/-- copy of `b` under a terminal `u` with an arithmetic schema: decisions untouched, terminals `op u v` -/
theorem PT.leafAt_graft_arith (op : Aff α → Aff α → Aff α) (b : PT α) (u : Aff α) (c : Nat) (x : List α) :
    PT.leafAt (PT.graft (Schema.arith op) b u c).1 x = (PT.leafAt b x).map (fun v => op u v) := by
  match b with
  | .node i bc ks =>
    simp only [PT.graft, PT.leafAt, PKids.graft_allNone, Content.new, Schema.upd, Schema.arith]
    cases hl : ks.allNone with
    | true => simp
    | false =>
      simp only [Bool.false_eq_true, if_false]
      exact PKids.leafAtK_graft_arith op ks u (c+1) _ x
theorem PKids.leafAtK_graft_arith (op : Aff α → Aff α → Aff α) (ks : PKids α) (u : Aff α) (c : Nat) (l : Nat)
    (x : List α) :
    PKids.leafAtK (PKids.graft (Schema.arith op) ks u c).1 l x = (PKids.leafAtK ks l x).map (fun v => op u v) := by
  match ks, l with
  | .nil, _ => simp [PKids.graft, PKids.leafAtK]
  | .cons none r, 0 => simp [PKids.graft, PKids.leafAtK]
  | .cons (some k) r, 0 =>
    simp only [PKids.graft, PKids.leafAtK]; exact PT.leafAt_graft_arith op k u c x
  | .cons none r, l+1 =>
    simp only [PKids.graft, PKids.leafAtK]; exact PKids.leafAtK_graft_arith op r u c l x
  | .cons (some k) r, l+1 =>
    simp only [PKids.graft, PKids.leafAtK]; exact PKids.leafAtK_graft_arith op r u _ l x
end

mutual
/-- the lifted operator reaches the terminal `op u v` where `u`, `v` are the terminals reached in the operands -/
theorem PT.leafAt_composeS_arith (op : Aff α → Aff α → Aff α) (a b : PT α) (c : Nat) (x : List α) :
    PT.leafAt (PT.composeS (Schema.arith op) a b c).1 x =
      (PT.leafAt a x).bind (fun u => (PT.leafAt b x).map (fun v => op u v)) := by
  match a with
  | .node i ac ks =>
    cases hl : ks.allNone with
    | true =>
      match b with
      | .node j bc bk =>
        simp only [PT.composeS, hl, if_true, PT.leafAt, PKids.graft_allNone, Option.bind_some,
          Schema.upd, Schema.arith]
        cases hb : bk.allNone with
        | true => simp
        | false =>
          simp only [Bool.false_eq_true, if_false]
          exact PKids.leafAtK_graft_arith op bk ac.aff c _ x
    | false =>
      simp only [PT.composeS, hl, PT.leafAt, PKids.composeS_allNone, Bool.false_eq_true, if_false]
      exact PKids.leafAtK_composeS_arith op ks b c _ x
theorem PKids.leafAtK_composeS_arith (op : Aff α → Aff α → Aff α) (ks : PKids α) (b : PT α) (c : Nat) (l : Nat)
    (x : List α) :
    PKids.leafAtK (PKids.composeS (Schema.arith op) ks b c).1 l x =
      (PKids.leafAtK ks l x).bind (fun u => (PT.leafAt b x).map (fun v => op u v)) := by
  match ks, l with
  | .nil, _ => simp [PKids.composeS, PKids.leafAtK]
  | .cons none r, 0 => simp [PKids.composeS, PKids.leafAtK]
  | .cons (some k) r, 0 =>
    simp only [PKids.composeS, PKids.leafAtK]; exact PT.leafAt_composeS_arith op k b c x
  | .cons none r, l+1 =>
    simp only [PKids.composeS, PKids.leafAtK]; exact PKids.leafAtK_composeS_arith op r b c l x
  | .cons (some k) r, l+1 =>
    simp only [PKids.composeS, PKids.leafAtK]; exact PKids.leafAtK_composeS_arith op r b _ l x
end

end AV

namespace AV
variable {α : Type} [Field α] [LinearOrder α] [IsStrictOrderedRing α]

theorem vadd_vadd_comm (p q r s : List α) :
    vadd (vadd p q) (vadd r s) = vadd (vadd p r) (vadd q s) := by
  induction p generalizing q r s with
  | nil => simp
  | cons a as ih =>
    cases q with
    | nil => cases r <;> simp
    | cons b bs =>
      cases r with
      | nil => simp
      | cons c cs =>
        cases s with
        | nil => simp
        | cons d ds =>
          simp only [vadd_cons]
          rw [ih bs cs ds]
          congr 1
          ring

theorem vsub_vsub_comm (p q r s : List α) :
    vadd (vsub p q) (vsub r s) = vsub (vadd p r) (vadd q s) := by
  induction p generalizing q r s with
  | nil => simp
  | cons a as ih =>
    cases q with
    | nil => cases r <;> simp
    | cons b bs =>
      cases r with
      | nil => simp
      | cons c cs =>
        cases s with
        | nil => simp
        | cons d ds =>
          simp only [vadd_cons, vsub_cons]
          rw [ih bs cs ds]
          congr 1
          ring

theorem dot_vsub_left (x y z : List α) (h : x.length = y.length) :
    dot (vsub x y) z = dot x z - dot y z := by
  induction x generalizing y z with
  | nil => cases y <;> simp_all
  | cons a as ih =>
    cases y with
    | nil => simp at h
    | cons b bs =>
      cases z with
      | nil => simp
      | cons c cs =>
        simp only [vsub_cons, dot_cons]
        rw [ih bs cs (by simpa using h)]; ring

/-- same row shapes: row `i` of `A` is as long as row `i` of `B` -/
def SameRows : Mat α → Mat α → Prop
  | a :: as, b :: bs => a.length = b.length ∧ SameRows as bs
  | [], [] => True
  | _, _ => False

theorem matVec_matZip_vadd (A B : Mat α) (x : List α) (h : SameRows A B) :
    matVec (matZip vadd A B) x = vadd (matVec A x) (matVec B x) := by
  induction A generalizing B with
  | nil => cases B <;> simp_all [SameRows, matZip, matVec]
  | cons a as ih =>
    cases B with
    | nil => simp [SameRows] at h
    | cons b bs =>
      simp only [SameRows] at h
      simp only [matZip, matVec, List.map_cons, vadd_cons]
      rw [dot_vadd_left a b x h.1]
      have := ih bs h.2
      simp only [matVec] at this
      rw [this]

theorem matVec_matZip_vsub (A B : Mat α) (x : List α) (h : SameRows A B) :
    matVec (matZip vsub A B) x = vsub (matVec A x) (matVec B x) := by
  induction A generalizing B with
  | nil => cases B <;> simp_all [SameRows, matZip, matVec]
  | cons a as ih =>
    cases B with
    | nil => simp [SameRows] at h
    | cons b bs =>
      simp only [SameRows] at h
      simp only [matZip, matVec, List.map_cons, vsub_cons]
      rw [dot_vsub_left a b x h.1]
      have := ih bs h.2
      simp only [matVec] at this
      rw [this]

/-- `f + g` is the point-wise sum -/
theorem Aff.apply_add (f g : Aff α) (x : List α) (h : SameRows f.mat g.mat) :
    (f.add g).apply x = vadd (f.apply x) (g.apply x) := by
  unfold Aff.add Aff.apply
  simp only
  rw [matVec_matZip_vadd f.mat g.mat x h, vadd_vadd_comm]

/-- `f − g` is the point-wise difference -/
theorem Aff.apply_sub (f g : Aff α) (x : List α) (h : SameRows f.mat g.mat) :
    (f.sub g).apply x = vsub (f.apply x) (g.apply x) := by
  unfold Aff.sub Aff.apply
  simp only
  rw [matVec_matZip_vsub f.mat g.mat x h, vsub_vsub_comm]

theorem matVec_matNeg (A : Mat α) (x : List α) : matVec (matNeg A) x = vneg (matVec A x) := by
  induction A with
  | nil => simp [matVec, matNeg, vneg]
  | cons a as ih =>
    simp only [matVec, matNeg, vneg, List.map_cons] at ih ⊢
    rw [ih]
    congr 1
    have := dot_vneg_left a x
    simpa [vneg] using this

theorem vneg_vadd (p q : List α) : vneg (vadd p q) = vadd (vneg p) (vneg q) := by
  induction p generalizing q with
  | nil => simp [vneg]
  | cons a as ih =>
    cases q with
    | nil => simp [vneg]
    | cons b bs =>
      have := ih bs
      simp only [vneg, vadd_cons, List.map_cons] at this ⊢
      rw [this]; congr 1; ring

/-- `−f` is the point-wise negation -/
theorem Aff.apply_neg (f : Aff α) (x : List α) : f.neg.apply x = vneg (f.apply x) := by
  unfold Aff.neg Aff.apply
  simp only
  rw [matVec_matNeg, vneg_vadd]

end AV
