import AffVerif.Proofs.ElimShape
/-!
The infeasible clause of the cache invariant (C05): a node marked `Infeasible` has an empty closed path polytope.
It is preserved by composition, by maps on terminals and by `infeasible_elimination` (for every backend that is
right about infeasibility) — including `forward_if_redundant`, which shortens paths.
-/
set_option linter.unusedSectionVars false
set_option linter.unusedVariables false
namespace AV
variable {α : Type} [Field α] [LinearOrder α] [IsStrictOrderedRing α]

mutual
/-- all cached states are `Indeterminate` (fresh nodes) -/
def PT.Fresh : PT α → Prop
  | .node _ c ks => c.state = .indeterminate ∧ PKids.Fresh ks
def PKids.Fresh : PKids α → Prop
  | .nil => True
  | .cons none r => PKids.Fresh r
  | .cons (some t) r => PT.Fresh t ∧ PKids.Fresh r
end

mutual
theorem PT.infSound_of_fresh (t : PT α) (path : List (Aff α)) (h : PT.Fresh t) : PT.InfSound path t := by
  match t with
  | .node i c ks =>
    unfold PT.Fresh at h
    unfold PT.InfSound
    exact ⟨fun hc => by rw [h.1] at hc; simp at hc, PKids.infSound_of_fresh ks path c.aff 0 h.2⟩
theorem PKids.infSound_of_fresh (ks : PKids α) (path : List (Aff α)) (a : Aff α) (l : Nat) (h : PKids.Fresh ks) :
    PKids.InfSound path a l ks := by
  match ks with
  | .nil => simp [PKids.InfSound]
  | .cons none r => simp only [PKids.InfSound]; unfold PKids.Fresh at h; exact PKids.infSound_of_fresh r path a (l+1) h
  | .cons (some t) r =>
    unfold PKids.Fresh at h
    simp only [PKids.InfSound]
    exact ⟨PT.infSound_of_fresh t _ h.1, PKids.infSound_of_fresh r path a (l+1) h.2⟩
end

mutual
theorem PT.fresh_graft (S : Schema α) (g : PT α) (t : Aff α) (c : Nat) : PT.Fresh (PT.graft S g t c).1 := by
  match g with
  | .node j gc ks =>
    simp only [PT.graft, Content.new]
    unfold PT.Fresh
    exact ⟨rfl, PKids.fresh_graft S ks t (c+1)⟩
theorem PKids.fresh_graft (S : Schema α) (ks : PKids α) (t : Aff α) (c : Nat) : PKids.Fresh (PKids.graft S ks t c).1 := by
  match ks with
  | .nil => simp [PKids.graft, PKids.Fresh]
  | .cons none r => simp only [PKids.graft, PKids.Fresh]; exact PKids.fresh_graft S r t c
  | .cons (some k) r =>
    simp only [PKids.graft, PKids.Fresh]
    exact ⟨PT.fresh_graft S k t c, PKids.fresh_graft S r t _⟩
end

mutual
/-- composition keeps the cached states of the left operand at unchanged paths; new nodes are fresh -/
theorem PT.infSound_composeS (S : Schema α) (f g : PT α) (c : Nat) (path : List (Aff α))
    (h : PT.InfSound path f) : PT.InfSound path (PT.composeS S f g c).1 := by
  match f with
  | .node i fc ks =>
    unfold PT.InfSound at h
    cases hl : ks.allNone with
    | true =>
      match g with
      | .node j gc gk =>
        simp only [PT.composeS, hl, if_true]
        unfold PT.InfSound
        exact ⟨h.1, PKids.infSound_of_fresh _ path _ 0 (PKids.fresh_graft S gk fc.aff c)⟩
    | false =>
      simp only [PT.composeS, hl, Bool.false_eq_true, if_false]
      unfold PT.InfSound
      exact ⟨h.1, PKids.infSound_composeS S ks g c path fc.aff 0 h.2⟩
theorem PKids.infSound_composeS (S : Schema α) (ks : PKids α) (g : PT α) (c : Nat) (path : List (Aff α))
    (a : Aff α) (l : Nat) (h : PKids.InfSound path a l ks) :
    PKids.InfSound path a l (PKids.composeS S ks g c).1 := by
  match ks with
  | .nil => simp [PKids.composeS, PKids.InfSound]
  | .cons none r =>
    simp only [PKids.composeS, PKids.InfSound] at h ⊢
    exact PKids.infSound_composeS S r g c path a (l+1) h
  | .cons (some k) r =>
    simp only [PKids.composeS, PKids.InfSound] at h ⊢
    exact ⟨PT.infSound_composeS S k g c _ h.1, PKids.infSound_composeS S r g _ path a (l+1) h.2⟩
end

mutual
/-- maps on terminals do not touch decisions, hence no path polytope -/
theorem PT.infSound_mapTerminals (φ : Aff α → Aff α) (t : PT α) (path : List (Aff α))
    (h : PT.InfSound path t) : PT.InfSound path (PT.mapTerminals φ t) := by
  match t with
  | .node i c ks =>
    unfold PT.InfSound at h
    cases hl : ks.allNone with
    | true =>
      simp only [PT.mapTerminals, hl, if_true]
      unfold PT.InfSound
      exact ⟨h.1, PKids.infSound_allNone ks path _ 0 hl⟩
    | false =>
      simp only [PT.mapTerminals, hl, Bool.false_eq_true, if_false]
      unfold PT.InfSound
      exact ⟨h.1, PKids.infSound_mapTerminals φ ks path c.aff 0 h.2⟩
theorem PKids.infSound_mapTerminals (φ : Aff α → Aff α) (ks : PKids α) (path : List (Aff α)) (a : Aff α) (l : Nat)
    (h : PKids.InfSound path a l ks) : PKids.InfSound path a l (PKids.mapTerminals φ ks) := by
  match ks with
  | .nil => simp [PKids.mapTerminals, PKids.InfSound]
  | .cons none r =>
    simp only [PKids.mapTerminals, PKids.InfSound] at h ⊢
    exact PKids.infSound_mapTerminals φ r path a (l+1) h
  | .cons (some k) r =>
    simp only [PKids.mapTerminals, PKids.InfSound] at h ⊢
    exact ⟨PT.infSound_mapTerminals φ k _ h.1, PKids.infSound_mapTerminals φ r path a (l+1) h.2⟩
theorem PKids.infSound_allNone (ks : PKids α) (path : List (Aff α)) (a : Aff α) (l : Nat) (h : ks.allNone = true) :
    PKids.InfSound path a l ks := by
  match ks, h with
  | .nil, _ => simp [PKids.InfSound]
  | .cons none r, h =>
    simp only [PKids.InfSound]; exact PKids.infSound_allNone r path a (l+1) (by simpa [IKids.allNone] using h)
end

mutual
/-- `InfSound` only depends on the *set* a path describes -/
theorem PT.infSound_congr (t : PT α) (p q : List (Aff α)) (hpq : ∀ x, InPath p x ↔ InPath q x)
    (h : PT.InfSound p t) : PT.InfSound q t := by
  match t with
  | .node i c ks =>
    unfold PT.InfSound at h ⊢
    refine ⟨fun hc ⟨x, hx⟩ => h.1 hc ⟨x, (hpq x).mpr hx⟩, PKids.infSound_congr ks p q c.aff 0 hpq h.2⟩
theorem PKids.infSound_congr (ks : PKids α) (p q : List (Aff α)) (a : Aff α) (l : Nat)
    (hpq : ∀ x, InPath p x ↔ InPath q x) (h : PKids.InfSound p a l ks) : PKids.InfSound q a l ks := by
  match ks with
  | .nil => simp [PKids.InfSound]
  | .cons none r => simp only [PKids.InfSound] at h ⊢; exact PKids.infSound_congr r p q a (l+1) hpq h
  | .cons (some t) r =>
    simp only [PKids.InfSound] at h ⊢
    refine ⟨PT.infSound_congr t _ _ (fun x => ?_) h.1, PKids.infSound_congr r p q a (l+1) hpq h.2⟩
    constructor
    · intro hx
      have h1 : InPath p x := fun hh hm => hx hh (List.mem_append_left _ hm)
      have h2 : Poly.Mem (halfspace a l) x := hx _ (by simp)
      exact ((hpq x).mp h1).append (InPath.single h2)
    · intro hx
      have h1 : InPath q x := fun hh hm => hx hh (List.mem_append_left _ hm)
      have h2 : Poly.Mem (halfspace a l) x := hx _ (by simp)
      exact ((hpq x).mpr h1).append (InPath.single h2)
end

end AV

namespace AV
variable {α : Type} [Field α] [LinearOrder α] [IsStrictOrderedRing α]

theorem PKids.infSound_set_none (ks : PKids α) (path : List (Aff α)) (a : Aff α) (l0 l : Nat)
    (h : PKids.InfSound path a l0 ks) : PKids.InfSound path a l0 (ks.set l none) := by
  match ks, l with
  | .nil, _ => simp [IKids.set, PKids.InfSound]
  | .cons none r, 0 => simpa [IKids.set, PKids.InfSound] using h
  | .cons (some t) r, 0 => simp only [IKids.set, PKids.InfSound] at h ⊢; exact h.2
  | .cons none r, l+1 =>
    simp only [IKids.set, PKids.InfSound] at h ⊢; exact PKids.infSound_set_none r path a (l0+1) l h
  | .cons (some t) r, l+1 =>
    simp only [IKids.set, PKids.InfSound] at h ⊢; exact ⟨h.1, PKids.infSound_set_none r path a (l0+1) l h.2⟩

theorem PKids.infSound_removeLabels (ks : PKids α) (path : List (Aff α)) (a : Aff α) (ls : List Nat)
    (h : PKids.InfSound path a 0 ks) : PKids.InfSound path a 0 (removeLabels ks ls) := by
  induction ls generalizing ks with
  | nil => simpa [removeLabels] using h
  | cons l ls ih =>
    simp only [removeLabels]
    split
    · exact ih _ (PKids.infSound_set_none ks path a 0 l h)
    · exact ih _ h

theorem isInfeasible_iff (st : NState α) : st.isInfeasible = true ↔ st = .infeasible := by
  cases st <;> simp [NState.isInfeasible]

theorem infSound_state (p : List (Aff α)) (t : PT α) (h : PT.InfSound p t)
    (hi : t.val.state.isInfeasible = true) : ¬ ∃ x, InPath p x := by
  cases t with
  | node i c ks => unfold PT.InfSound at h; exact h.1 ((isInfeasible_iff _).mp hi)

/-- the processed child satisfies the invariant at its (extended) path -/
theorem elimChild_infSound {σ : Type} (tol : α) (O : Oracles σ α) (hlp : InfeasibleSound O.lp) (n : Nat)
    (path : List (Aff α)) (paff : Aff α) (pst : NState α) (ch : PT α) (l : Nat) (s : σ)
    (hinf : PT.InfSound (path ++ [halfspace paff l]) ch)
    (ih : ∀ (st' : NState α) (s' : σ), st' ≠ .infeasible →
      PT.InfSound (path ++ [halfspace paff l]) (elimNode tol O n false (path ++ [halfspace paff l]) st' ch s').1) :
    PT.InfSound (path ++ [halfspace paff l]) (elimChild tol O n path paff pst ch l s).1 := by
  unfold elimChild
  cases hs : ch.val.state with
  | infeasible => simpa using hinf
  | indeterminate =>
    simp only
    by_cases hd : (decideNode tol O s ch.idx pst path (halfspace paff l) n).1.isInfeasible = true
    · simp only [hd, if_true]
      cases ch with
      | node j cc ks =>
        simp only [ITree.idx, ITree.val, ITree.kids]
        unfold PT.InfSound at hinf ⊢
        exact ⟨fun _ => decideNode_sound tol O hlp s j pst path _ n hd, hinf.2⟩
    · simp only [hd, Bool.false_eq_true, if_false]
      exact ih _ _ (fun he => hd ((isInfeasible_iff _).mpr he))
  | feasible => exact ih _ _ (by simp)
  | witness ws => exact ih _ _ (by simp)

/-- two closed half-spaces of a one-row predicate cover the space -/
theorem mem_halfspace_cover (d : Aff α) (x : List α) (hwf : d.WF) (hrows : d.outdim ≤ 1) :
    Poly.Mem (halfspace d 0) x ∨ Poly.Mem (halfspace d 1) x := by
  have h := mem_halfspace_label d x hwf hrows
  have hle := label_le_one d x hrows
  rcases (by omega : d.label x = 0 ∨ d.label x = 1) with h0 | h1
  · rw [h0] at h; exact Or.inl h
  · rw [h1] at h; exact Or.inr h

/-- forwarding is justified: when the region of one side is empty, every point of the parent's region lies on the other side -/
theorem path_equiv_of_other_empty (path : List (Aff α)) (d : Aff α) (l : Nat) (hl : l = 0 ∨ l = 1)
    (hwf : d.WF) (hrows : d.outdim ≤ 1) (hemp : ¬ ∃ x, InPath (path ++ [halfspace d (1 - l)]) x) (x : List α) :
    InPath (path ++ [halfspace d l]) x ↔ InPath path x := by
  constructor
  · intro hx hh hm; exact hx hh (List.mem_append_left _ hm)
  · intro hx
    refine hx.append (InPath.single ?_)
    rcases mem_halfspace_cover d x hwf hrows with h0 | h1
    · rcases hl with rfl | rfl
      · exact h0
      · exact absurd ⟨x, hx.append (InPath.single (by simpa using h0))⟩ hemp
    · rcases hl with rfl | rfl
      · exact absurd ⟨x, hx.append (InPath.single (by simpa using h1))⟩ hemp
      · exact h1

/-- the finished node with two processed children satisfies the invariant -/
theorem finish_two_infSound (i : Nat) (aff : Aff α) (st : NState α) (ra rb : PT α) (newInf : List Nat)
    (lastFresh isRoot : Bool) (path : List (Aff α)) (hwf : aff.WF) (hrows : aff.outdim ≤ 1)
    (hst : st = .infeasible → ¬ ∃ x, InPath path x)
    (fa : PT.InfSound (path ++ [halfspace aff 0]) ra) (fb : PT.InfSound (path ++ [halfspace aff 1]) rb) :
    PT.InfSound path (finishNode i ⟨aff, st⟩ (.cons (some ra) (.cons (some rb) .nil)) newInf lastFresh isRoot) := by
  have hkids : PKids.InfSound path aff 0 (.cons (some ra) (.cons (some rb) .nil)) := by
    simp only [PKids.InfSound]; exact ⟨fa, fb, trivial⟩
  unfold finishNode
  cases hfl : (if lastFresh then forwardLabel? (.cons (some ra) (.cons (some rb) .nil)) else none) with
  | none =>
    simp only
    unfold PT.InfSound
    exact ⟨hst, PKids.infSound_removeLabels _ path aff _ hkids⟩
  | some l =>
    simp only
    have hl : forwardLabel? (.cons (some ra) (.cons (some rb) .nil)) = some l := by
      by_cases hf : lastFresh = true
      · simpa [hf] using hfl
      · simp [hf] at hfl
    obtain ⟨a, b, hks, hcase⟩ := forwardLabel_spec _ l hl
    simp only [IKids.cons.injEq, Option.some.injEq, and_true] at hks
    obtain ⟨rfl, rfl⟩ := hks
    cases isRoot with
    | true =>
      simp only [if_true]
      unfold PT.InfSound
      exact ⟨hst, PKids.infSound_set_none _ path aff 0 _ hkids⟩
    | false =>
      simp only [Bool.false_eq_true, if_false]
      rcases hcase with ⟨rfl, _, hb⟩ | ⟨rfl, ha, _⟩
      · simp only [IKids.get?]
        have hemp := infSound_state _ _ fb hb
        exact PT.infSound_congr _ _ _ (path_equiv_of_other_empty path aff 0 (Or.inl rfl) hwf hrows (by simpa using hemp)) fa
      · simp only [IKids.get?]
        have hemp := infSound_state _ _ fa ha
        exact PT.infSound_congr _ _ _ (path_equiv_of_other_empty path aff 1 (Or.inr rfl) hwf hrows (by simpa using hemp)) fb

/-- C05 (infeasible clause) for `infeasible_elimination`: marks stay sound, also across `forward_if_redundant` -/
theorem PT.infSound_elimNode {σ : Type} (tol : α) (O : Oracles σ α) (hlp : InfeasibleSound O.lp) (n : Nat)
    (isRoot : Bool) (path : List (Aff α)) (st : NState α) (t : PT α) (s : σ)
    (hok : PT.ElimOK t) (hc : PKids.InfSound path t.val.aff 0 t.kids)
    (hst : st = .infeasible → ¬ ∃ x, InPath path x) :
    PT.InfSound path (elimNode tol O n isRoot path st t s).1 := by
  match t, hok, hc with
  | .node i c .nil, hok, _ => simp [PT.ElimOK, IKids.length] at hok
  | .node i c (.cons _ .nil), hok, _ => simp [PT.ElimOK, IKids.length] at hok
  | .node i c (.cons _ (.cons _ (.cons _ _))), hok, _ => simp [PT.ElimOK, IKids.length] at hok
  | .node i c (.cons none (.cons none .nil)), _, _ =>
    rw [elimNode_eq]
    simp only [elimKids_cons_none, elimKids_nil, finishNode, forwardLabel?, ite_self, removeLabels]
    unfold PT.InfSound
    exact ⟨hst, by simp [PKids.InfSound]⟩
  | .node i c (.cons (some ka) (.cons none .nil)), hok, hc =>
    unfold PT.ElimOK at hok
    obtain ⟨_, _, hkok⟩ := hok
    simp only [PKids.ElimOK] at hkok
    simp only [ITree.val, ITree.kids, PKids.InfSound] at hc
    have fa := elimChild_infSound tol O hlp n path c.aff st ka 0 s hc.1
      (fun st' s' hne => PT.infSound_elimNode tol O hlp n false _ st' ka s' hkok.1 (by
        have := hc.1; cases ka with | node j cc kk => unfold PT.InfSound at this; exact this.2)
        (fun he => absurd he hne))
    rw [elimNode_eq]
    simp only [elimKids_cons_some, elimKids_cons_none, elimKids_nil, IKids.count]
    simp only [finishNode, forwardLabel?, ite_self]
    unfold PT.InfSound
    refine ⟨hst, PKids.infSound_removeLabels _ path c.aff _ ?_⟩
    simp only [PKids.InfSound]
    exact ⟨fa, trivial⟩
  | .node i c (.cons none (.cons (some kb) .nil)), hok, hc =>
    unfold PT.ElimOK at hok
    obtain ⟨_, _, hkok⟩ := hok
    simp only [PKids.ElimOK] at hkok
    simp only [ITree.val, ITree.kids, PKids.InfSound] at hc
    have fb := elimChild_infSound tol O hlp n path c.aff st kb 1 s hc.1
      (fun st' s' hne => PT.infSound_elimNode tol O hlp n false _ st' kb s' hkok.1 (by
        have := hc.1; cases kb with | node j cc kk => unfold PT.InfSound at this; exact this.2)
        (fun he => absurd he hne))
    rw [elimNode_eq]
    simp only [elimKids_cons_some, elimKids_cons_none, elimKids_nil, IKids.count]
    simp only [finishNode, forwardLabel?, ite_self]
    unfold PT.InfSound
    refine ⟨hst, PKids.infSound_removeLabels _ path c.aff _ ?_⟩
    simp only [PKids.InfSound]
    exact ⟨fb, trivial⟩
  | .node i c (.cons (some ka) (.cons (some kb) .nil)), hok, hc =>
    unfold PT.ElimOK at hok
    obtain ⟨_, hdec, hkok⟩ := hok
    simp only [PKids.ElimOK] at hkok
    have hd := hdec (by simp [IKids.allNone])
    simp only [ITree.val, ITree.kids, PKids.InfSound] at hc
    have fa := elimChild_infSound tol O hlp n path c.aff st ka 0 s hc.1
      (fun st' s' hne => PT.infSound_elimNode tol O hlp n false _ st' ka s' hkok.1 (by
        have := hc.1; cases ka with | node j cc kk => unfold PT.InfSound at this; exact this.2)
        (fun he => absurd he hne))
    have fb := fun s1 => elimChild_infSound tol O hlp n path c.aff st kb 1 s1 hc.2.1
      (fun st' s' hne => PT.infSound_elimNode tol O hlp n false _ st' kb s' hkok.2.1 (by
        have := hc.2.1; cases kb with | node j cc kk => unfold PT.InfSound at this; exact this.2)
        (fun he => absurd he hne))
    rw [elimNode_eq]
    simp only [elimKids_cons_some, elimKids_nil, IKids.count]
    generalize elimChild tol O n path c.aff st ka 0 s = ca at fa
    have fb' := fb ca.2.1
    generalize elimChild tol O n path c.aff st kb (0+1) ca.2.1 = cb at fb'
    simp only [Nat.zero_add] at fb' ⊢
    exact finish_two_infSound i c.aff st ca.1 cb.1 _ _ isRoot path hd.1 hd.2 hst fa fb'
termination_by sizeOf t
decreasing_by
  all_goals simp_wf
  all_goals omega

end AV
