import AffVerif.Proofs.WitSound
/-!
The sweep of `infeasible_elimination` for an arbitrary predicate on (path, cached state) pairs: a predicate that holds
for undecided and infeasible states, survives the shortening of a path, and is established by the three phases for
every freshly decided node, holds at every node of the swept tree (`PT.stSound_elimNode`).  The proof is the one of the
witness clause (`Proofs/WitSound.lean`) with the clause abstracted.  Instances: non-empty witness lists and "cached
`Feasible` ⇒ the region has a point" (`Props/C05`, `Props/C06`).
-/
set_option linter.unusedSectionVars false
set_option linter.unusedVariables false
set_option linter.unusedSimpArgs false
namespace AV
variable {α : Type} [Field α] [LinearOrder α] [IsStrictOrderedRing α]

/-- what the generic sweep theorem needs of a clause -/
structure StPred (P : List (Aff α) → NState α → Prop) : Prop where
  mono : ∀ (p q : List (Aff α)), (∀ h ∈ q, h ∈ p) → ∀ st, P p st → P q st

mutual
def PT.StSound (P : List (Aff α) → NState α → Prop) : List (Aff α) → PT α → Prop
  | path, .node _ c ks => P path c.state ∧ PKids.StSound P path c.aff 0 ks
def PKids.StSound (P : List (Aff α) → NState α → Prop) : List (Aff α) → Aff α → Nat → PKids α → Prop
  | _, _, _, .nil => True
  | path, a, l, .cons none r => PKids.StSound P path a (l+1) r
  | path, a, l, .cons (some t) r => PT.StSound P (path ++ [halfspace a l]) t ∧ PKids.StSound P path a (l+1) r
end

mutual
/-- shortening a path (forwarding drops the forwarded decision's half-space) keeps the witness clause -/
theorem PT.stSound_mono (P : List (Aff α) → NState α → Prop) (hP : StPred P) (t : PT α) (p q : List (Aff α)) (hqp : ∀ h ∈ q, h ∈ p)
    (h : PT.StSound P p t) : PT.StSound P q t := by
  match t with
  | .node i c ks =>
    unfold PT.StSound at h ⊢
    exact ⟨hP.mono p q hqp _ h.1, PKids.stSound_mono P hP ks p q c.aff 0 hqp h.2⟩
theorem PKids.stSound_mono (P : List (Aff α) → NState α → Prop) (hP : StPred P) (ks : PKids α) (p q : List (Aff α)) (a : Aff α) (l : Nat)
    (hqp : ∀ h ∈ q, h ∈ p) (h : PKids.StSound P p a l ks) : PKids.StSound P q a l ks := by
  match ks with
  | .nil => simp [PKids.StSound]
  | .cons none r => simp only [PKids.StSound] at h ⊢; exact PKids.stSound_mono P hP r p q a (l+1) hqp h
  | .cons (some t) r =>
    simp only [PKids.StSound] at h ⊢
    refine ⟨PT.stSound_mono P hP t _ _ (fun g hg => ?_) h.1, PKids.stSound_mono P hP r p q a (l+1) hqp h.2⟩
    rcases List.mem_append.mp hg with h1 | h1
    · exact List.mem_append_left _ (hqp g h1)
    · exact List.mem_append_right _ h1
end

theorem PKids.stSound_set_none (P : List (Aff α) → NState α → Prop) (ks : PKids α) (path : List (Aff α)) (a : Aff α) (l0 l : Nat)
    (h : PKids.StSound P path a l0 ks) : PKids.StSound P path a l0 (ks.set l none) := by
  match ks, l with
  | .nil, _ => simp [IKids.set, PKids.StSound]
  | .cons none r, 0 => simpa [IKids.set, PKids.StSound] using h
  | .cons (some t) r, 0 => simp only [IKids.set, PKids.StSound] at h ⊢; exact h.2
  | .cons none r, l+1 =>
    simp only [IKids.set, PKids.StSound] at h ⊢; exact PKids.stSound_set_none P r path a (l0+1) l h
  | .cons (some t) r, l+1 =>
    simp only [IKids.set, PKids.StSound] at h ⊢; exact ⟨h.1, PKids.stSound_set_none P r path a (l0+1) l h.2⟩

theorem PKids.stSound_removeLabels (P : List (Aff α) → NState α → Prop) (ks : PKids α) (path : List (Aff α)) (a : Aff α) (ls : List Nat)
    (h : PKids.StSound P path a 0 ks) : PKids.StSound P path a 0 (removeLabels ks ls) := by
  induction ls generalizing ks with
  | nil => simpa [removeLabels] using h
  | cons l ls ih =>
    simp only [removeLabels]
    split
    · exact ih _ (PKids.stSound_set_none P ks path a 0 l h)
    · exact ih _ h

theorem stSound_state (P : List (Aff α) → NState α → Prop) (p : List (Aff α)) (t : PT α) (h : PT.StSound P p t) : P p t.val.state := by
  cases t with
  | node i c ks => unfold PT.StSound at h; exact h.1

theorem elimChild_stSound {σ : Type} (P : List (Aff α) → NState α → Prop) (hP : StPred P) (tol : α) (O : Oracles σ α) (n : Nat)
    (hphase : ∀ (s : σ) (node : Nat) (pst : NState α) (path : List (Aff α)) (hyper : Aff α), P path pst →
      P (path ++ [hyper]) (decideNode tol O s node pst path hyper n).1)
    (path : List (Aff α)) (paff : Aff α) (pst : NState α) (ch : PT α) (l : Nat) (s : σ)
    (hpst : P path pst)
    (hw : PT.StSound P (path ++ [halfspace paff l]) ch)
    (ih : ∀ (st' : NState α) (s' : σ), P (path ++ [halfspace paff l]) st' →
      PT.StSound P (path ++ [halfspace paff l]) (elimNode tol O n false (path ++ [halfspace paff l]) st' ch s').1) :
    PT.StSound P (path ++ [halfspace paff l]) (elimChild tol O n path paff pst ch l s).1 := by
  unfold elimChild
  have hd := hphase s ch.idx pst path (halfspace paff l) hpst
  cases hs : ch.val.state with
  | infeasible => simpa using hw
  | indeterminate =>
    simp only
    by_cases hdi : (decideNode tol O s ch.idx pst path (halfspace paff l) n).1.isInfeasible = true
    · simp only [hdi, if_true]
      cases ch with
      | node j cc ks =>
        simp only [ITree.idx, ITree.val, ITree.kids]
        unfold PT.StSound at hw ⊢
        exact ⟨hd, hw.2⟩
    · simp only [hdi, Bool.false_eq_true, if_false]
      exact ih _ _ hd
  | feasible =>
    refine ih _ _ ?_
    have := stSound_state P _ ch hw
    rw [hs] at this; exact this
  | witness ws =>
    refine ih _ _ ?_
    have := stSound_state P _ ch hw
    rw [hs] at this; exact this

theorem finish_two_stSound (P : List (Aff α) → NState α → Prop) (hP : StPred P) (i : Nat) (aff : Aff α) (st : NState α) (ra rb : PT α) (newInf : List Nat)
    (lastFresh isRoot : Bool) (path : List (Aff α)) (hst : P path st)
    (fa : PT.StSound P (path ++ [halfspace aff 0]) ra) (fb : PT.StSound P (path ++ [halfspace aff 1]) rb) :
    PT.StSound P path (finishNode i ⟨aff, st⟩ (.cons (some ra) (.cons (some rb) .nil)) newInf lastFresh isRoot) := by
  have hkids : PKids.StSound P path aff 0 (.cons (some ra) (.cons (some rb) .nil)) := by
    simp only [PKids.StSound]; exact ⟨fa, fb, trivial⟩
  unfold finishNode
  cases hfl : (if lastFresh then forwardLabel? (.cons (some ra) (.cons (some rb) .nil)) else none) with
  | none =>
    simp only
    unfold PT.StSound
    exact ⟨hst, PKids.stSound_removeLabels P _ path aff _ hkids⟩
  | some l =>
    simp only
    have hl : forwardLabel? (.cons (some ra) (.cons (some rb) .nil)) = some l := by
      by_cases hf : lastFresh = true
      · simpa [hf] using hfl
      · simp [hf] at hfl
    obtain ⟨a, b, hks, hcase⟩ := forwardLabel_spec _ l hl
    simp only [IKids.cons.injEq, Option.some.injEq, and_true] at hks
    obtain ⟨rfl, rfl⟩ := hks
    cases isRoot with
    | true =>
      simp only [if_true]
      unfold PT.StSound
      exact ⟨hst, PKids.stSound_set_none P _ path aff 0 _ hkids⟩
    | false =>
      simp only [Bool.false_eq_true, if_false]
      rcases hcase with ⟨rfl, _, _⟩ | ⟨rfl, _, _⟩
      · simp only [IKids.get?]
        exact PT.stSound_mono P hP _ _ path (fun g hg => List.mem_append_left _ hg) fa
      · simp only [IKids.get?]
        exact PT.stSound_mono P hP _ _ path (fun g hg => List.mem_append_left _ hg) fb

/-- a state predicate of the class `StPred` that the three phases establish holds at every node of the swept tree,
    also across `forward_if_redundant` -/
theorem PT.stSound_elimNode {σ : Type} (P : List (Aff α) → NState α → Prop) (hP : StPred P) (tol : α) (O : Oracles σ α) (n : Nat)
    (hphase : ∀ (s : σ) (node : Nat) (pst : NState α) (path : List (Aff α)) (hyper : Aff α), P path pst →
      P (path ++ [hyper]) (decideNode tol O s node pst path hyper n).1)
    (isRoot : Bool) (path : List (Aff α)) (st : NState α) (t : PT α) (s : σ)
    (hok : PT.ElimOK t) (hc : PKids.StSound P path t.val.aff 0 t.kids)
    (hst : P path st) :
    PT.StSound P path (elimNode tol O n isRoot path st t s).1 := by
  match t, hok, hc with
  | .node i c .nil, hok, _ => simp [PT.ElimOK, IKids.length] at hok
  | .node i c (.cons _ .nil), hok, _ => simp [PT.ElimOK, IKids.length] at hok
  | .node i c (.cons _ (.cons _ (.cons _ _))), hok, _ => simp [PT.ElimOK, IKids.length] at hok
  | .node i c (.cons none (.cons none .nil)), _, _ =>
    rw [elimNode_eq]
    simp only [elimKids_cons_none, elimKids_nil, finishNode, forwardLabel?, ite_self, removeLabels]
    unfold PT.StSound
    exact ⟨hst, by simp [PKids.StSound]⟩
  | .node i c (.cons (some ka) (.cons none .nil)), hok, hc =>
    unfold PT.ElimOK at hok
    obtain ⟨_, _, hkok⟩ := hok
    simp only [PKids.ElimOK] at hkok
    simp only [ITree.val, ITree.kids, PKids.StSound] at hc
    have fa := elimChild_stSound P hP tol O n hphase path c.aff st ka 0 s hst hc.1
      (fun st' s' hs' => PT.stSound_elimNode P hP tol O n hphase false _ st' ka s' hkok.1 (by
        have := hc.1; cases ka with | node j cc kk => unfold PT.StSound at this; exact this.2) hs')
    rw [elimNode_eq]
    simp only [elimKids_cons_some, elimKids_cons_none, elimKids_nil, IKids.count]
    simp only [finishNode, forwardLabel?, ite_self]
    unfold PT.StSound
    refine ⟨hst, PKids.stSound_removeLabels P _ path c.aff _ ?_⟩
    simp only [PKids.StSound]
    exact ⟨fa, trivial⟩
  | .node i c (.cons none (.cons (some kb) .nil)), hok, hc =>
    unfold PT.ElimOK at hok
    obtain ⟨_, _, hkok⟩ := hok
    simp only [PKids.ElimOK] at hkok
    simp only [ITree.val, ITree.kids, PKids.StSound] at hc
    have fb := elimChild_stSound P hP tol O n hphase path c.aff st kb 1 s hst hc.1
      (fun st' s' hs' => PT.stSound_elimNode P hP tol O n hphase false _ st' kb s' hkok.1 (by
        have := hc.1; cases kb with | node j cc kk => unfold PT.StSound at this; exact this.2) hs')
    rw [elimNode_eq]
    simp only [elimKids_cons_some, elimKids_cons_none, elimKids_nil, IKids.count]
    simp only [finishNode, forwardLabel?, ite_self]
    unfold PT.StSound
    refine ⟨hst, PKids.stSound_removeLabels P _ path c.aff _ ?_⟩
    simp only [PKids.StSound]
    exact ⟨fb, trivial⟩
  | .node i c (.cons (some ka) (.cons (some kb) .nil)), hok, hc =>
    unfold PT.ElimOK at hok
    obtain ⟨_, hdec, hkok⟩ := hok
    simp only [PKids.ElimOK] at hkok
    simp only [ITree.val, ITree.kids, PKids.StSound] at hc
    have fa := elimChild_stSound P hP tol O n hphase path c.aff st ka 0 s hst hc.1
      (fun st' s' hs' => PT.stSound_elimNode P hP tol O n hphase false _ st' ka s' hkok.1 (by
        have := hc.1; cases ka with | node j cc kk => unfold PT.StSound at this; exact this.2) hs')
    have fb := fun s1 => elimChild_stSound P hP tol O n hphase path c.aff st kb 1 s1 hst hc.2.1
      (fun st' s' hs' => PT.stSound_elimNode P hP tol O n hphase false _ st' kb s' hkok.2.1 (by
        have := hc.2.1; cases kb with | node j cc kk => unfold PT.StSound at this; exact this.2) hs')
    rw [elimNode_eq]
    simp only [elimKids_cons_some, elimKids_nil, IKids.count]
    generalize elimChild tol O n path c.aff st ka 0 s = ca at fa
    have fb' := fb ca.2.1
    generalize elimChild tol O n path c.aff st kb (0+1) ca.2.1 = cb at fb'
    simp only [Nat.zero_add] at fb' ⊢
    exact finish_two_stSound P hP i c.aff st ca.1 cb.1 _ _ isRoot path hst fa fb'
termination_by sizeOf t
decreasing_by
  all_goals simp_wf
  all_goals omega


end AV
