import AffVerif.Proofs.PruneSound
/-! Shaped binary trees satisfy the side conditions of the pruning theorems. -/
set_option linter.unusedSectionVars false
set_option linter.unusedVariables false
namespace AV
variable {α : Type} [Field α] [LinearOrder α] [IsStrictOrderedRing α]

theorem outdim_le_one_of_pow (k : Nat) (h : 2 ^ k ≤ 2) : k ≤ 1 := by
  by_contra hk
  have h2 : 2 ≤ k := by omega
  have : 2 ^ 2 ≤ 2 ^ k := Nat.pow_le_pow_right (by norm_num) h2
  omega

theorem updDecision_wf (d t : Aff α) (hd : d.WF) (ht : t.WF) : (d.updDecision t).WF := by
  unfold Aff.updDecision Aff.WF
  simp only
  constructor
  · intro r hr
    simp only [matMul, List.mem_map] at hr
    obtain ⟨r0, _, rfl⟩ := hr
    exact vecMat_length t.indim r0 t.mat ht.1
  · simp [matMul, vneg, hd.2]

theorem updDecision_outdim (d t : Aff α) : (d.updDecision t).outdim = d.outdim := by
  simp [Aff.updDecision, Aff.outdim, matMul]

mutual
theorem PT.binOK_compose_of_shaped (g : PT α) (t : Aff α) (ht : t.WF) (m : Nat)
    (hg : PT.Shaped 2 t.outdim m g) : PT.BinOK Schema.compose t g := by
  match g with
  | .node j gc ks =>
    obtain ⟨hwf, _, hlen, _, hdec, hk⟩ := hg
    unfold PT.BinOK
    refine ⟨hlen, ?_, PKids.binOK_compose_of_shaped ks t ht m hk⟩
    intro hall
    simp only [Schema.compose]
    exact ⟨updDecision_wf gc.aff t hwf ht, by rw [updDecision_outdim]; exact outdim_le_one_of_pow _ (hdec hall)⟩
theorem PKids.binOK_compose_of_shaped (ks : PKids α) (t : Aff α) (ht : t.WF) (m : Nat)
    (hk : PKids.Shaped 2 t.outdim m ks) : PKids.BinOK Schema.compose t ks := by
  match ks with
  | .nil => simp [PKids.BinOK]
  | .cons none r => simp only [PKids.BinOK]; exact PKids.binOK_compose_of_shaped r t ht m hk
  | .cons (some k) r =>
    simp only [PKids.BinOK]
    exact ⟨PT.binOK_compose_of_shaped k t ht m hk.1, PKids.binOK_compose_of_shaped r t ht m hk.2⟩
end

mutual
theorem PT.binOK_arith_of_shaped (op : Aff α → Aff α → Aff α) (g : PT α) (t : Aff α) (n m : Nat)
    (hg : PT.Shaped 2 n m g) : PT.BinOK (Schema.arith op) t g := by
  match g with
  | .node j gc ks =>
    obtain ⟨hwf, _, hlen, _, hdec, hk⟩ := hg
    unfold PT.BinOK
    refine ⟨hlen, ?_, PKids.binOK_arith_of_shaped op ks t n m hk⟩
    intro hall
    simp only [Schema.arith]
    exact ⟨hwf, outdim_le_one_of_pow _ (hdec hall)⟩
theorem PKids.binOK_arith_of_shaped (op : Aff α → Aff α → Aff α) (ks : PKids α) (t : Aff α) (n m : Nat)
    (hk : PKids.Shaped 2 n m ks) : PKids.BinOK (Schema.arith op) t ks := by
  match ks with
  | .nil => simp [PKids.BinOK]
  | .cons none r => simp only [PKids.BinOK]; exact PKids.binOK_arith_of_shaped op r t n m hk
  | .cons (some k) r =>
    simp only [PKids.BinOK]
    exact ⟨PT.binOK_arith_of_shaped op k t n m hk.1, PKids.binOK_arith_of_shaped op r t n m hk.2⟩
end

mutual
/-- a shaped binary left operand whose terminals fit the right operand satisfies `PruneOK` -/
theorem PT.pruneOK_of_shaped (S : Schema α) (g f : PT α) (n m : Nat) (hf : PT.Shaped 2 n m f)
    (hterm : ∀ t : Aff α, t.WF → t.outdim = m → PT.BinOK S t g) : PT.PruneOK S g f := by
  match f with
  | .node i c ks =>
    obtain ⟨hwf, _, _, hout, hdec, hk⟩ := hf
    unfold PT.PruneOK
    cases hl : ks.allNone with
    | true => simp only [if_true]; exact hterm c.aff hwf (hout hl)
    | false =>
      simp only [Bool.false_eq_true, if_false]
      exact ⟨hwf, outdim_le_one_of_pow _ (hdec hl), PKids.pruneOK_of_shaped S g ks n m hk hterm⟩
theorem PKids.pruneOK_of_shaped (S : Schema α) (g : PT α) (ks : PKids α) (n m : Nat) (hk : PKids.Shaped 2 n m ks)
    (hterm : ∀ t : Aff α, t.WF → t.outdim = m → PT.BinOK S t g) : PKids.PruneOK S g ks := by
  match ks with
  | .nil => simp [PKids.PruneOK]
  | .cons none r => simp only [PKids.PruneOK]; exact PKids.pruneOK_of_shaped S g r n m hk hterm
  | .cons (some k) r =>
    simp only [PKids.PruneOK]
    exact ⟨PT.pruneOK_of_shaped S g k n m hk.1 hterm, PKids.pruneOK_of_shaped S g r n m hk.2 hterm⟩
end

end AV
