import AffVerif.Proofs.PruneShape
/-! Well-formedness (`Shaped`) is preserved by the transformations (C04). -/
set_option linter.unusedSectionVars false
set_option linter.unusedVariables false
namespace AV
variable {α : Type} [Field α] [LinearOrder α] [IsStrictOrderedRing α]

theorem compose_wf (f g : Aff α) (hf : f.WF) (hg : g.WF) : (f.compose g).WF := by
  unfold Aff.compose Aff.WF
  simp only
  constructor
  · intro r hr
    simp only [matMul, List.mem_map] at hr
    obtain ⟨r0, _, rfl⟩ := hr
    exact vecMat_length g.indim r0 g.mat hg.1
  · simp [Aff.apply, matMul, hf.2]

theorem compose_outdim (f g : Aff α) : (f.compose g).outdim = f.outdim := by
  simp [Aff.compose, Aff.outdim, matMul]

theorem PKids.graft_length (S : Schema α) (ks : PKids α) (t : Aff α) (c : Nat) :
    (PKids.graft S ks t c).1.length = ks.length := by
  match ks with
  | .nil => simp [PKids.graft, IKids.length]
  | .cons none r => simp [PKids.graft, IKids.length, PKids.graft_length S r t c]
  | .cons (some k) r => simp [PKids.graft, IKids.length, PKids.graft_length S r t _]

theorem PKids.composeS_length (S : Schema α) (ks : PKids α) (g : PT α) (c : Nat) :
    (PKids.composeS S ks g c).1.length = ks.length := by
  match ks with
  | .nil => simp [PKids.composeS, IKids.length]
  | .cons none r => simp [PKids.composeS, IKids.length, PKids.composeS_length S r g c]
  | .cons (some k) r => simp [PKids.composeS, IKids.length, PKids.composeS_length S r g _]

mutual
/-- the copy of `g` below a terminal `t` is shaped: input dimension of `t`, output dimension of `g` -/
theorem PT.shaped_graft (g : PT α) (t : Aff α) (c : Nat) (K p : Nat) (ht : t.WF)
    (hg : PT.Shaped K t.outdim p g) : PT.Shaped K t.indim p (PT.graft Schema.compose g t c).1 := by
  match g with
  | .node j gc ks =>
    obtain ⟨hwf, hin, hlen, hout, hdec, hk⟩ := hg
    simp only [PT.graft, Content.new, Schema.upd, Schema.compose]
    unfold PT.Shaped
    simp only [PKids.graft_allNone, PKids.graft_length]
    cases hl : ks.allNone with
    | true =>
      simp only [if_true]
      refine ⟨compose_wf gc.aff t hwf ht, rfl, hlen, fun _ => ?_, fun h => by simp at h,
        PKids.shaped_graft ks t (c+1) K p ht hk⟩
      rw [compose_outdim]; exact hout hl
    | false =>
      simp only [Bool.false_eq_true, if_false]
      refine ⟨updDecision_wf gc.aff t hwf ht, rfl, hlen, fun h => by simp at h, fun _ => ?_,
        PKids.shaped_graft ks t (c+1) K p ht hk⟩
      rw [updDecision_outdim]; exact hdec hl
theorem PKids.shaped_graft (ks : PKids α) (t : Aff α) (c : Nat) (K p : Nat) (ht : t.WF)
    (hk : PKids.Shaped K t.outdim p ks) : PKids.Shaped K t.indim p (PKids.graft Schema.compose ks t c).1 := by
  match ks with
  | .nil => simp [PKids.graft, PKids.Shaped]
  | .cons none r => simp only [PKids.graft, PKids.Shaped]; exact PKids.shaped_graft r t c K p ht hk
  | .cons (some k) r =>
    simp only [PKids.graft, PKids.Shaped]
    exact ⟨PT.shaped_graft k t c K p ht hk.1, PKids.shaped_graft r t _ K p ht hk.2⟩
end

mutual
/-- C04 for `compose::<false>`: the composition of shaped trees is shaped -/
theorem PT.shaped_composeS (f g : PT α) (c : Nat) (K n m p : Nat)
    (hf : PT.Shaped K n m f) (hg : PT.Shaped K m p g) : PT.Shaped K n p (PT.composeS Schema.compose f g c).1 := by
  match f with
  | .node i fc ks =>
    obtain ⟨hwf, hin, hlen, hout, hdec, hk⟩ := hf
    cases hl : ks.allNone with
    | true =>
      have hm : fc.aff.outdim = m := hout hl
      match g with
      | .node j gc gk =>
        have hg' : PT.Shaped K fc.aff.outdim p (.node j gc gk) := by rw [hm]; exact hg
        have hgr := PT.shaped_graft (.node j gc gk) fc.aff c K p hwf hg'
        simp only [PT.graft, Content.new] at hgr
        simp only [PT.composeS, hl, if_true]
        unfold PT.Shaped at hgr ⊢
        obtain ⟨g1, g2, g3, g4, g5, g6⟩ := hgr
        rw [hin] at g2
        have : PKids.Shaped K n p (PKids.graft Schema.compose gk fc.aff c).1 := by
          obtain ⟨_, _, _, _, _, gk'⟩ := hg'
          have := PKids.shaped_graft gk fc.aff c K p hwf gk'
          rw [hin] at this; exact this
        simp only [PKids.graft_allNone, PKids.graft_length] at g3 g4 g5 ⊢
        exact ⟨g1, g2, g3, g4, g5, this⟩
    | false =>
      simp only [PT.composeS, hl, Bool.false_eq_true, if_false]
      unfold PT.Shaped
      simp only [PKids.composeS_allNone, PKids.composeS_length]
      exact ⟨hwf, hin, hlen, fun h => by rw [hl] at h; simp at h, hdec, PKids.shaped_composeS ks g c K n m p hk hg⟩
theorem PKids.shaped_composeS (ks : PKids α) (g : PT α) (c : Nat) (K n m p : Nat)
    (hk : PKids.Shaped K n m ks) (hg : PT.Shaped K m p g) :
    PKids.Shaped K n p (PKids.composeS Schema.compose ks g c).1 := by
  match ks with
  | .nil => simp [PKids.composeS, PKids.Shaped]
  | .cons none r => simp only [PKids.composeS, PKids.Shaped]; exact PKids.shaped_composeS r g c K n m p hk hg
  | .cons (some k) r =>
    simp only [PKids.composeS, PKids.Shaped]
    exact ⟨PT.shaped_composeS k g c K n m p hk.1 hg, PKids.shaped_composeS r g _ K n m p hk.2 hg⟩
end

theorem PKids.mapTerminals_length (φ : Aff α → Aff α) (ks : PKids α) :
    (PKids.mapTerminals φ ks).length = ks.length := by
  match ks with
  | .nil => simp [PKids.mapTerminals, IKids.length]
  | .cons none r => simp [PKids.mapTerminals, IKids.length, PKids.mapTerminals_length φ r]
  | .cons (some k) r => simp [PKids.mapTerminals, IKids.length, PKids.mapTerminals_length φ r]

theorem PKids.mapTerminals_allNone' (φ : Aff α → Aff α) (ks : PKids α) :
    (PKids.mapTerminals φ ks).allNone = ks.allNone := by
  match ks with
  | .nil => simp [PKids.mapTerminals, IKids.allNone]
  | .cons none r => simp [PKids.mapTerminals, IKids.allNone, PKids.mapTerminals_allNone' φ r]
  | .cons (some k) r => simp [PKids.mapTerminals, IKids.allNone]

mutual
/-- C04 for `apply_func`, `neg` and the mixed tree/affine operators: a map on terminals that sends well-formed
    maps with `m` rows to well-formed maps with `m'` rows (same input dimension) keeps the tree shaped -/
theorem PT.shaped_mapTerminals (φ : Aff α → Aff α) (t : PT α) (K n m m' : Nat)
    (hφ : ∀ a : Aff α, a.WF → a.indim = n → a.outdim = m → (φ a).WF ∧ (φ a).indim = n ∧ (φ a).outdim = m')
    (ht : PT.Shaped K n m t) : PT.Shaped K n m' (PT.mapTerminals φ t) := by
  match t with
  | .node i c ks =>
    obtain ⟨hwf, hin, hlen, hout, hdec, hk⟩ := ht
    cases hl : ks.allNone with
    | true =>
      simp only [PT.mapTerminals, hl, if_true]
      unfold PT.Shaped
      obtain ⟨h1, h2, h3⟩ := hφ c.aff hwf hin (hout hl)
      exact ⟨h1, h2, hlen, fun _ => h3, fun h => by rw [hl] at h; simp at h, by
        -- children of a terminal: all empty slots
        exact PKids.shaped_of_allNone ks K n m' hl⟩
    | false =>
      simp only [PT.mapTerminals, hl, Bool.false_eq_true, if_false]
      unfold PT.Shaped
      simp only [PKids.mapTerminals_allNone', PKids.mapTerminals_length]
      exact ⟨hwf, hin, hlen, fun h => by rw [hl] at h; simp at h, hdec, PKids.shaped_mapTerminals φ ks K n m m' hφ hk⟩
theorem PKids.shaped_mapTerminals (φ : Aff α → Aff α) (ks : PKids α) (K n m m' : Nat)
    (hφ : ∀ a : Aff α, a.WF → a.indim = n → a.outdim = m → (φ a).WF ∧ (φ a).indim = n ∧ (φ a).outdim = m')
    (hk : PKids.Shaped K n m ks) : PKids.Shaped K n m' (PKids.mapTerminals φ ks) := by
  match ks with
  | .nil => simp [PKids.mapTerminals, PKids.Shaped]
  | .cons none r => simp only [PKids.mapTerminals, PKids.Shaped]; exact PKids.shaped_mapTerminals φ r K n m m' hφ hk
  | .cons (some k) r =>
    simp only [PKids.mapTerminals, PKids.Shaped]
    exact ⟨PT.shaped_mapTerminals φ k K n m m' hφ hk.1, PKids.shaped_mapTerminals φ r K n m m' hφ hk.2⟩
theorem PKids.shaped_of_allNone (ks : PKids α) (K n m : Nat) (h : ks.allNone = true) : PKids.Shaped K n m ks := by
  match ks, h with
  | .nil, _ => simp [PKids.Shaped]
  | .cons none r, h => simp only [PKids.Shaped]; exact PKids.shaped_of_allNone r K n m (by simpa [IKids.allNone] using h)
end

end AV
