import AffVerif.Proofs.VecLemmas
import AffVerif.Model.Compose
/-! The composition law for un-pruned composition (helper lemmas for C02, C07, C01). -/
set_option linter.unusedSectionVars false
set_option linter.unusedVariables false
namespace AV
variable {α : Type} [Field α] [LinearOrder α] [IsStrictOrderedRing α]

theorem labelBits_upd (D : Mat α) (b : List α) (t : Aff α) (x : List α)
    (ht : t.WF) (hD : ∀ r ∈ D, r.length = t.outdim) (hx : x.length = t.indim) :
    labelBits (matMul t.indim D t.mat) (vadd (vneg (matVec D t.bias)) b) x = labelBits D b (t.apply x) := by
  induction D generalizing b with
  | nil => simp [matMul, labelBits]
  | cons r rs ih =>
    cases b with
    | nil => simp [matMul, matVec, vneg, labelBits]
    | cons b0 bs =>
      have hr : r.length = t.mat.length := hD r (List.mem_cons_self)
      have hrs : ∀ r' ∈ rs, r'.length = t.outdim := fun r' h => hD r' (List.mem_cons_of_mem _ h)
      simp only [matMul, List.map_cons, matVec, vneg, vadd_cons, labelBits]
      have ih' := ih bs hrs
      simp only [matMul, matVec, vneg] at ih'
      rw [ih']
      have e1 : dot (vecMat t.indim r t.mat) x = dot r (matVec t.mat x) :=
        dot_vecMat t.indim r t.mat x ht.1 hr
      have e2 : dot r (t.apply x) = dot r (matVec t.mat x) + dot r t.bias := by
        unfold Aff.apply
        exact dot_vadd_right r _ _ (by simp [ht.2])
      rw [e1, e2]
      congr 1
      have : (dot r (matVec t.mat x) - (-dot r t.bias + b0) ≤ 0) ↔
             (dot r (matVec t.mat x) + dot r t.bias - b0 ≤ 0) := by
        constructor <;> intro h <;> linarith
      simp only [this]

/-- `update_decision`: the updated predicate asks about `t x` what the original asks about its input -/
theorem Aff.label_updDecision (d t : Aff α) (x : List α)
    (ht : t.WF) (hd : ∀ r ∈ d.mat, r.length = t.outdim) (hx : x.length = t.indim) :
    (d.updDecision t).label x = d.label (t.apply x) := by
  unfold Aff.label Aff.updDecision
  exact labelBits_upd d.mat d.bias t x ht hd hx

theorem PKids.graft_allNone (S : Schema α) (ks : PKids α) (t : Aff α) (c : Nat) :
    (PKids.graft S ks t c).1.allNone = ks.allNone := by
  match ks with
  | .nil => simp [PKids.graft, IKids.allNone]
  | .cons none r => simp [PKids.graft, IKids.allNone, PKids.graft_allNone S r t c]
  | .cons (some k) r => simp [PKids.graft, IKids.allNone]

mutual
theorem PT.eval_graft (g : PT α) (t : Aff α) (c : Nat) (x : List α) (K m : Nat)
    (ht : t.WF) (hx : x.length = t.indim) (hg : PT.Shaped K t.outdim m g) :
    PT.eval (PT.graft Schema.compose g t c).1 x = PT.eval g (t.apply x) := by
  match g with
  | .node i gc kids =>
    obtain ⟨hwf, hin, _, _, _, hk⟩ := hg
    simp only [PT.graft, PT.eval, PKids.graft_allNone, Content.new, Schema.upd, Schema.compose]
    cases hl : kids.allNone with
    | true =>
      simp only [if_true]
      rw [Aff.apply_compose gc.aff t x ht (by intro r hr; rw [hwf.1 r hr, hin]) hx]
    | false =>
      simp only [Bool.false_eq_true, if_false]
      rw [Aff.label_updDecision gc.aff t x ht (by intro r hr; rw [hwf.1 r hr, hin]) hx]
      exact PKids.evalAt_graft kids t (c+1) x K m _ ht hx hk
theorem PKids.evalAt_graft (ks : PKids α) (t : Aff α) (c : Nat) (x : List α) (K m : Nat) (l : Nat)
    (ht : t.WF) (hx : x.length = t.indim) (hk : PKids.Shaped K t.outdim m ks) :
    PKids.evalAt (PKids.graft Schema.compose ks t c).1 l x = PKids.evalAt ks l (t.apply x) := by
  match ks, l with
  | .nil, _ => simp [PKids.graft, PKids.evalAt]
  | .cons none r, 0 => simp [PKids.graft, PKids.evalAt]
  | .cons (some k) r, 0 =>
    simp only [PKids.graft, PKids.evalAt]
    exact PT.eval_graft k t c x K m ht hx hk.1
  | .cons none r, l+1 =>
    simp only [PKids.graft, PKids.evalAt]
    exact PKids.evalAt_graft r t c x K m l ht hx hk
  | .cons (some k) r, l+1 =>
    simp only [PKids.graft, PKids.evalAt]
    exact PKids.evalAt_graft r t _ x K m l ht hx hk.2
end

theorem PKids.composeS_allNone (S : Schema α) (ks : PKids α) (g : PT α) (c : Nat) :
    (PKids.composeS S ks g c).1.allNone = ks.allNone := by
  match ks with
  | .nil => simp [PKids.composeS, IKids.allNone]
  | .cons none r => simp [PKids.composeS, IKids.allNone, PKids.composeS_allNone S r g c]
  | .cons (some k) r => simp [PKids.composeS, IKids.allNone]

mutual
theorem PT.eval_composeS (f g : PT α) (c : Nat) (x : List α) (K n m p : Nat)
    (hx : x.length = n) (hf : PT.Shaped K n m f) (hg : PT.Shaped K m p g) :
    PT.eval (PT.composeS Schema.compose f g c).1 x = (PT.eval f x).bind (PT.eval g) := by
  match f with
  | .node i fc kids =>
    obtain ⟨hwf, hin, _, hout, _, hk⟩ := hf
    cases hl : kids.allNone with
    | true =>
      match g with
      | .node j gc gkids =>
        obtain ⟨gwf, gin, _, _, _, gk⟩ := hg
        have hm : fc.aff.outdim = m := hout hl
        simp only [PT.composeS, hl, if_true, PT.eval, PKids.graft_allNone, Option.bind_some,
          Schema.upd, Schema.compose]
        cases gl : gkids.allNone with
        | true =>
          simp only [if_true]
          rw [Aff.apply_compose gc.aff fc.aff x hwf (by intro r hr; rw [gwf.1 r hr, gin, hm]) (by rw [hx, hin])]
        | false =>
          simp only [Bool.false_eq_true, if_false]
          rw [Aff.label_updDecision gc.aff fc.aff x hwf (by intro r hr; rw [gwf.1 r hr, gin, hm]) (by rw [hx, hin])]
          exact PKids.evalAt_graft gkids fc.aff c x K p _ hwf (by rw [hx, hin]) (by rw [hm]; exact gk)
    | false =>
      simp only [PT.composeS, hl, PT.eval, PKids.composeS_allNone, Bool.false_eq_true, if_false]
      exact PKids.evalAt_composeS kids g c x K n m p _ hx hk hg
theorem PKids.evalAt_composeS (ks : PKids α) (g : PT α) (c : Nat) (x : List α) (K n m p : Nat) (l : Nat)
    (hx : x.length = n) (hk : PKids.Shaped K n m ks) (hg : PT.Shaped K m p g) :
    PKids.evalAt (PKids.composeS Schema.compose ks g c).1 l x = (PKids.evalAt ks l x).bind (PT.eval g) := by
  match ks, l with
  | .nil, _ => simp [PKids.composeS, PKids.evalAt]
  | .cons none r, 0 => simp [PKids.composeS, PKids.evalAt]
  | .cons (some k) r, 0 =>
    simp only [PKids.composeS, PKids.evalAt]
    exact PT.eval_composeS k g c x K n m p hx hk.1 hg
  | .cons none r, l+1 =>
    simp only [PKids.composeS, PKids.evalAt]
    exact PKids.evalAt_composeS r g c x K n m p l hx hk hg
  | .cons (some k) r, l+1 =>
    simp only [PKids.composeS, PKids.evalAt]
    exact PKids.evalAt_composeS r g _ x K n m p l hx hk.2 hg
end

end AV
