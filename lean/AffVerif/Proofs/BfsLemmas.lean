import AffVerif.Proofs.IterLemmas
/-!
The breadth-first machine emits the level-order reference list, for every skip schedule (repeated skips included):
the queue is always "rest of the current level ++ the part of the next level generated so far".
-/
set_option linter.unusedVariables false
namespace AV
variable {β : Type}

/-- queue entries of a list of (sub-tree, remaining-siblings) pairs at depth `d` -/
def qOf (d : Nat) (l : List (ITree β × Nat)) : List (Nat × ITree β × Nat) := l.map (fun tr => (d, tr.1, tr.2))

def itemsOf (d : Nat) (l : List (ITree β × Nat)) : List Item := l.map (fun tr => ⟨d, tr.1.idx, tr.2⟩)

def forestSize (l : List (ITree β × Nat)) : Nat := (l.map (fun tr => tr.1.size)).sum

theorem entries_eq_qOf (d : Nat) (cs : List (ITree β)) :
    entries d cs = qOf d ((entries 0 cs).map (fun e => (e.2.1, e.2.2))) := by
  induction cs with
  | nil => rfl
  | cons c cs ih => simp only [entries, qOf, List.map_cons] at ih ⊢; rw [ih]

theorem forestSize_children (t : ITree β) :
    forestSize ((entries 0 t.kids.childList).map (fun e => (e.2.1, e.2.2))) + 1 = t.size := by
  cases t with
  | node i v ks =>
    have := stackSize_entries 0 ks
    simp only [ITree.kids, ITree.size]
    have h2 : forestSize ((entries 0 ks.childList).map (fun e => (e.2.1, e.2.2))) = stackSize (entries 0 ks.childList) := by
      generalize entries 0 ks.childList = E
      induction E with
      | nil => rfl
      | cons e E ih =>
        simp only [forestSize, List.map_cons, List.sum_cons, stackSize] at ih ⊢
        rw [ih]
    rw [h2, this]; omega

theorem forestSize_append (a b : List (ITree β × Nat)) : forestSize (a ++ b) = forestSize a + forestSize b := by
  simp [forestSize]

theorem forestSize_nextLevel (sk : Nat → Nat) (level : List (ITree β × Nat)) (k : Nat) :
    forestSize (nextLevel sk level k) + level.length ≤ forestSize level := by
  induction level generalizing k with
  | nil => simp [nextLevel, forestSize]
  | cons tr rest ih =>
    simp only [nextLevel, forestSize_append, List.length_cons]
    have h1 := forestSize_children tr.1
    have h2 := ih (k+1)
    have h3 : forestSize (tr :: rest) = tr.1.size + forestSize rest := by simp [forestSize]
    rw [h3]
    split
    · simp only [forestSize, List.map_nil, List.sum_nil] at *; omega
    · omega

theorem bfs_skipN_queue (n : Nat) (s : BfsM β) :
    (BfsM.skipN (n+1) s).queue = s.queue.take (s.queue.length - s.lastPush) := by
  induction n generalizing s with
  | zero => simp [BfsM.skipN, BfsM.skip]
  | succ n ih =>
    rw [BfsM.skipN, ih]
    simp only [BfsM.skip, Nat.sub_zero, List.length_take]
    rw [List.take_of_length_le (by simp)]

/-- one level: with enough fuel the machine emits the rest `cur` of the current level and is left with the next level -/
theorem bfs_level (sk : Nat → Nat) (d : Nat) (cur acc : List (ITree β × Nat)) (fuel k lp lb ub : Nat)
    (hf : cur.length ≤ fuel) :
    ∃ lp' lb' ub',
      (BfsM.run sk fuel ⟨qOf d cur ++ qOf (d+1) acc, lp, lb, ub⟩ k).map (·.1) =
        itemsOf d cur ++
          (BfsM.run sk (fuel - cur.length) ⟨qOf (d+1) (acc ++ nextLevel sk cur k), lp', lb', ub'⟩ (k + cur.length)).map (·.1) := by
  induction cur generalizing acc fuel k lp lb ub with
  | nil =>
    exact ⟨lp, lb, ub, by simp [qOf, itemsOf, nextLevel]⟩
  | cons tr rest ih =>
    cases fuel with
    | zero => simp at hf
    | succ fuel =>
      simp only [List.length_cons, Nat.add_le_add_iff_right] at hf
      simp only [qOf, List.map_cons, List.cons_append, BfsM.run, BfsM.next, itemsOf]
      -- the queue after `next` and the skips
      have hq : ∀ m, (BfsM.skipN m ⟨List.map (fun tr => (d, tr.1, tr.2)) rest ++ List.map (fun tr => (d + 1, tr.1, tr.2)) acc ++
            entries (d + 1) tr.1.kids.childList, tr.1.kids.childList.length, lb - 1, ub - 1⟩).queue =
          qOf d rest ++ qOf (d+1) (acc ++ (if m ≠ 0 then [] else (entries 0 tr.1.kids.childList).map (fun e => (e.2.1, e.2.2)))) := by
        intro m
        cases m with
        | zero =>
          simp only [BfsM.skipN, ne_eq, not_true_eq_false, if_false]
          rw [entries_eq_qOf]
          simp [qOf, List.append_assoc]
        | succ m =>
          rw [bfs_skipN_queue]
          simp only [List.length_append, List.length_map, entries_length, Nat.add_sub_cancel, ne_eq,
            Nat.succ_ne_zero, not_false_eq_true, if_true, List.append_nil]
          rw [List.take_append_of_le_length (by simp)]
          rw [List.take_of_length_le (by simp)]
          simp [qOf]
      generalize hs : BfsM.skipN (sk k) ⟨List.map (fun tr => (d, tr.1, tr.2)) rest ++ List.map (fun tr => (d + 1, tr.1, tr.2)) acc ++
            entries (d + 1) tr.1.kids.childList, tr.1.kids.childList.length, lb - 1, ub - 1⟩ = s2
      have hq2 := hq (sk k)
      rw [hs] at hq2
      obtain ⟨q2, lp2, lb2, ub2⟩ := s2
      simp only at hq2
      subst hq2
      obtain ⟨lp', lb', ub', hrun⟩ := ih (acc ++ (if sk k ≠ 0 then [] else (entries 0 tr.1.kids.childList).map (fun e => (e.2.1, e.2.2))))
        fuel (k+1) lp2 lb2 ub2 hf
      refine ⟨lp', lb', ub', ?_⟩
      simp only [List.map_cons, List.cons_append, List.cons.injEq, true_and]
      rw [hrun]
      have e1 : fuel + 1 - (tr :: rest).length = fuel - rest.length := by simp
      have e2 : k + (tr :: rest).length = k + 1 + rest.length := by simp only [List.length_cons]; omega
      rw [e1, e2]
      simp only [itemsOf, nextLevel, List.append_assoc]
      rfl

/-- the machine emits the level-order reference list -/
theorem bfs_run_eq_ref (sk : Nat → Nat) (L : Nat) :
    ∀ (d : Nat) (level : List (ITree β × Nat)) (fuel k lp lb ub : Nat),
      forestSize level ≤ fuel → forestSize level + 1 ≤ L →
      (BfsM.run sk fuel ⟨qOf d level, lp, lb, ub⟩ k).map (·.1) = refBfsLevels sk L d level k := by
  induction L with
  | zero => intro d level fuel k lp lb ub _ hL; omega
  | succ L ih =>
    intro d level fuel k lp lb ub hf hL
    cases hlev : level with
    | nil =>
      simp only [refBfsLevels, List.isEmpty_nil, if_true, qOf, List.map_nil]
      cases fuel <;> simp [BfsM.run, BfsM.next]
    | cons tr rest =>
      rw [← hlev]
      have hne : level.isEmpty = false := by rw [hlev]; rfl
      simp only [refBfsLevels, hne, Bool.false_eq_true, if_false]
      have hlen : level.length ≤ forestSize level := by
        have := forestSize_nextLevel sk level k; omega
      have hpos : 1 ≤ level.length := by rw [hlev]; simp
      obtain ⟨lp', lb', ub', hrun⟩ := bfs_level sk d level [] fuel k lp lb ub (by omega)
      simp only [qOf, List.map_nil, List.append_nil, List.nil_append] at hrun
      simp only [qOf]
      rw [hrun]
      have hnext := forestSize_nextLevel sk level k
      have := ih (d+1) (nextLevel sk level k) (fuel - level.length) (k + level.length) lp' lb' ub' (by omega) (by omega)
      simp only [qOf] at this
      rw [this]
      rfl

end AV

namespace AV
variable {β : Type}

/-- size-hint invariant of `Bfs` (queue of sub-trees; the queue has the element type of the DFS stack) -/
def BfsM.Inv (s : BfsM β) : Prop :=
  s.lb ≤ stackSize s.queue ∧ stackSize s.queue ≤ s.ub ∧ s.lastPush ≤ s.queue.length

theorem BfsM.inv_new (whole start : ITree β) (hsub : start.size ≤ whole.size)
    (hroot : start.idx = whole.idx → start.size = whole.size) : (BfsM.new whole start).Inv := by
  unfold BfsM.new BfsM.Inv
  simp only [stackSize, List.length_cons, List.length_nil]
  refine ⟨?_, by omega, by omega⟩
  split
  · rename_i h; have := hroot h; omega
  · omega

theorem BfsM.inv_next (s s' : BfsM β) (it : Item) (h : s.Inv) (hn : s.next = some (it, s')) : s'.Inv := by
  obtain ⟨S, lp, lb, ub⟩ := s
  cases S with
  | nil => simp [BfsM.next] at hn
  | cons e rest =>
    obtain ⟨d, t, r⟩ := e
    simp only [BfsM.next, Option.some.injEq, Prod.mk.injEq] at hn
    obtain ⟨_, rfl⟩ := hn
    unfold BfsM.Inv at h ⊢
    simp only [stackSize] at h
    simp only [stackSize_append, stackSize_entries, List.length_append, entries_length]
    cases t with
    | node i v ks =>
      simp only [ITree.size, ITree.kids] at h ⊢
      omega

theorem BfsM.inv_skip (s : BfsM β) (h : s.Inv) : s.skip.Inv := by
  unfold BfsM.Inv at h
  unfold BfsM.skip BfsM.Inv
  simp only
  have h1 := stackSize_take_drop s.queue (s.queue.length - s.lastPush)
  have h2 := stackSize_ge_length (s.queue.take (s.queue.length - s.lastPush))
  have h3 := stackSize_ge_length (s.queue.drop (s.queue.length - s.lastPush))
  have h4 : (s.queue.drop (s.queue.length - s.lastPush)).length = s.lastPush := by
    rw [List.length_drop]; omega
  omega

/-- size-hint invariant of `DfsEdge` -/
def DfsE.Inv (s : DfsE β) : Prop :=
  s.lb ≤ stackSizeE s.stack ∧ stackSizeE s.stack ≤ s.ub ∧ s.lastPush ≤ s.stack.length

theorem stackSizeE_ge_length (S : EStack β) : S.length ≤ stackSizeE S := by
  induction S with
  | nil => simp [stackSizeE]
  | cons e S ih =>
    obtain ⟨d, src, l, t⟩ := e
    simp only [stackSizeE, List.length_cons]
    have := ITree.size_pos t
    omega

theorem stackSizeE_take_drop (S : EStack β) (n : Nat) :
    stackSizeE S = stackSizeE (S.take n) + stackSizeE (S.drop n) := by
  have := stackSizeE_append (S.take n) (S.drop n)
  rw [List.take_append_drop] at this
  exact this

theorem DfsE.inv_next (s s' : DfsE β) (it : EItem) (h : s.Inv) (hn : s.next = some (it, s')) : s'.Inv := by
  obtain ⟨S, lp, lb, ub⟩ := s
  cases S with
  | nil => simp [DfsE.next] at hn
  | cons e rest =>
    obtain ⟨d, src, l, t⟩ := e
    simp only [DfsE.next, Option.some.injEq, Prod.mk.injEq] at hn
    obtain ⟨_, rfl⟩ := hn
    unfold DfsE.Inv at h ⊢
    simp only [stackSizeE] at h
    have hs := stackSizeE_entries (d+1) t.idx t.kids 0
    simp only [IKids.existing] at hs ⊢
    simp only [stackSizeE_append, hs, List.length_append, edgeEntries_length]
    cases t with
    | node i v ks =>
      simp only [ITree.size, ITree.kids] at h ⊢
      omega

theorem DfsE.inv_skip (s : DfsE β) (h : s.Inv) : s.skip.Inv := by
  unfold DfsE.Inv at h
  unfold DfsE.skip DfsE.Inv
  simp only
  have h1 := stackSizeE_take_drop s.stack s.lastPush
  have h2 := stackSizeE_ge_length (s.stack.take s.lastPush)
  have h3 := stackSizeE_ge_length (s.stack.drop s.lastPush)
  have h4 : (s.stack.take s.lastPush).length = s.lastPush := by
    rw [List.length_take]; omega
  omega

theorem DfsE.inv_new (whole start : ITree β) (hsub : start.size ≤ whole.size)
    (hroot : start.idx = whole.idx → start.size = whole.size) : (DfsE.new whole start).Inv := by
  unfold DfsE.new DfsE.Inv
  have hs := stackSizeE_entries 1 start.idx start.kids 0
  simp only [IKids.existing] at hs ⊢
  simp only [hs, edgeEntries_length]
  have hsz : start.size = 1 + start.kids.size := by
    cases start with
    | node i v ks => simp [ITree.size, ITree.kids]
  have hlen : (start.kids.existingFrom 0).length ≤ start.kids.size := by
    have := stackSizeE_ge_length (edgeEntries 1 start.idx (start.kids.existingFrom 0))
    rw [edgeEntries_length, hs] at this
    exact this
  refine ⟨?_, by omega, by omega⟩
  by_cases h : start.idx = whole.idx
  · rw [if_pos h]; have := hroot h; omega
  · rw [if_neg h]; omega

end AV
