import AffVerif.Proofs.SchemaLemmas
import AffVerif.Proofs.PruneSound
/-!
Chains of one-row decisions (`from_poly`, `class_characterization`, `inf_norm`) and the `argmax` tournament.
-/
set_option linter.unusedSectionVars false
set_option linter.unusedVariables false
namespace AV
variable {α : Type} [Field α] [LinearOrder α] [IsStrictOrderedRing α]

/-- a predicate with exactly one row -/
def OneRow (a : Aff α) : Prop := ∃ r b, a.mat = [r] ∧ a.bias = [b]

theorem oneRow_mem (a : Aff α) (r : List α) (b : α) (hm : a.mat = [r]) (hb : a.bias = [b]) (x : List α) :
    Poly.Mem a x ↔ dot r x ≤ b := by
  unfold Poly.Mem Aff.rows
  rw [hm, hb]
  simp

theorem oneRow_label (a : Aff α) (h : OneRow a) (x : List α) :
    (Poly.Mem a x → a.label x = 1) ∧ (¬ Poly.Mem a x → a.label x = 0) := by
  obtain ⟨r, b, hm, hb⟩ := h
  rw [oneRow_mem a r b hm hb x]
  unfold Aff.label
  rw [hm, hb]
  simp only [labelBits, Nat.mul_zero, Nat.add_zero]
  constructor
  · intro hle; rw [if_pos (by linarith)]
  · intro hle; rw [if_neg (by intro h; exact hle (by linarith))]

/-- value of a chain of one-row decisions: the `final1` map where every row holds, otherwise the false leaf (if any) -/
theorem eval_chainNode (fl : Option (Aff α)) (f1 : Aff α) (idx : Nat) (row : Aff α) (rows : List (Aff α)) (c : Nat)
    (x : List α) (h1 : OneRow row) (hr : ∀ r ∈ rows, OneRow r) :
    ((∀ r ∈ row :: rows, Poly.Mem r x) → PT.eval (Sch.chainNode fl f1 idx row rows c) x = some (f1.apply x)) ∧
    ((¬ ∀ r ∈ row :: rows, Poly.Mem r x) → PT.eval (Sch.chainNode fl f1 idx row rows c) x = fl.map (·.apply x)) := by
  induction rows generalizing idx row c with
  | nil =>
    obtain ⟨l1, l0⟩ := oneRow_label row h1 x
    cases fl with
    | some a =>
      simp only [Sch.chainNode]
      rw [eval_dec _ _ _ _ x (by simp)]
      constructor
      · intro hall
        rw [l1 (hall row (by simp))]
        simp [eval_leaf]
      · intro hn
        have : ¬ Poly.Mem row x := fun hm => hn (by simpa using hm)
        rw [l0 this]
        simp [eval_leaf]
    | none =>
      simp only [Sch.chainNode]
      rw [eval_dec _ _ _ _ x (by simp)]
      constructor
      · intro hall
        rw [l1 (hall row (by simp))]
        simp [eval_leaf]
      · intro hn
        have : ¬ Poly.Mem row x := fun hm => hn (by simpa using hm)
        rw [l0 this]
        simp
  | cons r rs ih =>
    obtain ⟨l1, l0⟩ := oneRow_label row h1 x
    have hrr : OneRow r := hr r (by simp)
    have hrs : ∀ q ∈ rs, OneRow q := fun q hq => hr q (by simp [hq])
    cases fl with
    | some a =>
      simp only [Sch.chainNode]
      rw [eval_dec _ _ _ _ x (by simp)]
      obtain ⟨ih1, ih0⟩ := ih (c+1) r (c+2) hrr hrs
      constructor
      · intro hall
        rw [l1 (hall row (by simp))]
        simp only [Option.bind_some]
        exact ih1 (fun q hq => hall q (List.mem_cons_of_mem _ hq))
      · intro hn
        by_cases hm : Poly.Mem row x
        · rw [l1 hm]
          simp only [Option.bind_some]
          exact ih0 (fun hall => hn (fun q hq => by
            rcases List.mem_cons.mp hq with rfl | hq
            · exact hm
            · exact hall q hq))
        · rw [l0 hm]; simp [eval_leaf]
    | none =>
      simp only [Sch.chainNode]
      rw [eval_dec _ _ _ _ x (by simp)]
      obtain ⟨ih1, ih0⟩ := ih c r (c+1) hrr hrs
      constructor
      · intro hall
        rw [l1 (hall row (by simp))]
        simp only [Option.bind_some]
        exact ih1 (fun q hq => hall q (List.mem_cons_of_mem _ hq))
      · intro hn
        by_cases hm : Poly.Mem row x
        · rw [l1 hm]
          simp only [Option.bind_some]
          exact ih0 (fun hall => hn (fun q hq => by
            rcases List.mem_cons.mp hq with rfl | hq
            · exact hm
            · exact hall q hq))
        · rw [l0 hm]; simp

theorem apply_constant (n : Nat) (v : α) (x : List α) : (Aff.constant n v : Aff α).apply x = [v] := by
  simp [Aff.constant, Aff.apply, matVec, vadd]

/-- the row `x_l − x_r` -/
theorem dot_subtraction_row (n l r : Nat) (x : List α) (hl : l < n) (hr : r < n) (hlr : l ≠ r) :
    dot ((List.range n).map (fun j => if j = r then (-1 : α) else if j = l then 1 else 0)) x =
      x.getD l 0 - x.getD r 0 := by
  have : (List.range n).map (fun j => if j = r then (-1 : α) else if j = l then 1 else 0) =
      vadd (unitVec n l 1) (unitVec n r (-1)) := by
    unfold unitVec
    rw [vadd_range_map]
    apply List.map_congr_left
    intro j _
    have hrl : ¬ r = l := fun e => hlr e.symm
    by_cases h1 : j = r
    · subst h1; simp [hrl]
    · by_cases h2 : j = l
      · subst h2; simp [hlr]
      · simp [h1, h2]
  rw [this, dot_vadd_left _ _ _ (by simp [unitVec_length]), dot_unitVec, dot_unitVec]
  simp [hl, hr]; ring

end AV
