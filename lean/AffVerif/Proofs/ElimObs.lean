import AffVerif.Proofs.ElimSound
/-!
The soundness proof of `infeasible_elimination` once more, for an arbitrary *observation* of the terminal an input
reaches (`PT.obs f`: `f` applied to the index and the map of that terminal) instead of the value only. With
`f i a = i` this says that the sweep keeps the *identity* of the terminal every input reaches (forwarding shortens the
path, never changes where it ends), which is what the terminal-count clause of C06 needs.
The proofs are those of `Proofs/ElimSound.lean` with `PT.eval` replaced by `PT.obs f`.
-/
set_option linter.unusedSectionVars false
set_option linter.unusedVariables false
namespace AV
variable {α : Type} [Field α] [LinearOrder α] [IsStrictOrderedRing α] {β : Type}

mutual
/-- observe the terminal reached by `x`: `f index map` -/
def PT.obs (f : Nat → Aff α → β) : PT α → List α → Option β
  | .node i c kids, x => if kids.allNone then some (f i c.aff) else PKids.obsAt f kids (c.aff.label x) x
def PKids.obsAt (f : Nat → Aff α → β) : PKids α → Nat → List α → Option β
  | .nil, _, _ => none
  | .cons none _, 0, _ => none
  | .cons (some t) _, 0, x => PT.obs f t x
  | .cons _ r, n+1, x => PKids.obsAt f r n x
end

theorem obsAt_two (f : Nat → Aff α → β) (a b : Option (PT α)) (lab : Nat) (x : List α) :
    PKids.obsAt f (.cons a (.cons b .nil)) lab x =
      match lab with
      | 0 => a.bind (fun t => PT.obs f t x)
      | 1 => b.bind (fun t => PT.obs f t x)
      | _ => none := by
  match lab, a, b with
  | 0, none, _ => simp [PKids.obsAt]
  | 0, some _, _ => simp [PKids.obsAt]
  | 1, _, none => simp [PKids.obsAt]
  | 1, _, some _ => simp [PKids.obsAt]
  | n+2, _, _ => simp [PKids.obsAt]

theorem obs_node_state (f : Nat → Aff α → β) (i : Nat) (a : Aff α) (s1 s2 : NState α) (ks : PKids α) (x : List α) :
    PT.obs f (.node i ⟨a, s1⟩ ks) x = PT.obs f (.node i ⟨a, s2⟩ ks) x := by
  simp [PT.obs]

/-- evaluation of the finished node with two processed children: nothing changes for an input that takes
    label `lab`, provided a child marked infeasible is not the one the input takes -/
theorem finish_two_obs (f : Nat → Aff α → β) (i : Nat) (c' : Content α) (ra rb : PT α) (newInf : List Nat) (lastFresh isRoot : Bool)
    (x : List α) (hle : c'.aff.label x ≤ 1)
    (ha2 : ra.val.state.isInfeasible = true → c'.aff.label x ≠ 0)
    (hb2 : rb.val.state.isInfeasible = true → c'.aff.label x ≠ 1)
    (hn : ∀ l ∈ newInf, (l = 0 ∧ ra.val.state.isInfeasible = true) ∨ (l = 1 ∧ rb.val.state.isInfeasible = true)) :
    PT.obs f (finishNode i c' (.cons (some ra) (.cons (some rb) .nil)) newInf lastFresh isRoot) x =
      PKids.obsAt f (.cons (some ra) (.cons (some rb) .nil)) (c'.aff.label x) x := by
  unfold finishNode
  cases hfl : (if lastFresh then forwardLabel? (.cons (some ra) (.cons (some rb) .nil)) else none) with
  | some l =>
    have hl : forwardLabel? (.cons (some ra) (.cons (some rb) .nil)) = some l := by
      by_cases hf : lastFresh = true
      · simpa [hf] using hfl
      · simp [hf] at hfl
    obtain ⟨a, b, hks, hcase⟩ := forwardLabel_spec _ l hl
    simp only [IKids.cons.injEq, Option.some.injEq, and_true] at hks
    obtain ⟨rfl, rfl⟩ := hks
    simp only
    rcases hcase with ⟨rfl, _, hb⟩ | ⟨rfl, ha, _⟩
    · have h1 := hb2 hb
      have h0 : c'.aff.label x = 0 := by omega
      cases isRoot with
      | true => simp [IKids.set, PT.obs, IKids.allNone, h0, PKids.obsAt]
      | false => simp [IKids.get?, h0, PKids.obsAt]
    · have h0 := ha2 ha
      have h1 : c'.aff.label x = 1 := by omega
      cases isRoot with
      | true => simp [IKids.set, PT.obs, IKids.allNone, h1, PKids.obsAt]
      | false => simp [IKids.get?, h1, PKids.obsAt]
  | none =>
    simp only
    -- deferred removal: only children marked infeasible, never the last one
    match newInf, hn with
    | [], _ => simp [removeLabels, PT.obs, IKids.allNone]
    | [l], hn =>
      rcases hn l (by simp) with ⟨rfl, ha⟩ | ⟨rfl, hb⟩
      · have h0 := ha2 ha
        have h1 : c'.aff.label x = 1 := by omega
        simp [removeLabels, IKids.count, IKids.set, PT.obs, IKids.allNone, h1, PKids.obsAt]
      · have h1 := hb2 hb
        have h0 : c'.aff.label x = 0 := by omega
        simp [removeLabels, IKids.count, IKids.set, PT.obs, IKids.allNone, h0, PKids.obsAt]
    | l1 :: l2 :: rest, hn =>
      rcases hn l1 (by simp) with ⟨rfl, ha⟩ | ⟨rfl, hb⟩
      · have h0 := ha2 ha
        have h1 : c'.aff.label x = 1 := by omega
        -- after removing label 0 a single child is left, which is kept whatever follows
        have : ∀ ls : List Nat, removeLabels (IKids.cons (none : Option (PT α)) (.cons (some rb) .nil)) ls
            = .cons none (.cons (some rb) .nil) := by
          intro ls
          induction ls with
          | nil => rfl
          | cons l ls ih => simp [removeLabels, IKids.count, ih]
        simp [removeLabels, IKids.count, IKids.set, this, PT.obs, IKids.allNone, h1, PKids.obsAt]
      · have h1 := hb2 hb
        have h0 : c'.aff.label x = 0 := by omega
        have : ∀ ls : List Nat, removeLabels (IKids.cons (some ra) (.cons (none : Option (PT α)) .nil)) ls
            = .cons (some ra) (.cons none .nil) := by
          intro ls
          induction ls with
          | nil => rfl
          | cons l ls ih => simp [removeLabels, IKids.count, ih]
        simp [removeLabels, IKids.count, IKids.set, this, PT.obs, IKids.allNone, h0, PKids.obsAt]

end AV

namespace AV
variable {α : Type} [Field α] [LinearOrder α] [IsStrictOrderedRing α] {β : Type}

/-- facts about one processed child, given the induction hypothesis for its sub-tree -/
theorem elimChild_obs_facts {σ : Type} (f : Nat → Aff α → β) (tol : α) (O : Oracles σ α) (hlp : InfeasibleSound O.lp) (n : Nat)
    (path : List (Aff α)) (paff : Aff α) (pst : NState α) (ch : PT α) (l : Nat) (s : σ) (x : List α)
    (hinf : PT.InfSound (path ++ [halfspace paff l]) ch)
    (ih : InPath (path ++ [halfspace paff l]) x → ∀ (st' : NState α) (s' : σ),
      PT.obs f (elimNode tol O n false (path ++ [halfspace paff l]) st' ch s').1 x = PT.obs f ch x) :
    (InPath (path ++ [halfspace paff l]) x → PT.obs f (elimChild tol O n path paff pst ch l s).1 x = PT.obs f ch x) ∧
    ((elimChild tol O n path paff pst ch l s).1.val.state.isInfeasible = true →
        ¬ InPath (path ++ [halfspace paff l]) x) ∧
    ((elimChild tol O n path paff pst ch l s).2.2.1 = true →
        (elimChild tol O n path paff pst ch l s).1.val.state.isInfeasible = true) := by
  have hinf1 : ch.val.state = .infeasible → ¬ ∃ y, InPath (path ++ [halfspace paff l]) y := by
    cases ch with
    | node j cc ks => unfold PT.InfSound at hinf; exact hinf.1
  unfold elimChild
  cases hs : ch.val.state with
  | infeasible =>
    simp only
    refine ⟨fun _ => by simp, fun _ hx => hinf1 hs ⟨x, hx⟩, by simp⟩
  | indeterminate =>
    simp only
    by_cases hd : (decideNode tol O s ch.idx pst path (halfspace paff l) n).1.isInfeasible = true
    · simp only [hd, if_true]
      refine ⟨fun _ => ?_, fun _ hx => decideNode_sound tol O hlp s ch.idx pst path _ n hd ⟨x, hx⟩, fun _ => ?_⟩
      · conv_rhs => rw [node_eta ch]
        exact obs_node_state f _ _ _ _ _ _
      · simpa [ITree.val] using hd
    · simp only [hd, Bool.false_eq_true, if_false]
      refine ⟨fun hx => ih hx _ _, fun hi _ => ?_, by simp⟩
      have := elimNode_state tol O n false (path ++ [halfspace paff l])
        (decideNode tol O s ch.idx pst path (halfspace paff l) n).1 ch
        (decideNode tol O s ch.idx pst path (halfspace paff l) n).2 (by simpa using hd)
      rw [this] at hi; simp at hi
  | feasible =>
    simp only
    refine ⟨fun hx => ih hx _ _, fun hi _ => ?_, by simp⟩
    have := elimNode_state tol O n false (path ++ [halfspace paff l]) .feasible ch s (by simp [NState.isInfeasible])
    rw [this] at hi; simp at hi
  | witness ws =>
    simp only
    refine ⟨fun hx => ih hx _ _, fun hi _ => ?_, by simp⟩
    have := elimNode_state tol O n false (path ++ [halfspace paff l]) (.witness ws) ch s (by simp [NState.isInfeasible])
    rw [this] at hi; simp at hi

end AV

namespace AV
variable {α : Type} [Field α] [LinearOrder α] [IsStrictOrderedRing α] {β : Type}

/-- C03 / C11 core for `infeasible_elimination`: the swept sub-tree evaluates like the original at every input
    that satisfies the path conditions, for every oracle that is right about infeasibility -/
theorem PT.obs_elimNode {σ : Type} (f : Nat → Aff α → β) (tol : α) (O : Oracles σ α) (hlp : InfeasibleSound O.lp) (n : Nat)
    (isRoot : Bool) (path : List (Aff α)) (st : NState α) (t : PT α) (s : σ) (x : List α)
    (hx : InPath path x) (hok : PT.ElimOK t) (hc : PKids.InfSound path t.val.aff 0 t.kids) :
    PT.obs f (elimNode tol O n isRoot path st t s).1 x = PT.obs f t x := by
  match t, hok, hc with
  | .node i c .nil, hok, _ => simp [PT.ElimOK, IKids.length] at hok
  | .node i c (.cons _ .nil), hok, _ => simp [PT.ElimOK, IKids.length] at hok
  | .node i c (.cons _ (.cons _ (.cons _ _))), hok, _ => simp [PT.ElimOK, IKids.length] at hok
  | .node i c (.cons none (.cons none .nil)), _, _ =>
    rw [elimNode_eq]
    simp [elimKids_cons_none, elimKids_nil, finishNode, forwardLabel?, removeLabels, PT.obs, IKids.allNone]
  | .node i c (.cons (some ka) (.cons none .nil)), hok, hc =>
    unfold PT.ElimOK at hok
    obtain ⟨_, hdec, hkok⟩ := hok
    simp only [PKids.ElimOK] at hkok
    have hd := hdec (by simp [IKids.allNone])
    simp only [ITree.val, ITree.kids, PKids.InfSound] at hc
    have hlab := mem_halfspace_label c.aff x hd.1 hd.2
    have hle := label_le_one c.aff x hd.2
    have fa := elimChild_obs_facts f tol O hlp n path c.aff st ka 0 s x hc.1
      (fun hx0 st' s' => PT.obs_elimNode f tol O hlp n false _ st' ka s' x hx0 hkok.1 (by
        have := hc.1; cases ka with | node j cc kk => unfold PT.InfSound at this; exact this.2))
    rw [elimNode_eq]
    simp only [elimKids_cons_some, elimKids_cons_none, elimKids_nil, IKids.count]
    generalize elimChild tol O n path c.aff st ka 0 s = ca at fa
    obtain ⟨f1, f2, f3⟩ := fa
    have hrm : ∀ ls : List Nat, removeLabels (IKids.cons (some ca.1) (.cons (none : Option (PT α)) .nil)) ls
        = .cons (some ca.1) (.cons none .nil) := by
      intro ls
      induction ls with
      | nil => rfl
      | cons l ls ih => simp [removeLabels, IKids.count, ih]
    simp only [finishNode, forwardLabel?, ite_self, hrm, PT.obs, IKids.allNone, Bool.false_eq_true, if_false,
      obsAt_two]
    rcases (by omega : c.aff.label x = 0 ∨ c.aff.label x = 1) with h0 | h1
    · rw [h0] at hlab ⊢
      simp only [Option.bind_some]
      exact f1 (hx.append (InPath.single hlab))
    · rw [h1]; simp
  | .node i c (.cons none (.cons (some kb) .nil)), hok, hc =>
    unfold PT.ElimOK at hok
    obtain ⟨_, hdec, hkok⟩ := hok
    simp only [PKids.ElimOK] at hkok
    have hd := hdec (by simp [IKids.allNone])
    simp only [ITree.val, ITree.kids, PKids.InfSound] at hc
    have hlab := mem_halfspace_label c.aff x hd.1 hd.2
    have hle := label_le_one c.aff x hd.2
    have fb := elimChild_obs_facts f tol O hlp n path c.aff st kb 1 s x hc.1
      (fun hx0 st' s' => PT.obs_elimNode f tol O hlp n false _ st' kb s' x hx0 hkok.1 (by
        have := hc.1; cases kb with | node j cc kk => unfold PT.InfSound at this; exact this.2))
    rw [elimNode_eq]
    simp only [elimKids_cons_some, elimKids_cons_none, elimKids_nil, IKids.count]
    generalize elimChild tol O n path c.aff st kb (0+1) s = cb at fb
    obtain ⟨f1, f2, f3⟩ := fb
    have hrm : ∀ ls : List Nat, removeLabels (IKids.cons (none : Option (PT α)) (.cons (some cb.1) .nil)) ls
        = .cons none (.cons (some cb.1) .nil) := by
      intro ls
      induction ls with
      | nil => rfl
      | cons l ls ih => simp [removeLabels, IKids.count, ih]
    simp only [finishNode, forwardLabel?, ite_self, hrm, PT.obs, IKids.allNone, Bool.false_eq_true, if_false,
      obsAt_two]
    rcases (by omega : c.aff.label x = 0 ∨ c.aff.label x = 1) with h0 | h1
    · rw [h0]; simp
    · rw [h1] at hlab ⊢
      simp only [Option.bind_some]
      exact f1 (hx.append (InPath.single hlab))
  | .node i c (.cons (some ka) (.cons (some kb) .nil)), hok, hc =>
    unfold PT.ElimOK at hok
    obtain ⟨_, hdec, hkok⟩ := hok
    simp only [PKids.ElimOK] at hkok
    have hd := hdec (by simp [IKids.allNone])
    simp only [ITree.val, ITree.kids, PKids.InfSound] at hc
    have hlab := mem_halfspace_label c.aff x hd.1 hd.2
    have hle := label_le_one c.aff x hd.2
    have fa := elimChild_obs_facts f tol O hlp n path c.aff st ka 0 s x hc.1
      (fun hx0 st' s' => PT.obs_elimNode f tol O hlp n false _ st' ka s' x hx0 hkok.1 (by
        have := hc.1; cases ka with | node j cc kk => unfold PT.InfSound at this; exact this.2))
    have fb := fun s1 => elimChild_obs_facts f tol O hlp n path c.aff st kb 1 s1 x hc.2.1
      (fun hx0 st' s' => PT.obs_elimNode f tol O hlp n false _ st' kb s' x hx0 hkok.2.1 (by
        have := hc.2.1; cases kb with | node j cc kk => unfold PT.InfSound at this; exact this.2))
    rw [elimNode_eq]
    simp only [elimKids_cons_some, elimKids_nil, IKids.count]
    generalize elimChild tol O n path c.aff st ka 0 s = ca at fa
    obtain ⟨a1, a2, a3⟩ := fa
    have fb' := fb ca.2.1
    generalize elimChild tol O n path c.aff st kb (0+1) ca.2.1 = cb at fb'
    obtain ⟨b1, b2, b3⟩ := fb'
    simp only [Nat.zero_add, Nat.add_eq_zero_iff, one_ne_zero, and_false, if_false, if_true]
    rw [finish_two_obs f i ⟨c.aff, st⟩ ca.1 cb.1 _ _ isRoot x hle]
    · simp only [PT.obs, IKids.allNone, Bool.false_eq_true, if_false, obsAt_two]
      rcases (by omega : c.aff.label x = 0 ∨ c.aff.label x = 1) with h0 | h1
      · rw [h0] at hlab ⊢
        simp only [Option.bind_some]
        exact a1 (hx.append (InPath.single hlab))
      · rw [h1] at hlab ⊢
        simp only [Option.bind_some]
        exact b1 (hx.append (InPath.single hlab))
    · intro hi h0
      rw [h0] at hlab
      exact a2 hi (hx.append (InPath.single hlab))
    · intro hi h1
      rw [h1] at hlab
      exact b2 hi (hx.append (InPath.single hlab))
    · intro l hl
      cases hna : ca.2.2.1 <;> cases hnb : cb.2.2.1 <;> simp [hna, hnb] at hl
      · right; exact ⟨hl, b3 hnb⟩
      · left; exact ⟨hl, a3 hna⟩
      · rcases hl with rfl | rfl
        · left; exact ⟨rfl, a3 hna⟩
        · right; exact ⟨rfl, b3 hnb⟩
termination_by sizeOf t
decreasing_by
  all_goals simp_wf
  all_goals omega

end AV

namespace AV
variable {α : Type} [Field α] [LinearOrder α] [IsStrictOrderedRing α] {β : Type}

/-- the sweep keeps every observation of the terminal an input reaches -/
theorem PT.obs_infeasibleElimination {σ : Type} (f : Nat → Aff α → β) (tol : α) (O : Oracles σ α)
    (hlp : InfeasibleSound O.lp) (n : Nat) (t : PT α) (s : σ) (x : List α) (hok : PT.ElimOK t) (hc : PT.InfSound [] t) :
    PT.obs f (infeasibleElimination tol O n t s).1 x = PT.obs f t x := by
  unfold infeasibleElimination
  refine PT.obs_elimNode f tol O hlp n true [] t.val.state t s x (by intro h hh; simp at hh) hok ?_
  cases t with
  | node i c ks => unfold PT.InfSound at hc; exact hc.2

mutual
/-- the terminals of a tree (index and map), in pre-order -/
def PT.terminals : PT α → List (Nat × Aff α)
  | .node i c ks => if ks.allNone then [(i, c.aff)] else PKids.terminals ks
def PKids.terminals : PKids α → List (Nat × Aff α)
  | .nil => []
  | .cons none r => PKids.terminals r
  | .cons (some t) r => PT.terminals t ++ PKids.terminals r
end

mutual
theorem PT.terminals_length (t : PT α) : (PT.terminals t).length = ITree.numTerminals t := by
  match t with
  | .node i c ks =>
    unfold PT.terminals ITree.numTerminals
    split
    · rfl
    · exact PKids.terminals_length ks
theorem PKids.terminals_length (ks : PKids α) : (PKids.terminals ks).length = IKids.numTerminals ks := by
  match ks with
  | .nil => rfl
  | .cons none r => unfold PKids.terminals IKids.numTerminals; exact PKids.terminals_length r
  | .cons (some t) r =>
    unfold PKids.terminals IKids.numTerminals
    rw [List.length_append, PT.terminals_length t, PKids.terminals_length r]
end

mutual
/-- what is observed is observed at a terminal of the tree -/
theorem PT.obs_mem (f : Nat → Aff α → β) (t : PT α) (x : List α) (b : β) (h : PT.obs f t x = some b) :
    ∃ p ∈ PT.terminals t, b = f p.1 p.2 := by
  match t with
  | .node i c ks =>
    unfold PT.obs at h
    unfold PT.terminals
    split at h
    · rename_i ha
      simp only [ha, if_true]
      exact ⟨(i, c.aff), by simp, by simpa using h.symm⟩
    · rename_i ha
      simp only [ha, if_false]
      exact PKids.obsAt_mem f ks _ x b h
theorem PKids.obsAt_mem (f : Nat → Aff α → β) (ks : PKids α) (l : Nat) (x : List α) (b : β)
    (h : PKids.obsAt f ks l x = some b) : ∃ p ∈ PKids.terminals ks, b = f p.1 p.2 := by
  match ks, l with
  | .nil, _ => simp [PKids.obsAt] at h
  | .cons none _, 0 => simp [PKids.obsAt] at h
  | .cons (some t) r, 0 =>
    simp only [PKids.obsAt] at h
    obtain ⟨p, hp, hb⟩ := PT.obs_mem f t x b h
    exact ⟨p, by simp [PKids.terminals, hp], hb⟩
  | .cons none r, l+1 =>
    simp only [PKids.obsAt] at h
    obtain ⟨p, hp, hb⟩ := PKids.obsAt_mem f r l x b h
    exact ⟨p, by simp [PKids.terminals, hp], hb⟩
  | .cons (some t) r, l+1 =>
    simp only [PKids.obsAt] at h
    obtain ⟨p, hp, hb⟩ := PKids.obsAt_mem f r l x b h
    exact ⟨p, by simp [PKids.terminals, hp], hb⟩
end

mutual
/-- observing the index = first component of `find_terminal` -/
theorem PT.obs_idx (t : PT α) (x : List α) :
    PT.obs (fun i _ => i) t x = (PT.findTerminal t x).map (·.1) := by
  match t with
  | .node i c ks =>
    unfold PT.obs PT.findTerminal
    split
    · rfl
    · rw [PKids.obsAt_idx ks _ x]; simp [Option.map_map, Function.comp_def]
theorem PKids.obsAt_idx (ks : PKids α) (l : Nat) (x : List α) :
    PKids.obsAt (fun i _ => i) ks l x = (PKids.findAt ks l x).map (·.1) := by
  match ks, l with
  | .nil, _ => simp [PKids.obsAt, PKids.findAt]
  | .cons none _, 0 => simp [PKids.obsAt, PKids.findAt]
  | .cons (some t) r, 0 => simp only [PKids.obsAt, PKids.findAt]; exact PT.obs_idx t x
  | .cons none r, l+1 => simp only [PKids.obsAt, PKids.findAt]; exact PKids.obsAt_idx r l x
  | .cons (some t) r, l+1 => simp only [PKids.obsAt, PKids.findAt]; exact PKids.obsAt_idx r l x
end

mutual
/-- observing the map = `leafAt` -/
theorem PT.obs_aff (t : PT α) (x : List α) : PT.obs (fun _ a => a) t x = PT.leafAt t x := by
  match t with
  | .node i c ks =>
    unfold PT.obs PT.leafAt
    split
    · rfl
    · exact PKids.obsAt_aff ks _ x
theorem PKids.obsAt_aff (ks : PKids α) (l : Nat) (x : List α) :
    PKids.obsAt (fun _ a => a) ks l x = PKids.leafAtK ks l x := by
  match ks, l with
  | .nil, _ => simp [PKids.obsAt, PKids.leafAtK]
  | .cons none _, 0 => simp [PKids.obsAt, PKids.leafAtK]
  | .cons (some t) r, 0 => simp only [PKids.obsAt, PKids.leafAtK]; exact PT.obs_aff t x
  | .cons none r, l+1 => simp only [PKids.obsAt, PKids.leafAtK]; exact PKids.obsAt_aff r l x
  | .cons (some t) r, l+1 => simp only [PKids.obsAt, PKids.leafAtK]; exact PKids.obsAt_aff r l x
end

end AV
