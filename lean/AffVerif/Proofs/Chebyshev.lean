import AffVerif.Proofs.CertSound
import Mathlib.Tactic.Positivity
import Mathlib.Tactic.FieldSimp
/-!
The Chebyshev-centre program (`chebyshev_center`): a point `(x, r)` satisfies the program exactly when `r ≥ 0` and the
closed ball of radius `r` around `x` lies in the polytope. The row norms are square roots, which are not field
operations: they enter as numbers `s ≥ 0` with `s² = a·a` (what the judge checks of the implementation's last column).
-/
set_option linter.unusedSectionVars false
set_option linter.unusedVariables false
namespace AV
variable {α : Type} [Field α] [LinearOrder α] [IsStrictOrderedRing α]

theorem dot_self_nonneg (a : List α) : 0 ≤ dot a a := by
  induction a with
  | nil => simp
  | cons x a ih => simp only [dot_cons]; nlinarith [mul_self_nonneg x]

theorem cs_two_var (x y P A U : α) (hA : 0 ≤ A) (hU : 0 ≤ U) (hP : P * P ≤ A * U) :
    2 * x * y * P ≤ x * x * U + A * (y * y) := by
  by_contra hc
  push Not at hc
  have h0 : 0 ≤ x * x * U + A * (y * y) := by
    have := mul_nonneg (mul_self_nonneg x) hU
    have := mul_nonneg hA (mul_self_nonneg y)
    linarith
  have h1 : (x * x * U + A * (y * y)) * (x * x * U + A * (y * y)) < (2 * x * y * P) * (2 * x * y * P) :=
    mul_self_lt_mul_self h0 hc
  nlinarith [mul_self_nonneg (x * x * U - A * (y * y)), mul_nonneg (mul_self_nonneg (x * y)) (sub_nonneg.mpr hP)]

/-- Cauchy–Schwarz for coordinate lists over an ordered field -/
theorem cauchy_schwarz (a u : List α) : dot a u * dot a u ≤ dot a a * dot u u := by
  induction a generalizing u with
  | nil => simp
  | cons x a ih =>
    cases u with
    | nil => simp
    | cons y u =>
      simp only [dot_cons]
      have := cs_two_var x y (dot a u) (dot a a) (dot u u) (dot_self_nonneg a) (dot_self_nonneg u) (ih u)
      nlinarith [ih u]

theorem dot_append (a a' x x' : List α) (h : a.length = x.length) :
    dot (a ++ a') (x ++ x') = dot a x + dot a' x' := by
  induction a generalizing x with
  | nil => cases x with
    | nil => simp
    | cons _ _ => simp at h
  | cons c a ih => cases x with
    | nil => simp at h
    | cons d x =>
      simp only [List.cons_append, dot_cons]
      rw [ih x (by simpa using h)]; ring

theorem dot_self_eq_zero (a : List α) (h : dot a a = 0) (x : List α) : dot a x = 0 := by
  induction a generalizing x with
  | nil => simp
  | cons c a ih =>
    simp only [dot_cons] at h
    have h1 := dot_self_nonneg a
    have h2 := mul_self_nonneg c
    have hc : c * c = 0 := by linarith
    have ha : dot a a = 0 := by linarith
    have : c = 0 := by simpa using hc
    subst this
    cases x with
    | nil => simp
    | cons d x => simp [ih ha x]

/-- one row: `a·x + s·r ≤ b` exactly when `a·(x+u) ≤ b` for every `u` with `u·u ≤ r²` -/
theorem row_ball (n : Nat) (a x : List α) (b s r : α) (ha : a.length = n) (hx : x.length = n)
    (hs : 0 ≤ s) (hss : s * s = dot a a) (hr : 0 ≤ r) :
    (dot a x + s * r ≤ b) ↔ ∀ u : List α, u.length = n → dot u u ≤ r * r → dot a (vadd x u) ≤ b := by
  constructor
  · intro h u hu hball
    rw [dot_vadd_right _ _ _ (by rw [hx, hu])]
    have hcs := cauchy_schwarz a u
    have hsr : 0 ≤ s * r := mul_nonneg hs hr
    have hsq : dot a u * dot a u ≤ (s * r) * (s * r) := by
      calc dot a u * dot a u ≤ dot a a * dot u u := hcs
        _ ≤ dot a a * (r * r) := mul_le_mul_of_nonneg_left hball (dot_self_nonneg a)
        _ = (s * r) * (s * r) := by rw [← hss]; ring
    have : dot a u ≤ s * r := by
      by_contra hc
      push Not at hc
      have := mul_self_lt_mul_self hsr hc
      linarith
    linarith
  · intro h
    rcases eq_or_lt_of_le hs with hs0 | hspos
    · -- degenerate row: a = 0
      have haa : dot a a = 0 := by rw [← hss, ← hs0]; ring
      have := h (zeros n) (by simp) (by simp; exact mul_self_nonneg r)
      rw [dot_vadd_right _ _ _ (by simp [hx])] at this
      simp only [dot_zeros_right, add_zero] at this
      rw [← hs0]; linarith
    · have hne : s ≠ 0 := ne_of_gt hspos
      have e1 : r / s * (r / s * (s * s)) = r * r := by field_simp
      have e2 : r / s * (s * s) = s * r := by field_simp
      have hu := h (smul (r / s) a) (by simp [smul_length, ha]) (by
        rw [dot_smul_left, dot_comm, dot_smul_left, ← hss, e1])
      rw [dot_vadd_right _ _ _ (by simp [smul_length, ha, hx]), dot_comm a (smul (r / s) a), dot_smul_left, ← hss, e2] at hu
      exact hu

/-- rows of the program against the triples `(aᵢ, sᵢ, bᵢ)` -/
theorem prog_rows (n : Nat) (mat : Mat α) (norms bias : List α) (x : List α) (r : α)
    (hm : ∀ a ∈ mat, a.length = n) (hx : x.length = n) (hl1 : norms.length = mat.length) (hl2 : bias.length = mat.length) :
    (∀ rb ∈ (List.zipWith (fun a nr => a ++ [nr]) mat norms).zip bias, dot rb.1 (x ++ [r]) ≤ rb.2) ↔
    (∀ t ∈ (mat.zip norms).zip bias, dot t.1.1 x + t.1.2 * r ≤ t.2) := by
  induction mat generalizing norms bias with
  | nil => simp
  | cons a mat ih =>
    cases norms with
    | nil => simp at hl1
    | cons s norms =>
      cases bias with
      | nil => simp at hl2
      | cons b bias =>
        simp only [List.zipWith_cons_cons, List.zip_cons_cons, List.mem_cons, forall_eq_or_imp]
        rw [ih norms bias (fun a' h' => hm a' (List.mem_cons_of_mem _ h')) (by simpa using hl1) (by simpa using hl2)]
        rw [dot_append a [s] x [r] (by rw [hm a (by simp), hx])]
        simp

/-- **the Chebyshev-centre program is the inscribed-ball condition** -/
theorem chebyshev_spec (p : Aff α) (norms : List α) (hwf : p.WF) (hlen : norms.length = p.mat.length)
    (hn : ∀ t ∈ p.mat.zip norms, 0 ≤ t.2 ∧ t.2 * t.2 = dot t.1 t.1)
    (x : List α) (hx : x.length = p.indim) (r : α) :
    Poly.Mem (Poly.chebyshev p norms).1 (x ++ [r]) ↔
      0 ≤ r ∧ ∀ u : List α, u.length = p.indim → dot u u ≤ r * r → Poly.Mem p (vadd x u) := by
  unfold Poly.chebyshev Poly.Mem Aff.rows
  simp only
  have hzl : (List.zipWith (fun a nr => a ++ [nr]) p.mat norms).length = p.bias.length := by
    simp [hlen, hwf.2]
  rw [List.zip_append hzl]
  simp only [List.zip_cons_cons, List.zip_nil_right, List.mem_append, List.mem_singleton]
  have hrad : dot (zeros p.indim ++ [-1]) (x ++ [r]) ≤ 0 ↔ 0 ≤ r := by
    rw [dot_append _ _ _ _ (by simp [hx])]
    simp
  constructor
  · intro h
    have hr : 0 ≤ r := hrad.mp (h _ (Or.inr rfl))
    refine ⟨hr, fun u hu hball rb hrb => ?_⟩
    have hrows := (prog_rows p.indim p.mat norms p.bias x r hwf.1 hx hlen hwf.2).mp (fun rb' h' => h rb' (Or.inl h'))
    -- find the norm that belongs to this row
    obtain ⟨i, hi, hie⟩ := List.mem_iff_getElem.mp hrb
    simp only [List.length_zip, hwf.2, min_self] at hi
    have hin : i < norms.length := by rw [hlen]; exact hi
    have hib : i < p.bias.length := by rw [hwf.2]; exact hi
    have ht : ((p.mat[i], norms[i]), p.bias[i]) ∈ (p.mat.zip norms).zip p.bias :=
      List.mem_iff_getElem.mpr ⟨i, by simp [hi, hin, hib], by simp⟩
    have hnorm := hn (p.mat[i], norms[i]) (List.mem_iff_getElem.mpr ⟨i, by simp [hi, hin], by simp⟩)
    have := (row_ball p.indim p.mat[i] x p.bias[i] norms[i] r (hwf.1 _ (List.getElem_mem hi)) hx hnorm.1 hnorm.2 hr).mp
      (hrows _ ht) u hu hball
    simp only [List.getElem_zip] at hie
    rw [← hie]; exact this
  · rintro ⟨hr, hball⟩ rb hrb
    rcases hrb with hrb | rfl
    · have hrows : ∀ t ∈ (p.mat.zip norms).zip p.bias, dot t.1.1 x + t.1.2 * r ≤ t.2 := by
        intro t ht
        obtain ⟨i, hi, hie⟩ := List.mem_iff_getElem.mp ht
        simp only [List.length_zip, hlen, hwf.2, min_self] at hi
        have hin : i < norms.length := by rw [hlen]; exact hi
        have hib : i < p.bias.length := by rw [hwf.2]; exact hi
        simp only [List.getElem_zip] at hie
        rw [← hie]
        have hnorm := hn (p.mat[i], norms[i]) (List.mem_iff_getElem.mpr ⟨i, by simp [hi, hin], by simp⟩)
        refine (row_ball p.indim p.mat[i] x p.bias[i] norms[i] r (hwf.1 _ (List.getElem_mem hi)) hx hnorm.1 hnorm.2 hr).mpr ?_
        intro u hu hb
        exact hball u hu hb (p.mat[i], p.bias[i]) (List.mem_iff_getElem.mpr ⟨i, by simp [hi, hib], by simp⟩)
      exact (prog_rows p.indim p.mat norms p.bias x r hwf.1 hx hlen hwf.2).mpr hrows rb hrb
    · exact hrad.mpr hr

end AV
