import AffVerif.Proofs.ElimSound
import AffVerif.Proofs.ShapeLemmas
/-!
`infeasible_elimination` keeps the tree well-formed — for *every* behaviour of the LP backend and of
`mirror_points` (no hypothesis on the oracles): C04, and the well-formedness clause of C11.
-/
set_option linter.unusedSectionVars false
set_option linter.unusedVariables false
namespace AV
variable {α : Type} [Field α] [LinearOrder α] [IsStrictOrderedRing α]

theorem IKids.set_length {β : Type} (ks : IKids β) (l : Nat) (o : Option (ITree β)) : (ks.set l o).length = ks.length := by
  match ks, l with
  | .nil, _ => simp [IKids.set]
  | .cons k r, 0 => simp [IKids.set, IKids.length]
  | .cons k r, l+1 => simp [IKids.set, IKids.length, IKids.set_length r l o]

theorem IKids.allNone_iff_count {β : Type} (ks : IKids β) : ks.allNone = true ↔ ks.count = 0 := by
  match ks with
  | .nil => simp [IKids.allNone, IKids.count]
  | .cons none r => simp [IKids.allNone, IKids.count, IKids.allNone_iff_count r]
  | .cons (some t) r => simp [IKids.allNone, IKids.count]

theorem IKids.count_set_none {β : Type} (ks : IKids β) (l : Nat) : ks.count ≤ (ks.set l none).count + 1 := by
  match ks, l with
  | .nil, _ => simp [IKids.set, IKids.count]
  | .cons none r, 0 => simp [IKids.set, IKids.count]
  | .cons (some t) r, 0 => simp [IKids.set, IKids.count]
  | .cons none r, l+1 => simp only [IKids.set, IKids.count]; exact IKids.count_set_none r l
  | .cons (some t) r, l+1 => simp only [IKids.set, IKids.count]; have := IKids.count_set_none r l; omega

theorem PKids.shaped_set_none (ks : PKids α) (l K n m : Nat) (h : PKids.Shaped K n m ks) :
    PKids.Shaped K n m (ks.set l none) := by
  match ks, l with
  | .nil, _ => simp [IKids.set, PKids.Shaped]
  | .cons none r, 0 => simpa [IKids.set, PKids.Shaped] using h
  | .cons (some t) r, 0 => simp only [IKids.set, PKids.Shaped] at h ⊢; exact h.2
  | .cons none r, l+1 => simp only [IKids.set, PKids.Shaped] at h ⊢; exact PKids.shaped_set_none r l K n m h
  | .cons (some t) r, l+1 =>
    simp only [IKids.set, PKids.Shaped] at h ⊢; exact ⟨h.1, PKids.shaped_set_none r l K n m h.2⟩

/-- deferred removal keeps the slot count, the shape of the remaining children, and at least one child -/
theorem removeLabels_facts (ks : PKids α) (ls : List Nat) (K n m : Nat) (h : PKids.Shaped K n m ks) :
    (removeLabels ks ls).length = ks.length ∧ PKids.Shaped K n m (removeLabels ks ls) ∧
    (1 ≤ ks.count → 1 ≤ (removeLabels ks ls).count) := by
  induction ls generalizing ks with
  | nil => simp [removeLabels, h]
  | cons l ls ih =>
    simp only [removeLabels]
    split
    · rename_i hc
      obtain ⟨i1, i2, i3⟩ := ih (ks.set l none) (PKids.shaped_set_none ks l K n m h)
      refine ⟨by rw [i1, IKids.set_length], i2, fun _ => i3 ?_⟩
      have := IKids.count_set_none ks l
      omega
    · exact ih ks h

/-- a decision node rebuilt with fewer (but not zero) children is still shaped -/
theorem shaped_node_of (i : Nat) (aff : Aff α) (st st' : NState α) (ks ks' : PKids α) (n m : Nat)
    (h : PT.Shaped 2 n m (.node i ⟨aff, st⟩ ks)) (hl : ks'.length = 2) (hk : PKids.Shaped 2 n m ks')
    (hc : ks.allNone = false → 1 ≤ ks'.count) (ht : ks.allNone = true → ks'.allNone = true) :
    PT.Shaped 2 n m (.node i ⟨aff, st'⟩ ks') := by
  unfold PT.Shaped at h ⊢
  obtain ⟨hwf, hin, hlen, hout, hdec, _⟩ := h
  cases hall : ks.allNone with
  | true =>
    have := ht hall
    exact ⟨hwf, hin, hl, fun _ => hout hall, fun h' => by rw [this] at h'; simp at h', hk⟩
  | false =>
    have h1 := hc hall
    have hne : ks'.allNone = false := by
      cases hh : ks'.allNone with
      | false => rfl
      | true => have := (IKids.allNone_iff_count ks').mp hh; omega
    exact ⟨hwf, hin, hl, fun h' => by rw [hne] at h'; simp at h', fun _ => hdec hall, hk⟩

theorem finish_two_shaped (i : Nat) (aff : Aff α) (st st0 : NState α) (ka kb ra rb : PT α) (newInf : List Nat)
    (lastFresh isRoot : Bool) (n m : Nat)
    (h : PT.Shaped 2 n m (.node i ⟨aff, st0⟩ (.cons (some ka) (.cons (some kb) .nil))))
    (ha : PT.Shaped 2 n m ra) (hb : PT.Shaped 2 n m rb) :
    PT.Shaped 2 n m (finishNode i ⟨aff, st⟩ (.cons (some ra) (.cons (some rb) .nil)) newInf lastFresh isRoot) := by
  unfold finishNode
  have hkids : PKids.Shaped 2 n m (.cons (some ra) (.cons (some rb) .nil)) := by
    simp only [PKids.Shaped]; exact ⟨ha, hb, trivial⟩
  cases hfl : (if lastFresh then forwardLabel? (.cons (some ra) (.cons (some rb) .nil)) else none) with
  | some l =>
    simp only
    have hl : forwardLabel? (.cons (some ra) (.cons (some rb) .nil)) = some l := by
      by_cases hf : lastFresh = true
      · simpa [hf] using hfl
      · simp [hf] at hfl
    obtain ⟨a, b, hks, hcase⟩ := forwardLabel_spec _ l hl
    have hl01 : l = 0 ∨ l = 1 := by rcases hcase with ⟨h, _⟩ | ⟨h, _⟩ <;> simp [h]
    cases isRoot with
    | true =>
      simp only [if_true]
      refine shaped_node_of i aff st0 st _ _ n m h (by simp [IKids.set_length, IKids.length])
        (PKids.shaped_set_none _ _ 2 n m hkids) (fun _ => ?_) (fun hh => by simp [IKids.allNone] at hh)
      rcases hl01 with rfl | rfl <;> simp [IKids.set, IKids.count]
    | false =>
      simp only [Bool.false_eq_true, if_false]
      rcases hl01 with rfl | rfl
      · simpa [IKids.get?] using ha
      · simpa [IKids.get?] using hb
  | none =>
    simp only
    obtain ⟨r1, r2, r3⟩ := removeLabels_facts (.cons (some ra) (.cons (some rb) .nil)) newInf 2 n m hkids
    exact shaped_node_of i aff st0 st _ _ n m h (by rw [r1]; simp [IKids.length]) r2
      (fun _ => r3 (by simp [IKids.count])) (fun hh => by simp [IKids.allNone] at hh)

end AV

namespace AV
variable {α : Type} [Field α] [LinearOrder α] [IsStrictOrderedRing α]

theorem shaped_restate (ch : PT α) (st : NState α) (n m : Nat) (h : PT.Shaped 2 n m ch) :
    PT.Shaped 2 n m (.node ch.idx ⟨ch.val.aff, st⟩ ch.kids) := by
  cases ch with
  | node j cc ks =>
    simp only [ITree.idx, ITree.val, ITree.kids]
    unfold PT.Shaped at h ⊢
    exact h

theorem elimChild_shaped {σ : Type} (tol : α) (O : Oracles σ α) (n : Nat) (path : List (Aff α)) (paff : Aff α)
    (pst : NState α) (ch : PT α) (l : Nat) (s : σ) (m : Nat) (h : PT.Shaped 2 n m ch)
    (ih : ∀ (st' : NState α) (p' : List (Aff α)) (s' : σ), PT.Shaped 2 n m (elimNode tol O n false p' st' ch s').1) :
    PT.Shaped 2 n m (elimChild tol O n path paff pst ch l s).1 := by
  unfold elimChild
  cases hs : ch.val.state with
  | infeasible => simpa using h
  | indeterminate =>
    simp only
    split
    · exact shaped_restate ch _ n m h
    · exact ih _ _ _
  | feasible => exact ih _ _ _
  | witness ws => exact ih _ _ _

/-- C04 / C11 for `infeasible_elimination`: the swept tree is well-formed, whatever the oracles answer -/
theorem PT.shaped_elimNode {σ : Type} (tol : α) (O : Oracles σ α) (n : Nat) (isRoot : Bool) (path : List (Aff α))
    (st : NState α) (t : PT α) (s : σ) (m : Nat) (h : PT.Shaped 2 n m t) :
    PT.Shaped 2 n m (elimNode tol O n isRoot path st t s).1 := by
  match t, h with
  | .node i c .nil, h => simp [PT.Shaped, IKids.length] at h
  | .node i c (.cons _ .nil), h => simp [PT.Shaped, IKids.length] at h
  | .node i c (.cons _ (.cons _ (.cons _ _))), h => simp [PT.Shaped, IKids.length] at h
  | .node i c (.cons none (.cons none .nil)), h =>
    rw [elimNode_eq]
    simp only [elimKids_cons_none, elimKids_nil, finishNode, forwardLabel?, ite_self, removeLabels]
    have : PT.Shaped 2 n m (.node i ⟨c.aff, c.state⟩ (.cons none (.cons none .nil))) := by cases c; exact h
    exact shaped_node_of i c.aff c.state st _ _ n m this rfl (by simp [PKids.Shaped]) (fun hh => by simp [IKids.allNone] at hh)
      (fun _ => rfl)
  | .node i c (.cons (some ka) (.cons none .nil)), h =>
    have hka : PT.Shaped 2 n m ka := by unfold PT.Shaped at h; simp only [PKids.Shaped] at h; exact h.2.2.2.2.2.1
    have ca := fun s1 => elimChild_shaped tol O n path c.aff st ka 0 s1 m hka
      (fun st' p' s' => PT.shaped_elimNode tol O n false p' st' ka s' m hka)
    rw [elimNode_eq]
    simp only [elimKids_cons_some, elimKids_cons_none, elimKids_nil, IKids.count]
    have hks : PKids.Shaped 2 n m (.cons (some (elimChild tol O n path c.aff st ka 0 s).1) (.cons none .nil)) := by
      simp only [PKids.Shaped]; exact ⟨ca s, trivial⟩
    simp only [finishNode, forwardLabel?, ite_self]
    obtain ⟨r1, r2, r3⟩ := removeLabels_facts _ (if (elimChild tol O n path c.aff st ka 0 s).2.2.1 = true then [0] else []) 2 n m hks
    have : PT.Shaped 2 n m (.node i ⟨c.aff, c.state⟩ (.cons (some ka) (.cons none .nil))) := by cases c; exact h
    exact shaped_node_of i c.aff c.state st _ _ n m this (by rw [r1]; simp [IKids.length]) r2
      (fun _ => r3 (by simp [IKids.count])) (fun hh => by simp [IKids.allNone] at hh)
  | .node i c (.cons none (.cons (some kb) .nil)), h =>
    have hkb : PT.Shaped 2 n m kb := by unfold PT.Shaped at h; simp only [PKids.Shaped] at h; exact h.2.2.2.2.2.1
    have cb := fun s1 => elimChild_shaped tol O n path c.aff st kb 1 s1 m hkb
      (fun st' p' s' => PT.shaped_elimNode tol O n false p' st' kb s' m hkb)
    rw [elimNode_eq]
    simp only [elimKids_cons_some, elimKids_cons_none, elimKids_nil, IKids.count]
    have hks : PKids.Shaped 2 n m (.cons none (.cons (some (elimChild tol O n path c.aff st kb (0+1) s).1) .nil)) := by
      simp only [PKids.Shaped]; exact ⟨cb s, trivial⟩
    simp only [finishNode, forwardLabel?, ite_self]
    obtain ⟨r1, r2, r3⟩ := removeLabels_facts _ (if (elimChild tol O n path c.aff st kb (0+1) s).2.2.1 = true then [0+1] else []) 2 n m hks
    have : PT.Shaped 2 n m (.node i ⟨c.aff, c.state⟩ (.cons none (.cons (some kb) .nil))) := by cases c; exact h
    exact shaped_node_of i c.aff c.state st _ _ n m this (by rw [r1]; simp [IKids.length]) r2
      (fun _ => r3 (by simp [IKids.count])) (fun hh => by simp [IKids.allNone] at hh)
  | .node i c (.cons (some ka) (.cons (some kb) .nil)), h =>
    have hka : PT.Shaped 2 n m ka := by unfold PT.Shaped at h; simp only [PKids.Shaped] at h; exact h.2.2.2.2.2.1
    have hkb : PT.Shaped 2 n m kb := by unfold PT.Shaped at h; simp only [PKids.Shaped] at h; exact h.2.2.2.2.2.2.1
    have ca := fun s1 => elimChild_shaped tol O n path c.aff st ka 0 s1 m hka
      (fun st' p' s' => PT.shaped_elimNode tol O n false p' st' ka s' m hka)
    have cb := fun s1 => elimChild_shaped tol O n path c.aff st kb 1 s1 m hkb
      (fun st' p' s' => PT.shaped_elimNode tol O n false p' st' kb s' m hkb)
    rw [elimNode_eq]
    simp only [elimKids_cons_some, elimKids_nil, IKids.count]
    have : PT.Shaped 2 n m (.node i ⟨c.aff, c.state⟩ (.cons (some ka) (.cons (some kb) .nil))) := by cases c; exact h
    exact finish_two_shaped i c.aff st c.state ka kb _ _ _ _ isRoot n m this (ca s) (cb _)
termination_by sizeOf t
decreasing_by
  all_goals simp_wf
  all_goals omega

/-- `infeasible_elimination` keeps a shaped tree shaped, for any solver behaviour -/
theorem PT.shaped_infeasibleElimination {σ : Type} (tol : α) (O : Oracles σ α) (n m : Nat) (t : PT α) (s : σ)
    (h : PT.Shaped 2 n m t) : PT.Shaped 2 n m (infeasibleElimination tol O n t s).1 :=
  PT.shaped_elimNode tol O n true [] t.val.state t s m h

end AV
