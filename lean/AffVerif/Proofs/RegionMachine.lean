import AffVerif.Proofs.TreeLemmas
import AffVerif.Proofs.IterLemmas
import AffVerif.Model.Regions
/-!
The `PolyhedraGen` machine (`DfsPre` + a stack of half-spaces that is cut back to the depth of the next node and
extended by the half-space of the edge from its parent, found by `parent()` look-ups in the arena) emits exactly the
reference stream `regionsSkipT`, for every skip schedule, provided the indices of the tree are pairwise distinct
(C12's invariant).
-/
set_option linter.unusedVariables false
namespace AV
variable {α : Type} [Zero α] [One α] [Add α] [Mul α] [Neg α] [Sub α]

/-- the DFS stack with, for every pending sub-tree, the path conditions the reference assigns to its root -/
abbrev RStack (α : Type) := List (Nat × PT α × Nat × List (Aff α))

def RStack.erase (S : RStack α) : Stack (Content α) := S.map (fun e => (e.1, e.2.1, e.2.2.1))

def refRegStack (sk : Nat → Nat) : RStack α → Nat → List (Item × List (Aff α)) × Nat
  | [], k => ([], k)
  | (d, t, r, path) :: rest, k =>
    let a := regionsSkipT sk t d r path k
    let b := refRegStack sk rest a.2
    (a.1 ++ b.1, b.2)

/-- stack entries for the children in `ks` (first label `l`) of a node with predicate `a` and path `path` -/
def rentries (d : Nat) (a : Aff α) (path : List (Aff α)) : PKids α → Nat → RStack α
  | .nil, _ => []
  | .cons none r, l => rentries d a path r (l+1)
  | .cons (some t) r, l => (d, t, r.count, path ++ [halfspace a l]) :: rentries d a path r (l+1)

theorem refRegStack_append (sk : Nat → Nat) (S1 S2 : RStack α) (k : Nat) :
    refRegStack sk (S1 ++ S2) k =
      ((refRegStack sk S1 k).1 ++ (refRegStack sk S2 (refRegStack sk S1 k).2).1,
       (refRegStack sk S2 (refRegStack sk S1 k).2).2) := by
  induction S1 generalizing k with
  | nil => simp [refRegStack]
  | cons e S1 ih =>
    obtain ⟨d, t, r, path⟩ := e
    simp only [List.cons_append, refRegStack, ih, List.append_assoc]

theorem refRegStack_rentries (sk : Nat → Nat) (d : Nat) (a : Aff α) (path : List (Aff α)) (ks : PKids α) (l k : Nat) :
    refRegStack sk (rentries d a path ks l) k = regionsSkipK sk ks a l d path k := by
  match ks with
  | .nil => simp [rentries, refRegStack, regionsSkipK]
  | .cons none rest => simp only [rentries, regionsSkipK]; exact refRegStack_rentries sk d a path rest (l+1) k
  | .cons (some t) rest =>
    simp only [rentries, refRegStack, regionsSkipK]
    rw [refRegStack_rentries sk d a path rest (l+1)]

theorem erase_rentries (d : Nat) (a : Aff α) (path : List (Aff α)) (ks : PKids α) (l : Nat) :
    RStack.erase (rentries d a path ks l) = entries d ks.childList := by
  match ks with
  | .nil => simp [rentries, RStack.erase, childList_nil, entries]
  | .cons none rest => rw [childList_cons_none]; simp only [rentries]; exact erase_rentries d a path rest (l+1)
  | .cons (some t) rest =>
    rw [childList_cons_some]
    simp only [rentries, RStack.erase, List.map_cons, entries, childList_length]
    have := erase_rentries d a path rest (l+1)
    simp only [RStack.erase] at this
    rw [this]

theorem erase_append (S1 S2 : RStack α) : RStack.erase (S1 ++ S2) = RStack.erase S1 ++ RStack.erase S2 := by
  simp [RStack.erase]

theorem erase_length (S : RStack α) : (RStack.erase S).length = S.length := by simp [RStack.erase]

theorem stackSize_erase_cons (d : Nat) (t : PT α) (r : Nat) (path : List (Aff α)) (S : RStack α) :
    stackSize (RStack.erase ((d, t, r, path) :: S)) = t.size + stackSize (RStack.erase S) := by
  simp [RStack.erase, stackSize]

/-- `t` occurs in `whole` -/
def SubOf (whole t : PT α) : Prop := ∃ q, (t, q) ∈ ITree.subs whole none

/-- what the machine needs to know about one pending entry, relative to the current predicate stack -/
def EntryOK (whole : PT α) (preds : List (Aff α)) (last : Nat) (e : Nat × PT α × Nat × List (Aff α)) : Prop :=
  SubOf whole e.2.1 ∧
  (e.1 = 0 → e.2.2.2 = [] ∧ ITree.parentOf? whole e.2.1.idx = none) ∧
  (∀ d', e.1 = d' + 1 → d' ≤ last ∧ ∃ pn l, ITree.parentOf? whole e.2.1.idx = some (pn.idx, l) ∧
      ITree.find? whole pn.idx = some pn ∧ e.2.2.2 = preds.take d' ++ [halfspace pn.val.aff l])

structure RInv (whole : PT α) (preds : List (Aff α)) (last : Nat) (S : RStack α) : Prop where
  len : preds.length = last
  sorted : S.Pairwise (fun a b => b.1 ≤ a.1)
  ok : ∀ e ∈ S, EntryOK whole preds last e

/-- what `next` computes for the top entry: the path conditions the reference assigns to it -/
theorem pgen_preds (whole : PT α) (preds : List (Aff α)) (last : Nat) (d : Nat) (t : PT α) (r : Nat)
    (path : List (Aff α)) (hlen : preds.length = last) (hok : EntryOK whole preds last (d, t, r, path)) :
    PGen.predsNext whole preds last ⟨d, t.idx, r⟩ = path ∧ path.length = d := by
  obtain ⟨_, h0, h1⟩ := hok
  unfold PGen.predsNext
  simp only
  cases d with
  | zero =>
    obtain ⟨hp, hpar⟩ := h0 rfl
    simp only at hpar hp
    rw [hpar, hp]
    simp [hlen]
  | succ d' =>
    obtain ⟨hle, pn, l, hpar, hfind, hp⟩ := h1 d' rfl
    simp only at hpar hfind hp
    rw [hpar]
    simp only [hfind]
    have hcut : (if d' + 1 ≤ last then preds.take (preds.length - (1 + last - (d' + 1))) else preds) = preds.take d' := by
      split
      · rename_i h; congr 1; omega
      · rename_i h
        have : d' = last := by omega
        rw [this, ← hlen, List.take_length]
    rw [hcut, hp]
    refine ⟨rfl, ?_⟩
    simp [List.length_take]; omega

theorem take_take_append (preds : List (Aff α)) (d' d2 : Nat) (h : Aff α) (h2 : d2 ≤ d') (hd : d' ≤ preds.length) :
    (preds.take d' ++ [h]).take d2 = preds.take d2 := by
  rw [List.take_append_of_le_length (by simp [List.length_take]; omega), List.take_take]
  congr 1; omega

theorem rentries_mem (d : Nat) (a : Aff α) (path : List (Aff α)) (ks : PKids α) (l0 : Nat) :
    ∀ e ∈ rentries d a path ks l0, ∃ k c', ks.get? k = some c' ∧ e.1 = d ∧ e.2.1 = c' ∧
      e.2.2.2 = path ++ [halfspace a (l0 + k)] := by
  match ks with
  | .nil => intro e he; simp [rentries] at he
  | .cons none r =>
    intro e he
    simp only [rentries] at he
    obtain ⟨k, c', h1, h2, h3, h4⟩ := rentries_mem d a path r (l0+1) e he
    exact ⟨k+1, c', by simpa [IKids.get?] using h1, h2, h3, by rw [h4]; congr 3; omega⟩
  | .cons (some t) r =>
    intro e he
    simp only [rentries, List.mem_cons] at he
    rcases he with rfl | he
    · exact ⟨0, t, by simp [IKids.get?], rfl, rfl, by simp⟩
    · obtain ⟨k, c', h1, h2, h3, h4⟩ := rentries_mem d a path r (l0+1) e he
      exact ⟨k+1, c', by simpa [IKids.get?] using h1, h2, h3, by rw [h4]; congr 3; omega⟩

/-- the invariant after `next` on the top entry (before any skip) -/
theorem rinv_next (whole : PT α) (hnd : whole.indices.Nodup) (preds : List (Aff α)) (last : Nat)
    (d : Nat) (i : Nat) (c : Content α) (ks : PKids α) (r : Nat) (path : List (Aff α)) (rest : RStack α)
    (h : RInv whole preds last ((d, .node i c ks, r, path) :: rest)) (hpl : path.length = d)
    (hpath : d = 0 ∨ ∃ d', d = d' + 1 ∧ d' ≤ last ∧ ∃ hh, path = preds.take d' ++ [hh]) :
    RInv whole path d (rentries (d+1) c.aff path ks 0 ++ rest) := by
  obtain ⟨hlen, hsorted, hok⟩ := h
  have htop := hok _ List.mem_cons_self
  obtain ⟨⟨q, hsub⟩, _, _⟩ := htop
  simp only at hsub
  rw [List.pairwise_cons] at hsorted
  have hdepth : ∀ e ∈ rentries (d+1) c.aff path ks 0, e.1 = d + 1 := by
    intro e he
    obtain ⟨_, _, _, h2, _, _⟩ := rentries_mem (d+1) c.aff path ks 0 e he
    exact h2
  refine ⟨hpl, ?_, ?_⟩
  · -- sorted: the children all have depth d+1, the older entries at most d
    rw [List.pairwise_append]
    refine ⟨List.pairwise_of_forall_mem_list (fun a ha b hb => by rw [hdepth a ha, hdepth b hb]; exact Nat.le_refl _),
      hsorted.2, ?_⟩
    intro a ha b hb
    rw [hdepth a ha]
    have := hsorted.1 b hb
    simp only at this
    omega
  · intro e he
    rcases List.mem_append.mp he with he | he
    · -- a child of the emitted node
      obtain ⟨k, c', hk, hd, hc, hp⟩ := rentries_mem (d+1) c.aff path ks 0 e he
      refine ⟨?_, fun h0 => by omega, fun d' hd' => ?_⟩
      · rw [hc]
        exact ⟨some i, ITree.subs_down whole none _ hsub c' (IKids.get?_mem_members _ k c' (by simpa [ITree.kids] using hk))⟩
      · have hd'' : d' = d := by omega
        subst hd''
        refine ⟨Nat.le_refl _, .node i c ks, k, ?_, ?_, ?_⟩
        · rw [hc]
          have := ITree.parentOf?_of_child whole none hnd _ hsub k c' (by simpa [ITree.kids] using hk)
          simpa [ITree.idx] using this
        · have := ITree.find?_of_sub whole none hnd _ hsub
          simpa [ITree.idx] using this
        · rw [hp]
          simp only [ITree.val, Nat.zero_add]
          rw [← hpl, List.take_length]
    · -- an older entry: its depth is at most d, the prefix of the predicate stack it refers to is unchanged
      obtain ⟨hs, h0, h1⟩ := hok e (List.mem_cons_of_mem _ he)
      have hde := hsorted.1 e he
      simp only at hde
      refine ⟨hs, fun hz => ?_, fun d2 hd2 => ?_⟩
      · exact h0 hz
      · obtain ⟨hle, pn, l, hpar, hfind, hp⟩ := h1 d2 hd2
        refine ⟨by omega, pn, l, hpar, hfind, ?_⟩
        rw [hp]
        congr 1
        rcases hpath with hz | ⟨d', hd', hle', hh, hpp⟩
        · omega
        · rw [hpp, take_take_append preds d' d2 hh (by omega) (by omega)]

theorem rinv_suffix (whole : PT α) (preds : List (Aff α)) (last : Nat) (S1 S2 : RStack α)
    (h : RInv whole preds last (S1 ++ S2)) : RInv whole preds last S2 :=
  ⟨h.len, (List.pairwise_append.mp h.sorted).2.1, fun e he => h.ok e (List.mem_append_right _ he)⟩

theorem pgen_skipN (n : Nat) (g : PGen α) : PGen.skipN n g = { g with iter := Dfs.skipN n g.iter } := by
  induction n generalizing g with
  | zero => rfl
  | succ n ih => rw [PGen.skipN, ih]; simp [PGen.skip, Dfs.skipN]

/-- the machine emits the reference stream -/
theorem pgen_run_eq_ref (whole : PT α) (hnd : whole.indices.Nodup) (sk : Nat → Nat) (fuel : Nat) :
    ∀ (S : RStack α) (preds : List (Aff α)) (last lp lb ub k : Nat), RInv whole preds last S →
      stackSize (RStack.erase S) ≤ fuel →
      PGen.run whole sk fuel ⟨preds, ⟨RStack.erase S, lp, lb, ub⟩, last⟩ k = (refRegStack sk S k).1 := by
  induction fuel with
  | zero =>
    intro S preds last lp lb ub k _ hf
    cases S with
    | nil => simp [PGen.run, refRegStack]
    | cons e S =>
      obtain ⟨d, t, r, path⟩ := e
      rw [stackSize_erase_cons] at hf
      have := ITree.size_pos t
      omega
  | succ fuel ih =>
    intro S preds last lp lb ub k hinv hf
    cases S with
    | nil => simp [PGen.run, PGen.next, Dfs.next, RStack.erase, refRegStack]
    | cons e rest =>
      obtain ⟨d, t, r, path⟩ := e
      cases t with
      | node i c ks =>
        rw [stackSize_erase_cons] at hf
        simp only [ITree.size] at hf
        have htop := hinv.ok _ List.mem_cons_self
        obtain ⟨hpred, hpl⟩ := pgen_preds whole preds last d (.node i c ks) r path hinv.len htop
        have hpath : d = 0 ∨ ∃ d', d = d' + 1 ∧ d' ≤ last ∧ ∃ hh, path = preds.take d' ++ [hh] := by
          cases d with
          | zero => exact Or.inl rfl
          | succ d' =>
            obtain ⟨hle, pn, l, _, _, hp⟩ := htop.2.2 d' rfl
            exact Or.inr ⟨d', rfl, hle, _, hp⟩
        have hnext := rinv_next whole hnd preds last d i c ks r path rest hinv hpl hpath
        -- one step of the machine
        have hstep : PGen.next whole ⟨preds, ⟨RStack.erase ((d, .node i c ks, r, path) :: rest), lp, lb, ub⟩, last⟩ =
            some ((⟨d, i, r⟩, path), ⟨path, ⟨entries (d+1) ks.childList ++ RStack.erase rest, ks.childList.length, lb - 1, ub - 1⟩, d⟩) := by
          simp only [PGen.next, RStack.erase, List.map_cons, Dfs.next, ITree.kids]
          rw [hpred]
          rfl
        simp only [PGen.run, hstep, refRegStack, regionsSkipT]
        cases hsk : sk k with
        | zero =>
          simp only [PGen.skipN, ne_eq, not_true_eq_false, if_false]
          have herase : entries (d+1) ks.childList ++ RStack.erase rest =
              RStack.erase (rentries (d+1) c.aff path ks 0 ++ rest) := by
            rw [erase_append, erase_rentries]
          rw [herase, ih _ path d _ _ _ (k+1) hnext (by
            rw [← herase, stackSize_append, stackSize_entries]; omega)]
          rw [refRegStack_append, refRegStack_rentries]
          simp
        | succ m =>
          simp only [ne_eq, Nat.succ_ne_zero, not_false_eq_true, if_true]
          rw [pgen_skipN]
          have hst := skipN_stack m (⟨entries (d+1) ks.childList ++ RStack.erase rest, ks.childList.length, lb - 1, ub - 1⟩ : Dfs (Content α))
          simp only at hst
          have hdrop : (entries (d+1) ks.childList ++ RStack.erase rest).drop ks.childList.length = RStack.erase rest := by
            rw [← entries_length (d+1) ks.childList]; simp
          rw [hdrop] at hst
          generalize hg : Dfs.skipN (m+1) (⟨entries (d+1) ks.childList ++ RStack.erase rest, ks.childList.length, lb - 1, ub - 1⟩ : Dfs (Content α)) = s' at hst
          obtain ⟨S', lp', lb', ub'⟩ := s'
          simp only at hst
          subst hst
          simp only
          rw [ih rest path d lp' lb' ub' (k+1) (rinv_suffix whole path d _ rest hnext) (by omega)]
          simp [refRegStack]

end AV
