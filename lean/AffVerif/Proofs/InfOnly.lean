import AffVerif.Proofs.CachePrune
import AffVerif.Model.Reduce
/-!
A structural invariant of the cached states: **a node marked `Infeasible` has no sibling.** The sweep removes every
child it finds infeasible unless it is the last child of its decision, compositions copy operand nodes with state
`Indeterminate`, and `reduce` only replaces a decision by one of *two* children. The invariant is what makes `reduce`
keep the infeasible clause of C05 (the label-0 child that replaces its parent is never marked infeasible).
-/
set_option linter.unusedSectionVars false
set_option linter.unusedVariables false
set_option linter.unusedSimpArgs false
namespace AV
variable {α : Type} [Field α] [LinearOrder α] [IsStrictOrderedRing α]

/-- no existing child is marked infeasible -/
def PKids.noInf : PKids α → Prop
  | .nil => True
  | .cons none r => PKids.noInf r
  | .cons (some t) r => t.val.state ≠ .infeasible ∧ PKids.noInf r

mutual
def PT.InfOnly : PT α → Prop
  | .node _ _ ks => (2 ≤ ks.count → PKids.noInf ks) ∧ PKids.InfOnly ks
def PKids.InfOnly : PKids α → Prop
  | .nil => True
  | .cons none r => PKids.InfOnly r
  | .cons (some t) r => PT.InfOnly t ∧ PKids.InfOnly r
end

theorem PKids.noInf_of_fresh (ks : PKids α) (h : PKids.Fresh ks) : PKids.noInf ks := by
  match ks with
  | .nil => trivial
  | .cons none r => unfold PKids.Fresh at h; simp only [PKids.noInf]; exact PKids.noInf_of_fresh r h
  | .cons (some t) r =>
    unfold PKids.Fresh at h
    simp only [PKids.noInf]
    refine ⟨?_, PKids.noInf_of_fresh r h.2⟩
    cases t with
    | node i c ks' => have := h.1; unfold PT.Fresh at this; simp [ITree.val, this.1]

mutual
theorem PT.infOnly_of_fresh (t : PT α) (h : PT.Fresh t) : PT.InfOnly t := by
  match t with
  | .node i c ks =>
    unfold PT.Fresh at h
    unfold PT.InfOnly
    exact ⟨fun _ => PKids.noInf_of_fresh ks h.2, PKids.infOnly_of_fresh ks h.2⟩
theorem PKids.infOnly_of_fresh (ks : PKids α) (h : PKids.Fresh ks) : PKids.InfOnly ks := by
  match ks with
  | .nil => trivial
  | .cons none r => unfold PKids.Fresh at h; simp only [PKids.InfOnly]; exact PKids.infOnly_of_fresh r h
  | .cons (some t) r =>
    unfold PKids.Fresh at h
    simp only [PKids.InfOnly]
    exact ⟨PT.infOnly_of_fresh t h.1, PKids.infOnly_of_fresh r h.2⟩
end

theorem PKids.infOnly_allNone (ks : PKids α) (h : ks.allNone = true) : PKids.InfOnly ks := by
  match ks, h with
  | .nil, _ => trivial
  | .cons none r, h => simp only [PKids.InfOnly]; exact PKids.infOnly_allNone r (by simpa [IKids.allNone] using h)

theorem PKids.noInf_allNone (ks : PKids α) (h : ks.allNone = true) : PKids.noInf ks := by
  match ks, h with
  | .nil, _ => trivial
  | .cons none r, h => simp only [PKids.noInf]; exact PKids.noInf_allNone r (by simpa [IKids.allNone] using h)

/-! ### operations that keep every state where it is -/

mutual
theorem PT.composeS_state (S : Schema α) (f g : PT α) (c : Nat) : (PT.composeS S f g c).1.val.state = f.val.state := by
  match f with
  | .node i fc ks =>
    cases hl : ks.allNone with
    | true =>
      match g with
      | .node j gc gk => simp [PT.composeS, hl, ITree.val]
    | false => simp [PT.composeS, hl, ITree.val]
theorem PKids.composeS_count (S : Schema α) (ks : PKids α) (g : PT α) (c : Nat) :
    (PKids.composeS S ks g c).1.count = ks.count := by
  match ks with
  | .nil => simp [PKids.composeS, IKids.count]
  | .cons none r => simp only [PKids.composeS, IKids.count]; exact PKids.composeS_count S r g c
  | .cons (some k) r => simp only [PKids.composeS, IKids.count]; rw [PKids.composeS_count S r g _]
end

theorem PKids.noInf_composeS (S : Schema α) (ks : PKids α) (g : PT α) (c : Nat) (h : PKids.noInf ks) :
    PKids.noInf (PKids.composeS S ks g c).1 := by
  match ks with
  | .nil => simp [PKids.composeS, PKids.noInf]
  | .cons none r => simp only [PKids.composeS, PKids.noInf] at h ⊢; exact PKids.noInf_composeS S r g c h
  | .cons (some k) r =>
    simp only [PKids.composeS, PKids.noInf] at h ⊢
    exact ⟨by rw [PT.composeS_state]; exact h.1, PKids.noInf_composeS S r g _ h.2⟩

mutual
theorem PT.infOnly_composeS (S : Schema α) (f g : PT α) (c : Nat) (h : PT.InfOnly f) :
    PT.InfOnly (PT.composeS S f g c).1 := by
  match f with
  | .node i fc ks =>
    unfold PT.InfOnly at h
    cases hl : ks.allNone with
    | true =>
      match g with
      | .node j gc gk =>
        simp only [PT.composeS, hl, if_true]
        unfold PT.InfOnly
        have hf := PKids.fresh_graft S gk fc.aff c
        exact ⟨fun _ => PKids.noInf_of_fresh _ hf, PKids.infOnly_of_fresh _ hf⟩
    | false =>
      simp only [PT.composeS, hl, Bool.false_eq_true, if_false]
      unfold PT.InfOnly
      refine ⟨fun hc => PKids.noInf_composeS S ks g c (h.1 (by rw [PKids.composeS_count] at hc; exact hc)),
        PKids.infOnly_composeS S ks g c h.2⟩
theorem PKids.infOnly_composeS (S : Schema α) (ks : PKids α) (g : PT α) (c : Nat) (h : PKids.InfOnly ks) :
    PKids.InfOnly (PKids.composeS S ks g c).1 := by
  match ks with
  | .nil => simp [PKids.composeS, PKids.InfOnly]
  | .cons none r => simp only [PKids.composeS, PKids.InfOnly] at h ⊢; exact PKids.infOnly_composeS S r g c h
  | .cons (some k) r =>
    simp only [PKids.composeS, PKids.InfOnly] at h ⊢
    exact ⟨PT.infOnly_composeS S k g c h.1, PKids.infOnly_composeS S r g _ h.2⟩
end

mutual
theorem PT.mapTerminals_state (φ : Aff α → Aff α) (t : PT α) : (PT.mapTerminals φ t).val.state = t.val.state := by
  match t with
  | .node i c ks =>
    cases hl : ks.allNone <;> simp [PT.mapTerminals, hl, ITree.val]
theorem PKids.mapTerminals_count (φ : Aff α → Aff α) (ks : PKids α) : (PKids.mapTerminals φ ks).count = ks.count := by
  match ks with
  | .nil => simp [PKids.mapTerminals, IKids.count]
  | .cons none r => simp only [PKids.mapTerminals, IKids.count]; exact PKids.mapTerminals_count φ r
  | .cons (some k) r => simp only [PKids.mapTerminals, IKids.count]; rw [PKids.mapTerminals_count φ r]
end

theorem PKids.noInf_mapTerminals (φ : Aff α → Aff α) (ks : PKids α) (h : PKids.noInf ks) :
    PKids.noInf (PKids.mapTerminals φ ks) := by
  match ks with
  | .nil => simp [PKids.mapTerminals, PKids.noInf]
  | .cons none r => simp only [PKids.mapTerminals, PKids.noInf] at h ⊢; exact PKids.noInf_mapTerminals φ r h
  | .cons (some k) r =>
    simp only [PKids.mapTerminals, PKids.noInf] at h ⊢
    exact ⟨by rw [PT.mapTerminals_state]; exact h.1, PKids.noInf_mapTerminals φ r h.2⟩

mutual
theorem PT.infOnly_mapTerminals (φ : Aff α → Aff α) (t : PT α) (h : PT.InfOnly t) :
    PT.InfOnly (PT.mapTerminals φ t) := by
  match t with
  | .node i c ks =>
    unfold PT.InfOnly at h
    cases hl : ks.allNone with
    | true =>
      simp only [PT.mapTerminals, hl, if_true]
      unfold PT.InfOnly
      exact ⟨fun _ => PKids.noInf_allNone ks hl, PKids.infOnly_allNone ks hl⟩
    | false =>
      simp only [PT.mapTerminals, hl, Bool.false_eq_true, if_false]
      unfold PT.InfOnly
      exact ⟨fun hc => PKids.noInf_mapTerminals φ ks (h.1 (by rw [PKids.mapTerminals_count] at hc; exact hc)),
        PKids.infOnly_mapTerminals φ ks h.2⟩
theorem PKids.infOnly_mapTerminals (φ : Aff α → Aff α) (ks : PKids α) (h : PKids.InfOnly ks) :
    PKids.InfOnly (PKids.mapTerminals φ ks) := by
  match ks with
  | .nil => simp [PKids.mapTerminals, PKids.InfOnly]
  | .cons none r => simp only [PKids.mapTerminals, PKids.InfOnly] at h ⊢; exact PKids.infOnly_mapTerminals φ r h
  | .cons (some k) r =>
    simp only [PKids.mapTerminals, PKids.InfOnly] at h ⊢
    exact ⟨PT.infOnly_mapTerminals φ k h.1, PKids.infOnly_mapTerminals φ r h.2⟩
end

/-! ### pruned composition -/

theorem PT.fresh_state (t : PT α) (h : PT.Fresh t) : t.val.state = .indeterminate := by
  cases t with
  | node i c ks => unfold PT.Fresh at h; exact h.1

/-- the node that takes the place of `f`'s node after the pruned composition is marked infeasible only if that node
    was -/
theorem PT.composeP_state {σ : Type} (S : Schema α) (ex : Explore σ α) (n : Nat) (path : List (Aff α))
    (f g : PT α) (s : σ) (c : Nat) (h : f.val.state ≠ .infeasible) :
    (PT.composeP S ex n path f g s c).1.val.state ≠ .infeasible := by
  match f with
  | .node i fc ks =>
    unfold PT.composeP
    split
    · rcases PT.graftP_root_cases S ex fc.aff n i fc.state (i == 0) path g s c with hf | ⟨aff', ks', he, hk⟩
      · rw [PT.fresh_state _ hf]; simp
      · rw [he]; simpa [ITree.val] using h
    · simpa [ITree.val] using h

theorem PKids.composeP_count {σ : Type} (S : Schema α) (ex : Explore σ α) (n : Nat) (path : List (Aff α))
    (paff : Aff α) (ks : PKids α) (l : Nat) (g : PT α) (s : σ) (c : Nat) :
    (PKids.composeP S ex n path paff ks l g s c).1.count = ks.count := by
  match ks with
  | .nil => simp [PKids.composeP, IKids.count]
  | .cons none r => simp only [PKids.composeP, IKids.count]; exact PKids.composeP_count S ex n path paff r (l+1) g s c
  | .cons (some k) r =>
    simp only [PKids.composeP, IKids.count]; rw [PKids.composeP_count S ex n path paff r (l+1) g _ _]

theorem PKids.noInf_composeP {σ : Type} (S : Schema α) (ex : Explore σ α) (n : Nat) (path : List (Aff α))
    (paff : Aff α) (ks : PKids α) (l : Nat) (g : PT α) (s : σ) (c : Nat) (h : PKids.noInf ks) :
    PKids.noInf (PKids.composeP S ex n path paff ks l g s c).1 := by
  match ks with
  | .nil => simp [PKids.composeP, PKids.noInf]
  | .cons none r =>
    simp only [PKids.composeP, PKids.noInf] at h ⊢; exact PKids.noInf_composeP S ex n path paff r (l+1) g s c h
  | .cons (some k) r =>
    simp only [PKids.composeP, PKids.noInf] at h ⊢
    exact ⟨PT.composeP_state S ex n _ k g s c h.1, PKids.noInf_composeP S ex n path paff r (l+1) g _ _ h.2⟩

mutual
theorem PT.infOnly_composeP {σ : Type} (S : Schema α) (ex : Explore σ α) (n : Nat) (path : List (Aff α))
    (f g : PT α) (s : σ) (c : Nat) (h : PT.InfOnly f) : PT.InfOnly (PT.composeP S ex n path f g s c).1 := by
  match f with
  | .node i fc ks =>
    unfold PT.InfOnly at h
    unfold PT.composeP
    split
    · rcases PT.graftP_root_cases S ex fc.aff n i fc.state (i == 0) path g s c with hf | ⟨aff', ks', he, hk⟩
      · exact PT.infOnly_of_fresh _ hf
      · rw [he]
        unfold PT.InfOnly
        exact ⟨fun _ => PKids.noInf_of_fresh ks' hk, PKids.infOnly_of_fresh ks' hk⟩
    · simp only
      unfold PT.InfOnly
      exact ⟨fun hc => PKids.noInf_composeP S ex n path fc.aff ks 0 g s c
          (h.1 (by rw [PKids.composeP_count] at hc; exact hc)),
        PKids.infOnly_composeP S ex n path fc.aff ks 0 g s c h.2⟩
theorem PKids.infOnly_composeP {σ : Type} (S : Schema α) (ex : Explore σ α) (n : Nat) (path : List (Aff α))
    (paff : Aff α) (ks : PKids α) (l : Nat) (g : PT α) (s : σ) (c : Nat) (h : PKids.InfOnly ks) :
    PKids.InfOnly (PKids.composeP S ex n path paff ks l g s c).1 := by
  match ks with
  | .nil => simp [PKids.composeP, PKids.InfOnly]
  | .cons none r =>
    simp only [PKids.composeP, PKids.InfOnly] at h ⊢; exact PKids.infOnly_composeP S ex n path paff r (l+1) g s c h
  | .cons (some k) r =>
    simp only [PKids.composeP, PKids.InfOnly] at h ⊢
    exact ⟨PT.infOnly_composeP S ex n _ k g s c h.1, PKids.infOnly_composeP S ex n path paff r (l+1) g _ _ h.2⟩
end

/-! ### the sweep -/

theorem isInfeasible_false_iff (st : NState α) : st.isInfeasible = false ↔ st ≠ .infeasible := by
  cases st <;> simp [NState.isInfeasible]

theorem PT.infOnly_restate (ch : PT α) (st : NState α) (h : PT.InfOnly ch) :
    PT.InfOnly (.node ch.idx ⟨ch.val.aff, st⟩ ch.kids) := by
  cases ch with
  | node j cc ks => unfold PT.InfOnly at h ⊢; simpa [ITree.kids] using h

/-- the processed child: the invariant holds below it, and it is marked infeasible only if it was cached so or was
    found infeasible in this sweep -/
theorem elimChild_infOnly {σ : Type} (tol : α) (O : Oracles σ α) (n : Nat)
    (path : List (Aff α)) (paff : Aff α) (pst : NState α) (ch : PT α) (l : Nat) (s : σ)
    (hch : PT.InfOnly ch)
    (ih : ∀ (st' : NState α) (s' : σ),
      PT.InfOnly (elimNode tol O n false (path ++ [halfspace paff l]) st' ch s').1) :
    PT.InfOnly (elimChild tol O n path paff pst ch l s).1 ∧
    ((elimChild tol O n path paff pst ch l s).1.val.state = .infeasible →
      ch.val.state = .infeasible ∨ (elimChild tol O n path paff pst ch l s).2.2.1 = true) := by
  unfold elimChild
  cases hs : ch.val.state with
  | infeasible => simp only; exact ⟨hch, fun _ => Or.inl trivial⟩
  | indeterminate =>
    simp only
    by_cases hd : (decideNode tol O s ch.idx pst path (halfspace paff l) n).1.isInfeasible = true
    · simp only [hd, if_true]
      exact ⟨PT.infOnly_restate ch _ hch, fun _ => Or.inr trivial⟩
    · simp only [hd, Bool.false_eq_true, if_false]
      refine ⟨ih _ _, fun hi => ?_⟩
      have := elimNode_state tol O n false (path ++ [halfspace paff l])
        (decideNode tol O s ch.idx pst path (halfspace paff l) n).1 ch
        (decideNode tol O s ch.idx pst path (halfspace paff l) n).2 (by simpa using hd)
      rw [isInfeasible_false_iff] at this
      exact absurd hi this
  | feasible =>
    simp only
    refine ⟨ih _ _, fun hi => ?_⟩
    have := elimNode_state tol O n false (path ++ [halfspace paff l]) .feasible ch s (by simp [NState.isInfeasible])
    rw [isInfeasible_false_iff] at this
    exact absurd hi this
  | witness ws =>
    simp only
    refine ⟨ih _ _, fun hi => ?_⟩
    have := elimNode_state tol O n false (path ++ [halfspace paff l]) (.witness ws) ch s (by simp [NState.isInfeasible])
    rw [isInfeasible_false_iff] at this
    exact absurd hi this

/-- the finished node with two processed children: a child that is marked infeasible was flagged, and flagged
    children are removed unless they are the last -/
theorem finish_two_infOnly (i : Nat) (c' : Content α) (ra rb : PT α) (fa fb : Bool) (newInf : List Nat)
    (lastFresh isRoot : Bool) (ha : PT.InfOnly ra) (hb : PT.InfOnly rb)
    (hfa : ra.val.state = .infeasible → fa = true) (hfb : rb.val.state = .infeasible → fb = true)
    (hnew : newInf = (if fa then [0] else []) ++ (if fb then [1] else [])) :
    PT.InfOnly (finishNode i c' (.cons (some ra) (.cons (some rb) .nil)) newInf lastFresh isRoot) := by
  unfold finishNode
  cases hfl : (if lastFresh then forwardLabel? (.cons (some ra) (.cons (some rb) .nil)) else none) with
  | some l =>
    simp only
    have hl : forwardLabel? (.cons (some ra) (.cons (some rb) .nil)) = some l := by
      by_cases hf : lastFresh = true
      · simpa [hf] using hfl
      · simp [hf] at hfl
    obtain ⟨a, b, hks, hcase⟩ := forwardLabel_spec _ l hl
    simp only [IKids.cons.injEq, Option.some.injEq, and_true] at hks
    obtain ⟨rfl, rfl⟩ := hks
    cases isRoot with
    | true =>
      simp only [if_true]
      rcases hcase with ⟨rfl, _, _⟩ | ⟨rfl, _, _⟩
      · unfold PT.InfOnly
        simp [IKids.set, IKids.count, PKids.InfOnly, ha]
      · unfold PT.InfOnly
        simp [IKids.set, IKids.count, PKids.InfOnly, hb]
    | false =>
      simp only [Bool.false_eq_true, if_false]
      rcases hcase with ⟨rfl, _, _⟩ | ⟨rfl, _, _⟩
      · simpa [IKids.get?] using ha
      · simpa [IKids.get?] using hb
  | none =>
    simp only
    subst hnew
    unfold PT.InfOnly
    cases fa with
    | false =>
      have hna : ra.val.state ≠ .infeasible := fun h => by simpa using hfa h
      cases fb with
      | false =>
        have hnb : rb.val.state ≠ .infeasible := fun h => by simpa using hfb h
        simp [removeLabels, IKids.count, PKids.InfOnly, PKids.noInf, ha, hb, hna, hnb]
      | true => simp [removeLabels, IKids.set, IKids.count, PKids.InfOnly, PKids.noInf, ha, hb]
    | true => cases fb <;> simp [removeLabels, IKids.set, IKids.count, PKids.InfOnly, PKids.noInf, ha, hb]

/-- the invariant survives `infeasible_elimination`, for arbitrary oracles -/
theorem PT.infOnly_elimNode {σ : Type} (tol : α) (O : Oracles σ α) (n : Nat)
    (isRoot : Bool) (path : List (Aff α)) (st : NState α) (t : PT α) (s : σ)
    (hok : PT.ElimOK t) (hc : PT.InfOnly t) :
    PT.InfOnly (elimNode tol O n isRoot path st t s).1 := by
  match t, hok, hc with
  | .node i c .nil, hok, _ => simp [PT.ElimOK, IKids.length] at hok
  | .node i c (.cons _ .nil), hok, _ => simp [PT.ElimOK, IKids.length] at hok
  | .node i c (.cons _ (.cons _ (.cons _ _))), hok, _ => simp [PT.ElimOK, IKids.length] at hok
  | .node i c (.cons none (.cons none .nil)), _, _ =>
    rw [elimNode_eq]
    simp only [elimKids_cons_none, elimKids_nil, finishNode, forwardLabel?, ite_self, removeLabels]
    unfold PT.InfOnly
    simp [IKids.count, PKids.InfOnly]
  | .node i c (.cons (some ka) (.cons none .nil)), hok, hc =>
    unfold PT.ElimOK at hok
    obtain ⟨_, _, hkok⟩ := hok
    simp only [PKids.ElimOK] at hkok
    unfold PT.InfOnly at hc
    simp only [PKids.InfOnly] at hc
    have fa := elimChild_infOnly tol O n path c.aff st ka 0 s hc.2.1
      (fun st' s' => PT.infOnly_elimNode tol O n false _ st' ka s' hkok.1 hc.2.1)
    rw [elimNode_eq]
    simp only [elimKids_cons_some, elimKids_cons_none, elimKids_nil, IKids.count]
    simp only [finishNode, forwardLabel?, ite_self]
    generalize elimChild tol O n path c.aff st ka 0 s = ca at fa
    unfold PT.InfOnly
    have hcount : ∀ ls, (removeLabels (.cons (some ca.1) (.cons none .nil) : PKids α) ls) =
        (.cons (some ca.1) (.cons none .nil)) := by
      intro ls
      induction ls with
      | nil => rfl
      | cons l ls ih => simp only [removeLabels, IKids.count]; simpa using ih
    rw [hcount]
    simp only [IKids.count, PKids.InfOnly]
    exact ⟨fun h => by omega, fa.1, trivial⟩
  | .node i c (.cons none (.cons (some kb) .nil)), hok, hc =>
    unfold PT.ElimOK at hok
    obtain ⟨_, _, hkok⟩ := hok
    simp only [PKids.ElimOK] at hkok
    unfold PT.InfOnly at hc
    simp only [PKids.InfOnly] at hc
    have fb := elimChild_infOnly tol O n path c.aff st kb 1 s hc.2.1
      (fun st' s' => PT.infOnly_elimNode tol O n false _ st' kb s' hkok.1 hc.2.1)
    rw [elimNode_eq]
    simp only [elimKids_cons_some, elimKids_cons_none, elimKids_nil, IKids.count]
    simp only [finishNode, forwardLabel?, ite_self]
    generalize elimChild tol O n path c.aff st kb (0+1) s = cb at fb
    unfold PT.InfOnly
    have hcount : ∀ ls, (removeLabels (.cons none (.cons (some cb.1) .nil) : PKids α) ls) =
        (.cons none (.cons (some cb.1) .nil)) := by
      intro ls
      induction ls with
      | nil => rfl
      | cons l ls ih => simp only [removeLabels, IKids.count]; simpa using ih
    rw [hcount]
    simp only [IKids.count, PKids.InfOnly]
    exact ⟨fun h => by omega, fb.1, trivial⟩
  | .node i c (.cons (some ka) (.cons (some kb) .nil)), hok, hc =>
    unfold PT.ElimOK at hok
    obtain ⟨_, hdec, hkok⟩ := hok
    simp only [PKids.ElimOK] at hkok
    unfold PT.InfOnly at hc
    simp only [PKids.InfOnly, IKids.count, PKids.noInf] at hc
    have hno := hc.1 (by omega)
    have fa := elimChild_infOnly tol O n path c.aff st ka 0 s hc.2.1
      (fun st' s' => PT.infOnly_elimNode tol O n false _ st' ka s' hkok.1 hc.2.1)
    have fb := fun s1 => elimChild_infOnly tol O n path c.aff st kb 1 s1 hc.2.2.1
      (fun st' s' => PT.infOnly_elimNode tol O n false _ st' kb s' hkok.2.1 hc.2.2.1)
    rw [elimNode_eq]
    simp only [elimKids_cons_some, elimKids_nil, IKids.count]
    generalize elimChild tol O n path c.aff st ka 0 s = ca at fa
    have fb' := fb ca.2.1
    generalize elimChild tol O n path c.aff st kb (0+1) ca.2.1 = cb at fb'
    simp only [Nat.zero_add] at fb' ⊢
    refine finish_two_infOnly i _ ca.1 cb.1 ca.2.2.1 cb.2.2.1 _ _ isRoot fa.1 fb'.1
      (fun h => (fa.2 h).resolve_left hno.1) (fun h => (fb'.2 h).resolve_left hno.2.1) ?_
    cases ca.2.2.1 <;> cases cb.2.2.1 <;> simp
termination_by sizeOf t
decreasing_by
  all_goals simp_wf
  all_goals omega

end AV
