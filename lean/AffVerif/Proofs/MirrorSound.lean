import AffVerif.Model.Mirror
import AffVerif.Proofs.WitSound
/-!
`mirror_points` returns only points of the polytope it was asked for (third clause of C05): every returned point
passed the containment test against the normalised polytope shrunk by `eps ≥ 0`, and normalising (dividing rows by
positive numbers) does not change the point set. No bound on the number of rounds, candidates or dimensions.
-/
set_option linter.unusedSectionVars false
set_option linter.unusedVariables false
namespace AV
variable {α : Type} [Field α] [LinearOrder α] [IsStrictOrderedRing α]

theorem mirrorLoop_inside (eps fac : α) (pn : Aff α) (pts : List (List α)) (k c : Nat)
    (res : List (List α)) (j : Nat) (h : mirrorLoop eps fac pn pts k c = some (res, j)) :
    res ≠ [] ∧ (∀ x ∈ res, mirrorInside eps pn x = true) ∧ c ≤ j ∧ j < c + k := by
  induction k generalizing pts c with
  | zero => simp [mirrorLoop] at h
  | succ k ih =>
    simp only [mirrorLoop] at h
    split at h
    · have := ih _ _ h
      exact ⟨this.1, this.2.1, by omega, by omega⟩
    · rename_i hne
      simp only [Option.some.injEq, Prod.mk.injEq] at h
      obtain ⟨rfl, rfl⟩ := h
      refine ⟨fun he => hne (by simp [he]), fun x hx => (List.mem_filter.mp hx).2, le_refl _, by omega⟩

theorem mirrorInside_rows (eps : α) (pn : Aff α) (x : List α) (h : mirrorInside eps pn x = true) :
    ∀ rb ∈ pn.rows, dot rb.1 x ≤ rb.2 - eps := by
  unfold mirrorInside mirrorDist Poly.distanceRaw at h
  rw [vsub_matVec_eq] at h
  simp only [List.map_map, List.all_map, List.all_eq_true, Function.comp, decide_eq_true_eq] at h
  intro rb hrb
  have := h rb hrb
  linarith

theorem dot_map_div (a x : List α) (k : α) : dot (a.map (· / k)) x = dot a x / k := by
  induction a generalizing x with
  | nil => simp
  | cons u a ih =>
    cases x with
    | nil => simp
    | cons v x => simp only [List.map_cons, dot_cons, ih]; ring

/-- dividing rows and biases by positive numbers keeps the point set -/
theorem mem_scaleRows (p : Aff α) (s : List (Option α)) (hlen : s.length = p.rows.length)
    (hpos : ∀ o ∈ s, ∀ k, o = some k → 0 < k) (x : List α) : Poly.Mem (p.scaleRows s) x ↔ Poly.Mem p x := by
  unfold Poly.Mem Aff.scaleRows
  rw [ofRows_rows]
  generalize p.rows = rows at hlen
  induction rows generalizing s with
  | nil => simp
  | cons rb rows ih =>
    cases s with
    | nil => simp at hlen
    | cons o s =>
      simp only [List.length_cons, Nat.add_right_cancel_iff] at hlen
      have ih' := ih s (fun o' ho' => hpos o' (List.mem_cons_of_mem _ ho')) hlen
      simp only [List.zip_cons_cons, List.map_cons, List.mem_cons, forall_eq_or_imp, ih']
      apply and_congr_left'
      cases o with
      | none => rfl
      | some k =>
        have hk := hpos (some k) (by simp) k rfl
        simp only
        rw [dot_map_div, div_le_div_iff_of_pos_right hk]

/-- every point `mirror_points` returns lies in the polytope it was asked for — exactly, hence also within any
    containment tolerance `tol ≥ 0` -/
theorem mirrorPoints_sound (eps fac : α) (heps : 0 ≤ eps) (p : Aff α) (s : List (Option α))
    (hlen : s.length = p.rows.length) (hpos : ∀ o ∈ s, ∀ k, o = some k → 0 < k)
    (pts : List (List α)) (n : Nat) (res : List (List α)) (j : Nat)
    (h : mirrorPoints eps fac p s pts n = some (res, j)) :
    res ≠ [] ∧ j < n ∧ ∀ x ∈ res, Poly.Mem p x ∧ ∀ tol, 0 ≤ tol → Poly.containsTol tol p x = true := by
  unfold mirrorPoints at h
  obtain ⟨hne, hin, _, hj⟩ := mirrorLoop_inside eps fac _ pts n 0 res j h
  refine ⟨hne, by omega, fun x hx => ?_⟩
  have hmem : Poly.Mem p x := by
    rw [← mem_scaleRows p s hlen hpos x]
    intro rb hrb
    have := mirrorInside_rows eps _ x (hin x hx) rb hrb
    linarith
  refine ⟨hmem, fun tol htol => ?_⟩
  rw [containsTol_iff_rows]
  intro rb hrb
  have := hmem rb hrb
  linarith

end AV
