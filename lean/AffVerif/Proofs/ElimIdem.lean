import AffVerif.Proofs.ElimSound
/-!
Idempotence of `infeasible_elimination` (C06).

* A tree is *settled* when, walking down from the root and stopping at nodes marked `Infeasible`, no node is
  `Indeterminate`. On a settled tree the sweep changes nothing and asks the oracles nothing (`elimNode_settled`):
  cached `Infeasible` children are skipped, cached feasible children are descended into, nothing is "fresh", so
  nothing is removed or forwarded.
* The sweep settles the tree provided the three phases always reach a verdict (`Decisive`: no solver error, and a
  solver point that fails `contains` can be repaired) — `settled_elimNode`.
-/
set_option linter.unusedSectionVars false
set_option linter.unusedVariables false
set_option linter.unusedSimpArgs false
namespace AV
variable {α : Type} [Field α] [LinearOrder α] [IsStrictOrderedRing α]

mutual
def PT.SettledBelow : PT α → Prop
  | .node _ _ ks => PKids.Settled ks
def PKids.Settled : PKids α → Prop
  | .nil => True
  | .cons none r => PKids.Settled r
  | .cons (some t) r =>
    (t.val.state = .infeasible ∨ (t.val.state.isFeasible = true ∧ PT.SettledBelow t)) ∧ PKids.Settled r
end

theorem removeLabels_nil (ks : PKids α) : removeLabels ks [] = ks := by
  unfold removeLabels; rfl

mutual
/-- on a settled tree the sweep is the identity (up to the state it is told to store at the top node) and leaves the
    oracle state untouched: not a single LP is solved -/
theorem elimNode_settled {σ : Type} (tol : α) (O : Oracles σ α) (n : Nat) (isRoot : Bool) (path : List (Aff α))
    (st : NState α) (t : PT α) (s : σ) (h : PT.SettledBelow t) :
    elimNode tol O n isRoot path st t s = (.node t.idx ⟨t.val.aff, st⟩ t.kids, s) := by
  match t with
  | .node i c ks =>
    unfold PT.SettledBelow at h
    rw [elimNode]
    simp only [elimKids_settled tol O n path c.aff st ks 0 s h, Bool.false_eq_true, if_false, removeLabels_nil,
      ITree.idx, ITree.val, ITree.kids]
theorem elimKids_settled {σ : Type} (tol : α) (O : Oracles σ α) (n : Nat) (path : List (Aff α)) (paff : Aff α)
    (pst : NState α) (ks : PKids α) (l : Nat) (s : σ) (h : PKids.Settled ks) :
    elimKids tol O n path paff pst ks l s = ⟨ks, s, [], false⟩ := by
  match ks with
  | .nil => rw [elimKids]
  | .cons none r =>
    simp only [PKids.Settled] at h
    rw [elimKids]
    simp only [elimKids_settled tol O n path paff pst r (l+1) s h]
  | .cons (some ch) r =>
    simp only [PKids.Settled] at h
    have hr := elimKids_settled tol O n path paff pst r (l+1) s h.2
    rw [elimKids]
    rcases h.1 with hinf | ⟨hfeas, hbelow⟩
    · simp only [hinf, hr, ite_self]
    · have hsub : ∀ st', st' = ch.val.state →
          elimNode tol O n false (path ++ [halfspace paff l]) st' ch s = (ch, s) := by
        intro st' hst'
        rw [elimNode_settled tol O n false _ st' ch s hbelow, hst']
        cases ch with
        | node j cc kk => rfl
      cases hs : ch.val.state with
      | indeterminate => rw [hs] at hfeas; simp [NState.isFeasible] at hfeas
      | infeasible => rw [hs] at hfeas; simp [NState.isFeasible] at hfeas
      | feasible => simp only [hsub _ hs.symm, hr, ite_self]
      | witness ws => simp only [hsub _ hs.symm, hr, ite_self]
end

/-- the three phases always reach a verdict -/
def Decisive {σ : Type} (tol : α) (O : Oracles σ α) : Prop :=
  ∀ s node pst path hyper n, (decideNode tol O s node pst path hyper n).1 ≠ .indeterminate

theorem PKids.settled_set_none (ks : PKids α) (l : Nat) (h : PKids.Settled ks) : PKids.Settled (ks.set l none) := by
  match ks, l with
  | .nil, _ => simp [IKids.set, PKids.Settled]
  | .cons none r, 0 => simpa [IKids.set, PKids.Settled] using h
  | .cons (some t) r, 0 => simp only [IKids.set, PKids.Settled] at h ⊢; exact h.2
  | .cons none r, l+1 => simp only [IKids.set, PKids.Settled] at h ⊢; exact PKids.settled_set_none r l h
  | .cons (some t) r, l+1 =>
    simp only [IKids.set, PKids.Settled] at h ⊢; exact ⟨h.1, PKids.settled_set_none r l h.2⟩

theorem PKids.settled_removeLabels (ks : PKids α) (ls : List Nat) (h : PKids.Settled ks) :
    PKids.Settled (removeLabels ks ls) := by
  induction ls generalizing ks with
  | nil => simpa [removeLabels] using h
  | cons l ls ih =>
    simp only [removeLabels]
    split
    · exact ih _ (PKids.settled_set_none ks l h)
    · exact ih _ h

theorem PKids.settled_get (ks : PKids α) (l : Nat) (ch : PT α) (h : PKids.Settled ks) (hg : ks.get? l = some ch) :
    ch.val.state = .infeasible ∨ (ch.val.state.isFeasible = true ∧ PT.SettledBelow ch) := by
  match ks, l with
  | .nil, _ => simp [IKids.get?] at hg
  | .cons none r, 0 => simp [IKids.get?] at hg
  | .cons (some t) r, 0 =>
    simp only [IKids.get?, Option.some.injEq] at hg; subst hg
    simp only [PKids.Settled] at h; exact h.1
  | .cons none r, l+1 =>
    simp only [IKids.get?] at hg; simp only [PKids.Settled] at h; exact PKids.settled_get r l ch h hg
  | .cons (some t) r, l+1 =>
    simp only [IKids.get?] at hg; simp only [PKids.Settled] at h; exact PKids.settled_get r l ch h.2 hg

theorem not_indeterminate_cases (st : NState α) (h : st ≠ .indeterminate) :
    st = .infeasible ∨ st.isFeasible = true := by
  cases st <;> simp_all [NState.isFeasible]

theorem isInfeasible_iff' (st : NState α) : st.isInfeasible = true ↔ st = .infeasible := by
  cases st <;> simp [NState.isInfeasible]

mutual
/-- with decisive oracles the swept tree is settled (any branching factor, partial trees included), and it is marked
    feasible when the sweep is entered with a feasible state (a child forwarded into its place is settled, hence
    decided, and not marked infeasible) -/
theorem settled_elimNode' {σ : Type} (tol : α) (O : Oracles σ α) (hd : Decisive tol O) (n : Nat) (isRoot : Bool)
    (path : List (Aff α)) (st : NState α) (t : PT α) (s : σ) :
    PT.SettledBelow (elimNode tol O n isRoot path st t s).1 ∧
      (st.isFeasible = true → (elimNode tol O n isRoot path st t s).1.val.state.isFeasible = true) := by
  match t with
  | .node i c ks =>
    rw [elimNode]
    have hk := settled_elimKids tol O hd n path c.aff st ks 0 s
    generalize elimKids tol O n path c.aff st ks 0 s = r at hk
    cases hfl : (if r.lastFresh then forwardLabel? r.kids else none) with
    | none =>
      simp only
      refine ⟨?_, fun hst => by simp [ITree.val, hst]⟩
      unfold PT.SettledBelow
      exact PKids.settled_removeLabels _ _ hk
    | some l =>
      simp only
      cases isRoot with
      | true =>
        simp only [if_true]
        refine ⟨?_, fun hst => by simp [ITree.val, hst]⟩
        unfold PT.SettledBelow
        exact PKids.settled_set_none _ _ hk
      | false =>
        simp only [Bool.false_eq_true, if_false]
        cases hch : r.kids.get? l with
        | none =>
          simp only
          refine ⟨?_, fun hst => by simp [ITree.val, hst]⟩
          unfold PT.SettledBelow; exact hk
        | some ch =>
          simp only
          have hl : forwardLabel? r.kids = some l := by
            by_cases hf : r.lastFresh = true
            · simpa [hf] using hfl
            · simp [hf] at hfl
          obtain ⟨a, b, hks, hcase⟩ := forwardLabel_spec _ l hl
          have hninf : ch.val.state.isInfeasible = false := by
            rw [hks] at hch
            rcases hcase with ⟨rfl, ha, _⟩ | ⟨rfl, _, hb⟩
            · simp [IKids.get?] at hch; subst hch; exact ha
            · simp [IKids.get?] at hch; subst hch; exact hb
          rcases PKids.settled_get r.kids l ch hk hch with hinf | ⟨hf, hb⟩
          · rw [hinf] at hninf; simp [NState.isInfeasible] at hninf
          · exact ⟨hb, fun _ => hf⟩
theorem settled_elimKids {σ : Type} (tol : α) (O : Oracles σ α) (hd : Decisive tol O) (n : Nat)
    (path : List (Aff α)) (paff : Aff α) (pst : NState α) (ks : PKids α) (l : Nat) (s : σ) :
    PKids.Settled (elimKids tol O n path paff pst ks l s).kids := by
  match ks with
  | .nil => rw [elimKids]; trivial
  | .cons none r =>
    rw [elimKids]
    simp only [PKids.Settled]
    exact settled_elimKids tol O hd n path paff pst r (l+1) s
  | .cons (some ch) r =>
    rw [elimKids]
    cases hs : ch.val.state with
    | infeasible =>
      simp only [PKids.Settled]
      exact ⟨Or.inl hs, settled_elimKids tol O hd n path paff pst r (l+1) s⟩
    | indeterminate =>
      simp only
      split
      · rename_i hinf
        simp only [PKids.Settled, ITree.val]
        exact ⟨Or.inl ((isInfeasible_iff' _).mp hinf), settled_elimKids tol O hd n path paff pst r (l+1) _⟩
      · rename_i hinf
        simp only [PKids.Settled]
        have hsub := settled_elimNode' tol O hd n false (path ++ [halfspace paff l])
          (decideNode tol O s ch.idx pst path (halfspace paff l) n).1 ch (decideNode tol O s ch.idx pst path (halfspace paff l) n).2
        refine ⟨Or.inr ⟨hsub.2 ?_, hsub.1⟩, settled_elimKids tol O hd n path paff pst r (l+1) _⟩
        rcases not_indeterminate_cases _ (hd s ch.idx pst path (halfspace paff l) n) with h1 | h1
        · rw [h1] at hinf; simp [NState.isInfeasible] at hinf
        · exact h1
    | feasible =>
      simp only [PKids.Settled]
      have hsub := settled_elimNode' tol O hd n false (path ++ [halfspace paff l]) .feasible ch s
      exact ⟨Or.inr ⟨hsub.2 (by simp [NState.isFeasible]), hsub.1⟩, settled_elimKids tol O hd n path paff pst r (l+1) _⟩
    | witness ws =>
      simp only [PKids.Settled]
      have hsub := settled_elimNode' tol O hd n false (path ++ [halfspace paff l]) (.witness ws) ch s
      exact ⟨Or.inr ⟨hsub.2 (by simp [NState.isFeasible]), hsub.1⟩, settled_elimKids tol O hd n path paff pst r (l+1) _⟩
end

/-- with decisive oracles the swept tree is settled -/
theorem settled_elimNode {σ : Type} (tol : α) (O : Oracles σ α) (hd : Decisive tol O) (n : Nat) (isRoot : Bool)
    (path : List (Aff α)) (st : NState α) (t : PT α) (s : σ) :
    PT.SettledBelow (elimNode tol O n isRoot path st t s).1 :=
  (settled_elimNode' tol O hd n isRoot path st t s).1

/-- with decisive oracles the sweep returns a node marked feasible when it is entered with a feasible state -/
theorem elimNode_state_feasible {σ : Type} (tol : α) (O : Oracles σ α) (hd : Decisive tol O) (n : Nat) (isRoot : Bool)
    (path : List (Aff α)) (st : NState α) (t : PT α) (s : σ) (hst : st.isFeasible = true) :
    (elimNode tol O n isRoot path st t s).1.val.state.isFeasible = true :=
  (settled_elimNode' tol O hd n isRoot path st t s).2 hst

end AV
