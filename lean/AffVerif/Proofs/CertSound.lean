import AffVerif.Proofs.VecLemmas
import AffVerif.Check.Cert
/-! Soundness of the certificate checker. -/
set_option linter.unusedSectionVars false
set_option linter.unusedVariables false
namespace AV
variable {α : Type} [Field α] [LinearOrder α] [IsStrictOrderedRing α]

theorem dot_all_zero (v x : List α) (h : ∀ e ∈ v, e = 0) : dot v x = 0 := by
  induction v generalizing x with
  | nil => simp
  | cons a as ih =>
    cases x with
    | nil => simp
    | cons b bs =>
      simp only [dot_cons]
      rw [h a (List.mem_cons_self), ih bs (fun e he => h e (List.mem_cons_of_mem _ he))]
      ring

theorem combVec_length (n : Nat) (y : List α) (rows : List (Row α)) (h : ∀ r ∈ rows, r.a.length = n) :
    (combVec n y rows).length = n := by
  induction y generalizing rows with
  | nil => simp [combVec]
  | cons c cs ih =>
    cases rows with
    | nil => simp [combVec]
    | cons r rs =>
      simp only [combVec, vadd_length, smul_length]
      rw [ih rs (fun r' h' => h r' (List.mem_cons_of_mem _ h')), h r (List.mem_cons_self)]
      simp

/-- weak duality core: for `y ≥ 0`, `(Σ yᵢ aᵢ)·x ≤ Σ yᵢ bᵢ`, strictly if a strict row is used -/
theorem comb_le (n : Nat) (y : List α) (rows : List (Row α)) (x : List α)
    (hy : ∀ c ∈ y, 0 ≤ c) (hn : ∀ r ∈ rows, r.a.length = n) (hs : Sat rows x) :
    dot (combVec n y rows) x ≤ combRhs y rows ∧
    (strictUsed y rows = true → dot (combVec n y rows) x < combRhs y rows) := by
  induction y generalizing rows with
  | nil => simp [combVec, combRhs, strictUsed]
  | cons c cs ih =>
    cases rows with
    | nil => simp [combVec, combRhs, strictUsed]
    | cons r rs =>
      have hc : 0 ≤ c := hy c (List.mem_cons_self)
      have hrs : ∀ r' ∈ rs, r'.a.length = n := fun r' h' => hn r' (List.mem_cons_of_mem _ h')
      obtain ⟨ih1, ih2⟩ := ih rs (fun c' h' => hy c' (List.mem_cons_of_mem _ h')) hrs
        (fun r' h' => hs r' (List.mem_cons_of_mem _ h'))
      have hr := hs r (List.mem_cons_self)
      have hlen : (smul c r.a).length = (combVec n cs rs).length := by
        rw [smul_length, combVec_length n cs rs hrs, hn r (List.mem_cons_self)]
      simp only [combVec, combRhs, strictUsed]
      rw [dot_vadd_left _ _ _ hlen, dot_smul_left]
      have hle : dot r.a x ≤ r.b := by
        unfold Row.sat at hr; split at hr
        · exact le_of_lt hr
        · exact hr
      have h1 : c * dot r.a x ≤ c * r.b := mul_le_mul_of_nonneg_left hle hc
      refine ⟨by linarith, ?_⟩
      intro hu
      simp only [Bool.or_eq_true, Bool.and_eq_true, decide_eq_true_eq] at hu
      rcases hu with ⟨hst, hpos⟩ | hu
      · have hlt : dot r.a x < r.b := by
          unfold Row.sat at hr; simpa [hst] using hr
        have : c * dot r.a x < c * r.b := mul_lt_mul_of_pos_left hlt hpos
        linarith
      · have := ih2 hu; linarith

/-- an accepted certificate proves that no point satisfies the system -/
theorem checkInfeasible_sound (n : Nat) (rows : List (Row α)) (y : List α)
    (h : checkInfeasible n rows y = true) : ¬ ∃ x, Sat rows x := by
  rintro ⟨x, hx⟩
  simp only [checkInfeasible, Bool.and_eq_true, Bool.or_eq_true, beq_iff_eq, List.all_eq_true,
    decide_eq_true_eq] at h
  obtain ⟨⟨⟨⟨_, hy⟩, hn⟩, hz⟩, hrhs⟩ := h
  obtain ⟨h1, h2⟩ := comb_le n y rows x hy hn hx
  rw [dot_all_zero _ x hz] at h1 h2
  rcases hrhs with hlt | ⟨hle, hu⟩
  · linarith
  · have := h2 hu; linarith

end AV
