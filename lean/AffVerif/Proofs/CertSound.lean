import AffVerif.Proofs.VecLemmas
import AffVerif.Check.Cert
/-! Soundness of the certificate checker. -/
set_option linter.unusedSectionVars false
set_option linter.unusedVariables false
namespace AV
variable {α : Type} [Field α] [LinearOrder α] [IsStrictOrderedRing α]

theorem dot_all_zero (v x : List α) (h : ∀ e ∈ v, e = 0) : dot v x = 0 := by
  induction v generalizing x with
  | nil => simp
  | cons a as ih =>
    cases x with
    | nil => simp
    | cons b bs =>
      simp only [dot_cons]
      rw [h a (List.mem_cons_self), ih bs (fun e he => h e (List.mem_cons_of_mem _ he))]
      ring

theorem combVec_length (n : Nat) (y : List α) (rows : List (Row α)) (h : ∀ r ∈ rows, r.a.length = n) :
    (combVec n y rows).length = n := by
  induction y generalizing rows with
  | nil => simp [combVec]
  | cons c cs ih =>
    cases rows with
    | nil => simp [combVec]
    | cons r rs =>
      simp only [combVec, vadd_length, smul_length]
      rw [ih rs (fun r' h' => h r' (List.mem_cons_of_mem _ h')), h r (List.mem_cons_self)]
      simp

/-- weak duality core: for `y ≥ 0`, `(Σ yᵢ aᵢ)·x ≤ Σ yᵢ bᵢ`, strictly if a strict row is used -/
theorem comb_le (n : Nat) (y : List α) (rows : List (Row α)) (x : List α)
    (hy : ∀ c ∈ y, 0 ≤ c) (hn : ∀ r ∈ rows, r.a.length = n) (hs : Sat rows x) :
    dot (combVec n y rows) x ≤ combRhs y rows ∧
    (strictUsed y rows = true → dot (combVec n y rows) x < combRhs y rows) := by
  induction y generalizing rows with
  | nil => simp [combVec, combRhs, strictUsed]
  | cons c cs ih =>
    cases rows with
    | nil => simp [combVec, combRhs, strictUsed]
    | cons r rs =>
      have hc : 0 ≤ c := hy c (List.mem_cons_self)
      have hrs : ∀ r' ∈ rs, r'.a.length = n := fun r' h' => hn r' (List.mem_cons_of_mem _ h')
      obtain ⟨ih1, ih2⟩ := ih rs (fun c' h' => hy c' (List.mem_cons_of_mem _ h')) hrs
        (fun r' h' => hs r' (List.mem_cons_of_mem _ h'))
      have hr := hs r (List.mem_cons_self)
      have hlen : (smul c r.a).length = (combVec n cs rs).length := by
        rw [smul_length, combVec_length n cs rs hrs, hn r (List.mem_cons_self)]
      simp only [combVec, combRhs, strictUsed]
      rw [dot_vadd_left _ _ _ hlen, dot_smul_left]
      have hle : dot r.a x ≤ r.b := by
        unfold Row.sat at hr; split at hr
        · exact le_of_lt hr
        · exact hr
      have h1 : c * dot r.a x ≤ c * r.b := mul_le_mul_of_nonneg_left hle hc
      refine ⟨by linarith, ?_⟩
      intro hu
      simp only [Bool.or_eq_true, Bool.and_eq_true, decide_eq_true_eq] at hu
      rcases hu with ⟨hst, hpos⟩ | hu
      · have hlt : dot r.a x < r.b := by
          unfold Row.sat at hr; simpa [hst] using hr
        have : c * dot r.a x < c * r.b := mul_lt_mul_of_pos_left hlt hpos
        linarith
      · have := ih2 hu; linarith

/-- an accepted certificate proves that no point satisfies the system -/
theorem checkInfeasible_sound (n : Nat) (rows : List (Row α)) (y : List α)
    (h : checkInfeasible n rows y = true) : ¬ ∃ x, Sat rows x := by
  rintro ⟨x, hx⟩
  simp only [checkInfeasible, Bool.and_eq_true, Bool.or_eq_true, beq_iff_eq, List.all_eq_true,
    decide_eq_true_eq] at h
  obtain ⟨⟨⟨⟨_, hy⟩, hn⟩, hz⟩, hrhs⟩ := h
  obtain ⟨h1, h2⟩ := comb_le n y rows x hy hn hx
  rw [dot_all_zero _ x hz] at h1 h2
  rcases hrhs with hlt | ⟨hle, hu⟩
  · linarith
  · have := h2 hu; linarith

end AV

namespace AV
variable {α : Type} [Field α] [LinearOrder α] [IsStrictOrderedRing α]

theorem memb_iff (p : Aff α) (x : List α) : Poly.memb p x = true ↔ Poly.Mem p x := by
  unfold Poly.memb Poly.Mem
  simp [List.all_eq_true]

theorem sat_polyRows' (p : Aff α) (x : List α) : Sat (polyRows p) x ↔ Poly.Mem p x := by
  unfold Sat polyRows Poly.Mem
  constructor
  · intro h rb hrb
    have := h ⟨rb.1, rb.2, false⟩ (List.mem_map.mpr ⟨rb, hrb, rfl⟩)
    simpa [Row.sat] using this
  · intro h r hr
    obtain ⟨rb, hrb, rfl⟩ := List.mem_map.mp hr
    simpa [Row.sat] using h rb hrb

/-- an accepted primal/dual pair proves optimality: `x` is in the set, has value `v`, and no point of the set has a
    smaller value -/
theorem checkOptimal_sound (n : Nat) (p : Aff α) (c x : List α) (v : α) (y : List α)
    (h : checkOptimal n p c x v y = true) :
    Poly.Mem p x ∧ dot c x = v ∧ ∀ z, Poly.Mem p z → v ≤ dot c z := by
  simp only [checkOptimal, Bool.and_eq_true, beq_iff_eq, List.all_eq_true, decide_eq_true_eq] at h
  obtain ⟨⟨⟨⟨⟨⟨⟨hmem, hval⟩, _⟩, _⟩, hy⟩, hn⟩, hvec⟩, hrhs⟩ := h
  refine ⟨(memb_iff p x).mp hmem, hval, fun z hz => ?_⟩
  have := (comb_le n y (polyRows p) z hy hn ((sat_polyRows' p z).mpr hz)).1
  rw [hvec, hrhs, dot_vneg_left] at this
  linarith

/-- an accepted point/ray pair proves unboundedness: below every bound there is a point of the set -/
theorem checkUnbounded_sound (n : Nat) (p : Aff α) (c x d : List α)
    (h : checkUnbounded n p c x d = true) (M : α) : ∃ z, Poly.Mem p z ∧ dot c z < M := by
  simp only [checkUnbounded, Bool.and_eq_true, beq_iff_eq, List.all_eq_true, decide_eq_true_eq] at h
  obtain ⟨⟨⟨⟨⟨hmem, hxl⟩, hdl⟩, hcl⟩, hrows⟩, hneg⟩ := h
  have hx := (memb_iff p x).mp hmem
  -- step length: far enough along the ray
  let t : α := max 0 ((dot c x - M) / (-(dot c d)) + 1)
  have ht0 : 0 ≤ t := le_max_left _ _
  have hpos : 0 < -(dot c d) := by linarith
  have ht1 : (dot c x - M) / (-(dot c d)) + 1 ≤ t := le_max_right _ _
  refine ⟨vadd x (smul t d), ?_, ?_⟩
  · intro rb hrb
    obtain ⟨hl, hle⟩ := hrows rb hrb
    rw [dot_vadd_right _ _ _ (by simp [smul_length, hxl, hdl]), dot_comm rb.1 (smul t d), dot_smul_left,
      dot_comm d rb.1]
    have := hx rb hrb
    have : t * dot rb.1 d ≤ 0 := mul_nonpos_of_nonneg_of_nonpos ht0 hle
    linarith
  · rw [dot_vadd_right _ _ _ (by simp [smul_length, hxl, hdl]), dot_comm c (smul t d), dot_smul_left, dot_comm d c]
    have h1 : (dot c x - M) / (-(dot c d)) < t := by linarith
    have h2 : dot c x - M < t * (-(dot c d)) := by
      rwa [div_lt_iff₀ hpos] at h1
    linarith

end AV
