import AffVerif.Proofs.Chebyshev
/-!
# Dropping coordinates

`keepOf n p` lists the axes `j < n` with `p j`; a row that vanishes on the dropped axes has the same product with a
vector as its restriction has with the restricted vector (`remove_axes`, `remove_zero_columns`).
-/
set_option linter.unusedSectionVars false
set_option linter.unusedVariables false
namespace AV
variable {α : Type} [Field α] [LinearOrder α] [IsStrictOrderedRing α]

/-- the kept axes of a list of coordinates -/
def keepOf (n : Nat) (p : Nat → Bool) : List Nat := (List.range n).filter p

theorem getD_append_left' (a b : List α) (j : Nat) (h : j < a.length) : (a ++ b).getD j 0 = a.getD j 0 := by
  simp [List.getD_eq_getElem?_getD, List.getElem?_append_left h]

/-- dropping coordinates where the row vanishes does not change the product -/
theorem dot_keep (n : Nat) (p : Nat → Bool) (r x : List α) (hr : r.length = n) (hx : x.length = n)
    (hz : ∀ j < n, p j = false → r.getD j 0 = 0) :
    dot ((keepOf n p).map (fun j => r.getD j 0)) ((keepOf n p).map (fun j => x.getD j 0)) = dot r x := by
  induction n generalizing r x with
  | zero =>
    have : r = [] := List.length_eq_zero_iff.mp hr
    subst this
    simp [keepOf]
  | succ n ih =>
    have hr' : r = r.take n ++ [r.getD n 0] := by
      have : r.drop n = [r.getD n 0] := by
        apply List.ext_getElem
        · simp [hr]
        · intro i h1 h2
          simp at h2
          have : i = 0 := by omega
          subst this
          simp [List.getD_eq_getElem?_getD, List.getElem?_eq_getElem (show n < r.length by omega)]
      rw [← this]; exact (List.take_append_drop n r).symm
    have hx' : x = x.take n ++ [x.getD n 0] := by
      have : x.drop n = [x.getD n 0] := by
        apply List.ext_getElem
        · simp [hx]
        · intro i h1 h2
          simp at h2
          have : i = 0 := by omega
          subst this
          simp [List.getD_eq_getElem?_getD, List.getElem?_eq_getElem (show n < x.length by omega)]
      rw [← this]; exact (List.take_append_drop n x).symm
    have hlr : (r.take n).length = n := by simp [hr]
    have hlx : (x.take n).length = n := by simp [hx]
    have ih' := ih (r.take n) (x.take n) hlr hlx (by
      intro j hj hp
      have := hz j (by omega) hp
      rw [hr'] at this
      rwa [getD_append_left' _ _ _ (by omega)] at this)
    have hk : keepOf (n+1) p = keepOf n p ++ (if p n then [n] else []) := by
      unfold keepOf
      rw [List.range_succ, List.filter_append]
      simp [List.filter_cons]
    have hmapr : (keepOf n p).map (fun j => r.getD j 0) = (keepOf n p).map (fun j => (r.take n).getD j 0) := by
      apply List.map_congr_left
      intro j hj
      have hj' : j < n := by
        have := (List.mem_filter.mp hj).1
        exact List.mem_range.mp this
      conv_lhs => rw [hr']
      exact getD_append_left' _ _ _ (by omega)
    have hmapx : (keepOf n p).map (fun j => x.getD j 0) = (keepOf n p).map (fun j => (x.take n).getD j 0) := by
      apply List.map_congr_left
      intro j hj
      have hj' : j < n := by
        have := (List.mem_filter.mp hj).1
        exact List.mem_range.mp this
      conv_lhs => rw [hx']
      exact getD_append_left' _ _ _ (by omega)
    rw [hk, List.map_append, List.map_append, hmapr, hmapx, dot_append _ _ _ _ (by simp)]
    rw [ih']
    conv_rhs => rw [hr', hx', dot_append _ _ _ _ (by rw [hlr, hlx])]
    congr 1
    by_cases hp : p n = true
    · simp [hp]
    · have hp' : p n = false := by simpa using hp
      have := hz n (by omega) hp'
      simp only [hp', Bool.false_eq_true, if_false, List.map_nil, dot_nil_left, dot_cons, this]
      simp


end AV
