import AffVerif.Proofs.ComposeLaw
/-!
Soundness of on-the-fly pruning during composition (`composeP` / `graftP`): for every input that satisfies
the closed path conditions, the pruned copy evaluates like the un-pruned copy, provided the `explore` filter
only rejects edges whose closed path polytope is empty. Binary trees (the crate's pruning supports labels 0/1 only).
-/
set_option linter.unusedSectionVars false
set_option linter.unusedVariables false
namespace AV
variable {α : Type} [Field α] [LinearOrder α] [IsStrictOrderedRing α]

/-- `x` satisfies every half-space of a path -/
def InPath (path : List (Aff α)) (x : List α) : Prop := ∀ h ∈ path, Poly.Mem h x

theorem InPath.append {p q : List (Aff α)} {x : List α} (hp : InPath p x) (hq : InPath q x) : InPath (p ++ q) x := by
  intro h hh
  rcases List.mem_append.mp hh with h1 | h1
  · exact hp h h1
  · exact hq h h1

theorem InPath.single {h : Aff α} {x : List α} (hm : Poly.Mem h x) : InPath [h] x := by
  intro h' hh; simp at hh; subst hh; exact hm

/-- the `explore` filter rejects an edge only if no point satisfies its path conditions -/
def ExploreSound {σ : Type} (ex : Explore σ α) : Prop :=
  ∀ s (e : EdgeCtx α), e.childState = .indeterminate → e.parentState ≠ .infeasible →
    (ex s e).1 = false → ¬ ∃ x, InPath e.path x

/-- routing invariant for one binary decision: `x` lies in the closed half-space of the label it takes -/
theorem mem_halfspace_label (d : Aff α) (x : List α) (hwf : d.WF) (hrows : d.outdim ≤ 1) :
    Poly.Mem (halfspace d (d.label x)) x := by
  obtain ⟨hw1, hw2⟩ := hwf
  unfold Aff.outdim at hrows
  match hm : d.mat, hb : d.bias with
  | [], _ =>
    intro rb hrb
    simp [halfspace, Aff.label, labelBits, hm, Aff.rows, matNeg] at hrb
  | [r], [] => simp [hm, hb] at hw2
  | [r], [b] =>
    unfold Aff.label
    rw [hm, hb]
    simp only [labelBits]
    by_cases hc : dot r x - b ≤ 0
    · simp only [hc, if_true]
      intro rb hrb
      simp [halfspace, Aff.rows, hm, hb] at hrb
      subst hrb
      simp; linarith
    · simp only [hc, if_false]
      intro rb hrb
      simp [halfspace, Aff.rows, hm, hb, matNeg, vneg] at hrb
      subst hrb
      simp only
      have := dot_vneg_left r x
      simp only [vneg] at this
      rw [this]
      push Not at hc; linarith
  | [r], _ :: _ :: _ => simp [hm, hb] at hw2
  | _ :: _ :: _, _ => simp [hm] at hrows

theorem label_le_one (d : Aff α) (x : List α) (hrows : d.outdim ≤ 1) : d.label x ≤ 1 := by
  unfold Aff.outdim at hrows
  unfold Aff.label
  match hm : d.mat, hb : d.bias with
  | [], _ => simp [labelBits]
  | [r], [] => simp [labelBits]
  | [r], b :: bs =>
    simp only [labelBits]
    split <;> simp [labelBits]
  | _ :: _ :: _, _ => simp [hm] at hrows

end AV

namespace AV
variable {α : Type} [Field α] [LinearOrder α] [IsStrictOrderedRing α]

mutual
/-- what pruning needs of the copied operand: binary nodes, and every updated decision is a well-formed
    predicate with at most one row -/
def PT.BinOK (S : Schema α) (t : Aff α) : PT α → Prop
  | .node _ gc ks =>
    ks.length = 2 ∧
    (ks.allNone = false → (S.updDecision gc.aff t).WF ∧ (S.updDecision gc.aff t).outdim ≤ 1) ∧
    PKids.BinOK S t ks
def PKids.BinOK (S : Schema α) (t : Aff α) : PKids α → Prop
  | .nil => True
  | .cons none r => PKids.BinOK S t r
  | .cons (some k) r => PT.BinOK S t k ∧ PKids.BinOK S t r
end

mutual
/-- evaluation does not depend on the counter that numbers the new nodes -/
theorem PT.eval_graft_indep (S : Schema α) (g : PT α) (t : Aff α) (c c' : Nat) (x : List α) :
    PT.eval (PT.graft S g t c).1 x = PT.eval (PT.graft S g t c').1 x := by
  match g with
  | .node i gc ks =>
    simp only [PT.graft, PT.eval, PKids.graft_allNone]
    split
    · rfl
    · exact PKids.evalAt_graft_indep S ks t (c+1) (c'+1) _ x
theorem PKids.evalAt_graft_indep (S : Schema α) (ks : PKids α) (t : Aff α) (c c' : Nat) (l : Nat) (x : List α) :
    PKids.evalAt (PKids.graft S ks t c).1 l x = PKids.evalAt (PKids.graft S ks t c').1 l x := by
  match ks, l with
  | .nil, _ => simp [PKids.graft, PKids.evalAt]
  | .cons none r, 0 => simp [PKids.graft, PKids.evalAt]
  | .cons (some k) r, 0 =>
    simp only [PKids.graft, PKids.evalAt]
    exact PT.eval_graft_indep S k t c c' x
  | .cons none r, l+1 =>
    simp only [PKids.graft, PKids.evalAt]
    exact PKids.evalAt_graft_indep S r t c c' l x
  | .cons (some k) r, l+1 =>
    simp only [PKids.graft, PKids.evalAt]
    exact PKids.evalAt_graft_indep S r t _ _ l x
end

end AV

namespace AV
variable {α : Type} [Field α] [LinearOrder α] [IsStrictOrderedRing α]

theorem not_inPath_of_explore {σ : Type} {ex : Explore σ α} (hex : ExploreSound ex) {s : σ} {e : EdgeCtx α}
    (hc : e.childState = .indeterminate) (hp : e.parentState ≠ .infeasible)
    (h : (ex s e).1 = false) (x : List α) : ¬ InPath e.path x :=
  fun hx => hex s e hc hp h ⟨x, hx⟩

theorem evalAt_two (a b : Option (PT α)) (lab : Nat) (x : List α) :
    PKids.evalAt (.cons a (.cons b .nil)) lab x =
      match lab with
      | 0 => a.bind (fun t => PT.eval t x)
      | 1 => b.bind (fun t => PT.eval t x)
      | _ => none := by
  match lab, a, b with
  | 0, none, _ => simp [PKids.evalAt]
  | 0, some _, _ => simp [PKids.evalAt]
  | 1, _, none => simp [PKids.evalAt]
  | 1, _, some _ => simp [PKids.evalAt]
  | n+2, _, _ => simp [PKids.evalAt]

/-- C03 core for on-the-fly pruning: the pruned copy of `g` below a terminal evaluates like the plain copy
    at every input that satisfies the path conditions of that terminal -/
theorem PT.eval_graftP {σ : Type} (S : Schema α) (ex : Explore σ α) (hex : ExploreSound ex)
    (t : Aff α) (n idx : Nat) (st : NState α) (pz : Bool) (path : List (Aff α))
    (g : PT α) (s : σ) (c c' : Nat) (x : List α)
    (hx : InPath path x) (hst : st ≠ .infeasible) (hg : PT.BinOK S t g) :
    PT.eval (PT.graftP S ex t n idx st pz path g s c).1 x = PT.eval (PT.graft S g t c').1 x := by
  match g, hg with
  | .node j gc .nil, hg => simp [PT.BinOK, IKids.length] at hg
  | .node j gc (.cons _ .nil), hg => simp [PT.BinOK, IKids.length] at hg
  | .node j gc (.cons _ (.cons _ (.cons _ _))), hg => simp [PT.BinOK, IKids.length] at hg
  | .node j gc (.cons none (.cons none .nil)), _ =>
      simp [PT.graftP, PT.graft, PKids.graft, PKids.graftP, exploreKids, countTrue, IKids.allNone,
        PT.eval, Schema.upd, Content.new]
  | .node j gc (.cons (some ka) (.cons none .nil)), hg =>
      unfold PT.BinOK at hg
      obtain ⟨hlen, hdec, hks⟩ := hg
      have hd := hdec (by simp [IKids.allNone])
      simp only [PKids.BinOK] at hks
      have hlab := mem_halfspace_label _ x hd.1 hd.2
      have hle := label_le_one (S.updDecision gc.aff t) x hd.2
      have ih := fun (s' : σ) (c1 c2 c3 : Nat) (p : List (Aff α)) (hp : InPath p x) =>
        PT.eval_graftP S ex hex t n c1 .indeterminate false p ka s' c2 c3 x hp (by simp) hks.1
      simp only [PT.graftP, PT.graft, PKids.graft, exploreKids, IKids.count, IKids.allNone,
        IKids.length, Schema.upd, Content.new, Bool.false_eq_true, if_false]
      generalize hl : (S.updDecision gc.aff t).label x = lab at hlab hle
      cases hfa : (ex s ⟨pz, .indeterminate, st, path ++ [halfspace (S.updDecision gc.aff t) 0], n⟩).1 <;>
      · simp only [countTrue, PKids.graftP, List.headD, List.tail, PT.eval, IKids.allNone,
          Bool.false_eq_true, if_false, if_true, Nat.zero_add, Nat.sub_zero, hl, evalAt_two,
          Nat.reduceAdd, Nat.reduceSub, Nat.reduceEqDiff, and_false, and_true, Nat.add_eq_zero_iff,
          Nat.succ_ne_self, one_ne_zero, OfNat.ofNat_ne_zero]
        rcases (by omega : lab = 0 ∨ lab = 1) with rfl | rfl
        · simp only [Option.bind_some]
          exact ih _ _ _ _ _ (hx.append (InPath.single hlab))
        · simp
  | .node j gc (.cons none (.cons (some kb) .nil)), hg =>
      unfold PT.BinOK at hg
      obtain ⟨hlen, hdec, hks⟩ := hg
      have hd := hdec (by simp [IKids.allNone])
      simp only [PKids.BinOK] at hks
      have hlab := mem_halfspace_label _ x hd.1 hd.2
      have hle := label_le_one (S.updDecision gc.aff t) x hd.2
      have ih := fun (s' : σ) (c1 c2 c3 : Nat) (p : List (Aff α)) (hp : InPath p x) =>
        PT.eval_graftP S ex hex t n c1 .indeterminate false p kb s' c2 c3 x hp (by simp) hks.1
      simp only [PT.graftP, PT.graft, PKids.graft, exploreKids, IKids.count, IKids.allNone,
        IKids.length, Schema.upd, Content.new, Bool.false_eq_true, if_false]
      generalize hl : (S.updDecision gc.aff t).label x = lab at hlab hle
      cases hfb : (ex s ⟨pz, .indeterminate, st, path ++ [halfspace (S.updDecision gc.aff t) 1], n⟩).1 <;>
      · simp only [countTrue, PKids.graftP, List.headD, List.tail, PT.eval, IKids.allNone,
          Bool.false_eq_true, if_false, if_true, Nat.zero_add, Nat.sub_zero, hl, evalAt_two,
          Nat.reduceAdd, Nat.reduceSub, Nat.reduceEqDiff, and_false, and_true, Nat.add_eq_zero_iff,
          Nat.succ_ne_self, one_ne_zero, OfNat.ofNat_ne_zero]
        rcases (by omega : lab = 0 ∨ lab = 1) with rfl | rfl
        · simp
        · simp only [Option.bind_some]
          exact ih _ _ _ _ _ (hx.append (InPath.single hlab))
  | .node j gc (.cons (some ka) (.cons (some kb) .nil)), hg =>
      unfold PT.BinOK at hg
      obtain ⟨hlen, hdec, hks⟩ := hg
      have hd := hdec (by simp [IKids.allNone])
      simp only [PKids.BinOK] at hks
      have hlab := mem_halfspace_label _ x hd.1 hd.2
      have hle := label_le_one (S.updDecision gc.aff t) x hd.2
      have iha := fun (s' : σ) (c1 c2 c3 : Nat) (p : List (Aff α)) (hp : InPath p x) =>
        PT.eval_graftP S ex hex t n c1 .indeterminate false p ka s' c2 c3 x hp (by simp) hks.1
      have ihb := fun (s' : σ) (c1 c2 c3 : Nat) (p : List (Aff α)) (hp : InPath p x) =>
        PT.eval_graftP S ex hex t n c1 .indeterminate false p kb s' c2 c3 x hp (by simp) hks.2.1
      simp only [PT.graftP, PT.graft, PKids.graft, exploreKids, IKids.count, IKids.allNone,
        IKids.length, Schema.upd, Content.new, Bool.false_eq_true, if_false]
      generalize hl : (S.updDecision gc.aff t).label x = lab at hlab hle
      cases hfa : (ex s ⟨pz, .indeterminate, st, path ++ [halfspace (S.updDecision gc.aff t) 0], n⟩).1 <;>
      cases hfb : (ex (ex s ⟨pz, .indeterminate, st, path ++ [halfspace (S.updDecision gc.aff t) 0], n⟩).2
          ⟨pz, .indeterminate, st, path ++ [halfspace (S.updDecision gc.aff t) 1], n⟩).1
      · -- no edge judged feasible: both children kept
        simp only [countTrue, PKids.graftP, List.headD, List.tail, PT.eval, IKids.allNone,
          Bool.false_eq_true, if_false, if_true, Nat.zero_add, Nat.sub_zero, hl, evalAt_two,
          Nat.reduceAdd, Nat.reduceSub, Nat.reduceEqDiff, and_false, and_true]
        rcases (by omega : lab = 0 ∨ lab = 1) with rfl | rfl
        · simp only [Option.bind_some]
          exact iha _ _ _ _ _ (hx.append (InPath.single hlab))
        · simp only [Option.bind_some]
          exact ihb _ _ _ _ _ (hx.append (InPath.single hlab))
      · -- label 0 rejected, label 1 kept: the node is forwarded to its label-1 child
        have hno := not_inPath_of_explore hex rfl hst hfa x
        have hl1 : lab = 1 := by
          rcases (by omega : lab = 0 ∨ lab = 1) with rfl | rfl
          · exact absurd (hx.append (InPath.single hlab)) hno
          · rfl
        subst hl1
        simp only [countTrue, PKids.graftP, List.headD, List.tail, PT.eval, IKids.allNone,
          Bool.false_eq_true, if_false, if_true, Nat.zero_add, Nat.sub_zero, hl, evalAt_two,
          Nat.reduceAdd, Nat.reduceSub, Nat.reduceEqDiff, and_self, IKids.sole?, IKids.existing,
          IKids.existingFrom, Option.bind_some]
        exact ihb _ _ _ _ _ hx
      · -- label 1 rejected, label 0 kept
        have hno := not_inPath_of_explore hex rfl hst hfb x
        have hl0 : lab = 0 := by
          rcases (by omega : lab = 0 ∨ lab = 1) with rfl | rfl
          · rfl
          · exact absurd (hx.append (InPath.single hlab)) hno
        subst hl0
        simp only [countTrue, PKids.graftP, List.headD, List.tail, PT.eval, IKids.allNone,
          Bool.false_eq_true, if_false, if_true, Nat.zero_add, Nat.sub_zero, hl, evalAt_two,
          Nat.reduceAdd, Nat.reduceSub, Nat.reduceEqDiff, and_self, IKids.sole?, IKids.existing,
          IKids.existingFrom, Option.bind_some]
        exact iha _ _ _ _ _ hx
      · simp only [countTrue, PKids.graftP, List.headD, List.tail, PT.eval, IKids.allNone,
          Bool.false_eq_true, if_false, if_true, Nat.zero_add, Nat.sub_zero, hl, evalAt_two,
          Nat.reduceAdd, Nat.reduceSub, Nat.reduceEqDiff, and_false, and_true, false_and,
          OfNat.ofNat_ne_zero, OfNat.ofNat_ne_one]
        rcases (by omega : lab = 0 ∨ lab = 1) with rfl | rfl
        · simp only [Option.bind_some]
          exact iha _ _ _ _ _ (hx.append (InPath.single hlab))
        · simp only [Option.bind_some]
          exact ihb _ _ _ _ _ (hx.append (InPath.single hlab))
termination_by sizeOf g
decreasing_by
  all_goals simp_wf
  all_goals omega

end AV

namespace AV
variable {α : Type} [Field α] [LinearOrder α] [IsStrictOrderedRing α]

mutual
/-- side conditions of pruned composition on the left operand `f` (binary decisions) and the copied operand `g` -/
def PT.PruneOK (S : Schema α) (g : PT α) : PT α → Prop
  | .node _ c ks =>
    if ks.allNone then PT.BinOK S c.aff g
    else c.aff.WF ∧ c.aff.outdim ≤ 1 ∧ PKids.PruneOK S g ks
def PKids.PruneOK (S : Schema α) (g : PT α) : PKids α → Prop
  | .nil => True
  | .cons none r => PKids.PruneOK S g r
  | .cons (some k) r => PT.PruneOK S g k ∧ PKids.PruneOK S g r
end

mutual
/-- cache soundness, infeasible clause (C05): a node marked `Infeasible` has an empty closed path polytope -/
def PT.InfSound : List (Aff α) → PT α → Prop
  | path, .node _ c ks => (c.state = .infeasible → ¬ ∃ x, InPath path x) ∧ PKids.InfSound path c.aff 0 ks
def PKids.InfSound : List (Aff α) → Aff α → Nat → PKids α → Prop
  | _, _, _, .nil => True
  | path, a, l, .cons none r => PKids.InfSound path a (l+1) r
  | path, a, l, .cons (some t) r => PT.InfSound (path ++ [halfspace a l]) t ∧ PKids.InfSound path a (l+1) r
end

theorem PKids.composeP_allNone {σ : Type} (S : Schema α) (ex : Explore σ α) (n : Nat) (path : List (Aff α))
    (paff : Aff α) (ks : PKids α) (l : Nat) (g : PT α) (s : σ) (c : Nat) :
    (PKids.composeP S ex n path paff ks l g s c).1.allNone = ks.allNone := by
  match ks with
  | .nil => simp [PKids.composeP, IKids.allNone]
  | .cons none r => simp [PKids.composeP, IKids.allNone, PKids.composeP_allNone S ex n path paff r (l+1) g s c]
  | .cons (some k) r => simp [PKids.composeP, IKids.allNone]

/-- the un-pruned composition at a terminal of `f` is the plain copy of `g` (indices and cached state aside) -/
theorem PT.eval_composeS_terminal (S : Schema α) (i : Nat) (fc : Content α) (ks : PKids α) (g : PT α)
    (c c' : Nat) (x : List α) (h : ks.allNone = true) :
    PT.eval (PT.composeS S (.node i fc ks) g c).1 x = PT.eval (PT.graft S g fc.aff c').1 x := by
  match g with
  | .node j gc gk =>
    simp only [PT.composeS, h, if_true, PT.graft, PT.eval, PKids.graft_allNone, Content.new]
    split
    · rfl
    · exact PKids.evalAt_graft_indep S gk fc.aff c (c'+1) _ x

mutual
/-- C03 for `compose::<true>` and the lifted operators: pruned and un-pruned composition agree at every
    input satisfying the path conditions accumulated so far (`[]` at the root) -/
theorem PT.eval_composeP {σ : Type} (S : Schema α) (ex : Explore σ α) (hex : ExploreSound ex)
    (n : Nat) (path : List (Aff α)) (f g : PT α) (s : σ) (c c' : Nat) (x : List α)
    (hx : InPath path x) (hf : PT.PruneOK S g f) (hc : PT.InfSound path f) :
    PT.eval (PT.composeP S ex n path f g s c).1 x = PT.eval (PT.composeS S f g c').1 x := by
  match f with
  | .node i fc ks =>
    unfold PT.PruneOK at hf
    unfold PT.InfSound at hc
    cases hl : ks.allNone with
    | true =>
      simp only [hl, if_true] at hf
      rw [PT.eval_composeS_terminal S i fc ks g c' c x hl]
      simp only [PT.composeP, hl, if_true]
      exact PT.eval_graftP S ex hex fc.aff n i fc.state (i == 0) path g s c c x hx
        (fun h => hc.1 h ⟨x, hx⟩) hf
    | false =>
      simp only [hl, Bool.false_eq_true, if_false] at hf
      obtain ⟨hwf, hrows, hk⟩ := hf
      simp only [PT.composeP, PT.composeS, hl, Bool.false_eq_true, if_false, PT.eval, PKids.composeS_allNone]
      have hall : (PKids.composeP S ex n path fc.aff ks 0 g s c).1.allNone = false := by
        rw [PKids.composeP_allNone]; exact hl
      simp only [hall, Bool.false_eq_true, if_false]
      have hmem := mem_halfspace_label fc.aff x hwf hrows
      exact PKids.evalAt_composeP S ex hex n path fc.aff ks 0 g s c c' x (fc.aff.label x) hx hk hc.2 (Nat.zero_le _) hmem
theorem PKids.evalAt_composeP {σ : Type} (S : Schema α) (ex : Explore σ α) (hex : ExploreSound ex)
    (n : Nat) (path : List (Aff α)) (paff : Aff α) (ks : PKids α) (l : Nat) (g : PT α) (s : σ) (c c' : Nat)
    (x : List α) (lab : Nat) (hx : InPath path x) (hk : PKids.PruneOK S g ks)
    (hc : PKids.InfSound path paff l ks) (hl : l ≤ lab)
    (hmem : Poly.Mem (halfspace paff lab) x) :
    PKids.evalAt (PKids.composeP S ex n path paff ks l g s c).1 (lab - l) x =
      PKids.evalAt (PKids.composeS S ks g c').1 (lab - l) x := by
  match ks with
  | .nil => simp [PKids.composeP, PKids.composeS, PKids.evalAt]
  | .cons none r =>
    simp only [PKids.composeP, PKids.composeS]
    by_cases he : lab = l
    · subst he; simp [PKids.evalAt]
    · have e : lab - l = (lab - (l+1)) + 1 := by omega
      rw [e]; simp only [PKids.evalAt]
      unfold PKids.InfSound at hc
      exact PKids.evalAt_composeP S ex hex n path paff r (l+1) g s c c' x lab hx hk hc (by omega) hmem
  | .cons (some k) r =>
    simp only [PKids.composeP, PKids.composeS]
    unfold PKids.PruneOK at hk
    unfold PKids.InfSound at hc
    by_cases he : lab = l
    · subst he
      simp only [Nat.sub_self, PKids.evalAt]
      exact PT.eval_composeP S ex hex n (path ++ [halfspace paff lab]) k g s c c' x
        (hx.append (InPath.single hmem)) hk.1 hc.1
    · have e : lab - l = (lab - (l+1)) + 1 := by omega
      rw [e]; simp only [PKids.evalAt]
      exact PKids.evalAt_composeP S ex hex n path paff r (l+1) g _ _ _ x lab hx hk.2 hc.2 (by omega) hmem
end

end AV

namespace AV
variable {α : Type} [Field α] [LinearOrder α] [IsStrictOrderedRing α]

theorem ofRows_rows (n : Nat) (rs : List (List α × α)) : (Aff.ofRows n rs).rows = rs := by
  unfold Aff.ofRows Aff.rows
  simp only
  induction rs with
  | nil => rfl
  | cons r rs ih => simp [ih]

/-- a point satisfying every half-space of a path lies in the path polytope handed to the LP -/
theorem mem_intersectionN (n : Nat) (path : List (Aff α)) (x : List α) (hx : InPath path x) :
    Poly.Mem (Poly.intersectionN n path) x := by
  unfold Poly.intersectionN
  split
  · intro rb hrb
    simp [Poly.unbounded, Aff.rows] at hrb
    subst hrb
    simp
  · intro rb hrb
    rw [ofRows_rows] at hrb
    obtain ⟨h, hh, hrb'⟩ := List.mem_flatMap.mp hrb
    exact hx h hh rb hrb'

/-- the LP oracle answers `infeasible` only for empty polytopes (hypothesis of C03 / C11; validated per call, C10) -/
def InfeasibleSound {σ : Type} (lp : LPOracle σ α) : Prop :=
  ∀ s p c, (lp s p c).1 = LPAnswer.infeasible → ¬ ∃ x, Poly.Mem p x

/-- `is_edge_feasible` is a sound `explore` filter for every solver that is right about infeasibility
    — whatever else it answers (errors, unbounded, bogus witnesses) -/
theorem isEdgeFeasible_sound {σ : Type} (tol : α) (lp : LPOracle σ α) (h : InfeasibleSound lp) :
    ExploreSound (isEdgeFeasible tol lp) := by
  intro s e hc hp hf
  rintro ⟨x, hx⟩
  unfold isEdgeFeasible at hf
  rw [hc] at hf
  have hmem := mem_intersectionN e.indim e.path x hx
  have hlp : ∀ s', (lp s' (Poly.intersectionN e.indim e.path) (zeros e.indim)).1 ≠ LPAnswer.infeasible :=
    fun s' hh => h s' _ _ hh ⟨x, hmem⟩
  by_cases hz : e.parentIsZero = true
  · simp [hz] at hf
  · simp only [hz, Bool.false_eq_true, if_false] at hf
    cases hps : e.parentState with
    | infeasible => exact hp hps
    | indeterminate =>
      simp only [hps] at hf
      have := hlp s
      rcases hr : lp s (Poly.intersectionN e.indim e.path) (zeros e.indim) with ⟨a, s''⟩
      rw [hr] at hf this
      cases a <;> simp at hf this
    | feasible =>
      simp only [hps] at hf
      have := hlp s
      rcases hr : lp s (Poly.intersectionN e.indim e.path) (zeros e.indim) with ⟨a, s''⟩
      rw [hr] at hf this
      cases a <;> simp at hf this
    | witness ws =>
      simp only [hps] at hf
      split at hf
      · simp at hf
      · skip
        have := hlp s
        rcases hr : lp s (Poly.intersectionN e.indim e.path) (zeros e.indim) with ⟨a, s''⟩
        rw [hr] at hf this
        cases a <;> simp at hf this

end AV
