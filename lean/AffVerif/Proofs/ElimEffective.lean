import AffVerif.Proofs.ElimIdem
import AffVerif.Proofs.InfOnly
/-!
Effectiveness of `infeasible_elimination` on total trees (C06, structural part): for arbitrary oracles, on a binary
tree whose decisions all have both branches and whose sibling pairs are either both fresh (`Indeterminate`) or both
cached feasible — what every compose / eliminate / compose / eliminate pipeline produces —, no decision below the
root is left with a single branch, *unless* that branch is itself marked `Infeasible` (both branches were judged
empty; with a sound and exact solver this cannot happen below a feasible node, since the two closed half-spaces
cover the parent's region).
-/
set_option linter.unusedSectionVars false
set_option linter.unusedVariables false
set_option linter.unusedSimpArgs false
namespace AV
variable {α : Type} [Field α] [LinearOrder α] [IsStrictOrderedRing α]

def PKids.allInf : PKids α → Prop
  | .nil => True
  | .cons none r => PKids.allInf r
  | .cons (some t) r => t.val.state = .infeasible ∧ PKids.allInf r

/-- a single remaining child is marked infeasible -/
def PKids.OneInf (ks : PKids α) : Prop := ks.count = 1 → PKids.allInf ks

/-- a terminal, or two children that are both fresh or both cached feasible -/
def PKids.PairOK : PKids α → Prop
  | .cons none (.cons none .nil) => True
  | .cons (some a) (.cons (some b) .nil) =>
    (a.val.state = .indeterminate ∧ b.val.state = .indeterminate) ∨
    (a.val.state.isFeasible = true ∧ b.val.state.isFeasible = true)
  | _ => False

mutual
/-- below the given node (not looking below nodes marked infeasible, which the sweep does not visit) no decision has
    a single branch that is not marked infeasible -/
def PT.NoSingle : PT α → Prop
  | .node _ _ ks => PKids.OneInf ks ∧ PKids.NoSingle ks
def PKids.NoSingle : PKids α → Prop
  | .nil => True
  | .cons none r => PKids.NoSingle r
  | .cons (some t) r => (t.val.state = .infeasible ∨ PT.NoSingle t) ∧ PKids.NoSingle r
end

mutual
/-- total binary tree whose sibling pairs are both fresh or both cached feasible -/
def PT.TotalUniform : PT α → Prop
  | .node _ _ ks => PKids.PairOK ks ∧ PKids.TotalUniform ks
def PKids.TotalUniform : PKids α → Prop
  | .nil => True
  | .cons none r => PKids.TotalUniform r
  | .cons (some t) r => PT.TotalUniform t ∧ PKids.TotalUniform r
end

theorem feasible_flags (st : NState α) (h : st.isFeasible = true) : st.isInfeasible = false ∧ st ≠ .infeasible := by
  cases st <;> simp_all [NState.isFeasible, NState.isInfeasible]

theorem notinf_flags (st : NState α) (h : st.isInfeasible = false) : st.isInfeasible = false ∧ st ≠ .infeasible := by
  cases st <;> simp_all [NState.isInfeasible]

theorem infeasible_flags (st : NState α) (h : st = .infeasible) : st.isInfeasible = true ∧ st.isFeasible = false := by
  subst h; simp [NState.isFeasible, NState.isInfeasible]

/-- the finished node with two processed children -/
theorem finish_two_noSingle (i : Nat) (c' : Content α) (ra rb : PT α) (fa fb : Bool) (newInf : List Nat)
    (lastFresh isRoot : Bool)
    (hA : (ra.val.state = .infeasible ∧ fa = true) ∨ (ra.val.state.isInfeasible = false ∧ fa = false))
    (hB : (rb.val.state = .infeasible ∧ fb = true) ∨ (rb.val.state.isInfeasible = false ∧ fb = false))
    (nsA : ra.val.state = .infeasible ∨ PT.NoSingle ra) (nsB : rb.val.state = .infeasible ∨ PT.NoSingle rb)
    (hlf : lastFresh = true ∨ (ra.val.state.isInfeasible = false ∧ rb.val.state.isInfeasible = false))
    (hnew : newInf = (if fa then [0] else []) ++ (if fb then [1] else [])) :
    PKids.NoSingle (finishNode i c' (.cons (some ra) (.cons (some rb) .nil)) newInf lastFresh isRoot).kids ∧
    (isRoot = false →
      PKids.OneInf (finishNode i c' (.cons (some ra) (.cons (some rb) .nil)) newInf lastFresh isRoot).kids) := by
  subst hnew
  rcases hA with ⟨hai, rfl⟩ | ⟨haf, rfl⟩ <;> rcases hB with ⟨hbi, rfl⟩ | ⟨hbf, rfl⟩
  · -- both infeasible: the first is removed, the second stays as the last child
    obtain ⟨a1, a2⟩ := infeasible_flags _ hai
    obtain ⟨b1, b2⟩ := infeasible_flags _ hbi
    have : forwardLabel? (.cons (some ra) (.cons (some rb) .nil)) = none := by simp [forwardLabel?, a1, a2, b1, b2]
    simp only [finishNode, this, ite_self, if_true, List.append_nil, List.cons_append, List.nil_append]
    simp [removeLabels, IKids.set, IKids.count, ITree.kids, PKids.NoSingle, PKids.OneInf, PKids.allInf, hbi]
  · -- first infeasible, second feasible
    obtain ⟨a1, a2⟩ := infeasible_flags _ hai
    obtain ⟨b1, b2⟩ := notinf_flags _ hbf
    have nsB' : PT.NoSingle rb := nsB.resolve_left b2
    have hlf' : lastFresh = true := by
      rcases hlf with h | ⟨h, _⟩
      · exact h
      · rw [a1] at h; simp at h
    have : forwardLabel? (.cons (some ra) (.cons (some rb) .nil)) = some 1 := by simp [forwardLabel?, a1, b1]
    subst hlf'
    simp only [finishNode, this, if_true]
    cases isRoot with
    | true => simp [IKids.set, ITree.kids, PKids.NoSingle, nsB']
    | false =>
      simp only [Bool.false_eq_true, if_false, IKids.get?]
      cases rb with
      | node j cc kk => unfold PT.NoSingle at nsB'; simpa [ITree.kids] using ⟨nsB'.2, nsB'.1⟩
  · obtain ⟨a1, a2⟩ := notinf_flags _ haf
    obtain ⟨b1, b2⟩ := infeasible_flags _ hbi
    have nsA' : PT.NoSingle ra := nsA.resolve_left a2
    have hlf' : lastFresh = true := by
      rcases hlf with h | ⟨_, h⟩
      · exact h
      · rw [b1] at h; simp at h
    have : forwardLabel? (.cons (some ra) (.cons (some rb) .nil)) = some 0 := by simp [forwardLabel?, a1, b1]
    subst hlf'
    simp only [finishNode, this, if_true]
    cases isRoot with
    | true => simp [IKids.set, ITree.kids, PKids.NoSingle, nsA']
    | false =>
      simp only [Bool.false_eq_true, if_false, IKids.get?]
      cases ra with
      | node j cc kk => unfold PT.NoSingle at nsA'; simpa [ITree.kids] using ⟨nsA'.2, nsA'.1⟩
  · obtain ⟨a1, a2⟩ := notinf_flags _ haf
    obtain ⟨b1, b2⟩ := notinf_flags _ hbf
    have : forwardLabel? (.cons (some ra) (.cons (some rb) .nil)) = none := by simp [forwardLabel?, a1, b1]
    simp only [finishNode, this, ite_self, Bool.false_eq_true, if_false, List.append_nil]
    simp [removeLabels, IKids.count, ITree.kids, PKids.NoSingle, PKids.OneInf, nsA.resolve_left a2,
      nsB.resolve_left b2]

/-- what `elimKids` does with one child of a uniform pair -/
theorem elimChild_uniform {σ : Type} (tol : α) (O : Oracles σ α) (n : Nat)
    (path : List (Aff α)) (paff : Aff α) (pst : NState α) (ch : PT α) (l : Nat) (s : σ)
    (hch : ch.val.state = .indeterminate ∨ ch.val.state.isFeasible = true)
    (ih : ∀ (st' : NState α) (s' : σ),
      PT.NoSingle (elimNode tol O n false (path ++ [halfspace paff l]) st' ch s').1) :
    ∀ r, r = elimChild tol O n path paff pst ch l s →
    ((r.1.val.state = .infeasible ∧ r.2.2.1 = true) ∨ (r.1.val.state.isInfeasible = false ∧ r.2.2.1 = false)) ∧
    (r.1.val.state = .infeasible ∨ PT.NoSingle r.1) ∧
    (r.2.2.2 = true ↔ ch.val.state = .indeterminate) ∧
    (r.2.2.1 = true → ch.val.state = .indeterminate) := by
  intro r hr
  subst hr
  unfold elimChild
  cases hs : ch.val.state with
  | infeasible => rw [hs] at hch; simp [NState.isFeasible] at hch
  | indeterminate =>
    simp only
    by_cases hdi : (decideNode tol O s ch.idx pst path (halfspace paff l) n).1.isInfeasible = true
    · simp only [hdi, if_true]
      have := (isInfeasible_iff' _).mp hdi
      exact ⟨Or.inl ⟨by simpa [ITree.val] using this, trivial⟩, Or.inl (by simpa [ITree.val] using this), by simp, by simp⟩
    · simp only [hdi, Bool.false_eq_true, if_false]
      have hni : (decideNode tol O s ch.idx pst path (halfspace paff l) n).1.isInfeasible = false := by simpa using hdi
      exact ⟨Or.inr ⟨elimNode_state tol O n false _ _ ch _ hni, trivial⟩, Or.inr (ih _ _), by simp, by simp⟩
  | feasible =>
    simp only
    exact ⟨Or.inr ⟨elimNode_state tol O n false _ _ ch s (by simp [NState.isInfeasible]), trivial⟩,
      Or.inr (ih _ _), by simp, by simp⟩
  | witness ws =>
    simp only
    exact ⟨Or.inr ⟨elimNode_state tol O n false _ _ ch s (by simp [NState.isInfeasible]), trivial⟩,
      Or.inr (ih _ _), by simp, by simp⟩

/-- C06 (structural part): on a total uniform tree the sweep leaves no single-branch decision below the root, except
    above a branch that is itself marked infeasible -/
theorem noSingle_elimNode {σ : Type} (tol : α) (O : Oracles σ α) (n : Nat)
    (isRoot : Bool) (path : List (Aff α)) (st : NState α) (t : PT α) (s : σ) (hu : PT.TotalUniform t) :
    PKids.NoSingle (elimNode tol O n isRoot path st t s).1.kids ∧
    (isRoot = false → PKids.OneInf (elimNode tol O n isRoot path st t s).1.kids) := by
  match t, hu with
  | .node i c .nil, hu => simp [PT.TotalUniform, PKids.PairOK] at hu
  | .node i c (.cons _ .nil), hu => simp [PT.TotalUniform, PKids.PairOK] at hu
  | .node i c (.cons _ (.cons _ (.cons _ _))), hu => simp [PT.TotalUniform, PKids.PairOK] at hu
  | .node i c (.cons (some _) (.cons none .nil)), hu => simp [PT.TotalUniform, PKids.PairOK] at hu
  | .node i c (.cons none (.cons (some _) .nil)), hu => simp [PT.TotalUniform, PKids.PairOK] at hu
  | .node i c (.cons none (.cons none .nil)), _ =>
    rw [elimNode_eq]
    simp [elimKids_cons_none, elimKids_nil, finishNode, forwardLabel?, removeLabels, ITree.kids, PKids.NoSingle,
      PKids.OneInf, IKids.count]
  | .node i c (.cons (some ka) (.cons (some kb) .nil)), hu =>
    unfold PT.TotalUniform at hu
    obtain ⟨hpair, hkids⟩ := hu
    simp only [PKids.PairOK] at hpair
    simp only [PKids.TotalUniform] at hkids
    have ihA : ∀ (st' : NState α) (s' : σ), PT.NoSingle (elimNode tol O n false (path ++ [halfspace c.aff 0]) st' ka s').1 := by
      intro st' s'
      have := noSingle_elimNode tol O n false (path ++ [halfspace c.aff 0]) st' ka s' hkids.1
      rw [node_eta (elimNode tol O n false (path ++ [halfspace c.aff 0]) st' ka s').1]
      unfold PT.NoSingle
      exact ⟨this.2 rfl, this.1⟩
    have ihB : ∀ (st' : NState α) (s' : σ), PT.NoSingle (elimNode tol O n false (path ++ [halfspace c.aff 1]) st' kb s').1 := by
      intro st' s'
      have := noSingle_elimNode tol O n false (path ++ [halfspace c.aff 1]) st' kb s' hkids.2.1
      rw [node_eta (elimNode tol O n false (path ++ [halfspace c.aff 1]) st' kb s').1]
      unfold PT.NoSingle
      exact ⟨this.2 rfl, this.1⟩
    have hka : ka.val.state = .indeterminate ∨ ka.val.state.isFeasible = true := by
      rcases hpair with h | h
      · exact Or.inl h.1
      · exact Or.inr h.1
    have hkb : kb.val.state = .indeterminate ∨ kb.val.state.isFeasible = true := by
      rcases hpair with h | h
      · exact Or.inl h.2
      · exact Or.inr h.2
    have fa := elimChild_uniform tol O n path c.aff st ka 0 s hka ihA _ rfl
    have fb := fun s1 => elimChild_uniform tol O n path c.aff st kb 1 s1 hkb ihB _ rfl
    rw [elimNode_eq]
    simp only [elimKids_cons_some, elimKids_nil, IKids.count]
    generalize elimChild tol O n path c.aff st ka 0 s = ca at fa
    have fb' := fb ca.2.1
    generalize elimChild tol O n path c.aff st kb (0+1) ca.2.1 = cb at fb'
    simp only [Nat.zero_add] at fb' ⊢
    refine finish_two_noSingle i _ ca.1 cb.1 ca.2.2.1 cb.2.2.1 _ _ isRoot fa.1 fb'.1 fa.2.1 fb'.2.1 ?_ ?_
    · -- lastFresh = "kb was indeterminate"; otherwise both were cached feasible
      rcases hpair with h | h
      · left; simpa using fb'.2.2.1.mpr h.2
      · right
        have ha : ¬ ka.val.state = .indeterminate := by
          intro he; rw [he] at h; simp [NState.isFeasible] at h
        have hb : ¬ kb.val.state = .indeterminate := by
          intro he; rw [he] at h; simp [NState.isFeasible] at h
        constructor
        · rcases fa.1 with ⟨_, hflag⟩ | ⟨hf, _⟩
          · -- flagged children were indeterminate on entry
            exact absurd (fa.2.2.2 hflag) ha
          · exact hf
        · rcases fb'.1 with ⟨_, hflag⟩ | ⟨hf, _⟩
          · exact absurd (fb'.2.2.2 hflag) hb
          · exact hf
    · cases ca.2.2.1 <;> cases cb.2.2.1 <;> simp
termination_by sizeOf t
decreasing_by
  all_goals simp_wf
  all_goals omega

end AV
