import Mathlib.Tactic.Ring
import Mathlib.Tactic.Linarith
import Mathlib.Algebra.Order.Field.Basic
import AffVerif.Model.Aff
/-! Helper lemmas about the list-based linear algebra layer (over a commutative ring). -/
set_option linter.unusedSectionVars false
set_option linter.unusedVariables false
namespace AV
variable {α : Type} [CommRing α]

@[simp] theorem dot_nil_left (x : List α) : dot ([] : List α) x = 0 := by simp [dot]
@[simp] theorem dot_nil_right (x : List α) : dot x ([] : List α) = 0 := by cases x <;> simp [dot]
@[simp] theorem dot_cons (a b : α) (as bs : List α) :
    dot (a :: as) (b :: bs) = a * b + dot as bs := by simp [dot]

@[simp] theorem vadd_nil_left (x : List α) : vadd ([] : List α) x = [] := by simp [vadd]
@[simp] theorem vadd_nil_right (x : List α) : vadd x ([] : List α) = [] := by cases x <;> simp [vadd]
@[simp] theorem vadd_cons (a b : α) (as bs : List α) :
    vadd (a :: as) (b :: bs) = (a + b) :: vadd as bs := by simp [vadd]
@[simp] theorem vsub_nil_left (x : List α) : vsub ([] : List α) x = [] := by simp [vsub]
@[simp] theorem vsub_nil_right (x : List α) : vsub x ([] : List α) = [] := by cases x <;> simp [vsub]
@[simp] theorem vsub_cons (a b : α) (as bs : List α) :
    vsub (a :: as) (b :: bs) = (a - b) :: vsub as bs := by simp [vsub]

@[simp] theorem vadd_length (x y : List α) : (vadd x y).length = min x.length y.length := by
  induction x generalizing y with
  | nil => simp
  | cons a as ih => cases y with
    | nil => simp
    | cons b bs => simp [ih, Nat.succ_min_succ]

@[simp] theorem vsub_length (x y : List α) : (vsub x y).length = min x.length y.length := by
  induction x generalizing y with
  | nil => simp
  | cons a as ih => cases y with
    | nil => simp
    | cons b bs => simp [ih, Nat.succ_min_succ]

@[simp] theorem smul_length (c : α) (x : List α) : (smul c x).length = x.length := by simp [smul]
@[simp] theorem vneg_length (x : List α) : (vneg x).length = x.length := by simp [vneg]
@[simp] theorem zeros_length (n : Nat) : (zeros n : List α).length = n := by simp [zeros]
@[simp] theorem matVec_length (A : Mat α) (x : List α) : (matVec A x).length = A.length := by
  simp [matVec]

@[simp] theorem zeros_succ (n : Nat) : (zeros (n+1) : List α) = 0 :: zeros n := by
  simp [zeros, List.replicate_succ]
@[simp] theorem zeros_zero : (zeros 0 : List α) = [] := by simp [zeros]

theorem dot_vadd_left (x y z : List α) (h : x.length = y.length) :
    dot (vadd x y) z = dot x z + dot y z := by
  induction x generalizing y z with
  | nil => cases y <;> simp_all
  | cons a as ih =>
    cases y with
    | nil => simp at h
    | cons b bs =>
      cases z with
      | nil => simp
      | cons c cs =>
        simp only [vadd_cons, dot_cons]
        rw [ih bs cs (by simpa using h)]; ring

theorem dot_vadd_right (r x y : List α) (h : x.length = y.length) :
    dot r (vadd x y) = dot r x + dot r y := by
  induction r generalizing x y with
  | nil => simp
  | cons a as ih =>
    cases x with
    | nil => cases y <;> simp_all
    | cons b bs =>
      cases y with
      | nil => simp at h
      | cons c cs =>
        simp only [vadd_cons, dot_cons]
        rw [ih bs cs (by simpa using h)]; ring

theorem dot_vsub_right (r x y : List α) (h : x.length = y.length) :
    dot r (vsub x y) = dot r x - dot r y := by
  induction r generalizing x y with
  | nil => simp
  | cons a as ih =>
    cases x with
    | nil => cases y <;> simp_all
    | cons b bs =>
      cases y with
      | nil => simp at h
      | cons c cs =>
        simp only [vsub_cons, dot_cons]
        rw [ih bs cs (by simpa using h)]; ring

theorem dot_smul_left (c : α) (x z : List α) : dot (smul c x) z = c * dot x z := by
  induction x generalizing z with
  | nil => simp [smul]
  | cons a as ih =>
    cases z with
    | nil => simp
    | cons d ds =>
      have := ih ds
      simp only [smul, List.map_cons, dot_cons] at this ⊢
      rw [this]; ring

theorem dot_vneg_left (a x : List α) : dot (vneg a) x = - dot a x := by
  induction a generalizing x with
  | nil => simp [vneg]
  | cons c cs ih =>
    cases x with
    | nil => simp [vneg]
    | cons d ds =>
      have := ih ds
      simp only [vneg, List.map_cons, dot_cons] at this ⊢
      rw [this]; ring

theorem dot_comm (x y : List α) : dot x y = dot y x := by
  induction x generalizing y with
  | nil => simp
  | cons a as ih =>
    cases y with
    | nil => simp
    | cons b bs => simp only [dot_cons]; rw [ih bs]; ring

@[simp] theorem dot_zeros_left (n : Nat) (z : List α) : dot (zeros n : List α) z = 0 := by
  induction n generalizing z with
  | zero => simp
  | succ n ih =>
    cases z with
    | nil => simp
    | cons c cs => simp [ih cs]

@[simp] theorem dot_zeros_right (n : Nat) (z : List α) : dot z (zeros n : List α) = 0 := by
  rw [dot_comm]; simp

theorem vecMat_length (n : Nat) (r : List α) (B : Mat α) (hB : ∀ b ∈ B, b.length = n) :
    (vecMat n r B).length = n := by
  induction r generalizing B with
  | nil => simp [vecMat]
  | cons a as ih =>
    cases B with
    | nil => simp [vecMat]
    | cons b bs =>
      simp only [vecMat, vadd_length, smul_length]
      rw [ih bs (fun b' hb' => hB b' (List.mem_cons_of_mem _ hb')), hB b (List.mem_cons_self)]
      simp

/-- the key associativity fact: `(r B)·x = r·(B x)` -/
theorem dot_vecMat (n : Nat) (r : List α) (B : Mat α) (x : List α)
    (hB : ∀ b ∈ B, b.length = n) (hr : r.length = B.length) :
    dot (vecMat n r B) x = dot r (matVec B x) := by
  induction r generalizing B with
  | nil => simp [vecMat]
  | cons a as ih =>
    cases B with
    | nil => simp at hr
    | cons b bs =>
      have hbs : ∀ b' ∈ bs, b'.length = n := fun b' hb' => hB b' (List.mem_cons_of_mem _ hb')
      simp only [vecMat, matVec, List.map_cons, dot_cons]
      rw [dot_vadd_left _ _ _ (by simp [vecMat_length n as bs hbs, hB b (List.mem_cons_self)]),
          dot_smul_left, ih bs hbs (by simpa using hr)]
      rfl

theorem matVec_matMul (n : Nat) (A B : Mat α) (x : List α)
    (hB : ∀ b ∈ B, b.length = n) (hA : ∀ r ∈ A, r.length = B.length) :
    matVec (matMul n A B) x = matVec A (matVec B x) := by
  simp only [matVec, matMul, List.map_map]
  apply List.map_congr_left
  intro r hr
  exact dot_vecMat n r B x hB (hA r hr)

theorem matVec_vadd (A : Mat α) (x y : List α) (h : x.length = y.length) :
    matVec A (vadd x y) = vadd (matVec A x) (matVec A y) := by
  induction A with
  | nil => simp [matVec]
  | cons r rs ih =>
    simp only [matVec, List.map_cons, vadd_cons] at ih ⊢
    rw [dot_vadd_right r x y h, ih]

theorem vadd_assoc (x y z : List α) : vadd (vadd x y) z = vadd x (vadd y z) := by
  induction x generalizing y z with
  | nil => simp
  | cons a as ih =>
    cases y with
    | nil => simp
    | cons b bs =>
      cases z with
      | nil => simp
      | cons c cs => simp only [vadd_cons, ih, add_assoc]

theorem vadd_comm (x y : List α) : vadd x y = vadd y x := by
  induction x generalizing y with
  | nil => simp
  | cons a as ih =>
    cases y with
    | nil => simp
    | cons b bs => simp only [vadd_cons, ih bs, add_comm]

theorem vadd_append (a b c d : List α) (h : a.length = c.length) :
    vadd (a ++ b) (c ++ d) = vadd a c ++ vadd b d := by
  induction a generalizing c with
  | nil => cases c <;> simp_all
  | cons x xs ih =>
    cases c with
    | nil => simp at h
    | cons y ys => simp only [List.cons_append, vadd_cons, ih ys (by simpa using h)]

/-- `apply (f ∘ g) x = apply f (apply g x)` -/
theorem Aff.apply_compose (f g : Aff α) (x : List α)
    (hg : g.WF) (hfg : ∀ r ∈ f.mat, r.length = g.outdim) (hx : x.length = g.indim) :
    (f.compose g).apply x = f.apply (g.apply x) := by
  unfold Aff.compose Aff.apply
  simp only
  rw [matVec_matMul g.indim f.mat g.mat x hg.1 hfg]
  rw [matVec_vadd f.mat (matVec g.mat x) g.bias (by simp [hg.2])]
  rw [vadd_assoc]

end AV
