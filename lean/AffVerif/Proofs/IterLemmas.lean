import AffVerif.Model.Iter
/-! The traversal machines emit the reference traversals (core Lean only). -/
namespace AV
variable {β : Type}

abbrev Stack (β : Type) := List (Nat × ITree β × Nat)

/-- reference over a whole stack of pending sub-trees -/
def refStack (sk : Nat → Nat) : Stack β → Nat → List Item × Nat
  | [], k => ([], k)
  | (d, t, r) :: rest, k =>
    let a := refDfsT sk d t r k
    let b := refStack sk rest a.2
    (a.1 ++ b.1, b.2)

def stackSize : Stack β → Nat
  | [] => 0
  | (_, t, _) :: rest => t.size + stackSize rest

theorem refStack_append (sk : Nat → Nat) (S1 S2 : Stack β) (k : Nat) :
    refStack sk (S1 ++ S2) k =
      ((refStack sk S1 k).1 ++ (refStack sk S2 (refStack sk S1 k).2).1, (refStack sk S2 (refStack sk S1 k).2).2) := by
  induction S1 generalizing k with
  | nil => simp [refStack]
  | cons e S1 ih =>
    obtain ⟨d, t, r⟩ := e
    simp only [List.cons_append, refStack, ih, List.append_assoc]

theorem stackSize_append (S1 S2 : Stack β) : stackSize (S1 ++ S2) = stackSize S1 + stackSize S2 := by
  induction S1 with
  | nil => simp [stackSize]
  | cons e S1 ih => obtain ⟨d, t, r⟩ := e; simp only [List.cons_append, stackSize, ih]; omega

theorem existingFrom_map_snd (ks : IKids β) (l l' : Nat) :
    (ks.existingFrom l).map (·.2) = (ks.existingFrom l').map (·.2) := by
  match ks with
  | .nil => simp [IKids.existingFrom]
  | .cons none r => simp only [IKids.existingFrom]; exact existingFrom_map_snd r _ _
  | .cons (some t) r =>
    simp only [IKids.existingFrom, List.map_cons]
    rw [existingFrom_map_snd r (l+1) (l'+1)]

theorem childList_cons_none (r : IKids β) : (IKids.cons none r).childList = r.childList := by
  simp only [IKids.childList, IKids.existing, IKids.existingFrom]
  exact existingFrom_map_snd r 1 0

theorem childList_cons_some (t : ITree β) (r : IKids β) : (IKids.cons (some t) r).childList = t :: r.childList := by
  simp only [IKids.childList, IKids.existing, IKids.existingFrom, List.map_cons]
  rw [existingFrom_map_snd r 1 0]

theorem childList_nil : (IKids.nil : IKids β).childList = [] := by
  simp [IKids.childList, IKids.existing, IKids.existingFrom]

theorem childList_length (ks : IKids β) : ks.childList.length = ks.count := by
  match ks with
  | .nil => simp [childList_nil, IKids.count]
  | .cons none r => rw [childList_cons_none]; simp only [IKids.count]; exact childList_length r
  | .cons (some t) r => rw [childList_cons_some]; simp only [IKids.count, List.length_cons]; rw [childList_length r]

theorem refStack_entries (sk : Nat → Nat) (d : Nat) (ks : IKids β) (k : Nat) :
    refStack sk (entries d ks.childList) k = refDfsK sk d ks k := by
  match ks with
  | .nil => simp [childList_nil, entries, refStack, refDfsK]
  | .cons none rest =>
    rw [childList_cons_none]; simp only [refDfsK]; exact refStack_entries sk d rest k
  | .cons (some t) rest =>
    rw [childList_cons_some]
    simp only [entries, refStack, refDfsK]
    rw [refStack_entries sk d rest, childList_length]

theorem stackSize_entries (d : Nat) (ks : IKids β) : stackSize (entries d ks.childList) = ks.size := by
  match ks with
  | .nil => simp [childList_nil, entries, stackSize, IKids.size]
  | .cons none rest => rw [childList_cons_none]; simp only [IKids.size]; exact stackSize_entries d rest
  | .cons (some t) rest =>
    rw [childList_cons_some]
    simp only [entries, stackSize, IKids.size, stackSize_entries d rest]

theorem entries_length (d : Nat) (cs : List (ITree β)) : (entries d cs).length = cs.length := by
  induction cs with
  | nil => rfl
  | cons c cs ih => simp [entries, ih]

/-- after at least one `skip_subtree` the stack has lost exactly what the last `next` pushed; further calls do nothing -/
theorem skipN_stack (n : Nat) (s : Dfs β) : (Dfs.skipN (n+1) s).stack = s.stack.drop s.lastPush := by
  induction n generalizing s with
  | zero => simp [Dfs.skipN, Dfs.skip]
  | succ n ih =>
    rw [Dfs.skipN, ih]
    simp [Dfs.skip]

theorem skipN_zero (s : Dfs β) : Dfs.skipN 0 s = s := rfl

/-- the machine, with `skip_subtree` called any number of times after any items, emits exactly the reference
    pre-order with those sub-trees omitted (depth, index and remaining-sibling counter included) -/
theorem dfs_run_eq_ref (sk : Nat → Nat) (fuel : Nat) (S : Stack β) (lp lb ub k : Nat)
    (hf : stackSize S ≤ fuel) :
    (Dfs.run sk fuel ⟨S, lp, lb, ub⟩ k).map (·.1) = (refStack sk S k).1 := by
  induction fuel generalizing S lp lb ub k with
  | zero =>
    cases S with
    | nil => simp [Dfs.run, refStack]
    | cons e S => obtain ⟨d, t, r⟩ := e; cases t; simp [stackSize, ITree.size] at hf
  | succ fuel ih =>
    cases S with
    | nil => simp [Dfs.run, Dfs.next, refStack]
    | cons e rest =>
      obtain ⟨d, t, r⟩ := e
      cases t with
      | node i v ks =>
        have hsz : ks.size + stackSize rest ≤ fuel := by
          simp only [stackSize, ITree.size] at hf; omega
        simp only [Dfs.run, Dfs.next, ITree.idx, ITree.kids, refStack, refDfsT, List.map_cons]
        cases hsk : sk k with
        | zero =>
          simp only [skipN_zero, ne_eq, not_true_eq_false, if_false]
          rw [ih _ _ _ _ (k+1) (by rw [stackSize_append, stackSize_entries]; omega)]
          rw [refStack_append, refStack_entries]
          simp
        | succ m =>
          simp only [ne_eq, Nat.succ_ne_zero, not_false_eq_true, if_true]
          have hst := skipN_stack m (⟨entries (d+1) ks.childList ++ rest, ks.childList.length, lb - 1, ub - 1⟩ : Dfs β)
          simp only at hst
          have hdrop : (entries (d+1) ks.childList ++ rest).drop ks.childList.length = rest := by
            rw [← entries_length (d+1) ks.childList]; simp
          rw [hdrop] at hst
          generalize hg : Dfs.skipN (m+1) (⟨entries (d+1) ks.childList ++ rest, ks.childList.length, lb - 1, ub - 1⟩ : Dfs β) = s' at hst
          obtain ⟨S', lp', lb', ub'⟩ := s'
          simp only at hst
          subst hst
          rw [ih S' lp' lb' ub' (k+1) (by omega)]
          simp

end AV

namespace AV
variable {β : Type}

theorem ITree.size_pos (t : ITree β) : 1 ≤ t.size := by
  cases t; simp [ITree.size]

theorem stackSize_ge_length (S : Stack β) : S.length ≤ stackSize S := by
  induction S with
  | nil => simp [stackSize]
  | cons e S ih =>
    obtain ⟨d, t, r⟩ := e
    simp only [stackSize, List.length_cons]
    have := ITree.size_pos t
    omega

theorem stackSize_take_drop (S : Stack β) (n : Nat) : stackSize S = stackSize (S.take n) + stackSize (S.drop n) := by
  have := stackSize_append (S.take n) (S.drop n)
  rw [List.take_append_drop] at this
  exact this

/-- without further skips the machine emits exactly `stackSize` more items -/
theorem refStack_noskip_length (S : Stack β) (k : Nat) : (refStack (fun _ => 0) S k).1.length = stackSize S := by
  induction S generalizing k with
  | nil => simp [refStack, stackSize]
  | cons e S ih =>
    obtain ⟨d, t, r⟩ := e
    simp only [refStack, stackSize, List.length_append, ih]
    congr 1
    exact refT_len t d r k
where
  refT_len (t : ITree β) (d r k : Nat) : (refDfsT (fun _ => 0) d t r k).1.length = t.size := by
    match t with
    | .node i v ks =>
      simp only [refDfsT, ne_eq, not_true_eq_false, if_false, List.length_cons, ITree.size]
      rw [refK_len ks (d+1) (k+1)]; omega
  refK_len (ks : IKids β) (d k : Nat) : (refDfsK (fun _ => 0) d ks k).1.length = ks.size := by
    match ks with
    | .nil => simp [refDfsK, IKids.size]
    | .cons none rest => simp only [refDfsK, IKids.size]; exact refK_len rest d k
    | .cons (some t) rest =>
      simp only [refDfsK, IKids.size, List.length_append]
      rw [refT_len t d rest.count k, refK_len rest d _]

/-- size-hint invariant of `DfsPre`: the bounds bracket the number of items still to come (if `skip_subtree`
    is not called again), and `last_push` entries are on the stack -/
def Dfs.Inv (s : Dfs β) : Prop :=
  s.lb ≤ stackSize s.stack ∧ stackSize s.stack ≤ s.ub ∧ s.lastPush ≤ s.stack.length

theorem Dfs.inv_new (whole start : ITree β) (hsub : start.size ≤ whole.size)
    (hroot : start.idx = whole.idx → start.size = whole.size) : (Dfs.new whole start).Inv := by
  unfold Dfs.new Dfs.Inv
  simp only [stackSize, List.length_cons, List.length_nil]
  refine ⟨?_, by omega, by omega⟩
  split
  · rename_i h; have := hroot h; omega
  · omega

theorem Dfs.inv_next (s s' : Dfs β) (it : Item) (h : s.Inv) (hn : s.next = some (it, s')) : s'.Inv := by
  obtain ⟨S, lp, lb, ub⟩ := s
  cases S with
  | nil => simp [Dfs.next] at hn
  | cons e rest =>
    obtain ⟨d, t, r⟩ := e
    simp only [Dfs.next, Option.some.injEq, Prod.mk.injEq] at hn
    obtain ⟨_, rfl⟩ := hn
    unfold Dfs.Inv at h ⊢
    simp only [stackSize] at h
    simp only [stackSize_append, stackSize_entries, List.length_append, entries_length]
    cases t with
    | node i v ks =>
      simp only [ITree.size, ITree.kids] at h ⊢
      omega

theorem Dfs.inv_skip (s : Dfs β) (h : s.Inv) : s.skip.Inv := by
  unfold Dfs.Inv at h
  unfold Dfs.skip Dfs.Inv
  simp only
  have h1 := stackSize_take_drop s.stack s.lastPush
  have h2 := stackSize_ge_length (s.stack.take s.lastPush)
  have h3 := stackSize_ge_length (s.stack.drop s.lastPush)
  have h4 : (s.stack.take s.lastPush).length = s.lastPush := by
    rw [List.length_take]; omega
  omega

end AV

namespace AV
variable {β : Type}

abbrev EStack (β : Type) := List (Nat × Nat × Nat × ITree β)

def refStackE (sk : Nat → Nat) : EStack β → Nat → List EItem × Nat
  | [], k => ([], k)
  | (_, src, l, t) :: rest, k =>
    let a := refEdgeT sk src l t k
    let b := refStackE sk rest a.2
    (a.1 ++ b.1, b.2)

def stackSizeE : EStack β → Nat
  | [] => 0
  | (_, _, _, t) :: rest => t.size + stackSizeE rest

theorem refStackE_append (sk : Nat → Nat) (S1 S2 : EStack β) (k : Nat) :
    refStackE sk (S1 ++ S2) k =
      ((refStackE sk S1 k).1 ++ (refStackE sk S2 (refStackE sk S1 k).2).1, (refStackE sk S2 (refStackE sk S1 k).2).2) := by
  induction S1 generalizing k with
  | nil => simp [refStackE]
  | cons e S1 ih =>
    obtain ⟨d, src, l, t⟩ := e
    simp only [List.cons_append, refStackE, ih, List.append_assoc]

theorem stackSizeE_append (S1 S2 : EStack β) : stackSizeE (S1 ++ S2) = stackSizeE S1 + stackSizeE S2 := by
  induction S1 with
  | nil => simp [stackSizeE]
  | cons e S1 ih => obtain ⟨d, src, l, t⟩ := e; simp only [List.cons_append, stackSizeE, ih]; omega

theorem refStackE_entries (sk : Nat → Nat) (d src : Nat) (ks : IKids β) (l k : Nat) :
    refStackE sk (edgeEntries d src (ks.existingFrom l)) k = refEdgeK sk src l ks k := by
  match ks with
  | .nil => simp [IKids.existingFrom, edgeEntries, refStackE, refEdgeK]
  | .cons none rest =>
    simp only [IKids.existingFrom, refEdgeK]; exact refStackE_entries sk d src rest (l+1) k
  | .cons (some t) rest =>
    simp only [IKids.existingFrom, edgeEntries, List.map_cons, refStackE, refEdgeK]
    have := refStackE_entries sk d src rest (l+1) (refEdgeT sk src l t k).2
    simp only [edgeEntries] at this
    rw [this]

theorem stackSizeE_entries (d src : Nat) (ks : IKids β) (l : Nat) :
    stackSizeE (edgeEntries d src (ks.existingFrom l)) = ks.size := by
  match ks with
  | .nil => simp [IKids.existingFrom, edgeEntries, stackSizeE, IKids.size]
  | .cons none rest => simp only [IKids.existingFrom, IKids.size]; exact stackSizeE_entries d src rest (l+1)
  | .cons (some t) rest =>
    simp only [IKids.existingFrom, edgeEntries, List.map_cons, stackSizeE, IKids.size]
    have := stackSizeE_entries d src rest (l+1)
    simp only [edgeEntries] at this
    rw [this]

theorem edgeEntries_length (d src : Nat) (cs : List (Nat × ITree β)) : (edgeEntries d src cs).length = cs.length := by
  simp [edgeEntries]

theorem skipNE_stack (n : Nat) (s : DfsE β) : (DfsE.skipN (n+1) s).stack = s.stack.drop s.lastPush := by
  induction n generalizing s with
  | zero => simp [DfsE.skipN, DfsE.skip]
  | succ n ih =>
    rw [DfsE.skipN, ih]
    simp [DfsE.skip]

/-- the edge traversal emits the reference edge list (pre-order, children by ascending label), with skips -/
theorem dfsE_run_eq_ref (sk : Nat → Nat) (fuel : Nat) (S : EStack β) (lp lb ub k : Nat)
    (hf : stackSizeE S ≤ fuel) :
    (DfsE.run sk fuel ⟨S, lp, lb, ub⟩ k).map (·.1) = (refStackE sk S k).1 := by
  induction fuel generalizing S lp lb ub k with
  | zero =>
    cases S with
    | nil => simp [DfsE.run, refStackE]
    | cons e S => obtain ⟨d, src, l, t⟩ := e; cases t; simp [stackSizeE, ITree.size] at hf
  | succ fuel ih =>
    cases S with
    | nil => simp [DfsE.run, DfsE.next, refStackE]
    | cons e rest =>
      obtain ⟨d, src, l, t⟩ := e
      cases t with
      | node i v ks =>
        have hsz : ks.size + stackSizeE rest ≤ fuel := by
          simp only [stackSizeE, ITree.size] at hf; omega
        simp only [DfsE.run, DfsE.next, ITree.idx, ITree.kids, refStackE, refEdgeT, List.map_cons]
        cases hsk : sk k with
        | zero =>
          simp only [DfsE.skipN, ne_eq, not_true_eq_false, if_false]
          rw [ih _ _ _ _ (k+1) (by
            rw [stackSizeE_append]
            have := stackSizeE_entries (d+1) i ks 0
            simp only [IKids.existing] at this ⊢
            omega)]
          rw [refStackE_append]
          have := refStackE_entries sk (d+1) i ks 0 (k+1)
          simp only [IKids.existing] at this ⊢
          rw [this]
          simp
        | succ m =>
          simp only [ne_eq, Nat.succ_ne_zero, not_false_eq_true, if_true]
          have hst := skipNE_stack m (⟨edgeEntries (d+1) i ks.existing ++ rest, ks.existing.length, lb - 1, ub - 1⟩ : DfsE β)
          simp only at hst
          have hdrop : (edgeEntries (d+1) i ks.existing ++ rest).drop ks.existing.length = rest := by
            rw [← edgeEntries_length (d+1) i ks.existing]; simp
          rw [hdrop] at hst
          generalize hg : DfsE.skipN (m+1) (⟨edgeEntries (d+1) i ks.existing ++ rest, ks.existing.length, lb - 1, ub - 1⟩ : DfsE β) = s' at hst
          obtain ⟨S', lp', lb', ub'⟩ := s'
          simp only at hst
          subst hst
          rw [ih S' lp' lb' ub' (k+1) (by omega)]
          simp

end AV
