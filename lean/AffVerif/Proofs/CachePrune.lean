import AffVerif.Proofs.WitSound
/-!
Cache invariant (C05) across the *pruned* composition (`compose::<true>` and the tree-tree operators): every node
copied from the right operand starts with state `Indeterminate` — whatever state it carried in the operand — and the
terminal of the left operand keeps its state at its unchanged path (or is replaced by a fresh forwarded child).
-/
set_option linter.unusedSectionVars false
set_option linter.unusedVariables false
namespace AV
variable {α : Type} [Field α] [LinearOrder α] [IsStrictOrderedRing α]

theorem PKids.fresh_existingFrom (ks : PKids α) (l : Nat) (h : PKids.Fresh ks) :
    ∀ e ∈ ks.existingFrom l, PT.Fresh e.2 := by
  match ks with
  | .nil => simp [IKids.existingFrom]
  | .cons none r => simp only [IKids.existingFrom]; unfold PKids.Fresh at h; exact PKids.fresh_existingFrom r (l+1) h
  | .cons (some t) r =>
    unfold PKids.Fresh at h
    intro e he
    simp only [IKids.existingFrom, List.mem_cons] at he
    rcases he with rfl | he
    · exact h.1
    · exact PKids.fresh_existingFrom r (l+1) h.2 e he

theorem PKids.fresh_sole (ks : PKids α) (ch : PT α) (h : PKids.Fresh ks) (hs : IKids.sole? ks = some ch) :
    PT.Fresh ch := by
  unfold IKids.sole? at hs
  have hall := PKids.fresh_existingFrom ks 0 h
  unfold IKids.existing at hs
  cases he : ks.existingFrom 0 with
  | nil => rw [he] at hs; simp at hs
  | cons e es =>
    rw [he] at hs hall
    cases es with
    | nil =>
      obtain ⟨l, t⟩ := e
      simp only [Option.some.injEq] at hs
      subst hs
      exact hall (l, t) (by simp)
    | cons e2 es2 => simp at hs

mutual
/-- the copy of an operand node with initial state `Indeterminate` is fresh all the way down -/
theorem PT.fresh_graftP {σ : Type} (S : Schema α) (ex : Explore σ α) (t : Aff α) (n idx : Nat) (pz : Bool)
    (path : List (Aff α)) (g : PT α) (s : σ) (c : Nat) :
    PT.Fresh (PT.graftP S ex t n idx .indeterminate pz path g s c).1 := by
  match g with
  | .node j gc gk =>
    unfold PT.graftP
    simp only
    split
    · unfold PT.Fresh
      exact ⟨rfl, PKids.fresh_graftP S ex t n _ path true [] gk 0 _ c⟩
    · split
      · have hk := PKids.fresh_graftP S ex t n (S.upd gk.allNone gc.aff t) path false
          (exploreKids ex pz .indeterminate path (S.upd gk.allNone gc.aff t) n gk 0 s).1 gk 0
          (exploreKids ex pz .indeterminate path (S.upd gk.allNone gc.aff t) n gk 0 s).2 c
        split
        · rename_i ch hsole
          exact PKids.fresh_sole _ ch hk hsole
        · unfold PT.Fresh
          exact ⟨rfl, hk⟩
      · unfold PT.Fresh
        exact ⟨rfl, PKids.fresh_graftP S ex t n _ path true _ gk 0 _ c⟩
theorem PKids.fresh_graftP {σ : Type} (S : Schema α) (ex : Explore σ α) (t : Aff α) (n : Nat) (paff : Aff α)
    (path : List (Aff α)) (ext : Bool) (fl : List Bool) (gk : PKids α) (l : Nat) (s : σ) (c : Nat) :
    PKids.Fresh (PKids.graftP S ex t n paff path ext fl gk l s c).1 := by
  match gk with
  | .nil => simp [PKids.graftP, PKids.Fresh]
  | .cons none r =>
    simp only [PKids.graftP, PKids.Fresh]
    exact PKids.fresh_graftP S ex t n paff path ext fl.tail r (l+1) s c
  | .cons (some k) r =>
    unfold PKids.graftP
    split
    · simp only [PKids.Fresh]
      exact ⟨PT.fresh_graftP S ex t n c false _ k s (c+1), PKids.fresh_graftP S ex t n paff path ext fl.tail r (l+1) _ _⟩
    · simp only [PKids.Fresh]
      exact PKids.fresh_graftP S ex t n paff path ext fl.tail r (l+1) s c
end

/-- the copy of the operand's root below a terminal of the left operand: the terminal's state stays at its path, or
    the node is replaced by a fresh forwarded child -/
theorem PT.graftP_root_cases {σ : Type} (S : Schema α) (ex : Explore σ α) (t : Aff α) (n idx : Nat) (st : NState α)
    (pz : Bool) (path : List (Aff α)) (g : PT α) (s : σ) (c : Nat) :
    PT.Fresh (PT.graftP S ex t n idx st pz path g s c).1 ∨
    ∃ aff' ks, (PT.graftP S ex t n idx st pz path g s c).1 = .node idx ⟨aff', st⟩ ks ∧ PKids.Fresh ks := by
  match g with
  | .node j gc gk =>
    unfold PT.graftP
    simp only
    split
    · exact Or.inr ⟨_, _, rfl, PKids.fresh_graftP S ex t n _ path true [] gk 0 _ c⟩
    · split
      · have hk := PKids.fresh_graftP S ex t n (S.upd gk.allNone gc.aff t) path false
          (exploreKids ex pz st path (S.upd gk.allNone gc.aff t) n gk 0 s).1 gk 0
          (exploreKids ex pz st path (S.upd gk.allNone gc.aff t) n gk 0 s).2 c
        split
        · rename_i ch hsole
          exact Or.inl (PKids.fresh_sole _ ch hk hsole)
        · exact Or.inr ⟨_, _, rfl, hk⟩
      · exact Or.inr ⟨_, _, rfl, PKids.fresh_graftP S ex t n _ path true _ gk 0 _ c⟩

mutual
theorem PT.infSound_composeP {σ : Type} (S : Schema α) (ex : Explore σ α) (n : Nat) (path : List (Aff α))
    (f g : PT α) (s : σ) (c : Nat) (h : PT.InfSound path f) :
    PT.InfSound path (PT.composeP S ex n path f g s c).1 := by
  match f with
  | .node i fc ks =>
    unfold PT.InfSound at h
    unfold PT.composeP
    split
    · rcases PT.graftP_root_cases S ex fc.aff n i fc.state (i == 0) path g s c with hf | ⟨aff', ks', he, hk⟩
      · exact PT.infSound_of_fresh _ path hf
      · rw [he]
        unfold PT.InfSound
        exact ⟨h.1, PKids.infSound_of_fresh ks' path aff' 0 hk⟩
    · simp only
      unfold PT.InfSound
      exact ⟨h.1, PKids.infSound_composeP S ex n path fc.aff ks 0 g s c h.2⟩
theorem PKids.infSound_composeP {σ : Type} (S : Schema α) (ex : Explore σ α) (n : Nat) (path : List (Aff α))
    (paff : Aff α) (ks : PKids α) (l : Nat) (g : PT α) (s : σ) (c : Nat) (h : PKids.InfSound path paff l ks) :
    PKids.InfSound path paff l (PKids.composeP S ex n path paff ks l g s c).1 := by
  match ks with
  | .nil => simp [PKids.composeP, PKids.InfSound]
  | .cons none r =>
    simp only [PKids.composeP, PKids.InfSound] at h ⊢
    exact PKids.infSound_composeP S ex n path paff r (l+1) g s c h
  | .cons (some k) r =>
    simp only [PKids.composeP, PKids.InfSound] at h ⊢
    exact ⟨PT.infSound_composeP S ex n _ k g s c h.1, PKids.infSound_composeP S ex n path paff r (l+1) g _ _ h.2⟩
end

mutual
theorem PT.witSound_composeP {σ : Type} (tol : α) (S : Schema α) (ex : Explore σ α) (n : Nat) (path : List (Aff α))
    (f g : PT α) (s : σ) (c : Nat) (h : PT.WitSound tol path f) :
    PT.WitSound tol path (PT.composeP S ex n path f g s c).1 := by
  match f with
  | .node i fc ks =>
    unfold PT.WitSound at h
    unfold PT.composeP
    split
    · rcases PT.graftP_root_cases S ex fc.aff n i fc.state (i == 0) path g s c with hf | ⟨aff', ks', he, hk⟩
      · exact PT.witSound_of_fresh tol _ path hf
      · rw [he]
        unfold PT.WitSound
        exact ⟨h.1, PKids.witSound_of_fresh tol ks' path aff' 0 hk⟩
    · simp only
      unfold PT.WitSound
      exact ⟨h.1, PKids.witSound_composeP tol S ex n path fc.aff ks 0 g s c h.2⟩
theorem PKids.witSound_composeP {σ : Type} (tol : α) (S : Schema α) (ex : Explore σ α) (n : Nat)
    (path : List (Aff α)) (paff : Aff α) (ks : PKids α) (l : Nat) (g : PT α) (s : σ) (c : Nat)
    (h : PKids.WitSound tol path paff l ks) :
    PKids.WitSound tol path paff l (PKids.composeP S ex n path paff ks l g s c).1 := by
  match ks with
  | .nil => simp [PKids.composeP, PKids.WitSound]
  | .cons none r =>
    simp only [PKids.composeP, PKids.WitSound] at h ⊢
    exact PKids.witSound_composeP tol S ex n path paff r (l+1) g s c h
  | .cons (some k) r =>
    simp only [PKids.composeP, PKids.WitSound] at h ⊢
    exact ⟨PT.witSound_composeP tol S ex n _ k g s c h.1, PKids.witSound_composeP tol S ex n path paff r (l+1) g _ _ h.2⟩
end

end AV
