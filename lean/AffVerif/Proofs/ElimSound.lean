import AffVerif.Proofs.PruneSound
import AffVerif.Model.Elim
/-!
Soundness of `infeasible_elimination` (C03 part 2, C11): for every LP backend that is right whenever it answers
"infeasible" and *arbitrary* otherwise (errors, unbounded, bogus witnesses), and for an arbitrary `mirror_points`
oracle, the swept tree evaluates like the original at every input.
-/
set_option linter.unusedSectionVars false
set_option linter.unusedVariables false
namespace AV
variable {α : Type} [Field α] [LinearOrder α] [IsStrictOrderedRing α]

theorem phaseInh_not_infeasible (tol : α) (pst : NState α) (hyper : Aff α) :
    (phaseInh tol pst hyper).isInfeasible = false := by
  unfold phaseInh
  cases pst with
  | witness ws =>
    simp only
    by_cases h : (ws.filter (fun w => Poly.containsTol tol hyper w)).isEmpty = true
    · simp [h, NState.isInfeasible]
    · simp [h, NState.isInfeasible]
  | _ => simp [NState.isInfeasible]

theorem phaseOne_not_infeasible {σ : Type} (O : Oracles σ α) (s : σ) (node : Nat) (pst : NState α) (poly : Aff α) :
    (phaseOne O s node pst poly).1.isInfeasible = false := by
  unfold phaseOne
  cases pst <;> simp [NState.isInfeasible]
  rename_i ws
  rcases h : O.mirror s node poly ws 8 with ⟨r, s'⟩
  cases r <;> simp [NState.isInfeasible]

theorem phaseTwo_infeasible {σ : Type} (tol : α) (O : Oracles σ α) (s : σ) (node : Nat) (poly : Aff α) (n : Nat)
    (h : (phaseTwo tol O s node poly n).1.isInfeasible = true) :
    (O.lp s poly (zeros n)).1 = LPAnswer.infeasible := by
  unfold phaseTwo at h
  rcases hr : O.lp s poly (zeros n) with ⟨a, s1⟩
  rw [hr] at h
  cases a with
  | infeasible => rfl
  | unbounded => simp [NState.isInfeasible] at h
  | error => simp [NState.isInfeasible] at h
  | optimal sol =>
    simp only at h
    split at h
    · simp [NState.isInfeasible] at h
    · rcases hm : O.mirror s1 node poly [sol] 20 with ⟨r, s2⟩
      rw [hm] at h
      cases r with
      | none => simp [NState.isInfeasible] at h
      | some pts =>
        cases pts with
        | nil => simp [NState.isInfeasible] at h
        | cons p ps =>
          simp only at h
          split at h <;> simp [NState.isInfeasible] at h

/-- a node is decided infeasible only on the solver's word, for the closed path polytope of that node -/
theorem decideNode_sound {σ : Type} (tol : α) (O : Oracles σ α) (hlp : InfeasibleSound O.lp)
    (s : σ) (node : Nat) (pst : NState α) (path : List (Aff α)) (hyper : Aff α) (n : Nat)
    (h : (decideNode tol O s node pst path hyper n).1.isInfeasible = true) :
    ¬ ∃ x, InPath (path ++ [hyper]) x := by
  rintro ⟨x, hx⟩
  have hmem := mem_intersectionN n (path ++ [hyper]) x hx
  unfold decideNode at h
  simp only at h
  cases hi : phaseInh tol pst hyper with
  | indeterminate =>
    simp only [hi] at h
    rcases h1 : phaseOne O s node pst (Poly.intersectionN n (path ++ [hyper])) with ⟨st1, s1⟩
    have hno := phaseOne_not_infeasible O s node pst (Poly.intersectionN n (path ++ [hyper]))
    rw [h1] at h hno
    cases st1 with
    | indeterminate =>
      simp only at h
      have := phaseTwo_infeasible tol O s1 node _ n h
      exact hlp s1 _ _ this ⟨x, hmem⟩
    | infeasible => simp [NState.isInfeasible] at hno
    | feasible => simp [NState.isInfeasible] at h
    | witness ws => simp [NState.isInfeasible] at h
  | infeasible => have := phaseInh_not_infeasible tol pst hyper; rw [hi] at this; simp [NState.isInfeasible] at this
  | feasible => simp [hi, NState.isInfeasible] at h
  | witness ws => simp [hi, NState.isInfeasible] at h

end AV

namespace AV
variable {α : Type} [Field α] [LinearOrder α] [IsStrictOrderedRing α]

/-- what `elimKids` does with one existing child at label `l`: processed child, oracle state,
    "newly infeasible", "was indeterminate on entry" -/
def elimChild {σ : Type} (tol : α) (O : Oracles σ α) (n : Nat) (path : List (Aff α)) (paff : Aff α)
    (pst : NState α) (ch : PT α) (l : Nat) (s : σ) : PT α × σ × Bool × Bool :=
  match ch.val.state with
  | .infeasible => (ch, s, false, false)
  | .indeterminate =>
    let d := decideNode tol O s ch.idx pst path (halfspace paff l) n
    if d.1.isInfeasible then (.node ch.idx ⟨ch.val.aff, d.1⟩ ch.kids, d.2, true, true)
    else
      let sub := elimNode tol O n false (path ++ [halfspace paff l]) d.1 ch d.2
      (sub.1, sub.2, false, true)
  | .feasible =>
    let sub := elimNode tol O n false (path ++ [halfspace paff l]) .feasible ch s
    (sub.1, sub.2, false, false)
  | .witness ws =>
    let sub := elimNode tol O n false (path ++ [halfspace paff l]) (.witness ws) ch s
    (sub.1, sub.2, false, false)

theorem elimKids_cons_some {σ : Type} (tol : α) (O : Oracles σ α) (n : Nat) (path : List (Aff α)) (paff : Aff α)
    (pst : NState α) (ch : PT α) (r : PKids α) (l : Nat) (s : σ) :
    elimKids tol O n path paff pst (.cons (some ch) r) l s =
      (let c := elimChild tol O n path paff pst ch l s
       let r' := elimKids tol O n path paff pst r (l+1) c.2.1
       ⟨.cons (some c.1) r'.kids, r'.st, if c.2.2.1 then l :: r'.newInf else r'.newInf,
        if r.count = 0 then c.2.2.2 else r'.lastFresh⟩) := by
  unfold elimChild
  rw [elimKids]
  cases hs : ch.val.state with
  | infeasible => simp
  | indeterminate =>
    simp only
    split <;> simp_all
  | feasible => simp
  | witness ws => simp

theorem elimKids_cons_none {σ : Type} (tol : α) (O : Oracles σ α) (n : Nat) (path : List (Aff α)) (paff : Aff α)
    (pst : NState α) (r : PKids α) (l : Nat) (s : σ) :
    elimKids tol O n path paff pst (.cons none r) l s =
      (let r' := elimKids tol O n path paff pst r (l+1) s
       ⟨.cons none r'.kids, r'.st, r'.newInf, r'.lastFresh⟩) := by
  rw [elimKids]

theorem elimKids_nil {σ : Type} (tol : α) (O : Oracles σ α) (n : Nat) (path : List (Aff α)) (paff : Aff α)
    (pst : NState α) (l : Nat) (s : σ) :
    elimKids tol O n path paff pst .nil l s = ⟨.nil, s, [], false⟩ := by
  rw [elimKids]

end AV

namespace AV
variable {α : Type} [Field α] [LinearOrder α] [IsStrictOrderedRing α]

mutual
/-- what the sweep needs of the tree: binary nodes whose decisions are well-formed one-row predicates -/
def PT.ElimOK : PT α → Prop
  | .node _ c ks => ks.length = 2 ∧ (ks.allNone = false → c.aff.WF ∧ c.aff.outdim ≤ 1) ∧ PKids.ElimOK ks
def PKids.ElimOK : PKids α → Prop
  | .nil => True
  | .cons none r => PKids.ElimOK r
  | .cons (some t) r => PT.ElimOK t ∧ PKids.ElimOK r
end

theorem forwardLabel_spec (ks : PKids α) (l : Nat) (h : forwardLabel? ks = some l) :
    ∃ a b : PT α, ks = .cons (some a) (.cons (some b) .nil) ∧
      ((l = 0 ∧ a.val.state.isInfeasible = false ∧ b.val.state.isInfeasible = true) ∨
       (l = 1 ∧ a.val.state.isInfeasible = true ∧ b.val.state.isInfeasible = false)) := by
  unfold forwardLabel? at h
  split at h
  · rename_i a b
    refine ⟨a, b, rfl, ?_⟩
    by_cases h1 : (!a.val.state.isInfeasible && b.val.state.isInfeasible) = true
    · simp only [h1, if_true, Option.some.injEq] at h
      simp only [Bool.and_eq_true, Bool.not_eq_true'] at h1
      exact Or.inl ⟨h.symm, h1.1, h1.2⟩
    · simp only [h1, Bool.false_eq_true, if_false] at h
      by_cases h2 : (a.val.state.isInfeasible && !b.val.state.isInfeasible) = true
      · simp only [h2, if_true, Option.some.injEq] at h
        simp only [Bool.and_eq_true, Bool.not_eq_true'] at h2
        exact Or.inr ⟨h.symm, h2.1, h2.2⟩
      · simp [h2] at h
  · simp at h

theorem feasible_not_infeasible (st : NState α) (h : st.isFeasible = true) : st.isInfeasible = false := by
  cases st <;> simp_all [NState.isFeasible, NState.isInfeasible]

theorem eval_node_state (i : Nat) (a : Aff α) (s1 s2 : NState α) (ks : PKids α) (x : List α) :
    PT.eval (.node i ⟨a, s1⟩ ks) x = PT.eval (.node i ⟨a, s2⟩ ks) x := by
  simp [PT.eval]

theorem node_eta (t : PT α) : t = .node t.idx t.val t.kids := by
  cases t; rfl

/-- the sweep never returns a node marked infeasible when it is entered with a feasible / undecided state -/
theorem elimNode_state {σ : Type} (tol : α) (O : Oracles σ α) (n : Nat) (isRoot : Bool) (path : List (Aff α))
    (st : NState α) (t : PT α) (s : σ) (hst : st.isInfeasible = false) :
    (elimNode tol O n isRoot path st t s).1.val.state.isInfeasible = false := by
  match t with
  | .node i c ks =>
    rw [elimNode]
    generalize elimKids tol O n path c.aff st ks 0 s = r
    cases hfl : (if r.lastFresh then forwardLabel? r.kids else none) with
    | none => simp [ITree.val, hst]
    | some l =>
      simp only
      cases isRoot with
      | true => simp [ITree.val, hst]
      | false =>
        simp only [Bool.false_eq_true, if_false]
        cases hch : r.kids.get? l with
        | none => simp [ITree.val, hst]
        | some ch =>
          simp only
          have hl : forwardLabel? r.kids = some l := by
            by_cases hf : r.lastFresh = true
            · simpa [hf] using hfl
            · simp [hf] at hfl
          obtain ⟨a, b, hks, hcase⟩ := forwardLabel_spec _ l hl
          rw [hks] at hch
          rcases hcase with ⟨rfl, ha, _⟩ | ⟨rfl, _, hb⟩
          · simp [IKids.get?] at hch; subst hch; exact ha
          · simp [IKids.get?] at hch; subst hch; exact hb

end AV

namespace AV
variable {α : Type} [Field α] [LinearOrder α] [IsStrictOrderedRing α]

/-- the tail of `elimNode`: forwarding / deferred removal -/
def finishNode (i : Nat) (c' : Content α) (kids : PKids α) (newInf : List Nat) (lastFresh isRoot : Bool) : PT α :=
  match (if lastFresh then forwardLabel? kids else none) with
  | some l =>
    if isRoot then .node i c' (kids.set (1 - l) none)
    else match kids.get? l with
      | some ch => ch
      | none => .node i c' kids
  | none => .node i c' (removeLabels kids newInf)

theorem elimNode_eq {σ : Type} (tol : α) (O : Oracles σ α) (n : Nat) (isRoot : Bool) (path : List (Aff α))
    (st : NState α) (i : Nat) (c : Content α) (ks : PKids α) (s : σ) :
    (elimNode tol O n isRoot path st (.node i c ks) s).1 =
      (let r := elimKids tol O n path c.aff st ks 0 s
       finishNode i ⟨c.aff, st⟩ r.kids r.newInf r.lastFresh isRoot) := by
  rw [elimNode]
  simp only [finishNode]
  generalize elimKids tol O n path c.aff st ks 0 s = r
  cases (if r.lastFresh then forwardLabel? r.kids else none) with
  | none => rfl
  | some l =>
    simp only
    cases isRoot with
    | true => simp
    | false =>
      simp only [Bool.false_eq_true, if_false]
      cases r.kids.get? l <;> rfl

/-- evaluation of the finished node with two processed children: nothing changes for an input that takes
    label `lab`, provided a child marked infeasible is not the one the input takes -/
theorem finish_two_eval (i : Nat) (c' : Content α) (ra rb : PT α) (newInf : List Nat) (lastFresh isRoot : Bool)
    (x : List α) (hle : c'.aff.label x ≤ 1)
    (ha2 : ra.val.state.isInfeasible = true → c'.aff.label x ≠ 0)
    (hb2 : rb.val.state.isInfeasible = true → c'.aff.label x ≠ 1)
    (hn : ∀ l ∈ newInf, (l = 0 ∧ ra.val.state.isInfeasible = true) ∨ (l = 1 ∧ rb.val.state.isInfeasible = true)) :
    PT.eval (finishNode i c' (.cons (some ra) (.cons (some rb) .nil)) newInf lastFresh isRoot) x =
      PKids.evalAt (.cons (some ra) (.cons (some rb) .nil)) (c'.aff.label x) x := by
  unfold finishNode
  cases hfl : (if lastFresh then forwardLabel? (.cons (some ra) (.cons (some rb) .nil)) else none) with
  | some l =>
    have hl : forwardLabel? (.cons (some ra) (.cons (some rb) .nil)) = some l := by
      by_cases hf : lastFresh = true
      · simpa [hf] using hfl
      · simp [hf] at hfl
    obtain ⟨a, b, hks, hcase⟩ := forwardLabel_spec _ l hl
    simp only [IKids.cons.injEq, Option.some.injEq, and_true] at hks
    obtain ⟨rfl, rfl⟩ := hks
    simp only
    rcases hcase with ⟨rfl, _, hb⟩ | ⟨rfl, ha, _⟩
    · have h1 := hb2 hb
      have h0 : c'.aff.label x = 0 := by omega
      cases isRoot with
      | true => simp [IKids.set, PT.eval, IKids.allNone, h0, PKids.evalAt]
      | false => simp [IKids.get?, h0, PKids.evalAt]
    · have h0 := ha2 ha
      have h1 : c'.aff.label x = 1 := by omega
      cases isRoot with
      | true => simp [IKids.set, PT.eval, IKids.allNone, h1, PKids.evalAt]
      | false => simp [IKids.get?, h1, PKids.evalAt]
  | none =>
    simp only
    -- deferred removal: only children marked infeasible, never the last one
    match newInf, hn with
    | [], _ => simp [removeLabels, PT.eval, IKids.allNone]
    | [l], hn =>
      rcases hn l (by simp) with ⟨rfl, ha⟩ | ⟨rfl, hb⟩
      · have h0 := ha2 ha
        have h1 : c'.aff.label x = 1 := by omega
        simp [removeLabels, IKids.count, IKids.set, PT.eval, IKids.allNone, h1, PKids.evalAt]
      · have h1 := hb2 hb
        have h0 : c'.aff.label x = 0 := by omega
        simp [removeLabels, IKids.count, IKids.set, PT.eval, IKids.allNone, h0, PKids.evalAt]
    | l1 :: l2 :: rest, hn =>
      rcases hn l1 (by simp) with ⟨rfl, ha⟩ | ⟨rfl, hb⟩
      · have h0 := ha2 ha
        have h1 : c'.aff.label x = 1 := by omega
        -- after removing label 0 a single child is left, which is kept whatever follows
        have : ∀ ls : List Nat, removeLabels (IKids.cons (none : Option (PT α)) (.cons (some rb) .nil)) ls
            = .cons none (.cons (some rb) .nil) := by
          intro ls
          induction ls with
          | nil => rfl
          | cons l ls ih => simp [removeLabels, IKids.count, ih]
        simp [removeLabels, IKids.count, IKids.set, this, PT.eval, IKids.allNone, h1, PKids.evalAt]
      · have h1 := hb2 hb
        have h0 : c'.aff.label x = 0 := by omega
        have : ∀ ls : List Nat, removeLabels (IKids.cons (some ra) (.cons (none : Option (PT α)) .nil)) ls
            = .cons (some ra) (.cons none .nil) := by
          intro ls
          induction ls with
          | nil => rfl
          | cons l ls ih => simp [removeLabels, IKids.count, ih]
        simp [removeLabels, IKids.count, IKids.set, this, PT.eval, IKids.allNone, h0, PKids.evalAt]

end AV

namespace AV
variable {α : Type} [Field α] [LinearOrder α] [IsStrictOrderedRing α]

/-- facts about one processed child, given the induction hypothesis for its sub-tree -/
theorem elimChild_facts {σ : Type} (tol : α) (O : Oracles σ α) (hlp : InfeasibleSound O.lp) (n : Nat)
    (path : List (Aff α)) (paff : Aff α) (pst : NState α) (ch : PT α) (l : Nat) (s : σ) (x : List α)
    (hinf : PT.InfSound (path ++ [halfspace paff l]) ch)
    (ih : InPath (path ++ [halfspace paff l]) x → ∀ (st' : NState α) (s' : σ),
      PT.eval (elimNode tol O n false (path ++ [halfspace paff l]) st' ch s').1 x = PT.eval ch x) :
    (InPath (path ++ [halfspace paff l]) x → PT.eval (elimChild tol O n path paff pst ch l s).1 x = PT.eval ch x) ∧
    ((elimChild tol O n path paff pst ch l s).1.val.state.isInfeasible = true →
        ¬ InPath (path ++ [halfspace paff l]) x) ∧
    ((elimChild tol O n path paff pst ch l s).2.2.1 = true →
        (elimChild tol O n path paff pst ch l s).1.val.state.isInfeasible = true) := by
  have hinf1 : ch.val.state = .infeasible → ¬ ∃ y, InPath (path ++ [halfspace paff l]) y := by
    cases ch with
    | node j cc ks => unfold PT.InfSound at hinf; exact hinf.1
  unfold elimChild
  cases hs : ch.val.state with
  | infeasible =>
    simp only
    refine ⟨fun _ => by simp, fun _ hx => hinf1 hs ⟨x, hx⟩, by simp⟩
  | indeterminate =>
    simp only
    by_cases hd : (decideNode tol O s ch.idx pst path (halfspace paff l) n).1.isInfeasible = true
    · simp only [hd, if_true]
      refine ⟨fun _ => ?_, fun _ hx => decideNode_sound tol O hlp s ch.idx pst path _ n hd ⟨x, hx⟩, fun _ => ?_⟩
      · conv_rhs => rw [node_eta ch]
        exact eval_node_state _ _ _ _ _ _
      · simpa [ITree.val] using hd
    · simp only [hd, Bool.false_eq_true, if_false]
      refine ⟨fun hx => ih hx _ _, fun hi _ => ?_, by simp⟩
      have := elimNode_state tol O n false (path ++ [halfspace paff l])
        (decideNode tol O s ch.idx pst path (halfspace paff l) n).1 ch
        (decideNode tol O s ch.idx pst path (halfspace paff l) n).2 (by simpa using hd)
      rw [this] at hi; simp at hi
  | feasible =>
    simp only
    refine ⟨fun hx => ih hx _ _, fun hi _ => ?_, by simp⟩
    have := elimNode_state tol O n false (path ++ [halfspace paff l]) .feasible ch s (by simp [NState.isInfeasible])
    rw [this] at hi; simp at hi
  | witness ws =>
    simp only
    refine ⟨fun hx => ih hx _ _, fun hi _ => ?_, by simp⟩
    have := elimNode_state tol O n false (path ++ [halfspace paff l]) (.witness ws) ch s (by simp [NState.isInfeasible])
    rw [this] at hi; simp at hi

end AV

namespace AV
variable {α : Type} [Field α] [LinearOrder α] [IsStrictOrderedRing α]

/-- C03 / C11 core for `infeasible_elimination`: the swept sub-tree evaluates like the original at every input
    that satisfies the path conditions, for every oracle that is right about infeasibility -/
theorem PT.eval_elimNode {σ : Type} (tol : α) (O : Oracles σ α) (hlp : InfeasibleSound O.lp) (n : Nat)
    (isRoot : Bool) (path : List (Aff α)) (st : NState α) (t : PT α) (s : σ) (x : List α)
    (hx : InPath path x) (hok : PT.ElimOK t) (hc : PKids.InfSound path t.val.aff 0 t.kids) :
    PT.eval (elimNode tol O n isRoot path st t s).1 x = PT.eval t x := by
  match t, hok, hc with
  | .node i c .nil, hok, _ => simp [PT.ElimOK, IKids.length] at hok
  | .node i c (.cons _ .nil), hok, _ => simp [PT.ElimOK, IKids.length] at hok
  | .node i c (.cons _ (.cons _ (.cons _ _))), hok, _ => simp [PT.ElimOK, IKids.length] at hok
  | .node i c (.cons none (.cons none .nil)), _, _ =>
    rw [elimNode_eq]
    simp [elimKids_cons_none, elimKids_nil, finishNode, forwardLabel?, removeLabels, PT.eval, IKids.allNone]
  | .node i c (.cons (some ka) (.cons none .nil)), hok, hc =>
    unfold PT.ElimOK at hok
    obtain ⟨_, hdec, hkok⟩ := hok
    simp only [PKids.ElimOK] at hkok
    have hd := hdec (by simp [IKids.allNone])
    simp only [ITree.val, ITree.kids, PKids.InfSound] at hc
    have hlab := mem_halfspace_label c.aff x hd.1 hd.2
    have hle := label_le_one c.aff x hd.2
    have fa := elimChild_facts tol O hlp n path c.aff st ka 0 s x hc.1
      (fun hx0 st' s' => PT.eval_elimNode tol O hlp n false _ st' ka s' x hx0 hkok.1 (by
        have := hc.1; cases ka with | node j cc kk => unfold PT.InfSound at this; exact this.2))
    rw [elimNode_eq]
    simp only [elimKids_cons_some, elimKids_cons_none, elimKids_nil, IKids.count]
    generalize elimChild tol O n path c.aff st ka 0 s = ca at fa
    obtain ⟨f1, f2, f3⟩ := fa
    have hrm : ∀ ls : List Nat, removeLabels (IKids.cons (some ca.1) (.cons (none : Option (PT α)) .nil)) ls
        = .cons (some ca.1) (.cons none .nil) := by
      intro ls
      induction ls with
      | nil => rfl
      | cons l ls ih => simp [removeLabels, IKids.count, ih]
    simp only [finishNode, forwardLabel?, ite_self, hrm, PT.eval, IKids.allNone, Bool.false_eq_true, if_false,
      evalAt_two]
    rcases (by omega : c.aff.label x = 0 ∨ c.aff.label x = 1) with h0 | h1
    · rw [h0] at hlab ⊢
      simp only [Option.bind_some]
      exact f1 (hx.append (InPath.single hlab))
    · rw [h1]; simp
  | .node i c (.cons none (.cons (some kb) .nil)), hok, hc =>
    unfold PT.ElimOK at hok
    obtain ⟨_, hdec, hkok⟩ := hok
    simp only [PKids.ElimOK] at hkok
    have hd := hdec (by simp [IKids.allNone])
    simp only [ITree.val, ITree.kids, PKids.InfSound] at hc
    have hlab := mem_halfspace_label c.aff x hd.1 hd.2
    have hle := label_le_one c.aff x hd.2
    have fb := elimChild_facts tol O hlp n path c.aff st kb 1 s x hc.1
      (fun hx0 st' s' => PT.eval_elimNode tol O hlp n false _ st' kb s' x hx0 hkok.1 (by
        have := hc.1; cases kb with | node j cc kk => unfold PT.InfSound at this; exact this.2))
    rw [elimNode_eq]
    simp only [elimKids_cons_some, elimKids_cons_none, elimKids_nil, IKids.count]
    generalize elimChild tol O n path c.aff st kb (0+1) s = cb at fb
    obtain ⟨f1, f2, f3⟩ := fb
    have hrm : ∀ ls : List Nat, removeLabels (IKids.cons (none : Option (PT α)) (.cons (some cb.1) .nil)) ls
        = .cons none (.cons (some cb.1) .nil) := by
      intro ls
      induction ls with
      | nil => rfl
      | cons l ls ih => simp [removeLabels, IKids.count, ih]
    simp only [finishNode, forwardLabel?, ite_self, hrm, PT.eval, IKids.allNone, Bool.false_eq_true, if_false,
      evalAt_two]
    rcases (by omega : c.aff.label x = 0 ∨ c.aff.label x = 1) with h0 | h1
    · rw [h0]; simp
    · rw [h1] at hlab ⊢
      simp only [Option.bind_some]
      exact f1 (hx.append (InPath.single hlab))
  | .node i c (.cons (some ka) (.cons (some kb) .nil)), hok, hc =>
    unfold PT.ElimOK at hok
    obtain ⟨_, hdec, hkok⟩ := hok
    simp only [PKids.ElimOK] at hkok
    have hd := hdec (by simp [IKids.allNone])
    simp only [ITree.val, ITree.kids, PKids.InfSound] at hc
    have hlab := mem_halfspace_label c.aff x hd.1 hd.2
    have hle := label_le_one c.aff x hd.2
    have fa := elimChild_facts tol O hlp n path c.aff st ka 0 s x hc.1
      (fun hx0 st' s' => PT.eval_elimNode tol O hlp n false _ st' ka s' x hx0 hkok.1 (by
        have := hc.1; cases ka with | node j cc kk => unfold PT.InfSound at this; exact this.2))
    have fb := fun s1 => elimChild_facts tol O hlp n path c.aff st kb 1 s1 x hc.2.1
      (fun hx0 st' s' => PT.eval_elimNode tol O hlp n false _ st' kb s' x hx0 hkok.2.1 (by
        have := hc.2.1; cases kb with | node j cc kk => unfold PT.InfSound at this; exact this.2))
    rw [elimNode_eq]
    simp only [elimKids_cons_some, elimKids_nil, IKids.count]
    generalize elimChild tol O n path c.aff st ka 0 s = ca at fa
    obtain ⟨a1, a2, a3⟩ := fa
    have fb' := fb ca.2.1
    generalize elimChild tol O n path c.aff st kb (0+1) ca.2.1 = cb at fb'
    obtain ⟨b1, b2, b3⟩ := fb'
    simp only [Nat.zero_add, Nat.add_eq_zero_iff, one_ne_zero, and_false, if_false, if_true]
    rw [finish_two_eval i ⟨c.aff, st⟩ ca.1 cb.1 _ _ isRoot x hle]
    · simp only [PT.eval, IKids.allNone, Bool.false_eq_true, if_false, evalAt_two]
      rcases (by omega : c.aff.label x = 0 ∨ c.aff.label x = 1) with h0 | h1
      · rw [h0] at hlab ⊢
        simp only [Option.bind_some]
        exact a1 (hx.append (InPath.single hlab))
      · rw [h1] at hlab ⊢
        simp only [Option.bind_some]
        exact b1 (hx.append (InPath.single hlab))
    · intro hi h0
      rw [h0] at hlab
      exact a2 hi (hx.append (InPath.single hlab))
    · intro hi h1
      rw [h1] at hlab
      exact b2 hi (hx.append (InPath.single hlab))
    · intro l hl
      cases hna : ca.2.2.1 <;> cases hnb : cb.2.2.1 <;> simp [hna, hnb] at hl
      · right; exact ⟨hl, b3 hnb⟩
      · left; exact ⟨hl, a3 hna⟩
      · rcases hl with rfl | rfl
        · left; exact ⟨rfl, a3 hna⟩
        · right; exact ⟨rfl, b3 hnb⟩
termination_by sizeOf t
decreasing_by
  all_goals simp_wf
  all_goals omega

end AV

namespace AV
variable {α : Type} [Field α] [LinearOrder α] [IsStrictOrderedRing α]

mutual
theorem PT.elimOK_of_shaped (t : PT α) (n m : Nat) (h : PT.Shaped 2 n m t) : PT.ElimOK t := by
  match t with
  | .node i c ks =>
    obtain ⟨hwf, _, hlen, _, hdec, hk⟩ := h
    unfold PT.ElimOK
    refine ⟨hlen, fun hall => ⟨hwf, ?_⟩, PKids.elimOK_of_shaped ks n m hk⟩
    have := hdec hall
    by_contra hk2
    have h2 : 2 ≤ c.aff.outdim := by omega
    have : 2 ^ 2 ≤ 2 ^ c.aff.outdim := Nat.pow_le_pow_right (by norm_num) h2
    omega
theorem PKids.elimOK_of_shaped (ks : PKids α) (n m : Nat) (h : PKids.Shaped 2 n m ks) : PKids.ElimOK ks := by
  match ks with
  | .nil => simp [PKids.ElimOK]
  | .cons none r => simp only [PKids.ElimOK]; exact PKids.elimOK_of_shaped r n m h
  | .cons (some k) r =>
    simp only [PKids.ElimOK]
    exact ⟨PT.elimOK_of_shaped k n m h.1, PKids.elimOK_of_shaped r n m h.2⟩
end

/-- `infeasible_elimination` preserves the represented partial function -/
theorem PT.eval_infeasibleElimination {σ : Type} (tol : α) (O : Oracles σ α) (hlp : InfeasibleSound O.lp)
    (n : Nat) (t : PT α) (s : σ) (x : List α) (hok : PT.ElimOK t) (hc : PT.InfSound [] t) :
    PT.eval (infeasibleElimination tol O n t s).1 x = PT.eval t x := by
  unfold infeasibleElimination
  refine PT.eval_elimNode tol O hlp n true [] t.val.state t s x (by intro h hh; simp at hh) hok ?_
  cases t with
  | node i c ks => unfold PT.InfSound at hc; exact hc.2

end AV
