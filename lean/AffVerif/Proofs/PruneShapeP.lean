import AffVerif.Proofs.ShapeLemmas
import AffVerif.Proofs.ElimShape
import AffVerif.Model.Reduce
/-!
C04 for the *pruned* composition (`compose::<true>`, and with an arithmetic schema the tree-tree operators): the
result is well formed for **every** `explore` filter — whatever the LP backend answers. The two rules that make this
true are in the code since the `fix:` commits: a copied decision never loses all its children (keep-all when no edge
is judged feasible) and a decision is forwarded only when exactly one child survives.
-/
set_option linter.unusedSectionVars false
set_option linter.unusedVariables false
set_option linter.unusedSimpArgs false
namespace AV
variable {α : Type} [Field α] [LinearOrder α] [IsStrictOrderedRing α]

/-- what the schema's updates have to guarantee: a terminal of the operand (`q` columns, `p` rows) becomes a map with
    `n` columns and `p'` rows, a decision keeps its number of rows -/
structure SchemaShaped (S : Schema α) (t : Aff α) (n q p p' : Nat) : Prop where
  term : ∀ o : Aff α, o.WF → o.indim = q → o.outdim = p →
    (S.updTerminal o t).WF ∧ (S.updTerminal o t).indim = n ∧ (S.updTerminal o t).outdim = p'
  dec : ∀ o : Aff α, o.WF → o.indim = q →
    (S.updDecision o t).WF ∧ (S.updDecision o t).indim = n ∧ (S.updDecision o t).outdim = o.outdim

/-- flags as `exploreKids` produces them: one per slot, `true` only at occupied slots -/
def FlagsOK : List Bool → PKids α → Prop
  | [], .nil => True
  | false :: fl, .cons none r => FlagsOK fl r
  | _ :: fl, .cons (some _) r => FlagsOK fl r
  | _, _ => False

theorem flagsOK_explore {σ : Type} (ex : Explore σ α) (pz : Bool) (pst : NState α) (path : List (Aff α))
    (paff : Aff α) (n : Nat) (gk : PKids α) (l : Nat) (s : σ) :
    FlagsOK (exploreKids ex pz pst path paff n gk l s).1 gk := by
  match gk with
  | .nil => simp [exploreKids, FlagsOK]
  | .cons none r => simp only [exploreKids, FlagsOK]; exact flagsOK_explore ex pz pst path paff n r (l+1) s
  | .cons (some k) r => simp only [exploreKids, FlagsOK]; exact flagsOK_explore ex pz pst path paff n r (l+1) _

theorem countTrue_le_count (fl : List Bool) (gk : PKids α) (h : FlagsOK fl gk) : countTrue fl ≤ gk.count := by
  match fl, gk, h with
  | [], .nil, _ => simp [countTrue, IKids.count]
  | false :: fl, .cons none r, h =>
    simp only [FlagsOK] at h
    simp only [countTrue, IKids.count]; exact countTrue_le_count fl r h
  | true :: fl, .cons (some _) r, h =>
    simp only [FlagsOK] at h
    simp only [countTrue, IKids.count]; have := countTrue_le_count fl r h; omega
  | false :: fl, .cons (some _) r, h =>
    simp only [FlagsOK] at h
    simp only [countTrue, IKids.count]; have := countTrue_le_count fl r h; omega

theorem PKids.graftP_length {σ : Type} (S : Schema α) (ex : Explore σ α) (t : Aff α) (n : Nat) (paff : Aff α)
    (path : List (Aff α)) (ext : Bool) (fl : List Bool) (gk : PKids α) (l : Nat) (s : σ) (c : Nat) :
    (PKids.graftP S ex t n paff path ext fl gk l s c).1.length = gk.length := by
  match gk with
  | .nil => simp [PKids.graftP, IKids.length]
  | .cons none r =>
    simp only [PKids.graftP, IKids.length]; rw [PKids.graftP_length S ex t n paff path ext fl.tail r (l+1) s c]
  | .cons (some k) r =>
    unfold PKids.graftP
    split
    · simp only [IKids.length]; rw [PKids.graftP_length S ex t n paff path ext fl.tail r (l+1) _ _]
    · simp only [IKids.length]; rw [PKids.graftP_length S ex t n paff path ext fl.tail r (l+1) s c]

/-- keep-all (`flags = []`): every child is copied -/
theorem PKids.graftP_count_nil {σ : Type} (S : Schema α) (ex : Explore σ α) (t : Aff α) (n : Nat) (paff : Aff α)
    (path : List (Aff α)) (ext : Bool) (gk : PKids α) (l : Nat) (s : σ) (c : Nat) :
    (PKids.graftP S ex t n paff path ext [] gk l s c).1.count = gk.count := by
  match gk with
  | .nil => simp [PKids.graftP, IKids.count]
  | .cons none r =>
    simp only [PKids.graftP, IKids.count, List.tail_nil]
    exact PKids.graftP_count_nil S ex t n paff path ext r (l+1) s c
  | .cons (some k) r =>
    unfold PKids.graftP
    simp only [List.headD_nil, if_true, List.tail_nil, IKids.count]
    rw [PKids.graftP_count_nil S ex t n paff path ext r (l+1) _ _]

/-- with flags, exactly the flagged children are copied -/
theorem PKids.graftP_count {σ : Type} (S : Schema α) (ex : Explore σ α) (t : Aff α) (n : Nat) (paff : Aff α)
    (path : List (Aff α)) (ext : Bool) (fl : List Bool) (gk : PKids α) (l : Nat) (s : σ) (c : Nat)
    (h : FlagsOK fl gk) : (PKids.graftP S ex t n paff path ext fl gk l s c).1.count = countTrue fl := by
  match fl, gk, h with
  | [], .nil, _ => simp [PKids.graftP, IKids.count, countTrue]
  | false :: fl, .cons none r, h =>
    simp only [FlagsOK] at h
    simp only [PKids.graftP, IKids.count, countTrue, List.tail_cons]
    exact PKids.graftP_count S ex t n paff path ext fl r (l+1) s c h
  | true :: fl, .cons (some k) r, h =>
    simp only [FlagsOK] at h
    unfold PKids.graftP
    simp only [List.headD_cons, if_true, List.tail_cons, IKids.count, countTrue]
    rw [PKids.graftP_count S ex t n paff path ext fl r (l+1) _ _ h]
  | false :: fl, .cons (some k) r, h =>
    simp only [FlagsOK] at h
    unfold PKids.graftP
    simp only [List.headD_cons, Bool.false_eq_true, if_false, List.tail_cons, IKids.count, countTrue]
    exact PKids.graftP_count S ex t n paff path ext fl r (l+1) s c h

theorem PKids.shaped_existingFrom (ks : PKids α) (l K n m : Nat) (h : PKids.Shaped K n m ks) :
    ∀ e ∈ ks.existingFrom l, PT.Shaped K n m e.2 := by
  match ks with
  | .nil => simp [IKids.existingFrom]
  | .cons none r => simp only [IKids.existingFrom, PKids.Shaped] at h ⊢; exact PKids.shaped_existingFrom r (l+1) K n m h
  | .cons (some t) r =>
    simp only [PKids.Shaped] at h
    intro e he
    simp only [IKids.existingFrom, List.mem_cons] at he
    rcases he with rfl | he
    · exact h.1
    · exact PKids.shaped_existingFrom r (l+1) K n m h.2 e he

theorem PKids.shaped_sole (ks : PKids α) (ch : PT α) (K n m : Nat) (h : PKids.Shaped K n m ks)
    (hs : IKids.sole? ks = some ch) : PT.Shaped K n m ch := by
  unfold IKids.sole? IKids.existing at hs
  have hall := PKids.shaped_existingFrom ks 0 K n m h
  cases he : ks.existingFrom 0 with
  | nil => rw [he] at hs; simp at hs
  | cons e es =>
    rw [he] at hs hall
    cases es with
    | nil =>
      obtain ⟨l, t⟩ := e
      simp only [Option.some.injEq] at hs
      subst hs
      exact hall (l, t) (by simp)
    | cons e2 es2 => simp at hs

theorem allNone_eq_of_count_eq {β : Type} (a b : IKids β) (h : a.count = b.count) : a.allNone = b.allNone := by
  rw [Bool.eq_iff_iff, IKids.allNone_iff_count, IKids.allNone_iff_count, h]

theorem allNone_false_of_count {β : Type} (ks : IKids β) (h : 1 ≤ ks.count) : ks.allNone = false := by
  cases hk : ks.allNone with
  | false => rfl
  | true => have := (IKids.allNone_iff_count ks).mp hk; omega

mutual
/-- the pruned copy of a shaped operand below a terminal is shaped, for every `explore` filter -/
theorem PT.shaped_graftP {σ : Type} (S : Schema α) (ex : Explore σ α) (t : Aff α) (n idx : Nat) (st : NState α)
    (pz : Bool) (path : List (Aff α)) (g : PT α) (s : σ) (c : Nat) (K q p p' : Nat)
    (hS : SchemaShaped S t n q p p') (hg : PT.Shaped K q p g) :
    PT.Shaped K n p' (PT.graftP S ex t n idx st pz path g s c).1 := by
  match g with
  | .node j gc gk =>
    obtain ⟨hwf, hin, hlen, hout, hdec, hk⟩ := hg
    -- facts about the updated map, by the kind of the operand node
    have haff : (S.upd gk.allNone gc.aff t).WF ∧ (S.upd gk.allNone gc.aff t).indim = n ∧
        (gk.allNone = true → (S.upd gk.allNone gc.aff t).outdim = p') ∧
        (gk.allNone = false → 2 ^ (S.upd gk.allNone gc.aff t).outdim ≤ K) := by
      cases hl : gk.allNone with
      | true =>
        obtain ⟨h1, h2, h3⟩ := hS.term gc.aff hwf hin (hout hl)
        simp only [Schema.upd, if_true]
        exact ⟨h1, h2, fun _ => h3, fun h => by simp at h⟩
      | false =>
        obtain ⟨h1, h2, h3⟩ := hS.dec gc.aff hwf hin
        simp only [Schema.upd, Bool.false_eq_true, if_false]
        exact ⟨h1, h2, fun h => by simp at h, fun _ => by rw [h3]; exact hdec hl⟩
    obtain ⟨a1, a2, a3, a4⟩ := haff
    have hfl := flagsOK_explore ex pz st path (S.upd gk.allNone gc.aff t) n gk 0 s
    have hle := countTrue_le_count _ _ hfl
    unfold PT.graftP
    simp only
    split
    · -- keep all
      unfold PT.Shaped
      have hcnt := PKids.graftP_count_nil S ex t n (S.upd gk.allNone gc.aff t) path true gk 0
        (exploreKids ex pz st path (S.upd gk.allNone gc.aff t) n gk 0 s).2 c
      have hall : (PKids.graftP S ex t n (S.upd gk.allNone gc.aff t) path true [] gk 0
          (exploreKids ex pz st path (S.upd gk.allNone gc.aff t) n gk 0 s).2 c).1.allNone = gk.allNone :=
        allNone_eq_of_count_eq _ _ hcnt
      refine ⟨a1, a2, by rw [PKids.graftP_length]; exact hlen, fun h => a3 (by rw [hall] at h; exact h),
        fun h => a4 (by rw [hall] at h; exact h), ?_⟩
      exact PKids.shaped_graftP S ex t n _ path true [] gk 0 _ c K q p p' hS hk
    · rename_i hcr
      have hpos : 1 ≤ countTrue (exploreKids ex pz st path (S.upd gk.allNone gc.aff t) n gk 0 s).1 := by omega
      have hgk : gk.allNone = false := allNone_false_of_count gk (by omega)
      split
      · have hks := PKids.shaped_graftP S ex t n (S.upd gk.allNone gc.aff t) path false
          (exploreKids ex pz st path (S.upd gk.allNone gc.aff t) n gk 0 s).1 gk 0
          (exploreKids ex pz st path (S.upd gk.allNone gc.aff t) n gk 0 s).2 c K q p p' hS hk
        split
        · rename_i ch hsole
          exact PKids.shaped_sole _ ch K n p' hks hsole
        · unfold PT.Shaped
          have hcnt := PKids.graftP_count S ex t n (S.upd gk.allNone gc.aff t) path false _ gk 0
            (exploreKids ex pz st path (S.upd gk.allNone gc.aff t) n gk 0 s).2 c hfl
          have hall := allNone_false_of_count _ (by rw [hcnt]; exact hpos)
          refine ⟨a1, a2, by rw [PKids.graftP_length]; exact hlen, fun h => by rw [hall] at h; simp at h,
            fun _ => a4 hgk, hks⟩
      · unfold PT.Shaped
        have hcnt := PKids.graftP_count S ex t n (S.upd gk.allNone gc.aff t) path true _ gk 0
          (exploreKids ex pz st path (S.upd gk.allNone gc.aff t) n gk 0 s).2 c hfl
        have hall := allNone_false_of_count _ (by rw [hcnt]; exact hpos)
        refine ⟨a1, a2, by rw [PKids.graftP_length]; exact hlen, fun h => by rw [hall] at h; simp at h,
          fun _ => a4 hgk, ?_⟩
        exact PKids.shaped_graftP S ex t n _ path true _ gk 0 _ c K q p p' hS hk
theorem PKids.shaped_graftP {σ : Type} (S : Schema α) (ex : Explore σ α) (t : Aff α) (n : Nat) (paff : Aff α)
    (path : List (Aff α)) (ext : Bool) (fl : List Bool) (gk : PKids α) (l : Nat) (s : σ) (c : Nat)
    (K q p p' : Nat) (hS : SchemaShaped S t n q p p') (hk : PKids.Shaped K q p gk) :
    PKids.Shaped K n p' (PKids.graftP S ex t n paff path ext fl gk l s c).1 := by
  match gk with
  | .nil => simp [PKids.graftP, PKids.Shaped]
  | .cons none r =>
    simp only [PKids.graftP, PKids.Shaped] at hk ⊢
    exact PKids.shaped_graftP S ex t n paff path ext fl.tail r (l+1) s c K q p p' hS hk
  | .cons (some k) r =>
    simp only [PKids.Shaped] at hk
    unfold PKids.graftP
    split
    · simp only [PKids.Shaped]
      exact ⟨PT.shaped_graftP S ex t n c .indeterminate false _ k s (c+1) K q p p' hS hk.1,
        PKids.shaped_graftP S ex t n paff path ext fl.tail r (l+1) _ _ K q p p' hS hk.2⟩
    · simp only [PKids.Shaped]
      exact PKids.shaped_graftP S ex t n paff path ext fl.tail r (l+1) s c K q p p' hS hk.2
end

mutual
/-- C04 for the pruned composition: for every schema whose updates keep the dimensions (`hS`, per terminal of the
    left operand) and every `explore` filter -/
theorem PT.shaped_composeP {σ : Type} (S : Schema α) (ex : Explore σ α) (n : Nat) (path : List (Aff α))
    (f g : PT α) (s : σ) (c : Nat) (K m q p p' : Nat)
    (hS : ∀ t : Aff α, t.WF → t.indim = n → t.outdim = m → SchemaShaped S t n q p p')
    (hf : PT.Shaped K n m f) (hg : PT.Shaped K q p g) :
    PT.Shaped K n p' (PT.composeP S ex n path f g s c).1 := by
  match f with
  | .node i fc ks =>
    obtain ⟨hwf, hin, hlen, hout, hdec, hk⟩ := hf
    unfold PT.composeP
    split
    · rename_i hl
      exact PT.shaped_graftP S ex fc.aff n i fc.state (i == 0) path g s c K q p p' (hS fc.aff hwf hin (hout hl)) hg
    · rename_i hl
      simp only
      unfold PT.Shaped
      have hl' : ks.allNone = false := by simpa using hl
      have hcount : (PKids.composeP S ex n path fc.aff ks 0 g s c).1.allNone = false := by
        apply allNone_false_of_count
        rw [PKids.composeP_count']
        by_contra hc
        have : ks.count = 0 := by omega
        have := (IKids.allNone_iff_count ks).mpr this
        rw [hl'] at this; simp at this
      refine ⟨hwf, hin, by rw [PKids.composeP_length]; exact hlen, fun h => by rw [hcount] at h; simp at h,
        fun _ => hdec hl', PKids.shaped_composeP S ex n path fc.aff ks 0 g s c K m q p p' hS hk hg⟩
theorem PKids.shaped_composeP {σ : Type} (S : Schema α) (ex : Explore σ α) (n : Nat) (path : List (Aff α))
    (paff : Aff α) (ks : PKids α) (l : Nat) (g : PT α) (s : σ) (c : Nat) (K m q p p' : Nat)
    (hS : ∀ t : Aff α, t.WF → t.indim = n → t.outdim = m → SchemaShaped S t n q p p')
    (hk : PKids.Shaped K n m ks) (hg : PT.Shaped K q p g) :
    PKids.Shaped K n p' (PKids.composeP S ex n path paff ks l g s c).1 := by
  match ks with
  | .nil => simp [PKids.composeP, PKids.Shaped]
  | .cons none r =>
    simp only [PKids.composeP, PKids.Shaped] at hk ⊢
    exact PKids.shaped_composeP S ex n path paff r (l+1) g s c K m q p p' hS hk hg
  | .cons (some k) r =>
    simp only [PKids.composeP, PKids.Shaped] at hk ⊢
    exact ⟨PT.shaped_composeP S ex n _ k g s c K m q p p' hS hk.1 hg,
      PKids.shaped_composeP S ex n path paff r (l+1) g _ _ K m q p p' hS hk.2 hg⟩
theorem PKids.composeP_count' {σ : Type} (S : Schema α) (ex : Explore σ α) (n : Nat) (path : List (Aff α))
    (paff : Aff α) (ks : PKids α) (l : Nat) (g : PT α) (s : σ) (c : Nat) :
    (PKids.composeP S ex n path paff ks l g s c).1.count = ks.count := by
  match ks with
  | .nil => simp [PKids.composeP, IKids.count]
  | .cons none r => simp only [PKids.composeP, IKids.count]; exact PKids.composeP_count' S ex n path paff r (l+1) g s c
  | .cons (some k) r =>
    simp only [PKids.composeP, IKids.count]; rw [PKids.composeP_count' S ex n path paff r (l+1) g _ _]
theorem PKids.composeP_length {σ : Type} (S : Schema α) (ex : Explore σ α) (n : Nat) (path : List (Aff α))
    (paff : Aff α) (ks : PKids α) (l : Nat) (g : PT α) (s : σ) (c : Nat) :
    (PKids.composeP S ex n path paff ks l g s c).1.length = ks.length := by
  match ks with
  | .nil => simp [PKids.composeP, IKids.length]
  | .cons none r => simp only [PKids.composeP, IKids.length]; rw [PKids.composeP_length S ex n path paff r (l+1) g s c]
  | .cons (some k) r =>
    simp only [PKids.composeP, IKids.length]; rw [PKids.composeP_length S ex n path paff r (l+1) g _ _]
end

/-- the composition schema keeps the dimensions -/
theorem schemaShaped_compose (t : Aff α) (ht : t.WF) (p : Nat) :
    SchemaShaped Schema.compose t t.indim t.outdim p p := by
  constructor
  · intro o ho _ hp
    simp only [Schema.compose]
    exact ⟨compose_wf o t ho ht, rfl, by rw [compose_outdim]; exact hp⟩
  · intro o ho _
    simp only [Schema.compose]
    exact ⟨updDecision_wf o t ho ht, rfl, updDecision_outdim o t⟩

end AV

namespace AV
variable {α : Type} [Field α] [LinearOrder α] [IsStrictOrderedRing α]

/-! ### the arithmetic schemas keep the dimensions -/

theorem vmul_length' (x y : List α) : (vmul x y).length = min x.length y.length := by
  induction x generalizing y with
  | nil => simp [vmul]
  | cons a as ih => cases y with
    | nil => simp [vmul]
    | cons b bs => simp [vmul, ih]

theorem matZip_length (φ : List α → List α → List α) (A B : Mat α) :
    (matZip φ A B).length = min A.length B.length := by
  induction A generalizing B with
  | nil => simp [matZip]
  | cons a as ih => cases B with
    | nil => simp [matZip]
    | cons b bs => simp [matZip, ih]

theorem matZip_rows (φ : List α → List α → List α) (n : Nat)
    (hφ : ∀ a b : List α, a.length = n → b.length = n → (φ a b).length = n) (A B : Mat α)
    (hA : ∀ r ∈ A, r.length = n) (hB : ∀ r ∈ B, r.length = n) : ∀ r ∈ matZip φ A B, r.length = n := by
  induction A generalizing B with
  | nil => simp [matZip]
  | cons a as ih => cases B with
    | nil => simp [matZip]
    | cons b bs =>
      intro r hr
      simp only [matZip, List.mem_cons] at hr
      rcases hr with rfl | hr
      · exact hφ a b (hA a (by simp)) (hB b (by simp))
      · exact ih bs (fun r hr => hA r (by simp [hr])) (fun r hr => hB r (by simp [hr])) r hr

/-- a coefficient-wise operator on two maps of the same shape gives a map of that shape -/
theorem arith_shape (φ : List α → List α → List α)
    (hφ : ∀ a b : List α, (φ a b).length = min a.length b.length) (f g : Aff α)
    (hf : f.WF) (hg : g.WF) (hin : g.indim = f.indim) (hout : g.outdim = f.outdim) :
    let r : Aff α := { mat := matZip φ f.mat g.mat, bias := φ f.bias g.bias, indim := f.indim }
    r.WF ∧ r.indim = f.indim ∧ r.outdim = f.outdim := by
  intro r
  unfold Aff.outdim at hout ⊢
  refine ⟨⟨?_, ?_⟩, rfl, ?_⟩
  · exact matZip_rows φ f.indim (fun a b ha hb => by rw [hφ, ha, hb]; simp) f.mat g.mat hf.1
      (fun r hr => by rw [hg.1 r hr, hin])
  · show (φ f.bias g.bias).length = (matZip φ f.mat g.mat).length
    rw [hφ, matZip_length, hf.2, hg.2, hout]
  · show (matZip φ f.mat g.mat).length = f.mat.length
    rw [matZip_length, hout]; simp

theorem schemaShaped_arith (op : ArithOp) (t : Aff α) (ht : t.WF) :
    SchemaShaped (Schema.arith op.onAff) t t.indim t.indim t.outdim t.outdim := by
  constructor
  · intro o ho hi hp
    simp only [Schema.arith]
    cases op with
    | add => exact arith_shape vadd (fun a b => vadd_length a b) t o ht ho hi hp
    | sub => exact arith_shape vsub (fun a b => vsub_length a b) t o ht ho hi hp
    | mul => exact arith_shape vmul (fun a b => vmul_length' a b) t o ht ho hi hp
    | div => exact arith_shape (List.zipWith (· / ·)) (fun a b => by simp) t o ht ho hi hp
  · intro o ho hi
    simp only [Schema.arith]
    exact ⟨ho, hi, trivial⟩

end AV
