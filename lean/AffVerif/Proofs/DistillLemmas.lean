import AffVerif.Proofs.InfSound
import AffVerif.Proofs.SchemaLemmas
import AffVerif.Props.C02
import AffVerif.Proofs.ArithLift
import AffVerif.Model.Distill
/-! The distillation fold, layer by layer (C01). -/
set_option linter.unusedSectionVars false
set_option linter.unusedVariables false
namespace AV
variable {α : Type} [Field α] [LinearOrder α] [IsStrictOrderedRing α]

/-! ### shapes of the building blocks -/

theorem unitVec_len (n i : Nat) (c : α) : (unitVec n i c).length = n := by simp [unitVec]

theorem wf_axisPred (n r : Nat) (c b : α) : (Sch.axisPred n r c b : Aff α).WF := by
  simp [Sch.axisPred, Aff.WF, unitVec_len]

theorem wf_unit (n r : Nat) : (Aff.unit n r : Aff α).WF := by
  simp [Aff.unit, Aff.WF, unitVec_len]

theorem wf_diagIdx (n i : Nat) (c : α) : (Aff.diagIdx n i c : Aff α).WF := by
  unfold Aff.diagIdx Aff.WF
  simp only [List.mem_map, List.length_map, List.length_range, zeros_length, and_true]
  rintro r ⟨k, _, rfl⟩
  exact unitVec_len n k _

theorem wf_identity (n : Nat) : (Aff.identity n : Aff α).WF := by
  unfold Aff.identity eye Aff.WF
  simp only [List.mem_map, List.length_map, List.length_range, zeros_length, and_true]
  rintro r ⟨k, _, rfl⟩
  exact unitVec_len n k _

theorem wf_setConst (n r : Nat) (v : α) : (Sch.setConst n r v : Aff α).WF := by
  have := wf_diagIdx n r (0 : α)
  unfold Sch.setConst Aff.zeroIdx Aff.WF at *
  simp only at this ⊢
  refine ⟨this.1, ?_⟩
  simp [unitVec_len, Aff.diagIdx]

theorem wf_scaleShift (n r : Nat) (s o : α) : (Sch.scaleShift n r s o : Aff α).WF := by
  have := wf_diagIdx n r s
  unfold Sch.scaleShift Aff.WF at *
  simp only at this ⊢
  refine ⟨this.1, ?_⟩
  simp [unitVec_len, Aff.diagIdx]

theorem outdim_diagIdx (n i : Nat) (c : α) : (Aff.diagIdx n i c : Aff α).outdim = n := by
  simp [Aff.diagIdx, Aff.outdim]

theorem shaped_leaf (i n : Nat) (a : Aff α) (hwf : a.WF) (hin : a.indim = n) :
    PT.Shaped 2 n a.outdim (Sch.leaf i a) := by
  simp [Sch.leaf, PT.Shaped, PKids.Shaped, IKids.empty, IKids.allNone, IKids.length, Content.new, hwf, hin]

theorem shaped_dec (i n m : Nat) (a : Aff α) (l0 l1 : PT α) (hwf : a.WF) (hin : a.indim = n) (hout : a.outdim = 1)
    (h0 : PT.Shaped 2 n m l0) (h1 : PT.Shaped 2 n m l1) : PT.Shaped 2 n m (Sch.dec i a (some l0) (some l1)) := by
  simp [Sch.dec, PT.Shaped, PKids.Shaped, IKids.allNone, IKids.length, Content.new, hwf, hin, hout, h0, h1]

theorem shaped_relu (n r : Nat) : PT.Shaped 2 n n (Sch.partialReLU n r : PT α) := by
  unfold Sch.partialReLU
  refine shaped_dec 0 n n _ _ _ (wf_unit n r) rfl rfl ?_ ?_
  · have := shaped_leaf 1 n (Aff.identity n : Aff α) (wf_identity n) rfl
    simpa [Aff.identity, Aff.outdim, eye] using this
  · have := shaped_leaf 2 n (Aff.zeroIdx n r : Aff α) (wf_diagIdx n r 0) rfl
    simpa [Aff.zeroIdx, outdim_diagIdx] using this

theorem shaped_leaky (n r : Nat) (a : α) : PT.Shaped 2 n n (Sch.partialLeakyReLU n r a : PT α) := by
  unfold Sch.partialLeakyReLU
  refine shaped_dec 0 n n _ _ _ (wf_unit n r) rfl rfl ?_ ?_
  · have := shaped_leaf 1 n (Aff.identity n : Aff α) (wf_identity n) rfl
    simpa [Aff.identity, Aff.outdim, eye] using this
  · have := shaped_leaf 2 n (Aff.diagIdx n r a : Aff α) (wf_diagIdx n r a) rfl
    simpa [outdim_diagIdx] using this

theorem outdim_setConst (n r : Nat) (v : α) : (Sch.setConst n r v : Aff α).outdim = n := by
  simp [Sch.setConst, Aff.zeroIdx, Aff.diagIdx, Aff.outdim]

theorem outdim_scaleShift (n r : Nat) (s o : α) : (Sch.scaleShift n r s o : Aff α).outdim = n := by
  simp [Sch.scaleShift, Aff.diagIdx, Aff.outdim]

theorem outdim_identity (n : Nat) : (Aff.identity n : Aff α).outdim = n := by
  simp [Aff.identity, Aff.outdim, eye]

theorem shaped_hardTanh (n r : Nat) (lo hi : α) : PT.Shaped 2 n n (Sch.partialHardTanh n r lo hi : PT α) := by
  unfold Sch.partialHardTanh
  refine shaped_dec 0 n n _ _ _ (wf_axisPred n r _ _) rfl rfl ?_ ?_
  · refine shaped_dec 1 n n _ _ _ (wf_axisPred n r _ _) rfl rfl ?_ ?_
    · have := shaped_leaf 3 n (Aff.identity n : Aff α) (wf_identity n) rfl
      rwa [outdim_identity] at this
    · have := shaped_leaf 4 n (Sch.setConst n r lo : Aff α) (wf_setConst n r lo) rfl
      rwa [outdim_setConst] at this
  · have := shaped_leaf 2 n (Sch.setConst n r hi : Aff α) (wf_setConst n r hi) rfl
    rwa [outdim_setConst] at this

theorem shaped_hardSigmoid (n r : Nat) (three sixth half : α) :
    PT.Shaped 2 n n (Sch.partialHardSigmoid n r three sixth half : PT α) := by
  unfold Sch.partialHardSigmoid
  refine shaped_dec 0 n n _ _ _ (wf_axisPred n r _ _) rfl rfl ?_ ?_
  · refine shaped_dec 1 n n _ _ _ (wf_axisPred n r _ _) rfl rfl ?_ ?_
    · have := shaped_leaf 3 n (Sch.scaleShift n r sixth half : Aff α) (wf_scaleShift n r _ _) rfl
      rwa [outdim_scaleShift] at this
    · have := shaped_leaf 4 n (Sch.setConst n r 0 : Aff α) (wf_setConst n r 0) rfl
      rwa [outdim_setConst] at this
  · have := shaped_leaf 2 n (Sch.setConst n r 1 : Aff α) (wf_setConst n r 1) rfl
    rwa [outdim_setConst] at this

mutual
theorem leafAt_shaped (t : PT α) (K n m : Nat) (x : List α) (u : Aff α) (ht : PT.Shaped K n m t)
    (h : PT.leafAt t x = some u) : u.WF ∧ u.mat.length = m := by
  match t with
  | .node i c ks =>
    obtain ⟨hwf, _, _, hout, _, hk⟩ := ht
    simp only [PT.leafAt] at h
    split at h
    · rename_i hl
      simp only [Option.some.injEq] at h; subst h
      exact ⟨hwf, hout hl⟩
    · exact leafAtK_shaped ks K n m _ x u hk h
theorem leafAtK_shaped (ks : PKids α) (K n m : Nat) (l : Nat) (x : List α) (u : Aff α) (hk : PKids.Shaped K n m ks)
    (h : PKids.leafAtK ks l x = some u) : u.WF ∧ u.mat.length = m := by
  match ks, l with
  | .nil, _ => simp [PKids.leafAtK] at h
  | .cons none r, 0 => simp [PKids.leafAtK] at h
  | .cons (some k) r, 0 =>
    simp only [PKids.leafAtK] at h
    exact leafAt_shaped k K n m x u hk.1 h
  | .cons none r, l+1 =>
    simp only [PKids.leafAtK] at h
    exact leafAtK_shaped r K n m l x u hk h
  | .cons (some k) r, l+1 =>
    simp only [PKids.leafAtK] at h
    exact leafAtK_shaped r K n m l x u hk.2 h
end

/-- a shaped tree returns vectors of the terminal dimension -/
theorem eval_length (t : PT α) (K n m : Nat) (x y : List α) (ht : PT.Shaped K n m t) (h : PT.eval t x = some y) :
    y.length = m := by
  rw [PT.eval_eq_leafAt] at h
  cases hu : PT.leafAt t x with
  | none => simp [hu] at h
  | some u =>
    simp only [hu, Option.map_some, Option.some.injEq] at h
    subst h
    obtain ⟨hwf, hout⟩ := leafAt_shaped t K n m x u ht hu
    simp [Aff.apply, hwf.2]
    exact hout

end AV
