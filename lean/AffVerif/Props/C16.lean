import AffVerif.Proofs.VecLemmas
import AffVerif.Proofs.ArithLift
import AffVerif.Proofs.SchemaLemmas
import AffVerif.Proofs.ChainLemmas
import AffVerif.Proofs.KeepLemmas
/-!
# C16 — affine functions obey their algebra and named constructors their names

Theorems over any commutative ring (so in particular over ℝ and ℚ), for every dimension.
Dimension hypotheses are exactly the guards the code asserts (`compose`, `stack`) or that `ndarray`
enforces by construction (`WF`).
-/
namespace AV
variable {α : Type} [CommRing α]

/-- `compose(f,g)(x) = f(g(x))` -/
theorem C16_compose (f g : Aff α) (x : List α)
    (hg : g.WF) (hf : f.WF) (hdim : f.indim = g.outdim) (hx : x.length = g.indim) :
    (f.compose g).apply x = f.apply (g.apply x) :=
  Aff.apply_compose f g x hg (fun r hr => by rw [hf.1 r hr, hdim]) hx

/-- `stack` concatenates outputs -/
theorem C16_stack (f g : Aff α) (x : List α) (hf : f.WF) :
    (f.stack g).apply x = f.apply x ++ g.apply x := by
  unfold Aff.stack Aff.apply
  simp only [matVec, List.map_append]
  rw [vadd_append]
  simp [hf.2]

section ordered
variable {α : Type} [Field α] [LinearOrder α] [IsStrictOrderedRing α]

/-- `f + g` is the point-wise sum (operands of equal shape) -/
theorem C16_add_pointwise (f g : Aff α) (x : List α) (h : SameRows f.mat g.mat) :
    (f.add g).apply x = vadd (f.apply x) (g.apply x) := Aff.apply_add f g x h

/-- `f − g` is the point-wise difference -/
theorem C16_sub_pointwise (f g : Aff α) (x : List α) (h : SameRows f.mat g.mat) :
    (f.sub g).apply x = vsub (f.apply x) (g.apply x) := Aff.apply_sub f g x h

/-- `−f` is the point-wise negation -/
theorem C16_neg_pointwise (f : Aff α) (x : List α) : f.neg.apply x = vneg (f.apply x) := Aff.apply_neg f x

/-- `*`, `/`, `%` (any binary operator) act coefficient-wise on matrix and bias -/
theorem C16_coefficientwise (op : α → α → α) (f g : Aff α) :
    (f.zipWith op g).bias = List.zipWith op f.bias g.bias ∧
    (f.zipWith op g).mat = matZip (fun a b => List.zipWith op a b) f.mat g.mat := ⟨rfl, rfl⟩

/-- `identity(n)` is the identity -/
theorem C16_identity (n : Nat) (x : List α) (hx : x.length = n) : (Aff.identity n : Aff α).apply x = x :=
  apply_identity n x hx

/-- `zero_idx(n, i)` sets component `i` to zero and leaves the others unchanged -/
theorem C16_zero_idx (n i : Nat) (x : List α) (hx : x.length = n) :
    (Aff.zeroIdx n i : Aff α).apply x = x.set i 0 := apply_zeroIdx n i x hx

/-- `constant(n, v)` always returns `[v]` -/
theorem C16_constant (n : Nat) (v : α) (x : List α) : (Aff.constant n v : Aff α).apply x = [v] := by
  simp [Aff.constant, Aff.apply, matVec]

/-- `unit(n, i)` returns component `i` -/
theorem C16_unit (n i : Nat) (x : List α) (hi : i < n) : (Aff.unit n i : Aff α).apply x = [x.getD i 0] := by
  simp [Aff.unit, Aff.apply, matVec, dot_unitVec, hi]

/-- `translation(n, offset)` adds the offset -/
theorem C16_translation (n : Nat) (off x : List α) (hx : x.length = n) :
    (Aff.translation n off : Aff α).apply x = vadd x off := by
  unfold Aff.translation Aff.apply
  simp only
  have := apply_identity n x hx
  unfold Aff.identity Aff.apply at this
  simp only at this
  have h2 : matVec (eye n) x = x := by
    have h3 : vadd (matVec (eye n) x) (zeros n) = x := this
    have hl : (matVec (eye n : Mat α) x).length = n := by simp [matVec, eye]
    rw [vadd_zeros_right _ n hl] at h3
    exact h3
  rw [h2]
where
  vadd_zeros_right (v : List α) (n : Nat) (h : v.length = n) : vadd v (zeros n) = v := by
    induction v generalizing n with
    | nil => simp
    | cons a as ih =>
      cases n with
      | zero => simp at h
      | succ n => simp only [zeros_succ, vadd_cons, add_zero]; rw [ih n (by simpa using h)]

theorem vadd_zeros_right' (v : List α) (n : Nat) (h : v.length = n) : vadd v (zeros n) = v := by
  induction v generalizing n with
  | nil => simp
  | cons a as ih =>
    cases n with
    | zero => simp at h
    | succ n => simp only [zeros_succ, vadd_cons, add_zero]; rw [ih n (by simpa using h)]

/-- `sum(n)` adds up the components -/
theorem C16_sum (n : Nat) (x : List α) (hx : x.length = n) : (Aff.sum n : Aff α).apply x = [x.sum] := by
  unfold Aff.sum Aff.apply
  simp only [matVec, List.map_cons, List.map_nil, vadd_cons, add_zero]
  congr 1
  subst hx
  induction x with
  | nil => simp [ones]
  | cons a as ih => simp only [ones, List.length_cons, List.replicate_succ, dot_cons, one_mul, List.sum_cons] at ih ⊢; rw [ih]

/-- `subtraction(n, l, r)` computes `x_l − x_r` -/
theorem C16_subtraction (n l r : Nat) (x : List α) (hl : l < n) (hr : r < n) (hlr : l ≠ r) :
    (Aff.subtraction n l r : Aff α).apply x = [x.getD l 0 - x.getD r 0] := by
  unfold Aff.subtraction Aff.apply
  simp only [matVec, List.map_cons, List.map_nil, vadd_cons, add_zero]
  rw [dot_subtraction_row n l r x hl hr hlr]
  rfl

/-- `rotation(n, R)` multiplies by `R` (no offset) -/
theorem C16_rotation (n : Nat) (R : Mat α) (x : List α) (hR : R.length = n) :
    (Aff.rotation n R : Aff α).apply x = matVec R x := by
  unfold Aff.rotation Aff.apply
  simp only
  exact vadd_zeros_right' _ n (by simp [matVec, hR])

/-- `scaling(s)` scales component `k` by `s_k`; `uniform_scaling(n, c)` scales every component by `c` -/
theorem C16_scaling (s x : List α) :
    (Aff.scaling s : Aff α).apply x = (List.range s.length).map (fun k => s.getD k 0 * x.getD k 0) := by
  unfold Aff.scaling Aff.apply diag
  simp only
  rw [matVec_diagLike]
  exact vadd_zeros_right' _ s.length (by simp)

theorem C16_uniform_scaling (n : Nat) (c : α) (x : List α) :
    (Aff.uniformScaling n c : Aff α).apply x = (List.range n).map (fun k => c * x.getD k 0) := by
  unfold Aff.uniformScaling
  rw [C16_scaling]
  simp only [List.length_replicate]
  apply List.map_congr_left
  intro k hk
  have : k < n := List.mem_range.mp hk
  simp [List.getD_eq_getElem?_getD, this]

theorem map_eq_range_map {γ δ : Type} (l : List γ) (g : γ → δ) (d : γ) :
    l.map g = (List.range l.length).map (fun k => g (l.getD k d)) := by
  apply List.ext_getElem
  · simp
  · intro i h1 h2
    simp only [List.length_map] at h1
    simp [List.getD_eq_getElem?_getD, h1]

/-- `slice(reference)`: a fixed axis (`some v`) is set to `v`, a free axis (`none`, NaN in the code) is kept -/
theorem C16_slice (ref : List (Option α)) (x : List α) :
    (Aff.slice ref : Aff α).apply x =
      (List.range ref.length).map (fun k => match ref.getD k none with | none => x.getD k 0 | some v => v) := by
  unfold Aff.slice Aff.apply diag
  simp only [List.length_map]
  rw [matVec_diagLike, map_eq_range_map ref _ none, map_eq_range_map ref _ none, vadd_range_map]
  apply List.map_congr_left
  intro k hk
  have hk' : k < ref.length := List.mem_range.mp hk
  simp only [List.getD_eq_getElem?_getD, List.getElem?_map, List.getElem?_range hk', List.getElem?_eq_getElem hk',
    Option.map_some, Option.getD_some]
  cases ref[k] <;> simp

end ordered

example : (Aff.compose (⟨[[1, 2]], [3], 2⟩ : Aff Int) ⟨[[1, 0], [0, 1]], [1, 1], 2⟩).apply [5, 7]
    = (⟨[[1, 2]], [3], 2⟩ : Aff Int).apply ((⟨[[1, 0], [0, 1]], [1, 1], 2⟩ : Aff Int).apply [5, 7]) := by decide

section conversions
variable {α : Type} [Field α] [LinearOrder α] [IsStrictOrderedRing α]

/-- how the rows of the function returned by `convert_to(repr)` are read as inequalities -/
def PRepr.holds (r : Poly.PRepr) (q : Aff α) (x : List α) : Prop :=
  ∀ rb ∈ q.rows,
    match r with
    | .leqBias => dot rb.1 x ≤ rb.2
    | .biasLeqZero => dot rb.1 x + rb.2 ≤ 0
    | .geqBias => rb.2 ≤ dot rb.1 x
    | .biasGeqZero => 0 ≤ dot rb.1 x + rb.2

theorem forall_zip_vneg_right (M : Mat α) (b : List α) (P : List α → α → Prop) :
    (∀ rb ∈ M.zip (vneg b), P rb.1 rb.2) ↔ (∀ rb ∈ M.zip b, P rb.1 (-rb.2)) := by
  unfold vneg
  induction M generalizing b with
  | nil => simp
  | cons r M ih =>
    cases b with
    | nil => simp
    | cons b0 b => simp only [List.map_cons, List.zip_cons_cons, List.forall_mem_cons, ih b]

theorem forall_zip_matNeg_left (M : Mat α) (b : List α) (P : List α → α → Prop) :
    (∀ rb ∈ (matNeg M).zip b, P rb.1 rb.2) ↔ (∀ rb ∈ M.zip b, P (vneg rb.1) rb.2) := by
  unfold matNeg
  induction M generalizing b with
  | nil => simp
  | cons r M ih =>
    cases b with
    | nil => simp
    | cons b0 b => simp only [List.map_cons, List.zip_cons_cons, List.forall_mem_cons, ih b]

/-- every `PolyRepr`: the converted rows, read in the requested representation, are the half-spaces of the polytope -/
theorem C16_convert_to (p : Aff α) (r : Poly.PRepr) (x : List α) :
    PRepr.holds r (Poly.convertTo p r) x ↔ Poly.Mem p x := by
  unfold PRepr.holds Poly.Mem Aff.rows
  cases r with
  | leqBias => simp [Poly.convertTo]
  | biasLeqZero =>
    simp only [Poly.convertTo]
    rw [forall_zip_vneg_right p.mat p.bias (fun a b => dot a x + b ≤ 0)]
    constructor <;> intro h rb hrb <;> have := h rb hrb <;> linarith
  | geqBias =>
    simp only [Poly.convertTo]
    rw [forall_zip_vneg_right (matNeg p.mat) p.bias (fun a b => b ≤ dot a x),
      forall_zip_matNeg_left p.mat p.bias (fun a b => -b ≤ dot a x)]
    constructor <;> intro h rb hrb <;> have := h rb hrb <;> simp only [dot_vneg_left] at * <;> linarith
  | biasGeqZero =>
    simp only [Poly.convertTo]
    rw [forall_zip_matNeg_left p.mat p.bias (fun a b => 0 ≤ dot a x + b)]
    constructor <;> intro h rb hrb <;> have := h rb hrb <;> simp only [dot_vneg_left] at * <;> linarith

theorem vadd_getElem (a b : List α) (i : Nat) (h : i < (vadd a b).length) :
    (vadd a b)[i] = a[i]'(by rw [vadd_length] at h; omega) + b[i]'(by rw [vadd_length] at h; omega) := by
  induction a generalizing b i with
  | nil => simp at h
  | cons a0 a ih =>
    cases b with
    | nil => simp at h
    | cons b0 b =>
      cases i with
      | zero => simp [vadd]
      | succ i => simp only [vadd, List.getElem_cons_succ]; exact ih b i _

/-- `row(i)`: the one-row function computing output `i` -/
theorem C16_row (f : Aff α) (i : Nat) (x : List α) (hi : i < f.mat.length) (hb : f.bias.length = f.mat.length) :
    (f.row i).apply x = [(f.apply x).getD i 0] := by
  unfold Aff.row Aff.apply
  simp only [matVec, List.map_cons, List.map_nil, vadd]
  congr 1
  have hlen : i < (vadd (List.map (fun r => dot r x) f.mat) f.bias).length := by
    rw [vadd_length]; simp [hb, hi]
  simp only [List.getD_eq_getElem?_getD, List.getElem?_eq_getElem hlen, List.getElem?_eq_getElem hi,
    List.getElem?_eq_getElem (show i < f.bias.length by omega), Option.getD_some]
  rw [vadd_getElem]
  simp


/-- `row_iter` / `from_row_iter`: a function is rebuilt from its rows -/
theorem C16_rows_roundtrip (f : Aff α) (hb : f.bias.length = f.mat.length) : Aff.ofRows f.indim f.rows = f := by
  unfold Aff.ofRows Aff.rows
  have h1 : (f.mat.zip f.bias).map (·.1) = f.mat := by
    rw [List.map_fst_zip]; omega
  have h2 : (f.mat.zip f.bias).map (·.2) = f.bias := by
    rw [List.map_snd_zip]; omega
  cases f
  simp_all

/-- `from_row_iter`: output `i` of the function built from rows `(aᵢ, bᵢ)` is `aᵢ·x + bᵢ` -/
theorem C16_from_rows (n : Nat) (rs : List (List α × α)) (x : List α) :
    (Aff.ofRows n rs).apply x = rs.map (fun rb => dot rb.1 x + rb.2) := by
  unfold Aff.ofRows Aff.apply matVec
  induction rs with
  | nil => simp
  | cons r rs ih => simp only [List.map_cons, vadd, List.map_map] at ih ⊢; rw [ih]

/-- `remove_zero_columns`: a function does not depend on the inputs whose column is zero — its value at `x` is the
    value of the reduced function at the remaining coordinates of `x` -/
theorem C16_remove_zero_columns (f : Aff α) (x : List α) (hf : f.WF) (hx : x.length = f.indim) :
    (f.removeZeroColumns).apply
        ((keepOf f.indim (fun j => f.mat.any (fun r => !(r.getD j 0 == 0)))).map (fun j => x.getD j 0))
      = f.apply x := by
  unfold Aff.removeZeroColumns Aff.apply
  simp only
  congr 1
  simp only [matVec, List.map_map]
  apply List.map_congr_left
  intro r hr
  have := dot_keep f.indim (fun j => f.mat.any (fun r => !(r.getD j 0 == 0))) r x (hf.1 r hr) hx (by
    intro j hj hp
    simp only [List.any_eq_false] at hp
    have := hp r hr
    simpa using this)
  simpa [keepOf] using this

/-- drop the entries whose position (counted from `i`) is listed -/
def dropIdxAux {γ : Type} : Nat → List Nat → List γ → List γ
  | _, _, [] => []
  | i, idxs, v :: vs => if idxs.contains i then dropIdxAux (i+1) idxs vs else v :: dropIdxAux (i+1) idxs vs

theorem removeRowsAux_map {γ : Type} (g : List α × α → γ) (i : Nat) (idxs : List Nat) (rows : List (List α × α)) :
    (Aff.removeRowsAux i idxs rows).map g = dropIdxAux i idxs (rows.map g) := by
  induction rows generalizing i with
  | nil => simp [Aff.removeRowsAux, dropIdxAux]
  | cons r rs ih =>
    simp only [Aff.removeRowsAux, List.map_cons, dropIdxAux]
    split
    · exact ih (i+1)
    · simp only [List.map_cons]; rw [ih (i+1)]

/-- `remove_rows(idxs)`: the outputs of the remaining rows are unchanged — the result computes `f(x)` with the listed
    components dropped -/
theorem C16_remove_rows (f : Aff α) (idxs : List Nat) (x : List α) (hb : f.bias.length = f.mat.length) :
    (f.removeRows idxs).apply x = dropIdxAux 0 idxs (f.apply x) := by
  unfold Aff.removeRows
  rw [C16_from_rows, removeRowsAux_map]
  congr 1
  have := C16_from_rows f.indim f.rows x
  rw [C16_rows_roundtrip f hb] at this
  exact this.symm

/-- `remove_zero_rows`: only outputs that are identically `0` (zero coefficients, zero bias) are dropped -/
theorem C16_remove_zero_rows (f : Aff α) (x : List α) :
    (f.removeZeroRows).apply x =
      (f.rows.filter (fun r => !(isZeroVec r.1 && r.2 == 0))).map (fun rb => dot rb.1 x + rb.2) ∧
    ∀ rb ∈ f.rows, (isZeroVec rb.1 && rb.2 == 0) = true → dot rb.1 x + rb.2 = 0 := by
  refine ⟨by unfold Aff.removeZeroRows; rw [C16_from_rows], ?_⟩
  intro rb _ h
  simp only [Bool.and_eq_true, beq_iff_eq] at h
  have hz : ∀ e ∈ rb.1, e = 0 := by
    intro e he
    have := h.1
    unfold isZeroVec at this
    simpa using (List.all_eq_true.mp this) e he
  rw [dot_all_zero rb.1 x hz, h.2]; simp

end conversions

end AV
