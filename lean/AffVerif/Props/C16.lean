import AffVerif.Proofs.VecLemmas
/-!
# C16 — affine functions obey their algebra and named constructors their names

Theorems over any commutative ring (so in particular over ℝ and ℚ), for every dimension.
Dimension hypotheses are exactly the guards the code asserts (`compose`, `stack`) or that `ndarray`
enforces by construction (`WF`).
-/
namespace AV
variable {α : Type} [CommRing α]

/-- `compose(f,g)(x) = f(g(x))` -/
theorem C16_compose (f g : Aff α) (x : List α)
    (hg : g.WF) (hf : f.WF) (hdim : f.indim = g.outdim) (hx : x.length = g.indim) :
    (f.compose g).apply x = f.apply (g.apply x) :=
  Aff.apply_compose f g x hg (fun r hr => by rw [hf.1 r hr, hdim]) hx

/-- `stack` concatenates outputs -/
theorem C16_stack (f g : Aff α) (x : List α) (hf : f.WF) :
    (f.stack g).apply x = f.apply x ++ g.apply x := by
  unfold Aff.stack Aff.apply
  simp only [matVec, List.map_append]
  rw [vadd_append]
  simp [hf.2]

example : (Aff.compose (⟨[[1, 2]], [3], 2⟩ : Aff Int) ⟨[[1, 0], [0, 1]], [1, 1], 2⟩).apply [5, 7]
    = (⟨[[1, 2]], [3], 2⟩ : Aff Int).apply ((⟨[[1, 0], [0, 1]], [1, 1], 2⟩ : Aff Int).apply [5, 7]) := by decide

end AV
