import AffVerif.Proofs.ElimEffective
import AffVerif.Proofs.ElimTerminals
import AffVerif.Proofs.Effective
import AffVerif.Props.C05
/-!
# C06 — infeasible-path elimination is effective and idempotent

* `C06_settled_fixpoint` — on a tree without undecided nodes the sweep changes nothing and asks the oracles nothing
  (any oracles, any branching factor, partial trees included).
* `C06_sweep_settles` — with oracles that always reach a verdict (`Decisive`: the solver does not fail and a solver
  point that fails `contains` can be repaired) the swept tree has no undecided node.
* `C06_idempotent` — hence a second run returns the same tree and solves no LP (the oracle state is returned
  untouched), whatever oracles the second run is given.
* `C06_no_single_branch` — for *every* behaviour of the solver and of the heuristics (no hypothesis on the oracles at
  all, since fix D15: a redundant decision is forwarded also when its surviving child stayed undecided): on a total tree
  whose sibling pairs are both fresh or both cached feasible (every compose / eliminate / compose / eliminate
  pipeline) no decision below the root is left with a single branch —
  except above a branch that is itself marked infeasible, i.e. when the solver declared both closed half-regions of a
  feasible node empty. That exception cannot occur with an exact solver (the half-spaces cover the region); on the
  implementation it is what "empty by more than the solver's tolerance" allows, and the judge decides it per case
  with exact certificates.
* `C06_swept_caches` — the swept tree also carries sound caches: every node still marked by a witness has a point
  within `tol` of all its path conditions (so its region is not empty by more than `tol`), every node marked
  infeasible has an empty region and no sibling.
* `C06_effective` — the first clause of the property as a theorem, under hypotheses on the solver that the judge
  validates per call: with oracles that always reach a verdict (`Decisive`), whose `Unbounded` answers are given for
  non-empty sets only (`UnboundedNonempty`) and whose repair heuristic returns points of the polytope it was asked for
  (`MirrorSound`, `MirrorNonempty`), every node below the root of the swept tree is marked infeasible or has a point
  within the containment tolerance of all its path conditions — and so on below every such node (`PT.Effective`).
  A node marked infeasible that is still there is the last child of its decision (`C06_no_single_branch`). The input
  tree may carry caches (`CacheOK`, `PT.StSound StNE`: witness lists non-empty, `Feasible` marks on non-empty regions),
  e.g. any fresh tree or the result of an earlier sweep (`C06_effective_caches_kept`).
* Terminal count (last sentence of the property), for *every* solver that is right about "infeasible":
  `C06_reached_terminal_kept` — the sweep keeps the identity (arena index and map) of the terminal every input reaches:
  forwarding shortens paths, it never changes where they end; `C06_terminals_sublist` — it creates no terminal: the
  terminals of the result are a sub-list (same order, index and map) of those of the original, for any oracles at all;
  `C06_terminal_count_bounds` — hence `#terminals(result) ≤ #terminals(original)` and, for any family of inputs that
  reach pairwise different terminals of the original tree (one interior point per full-dimensional activation region:
  `C09_interior_routed`, `C09_terminal_interiors_disjoint`), `#inputs ≤ #terminals(result)`.  That a surviving terminal
  has a non-empty closed region is the witness clause of `C06_swept_caches`.
-/
set_option linter.unusedSectionVars false
set_option linter.unusedVariables false
namespace AV
variable {α : Type} [Field α] [LinearOrder α] [IsStrictOrderedRing α]

theorem C06_settled_fixpoint {σ : Type} (tol : α) (O : Oracles σ α) (n : Nat) (t : PT α) (s : σ)
    (h : PT.SettledBelow t) : infeasibleElimination tol O n t s = (t, s) := by
  unfold infeasibleElimination
  rw [elimNode_settled tol O n true [] t.val.state t s h]
  cases t with
  | node i c ks => rfl

theorem C06_sweep_settles {σ : Type} (tol : α) (O : Oracles σ α) (hd : Decisive tol O) (n : Nat) (t : PT α) (s : σ) :
    PT.SettledBelow (infeasibleElimination tol O n t s).1 :=
  settled_elimNode tol O hd n true [] t.val.state t s

/-- running the elimination again changes nothing and solves no LP -/
theorem C06_idempotent {σ σ' : Type} (tol : α) (O : Oracles σ α) (hd : Decisive tol O) (O' : Oracles σ' α) (n : Nat)
    (t : PT α) (s : σ) (s' : σ') :
    infeasibleElimination tol O' n (infeasibleElimination tol O n t s).1 s' =
      ((infeasibleElimination tol O n t s).1, s') :=
  C06_settled_fixpoint tol O' n _ s' (C06_sweep_settles tol O hd n t s)

theorem C06_no_single_branch {σ : Type} (tol : α) (O : Oracles σ α) (n : Nat) (t : PT α) (s : σ)
    (hu : PT.TotalUniform t) : PKids.NoSingle (infeasibleElimination tol O n t s).1.kids :=
  (noSingle_elimNode tol O n true [] t.val.state t s hu).1

/-- below the root the same holds one level up: a swept sub-tree is replaced by its only branch -/
theorem C06_no_single_branch_below {σ : Type} (tol : α) (O : Oracles σ α) (n : Nat)
    (path : List (Aff α)) (st : NState α) (t : PT α) (s : σ) (hu : PT.TotalUniform t) :
    PKids.OneInf (elimNode tol O n false path st t s).1.kids :=
  (noSingle_elimNode tol O n false path st t s hu).2 rfl

theorem C06_swept_caches {σ : Type} (tol : α) (O : Oracles σ α) (hd : Decisive tol O) (hlp : InfeasibleSound O.lp)
    (hm : MirrorSound tol O.mirror) (n m : Nat) (t : PT α) (s : σ) (h : CacheOK tol n m t) :
    PT.SettledBelow (infeasibleElimination tol O n t s).1 ∧ CacheOK tol n m (infeasibleElimination tol O n t s).1 :=
  ⟨C06_sweep_settles tol O hd n t s, C05_elim tol O hlp hm n m t s h⟩

/-- the caches the sweep leaves satisfy the two extra clauses again (so sweeps can be chained): witness lists are
    non-empty — the `assert!` of `phase_one` never fires on a swept tree — and `Feasible` marks sit on non-empty regions -/
theorem C06_effective_caches_kept {σ : Type} (tol : α) (O : Oracles σ α) (hmn : MirrorNonempty O.mirror)
    (hub : UnboundedNonempty O.lp) (n m : Nat) (t : PT α) (s : σ) (ht : PT.Shaped 2 n m t)
    (hne : PT.StSound StNE [] t) : PT.StSound StNE [] (infeasibleElimination tol O n t s).1 := by
  have hok := PT.elimOK_of_shaped t n m ht
  unfold infeasibleElimination
  cases t with
  | node i c ks =>
    unfold PT.StSound at hne
    exact PT.stSound_elimNode StNE stNE_pred tol O n
      (fun s node pst path hyper hp => decideNode_ne tol O hmn hub n s node pst path hyper hp)
      true [] c.state (.node i c ks) s hok hne.2 hne.1

/-- effectiveness: no node below the root of the swept tree has a path region that is empty by more than the
    containment tolerance, except a node that is marked infeasible (the last child of its decision) -/
theorem C06_effective {σ : Type} (tol : α) (htol : 0 ≤ tol) (O : Oracles σ α) (hd : Decisive tol O)
    (hlp : InfeasibleSound O.lp) (hm : MirrorSound tol O.mirror) (hmn : MirrorNonempty O.mirror)
    (hub : UnboundedNonempty O.lp) (n m : Nat) (t : PT α) (s : σ) (h : CacheOK tol n m t)
    (hne : PT.StSound StNE [] t) :
    PT.Effective tol [] (infeasibleElimination tol O n t s).1 := by
  have hw := (C05_elim tol O hlp hm n m t s h).2.2.1
  have h2 := C06_effective_caches_kept tol O hmn hub n m t s h.1 hne
  exact PT.effective_of tol htol _ [] (PT.stSound_of_witSound tol _ [] hw) h2 (C06_sweep_settles tol O hd n t s)

/-- fresh trees (every constructor, every un-pruned composition of fresh trees) satisfy the extra clauses -/
theorem C06_effective_fresh (t : PT α) (hf : PT.Fresh t) : PT.StSound StNE [] t :=
  PT.stSound_of_fresh StNE stNE_indeterminate t [] hf

/-- un-pruned composition (any schema: `compose`, and the arithmetic operators before pruning) and `apply_func` keep the
    extra clauses, so every state of a compose / eliminate / compose / eliminate pipeline that starts from a fresh tree
    satisfies the hypotheses of `C06_effective` (with `C05_compose`, `C05_apply_func`, `C05_elim` for `CacheOK`) -/
theorem C06_effective_compose (S : Schema α) (f g : PT α) (c : Nat) (h : PT.StSound StNE [] f) :
    PT.StSound StNE [] (PT.composeS S f g c).1 :=
  PT.stSound_composeS StNE stNE_indeterminate S f g c [] h

/-- the same for the pruned composition and the pruning arithmetic operators, whatever the `explore` filter decides -/
theorem C06_effective_compose_prune {σ : Type} (S : Schema α) (ex : Explore σ α) (n : Nat) (f g : PT α) (s : σ)
    (c : Nat) (h : PT.StSound StNE [] f) : PT.StSound StNE [] (PT.composeP S ex n [] f g s c).1 :=
  PT.stSound_composeP StNE stNE_indeterminate S ex n [] f g s c h

theorem C06_effective_apply_func (t : PT α) (a : Aff α) (h : PT.StSound StNE [] t) :
    PT.StSound StNE [] (PT.applyFunc t a) :=
  PT.stSound_mapTerminals StNE _ t [] h

/-- `reduce` and planted witnesses keep the extra clauses as well -/
theorem C06_effective_reduce (t : PT α) (h : PT.StSound StNE [] t) : PT.StSound StNE [] (PT.reduce t) :=
  PT.stSound_reduceAux StNE stNE_pred true t [] h

theorem C06_effective_plant (t : PT α) (idx : Nat) (pts : List (List α)) (h : PT.StSound StNE [] t) :
    PT.StSound StNE [] (PT.plant t idx pts) :=
  PT.stSound_plant StNE stNE_plant pts [] t idx h

/-- a history step as in C05 (`CStep`), where the oracles of a sweep also satisfy the two extra contracts -/
inductive EStep (tol : α) (n : Nat) : Nat → PT α → Nat → PT α → Prop where
  | applyFunc (m : Nat) (t : PT α) (a : Aff α) (ha : a.WF) (hm : a.indim = m) :
      EStep tol n m t a.outdim (PT.applyFunc t a)
  | scalar (m : Nat) (t : PT α) (φ : Aff α → Aff α)
      (hφ : ∀ a : Aff α, a.WF → a.indim = n → a.outdim = m → (φ a).WF ∧ (φ a).indim = n ∧ (φ a).outdim = m) :
      EStep tol n m t m (PT.mapTerminals φ t)
  | compose (m p : Nat) (t g : PT α) (c : Nat) (hg : PT.Shaped 2 m p g) :
      EStep tol n m t p (PT.composeS Schema.compose t g c).1
  | composePrune {σ : Type} (m p : Nat) (t g : PT α) (ex : Explore σ α) (s : σ) (c : Nat) (hg : PT.Shaped 2 m p g) :
      EStep tol n m t p (PT.composeP Schema.compose ex n [] t g s c).1
  | arith {σ : Type} (m : Nat) (t g : PT α) (op : ArithOp) (ex : Explore σ α) (s : σ) (c : Nat)
      (hg : PT.Shaped 2 n m g) : EStep tol n m t m (PT.composeP (Schema.arith op.onAff) ex n [] t g s c).1
  | elim {σ : Type} (m : Nat) (t : PT α) (O : Oracles σ α) (s : σ) (hlp : InfeasibleSound O.lp)
      (hmi : MirrorSound tol O.mirror) (hmn : MirrorNonempty O.mirror) (hub : UnboundedNonempty O.lp) :
      EStep tol n m t m (infeasibleElimination tol O n t s).1
  | reduce (m : Nat) (t : PT α) : EStep tol n m t m (PT.reduce t)
  | plant (m : Nat) (t : PT α) (idx : Nat) (pts : List (List α))
      (hp : ∀ q ∈ PT.hitPaths t idx [], ∀ w ∈ pts, InPathTol tol q w) : EStep tol n m t m (PT.plant t idx pts)

theorem EStep.toCStep (tol : α) (n m m' : Nat) (t t' : PT α) (st : EStep tol n m t m' t') : CStep tol n m t m' t' := by
  cases st with
  | applyFunc _ _ a ha hm => exact .applyFunc _ _ a ha hm
  | scalar _ _ φ hφ => exact .scalar _ _ φ hφ
  | compose _ _ _ g c hg => exact .compose _ _ _ g c hg
  | composePrune _ _ _ g ex s c hg => exact .composePrune _ _ _ g ex s c hg
  | arith _ _ g op ex s c hg => exact .arith _ _ g op ex s c hg
  | elim _ _ O s hlp hmi _ _ => exact .elim _ _ O s hlp hmi
  | reduce => exact .reduce _ _
  | plant _ _ idx pts hp => exact .plant _ _ idx pts hp

/-- one step keeps the cache invariant of C05 together with the two extra clauses -/
theorem C06_effective_step (tol : α) (n m m' : Nat) (t t' : PT α) (h : CacheOK tol n m t)
    (hne : PT.StSound StNE [] t) (st : EStep tol n m t m' t') : CacheOK tol n m' t' ∧ PT.StSound StNE [] t' := by
  refine ⟨C05_step tol n m m' t t' h (EStep.toCStep tol n m m' t t' st), ?_⟩
  cases st with
  | applyFunc _ _ a ha hm => exact C06_effective_apply_func t a hne
  | scalar _ _ φ hφ => exact PT.stSound_mapTerminals StNE φ t [] hne
  | compose _ _ _ g c hg => exact C06_effective_compose _ t g c hne
  | composePrune _ _ _ g ex s c hg => exact C06_effective_compose_prune _ ex n t g s c hne
  | arith _ _ g op ex s c hg => exact C06_effective_compose_prune _ ex n t g s c hne
  | elim _ _ O s hlp hmi hmn hub => exact C06_effective_caches_kept tol O hmn hub n m t s h.1 hne
  | reduce => exact C06_effective_reduce t hne
  | plant _ _ idx pts hp => exact C06_effective_plant t idx pts hne

inductive ESteps (tol : α) (n : Nat) : Nat → PT α → Nat → PT α → Prop where
  | nil (m : Nat) (t : PT α) : ESteps tol n m t m t
  | cons (m m' m'' : Nat) (t t' t'' : PT α) : EStep tol n m t m' t' → ESteps tol n m' t' m'' t'' → ESteps tol n m t m'' t''

/-- every history over the eight step kinds of C05 — apply_func, scalar forms, un-pruned and pruned composition, the
    arithmetic operators, sweeps, reduce, planted witnesses, in any order and number — leads to a tree on which the
    next sweep is effective (with a decisive solver): the compose / eliminate / compose / eliminate pipelines of the
    property and everything around them -/
theorem C06_effective_history {σ : Type} (tol : α) (htol : 0 ≤ tol) (n m m' : Nat) (t t' : PT α)
    (h : CacheOK tol n m t) (hne : PT.StSound StNE [] t) (hs : ESteps tol n m t m' t')
    (O : Oracles σ α) (hd : Decisive tol O) (hlp : InfeasibleSound O.lp) (hm : MirrorSound tol O.mirror)
    (hmn : MirrorNonempty O.mirror) (hub : UnboundedNonempty O.lp) (s : σ) :
    PT.Effective tol [] (infeasibleElimination tol O n t' s).1 := by
  induction hs with
  | nil m t => exact C06_effective tol htol O hd hlp hm hmn hub n m t s h hne
  | cons m m' m'' t t' t'' st _ ih =>
    obtain ⟨h', hne'⟩ := C06_effective_step tol n m m' t t' h hne st
    exact ih h' hne'

/-- the terminal an input reaches keeps its arena index and its map -/
theorem C06_reached_terminal_kept {σ : Type} (tol : α) (O : Oracles σ α) (hlp : InfeasibleSound O.lp)
    (n m : Nat) (t : PT α) (s : σ) (x : List α) (ht : PT.Shaped 2 n m t) (hc : PT.InfSound [] t) :
    (PT.findTerminal (infeasibleElimination tol O n t s).1 x).map (·.1) = (PT.findTerminal t x).map (·.1) ∧
    PT.leafAt (infeasibleElimination tol O n t s).1 x = PT.leafAt t x := by
  have hok := PT.elimOK_of_shaped t n m ht
  refine ⟨?_, ?_⟩
  · rw [← PT.obs_idx, ← PT.obs_idx]
    exact PT.obs_infeasibleElimination _ tol O hlp n t s x hok hc
  · rw [← PT.obs_aff, ← PT.obs_aff]
    exact PT.obs_infeasibleElimination _ tol O hlp n t s x hok hc

/-- the sweep creates no terminal (any oracles, any tree) -/
theorem C06_terminals_sublist {σ : Type} (tol : α) (O : Oracles σ α) (n : Nat) (t : PT α) (s : σ) :
    (PT.terminals (infeasibleElimination tol O n t s).1).Sublist (PT.terminals t) :=
  PT.terminals_infeasibleElimination tol O n t s

/-- bounds on the number of terminals of the swept tree: at most the terminals of the original; at least as many as
    there are inputs that reach pairwise different terminals of the original (e.g. one interior point of every
    full-dimensional region) -/
theorem C06_terminal_count_bounds {σ : Type} (tol : α) (O : Oracles σ α) (hlp : InfeasibleSound O.lp)
    (n m : Nat) (t : PT α) (s : σ) (ht : PT.Shaped 2 n m t) (hc : PT.InfSound [] t) (xs : List (List α))
    (hdef : ∀ x ∈ xs, (PT.findTerminal t x).isSome)
    (hdist : (xs.map (fun x => (PT.findTerminal t x).map (·.1))).Nodup) :
    xs.length ≤ ITree.numTerminals (infeasibleElimination tol O n t s).1 ∧
    ITree.numTerminals (infeasibleElimination tol O n t s).1 ≤ ITree.numTerminals t := by
  refine ⟨?_, ?_⟩
  · set t' := (infeasibleElimination tol O n t s).1 with ht'
    have hsub : xs.map (fun x => (PT.findTerminal t x).map (·.1)) ⊆ (PT.terminals t').map (fun p => some p.1) := by
      intro o ho
      obtain ⟨x, hx, rfl⟩ := List.mem_map.1 ho
      have hk := (C06_reached_terminal_kept tol O hlp n m t s x ht hc).1
      have hsome := hdef x hx
      cases hf : PT.findTerminal t x with
      | none => simp [hf] at hsome
      | some r =>
        rw [hf] at hk
        have : PT.obs (fun i _ => i) t' x = some r.1 := by rw [PT.obs_idx]; exact hk
        obtain ⟨p, hp, hpe⟩ := PT.obs_mem _ t' x r.1 this
        simp only [Option.map_some]
        exact List.mem_map.2 ⟨p, hp, by rw [hpe]⟩
    have := (List.subperm_of_subset hdist hsub).length_le
    simpa [PT.terminals_length] using this
  · have := (C06_terminals_sublist tol O n t s).length_le
    simpa [PT.terminals_length] using this

/-- non-vacuity of the hypotheses of `C06_terminal_count_bounds`: the two inputs 3 and −2 reach different terminals of
    the ReLU tree, so its swept version has exactly two terminals whatever the solver does -/
example : (∀ x ∈ [[(3 : Rat)], [-2]], (PT.findTerminal exRelu x).isSome) ∧
    ([[(3 : Rat)], [-2]].map (fun x => (PT.findTerminal exRelu x).map (·.1))).Nodup := by decide +kernel

/-- the contract `MirrorNonempty` holds for the model of the heuristic (it answers `Some` with the candidates that
    passed the test, of which there is at least one) -/
theorem C06_model_mirror_nonempty {σ : Type} (eps fac : α) (heps : 0 ≤ eps) (norms : Aff α → List (Option α))
    (hn : ∀ p : Aff α, (norms p).length = p.rows.length ∧ ∀ o ∈ norms p, ∀ k, o = some k → 0 < k) :
    MirrorNonempty (σ := σ) (modelMirror eps fac norms) := by
  intro s node poly ws k pts s' h
  unfold modelMirror at h
  simp only [Prod.mk.injEq] at h
  cases hm : mirrorPoints eps fac poly (norms poly) ws k with
  | none => rw [hm] at h; simp at h
  | some r =>
    obtain ⟨res, j⟩ := r
    rw [hm] at h
    simp only [Option.map_some, Option.some.injEq] at h
    obtain ⟨rfl, _⟩ := h
    exact (mirrorPoints_sound eps fac heps poly (norms poly) (hn poly).1 (hn poly).2 ws k res j hm).1

/-- non-vacuity of the tree hypotheses of `C06_effective`: the fresh ReLU tree carries the cache invariant and the two
    extra clauses -/
example (tol : Rat) : CacheOK tol 1 1 exRelu ∧ PT.StSound StNE [] exRelu :=
  have hf : PT.Fresh exRelu := by simp [exRelu, PT.Fresh, PKids.Fresh]
  ⟨C05_fresh tol 1 1 exRelu (by simp [exRelu, PT.Shaped, PKids.Shaped, Aff.WF, IKids.allNone, IKids.length, Aff.outdim]) hf,
   C06_effective_fresh exRelu hf⟩

/-- non-vacuity of the solver hypotheses of `C06_effective`: the exact decision procedure ("unbounded" for a non-empty
    set — the objective of the feasibility question is constant —, "infeasible" for an empty one; classical, not
    computable) together with a heuristic that never helps satisfies all five of them -/
example {σ : Type} (tol : α) :
    let O : Oracles σ α := ⟨fun s p _ => (@ite _ (∃ x, Poly.Mem p x) (Classical.propDecidable _) LPAnswer.unbounded
      LPAnswer.infeasible, s), fun s _ _ _ _ => (none, s)⟩
    Decisive tol O ∧ InfeasibleSound O.lp ∧ UnboundedNonempty O.lp ∧ MirrorSound tol O.mirror ∧
      MirrorNonempty O.mirror := by
  intro O
  refine ⟨?_, ?_, ?_, ?_, ?_⟩
  · apply decisive_of_lp_decides
    intro s p c
    by_cases h : ∃ x, Poly.Mem p x
    · left; simp [O, h]
    · right; simp [O, h]
  · intro s p c h
    simp only [O] at h
    by_cases hx : ∃ x, Poly.Mem p x
    · simp [hx] at h
    · exact hx
  · intro s p c h
    simp only [O] at h
    by_cases hx : ∃ x, Poly.Mem p x
    · exact hx
    · simp [hx] at h
  · intro s node poly ws k pts s' h; simp [O] at h
  · intro s node poly ws k pts s' h; simp [O] at h

/-- non-vacuity of `Decisive`: a backend that always answers (here: "unbounded") with a heuristic that never helps -/
example {σ : Type} (tol : α) : Decisive tol (⟨fun s _ _ => (.unbounded, s), fun s _ _ _ _ => (none, s)⟩ : Oracles σ α) := by
  intro s node pst path hyper n
  unfold decideNode phaseInh phaseOne phaseTwo
  cases pst <;> simp
  split <;> simp
  rename_i h
  by_contra hc
  apply h
  rw [if_pos]
  intro a ha
  cases hb : Poly.containsTol tol hyper a with
  | false => rfl
  | true => exact absurd ⟨a, ha, hb⟩ hc

end AV
