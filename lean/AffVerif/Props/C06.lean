import AffVerif.Model.Reduce
/-! # C06 (theorems added below as they are proved) -/
namespace AV
end AV
