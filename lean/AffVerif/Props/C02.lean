import AffVerif.Proofs.ComposeLaw
/-!
# C02 — composition law: `f.compose(g)` is `g` after `f`, undefinedness included

For every branching factor `K`, total or partial operands, leaf-rooted operands, every input.
`Shaped K n m t` is the guard under which the code does not panic (matching dimensions; it is what the
crate's constructors establish, see C04).
-/
set_option linter.unusedSectionVars false
set_option linter.unusedVariables false
namespace AV
variable {α : Type} [Field α] [LinearOrder α] [IsStrictOrderedRing α]

/-- `h = f.compose::<false>(g)`: `h(x)` is defined exactly when `f(x)` and `g(f(x))` are, and then equals `g(f(x))` -/
theorem C02_compose_law (f g : PT α) (c : Nat) (x : List α) (K n m p : Nat)
    (hx : x.length = n) (hf : PT.Shaped K n m f) (hg : PT.Shaped K m p g) :
    PT.eval (PT.composeS Schema.compose f g c).1 x = (PT.eval f x).bind (PT.eval g) :=
  PT.eval_composeS f g c x K n m p hx hf hg

/-- the same for the entry point the judge runs -/
theorem C02_compose_law' (f g : PT α) (x : List α) (K n m p : Nat)
    (hx : x.length = n) (hf : PT.Shaped K n m f) (hg : PT.Shaped K m p g) :
    PT.eval (PT.compose f g) x = (PT.eval f x).bind (PT.eval g) :=
  PT.eval_composeS f g _ x K n m p hx hf hg

/-- `update_decision`: the updated predicate routes `x` as the original routes `t x` -/
theorem C02_decision_update (d t : Aff α) (x : List α)
    (ht : t.WF) (hd : ∀ r ∈ d.mat, r.length = t.outdim) (hx : x.length = t.indim) :
    (d.updDecision t).label x = d.label (t.apply x) :=
  Aff.label_updDecision d t x ht hd hx

theorem PKids.mapTerminals_allNone (φ : Aff α → Aff α) (ks : PKids α) :
    (PKids.mapTerminals φ ks).allNone = ks.allNone := by
  match ks with
  | .nil => simp [PKids.mapTerminals, IKids.allNone]
  | .cons none r => simp [PKids.mapTerminals, IKids.allNone, PKids.mapTerminals_allNone φ r]
  | .cons (some k) r => simp [PKids.mapTerminals, IKids.allNone]

mutual
theorem PT.eval_mapTerminals (φ : Aff α → Aff α) (ψ : List α → List α) (t : PT α) (x : List α)
    (h : ∀ a : Aff α, (φ a).apply x = ψ (a.apply x)) :
    PT.eval (PT.mapTerminals φ t) x = (PT.eval t x).map ψ := by
  match t with
  | .node i c kids =>
    cases hl : kids.allNone with
    | true => simp [PT.mapTerminals, PT.eval, hl, h]
    | false =>
      simp only [PT.mapTerminals, PT.eval, hl, PKids.mapTerminals_allNone, Bool.false_eq_true, if_false]
      exact PKids.evalAt_mapTerminals φ ψ kids _ x h
theorem PKids.evalAt_mapTerminals (φ : Aff α → Aff α) (ψ : List α → List α) (ks : PKids α) (l : Nat) (x : List α)
    (h : ∀ a : Aff α, (φ a).apply x = ψ (a.apply x)) :
    PKids.evalAt (PKids.mapTerminals φ ks) l x = (PKids.evalAt ks l x).map ψ := by
  match ks, l with
  | .nil, _ => simp [PKids.mapTerminals, PKids.evalAt]
  | .cons none r, 0 => simp [PKids.mapTerminals, PKids.evalAt]
  | .cons (some k) r, 0 =>
    simp only [PKids.mapTerminals, PKids.evalAt]
    exact PT.eval_mapTerminals φ ψ k x h
  | .cons none r, l+1 =>
    simp only [PKids.mapTerminals, PKids.evalAt]
    exact PKids.evalAt_mapTerminals φ ψ r l x h
  | .cons (some k) r, l+1 =>
    simp only [PKids.mapTerminals, PKids.evalAt]
    exact PKids.evalAt_mapTerminals φ ψ r l x h
end

/-! `apply_func(a)` is the special case of an affine right operand: `(f.apply_func(a))(x) = a(f(x))`.
The hypothesis says that `a` composes with every map of the tree (all terminals have `a.indim` rows —
the guard `AffFunc::compose` asserts). -/
mutual
theorem PT.eval_applyFunc (t : PT α) (a : Aff α) (x : List α) (K n : Nat)
    (ha : a.WF) (hx : x.length = n) (ht : PT.Shaped K n a.indim t) :
    PT.eval (PT.mapTerminals (fun f => a.compose f) t) x = (PT.eval t x).map a.apply := by
  match t with
  | .node i c kids =>
    obtain ⟨hwf, hin, _, hout, _, hk⟩ := ht
    cases hl : kids.allNone with
    | true =>
      simp only [PT.mapTerminals, PT.eval, hl, if_true, Option.map_some]
      rw [Aff.apply_compose a c.aff x hwf (by intro r hr; rw [ha.1 r hr, hout hl]) (by rw [hx, hin])]
    | false =>
      simp only [PT.mapTerminals, PT.eval, hl, PKids.mapTerminals_allNone, Bool.false_eq_true, if_false]
      exact PKids.evalAt_applyFunc kids a _ x K n ha hx hk
theorem PKids.evalAt_applyFunc (ks : PKids α) (a : Aff α) (l : Nat) (x : List α) (K n : Nat)
    (ha : a.WF) (hx : x.length = n) (hk : PKids.Shaped K n a.indim ks) :
    PKids.evalAt (PKids.mapTerminals (fun f => a.compose f) ks) l x = (PKids.evalAt ks l x).map a.apply := by
  match ks, l with
  | .nil, _ => simp [PKids.mapTerminals, PKids.evalAt]
  | .cons none r, 0 => simp [PKids.mapTerminals, PKids.evalAt]
  | .cons (some k) r, 0 =>
    simp only [PKids.mapTerminals, PKids.evalAt]
    exact PT.eval_applyFunc k a x K n ha hx hk.1
  | .cons none r, l+1 =>
    simp only [PKids.mapTerminals, PKids.evalAt]
    exact PKids.evalAt_applyFunc r a l x K n ha hx hk
  | .cons (some k) r, l+1 =>
    simp only [PKids.mapTerminals, PKids.evalAt]
    exact PKids.evalAt_applyFunc r a l x K n ha hx hk.2
end

theorem C02_apply_func (t : PT α) (a : Aff α) (x : List α) (K n : Nat)
    (ha : a.WF) (hx : x.length = n) (ht : PT.Shaped K n a.indim t) :
    PT.eval (PT.applyFunc t a) x = (PT.eval t x).map a.apply :=
  PT.eval_applyFunc t a x K n ha hx ht

/-! ### the surviving nodes of `f` keep their indices and positions -/

mutual
/-- `h` extends `f`: same index at every position of `f`; below a terminal of `f` anything may hang -/
def PT.Extends : PT α → PT α → Prop
  | .node i _ fk, h => i = h.idx ∧ (fk.allNone = true ∨ PKids.Extends fk h.kids)
def PKids.Extends : PKids α → PKids α → Prop
  | .nil, hs => hs = .nil
  | .cons none r, hs =>
    match hs with
    | .cons none s => PKids.Extends r s
    | _ => False
  | .cons (some a) r, hs =>
    match hs with
    | .cons (some b) s => PT.Extends a b ∧ PKids.Extends r s
    | _ => False
end

theorem PT.composeS_idx (S : Schema α) (f g : PT α) (c : Nat) : (PT.composeS S f g c).1.idx = f.idx := by
  cases f with
  | node i fc kids =>
    cases g with
    | node j gc gk =>
      cases hl : kids.allNone <;> simp [PT.composeS, hl, ITree.idx]

mutual
theorem PT.composeS_extends (S : Schema α) (f g : PT α) (c : Nat) :
    PT.Extends f (PT.composeS S f g c).1 := by
  match f with
  | .node i fc kids =>
    unfold PT.Extends
    refine ⟨by rw [PT.composeS_idx]; rfl, ?_⟩
    cases hl : kids.allNone with
    | true => left; rfl
    | false =>
      right
      have e : (PT.composeS S (.node i fc kids) g c).1 = .node i fc (PKids.composeS S kids g c).1 := by
        simp [PT.composeS, hl]
      rw [e]
      exact PKids.composeS_extends S kids g c
theorem PKids.composeS_extends (S : Schema α) (ks : PKids α) (g : PT α) (c : Nat) :
    PKids.Extends ks (PKids.composeS S ks g c).1 := by
  match ks with
  | .nil => simp [PKids.composeS, PKids.Extends]
  | .cons none r => simp only [PKids.composeS, PKids.Extends]; exact PKids.composeS_extends S r g c
  | .cons (some k) r =>
    simp only [PKids.composeS, PKids.Extends]
    exact ⟨PT.composeS_extends S k g c, PKids.composeS_extends S r g _⟩
end

/-- every node of `f` is found at the same position with the same index in `f.compose(g)` -/
theorem C02_keeps_indices (f g : PT α) (c : Nat) :
    PT.Extends f (PT.composeS Schema.compose f g c).1 :=
  PT.composeS_extends Schema.compose f g c

/-! ### non-vacuity: a concrete pair of shaped trees -/

/-- `x ≤ 0 ? 0 : x` on ℚ -/
def exRelu : PT Rat :=
  .node 0 ⟨⟨[[1]], [0], 1⟩, .indeterminate⟩
    (.cons (some (.node 1 ⟨⟨[[1]], [0], 1⟩, .indeterminate⟩ (.cons none (.cons none .nil))))
    (.cons (some (.node 2 ⟨⟨[[0]], [0], 1⟩, .indeterminate⟩ (.cons none (.cons none .nil)))) .nil))

example : PT.Shaped 2 1 1 exRelu := by
  simp [exRelu, PT.Shaped, PKids.Shaped, Aff.WF, IKids.allNone, IKids.length, Aff.outdim]

example : PT.eval (PT.compose exRelu exRelu) [3] = some [3] := by decide +kernel
example : PT.eval (PT.compose exRelu exRelu) [-2] = some [0] := by decide +kernel

end AV
