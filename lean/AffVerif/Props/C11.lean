import AffVerif.Model.Reduce
/-! # C11 (theorems added below as they are proved) -/
namespace AV
end AV
