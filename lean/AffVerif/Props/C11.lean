import AffVerif.Props.C03
import AffVerif.Props.C05
import AffVerif.Proofs.Effective
/-!
# C11 — pruning is fail-safe when the LP solver misbehaves

The listed faults (solver error, "unbounded", a perturbed or far-off "optimal" point) never fabricate an
`Infeasible` answer.  The theorems quantify over *every* oracle behaviour at *every* call — `lp` and `mirror`
are arbitrary state-threaded functions; the only hypothesis is that an `infeasible` answer is right
(`InfeasibleSound`), which the faults do not touch.  No fault plan has to be enumerated.
-/
set_option linter.unusedSectionVars false
set_option linter.unusedVariables false
namespace AV
variable {α : Type} [Field α] [LinearOrder α] [IsStrictOrderedRing α]

/-- a backend that misbehaves in the listed ways at arbitrary calls: it answers like `base`, except that at
    the calls selected by `faulty` it returns whatever `garbage` says — as long as that is not `infeasible` -/
def faultyOracle {σ : Type} (base : LPOracle σ α) (faulty : σ → Aff α → List α → Bool)
    (garbage : σ → Aff α → List α → LPAnswer α) : LPOracle σ α :=
  fun s p c =>
    if faulty s p c then
      (match garbage s p c with
       | .infeasible => .error      -- the fault kinds of C11 never produce `infeasible`
       | a => a, (base s p c).2)
    else base s p c

/-- faults of the listed kinds keep the one property pruning relies on -/
theorem C11_faults_keep_infeasible_sound {σ : Type} (base : LPOracle σ α) (hb : InfeasibleSound base)
    (faulty : σ → Aff α → List α → Bool) (garbage : σ → Aff α → List α → LPAnswer α) :
    InfeasibleSound (faultyOracle base faulty garbage) := by
  intro s p c h
  unfold faultyOracle at h
  by_cases hf : faulty s p c = true
  · simp only [hf, if_true] at h
    cases hg : garbage s p c <;> simp [hg] at h
  · simp only [hf, Bool.false_eq_true, if_false] at h
    exact hb s p c h

/-- `infeasible_elimination` under arbitrary solver misbehaviour: the represented function is unchanged -/
theorem C11_elim_failsafe {σ : Type} (tol : α) (base : LPOracle σ α) (hb : InfeasibleSound base)
    (faulty : σ → Aff α → List α → Bool) (garbage : σ → Aff α → List α → LPAnswer α)
    (mirror : MirrorOracle σ α) (n m : Nat) (t : PT α) (s : σ) (x : List α)
    (ht : PT.Shaped 2 n m t) (hc : PT.InfSound [] t) :
    PT.eval (infeasibleElimination tol ⟨faultyOracle base faulty garbage, mirror⟩ n t s).1 x = PT.eval t x :=
  C03_elim_sound tol _ (C11_faults_keep_infeasible_sound base hb faulty garbage) n m t s x ht hc

/-- pruned composition under arbitrary solver misbehaviour: still `g ∘ f` -/
theorem C11_compose_failsafe {σ : Type} (tol : α) (base : LPOracle σ α) (hb : InfeasibleSound base)
    (faulty : σ → Aff α → List α → Bool) (garbage : σ → Aff α → List α → LPAnswer α)
    (f g : PT α) (s : σ) (c : Nat) (x : List α) (n m p : Nat)
    (hx : x.length = n) (hf : PT.Shaped 2 n m f) (hg : PT.Shaped 2 m p g) (hc : PT.InfSound [] f) :
    PT.eval (PT.composeP Schema.compose (isEdgeFeasible tol (faultyOracle base faulty garbage)) n [] f g s c).1 x
      = (PT.eval f x).bind (PT.eval g) :=
  C03_compose_prune tol _ (C11_faults_keep_infeasible_sound base hb faulty garbage) f g s c x n m p hx hf hg hc

/-- no unsound verdict is cached: a node is marked infeasible only for an empty closed path polytope, whatever
    the oracle does elsewhere -/
theorem C11_no_unsound_infeasible {σ : Type} (tol : α) (base : LPOracle σ α) (hb : InfeasibleSound base)
    (faulty : σ → Aff α → List α → Bool) (garbage : σ → Aff α → List α → LPAnswer α) (mirror : MirrorOracle σ α)
    (s : σ) (node : Nat) (pst : NState α) (path : List (Aff α)) (hyper : Aff α) (n : Nat)
    (h : (decideNode tol ⟨faultyOracle base faulty garbage, mirror⟩ s node pst path hyper n).1.isInfeasible = true) :
    ¬ ∃ x, InPath (path ++ [hyper]) x :=
  decideNode_sound tol _ (C11_faults_keep_infeasible_sound base hb faulty garbage) s node pst path hyper n h

/-- faults never poison the caches: under arbitrary solver misbehaviour the swept tree still satisfies the whole cache
    invariant of C05 (witnesses satisfy their path conditions — a perturbed or far-off "optimal" point is re-checked with
    `contains` before it is stored —, infeasible marks are right), so a *later* fault-free operation that trusts the
    caches is sound too -/
theorem C11_faults_keep_caches {σ : Type} (tol : α) (base : LPOracle σ α) (hb : InfeasibleSound base)
    (faulty : σ → Aff α → List α → Bool) (garbage : σ → Aff α → List α → LPAnswer α)
    (mirror : MirrorOracle σ α) (hm : MirrorSound tol mirror) (n m : Nat) (t : PT α) (s : σ)
    (h : CacheOK tol n m t) :
    CacheOK tol n m (infeasibleElimination tol ⟨faultyOracle base faulty garbage, mirror⟩ n t s).1 :=
  C05_elim tol _ (C11_faults_keep_infeasible_sound base hb faulty garbage) hm n m t s h

/-- and the tree stays well formed under faults, for the pruned composition as well (no hypothesis at all) -/
theorem C11_faults_keep_shape {σ : Type} (tol : α) (lp : LPOracle σ α) (f g : PT α) (s : σ) (c : Nat) (n m p : Nat)
    (hf : PT.Shaped 2 n m f) (hg : PT.Shaped 2 m p g) :
    PT.Shaped 2 n p (PT.composeP Schema.compose (isEdgeFeasible tol lp) n [] f g s c).1 :=
  C04_compose_prune _ f g s c 2 n m p [] hf hg

/-- "completes without panicking", the `assert!` of `phase_one` ("nodes with the state FeasibleWitness should contain a
    non-empty vector"): whatever the LP backend answers — `lp` is arbitrary here, so every fault plan is covered — no node
    of the swept tree carries an empty witness list, provided none did before and `mirror_points` never answers `Some`
    with no point (`MirrorNonempty`; proved for the model of the loop: `C05_mirror_points_sound`). The state handed to
    `phase_one` is the state of a node of the tree, so the assertion holds at every call. -/
theorem C11_faults_keep_witness_lists_nonempty {σ : Type} (tol : α) (lp : LPOracle σ α) (mirror : MirrorOracle σ α)
    (hmn : MirrorNonempty mirror) (n m : Nat) (t : PT α) (s : σ) (ht : PT.Shaped 2 n m t)
    (h : PT.StSound StWNE [] t) : PT.StSound StWNE [] (infeasibleElimination tol ⟨lp, mirror⟩ n t s).1 := by
  have hok := PT.elimOK_of_shaped t n m ht
  unfold infeasibleElimination
  cases t with
  | node i c ks =>
    unfold PT.StSound at h
    exact PT.stSound_elimNode StWNE stWNE_pred tol ⟨lp, mirror⟩ n
      (fun s node pst path hyper hp => decideNode_wne tol ⟨lp, mirror⟩ hmn n s node pst path hyper hp)
      true [] c.state (.node i c ks) s hok h.2 h.1

/-- the other operations of a history keep that clause too: fresh trees, compositions (un-pruned and pruned, any schema,
    any `explore` filter — i.e. any solver behaviour), maps on terminals, reduce, planted witnesses -/
theorem C11_witness_lists_nonempty_steps {σ : Type} (S : Schema α) (ex : Explore σ α) (n : Nat) (f g : PT α) (s : σ)
    (c : Nat) (φ : Aff α → Aff α) (idx : Nat) (pts : List (List α)) (h : PT.StSound StWNE [] f) :
    PT.StSound StWNE [] (PT.composeS S f g c).1 ∧ PT.StSound StWNE [] (PT.composeP S ex n [] f g s c).1 ∧
    PT.StSound StWNE [] (PT.mapTerminals φ f) ∧ PT.StSound StWNE [] (PT.reduce f) ∧
    PT.StSound StWNE [] (PT.plant f idx pts) :=
  have hind : ∀ p : List (Aff α), StWNE p (.indeterminate : NState α) := fun _ ws hw => by cases hw
  ⟨PT.stSound_composeS StWNE hind S f g c [] h, PT.stSound_composeP StWNE hind S ex n [] f g s c h,
   PT.stSound_mapTerminals StWNE φ f [] h, PT.stSound_reduceAux StWNE stWNE_pred true f [] h,
   PT.stSound_plant StWNE stWNE_plant pts [] f idx h⟩

theorem C11_witness_lists_nonempty_fresh (t : PT α) (hf : PT.Fresh t) : PT.StSound StWNE [] t :=
  PT.stSound_of_fresh StWNE (fun _ ws hw => by cases hw) t [] hf

/-- non-vacuity: the fresh ReLU tree satisfies the hypotheses of `C11_faults_keep_witness_lists_nonempty`, and an oracle
    that never answers `Some` satisfies `MirrorNonempty` -/
example : PT.Shaped 2 1 1 exRelu ∧ PT.StSound StWNE [] exRelu :=
  ⟨by simp [exRelu, PT.Shaped, PKids.Shaped, Aff.WF, IKids.allNone, IKids.length, Aff.outdim],
   C11_witness_lists_nonempty_fresh exRelu (by simp [exRelu, PT.Fresh, PKids.Fresh])⟩
example {σ : Type} : MirrorNonempty (α := Rat) (σ := σ) (fun s _ _ _ _ => (none, s)) := by
  intro s node poly ws k pts s' h; simp at h

end AV
