import AffVerif.Props.C03
import AffVerif.Props.C05
/-!
# C11 — pruning is fail-safe when the LP solver misbehaves

The listed faults (solver error, "unbounded", a perturbed or far-off "optimal" point) never fabricate an
`Infeasible` answer.  The theorems quantify over *every* oracle behaviour at *every* call — `lp` and `mirror`
are arbitrary state-threaded functions; the only hypothesis is that an `infeasible` answer is right
(`InfeasibleSound`), which the faults do not touch.  No fault plan has to be enumerated.
-/
set_option linter.unusedSectionVars false
set_option linter.unusedVariables false
namespace AV
variable {α : Type} [Field α] [LinearOrder α] [IsStrictOrderedRing α]

/-- a backend that misbehaves in the listed ways at arbitrary calls: it answers like `base`, except that at
    the calls selected by `faulty` it returns whatever `garbage` says — as long as that is not `infeasible` -/
def faultyOracle {σ : Type} (base : LPOracle σ α) (faulty : σ → Aff α → List α → Bool)
    (garbage : σ → Aff α → List α → LPAnswer α) : LPOracle σ α :=
  fun s p c =>
    if faulty s p c then
      (match garbage s p c with
       | .infeasible => .error      -- the fault kinds of C11 never produce `infeasible`
       | a => a, (base s p c).2)
    else base s p c

/-- faults of the listed kinds keep the one property pruning relies on -/
theorem C11_faults_keep_infeasible_sound {σ : Type} (base : LPOracle σ α) (hb : InfeasibleSound base)
    (faulty : σ → Aff α → List α → Bool) (garbage : σ → Aff α → List α → LPAnswer α) :
    InfeasibleSound (faultyOracle base faulty garbage) := by
  intro s p c h
  unfold faultyOracle at h
  by_cases hf : faulty s p c = true
  · simp only [hf, if_true] at h
    cases hg : garbage s p c <;> simp [hg] at h
  · simp only [hf, Bool.false_eq_true, if_false] at h
    exact hb s p c h

/-- `infeasible_elimination` under arbitrary solver misbehaviour: the represented function is unchanged -/
theorem C11_elim_failsafe {σ : Type} (tol : α) (base : LPOracle σ α) (hb : InfeasibleSound base)
    (faulty : σ → Aff α → List α → Bool) (garbage : σ → Aff α → List α → LPAnswer α)
    (mirror : MirrorOracle σ α) (n m : Nat) (t : PT α) (s : σ) (x : List α)
    (ht : PT.Shaped 2 n m t) (hc : PT.InfSound [] t) :
    PT.eval (infeasibleElimination tol ⟨faultyOracle base faulty garbage, mirror⟩ n t s).1 x = PT.eval t x :=
  C03_elim_sound tol _ (C11_faults_keep_infeasible_sound base hb faulty garbage) n m t s x ht hc

/-- pruned composition under arbitrary solver misbehaviour: still `g ∘ f` -/
theorem C11_compose_failsafe {σ : Type} (tol : α) (base : LPOracle σ α) (hb : InfeasibleSound base)
    (faulty : σ → Aff α → List α → Bool) (garbage : σ → Aff α → List α → LPAnswer α)
    (f g : PT α) (s : σ) (c : Nat) (x : List α) (n m p : Nat)
    (hx : x.length = n) (hf : PT.Shaped 2 n m f) (hg : PT.Shaped 2 m p g) (hc : PT.InfSound [] f) :
    PT.eval (PT.composeP Schema.compose (isEdgeFeasible tol (faultyOracle base faulty garbage)) n [] f g s c).1 x
      = (PT.eval f x).bind (PT.eval g) :=
  C03_compose_prune tol _ (C11_faults_keep_infeasible_sound base hb faulty garbage) f g s c x n m p hx hf hg hc

/-- no unsound verdict is cached: a node is marked infeasible only for an empty closed path polytope, whatever
    the oracle does elsewhere -/
theorem C11_no_unsound_infeasible {σ : Type} (tol : α) (base : LPOracle σ α) (hb : InfeasibleSound base)
    (faulty : σ → Aff α → List α → Bool) (garbage : σ → Aff α → List α → LPAnswer α) (mirror : MirrorOracle σ α)
    (s : σ) (node : Nat) (pst : NState α) (path : List (Aff α)) (hyper : Aff α) (n : Nat)
    (h : (decideNode tol ⟨faultyOracle base faulty garbage, mirror⟩ s node pst path hyper n).1.isInfeasible = true) :
    ¬ ∃ x, InPath (path ++ [hyper]) x :=
  decideNode_sound tol _ (C11_faults_keep_infeasible_sound base hb faulty garbage) s node pst path hyper n h

/-- faults never poison the caches: under arbitrary solver misbehaviour the swept tree still satisfies the whole cache
    invariant of C05 (witnesses satisfy their path conditions — a perturbed or far-off "optimal" point is re-checked with
    `contains` before it is stored —, infeasible marks are right), so a *later* fault-free operation that trusts the
    caches is sound too -/
theorem C11_faults_keep_caches {σ : Type} (tol : α) (base : LPOracle σ α) (hb : InfeasibleSound base)
    (faulty : σ → Aff α → List α → Bool) (garbage : σ → Aff α → List α → LPAnswer α)
    (mirror : MirrorOracle σ α) (hm : MirrorSound tol mirror) (n m : Nat) (t : PT α) (s : σ)
    (h : CacheOK tol n m t) :
    CacheOK tol n m (infeasibleElimination tol ⟨faultyOracle base faulty garbage, mirror⟩ n t s).1 :=
  C05_elim tol _ (C11_faults_keep_infeasible_sound base hb faulty garbage) hm n m t s h

/-- and the tree stays well formed under faults, for the pruned composition as well (no hypothesis at all) -/
theorem C11_faults_keep_shape {σ : Type} (tol : α) (lp : LPOracle σ α) (f g : PT α) (s : σ) (c : Nat) (n m p : Nat)
    (hf : PT.Shaped 2 n m f) (hg : PT.Shaped 2 m p g) :
    PT.Shaped 2 n p (PT.composeP Schema.compose (isEdgeFeasible tol lp) n [] f g s c).1 :=
  C04_compose_prune _ f g s c 2 n m p [] hf hg

end AV
