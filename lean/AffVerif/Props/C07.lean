import AffVerif.Model.Reduce
/-! # C07 (theorems added below as they are proved) -/
namespace AV
end AV
