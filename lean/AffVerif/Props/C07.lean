import AffVerif.Proofs.ArithLift
import AffVerif.Props.C03
/-!
# C07 — tree arithmetic is the point-wise lifting of affine arithmetic

`a ∘ b` for `∘ ∈ {+, −, *, /}` is `generic_composition_inplace` with the schema "decisions copied, terminals
combined as `context ∘ original`"; it always prunes.  `leafAt t x` is the terminal map reached by `x`.
No dimension hypothesis is needed for the lifting law itself: decisions of the right operand are copied unchanged.
-/
set_option linter.unusedSectionVars false
set_option linter.unusedVariables false
namespace AV
variable {α : Type} [Field α] [LinearOrder α] [IsStrictOrderedRing α]

/-- the un-pruned lifting reaches the terminal `op u v`, where `u`, `v` are the terminals reached in `a` and `b`;
    it is undefined exactly when one of the operands is -/
theorem C07_lift (op : Aff α → Aff α → Aff α) (a b : PT α) (c : Nat) (x : List α) :
    PT.eval (PT.composeS (Schema.arith op) a b c).1 x =
      (PT.leafAt a x).bind (fun u => (PT.leafAt b x).map (fun v => (op u v).apply x)) := by
  rw [PT.eval_eq_leafAt, PT.leafAt_composeS_arith]
  cases PT.leafAt a x <;> cases PT.leafAt b x <;> simp

/-- the operator the crate computes (pruning on the fly, any backend that is right about infeasibility):
    defined exactly when `a(x)` and `b(x)` are, value `(op u v)(x)` with operand order respected -/
theorem C07_lift_pruned {σ : Type} (tol : α) (lp : LPOracle σ α) (hlp : InfeasibleSound lp)
    (op : Aff α → Aff α → Aff α) (a b : PT α) (s : σ) (c : Nat) (x : List α) (n m : Nat)
    (ha : PT.Shaped 2 n m a) (hb : PT.Shaped 2 n m b) (hc : PT.InfSound [] a) :
    PT.eval (PT.composeP (Schema.arith op) (isEdgeFeasible tol lp) n [] a b s c).1 x =
      (PT.leafAt a x).bind (fun u => (PT.leafAt b x).map (fun v => (op u v).apply x)) := by
  rw [C03_arith_prune tol lp hlp op a b s c c x n m ha hb hc]
  exact C07_lift op a b c x

/-- `a + b` evaluates to `a(x) + b(x)` (terminals of equal shape) -/
theorem C07_add_pointwise (a b : PT α) (c : Nat) (x : List α)
    (hshape : ∀ u v, PT.leafAt a x = some u → PT.leafAt b x = some v → SameRows u.mat v.mat) :
    PT.eval (PT.composeS (Schema.arith Aff.add) a b c).1 x =
      (PT.eval a x).bind (fun p => (PT.eval b x).map (fun q => vadd p q)) := by
  rw [C07_lift, PT.eval_eq_leafAt a, PT.eval_eq_leafAt b]
  cases hu : PT.leafAt a x with
  | none => simp
  | some u =>
    cases hv : PT.leafAt b x with
    | none => simp
    | some v => simp [Aff.apply_add u v x (hshape u v hu hv)]

/-- `a − b` evaluates to `a(x) − b(x)` -/
theorem C07_sub_pointwise (a b : PT α) (c : Nat) (x : List α)
    (hshape : ∀ u v, PT.leafAt a x = some u → PT.leafAt b x = some v → SameRows u.mat v.mat) :
    PT.eval (PT.composeS (Schema.arith Aff.sub) a b c).1 x =
      (PT.eval a x).bind (fun p => (PT.eval b x).map (fun q => vsub p q)) := by
  rw [C07_lift, PT.eval_eq_leafAt a, PT.eval_eq_leafAt b]
  cases hu : PT.leafAt a x with
  | none => simp
  | some u =>
    cases hv : PT.leafAt b x with
    | none => simp
    | some v => simp [Aff.apply_sub u v x (hshape u v hu hv)]

/-- `−a` evaluates to `−a(x)` -/
theorem C07_neg (a : PT α) (x : List α) :
    PT.eval (PT.mapTerminals Aff.neg a) x = (PT.eval a x).map vneg :=
  PT.eval_mapTerminals Aff.neg vneg a x (fun f => Aff.apply_neg f x)

mutual
theorem PT.leafAt_mapTerminals (φ : Aff α → Aff α) (t : PT α) (x : List α) :
    PT.leafAt (PT.mapTerminals φ t) x = (PT.leafAt t x).map φ := by
  match t with
  | .node i c ks =>
    cases hl : ks.allNone with
    | true => simp [PT.mapTerminals, PT.leafAt, hl]
    | false =>
      simp only [PT.mapTerminals, PT.leafAt, hl, PKids.mapTerminals_allNone, Bool.false_eq_true, if_false]
      exact PKids.leafAtK_mapTerminals φ ks _ x
theorem PKids.leafAtK_mapTerminals (φ : Aff α → Aff α) (ks : PKids α) (l : Nat) (x : List α) :
    PKids.leafAtK (PKids.mapTerminals φ ks) l x = (PKids.leafAtK ks l x).map φ := by
  match ks, l with
  | .nil, _ => simp [PKids.mapTerminals, PKids.leafAtK]
  | .cons none r, 0 => simp [PKids.mapTerminals, PKids.leafAtK]
  | .cons (some k) r, 0 => simp only [PKids.mapTerminals, PKids.leafAtK]; exact PT.leafAt_mapTerminals φ k x
  | .cons none r, l+1 => simp only [PKids.mapTerminals, PKids.leafAtK]; exact PKids.leafAtK_mapTerminals φ r l x
  | .cons (some k) r, l+1 => simp only [PKids.mapTerminals, PKids.leafAtK]; exact PKids.leafAtK_mapTerminals φ r l x
end

/-- the mixed forms: `tree ∘ f` combines every terminal `u` to `op u f`, `f ∘ tree` to `op f u` — operand order
    is respected (`a − f ≠ f − a`) -/
theorem C07_scalar_forms (op : Aff α → Aff α → Aff α) (a : PT α) (f : Aff α) (x : List α) :
    PT.eval (PT.mapTerminals (fun u => op u f) a) x = (PT.leafAt a x).map (fun u => (op u f).apply x) ∧
    PT.eval (PT.mapTerminals (fun u => op f u) a) x = (PT.leafAt a x).map (fun u => (op f u).apply x) := by
  constructor <;>
  · rw [PT.eval_eq_leafAt, PT.leafAt_mapTerminals]
    cases PT.leafAt a x <;> simp

/-! non-vacuity: `relu + relu` at `3` and `−2` -/
example : PT.eval (PT.composeS (Schema.arith Aff.add) exRelu exRelu 10).1 [3] = some [6] := by decide +kernel
example : PT.eval (PT.composeS (Schema.arith Aff.add) exRelu exRelu 10).1 [-2] = some [0] := by decide +kernel

end AV
