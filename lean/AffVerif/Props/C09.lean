import AffVerif.Proofs.PruneSound
import AffVerif.Model.Regions
import AffVerif.Proofs.RegionMachine
/-!
# C09 — reported regions agree with evaluation

`regionsT` is the reference for what `polyhedra()` reports (the correspondence check compares the machine and the
implementation against it under every skip schedule): every node with the closed half-spaces of its path.
`routeT t x` lists the nodes the evaluation of `x` passes through, with the same path bookkeeping.
Binary trees whose decisions are well-formed one-row predicates (`ElimOK`-like hypothesis `RouteOK`).
Proved: an input satisfies the reported conditions of every node on its route; a point strictly inside the reported
region of a child is routed to that child; the stream with skips (`regionsSkipT`, what the judge compares the
implementation's stream with) reports the nodes of the C13 reference traversal once each, in pre-order, each with the
path conditions `regionsT` assigns to it, and is `regionsT` itself without skips; distinct labels of a decision have
disjoint open half-spaces; the `PolyhedraGen` machine (DfsPre + predicate stack + `parent()` look-ups) emits exactly
that stream on every tree with pairwise distinct indices (C12's invariant), for every skip schedule; the regions of
distinct terminals (`termRegions`, a sub-list of the reported regions) have pairwise disjoint interiors, and cover the
input space when no branch is missing.
-/
set_option linter.unusedSectionVars false
set_option linter.unusedVariables false
namespace AV
variable {α : Type} [Field α] [LinearOrder α] [IsStrictOrderedRing α]

mutual
/-- nodes visited by the evaluation of `x`, each with the half-spaces of its path -/
def PT.routeT : PT α → List α → List (Aff α) → List (Nat × List (Aff α))
  | .node i c ks, x, path =>
    (i, path) :: (if ks.allNone then [] else PKids.routeAt ks c.aff 0 (c.aff.label x) x path)
def PKids.routeAt : PKids α → Aff α → Nat → Nat → List α → List (Aff α) → List (Nat × List (Aff α))
  | .nil, _, _, _, _, _ => []
  | .cons none _, _, _, 0, _, _ => []
  | .cons (some t) _, a, l, 0, x, path => PT.routeT t x (path ++ [halfspace a l])
  | .cons _ r, a, l, n+1, x, path => PKids.routeAt r a (l+1) n x path
end

mutual
def PT.RouteOK : PT α → Prop
  | .node _ c ks => (ks.allNone = false → c.aff.WF ∧ c.aff.outdim ≤ 1) ∧ PKids.RouteOK ks
def PKids.RouteOK : PKids α → Prop
  | .nil => True
  | .cons none r => PKids.RouteOK r
  | .cons (some t) r => PT.RouteOK t ∧ PKids.RouteOK r
end

mutual
/-- an input satisfies the (closed) path conditions of every node it is routed through -/
theorem PT.route_inPath (t : PT α) (x : List α) (path : List (Aff α)) (hx : InPath path x) (hok : PT.RouteOK t) :
    ∀ e ∈ PT.routeT t x path, InPath e.2 x := by
  match t with
  | .node i c ks =>
    unfold PT.RouteOK at hok
    intro e he
    simp only [PT.routeT, List.mem_cons] at he
    rcases he with rfl | he
    · exact hx
    · split at he
      · simp at he
      · rename_i hall
        have hd := hok.1 (by simpa using hall)
        have hmem := mem_halfspace_label c.aff x hd.1 hd.2
        exact PKids.routeAt_inPath ks c.aff 0 (c.aff.label x) (c.aff.label x) x path hx hok.2 (by omega) hmem e he
theorem PKids.routeAt_inPath (ks : PKids α) (a : Aff α) (l n lab : Nat) (x : List α) (path : List (Aff α))
    (hx : InPath path x) (hok : PKids.RouteOK ks) (hl : lab = l + n) (hmem : Poly.Mem (halfspace a lab) x) :
    ∀ e ∈ PKids.routeAt ks a l n x path, InPath e.2 x := by
  match ks, n with
  | .nil, _ => intro e he; simp [PKids.routeAt] at he
  | .cons none r, 0 => intro e he; simp [PKids.routeAt] at he
  | .cons (some t) r, 0 =>
    unfold PKids.RouteOK at hok
    simp only [PKids.routeAt]
    have : lab = l := by omega
    subst this
    exact PT.route_inPath t x _ (hx.append (InPath.single hmem)) hok.1
  | .cons none r, n+1 =>
    unfold PKids.RouteOK at hok
    simp only [PKids.routeAt]
    exact PKids.routeAt_inPath r a (l+1) n lab x path hx hok (by omega) hmem
  | .cons (some t) r, n+1 =>
    unfold PKids.RouteOK at hok
    simp only [PKids.routeAt]
    exact PKids.routeAt_inPath r a (l+1) n lab x path hx hok.2 (by omega) hmem
end

/-- x satisfies the reported path conditions of every node on its path (`[]` at the root) -/
theorem C09_on_path_in (t : PT α) (x : List α) (hok : PT.RouteOK t) :
    ∀ e ∈ PT.routeT t x [], InPath e.2 x :=
  PT.route_inPath t x [] (by intro h hh; simp at hh) hok

mutual
/-- the route only mentions nodes with exactly the half-spaces `polyhedra()` reports for them -/
theorem PT.route_sub_regions (t : PT α) (x : List α) (path : List (Aff α)) (d r : Nat) :
    ∀ e ∈ PT.routeT t x path, e ∈ (regionsT t d r path).map (fun q => (q.1.idx, q.2)) := by
  match t with
  | .node i c ks =>
    intro e he
    simp only [PT.routeT, List.mem_cons] at he
    simp only [regionsT, List.map_cons, List.mem_cons]
    rcases he with rfl | he
    · left; rfl
    · right
      split at he
      · simp at he
      · exact PKids.routeAt_sub_regions ks c.aff 0 _ x path (d+1) e he
theorem PKids.routeAt_sub_regions (ks : PKids α) (a : Aff α) (l n : Nat) (x : List α) (path : List (Aff α)) (d : Nat) :
    ∀ e ∈ PKids.routeAt ks a l n x path, e ∈ (regionsK ks a l d path).map (fun q => (q.1.idx, q.2)) := by
  match ks, n with
  | .nil, _ => intro e he; simp [PKids.routeAt] at he
  | .cons none r, 0 => intro e he; simp [PKids.routeAt] at he
  | .cons (some t) r, 0 =>
    intro e he
    simp only [PKids.routeAt] at he
    simp only [regionsK, List.map_append, List.mem_append]
    left
    exact PT.route_sub_regions t x _ d r.count e he
  | .cons none r, n+1 =>
    intro e he
    simp only [PKids.routeAt] at he
    simp only [regionsK]
    exact PKids.routeAt_sub_regions r a (l+1) n x path d e he
  | .cons (some t) r, n+1 =>
    intro e he
    simp only [PKids.routeAt] at he
    simp only [regionsK, List.map_append, List.mem_append]
    right
    exact PKids.routeAt_sub_regions r a (l+1) n x path d e he
end

/-- every node on the route of `x` is one of the reported nodes, with exactly the reported path conditions -/
theorem C09_route_regions (t : PT α) (x : List α) :
    ∀ e ∈ PT.routeT t x [], e ∈ (regionsT t 0 0 []).map (fun q => (q.1.idx, q.2)) :=
  PT.route_sub_regions t x [] 0 0

/-- a point strictly inside the half-space reported for the edge with label `l` takes that edge -/
theorem C09_interior_routed (d : Aff α) (x : List α) (l : Nat) (hl : l = 0 ∨ l = 1) (hwf : d.WF) (hrows : d.outdim = 1)
    (hstrict : ∀ rb ∈ (halfspace d l).rows, dot rb.1 x < rb.2) : d.label x = l := by
  obtain ⟨hw1, hw2⟩ := hwf
  unfold Aff.outdim at hrows
  match hm : d.mat, hb : d.bias with
  | [r], [b] =>
    unfold Aff.label
    rw [hm, hb]
    simp only [labelBits]
    rcases hl with rfl | rfl
    · have := hstrict (vneg r, -b) (by simp [halfspace, Aff.rows, hm, hb, matNeg, vneg])
      simp only [dot_vneg_left] at this
      have hc : ¬ (dot r x - b ≤ 0) := by intro h; linarith
      simp [hc]
    · have := hstrict (r, b) (by simp [halfspace, Aff.rows, hm, hb])
      have hc : dot r x - b ≤ 0 := by linarith
      simp [hc]
  | [], _ => simp [hm] at hrows
  | [r], [] => simp [hm, hb] at hw2
  | [r], _ :: _ :: _ => simp [hm, hb] at hw2
  | _ :: _ :: _, _ => simp [hm] at hrows

/-! ### the stream with skips -/

mutual
/-- nodes are reported once each, in pre-order, with the skipped sub-trees omitted: the items of the region stream
    are the items of the reference traversal of C13 under the same skip schedule -/
theorem regionsSkipT_items (sk : Nat → Nat) (t : PT α) (d r : Nat) (path : List (Aff α)) (k : Nat) :
    (regionsSkipT sk t d r path k).1.map (·.1) = (refDfsT sk d t r k).1 ∧
    (regionsSkipT sk t d r path k).2 = (refDfsT sk d t r k).2 := by
  match t with
  | .node i c ks =>
    simp only [regionsSkipT, refDfsT]
    split
    · simp
    · obtain ⟨h1, h2⟩ := regionsSkipK_items sk ks c.aff 0 (d+1) path (k+1)
      simp [h1, h2]
theorem regionsSkipK_items (sk : Nat → Nat) (ks : PKids α) (a : Aff α) (l d : Nat) (path : List (Aff α)) (k : Nat) :
    (regionsSkipK sk ks a l d path k).1.map (·.1) = (refDfsK sk d ks k).1 ∧
    (regionsSkipK sk ks a l d path k).2 = (refDfsK sk d ks k).2 := by
  match ks with
  | .nil => simp [regionsSkipK, refDfsK]
  | .cons none rest =>
    simp only [regionsSkipK, refDfsK]
    exact regionsSkipK_items sk rest a (l+1) d path k
  | .cons (some t) rest =>
    simp only [regionsSkipK, refDfsK]
    obtain ⟨h1, h2⟩ := regionsSkipT_items sk t d rest.count (path ++ [halfspace a l]) k
    rw [h2]
    obtain ⟨h3, h4⟩ := regionsSkipK_items sk rest a (l+1) d path (refDfsT sk d t rest.count k).2
    simp [h1, h3, h4]
end

theorem C09_skip_stream_items (sk : Nat → Nat) (t : PT α) :
    (regionsSkipT sk t 0 0 [] 0).1.map (·.1) = (refDfsT sk 0 t 0 0).1 :=
  (regionsSkipT_items sk t 0 0 [] 0).1

mutual
/-- skipping never changes what is reported for a node: every reported (item, path conditions) pair is the pair the
    skip-free reference reports -/
theorem regionsSkipT_sub (sk : Nat → Nat) (t : PT α) (d r : Nat) (path : List (Aff α)) (k : Nat) :
    ∀ e ∈ (regionsSkipT sk t d r path k).1, e ∈ regionsT t d r path := by
  match t with
  | .node i c ks =>
    intro e he
    simp only [regionsSkipT] at he
    simp only [regionsT, List.mem_cons]
    split at he
    · simp only [List.mem_singleton] at he; exact Or.inl he
    · simp only [List.mem_cons] at he
      rcases he with h | h
      · exact Or.inl h
      · exact Or.inr (regionsSkipK_sub sk ks c.aff 0 (d+1) path (k+1) e h)
theorem regionsSkipK_sub (sk : Nat → Nat) (ks : PKids α) (a : Aff α) (l d : Nat) (path : List (Aff α)) (k : Nat) :
    ∀ e ∈ (regionsSkipK sk ks a l d path k).1, e ∈ regionsK ks a l d path := by
  match ks with
  | .nil => simp [regionsSkipK]
  | .cons none rest => simp only [regionsSkipK, regionsK]; exact regionsSkipK_sub sk rest a (l+1) d path k
  | .cons (some t) rest =>
    intro e he
    simp only [regionsSkipK, List.mem_append] at he
    simp only [regionsK, List.mem_append]
    rcases he with h | h
    · exact Or.inl (regionsSkipT_sub sk t d rest.count _ k e h)
    · exact Or.inr (regionsSkipK_sub sk rest a (l+1) d path _ e h)
end

theorem C09_skip_stream_regions (sk : Nat → Nat) (t : PT α) :
    ∀ e ∈ (regionsSkipT sk t 0 0 [] 0).1, e ∈ regionsT t 0 0 [] :=
  regionsSkipT_sub sk t 0 0 [] 0

mutual
theorem regionsSkipT_noskip (t : PT α) (d r : Nat) (path : List (Aff α)) (k : Nat) :
    (regionsSkipT (fun _ => 0) t d r path k).1 = regionsT t d r path := by
  match t with
  | .node i c ks =>
    simp only [regionsSkipT, regionsT, ne_eq, not_true_eq_false, if_false]
    rw [regionsSkipK_noskip ks c.aff 0 (d+1) path (k+1)]
theorem regionsSkipK_noskip (ks : PKids α) (a : Aff α) (l d : Nat) (path : List (Aff α)) (k : Nat) :
    (regionsSkipK (fun _ => 0) ks a l d path k).1 = regionsK ks a l d path := by
  match ks with
  | .nil => simp [regionsSkipK, regionsK]
  | .cons none rest => simp only [regionsSkipK, regionsK]; exact regionsSkipK_noskip rest a (l+1) d path k
  | .cons (some t) rest =>
    simp only [regionsSkipK, regionsK]
    rw [regionsSkipT_noskip t d rest.count _ k, regionsSkipK_noskip rest a (l+1) d path _]
end

/-- without skips the stream is the reference `regionsT`: every node of the tree, once, in pre-order -/
theorem C09_noskip_stream (t : PT α) : (regionsSkipT (fun _ => 0) t 0 0 [] 0).1 = regionsT t 0 0 [] :=
  regionsSkipT_noskip t 0 0 [] 0

/-- the two branches of a decision have disjoint open regions: no point is strictly inside both half-spaces -/
theorem C09_sibling_interiors_disjoint (d : Aff α) (x : List α) (hwf : d.WF) (hrows : d.outdim = 1)
    (h0 : ∀ rb ∈ (halfspace d 0).rows, dot rb.1 x < rb.2) (h1 : ∀ rb ∈ (halfspace d 1).rows, dot rb.1 x < rb.2) :
    False := by
  have e0 := C09_interior_routed d x 0 (Or.inl rfl) hwf hrows h0
  have e1 := C09_interior_routed d x 1 (Or.inr rfl) hwf hrows h1
  omega

/-- the `PolyhedraGen` machine — `DfsPre`, the stack of half-spaces cut back to the next node's depth, the half-space
    of the parent edge found by `parent()` — reports exactly the reference stream, under every skip schedule (repeated
    skips included), on every tree whose arena indices are pairwise distinct -/
theorem C09_machine_run (whole : PT α) (hnd : whole.indices.Nodup) (sk : Nat → Nat) :
    PGen.run whole sk whole.size (PGen.new whole) 0 = (regionsSkipT sk whole 0 0 [] 0).1 := by
  have hinv : RInv whole [] 0 [(0, whole, 0, [])] := by
    refine ⟨rfl, by simp, ?_⟩
    intro e he
    simp only [List.mem_singleton] at he
    subst he
    refine ⟨⟨none, ITree.subs_head whole none⟩, fun _ => ⟨rfl, ITree.parentOf?_root whole hnd⟩, fun d' hd' => by simp at hd'⟩
  have := pgen_run_eq_ref whole hnd sk whole.size [(0, whole, 0, [])] [] 0 0
    (if whole.idx = whole.idx then whole.size else 0) whole.size 0 hinv (by simp [RStack.erase, stackSize])
  simpa [PGen.new, Dfs.new, RStack.erase, refRegStack] using this

/-! ### regions of the terminals: cover and disjoint interiors -/

mutual
/-- the terminals of a tree, left to right, each with the half-spaces of its path: the sub-list of `regionsT` -/
def PT.termRegions : PT α → List (Aff α) → List (Nat × List (Aff α))
  | .node i c ks, path => if ks.allNone then [(i, path)] else PKids.termRegions ks c.aff 0 path
def PKids.termRegions : PKids α → Aff α → Nat → List (Aff α) → List (Nat × List (Aff α))
  | .nil, _, _, _ => []
  | .cons none r, a, l, path => PKids.termRegions r a (l+1) path
  | .cons (some t) r, a, l, path => PT.termRegions t (path ++ [halfspace a l]) ++ PKids.termRegions r a (l+1) path
end

mutual
theorem PT.termRegions_sub (t : PT α) (path : List (Aff α)) (d r : Nat) :
    ∀ e ∈ PT.termRegions t path, e ∈ (regionsT t d r path).map (fun q => (q.1.idx, q.2)) := by
  match t with
  | .node i c ks =>
    intro e he
    simp only [PT.termRegions] at he
    simp only [regionsT, List.map_cons, List.mem_cons]
    split at he
    · simp only [List.mem_singleton] at he; left; exact he
    · right; exact PKids.termRegions_sub ks c.aff 0 path (d+1) e he
theorem PKids.termRegions_sub (ks : PKids α) (a : Aff α) (l : Nat) (path : List (Aff α)) (d : Nat) :
    ∀ e ∈ PKids.termRegions ks a l path, e ∈ (regionsK ks a l d path).map (fun q => (q.1.idx, q.2)) := by
  match ks with
  | .nil => intro e he; simp [PKids.termRegions] at he
  | .cons none r =>
    intro e he
    simp only [PKids.termRegions] at he
    simp only [regionsK]
    exact PKids.termRegions_sub r a (l+1) path d e he
  | .cons (some t) r =>
    intro e he
    simp only [PKids.termRegions, List.mem_append] at he
    simp only [regionsK, List.map_append, List.mem_append]
    rcases he with he | he
    · left; exact PT.termRegions_sub t _ d r.count e he
    · right; exact PKids.termRegions_sub r a (l+1) path d e he
end

mutual
/-- binary trees with one-row decisions (what `polyhedra()` supports) -/
def PT.Bin : PT α → Prop
  | .node _ c ks => (ks.allNone = false → c.aff.WF ∧ c.aff.outdim = 1 ∧ ks.length = 2) ∧ PKids.Bin ks
def PKids.Bin : PKids α → Prop
  | .nil => True
  | .cons none r => PKids.Bin r
  | .cons (some t) r => PT.Bin t ∧ PKids.Bin r
end

mutual
/-- no missing branches -/
def PT.NoMissing : PT α → Prop
  | .node _ _ ks => ks.allNone = true ∨ PKids.NoMissing ks
def PKids.NoMissing : PKids α → Prop
  | .nil => True
  | .cons none _ => False
  | .cons (some t) r => PT.NoMissing t ∧ PKids.NoMissing r
end

/-- strictly inside every reported half-space -/
def StrictIn (path : List (Aff α)) (x : List α) : Prop := ∀ h ∈ path, ∀ rb ∈ h.rows, dot rb.1 x < rb.2

theorem label_lt_two (d : Aff α) (x : List α) (hrows : d.outdim = 1) : d.label x < 2 := by
  unfold Aff.outdim at hrows
  unfold Aff.label
  match hm : d.mat, d.bias with
  | [r], b :: bs => simp only [labelBits]; split <;> simp
  | [r], [] => simp [labelBits]
  | [], _ => simp [hm] at hrows
  | _ :: _ :: _, _ => simp [hm] at hrows

mutual
theorem PT.cover (t : PT α) (x : List α) (path : List (Aff α)) (hx : InPath path x) (hb : PT.Bin t)
    (hf : PT.NoMissing t) : ∃ e ∈ PT.termRegions t path, InPath e.2 x := by
  match t with
  | .node i c ks =>
    unfold PT.Bin at hb
    unfold PT.NoMissing at hf
    simp only [PT.termRegions]
    by_cases hall : ks.allNone = true
    · simp only [hall, if_true]
      exact ⟨_, List.mem_singleton.mpr rfl, hx⟩
    · have hall' : ks.allNone = false := by simpa using hall
      simp only [hall', Bool.false_eq_true, if_false]
      obtain ⟨hwf, hrows, hlen⟩ := hb.1 hall'
      have hmem := mem_halfspace_label c.aff x hwf (by omega)
      have hlt := label_lt_two c.aff x hrows
      have hfk : PKids.NoMissing ks := by
        rcases hf with hf | hf
        · simp [hf] at hall
        · exact hf
      exact PKids.coverAt ks c.aff 0 (c.aff.label x) x path hx (by simpa using hmem) hb.2 hfk (by omega)
theorem PKids.coverAt (ks : PKids α) (a : Aff α) (l n : Nat) (x : List α) (path : List (Aff α))
    (hx : InPath path x) (hmem : Poly.Mem (halfspace a (l+n)) x) (hb : PKids.Bin ks) (hf : PKids.NoMissing ks)
    (hlen : n < ks.length) : ∃ e ∈ PKids.termRegions ks a l path, InPath e.2 x := by
  match ks, n with
  | .nil, _ => simp [IKids.length] at hlen
  | .cons none r, _ => simp [PKids.NoMissing] at hf
  | .cons (some t) r, 0 =>
    unfold PKids.Bin at hb
    unfold PKids.NoMissing at hf
    obtain ⟨e, he, hin⟩ := PT.cover t x (path ++ [halfspace a l]) (hx.append (InPath.single (by simpa using hmem))) hb.1 hf.1
    exact ⟨e, by simp only [PKids.termRegions, List.mem_append]; left; exact he, hin⟩
  | .cons (some t) r, n+1 =>
    unfold PKids.Bin at hb
    unfold PKids.NoMissing at hf
    obtain ⟨e, he, hin⟩ := PKids.coverAt r a (l+1) n x path hx (by rw [show l + 1 + n = l + (n+1) by omega]; exact hmem) hb.2 hf.2
      (by simp only [IKids.length] at hlen; omega)
    exact ⟨e, by simp only [PKids.termRegions, List.mem_append]; right; exact he, hin⟩
end


theorem StrictIn.of_prefix {p q : List (Aff α)} {x : List α} (h : StrictIn q x) (hp : p <+: q) : StrictIn p x := by
  obtain ⟨r, rfl⟩ := hp
  intro a ha
  exact h a (List.mem_append.mpr (Or.inl ha))

mutual
theorem PT.term_prefix (t : PT α) (path : List (Aff α)) : ∀ e ∈ PT.termRegions t path, path <+: e.2 := by
  match t with
  | .node i c ks =>
    intro e he
    simp only [PT.termRegions] at he
    split at he
    · simp only [List.mem_singleton] at he; subst he; exact List.prefix_refl _
    · obtain ⟨l', _, _, hp⟩ := PKids.term_prefix ks c.aff 0 path e he
      exact List.IsPrefix.trans (List.prefix_append _ _) hp
theorem PKids.term_prefix (ks : PKids α) (a : Aff α) (l : Nat) (path : List (Aff α)) :
    ∀ e ∈ PKids.termRegions ks a l path, ∃ l', l ≤ l' ∧ l' < l + ks.length ∧ (path ++ [halfspace a l']) <+: e.2 := by
  match ks with
  | .nil => intro e he; simp [PKids.termRegions] at he
  | .cons none r =>
    intro e he
    simp only [PKids.termRegions] at he
    obtain ⟨l', h1, h2, h3⟩ := PKids.term_prefix r a (l+1) path e he
    exact ⟨l', by omega, by simp only [IKids.length]; omega, h3⟩
  | .cons (some t) r =>
    intro e he
    simp only [PKids.termRegions, List.mem_append] at he
    rcases he with he | he
    · exact ⟨l, le_refl _, by simp only [IKids.length]; omega, PT.term_prefix t _ e he⟩
    · obtain ⟨l', h1, h2, h3⟩ := PKids.term_prefix r a (l+1) path e he
      exact ⟨l', by omega, by simp only [IKids.length]; omega, h3⟩
end

/-- two terminals behind different labels of a one-row decision have disjoint open regions -/
theorem strict_labels_disjoint (a : Aff α) (hwf : a.WF) (hrows : a.outdim = 1) (path : List (Aff α)) (l l' : Nat)
    (hl : l < l') (hl' : l' < 2) (p q : List (Aff α)) (x : List α)
    (hp : (path ++ [halfspace a l]) <+: p) (hq : (path ++ [halfspace a l']) <+: q)
    (sp : StrictIn p x) (sq : StrictIn q x) : False := by
  have hl0 : l = 0 := by omega
  have hl1 : l' = 1 := by omega
  subst hl0; subst hl1
  have s0 := (sp.of_prefix hp) (halfspace a 0) (by simp)
  have s1 := (sq.of_prefix hq) (halfspace a 1) (by simp)
  exact C09_sibling_interiors_disjoint a x hwf hrows s0 s1

mutual
theorem PT.term_pairwise (t : PT α) (path : List (Aff α)) (hb : PT.Bin t) :
    (PT.termRegions t path).Pairwise (fun e f => ∀ x, StrictIn e.2 x → StrictIn f.2 x → False) := by
  match t with
  | .node i c ks =>
    unfold PT.Bin at hb
    simp only [PT.termRegions]
    by_cases hall : ks.allNone = true
    · simp [hall]
    · have hall' : ks.allNone = false := by simpa using hall
      simp only [hall', Bool.false_eq_true, if_false]
      obtain ⟨hwf, hrows, hlen⟩ := hb.1 hall'
      exact PKids.term_pairwise ks c.aff 0 path hwf hrows (by omega) hb.2
theorem PKids.term_pairwise (ks : PKids α) (a : Aff α) (l : Nat) (path : List (Aff α)) (hwf : a.WF)
    (hrows : a.outdim = 1) (hl : l + ks.length ≤ 2) (hb : PKids.Bin ks) :
    (PKids.termRegions ks a l path).Pairwise (fun e f => ∀ x, StrictIn e.2 x → StrictIn f.2 x → False) := by
  match ks with
  | .nil => simp [PKids.termRegions]
  | .cons none r =>
    unfold PKids.Bin at hb
    simp only [PKids.termRegions]
    exact PKids.term_pairwise r a (l+1) path hwf hrows (by simp only [IKids.length] at hl; omega) hb
  | .cons (some t) r =>
    unfold PKids.Bin at hb
    simp only [PKids.termRegions]
    rw [List.pairwise_append]
    refine ⟨PT.term_pairwise t _ hb.1,
      PKids.term_pairwise r a (l+1) path hwf hrows (by simp only [IKids.length] at hl; omega) hb.2, ?_⟩
    intro e he f hf x se sf
    have hp := PT.term_prefix t _ e he
    obtain ⟨l', h1, h2, hq⟩ := PKids.term_prefix r a (l+1) path f hf
    simp only [IKids.length] at hl
    exact strict_labels_disjoint a hwf hrows path l l' (by omega) (by omega) e.2 f.2 x hp hq se sf
end

/-- every terminal region is one of the regions `polyhedra()` reports, with exactly those path conditions -/
theorem C09_terminals_reported (t : PT α) :
    ∀ e ∈ PT.termRegions t [], e ∈ (regionsT t 0 0 []).map (fun q => (q.1.idx, q.2)) :=
  PT.termRegions_sub t [] 0 0

/-- trees without missing branches: the (closed) regions of the terminals cover the whole input space -/
theorem C09_terminals_cover (t : PT α) (hb : PT.Bin t) (hf : PT.NoMissing t) (x : List α) :
    ∃ e ∈ PT.termRegions t [], InPath e.2 x :=
  PT.cover t x [] (by intro h hh; simp at hh) hb hf

/-- the regions of distinct terminals have disjoint interiors: no point is strictly inside the reported path
    polytopes of two different terminals (partial trees included) -/
theorem C09_terminal_interiors_disjoint (t : PT α) (hb : PT.Bin t) :
    (PT.termRegions t []).Pairwise (fun e f => ∀ x, StrictIn e.2 x → StrictIn f.2 x → False) :=
  PT.term_pairwise t [] hb

/-- non-vacuity: `x ≤ 0 ? (y ≤ 1 ? · : ·) : ·` is binary, has no missing branch and three terminals -/
def exCover : PT Rat :=
  .node 0 ⟨⟨[[1, 0]], [0], 2⟩, .indeterminate⟩
    (.cons (some (.node 1 ⟨⟨[[1, 0], [0, 1]], [0, 0], 2⟩, .indeterminate⟩ (.cons none (.cons none .nil))))
      (.cons (some (.node 2 ⟨⟨[[0, 1]], [1], 2⟩, .indeterminate⟩
        (.cons (some (.node 3 ⟨⟨[[1, 0], [0, 1]], [0, 0], 2⟩, .indeterminate⟩ (.cons none (.cons none .nil))))
          (.cons (some (.node 4 ⟨⟨[[1, 0], [0, 1]], [0, 0], 2⟩, .indeterminate⟩ (.cons none (.cons none .nil)))) .nil)))) .nil))

example : PT.Bin exCover ∧ PT.NoMissing exCover ∧ (PT.termRegions exCover []).length = 3 := by
  refine ⟨?_, ?_, by decide +kernel⟩
  · simp [exCover, PT.Bin, PKids.Bin, IKids.allNone, Aff.WF, Aff.outdim, IKids.length]
  · simp [exCover, PT.NoMissing, PKids.NoMissing, IKids.allNone]

end AV
