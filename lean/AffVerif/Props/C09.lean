import AffVerif.Proofs.PruneSound
import AffVerif.Model.Regions
/-!
# C09 — reported regions agree with evaluation

`regionsT` is the reference for what `polyhedra()` reports (the correspondence check compares the machine and the
implementation against it under every skip schedule): every node with the closed half-spaces of its path.
`routeT t x` lists the nodes the evaluation of `x` passes through, with the same path bookkeeping.
Binary trees whose decisions are well-formed one-row predicates (`ElimOK`-like hypothesis `RouteOK`).
Proved: an input satisfies the reported conditions of every node on its route; a point strictly inside the reported
region of a child is routed to that child.  Open: the machine refinement (`PolyhedraGen` = `regionsT` under skips),
disjointness and cover as theorems (decided exactly per generated tree by the judge).
-/
set_option linter.unusedSectionVars false
set_option linter.unusedVariables false
namespace AV
variable {α : Type} [Field α] [LinearOrder α] [IsStrictOrderedRing α]

mutual
/-- nodes visited by the evaluation of `x`, each with the half-spaces of its path -/
def PT.routeT : PT α → List α → List (Aff α) → List (Nat × List (Aff α))
  | .node i c ks, x, path =>
    (i, path) :: (if ks.allNone then [] else PKids.routeAt ks c.aff 0 (c.aff.label x) x path)
def PKids.routeAt : PKids α → Aff α → Nat → Nat → List α → List (Aff α) → List (Nat × List (Aff α))
  | .nil, _, _, _, _, _ => []
  | .cons none _, _, _, 0, _, _ => []
  | .cons (some t) _, a, l, 0, x, path => PT.routeT t x (path ++ [halfspace a l])
  | .cons _ r, a, l, n+1, x, path => PKids.routeAt r a (l+1) n x path
end

mutual
def PT.RouteOK : PT α → Prop
  | .node _ c ks => (ks.allNone = false → c.aff.WF ∧ c.aff.outdim ≤ 1) ∧ PKids.RouteOK ks
def PKids.RouteOK : PKids α → Prop
  | .nil => True
  | .cons none r => PKids.RouteOK r
  | .cons (some t) r => PT.RouteOK t ∧ PKids.RouteOK r
end

mutual
/-- an input satisfies the (closed) path conditions of every node it is routed through -/
theorem PT.route_inPath (t : PT α) (x : List α) (path : List (Aff α)) (hx : InPath path x) (hok : PT.RouteOK t) :
    ∀ e ∈ PT.routeT t x path, InPath e.2 x := by
  match t with
  | .node i c ks =>
    unfold PT.RouteOK at hok
    intro e he
    simp only [PT.routeT, List.mem_cons] at he
    rcases he with rfl | he
    · exact hx
    · split at he
      · simp at he
      · rename_i hall
        have hd := hok.1 (by simpa using hall)
        have hmem := mem_halfspace_label c.aff x hd.1 hd.2
        exact PKids.routeAt_inPath ks c.aff 0 (c.aff.label x) (c.aff.label x) x path hx hok.2 (by omega) hmem e he
theorem PKids.routeAt_inPath (ks : PKids α) (a : Aff α) (l n lab : Nat) (x : List α) (path : List (Aff α))
    (hx : InPath path x) (hok : PKids.RouteOK ks) (hl : lab = l + n) (hmem : Poly.Mem (halfspace a lab) x) :
    ∀ e ∈ PKids.routeAt ks a l n x path, InPath e.2 x := by
  match ks, n with
  | .nil, _ => intro e he; simp [PKids.routeAt] at he
  | .cons none r, 0 => intro e he; simp [PKids.routeAt] at he
  | .cons (some t) r, 0 =>
    unfold PKids.RouteOK at hok
    simp only [PKids.routeAt]
    have : lab = l := by omega
    subst this
    exact PT.route_inPath t x _ (hx.append (InPath.single hmem)) hok.1
  | .cons none r, n+1 =>
    unfold PKids.RouteOK at hok
    simp only [PKids.routeAt]
    exact PKids.routeAt_inPath r a (l+1) n lab x path hx hok (by omega) hmem
  | .cons (some t) r, n+1 =>
    unfold PKids.RouteOK at hok
    simp only [PKids.routeAt]
    exact PKids.routeAt_inPath r a (l+1) n lab x path hx hok.2 (by omega) hmem
end

/-- x satisfies the reported path conditions of every node on its path (`[]` at the root) -/
theorem C09_on_path_in (t : PT α) (x : List α) (hok : PT.RouteOK t) :
    ∀ e ∈ PT.routeT t x [], InPath e.2 x :=
  PT.route_inPath t x [] (by intro h hh; simp at hh) hok

mutual
/-- the route only mentions nodes with exactly the half-spaces `polyhedra()` reports for them -/
theorem PT.route_sub_regions (t : PT α) (x : List α) (path : List (Aff α)) (d r : Nat) :
    ∀ e ∈ PT.routeT t x path, e ∈ (regionsT t d r path).map (fun q => (q.1.idx, q.2)) := by
  match t with
  | .node i c ks =>
    intro e he
    simp only [PT.routeT, List.mem_cons] at he
    simp only [regionsT, List.map_cons, List.mem_cons]
    rcases he with rfl | he
    · left; rfl
    · right
      split at he
      · simp at he
      · exact PKids.routeAt_sub_regions ks c.aff 0 _ x path (d+1) e he
theorem PKids.routeAt_sub_regions (ks : PKids α) (a : Aff α) (l n : Nat) (x : List α) (path : List (Aff α)) (d : Nat) :
    ∀ e ∈ PKids.routeAt ks a l n x path, e ∈ (regionsK ks a l d path).map (fun q => (q.1.idx, q.2)) := by
  match ks, n with
  | .nil, _ => intro e he; simp [PKids.routeAt] at he
  | .cons none r, 0 => intro e he; simp [PKids.routeAt] at he
  | .cons (some t) r, 0 =>
    intro e he
    simp only [PKids.routeAt] at he
    simp only [regionsK, List.map_append, List.mem_append]
    left
    exact PT.route_sub_regions t x _ d r.count e he
  | .cons none r, n+1 =>
    intro e he
    simp only [PKids.routeAt] at he
    simp only [regionsK]
    exact PKids.routeAt_sub_regions r a (l+1) n x path d e he
  | .cons (some t) r, n+1 =>
    intro e he
    simp only [PKids.routeAt] at he
    simp only [regionsK, List.map_append, List.mem_append]
    right
    exact PKids.routeAt_sub_regions r a (l+1) n x path d e he
end

/-- every node on the route of `x` is one of the reported nodes, with exactly the reported path conditions -/
theorem C09_route_regions (t : PT α) (x : List α) :
    ∀ e ∈ PT.routeT t x [], e ∈ (regionsT t 0 0 []).map (fun q => (q.1.idx, q.2)) :=
  PT.route_sub_regions t x [] 0 0

/-- a point strictly inside the half-space reported for the edge with label `l` takes that edge -/
theorem C09_interior_routed (d : Aff α) (x : List α) (l : Nat) (hl : l = 0 ∨ l = 1) (hwf : d.WF) (hrows : d.outdim = 1)
    (hstrict : ∀ rb ∈ (halfspace d l).rows, dot rb.1 x < rb.2) : d.label x = l := by
  obtain ⟨hw1, hw2⟩ := hwf
  unfold Aff.outdim at hrows
  match hm : d.mat, hb : d.bias with
  | [r], [b] =>
    unfold Aff.label
    rw [hm, hb]
    simp only [labelBits]
    rcases hl with rfl | rfl
    · have := hstrict (vneg r, -b) (by simp [halfspace, Aff.rows, hm, hb, matNeg, vneg])
      simp only [dot_vneg_left] at this
      have hc : ¬ (dot r x - b ≤ 0) := by intro h; linarith
      simp [hc]
    · have := hstrict (r, b) (by simp [halfspace, Aff.rows, hm, hb])
      have hc : dot r x - b ≤ 0 := by linarith
      simp [hc]
  | [], _ => simp [hm] at hrows
  | [r], [] => simp [hm, hb] at hw2
  | [r], _ :: _ :: _ => simp [hm, hb] at hw2
  | _ :: _ :: _, _ => simp [hm] at hrows

end AV
