import AffVerif.Model.Regions
/-! # C09 (theorems added below as they are proved) -/
namespace AV
end AV
