import AffVerif.Proofs.PruneSound
import AffVerif.Model.Regions
/-!
# C09 — reported regions agree with evaluation

`regionsT` is the reference for what `polyhedra()` reports (the correspondence check compares the machine and the
implementation against it under every skip schedule): every node with the closed half-spaces of its path.
`routeT t x` lists the nodes the evaluation of `x` passes through, with the same path bookkeeping.
Binary trees whose decisions are well-formed one-row predicates (`ElimOK`-like hypothesis `RouteOK`).
Proved: an input satisfies the reported conditions of every node on its route; a point strictly inside the reported
region of a child is routed to that child; the stream with skips (`regionsSkipT`, what the judge compares the
implementation's stream with) reports the nodes of the C13 reference traversal once each, in pre-order, each with the
path conditions `regionsT` assigns to it, and is `regionsT` itself without skips; distinct labels of a decision have
disjoint open half-spaces.  Open: the machine refinement (`PolyhedraGen` machine = `regionsSkipT`; the judge compares
the implementation with both), disjointness of whole terminal regions and cover as theorems (decided exactly per
generated tree by the judge).
-/
set_option linter.unusedSectionVars false
set_option linter.unusedVariables false
namespace AV
variable {α : Type} [Field α] [LinearOrder α] [IsStrictOrderedRing α]

mutual
/-- nodes visited by the evaluation of `x`, each with the half-spaces of its path -/
def PT.routeT : PT α → List α → List (Aff α) → List (Nat × List (Aff α))
  | .node i c ks, x, path =>
    (i, path) :: (if ks.allNone then [] else PKids.routeAt ks c.aff 0 (c.aff.label x) x path)
def PKids.routeAt : PKids α → Aff α → Nat → Nat → List α → List (Aff α) → List (Nat × List (Aff α))
  | .nil, _, _, _, _, _ => []
  | .cons none _, _, _, 0, _, _ => []
  | .cons (some t) _, a, l, 0, x, path => PT.routeT t x (path ++ [halfspace a l])
  | .cons _ r, a, l, n+1, x, path => PKids.routeAt r a (l+1) n x path
end

mutual
def PT.RouteOK : PT α → Prop
  | .node _ c ks => (ks.allNone = false → c.aff.WF ∧ c.aff.outdim ≤ 1) ∧ PKids.RouteOK ks
def PKids.RouteOK : PKids α → Prop
  | .nil => True
  | .cons none r => PKids.RouteOK r
  | .cons (some t) r => PT.RouteOK t ∧ PKids.RouteOK r
end

mutual
/-- an input satisfies the (closed) path conditions of every node it is routed through -/
theorem PT.route_inPath (t : PT α) (x : List α) (path : List (Aff α)) (hx : InPath path x) (hok : PT.RouteOK t) :
    ∀ e ∈ PT.routeT t x path, InPath e.2 x := by
  match t with
  | .node i c ks =>
    unfold PT.RouteOK at hok
    intro e he
    simp only [PT.routeT, List.mem_cons] at he
    rcases he with rfl | he
    · exact hx
    · split at he
      · simp at he
      · rename_i hall
        have hd := hok.1 (by simpa using hall)
        have hmem := mem_halfspace_label c.aff x hd.1 hd.2
        exact PKids.routeAt_inPath ks c.aff 0 (c.aff.label x) (c.aff.label x) x path hx hok.2 (by omega) hmem e he
theorem PKids.routeAt_inPath (ks : PKids α) (a : Aff α) (l n lab : Nat) (x : List α) (path : List (Aff α))
    (hx : InPath path x) (hok : PKids.RouteOK ks) (hl : lab = l + n) (hmem : Poly.Mem (halfspace a lab) x) :
    ∀ e ∈ PKids.routeAt ks a l n x path, InPath e.2 x := by
  match ks, n with
  | .nil, _ => intro e he; simp [PKids.routeAt] at he
  | .cons none r, 0 => intro e he; simp [PKids.routeAt] at he
  | .cons (some t) r, 0 =>
    unfold PKids.RouteOK at hok
    simp only [PKids.routeAt]
    have : lab = l := by omega
    subst this
    exact PT.route_inPath t x _ (hx.append (InPath.single hmem)) hok.1
  | .cons none r, n+1 =>
    unfold PKids.RouteOK at hok
    simp only [PKids.routeAt]
    exact PKids.routeAt_inPath r a (l+1) n lab x path hx hok (by omega) hmem
  | .cons (some t) r, n+1 =>
    unfold PKids.RouteOK at hok
    simp only [PKids.routeAt]
    exact PKids.routeAt_inPath r a (l+1) n lab x path hx hok.2 (by omega) hmem
end

/-- x satisfies the reported path conditions of every node on its path (`[]` at the root) -/
theorem C09_on_path_in (t : PT α) (x : List α) (hok : PT.RouteOK t) :
    ∀ e ∈ PT.routeT t x [], InPath e.2 x :=
  PT.route_inPath t x [] (by intro h hh; simp at hh) hok

mutual
/-- the route only mentions nodes with exactly the half-spaces `polyhedra()` reports for them -/
theorem PT.route_sub_regions (t : PT α) (x : List α) (path : List (Aff α)) (d r : Nat) :
    ∀ e ∈ PT.routeT t x path, e ∈ (regionsT t d r path).map (fun q => (q.1.idx, q.2)) := by
  match t with
  | .node i c ks =>
    intro e he
    simp only [PT.routeT, List.mem_cons] at he
    simp only [regionsT, List.map_cons, List.mem_cons]
    rcases he with rfl | he
    · left; rfl
    · right
      split at he
      · simp at he
      · exact PKids.routeAt_sub_regions ks c.aff 0 _ x path (d+1) e he
theorem PKids.routeAt_sub_regions (ks : PKids α) (a : Aff α) (l n : Nat) (x : List α) (path : List (Aff α)) (d : Nat) :
    ∀ e ∈ PKids.routeAt ks a l n x path, e ∈ (regionsK ks a l d path).map (fun q => (q.1.idx, q.2)) := by
  match ks, n with
  | .nil, _ => intro e he; simp [PKids.routeAt] at he
  | .cons none r, 0 => intro e he; simp [PKids.routeAt] at he
  | .cons (some t) r, 0 =>
    intro e he
    simp only [PKids.routeAt] at he
    simp only [regionsK, List.map_append, List.mem_append]
    left
    exact PT.route_sub_regions t x _ d r.count e he
  | .cons none r, n+1 =>
    intro e he
    simp only [PKids.routeAt] at he
    simp only [regionsK]
    exact PKids.routeAt_sub_regions r a (l+1) n x path d e he
  | .cons (some t) r, n+1 =>
    intro e he
    simp only [PKids.routeAt] at he
    simp only [regionsK, List.map_append, List.mem_append]
    right
    exact PKids.routeAt_sub_regions r a (l+1) n x path d e he
end

/-- every node on the route of `x` is one of the reported nodes, with exactly the reported path conditions -/
theorem C09_route_regions (t : PT α) (x : List α) :
    ∀ e ∈ PT.routeT t x [], e ∈ (regionsT t 0 0 []).map (fun q => (q.1.idx, q.2)) :=
  PT.route_sub_regions t x [] 0 0

/-- a point strictly inside the half-space reported for the edge with label `l` takes that edge -/
theorem C09_interior_routed (d : Aff α) (x : List α) (l : Nat) (hl : l = 0 ∨ l = 1) (hwf : d.WF) (hrows : d.outdim = 1)
    (hstrict : ∀ rb ∈ (halfspace d l).rows, dot rb.1 x < rb.2) : d.label x = l := by
  obtain ⟨hw1, hw2⟩ := hwf
  unfold Aff.outdim at hrows
  match hm : d.mat, hb : d.bias with
  | [r], [b] =>
    unfold Aff.label
    rw [hm, hb]
    simp only [labelBits]
    rcases hl with rfl | rfl
    · have := hstrict (vneg r, -b) (by simp [halfspace, Aff.rows, hm, hb, matNeg, vneg])
      simp only [dot_vneg_left] at this
      have hc : ¬ (dot r x - b ≤ 0) := by intro h; linarith
      simp [hc]
    · have := hstrict (r, b) (by simp [halfspace, Aff.rows, hm, hb])
      have hc : dot r x - b ≤ 0 := by linarith
      simp [hc]
  | [], _ => simp [hm] at hrows
  | [r], [] => simp [hm, hb] at hw2
  | [r], _ :: _ :: _ => simp [hm, hb] at hw2
  | _ :: _ :: _, _ => simp [hm] at hrows

/-! ### the stream with skips -/

mutual
/-- nodes are reported once each, in pre-order, with the skipped sub-trees omitted: the items of the region stream
    are the items of the reference traversal of C13 under the same skip schedule -/
theorem regionsSkipT_items (sk : Nat → Nat) (t : PT α) (d r : Nat) (path : List (Aff α)) (k : Nat) :
    (regionsSkipT sk t d r path k).1.map (·.1) = (refDfsT sk d t r k).1 ∧
    (regionsSkipT sk t d r path k).2 = (refDfsT sk d t r k).2 := by
  match t with
  | .node i c ks =>
    simp only [regionsSkipT, refDfsT]
    split
    · simp
    · obtain ⟨h1, h2⟩ := regionsSkipK_items sk ks c.aff 0 (d+1) path (k+1)
      simp [h1, h2]
theorem regionsSkipK_items (sk : Nat → Nat) (ks : PKids α) (a : Aff α) (l d : Nat) (path : List (Aff α)) (k : Nat) :
    (regionsSkipK sk ks a l d path k).1.map (·.1) = (refDfsK sk d ks k).1 ∧
    (regionsSkipK sk ks a l d path k).2 = (refDfsK sk d ks k).2 := by
  match ks with
  | .nil => simp [regionsSkipK, refDfsK]
  | .cons none rest =>
    simp only [regionsSkipK, refDfsK]
    exact regionsSkipK_items sk rest a (l+1) d path k
  | .cons (some t) rest =>
    simp only [regionsSkipK, refDfsK]
    obtain ⟨h1, h2⟩ := regionsSkipT_items sk t d rest.count (path ++ [halfspace a l]) k
    rw [h2]
    obtain ⟨h3, h4⟩ := regionsSkipK_items sk rest a (l+1) d path (refDfsT sk d t rest.count k).2
    simp [h1, h3, h4]
end

theorem C09_skip_stream_items (sk : Nat → Nat) (t : PT α) :
    (regionsSkipT sk t 0 0 [] 0).1.map (·.1) = (refDfsT sk 0 t 0 0).1 :=
  (regionsSkipT_items sk t 0 0 [] 0).1

mutual
/-- skipping never changes what is reported for a node: every reported (item, path conditions) pair is the pair the
    skip-free reference reports -/
theorem regionsSkipT_sub (sk : Nat → Nat) (t : PT α) (d r : Nat) (path : List (Aff α)) (k : Nat) :
    ∀ e ∈ (regionsSkipT sk t d r path k).1, e ∈ regionsT t d r path := by
  match t with
  | .node i c ks =>
    intro e he
    simp only [regionsSkipT] at he
    simp only [regionsT, List.mem_cons]
    split at he
    · simp only [List.mem_singleton] at he; exact Or.inl he
    · simp only [List.mem_cons] at he
      rcases he with h | h
      · exact Or.inl h
      · exact Or.inr (regionsSkipK_sub sk ks c.aff 0 (d+1) path (k+1) e h)
theorem regionsSkipK_sub (sk : Nat → Nat) (ks : PKids α) (a : Aff α) (l d : Nat) (path : List (Aff α)) (k : Nat) :
    ∀ e ∈ (regionsSkipK sk ks a l d path k).1, e ∈ regionsK ks a l d path := by
  match ks with
  | .nil => simp [regionsSkipK]
  | .cons none rest => simp only [regionsSkipK, regionsK]; exact regionsSkipK_sub sk rest a (l+1) d path k
  | .cons (some t) rest =>
    intro e he
    simp only [regionsSkipK, List.mem_append] at he
    simp only [regionsK, List.mem_append]
    rcases he with h | h
    · exact Or.inl (regionsSkipT_sub sk t d rest.count _ k e h)
    · exact Or.inr (regionsSkipK_sub sk rest a (l+1) d path _ e h)
end

theorem C09_skip_stream_regions (sk : Nat → Nat) (t : PT α) :
    ∀ e ∈ (regionsSkipT sk t 0 0 [] 0).1, e ∈ regionsT t 0 0 [] :=
  regionsSkipT_sub sk t 0 0 [] 0

mutual
theorem regionsSkipT_noskip (t : PT α) (d r : Nat) (path : List (Aff α)) (k : Nat) :
    (regionsSkipT (fun _ => 0) t d r path k).1 = regionsT t d r path := by
  match t with
  | .node i c ks =>
    simp only [regionsSkipT, regionsT, ne_eq, not_true_eq_false, if_false]
    rw [regionsSkipK_noskip ks c.aff 0 (d+1) path (k+1)]
theorem regionsSkipK_noskip (ks : PKids α) (a : Aff α) (l d : Nat) (path : List (Aff α)) (k : Nat) :
    (regionsSkipK (fun _ => 0) ks a l d path k).1 = regionsK ks a l d path := by
  match ks with
  | .nil => simp [regionsSkipK, regionsK]
  | .cons none rest => simp only [regionsSkipK, regionsK]; exact regionsSkipK_noskip rest a (l+1) d path k
  | .cons (some t) rest =>
    simp only [regionsSkipK, regionsK]
    rw [regionsSkipT_noskip t d rest.count _ k, regionsSkipK_noskip rest a (l+1) d path _]
end

/-- without skips the stream is the reference `regionsT`: every node of the tree, once, in pre-order -/
theorem C09_noskip_stream (t : PT α) : (regionsSkipT (fun _ => 0) t 0 0 [] 0).1 = regionsT t 0 0 [] :=
  regionsSkipT_noskip t 0 0 [] 0

/-- the two branches of a decision have disjoint open regions: no point is strictly inside both half-spaces -/
theorem C09_sibling_interiors_disjoint (d : Aff α) (x : List α) (hwf : d.WF) (hrows : d.outdim = 1)
    (h0 : ∀ rb ∈ (halfspace d 0).rows, dot rb.1 x < rb.2) (h1 : ∀ rb ∈ (halfspace d 1).rows, dot rb.1 x < rb.2) :
    False := by
  have e0 := C09_interior_routed d x 0 (Or.inl rfl) hwf hrows h0
  have e1 := C09_interior_routed d x 1 (Or.inr rfl) hwf hrows h1
  omega

end AV
