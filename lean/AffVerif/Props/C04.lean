import AffVerif.Proofs.ElimShape
import AffVerif.Proofs.PruneShapeP
import AffVerif.Props.C08
/-!
# C04 — every operation history keeps a tree well-formed and usable

`PT.Shaped K n m t`: every node map is well formed with `n` columns, every node has `K` slots, all terminals
have `m` rows, every decision has at most `log₂ K` rows, and a node is a terminal (no child) exactly when its map
is read as a terminal map — in particular a decision never loses all its children.  `Shaped` is the hypothesis
of every evaluation theorem (C02, C03, C07, C08) and of "the next dimension-compatible operation does not panic"
(the model operations are total; the dimension guards the code asserts are exactly the hypotheses below).

Proved: the step theorems for `apply_func`, un-pruned and pruned `compose` (for every `explore` filter, i.e. every
solver behaviour), the four tree-tree operators, `infeasible_elimination` (for every solver behaviour), `reduce`,
negation and the mixed tree/affine operators, the constructors, and their closure under histories.
-/
set_option linter.unusedSectionVars false
set_option linter.unusedVariables false
namespace AV
variable {α : Type} [Field α] [LinearOrder α] [IsStrictOrderedRing α]

theorem C04_apply_func (t : PT α) (a : Aff α) (K n : Nat) (ha : a.WF) (ht : PT.Shaped K n a.indim t) :
    PT.Shaped K n a.outdim (PT.applyFunc t a) := by
  unfold PT.applyFunc
  refine PT.shaped_mapTerminals _ t K n a.indim a.outdim (fun f hf hin hout => ?_) ht
  exact ⟨compose_wf a f ha hf, hin, compose_outdim a f⟩

theorem C04_compose (f g : PT α) (c : Nat) (K n m p : Nat) (hf : PT.Shaped K n m f) (hg : PT.Shaped K m p g) :
    PT.Shaped K n p (PT.composeS Schema.compose f g c).1 :=
  PT.shaped_composeS f g c K n m p hf hg

/-- `compose::<true>`: well formed for every `explore` filter — no hypothesis on the LP backend -/
theorem C04_compose_prune {σ : Type} (ex : Explore σ α) (f g : PT α) (s : σ) (c : Nat) (K n m p : Nat)
    (path : List (Aff α)) (hf : PT.Shaped K n m f) (hg : PT.Shaped K m p g) :
    PT.Shaped K n p (PT.composeP Schema.compose ex n path f g s c).1 :=
  PT.shaped_composeP Schema.compose ex n path f g s c K m m p p
    (fun t ht hi ho => by have := schemaShaped_compose t ht p; rw [hi, ho] at this; exact this) hf hg

/-- the tree-tree operators `+ - * /` (always pruned): operands over the same inputs with the same number of outputs -/
theorem C04_arith_prune {σ : Type} (op : ArithOp) (ex : Explore σ α) (f g : PT α) (s : σ) (c : Nat) (K n m : Nat)
    (path : List (Aff α)) (hf : PT.Shaped K n m f) (hg : PT.Shaped K n m g) :
    PT.Shaped K n m (PT.composeP (Schema.arith op.onAff) ex n path f g s c).1 :=
  PT.shaped_composeP (Schema.arith op.onAff) ex n path f g s c K m n m m
    (fun t ht hi ho => by have := schemaShaped_arith op t ht; rw [hi, ho] at this; exact this) hf hg

/-- no hypothesis on the LP backend or on `mirror_points`: well-formedness does not depend on the solver being right -/
theorem C04_elim {σ : Type} (tol : α) (O : Oracles σ α) (n m : Nat) (t : PT α) (s : σ) (h : PT.Shaped 2 n m t) :
    PT.Shaped 2 n m (infeasibleElimination tol O n t s).1 :=
  PT.shaped_infeasibleElimination tol O n m t s h

theorem neg_wf (f : Aff α) (hf : f.WF) : f.neg.WF ∧ f.neg.indim = f.indim ∧ f.neg.outdim = f.outdim := by
  unfold Aff.neg Aff.WF Aff.outdim
  simp only [matNeg, vneg, List.length_map, List.mem_map]
  refine ⟨⟨?_, hf.2⟩, trivial, trivial⟩
  rintro r ⟨r0, hr0, rfl⟩
  simp [hf.1 r0 hr0]

theorem C04_neg (t : PT α) (K n m : Nat) (ht : PT.Shaped K n m t) : PT.Shaped K n m (PT.mapTerminals Aff.neg t) :=
  PT.shaped_mapTerminals _ t K n m m (fun f hf hin hout => by
    obtain ⟨h1, h2, h3⟩ := neg_wf f hf
    exact ⟨h1, by rw [h2, hin], by rw [h3, hout]⟩) ht

/-- mixed tree/affine operators: any terminal map transformer that keeps well-formedness and dimensions -/
theorem C04_scalar_op (φ : Aff α → Aff α) (t : PT α) (K n m : Nat)
    (hφ : ∀ a : Aff α, a.WF → a.indim = n → a.outdim = m → (φ a).WF ∧ (φ a).indim = n ∧ (φ a).outdim = m)
    (ht : PT.Shaped K n m t) : PT.Shaped K n m (PT.mapTerminals φ t) :=
  PT.shaped_mapTerminals φ t K n m m hφ ht

theorem PKids.reduceAux_length (ks : PKids α) : (PKids.reduceAux ks).length = ks.length := by
  match ks with
  | .nil => simp [PKids.reduceAux, IKids.length]
  | .cons none r => simp [PKids.reduceAux, IKids.length, PKids.reduceAux_length r]
  | .cons (some k) r => simp [PKids.reduceAux, IKids.length, PKids.reduceAux_length r]

mutual
theorem PT.shaped_reduceAux (isRoot : Bool) (t : PT α) (K n m : Nat) (h : PT.Shaped K n m t) :
    PT.Shaped K n m (PT.reduceAux isRoot t) := by
  match t with
  | .node i c ks =>
    obtain ⟨hwf, hin, hlen, hout, hdec, hk⟩ := h
    have hk' := PKids.shaped_reduceAux ks K n m hk
    have hnode : PT.Shaped K n m (.node i c (PKids.reduceAux ks)) := by
      unfold PT.Shaped
      simp only [PKids.reduceAux_allNone, PKids.reduceAux_length]
      exact ⟨hwf, hin, hlen, hout, hdec, hk'⟩
    simp only [PT.reduceAux]
    cases isRoot with
    | true => simpa using hnode
    | false =>
      simp only [Bool.false_eq_true, if_false]
      cases hm : mergeable? (PKids.reduceAux ks) with
      | none => exact hnode
      | some a =>
        obtain ⟨b, hks, _, _, _⟩ := mergeable_spec _ a hm
        rw [hks] at hk'
        simp only [PKids.Shaped] at hk'
        exact hk'.1
theorem PKids.shaped_reduceAux (ks : PKids α) (K n m : Nat) (h : PKids.Shaped K n m ks) :
    PKids.Shaped K n m (PKids.reduceAux ks) := by
  match ks with
  | .nil => simp [PKids.reduceAux, PKids.Shaped]
  | .cons none r => simp only [PKids.reduceAux, PKids.Shaped]; exact PKids.shaped_reduceAux r K n m h
  | .cons (some k) r =>
    simp only [PKids.reduceAux, PKids.Shaped]
    exact ⟨PT.shaped_reduceAux false k K n m h.1, PKids.shaped_reduceAux r K n m h.2⟩
end

theorem C04_reduce (t : PT α) (K n m : Nat) (h : PT.Shaped K n m t) : PT.Shaped K n m (PT.reduce t) :=
  PT.shaped_reduceAux true t K n m h

/-- `AffTree::new(n)` / `from_aff(f)` -/
theorem C04_ctor_from_aff (K : Nat) (f : Aff α) (hf : f.WF) : PT.Shaped K f.indim f.outdim (PT.fromAff K f) := by
  unfold PT.fromAff PT.Shaped
  have hall : ∀ k : Nat, (IKids.empty k : PKids α).allNone = true := by
    intro k; induction k with
    | zero => rfl
    | succ k ih => simpa [IKids.empty, IKids.allNone] using ih
  have hlen : ∀ k : Nat, (IKids.empty k : PKids α).length = k := by
    intro k; induction k with
    | zero => rfl
    | succ k ih => simp [IKids.empty, IKids.length, ih]
  exact ⟨hf, rfl, hlen K, fun _ => rfl, fun h => by rw [hall K] at h; simp at h, PKids.shaped_of_allNone _ K _ _ (hall K)⟩

/-- one dimension-compatible transformation of a binary tree over `n` inputs: `HStep n m t m' t'` says that `t`
    (output dimension `m`) is transformed into `t'` (output dimension `m'`).  These are the operations whose step
    theorem is proved; the solver and heuristic oracles of `elim` are arbitrary. -/
inductive HStep (n : Nat) : Nat → PT α → Nat → PT α → Prop where
  | applyFunc (m : Nat) (t : PT α) (a : Aff α) (ha : a.WF) (hm : a.indim = m) :
      HStep n m t a.outdim (PT.applyFunc t a)
  | compose (m p : Nat) (t g : PT α) (c : Nat) (hg : PT.Shaped 2 m p g) :
      HStep n m t p (PT.composeS Schema.compose t g c).1
  | composePrune {σ : Type} (m p : Nat) (t g : PT α) (ex : Explore σ α) (s : σ) (c : Nat) (hg : PT.Shaped 2 m p g) :
      HStep n m t p (PT.composeP Schema.compose ex n [] t g s c).1
  | arith {σ : Type} (m : Nat) (t g : PT α) (op : ArithOp) (ex : Explore σ α) (s : σ) (c : Nat)
      (hg : PT.Shaped 2 n m g) : HStep n m t m (PT.composeP (Schema.arith op.onAff) ex n [] t g s c).1
  | elim {σ : Type} (m : Nat) (t : PT α) (tol : α) (O : Oracles σ α) (s : σ) :
      HStep n m t m (infeasibleElimination tol O n t s).1
  | reduce (m : Nat) (t : PT α) : HStep n m t m (PT.reduce t)
  | neg (m : Nat) (t : PT α) : HStep n m t m (PT.mapTerminals Aff.neg t)

theorem C04_step_shaped (n m m' : Nat) (t t' : PT α) (h : PT.Shaped 2 n m t) (st : HStep n m t m' t') :
    PT.Shaped 2 n m' t' := by
  cases st with
  | applyFunc _ _ a ha hm => subst hm; exact C04_apply_func t a 2 n ha h
  | compose _ _ _ g c hg => exact C04_compose t g c 2 n m m' h hg
  | composePrune _ _ _ g ex s c hg => exact C04_compose_prune ex t g s c 2 n m m' [] h hg
  | arith _ _ g op ex s c hg => exact C04_arith_prune op ex t g s c 2 n m [] h hg
  | elim _ _ tol O s => exact C04_elim tol O n m t s h
  | reduce => exact C04_reduce t 2 n m h
  | neg => exact C04_neg t 2 n m h

/-- histories: any finite sequence of such steps -/
inductive HSteps (n : Nat) : Nat → PT α → Nat → PT α → Prop where
  | nil (m : Nat) (t : PT α) : HSteps n m t m t
  | cons (m m' m'' : Nat) (t t' t'' : PT α) : HStep n m t m' t' → HSteps n m' t' m'' t'' → HSteps n m t m'' t''

/-- every history from a well-formed tree ends in a well-formed tree (no bound on its length) -/
theorem C04_history (n m m' : Nat) (t t' : PT α) (h : PT.Shaped 2 n m t) (hs : HSteps n m t m' t') :
    PT.Shaped 2 n m' t' := by
  induction hs with
  | nil => exact h
  | cons m m' m'' t t' t'' st _ ih => exact ih (C04_step_shaped n m m' t t' h st)

end AV
