import AffVerif.Model.Reduce
/-! # C04 (theorems added below as they are proved) -/
namespace AV
end AV
