import AffVerif.Proofs.ElimShape
import AffVerif.Proofs.PruneShapeP
import AffVerif.Props.C08
import AffVerif.Proofs.DistillLemmas
/-!
# C04 — every operation history keeps a tree well-formed and usable

`PT.Shaped K n m t`: every node map is well formed with `n` columns, every node has `K` slots, all terminals
have `m` rows, every decision has at most `log₂ K` rows, and a node is a terminal (no child) exactly when its map
is read as a terminal map — in particular a decision never loses all its children.  `Shaped` is the hypothesis
of every evaluation theorem (C02, C03, C07, C08) and of "the next dimension-compatible operation does not panic"
(the model operations are total; the dimension guards the code asserts are exactly the hypotheses below).

Proved: the step theorems for `apply_func`, un-pruned and pruned `compose` (for every `explore` filter, i.e. every
solver behaviour), the four tree-tree operators, `infeasible_elimination` (for every solver behaviour), `reduce`,
negation and the mixed tree/affine operators, the constructors, and their closure under histories.
-/
set_option linter.unusedSectionVars false
set_option linter.unusedVariables false
namespace AV
variable {α : Type} [Field α] [LinearOrder α] [IsStrictOrderedRing α]

theorem C04_apply_func (t : PT α) (a : Aff α) (K n : Nat) (ha : a.WF) (ht : PT.Shaped K n a.indim t) :
    PT.Shaped K n a.outdim (PT.applyFunc t a) := by
  unfold PT.applyFunc
  refine PT.shaped_mapTerminals _ t K n a.indim a.outdim (fun f hf hin hout => ?_) ht
  exact ⟨compose_wf a f ha hf, hin, compose_outdim a f⟩

theorem C04_compose (f g : PT α) (c : Nat) (K n m p : Nat) (hf : PT.Shaped K n m f) (hg : PT.Shaped K m p g) :
    PT.Shaped K n p (PT.composeS Schema.compose f g c).1 :=
  PT.shaped_composeS f g c K n m p hf hg

/-- `compose::<true>`: well formed for every `explore` filter — no hypothesis on the LP backend -/
theorem C04_compose_prune {σ : Type} (ex : Explore σ α) (f g : PT α) (s : σ) (c : Nat) (K n m p : Nat)
    (path : List (Aff α)) (hf : PT.Shaped K n m f) (hg : PT.Shaped K m p g) :
    PT.Shaped K n p (PT.composeP Schema.compose ex n path f g s c).1 :=
  PT.shaped_composeP Schema.compose ex n path f g s c K m m p p
    (fun t ht hi ho => by have := schemaShaped_compose t ht p; rw [hi, ho] at this; exact this) hf hg

/-- the tree-tree operators `+ - * /` (always pruned): operands over the same inputs with the same number of outputs -/
theorem C04_arith_prune {σ : Type} (op : ArithOp) (ex : Explore σ α) (f g : PT α) (s : σ) (c : Nat) (K n m : Nat)
    (path : List (Aff α)) (hf : PT.Shaped K n m f) (hg : PT.Shaped K n m g) :
    PT.Shaped K n m (PT.composeP (Schema.arith op.onAff) ex n path f g s c).1 :=
  PT.shaped_composeP (Schema.arith op.onAff) ex n path f g s c K m n m m
    (fun t ht hi ho => by have := schemaShaped_arith op t ht; rw [hi, ho] at this; exact this) hf hg

/-- no hypothesis on the LP backend or on `mirror_points`: well-formedness does not depend on the solver being right -/
theorem C04_elim {σ : Type} (tol : α) (O : Oracles σ α) (n m : Nat) (t : PT α) (s : σ) (h : PT.Shaped 2 n m t) :
    PT.Shaped 2 n m (infeasibleElimination tol O n t s).1 :=
  PT.shaped_infeasibleElimination tol O n m t s h

theorem neg_wf (f : Aff α) (hf : f.WF) : f.neg.WF ∧ f.neg.indim = f.indim ∧ f.neg.outdim = f.outdim := by
  unfold Aff.neg Aff.WF Aff.outdim
  simp only [matNeg, vneg, List.length_map, List.mem_map]
  refine ⟨⟨?_, hf.2⟩, trivial, trivial⟩
  rintro r ⟨r0, hr0, rfl⟩
  simp [hf.1 r0 hr0]

theorem C04_neg (t : PT α) (K n m : Nat) (ht : PT.Shaped K n m t) : PT.Shaped K n m (PT.mapTerminals Aff.neg t) :=
  PT.shaped_mapTerminals _ t K n m m (fun f hf hin hout => by
    obtain ⟨h1, h2, h3⟩ := neg_wf f hf
    exact ⟨h1, by rw [h2, hin], by rw [h3, hout]⟩) ht

/-- mixed tree/affine operators: any terminal map transformer that keeps well-formedness and dimensions -/
theorem C04_scalar_op (φ : Aff α → Aff α) (t : PT α) (K n m : Nat)
    (hφ : ∀ a : Aff α, a.WF → a.indim = n → a.outdim = m → (φ a).WF ∧ (φ a).indim = n ∧ (φ a).outdim = m)
    (ht : PT.Shaped K n m t) : PT.Shaped K n m (PT.mapTerminals φ t) :=
  PT.shaped_mapTerminals φ t K n m m hφ ht

theorem PKids.reduceAux_length (ks : PKids α) : (PKids.reduceAux ks).length = ks.length := by
  match ks with
  | .nil => simp [PKids.reduceAux, IKids.length]
  | .cons none r => simp [PKids.reduceAux, IKids.length, PKids.reduceAux_length r]
  | .cons (some k) r => simp [PKids.reduceAux, IKids.length, PKids.reduceAux_length r]

mutual
theorem PT.shaped_reduceAux (isRoot : Bool) (t : PT α) (K n m : Nat) (h : PT.Shaped K n m t) :
    PT.Shaped K n m (PT.reduceAux isRoot t) := by
  match t with
  | .node i c ks =>
    obtain ⟨hwf, hin, hlen, hout, hdec, hk⟩ := h
    have hk' := PKids.shaped_reduceAux ks K n m hk
    have hnode : PT.Shaped K n m (.node i c (PKids.reduceAux ks)) := by
      unfold PT.Shaped
      simp only [PKids.reduceAux_allNone, PKids.reduceAux_length]
      exact ⟨hwf, hin, hlen, hout, hdec, hk'⟩
    simp only [PT.reduceAux]
    cases isRoot with
    | true => simpa using hnode
    | false =>
      simp only [Bool.false_eq_true, if_false]
      cases hm : mergeable? (PKids.reduceAux ks) with
      | none => exact hnode
      | some a =>
        obtain ⟨b, hks, _, _, _⟩ := mergeable_spec _ a hm
        rw [hks] at hk'
        simp only [PKids.Shaped] at hk'
        exact hk'.1
theorem PKids.shaped_reduceAux (ks : PKids α) (K n m : Nat) (h : PKids.Shaped K n m ks) :
    PKids.Shaped K n m (PKids.reduceAux ks) := by
  match ks with
  | .nil => simp [PKids.reduceAux, PKids.Shaped]
  | .cons none r => simp only [PKids.reduceAux, PKids.Shaped]; exact PKids.shaped_reduceAux r K n m h
  | .cons (some k) r =>
    simp only [PKids.reduceAux, PKids.Shaped]
    exact ⟨PT.shaped_reduceAux false k K n m h.1, PKids.shaped_reduceAux r K n m h.2⟩
end

theorem C04_reduce (t : PT α) (K n m : Nat) (h : PT.Shaped K n m t) : PT.Shaped K n m (PT.reduce t) :=
  PT.shaped_reduceAux true t K n m h

/-- `AffTree::new(n)` / `from_aff(f)` -/
theorem C04_ctor_from_aff (K : Nat) (f : Aff α) (hf : f.WF) : PT.Shaped K f.indim f.outdim (PT.fromAff K f) := by
  unfold PT.fromAff PT.Shaped
  have hall : ∀ k : Nat, (IKids.empty k : PKids α).allNone = true := by
    intro k; induction k with
    | zero => rfl
    | succ k ih => simpa [IKids.empty, IKids.allNone] using ih
  have hlen : ∀ k : Nat, (IKids.empty k : PKids α).length = k := by
    intro k; induction k with
    | zero => rfl
    | succ k ih => simp [IKids.empty, IKids.length, ih]
  exact ⟨hf, rfl, hlen K, fun _ => rfl, fun h => by rw [hall K] at h; simp at h, PKids.shaped_of_allNone _ K _ _ (hall K)⟩

/-- one dimension-compatible transformation of a binary tree over `n` inputs: `HStep n m t m' t'` says that `t`
    (output dimension `m`) is transformed into `t'` (output dimension `m'`).  These are the operations whose step
    theorem is proved; the solver and heuristic oracles of `elim` are arbitrary. -/
inductive HStep (n : Nat) : Nat → PT α → Nat → PT α → Prop where
  | applyFunc (m : Nat) (t : PT α) (a : Aff α) (ha : a.WF) (hm : a.indim = m) :
      HStep n m t a.outdim (PT.applyFunc t a)
  | compose (m p : Nat) (t g : PT α) (c : Nat) (hg : PT.Shaped 2 m p g) :
      HStep n m t p (PT.composeS Schema.compose t g c).1
  | composePrune {σ : Type} (m p : Nat) (t g : PT α) (ex : Explore σ α) (s : σ) (c : Nat) (hg : PT.Shaped 2 m p g) :
      HStep n m t p (PT.composeP Schema.compose ex n [] t g s c).1
  | arith {σ : Type} (m : Nat) (t g : PT α) (op : ArithOp) (ex : Explore σ α) (s : σ) (c : Nat)
      (hg : PT.Shaped 2 n m g) : HStep n m t m (PT.composeP (Schema.arith op.onAff) ex n [] t g s c).1
  | elim {σ : Type} (m : Nat) (t : PT α) (tol : α) (O : Oracles σ α) (s : σ) :
      HStep n m t m (infeasibleElimination tol O n t s).1
  | reduce (m : Nat) (t : PT α) : HStep n m t m (PT.reduce t)
  | neg (m : Nat) (t : PT α) : HStep n m t m (PT.mapTerminals Aff.neg t)

theorem C04_step_shaped (n m m' : Nat) (t t' : PT α) (h : PT.Shaped 2 n m t) (st : HStep n m t m' t') :
    PT.Shaped 2 n m' t' := by
  cases st with
  | applyFunc _ _ a ha hm => subst hm; exact C04_apply_func t a 2 n ha h
  | compose _ _ _ g c hg => exact C04_compose t g c 2 n m m' h hg
  | composePrune _ _ _ g ex s c hg => exact C04_compose_prune ex t g s c 2 n m m' [] h hg
  | arith _ _ g op ex s c hg => exact C04_arith_prune op ex t g s c 2 n m [] h hg
  | elim _ _ tol O s => exact C04_elim tol O n m t s h
  | reduce => exact C04_reduce t 2 n m h
  | neg => exact C04_neg t 2 n m h

/-- histories: any finite sequence of such steps -/
inductive HSteps (n : Nat) : Nat → PT α → Nat → PT α → Prop where
  | nil (m : Nat) (t : PT α) : HSteps n m t m t
  | cons (m m' m'' : Nat) (t t' t'' : PT α) : HStep n m t m' t' → HSteps n m' t' m'' t'' → HSteps n m t m'' t''

/-- every history from a well-formed tree ends in a well-formed tree (no bound on its length) -/
theorem C04_history (n m m' : Nat) (t t' : PT α) (h : PT.Shaped 2 n m t) (hs : HSteps n m t m' t') :
    PT.Shaped 2 n m' t' := by
  induction hs with
  | nil => exact h
  | cons m m' m'' t t' t'' st _ ih => exact ih (C04_step_shaped n m m' t t' h st)

/-! ### the remaining constructors: every tree a history can start from is shaped -/

theorem shapedAny_dec_none (i n m : Nat) (a : Aff α) (l1 : PT α) (hwf : a.WF) (hin : a.indim = n) (hout : a.outdim = 1)
    (h1 : PT.Shaped 2 n m l1) : PT.Shaped 2 n m (Sch.dec i a none (some l1)) := by
  simp [Sch.dec, PT.Shaped, PKids.Shaped, IKids.allNone, IKids.length, Content.new, hwf, hin, hout, h1]

/-- a well-formed one-row predicate over `n` inputs -/
def OneRowN (n : Nat) (r : Aff α) : Prop := r.WF ∧ r.indim = n ∧ r.outdim = 1

theorem shapedAny_chainNode (n m : Nat) (ff : Option (Aff α)) (f1 : Aff α)
    (hff : ∀ a, ff = some a → a.WF ∧ a.indim = n ∧ a.outdim = m) (hf1 : f1.WF ∧ f1.indim = n ∧ f1.outdim = m)
    (idx : Nat) (row : Aff α) (rows : List (Aff α)) (c : Nat) (hrow : OneRowN n row) (hrows : ∀ r ∈ rows, OneRowN n r) :
    PT.Shaped 2 n m (Sch.chainNode ff f1 idx row rows c) := by
  induction rows generalizing idx row c with
  | nil =>
    unfold Sch.chainNode
    cases ff with
    | none =>
      refine shapedAny_dec_none idx n m row _ hrow.1 hrow.2.1 hrow.2.2 ?_
      have := shaped_leaf c n f1 hf1.1 hf1.2.1
      rwa [hf1.2.2] at this
    | some a =>
      obtain ⟨h1, h2, h3⟩ := hff a rfl
      refine shaped_dec idx n m row _ _ hrow.1 hrow.2.1 hrow.2.2 ?_ ?_
      · have := shaped_leaf c n a h1 h2
        rwa [h3] at this
      · have := shaped_leaf (c+1) n f1 hf1.1 hf1.2.1
        rwa [hf1.2.2] at this
  | cons r rs ih =>
    unfold Sch.chainNode
    cases ff with
    | none =>
      exact shapedAny_dec_none idx n m row _ hrow.1 hrow.2.1 hrow.2.2
        (ih c r (c+1) (hrows r (by simp)) (fun r' hr' => hrows r' (by simp [hr'])))
    | some a =>
      obtain ⟨h1, h2, h3⟩ := hff a rfl
      refine shaped_dec idx n m row _ _ hrow.1 hrow.2.1 hrow.2.2 ?_
        (ih (c+1) r (c+2) (hrows r (by simp)) (fun r' hr' => hrows r' (by simp [hr'])))
      have := shaped_leaf c n a h1 h2
      rwa [h3] at this


theorem oneRowN_subtraction (n l r : Nat) : OneRowN n (Aff.subtraction n l r : Aff α) := by
  refine ⟨⟨?_, rfl⟩, rfl, rfl⟩
  intro row hrow
  simp only [Aff.subtraction, List.mem_singleton] at hrow
  subst hrow; simp [Aff.subtraction]

theorem oneRowN_axisPred (n r : Nat) (c b : α) : OneRowN n (Sch.axisPred n r c b : Aff α) :=
  ⟨wf_axisPred n r c b, rfl, rfl⟩

theorem constAff_ok (n : Nat) (v : α) : (Aff.constant n v : Aff α).WF ∧ (Aff.constant n v : Aff α).indim = n ∧
    (Aff.constant n v : Aff α).outdim = 1 := by
  refine ⟨⟨?_, rfl⟩, rfl, rfl⟩
  intro row hrow
  simp only [Aff.constant, List.mem_singleton] at hrow
  subst hrow; simp [zeros, Aff.constant]

theorem oneRowN_row (p : Aff α) (hp : p.WF) (i : Nat) (hi : i < p.mat.length) : OneRowN p.indim (p.row i) := by
  refine ⟨⟨?_, rfl⟩, rfl, rfl⟩
  intro row hrow
  simp only [Aff.row, List.mem_singleton] at hrow
  subst hrow
  apply hp.1
  simp [List.getD_eq_getElem?_getD, List.getElem?_eq_getElem hi]

/-- `from_poly` (total or partial): a shaped binary tree -/
theorem C04_ctor_from_poly (p fT : Aff α) (fF : Option (Aff α)) (hp : p.WF) (hT : fT.WF) (hTin : fT.indim = p.indim)
    (hF : ∀ a, fF = some a → a.WF ∧ a.indim = p.indim ∧ a.outdim = fT.outdim) :
    PT.Shaped 2 p.indim fT.outdim (Sch.fromPoly p fT fF) := by
  unfold Sch.fromPoly
  have hall : ∀ r ∈ (List.range p.mat.length).map (fun i => p.row i), OneRowN p.indim r := by
    intro r hr
    simp only [List.mem_map, List.mem_range] at hr
    obtain ⟨i, hi, rfl⟩ := hr
    exact oneRowN_row p hp i hi
  split
  · exact shaped_leaf 0 p.indim fT hT hTin
  · rename_i r rs heq
    rw [heq] at hall
    exact shapedAny_chainNode p.indim fT.outdim fF fT hF ⟨hT, hTin, rfl⟩ 0 r rs 1 (hall r (by simp))
      (fun r' hr' => hall r' (by simp [hr']))

theorem shapedAny_indicatorChain (n : Nat) (rows : List (Aff α)) (hall : ∀ r ∈ rows, OneRowN n r) :
    PT.Shaped 2 n 1 (match rows with
      | [] => Sch.leaf 0 (Aff.constant n 1)
      | r :: rs => Sch.chainNode (some (Aff.constant n (0 : α))) (Aff.constant n 1) 0 r rs 1) := by
  cases rows with
  | nil =>
    have := shaped_leaf 0 n (Aff.constant n 1 : Aff α) (constAff_ok n 1).1 rfl
    simpa [Aff.constant, Aff.outdim] using this
  | cons r rs =>
    exact shapedAny_chainNode n 1 _ _ (fun a ha => by cases ha; exact constAff_ok n 0) (constAff_ok n 1) 0 r rs 1 (hall r (by simp))
      (fun r' hr' => hall r' (by simp [hr']))

/-- `class_characterization` -/
theorem C04_ctor_class_char (n c : Nat) : PT.Shaped 2 n 1 (Sch.classChar n c : PT α) := by
  unfold Sch.classChar
  apply shapedAny_indicatorChain
  intro r hr
  simp only [List.mem_map] at hr
  obtain ⟨i, _, rfl⟩ := hr
  exact oneRowN_subtraction n i c

/-- `inf_norm` -/
theorem C04_ctor_inf_norm (n : Nat) (lo hi : Option α) : PT.Shaped 2 n 1 (Sch.infNorm n lo hi : PT α) := by
  unfold Sch.infNorm
  simp only
  apply shapedAny_indicatorChain
  intro r hr
  rcases List.mem_append.mp hr with h | h
  · cases lo with
    | none => simp at h
    | some l => obtain ⟨i, _, rfl⟩ := List.mem_map.mp h; exact oneRowN_axisPred _ _ _ _
  · cases hi with
    | none => simp at h
    | some l => obtain ⟨i, _, rfl⟩ := List.mem_map.mp h; exact oneRowN_axisPred _ _ _ _

theorem shapedAny_argmaxNode (n : Nat) (ofNat : Nat → α) (fuel idx : Nat) (aff : Aff α) (mf mt c : Nat)
    (haff : OneRowN n aff) : PT.Shaped 2 n 1 (Sch.argmaxNode n ofNat fuel idx aff mf mt c).1 := by
  have hleaf : ∀ i k, PT.Shaped 2 n 1 (Sch.leaf i (Aff.constant n (ofNat k) : Aff α)) := by
    intro i k
    have := shaped_leaf i n (Aff.constant n (ofNat k) : Aff α) (constAff_ok n _).1 rfl
    simpa [Aff.constant, Aff.outdim] using this
  induction fuel generalizing idx aff mf mt c with
  | zero =>
    unfold Sch.argmaxNode
    exact shaped_dec idx n 1 aff _ _ haff.1 haff.2.1 haff.2.2 (hleaf _ _) (hleaf _ _)
  | succ fuel ih =>
    unfold Sch.argmaxNode
    split
    · exact shaped_dec idx n 1 aff _ _ haff.1 haff.2.1 haff.2.2
        (ih c _ (mf+1) mf _ (oneRowN_subtraction n _ _)) (ih (c+1) _ (mf+1) mt _ (oneRowN_subtraction n _ _))
    · exact shaped_dec idx n 1 aff _ _ haff.1 haff.2.1 haff.2.2 (hleaf _ _) (hleaf _ _)

/-- `argmax` -/
theorem C04_ctor_argmax (n : Nat) (ofNat : Nat → α) : PT.Shaped 2 n 1 (Sch.argmax n ofNat : PT α) :=
  shapedAny_argmaxNode n ofNat n 0 _ 1 0 1 (oneRowN_subtraction n 1 0)

/-- the per-neuron activations -/
theorem C04_ctor_activations (n r : Nat) (a lo hi lam three sixth half thr v : α) :
    PT.Shaped 2 n n (Sch.partialReLU n r : PT α) ∧ PT.Shaped 2 n n (Sch.partialLeakyReLU n r a : PT α) ∧
    PT.Shaped 2 n n (Sch.partialHardTanh n r lo hi : PT α) ∧ PT.Shaped 2 n n (Sch.partialHardShrink n r lam : PT α) ∧
    PT.Shaped 2 n n (Sch.partialHardSigmoid n r three sixth half : PT α) ∧
    PT.Shaped 2 n n (Sch.partialThreshold n r thr v : PT α) := by
  have hid : PT.Shaped 2 n n (Sch.leaf 1 (Aff.identity n : Aff α)) := by
    have := shaped_leaf 1 n (Aff.identity n : Aff α) (wf_identity n) rfl
    rwa [outdim_identity] at this
  have hid3 : PT.Shaped 2 n n (Sch.leaf 3 (Aff.identity n : Aff α)) := by
    have := shaped_leaf 3 n (Aff.identity n : Aff α) (wf_identity n) rfl
    rwa [outdim_identity] at this
  refine ⟨shaped_relu n r, shaped_leaky n r a, shaped_hardTanh n r lo hi, ?_, shaped_hardSigmoid n r three sixth half, ?_⟩
  · unfold Sch.partialHardShrink
    refine shaped_dec 0 n n _ _ _ (wf_axisPred n r _ _) rfl rfl hid ?_
    refine shaped_dec 2 n n _ _ _ (wf_axisPred n r _ _) rfl rfl hid3 ?_
    have := shaped_leaf 4 n (Aff.zeroIdx n r : Aff α) (wf_diagIdx n r 0) rfl
    simpa [Aff.zeroIdx, outdim_diagIdx] using this
  · unfold Sch.partialThreshold
    refine shaped_dec 0 n n _ _ _ (wf_axisPred n r _ _) rfl rfl hid ?_
    have := shaped_leaf 2 n (Sch.setConst n r v : Aff α) (wf_setConst n r v) rfl
    rwa [outdim_setConst] at this

theorem removeAxesK_length (keep : List Nat) (ks : PKids α) : (Sch.removeAxesK keep ks).length = ks.length := by
  match ks with
  | .nil => simp [Sch.removeAxesK, IKids.length]
  | .cons none r => simp [Sch.removeAxesK, IKids.length, removeAxesK_length keep r]
  | .cons (some t) r => simp [Sch.removeAxesK, IKids.length, removeAxesK_length keep r]

theorem removeAxesK_allNone' (keep : List Nat) (ks : PKids α) : (Sch.removeAxesK keep ks).allNone = ks.allNone := by
  match ks with
  | .nil => simp [Sch.removeAxesK, IKids.allNone]
  | .cons none r => simp [Sch.removeAxesK, IKids.allNone, removeAxesK_allNone' keep r]
  | .cons (some t) r => simp [Sch.removeAxesK, IKids.allNone]

mutual
/-- `remove_axes`: the tree stays shaped, over the kept axes -/
theorem C04_remove_axes (K n m : Nat) (keep : List Nat) (t : PT α) (h : PT.Shaped K n m t) :
    PT.Shaped K keep.length m (Sch.removeAxes keep t) := by
  match t with
  | .node i c ks =>
    obtain ⟨hwf, hin, hlen, hout, hrows, hk⟩ := h
    unfold Sch.removeAxes PT.Shaped
    simp only [removeAxesK_length, removeAxesK_allNone']
    refine ⟨⟨?_, by simpa using hwf.2⟩, trivial, hlen, ?_, ?_, shapedK_removeAxes K n m keep ks hk⟩
    · intro r hr
      simp only [List.mem_map] at hr
      obtain ⟨r0, _, rfl⟩ := hr
      simp
    · intro hl; simpa [Aff.outdim] using hout hl
    · intro hl; simpa [Aff.outdim] using hrows hl
theorem shapedK_removeAxes (K n m : Nat) (keep : List Nat) (ks : PKids α) (h : PKids.Shaped K n m ks) :
    PKids.Shaped K keep.length m (Sch.removeAxesK keep ks) := by
  match ks with
  | .nil => simp [Sch.removeAxesK, PKids.Shaped]
  | .cons none r =>
    unfold PKids.Shaped at h
    simp only [Sch.removeAxesK, PKids.Shaped]
    exact shapedK_removeAxes K n m keep r h
  | .cons (some t) r =>
    unfold PKids.Shaped at h
    simp only [Sch.removeAxesK, PKids.Shaped]
    exact ⟨C04_remove_axes K n m keep t h.1, shapedK_removeAxes K n m keep r h.2⟩
end

end AV
