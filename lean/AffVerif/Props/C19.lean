import AffVerif.Model.Format
/-! # C19 (theorems added below as they are proved) -/
namespace AV
end AV
