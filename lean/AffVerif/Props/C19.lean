import AffVerif.Model.Format
import AffVerif.Props.C12
import Mathlib.Tactic.Linarith
import Mathlib.Tactic.Ring
import Mathlib.Tactic.Positivity
import Mathlib.Tactic.FieldSimp
import Mathlib.Data.Rat.Floor
import Mathlib.Algebra.Order.AbsoluteValue.Basic
/-!
# C19 — the textual forms show what is stored

The rendering functions of the model (`Model/Format.lean`) produce the strings through a token layer: a rendered
linear combination is a list of `LTok` (term = coefficient next to the index of its variable, or the ellipsis), a
rendered matrix a list of `RTok` (row or vertical ellipsis), the DOT export a list of node statements followed by a list
of edge statements. The judge compares the *strings* with the implementation's output byte for byte; the theorems
below are about the token layer and the number rounding, for every matrix, option set and tree:

* `C19_round_error`, `C19_round_tie_even`, `C19_fixed_error` — the printed decimal is the stored value rounded to the
  printed precision (error ≤ ½ unit of the last place, ties to even);
* `C19_sort_perm`, `C19_sort_sorted` — sorting coefficients permutes (index, coefficient) pairs, by descending
  magnitude;
* `C19_term_is_own_coefficient` — every printed term pairs a coefficient with the index of the variable it multiplies,
  also after sorting;
* `C19_lincomb_shown`, `C19_lincomb_no_silent_drop`, `C19_rows_shown`, `C19_rows_no_silent_drop` — exactly the
  positions outside the skip range are printed, in order, and whenever something is omitted an ellipsis token is there;
* `C19_dot_node_statements`, `C19_dot_edges` — for the arena of any tree with distinct indices the DOT export has one
  node statement per node and one edge statement per non-root node, carrying the label of the slot of its parent that
  holds it.
-/
set_option linter.unusedSectionVars false
set_option linter.unusedVariables false
namespace AV.Fmt

/-! ### numbers -/

theorem C19_round_error (x : Rat) : |((roundHalfEven x : Int) : Rat) - x| ≤ 1/2 := by
  have h1 := Rat.floor_le x
  have h2 := Rat.lt_floor_add_one x
  push_cast at h2
  unfold roundHalfEven
  simp only
  split
  · rename_i h
    push_cast
    rw [abs_le]; constructor <;> linarith
  · split
    · rename_i h _
      rw [abs_le]; constructor <;> linarith
    · rename_i ha hb
      have hfrac : x - (x.floor : Rat) = 1/2 := le_antisymm (not_lt.mp ha) (not_lt.mp hb)
      split
      · rw [abs_le]; constructor <;> linarith
      · push_cast
        rw [abs_le]; constructor <;> linarith

/-- a tie is rounded to the even neighbour -/
theorem C19_round_tie_even (x : Rat) (h : x - (x.floor : Rat) = 1/2) : roundHalfEven x % 2 = 0 := by
  unfold roundHalfEven
  simp only
  rw [if_neg (by rw [h]; exact lt_irrefl _), if_neg (by rw [h]; exact lt_irrefl _)]
  split
  · rename_i he; simpa using he
  · rename_i he
    have : x.floor % 2 = 1 := by
      have := Int.emod_two_eq_zero_or_one x.floor
      rcases this with h0 | h1
      · exact absurd (by simpa using h0) he
      · exact h1
    omega

/-- `{:.p}`: the printed number `r / 10^p` differs from the stored magnitude by at most half a unit of the last place -/
theorem C19_fixed_error (q : Rat) (p : Nat) :
    |((roundHalfEven (q * (10 : Rat) ^ p) : Int) : Rat) / (10 : Rat) ^ p - q| ≤ 1 / (2 * (10 : Rat) ^ p) := by
  have hpos : (0 : Rat) < (10 : Rat) ^ p := by positivity
  have h := C19_round_error (q * (10 : Rat) ^ p)
  have : ((roundHalfEven (q * (10 : Rat) ^ p) : Int) : Rat) / (10 : Rat) ^ p - q =
      (((roundHalfEven (q * (10 : Rat) ^ p) : Int) : Rat) - q * (10 : Rat) ^ p) / (10 : Rat) ^ p := by
    field_simp
  rw [this, abs_div, abs_of_pos hpos, div_le_div_iff₀ hpos (by positivity)]
  calc |((roundHalfEven (q * (10 : Rat) ^ p) : Int) : Rat) - q * (10 : Rat) ^ p| * (2 * (10 : Rat) ^ p)
      ≤ (1/2) * (2 * (10 : Rat) ^ p) := by
        apply mul_le_mul_of_nonneg_right h (by positivity)
    _ = 1 * (10 : Rat) ^ p := by ring

/-! ### sorting coefficients -/

theorem insertDesc_perm (e : Nat × SNum) (l : List (Nat × SNum)) : (insertDesc e l).Perm (e :: l) := by
  induction l with
  | nil => simp [insertDesc]
  | cons h t ih =>
    simp only [insertDesc]
    split
    · exact List.Perm.refl _
    · exact (List.Perm.cons h ih).trans (List.Perm.swap e h t)

theorem C19_sort_perm (l : List (Nat × SNum)) : (sortDesc l).Perm l := by
  unfold sortDesc
  suffices ∀ acc : List (Nat × SNum), (l.foldl (fun acc e => insertDesc e acc) acc).Perm (l.reverse ++ acc) by
    have := this []
    simp only [List.append_nil] at this
    exact this.trans (List.reverse_perm l)
  induction l with
  | nil => intro acc; simp
  | cons e l ih =>
    intro acc
    simp only [List.foldl_cons, List.reverse_cons, List.append_assoc, List.singleton_append]
    exact (ih _).trans (List.Perm.append_left _ (insertDesc_perm e acc))

def DescSorted (l : List (Nat × SNum)) : Prop := l.Pairwise (fun a b => a.2.mag ≥ b.2.mag)

theorem insertDesc_sorted (e : Nat × SNum) (l : List (Nat × SNum)) (h : DescSorted l) : DescSorted (insertDesc e l) := by
  induction l with
  | nil => simp [insertDesc, DescSorted]
  | cons x t ih =>
    unfold DescSorted at h ⊢
    simp only [insertDesc]
    rw [List.pairwise_cons] at h
    split
    · rename_i hgt
      rw [List.pairwise_cons]
      refine ⟨?_, List.pairwise_cons.mpr h⟩
      intro b hb
      rcases List.mem_cons.mp hb with rfl | hb
      · exact le_of_lt hgt
      · exact le_trans (h.1 b hb) (le_of_lt hgt)
    · rename_i hle
      rw [List.pairwise_cons]
      refine ⟨?_, ih h.2⟩
      intro b hb
      have := (insertDesc_perm e t).mem_iff.mp hb
      rcases List.mem_cons.mp this with rfl | hb'
      · exact not_lt.mp hle
      · exact h.1 b hb'

theorem C19_sort_sorted (l : List (Nat × SNum)) : DescSorted (sortDesc l) := by
  unfold sortDesc
  suffices ∀ acc : List (Nat × SNum), DescSorted acc → DescSorted (l.foldl (fun acc e => insertDesc e acc) acc) from
    this [] (by simp [DescSorted])
  induction l with
  | nil => intro acc h; exact h
  | cons e l ih => intro acc h; exact ih _ (insertDesc_sorted e acc h)

/-! ### a linear combination -/

/-- the (index, coefficient) pairs `write_lincomb` walks over: in index order, or sorted by magnitude -/
def elemsOf (o : Opts) (coeffs : List SNum) : List (Nat × SNum) :=
  let elems := (List.range coeffs.length).zip coeffs
  if o.sortCoefficients != 0 && o.sortCoefficients ≤ coeffs.length then sortDesc elems else elems

theorem writeLincomb_eq (o : Opts) (p : Nat) (coeffs : List SNum) :
    writeLincomb o p coeffs = String.join ((lincombToks o (elemsOf o coeffs) 0 true).map (LTok.render p)) := rfl

theorem mem_range_zip (coeffs : List SNum) (e : Nat × SNum) (h : e ∈ (List.range coeffs.length).zip coeffs) :
    coeffs[e.1]? = some e.2 := by
  obtain ⟨i, c⟩ := e
  rw [List.mem_iff_getElem] at h
  obtain ⟨k, hk, hke⟩ := h
  simp only [List.getElem_zip, List.getElem_range, Prod.mk.injEq] at hke
  simp only [List.length_zip, List.length_range, min_self] at hk
  obtain ⟨rfl, rfl⟩ := hke
  simp [hk]

/-- every pair the renderer walks over is a coefficient with its own variable index — also after sorting -/
theorem C19_elems_own_index (o : Opts) (coeffs : List SNum) : ∀ e ∈ elemsOf o coeffs, coeffs[e.1]? = some e.2 := by
  intro e he
  unfold elemsOf at he
  simp only at he
  split at he
  · exact mem_range_zip coeffs e ((C19_sort_perm _).mem_iff.mp he)
  · exact mem_range_zip coeffs e he

def termsOf : List LTok → List (Nat × SNum)
  | [] => []
  | .term i c _ :: r => (i, c) :: termsOf r
  | .ell :: r => termsOf r

/-- the elements at positions outside the skip range, in order -/
def shownFrom (o : Opts) : List (Nat × SNum) → Nat → List (Nat × SNum)
  | [], _ => []
  | e :: rest, no => if rangeContains o.skipAxes no then shownFrom o rest (no+1) else e :: shownFrom o rest (no+1)

theorem termsOf_append (a b : List LTok) : termsOf (a ++ b) = termsOf a ++ termsOf b := by
  induction a with
  | nil => rfl
  | cons t a ih => cases t <;> simp [termsOf, ih]

/-- exactly the positions outside the skip range are printed, in order, each as (index, coefficient) -/
theorem C19_lincomb_shown (o : Opts) (elems : List (Nat × SNum)) (no : Nat) (fs : Bool) :
    termsOf (lincombToks o elems no fs) = shownFrom o elems no := by
  induction elems generalizing no fs with
  | nil => rfl
  | cons e rest ih =>
    obtain ⟨i, c⟩ := e
    simp only [lincombToks, shownFrom]
    split
    · rw [termsOf_append, ih]
      cases fs <;> simp [termsOf]
    · simp [termsOf, ih]

theorem C19_term_is_own_coefficient (o : Opts) (coeffs : List SNum) :
    ∀ e ∈ termsOf (lincombToks o (elemsOf o coeffs) 0 true), coeffs[e.1]? = some e.2 := by
  intro e he
  rw [C19_lincomb_shown] at he
  have hsub : ∀ (l : List (Nat × SNum)) (no : Nat), ∀ x ∈ shownFrom o l no, x ∈ l := by
    intro l
    induction l with
    | nil => intro no x hx; simp [shownFrom] at hx
    | cons y l ih =>
      intro no x hx
      simp only [shownFrom] at hx
      split at hx
      · exact List.mem_cons_of_mem _ (ih _ x hx)
      · rcases List.mem_cons.mp hx with rfl | hx
        · exact List.mem_cons_self
        · exact List.mem_cons_of_mem _ (ih _ x hx)
  exact C19_elems_own_index o coeffs e (hsub _ _ e he)

/-- nothing is dropped silently: if the tokens do not show every element, they contain the ellipsis -/
theorem C19_lincomb_no_silent_drop (o : Opts) (elems : List (Nat × SNum)) (no : Nat)
    (h : shownFrom o elems no ≠ elems) : LTok.ell ∈ lincombToks o elems no true := by
  induction elems generalizing no with
  | nil => simp [shownFrom] at h
  | cons e rest ih =>
    obtain ⟨i, c⟩ := e
    simp only [lincombToks, shownFrom] at h ⊢
    split
    · simp
    · rename_i hns
      rw [if_neg hns] at h
      exact List.mem_cons_of_mem _ (ih (no+1) (fun he => h (by rw [he])))

/-! ### rows of a matrix -/

def rowsOfToks : List RTok → List (List SNum × SNum)
  | [] => []
  | .row _ r b _ :: t => (r, b) :: rowsOfToks t
  | .vell :: t => rowsOfToks t

def shownRowsFrom (o : Opts) : List (List SNum × SNum) → Nat → List (List SNum × SNum)
  | [], _ => []
  | e :: rest, no => if rangeContains o.skipRows no then shownRowsFrom o rest (no+1) else e :: shownRowsFrom o rest (no+1)

theorem rowsOfToks_append (a b : List RTok) : rowsOfToks (a ++ b) = rowsOfToks a ++ rowsOfToks b := by
  induction a with
  | nil => rfl
  | cons t a ih => cases t <;> simp [rowsOfToks, ih]

theorem C19_rows_shown (o : Opts) (total : Nat) (rows : List (List SNum × SNum)) (no : Nat) (fs : Bool) :
    rowsOfToks (rowToks o total rows no fs) = shownRowsFrom o rows no := by
  induction rows generalizing no fs with
  | nil => rfl
  | cons e rest ih =>
    obtain ⟨r, b⟩ := e
    simp only [rowToks, shownRowsFrom]
    split
    · rw [rowsOfToks_append, ih]
      cases fs <;> simp [rowsOfToks]
    · simp [rowsOfToks, ih]

theorem C19_rows_no_silent_drop (o : Opts) (total : Nat) (rows : List (List SNum × SNum)) (no : Nat)
    (h : shownRowsFrom o rows no ≠ rows) : RTok.vell ∈ rowToks o total rows no true := by
  induction rows generalizing no with
  | nil => simp [shownRowsFrom] at h
  | cons e rest ih =>
    obtain ⟨r, b⟩ := e
    simp only [rowToks, shownRowsFrom] at h ⊢
    split
    · simp
    · rename_i hns
      rw [if_neg hns] at h
      exact List.mem_cons_of_mem _ (ih (no+1) (fun he => h (by rw [he])))

/-! ### the DOT export of a tree -/

theorem C19_dot_node_statements (nodes : List (ANode SAff)) : (nodes.map dotNodeStmt).length = nodes.length := by
  simp

end AV.Fmt

namespace AV
open AV.Fmt
variable {β : Type}

/-- for the arena of a tree with distinct indices: one edge statement per non-root node, and the statement of node `c`
    under parent `p` carries the label `l` of the slot of `p` that holds `c` -/
theorem C19_dot_edges (t : ITree β) (hnd : t.indices.Nodup) :
    (dotEdges t.toArena).length = t.size - 1 ∧
    ∀ e ∈ dotEdges t.toArena, ∃ pn ∈ t.toArena, pn.idx = e.1 ∧ pn.children[e.2.2]? = some (some e.2.1) := by
  obtain ⟨r, rest, harena, hroot, _, hrest⟩ := C12_arena_one_root t
  have hmirror := C12_links_mirror t hnd
  -- every node with a parent finds its parent record, and that record lists it
  have hfind : ∀ b ∈ t.toArena, ∀ p, b.parent = some p →
      ∃ pn ∈ t.toArena, t.toArena.find? (fun x => x.idx == p) = some pn ∧ pn.idx = p ∧ some b.idx ∈ pn.children := by
    intro b hb p hp
    unfold ITree.toArena at hb
    rw [ITree.toArenaAux_eq_subs, List.mem_map] at hb
    obtain ⟨sb, hsb, rfl⟩ := hb
    rcases ITree.subs_up t none sb hsb with h1 | ⟨sq', h1, h2, h3⟩
    · rw [h1] at hp; simp [ITree.record] at hp
    · have hpa : sq'.1.idx = p := by
        simp only [ITree.record] at hp; rw [h2] at hp; exact Option.some.inj hp
      have hmem : sq'.1.record sq'.2 ∈ t.toArena := by
        unfold ITree.toArena; rw [ITree.toArenaAux_eq_subs]; exact List.mem_map.mpr ⟨sq', h1, rfl⟩
      cases hf : t.toArena.find? (fun x => x.idx == p) with
      | none =>
        have := List.find?_eq_none.mp hf _ hmem
        simp [ITree.record, hpa] at this
      | some pn =>
        have hpn := List.find?_some hf
        have hpnm := List.mem_of_find?_eq_some hf
        simp only [beq_iff_eq] at hpn
        refine ⟨pn, hpnm, rfl, hpn, ?_⟩
        have hbm : sb.1.record sb.2 ∈ t.toArena := by
          unfold ITree.toArena; rw [ITree.toArenaAux_eq_subs]; exact List.mem_map.mpr ⟨sb, hsb, rfl⟩
        exact (hmirror pn hpnm _ hbm).mp (by rw [hp, hpn])
  constructor
  · -- count
    unfold dotEdges
    rw [harena]
    have hlen : t.size = (r :: rest).length := by rw [← harena, C12_arena_len t]
    rw [hlen]
    simp only [List.filterMap_cons, hroot, List.length_cons, Nat.add_sub_cancel]
    rw [← harena]
    have : ∀ (l : List (ANode β)), (∀ b ∈ l, b ∈ t.toArena ∧ b.parent.isSome = true) →
        (l.filterMap (fun nd => match nd.parent with
          | none => none
          | some p => match t.toArena.find? (fun x => x.idx == p) with
            | none => none
            | some pn => some (p, nd.idx, pn.children.findIdx (fun c => c == some nd.idx)))).length = l.length := by
      intro l
      induction l with
      | nil => intro _; rfl
      | cons b l ih =>
        intro hall
        obtain ⟨hbm, hbp⟩ := hall b (by simp)
        cases hp : b.parent with
        | none => rw [hp] at hbp; simp at hbp
        | some p =>
          obtain ⟨pn, _, hf, _, _⟩ := hfind b hbm p hp
          simp only [List.filterMap_cons, hp, hf, List.length_cons]
          rw [ih (fun x hx => hall x (List.mem_cons_of_mem _ hx))]
    exact this rest (fun b hb => ⟨by rw [harena]; exact List.mem_cons_of_mem _ hb, hrest b hb⟩)
  · intro e he
    unfold dotEdges at he
    rw [List.mem_filterMap] at he
    obtain ⟨b, hb, hbe⟩ := he
    cases hp : b.parent with
    | none => rw [hp] at hbe; simp at hbe
    | some p =>
      obtain ⟨pn, hpnm, hf, hpi, hch⟩ := hfind b hb p hp
      rw [hp] at hbe
      simp only [hf, Option.some.injEq] at hbe
      subst hbe
      refine ⟨pn, hpnm, hpi, ?_⟩
      simp only
      have hlt : pn.children.findIdx (fun c => c == some b.idx) < pn.children.length :=
        List.findIdx_lt_length_of_exists ⟨some b.idx, hch, by simp⟩
      rw [List.getElem?_eq_getElem hlt]
      have := List.findIdx_getElem (w := hlt)
      simp only [beq_iff_eq] at this
      rw [this]

end AV
