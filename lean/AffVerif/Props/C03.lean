import AffVerif.Model.Reduce
/-! # C03 (theorems added below as they are proved) -/
namespace AV
end AV
