import AffVerif.Proofs.PruneShape
import AffVerif.Proofs.ElimSound
import AffVerif.Props.C02
/-!
# C03 — pruning never changes the represented (partial) function

Part 1 (this file, proved): composition with pruning enabled and the lifted tree operators, which prune
while they copy.  For every LP backend that is right whenever it answers "infeasible" — and arbitrary
otherwise — the pruned result evaluates, at every input, exactly like the un-pruned composition: same
definedness, same value.  Removal only happens for edges whose closed path polytope is empty, and a decision is
skipped only when its other branch is such an edge (this is how `graftP` is defined; the theorem shows that
this is enough).  The cached states of the left operand enter through `InfSound` (a node marked infeasible has
an empty path region), which C05 establishes for every history.

Part 2: `infeasible_elimination` (the depth-first sweep with the three phases, deferred removal that never takes
the last child of a decision, and `forward_if_redundant`) preserves the function for every backend that is
right about infeasibility and every behaviour of the `mirror_points` heuristic (`C03_elim_sound`).
-/
set_option linter.unusedSectionVars false
set_option linter.unusedVariables false
namespace AV
variable {α : Type} [Field α] [LinearOrder α] [IsStrictOrderedRing α]

/-- pruned and un-pruned composition agree at every input, for every schema (function composition and the
    four lifted operators), every sound `explore` filter, every oracle state and every numbering of new nodes -/
theorem C03_prune_eq_unpruned {σ : Type} (S : Schema α) (ex : Explore σ α) (hex : ExploreSound ex)
    (n : Nat) (f g : PT α) (s : σ) (c c' : Nat) (x : List α)
    (hf : PT.PruneOK S g f) (hc : PT.InfSound [] f) :
    PT.eval (PT.composeP S ex n [] f g s c).1 x = PT.eval (PT.composeS S f g c').1 x :=
  PT.eval_composeP S ex hex n [] f g s c c' x (by intro h hh; simp at hh) hf hc

/-- `is_edge_feasible` only rejects edges with an empty closed path polytope, for every backend that is right
    about infeasibility -/
theorem C03_is_edge_feasible_sound {σ : Type} (tol : α) (lp : LPOracle σ α) (h : InfeasibleSound lp) :
    ExploreSound (isEdgeFeasible tol lp) :=
  isEdgeFeasible_sound tol lp h

/-- `f.compose::<true>(g)`: defined exactly when `f(x)` and `g(f(x))` are, with value `g(f(x))` -/
theorem C03_compose_prune {σ : Type} (tol : α) (lp : LPOracle σ α) (hlp : InfeasibleSound lp)
    (f g : PT α) (s : σ) (c : Nat) (x : List α) (n m p : Nat)
    (hx : x.length = n) (hf : PT.Shaped 2 n m f) (hg : PT.Shaped 2 m p g) (hc : PT.InfSound [] f) :
    PT.eval (PT.composeP Schema.compose (isEdgeFeasible tol lp) n [] f g s c).1 x
      = (PT.eval f x).bind (PT.eval g) := by
  rw [C03_prune_eq_unpruned Schema.compose _ (isEdgeFeasible_sound tol lp hlp) n f g s c c x
    (PT.pruneOK_of_shaped _ g f n m hf (fun t ht hm => PT.binOK_compose_of_shaped g t ht p (by rw [hm]; exact hg))) hc]
  exact C02_compose_law f g c x 2 n m p hx hf hg

/-- the lifted operators `a ∘p b` (they always prune): same function as the un-pruned lifting (C07 says what that is) -/
theorem C03_arith_prune {σ : Type} (tol : α) (lp : LPOracle σ α) (hlp : InfeasibleSound lp)
    (op : Aff α → Aff α → Aff α) (a b : PT α) (s : σ) (c c' : Nat) (x : List α) (n m : Nat)
    (ha : PT.Shaped 2 n m a) (hb : PT.Shaped 2 n m b) (hc : PT.InfSound [] a) :
    PT.eval (PT.composeP (Schema.arith op) (isEdgeFeasible tol lp) n [] a b s c).1 x
      = PT.eval (PT.composeS (Schema.arith op) a b c').1 x :=
  C03_prune_eq_unpruned (Schema.arith op) _ (isEdgeFeasible_sound tol lp hlp) n a b s c c' x
    (PT.pruneOK_of_shaped _ b a n m ha (fun t _ _ => PT.binOK_arith_of_shaped op b t n m hb)) hc

/-- `infeasible_elimination` never alters the represented partial function: same definedness, same value, at
    every input — for any LP backend that is right when it says "infeasible" and any `mirror_points` -/
theorem C03_elim_sound {σ : Type} (tol : α) (O : Oracles σ α) (hlp : InfeasibleSound O.lp)
    (n m : Nat) (t : PT α) (s : σ) (x : List α) (ht : PT.Shaped 2 n m t) (hc : PT.InfSound [] t) :
    PT.eval (infeasibleElimination tol O n t s).1 x = PT.eval t x :=
  PT.eval_infeasibleElimination tol O hlp n t s x (PT.elimOK_of_shaped t n m ht) hc

/-- a node is removed or by-passed only on an `Infeasible` verdict for its closed path polytope, which is sound:
    the decision procedure of a node never invents infeasibility -/
theorem C03_only_infeasible_paths_disappear {σ : Type} (tol : α) (O : Oracles σ α) (hlp : InfeasibleSound O.lp)
    (s : σ) (node : Nat) (pst : NState α) (path : List (Aff α)) (hyper : Aff α) (n : Nat)
    (h : (decideNode tol O s node pst path hyper n).1.isInfeasible = true) :
    ¬ ∃ x, InPath (path ++ [hyper]) x :=
  decideNode_sound tol O hlp s node pst path hyper n h

/-! ### non-vacuity -/

example : PT.InfSound ([] : List (Aff Rat)) exRelu := by
  simp [exRelu, PT.InfSound, PKids.InfSound]

/-- an oracle that never answers "infeasible" is sound; with it nothing is pruned -/
example : InfeasibleSound (fun (s : Unit) (_ : Aff Rat) (_ : List Rat) => (LPAnswer.unbounded, s)) := by
  intro s p c h; simp at h

end AV
