import AffVerif.Proofs.SchemaLemmas
import AffVerif.Proofs.ChainLemmas
import AffVerif.Proofs.KeepLemmas
import AffVerif.Proofs.TreeLemmas
import AffVerif.Props.C02
import AffVerif.Props.C04
import AffVerif.Props.C16
/-!
# C17 — predefined trees equal their mathematical definitions everywhere

For every dimension `n`, component `r < n`, parameter value and input of length `n` — breakpoints included,
because the comparisons in `Spec.*` are the very comparisons that decide the label (`≤` routes to the closed
side).  `Spec.onComp x r φ` replaces component `r` by `φ (x_r)` and leaves the others untouched.
Proved here: the six per-neuron activations, `from_poly` (total and partial), `class_characterization`, `inf_norm`
the `argmax` tournament, and `from_slice` + `remove_axes` (`C17_slice`: the restriction of any tree to an axis-aligned
slice, via the composition law of C02 and the fact that a tree composed behind `slice` ignores the fixed axes).
-/
set_option linter.unusedSectionVars false
set_option linter.unusedVariables false
namespace AV
variable {α : Type} [Field α] [LinearOrder α] [IsStrictOrderedRing α]

theorem C17_relu (n r : Nat) (x : List α) (hr : r < n) (hx : x.length = n) :
    PT.eval (Sch.partialReLU n r) x = some (Spec.onComp x r Spec.relu) := by
  unfold Sch.partialReLU
  rw [eval_dec _ _ _ _ x (by simp), label_unit n r x hr]
  unfold Spec.onComp Spec.relu
  by_cases h : x.getD r 0 ≤ 0
  · simp only [h, if_true, Option.bind_some, eval_leaf, apply_zeroIdx n r x hx]
  · simp only [h, if_false, Option.bind_some, eval_leaf, apply_identity n x hx, set_getD_self]

theorem C17_leaky_relu (n r : Nat) (a : α) (x : List α) (hr : r < n) (hx : x.length = n) :
    PT.eval (Sch.partialLeakyReLU n r a) x = some (Spec.onComp x r (Spec.leakyRelu a)) := by
  unfold Sch.partialLeakyReLU
  rw [eval_dec _ _ _ _ x (by simp), label_unit n r x hr]
  unfold Spec.onComp Spec.leakyRelu
  by_cases h : x.getD r 0 ≤ 0
  · simp only [h, if_true, Option.bind_some, eval_leaf, apply_diagIdx n r a x hx]
  · simp only [h, if_false, Option.bind_some, eval_leaf, apply_identity n x hx, set_getD_self]

theorem C17_hard_tanh (n r : Nat) (lo hi : α) (x : List α) (hr : r < n) (hx : x.length = n) :
    PT.eval (Sch.partialHardTanh n r lo hi) x = some (Spec.onComp x r (Spec.hardTanh lo hi)) := by
  unfold Sch.partialHardTanh
  rw [eval_dec _ _ _ _ x (by simp), label_axisPred n r _ _ x hr]
  unfold Spec.onComp Spec.hardTanh
  by_cases h : hi ≤ x.getD r 0
  · have h' : -1 * x.getD r 0 - -hi ≤ 0 := by linarith
    simp only [h', h, if_true, Option.bind_some, eval_leaf, apply_setConst n r hi x hx]
  · have h' : ¬ (-1 * x.getD r 0 - -hi ≤ 0) := by intro hc; apply h; linarith
    simp only [h', h, if_false, Option.bind_some]
    rw [eval_dec _ _ _ _ x (by simp), label_axisPred n r _ _ x hr]
    by_cases h2 : x.getD r 0 ≤ lo
    · have h2' : 1 * x.getD r 0 - lo ≤ 0 := by linarith
      simp only [h2', h2, if_true, Option.bind_some, eval_leaf, apply_setConst n r lo x hx]
    · have h2' : ¬ (1 * x.getD r 0 - lo ≤ 0) := by intro hc; apply h2; linarith
      simp only [h2', h2, if_false, Option.bind_some, eval_leaf, apply_identity n x hx, set_getD_self]

theorem C17_hard_shrink (n r : Nat) (lam : α) (x : List α) (hr : r < n) (hx : x.length = n) :
    PT.eval (Sch.partialHardShrink n r lam) x = some (Spec.onComp x r (Spec.hardShrink lam)) := by
  unfold Sch.partialHardShrink
  rw [eval_dec _ _ _ _ x (by simp), label_axisPred n r _ _ x hr]
  unfold Spec.onComp Spec.hardShrink
  by_cases h : lam < x.getD r 0
  · have h' : ¬ (1 * x.getD r 0 - lam ≤ 0) := by intro hc; linarith
    simp only [h', h, if_false, if_true, Option.bind_some, eval_leaf, apply_identity n x hx, set_getD_self]
  · have h' : 1 * x.getD r 0 - lam ≤ 0 := by push Not at h; linarith
    simp only [h', h, if_true, if_false, Option.bind_some]
    rw [eval_dec _ _ _ _ x (by simp), label_axisPred n r _ _ x hr]
    by_cases h2 : x.getD r 0 < -lam
    · have h2' : ¬ (-1 * x.getD r 0 - lam ≤ 0) := by intro hc; linarith
      simp only [h2', h2, if_false, if_true, Option.bind_some, eval_leaf, apply_identity n x hx, set_getD_self]
    · have h2' : -1 * x.getD r 0 - lam ≤ 0 := by push Not at h2; linarith
      simp only [h2', h2, if_true, if_false, Option.bind_some, eval_leaf, apply_zeroIdx n r x hx]

/-- hard sigmoid with the constants of the code as parameters: `three = 3`, `sixth` (the code uses the `f64`
    value of `1/6`), `half = 1/2`; instantiate with `sixth = 1/6` for the textbook function -/
theorem C17_hard_sigmoid (n r : Nat) (three sixth half : α) (x : List α) (hr : r < n) (hx : x.length = n) :
    PT.eval (Sch.partialHardSigmoid n r three sixth half) x =
      some (Spec.onComp x r (Spec.hardSigmoid three sixth half)) := by
  unfold Sch.partialHardSigmoid
  rw [eval_dec _ _ _ _ x (by simp), label_axisPred n r _ _ x hr]
  unfold Spec.onComp Spec.hardSigmoid
  by_cases h : three ≤ x.getD r 0
  · have h' : -1 * x.getD r 0 - -three ≤ 0 := by linarith
    simp only [h', h, if_true, Option.bind_some, eval_leaf, apply_setConst n r 1 x hx]
  · have h' : ¬ (-1 * x.getD r 0 - -three ≤ 0) := by intro hc; apply h; linarith
    simp only [h', h, if_false, Option.bind_some]
    rw [eval_dec _ _ _ _ x (by simp), label_axisPred n r _ _ x hr]
    by_cases h2 : x.getD r 0 ≤ -three
    · have h2' : 1 * x.getD r 0 - -three ≤ 0 := by linarith
      simp only [h2', h2, if_true, Option.bind_some, eval_leaf, apply_setConst n r 0 x hx]
    · have h2' : ¬ (1 * x.getD r 0 - -three ≤ 0) := by intro hc; apply h2; linarith
      simp only [h2', h2, if_false, Option.bind_some, eval_leaf, apply_scaleShift n r sixth half x hx]

theorem C17_threshold (n r : Nat) (thr v : α) (x : List α) (hr : r < n) (hx : x.length = n) :
    PT.eval (Sch.partialThreshold n r thr v) x = some (Spec.onComp x r (Spec.threshold thr v)) := by
  unfold Sch.partialThreshold
  rw [eval_dec _ _ _ _ x (by simp), label_axisPred n r _ _ x hr]
  unfold Spec.onComp Spec.threshold
  by_cases h : x.getD r 0 ≤ thr
  · have h' : 1 * x.getD r 0 - thr ≤ 0 := by linarith
    simp only [h', h, if_true, Option.bind_some, eval_leaf, apply_setConst n r v x hx]
  · have h' : ¬ (1 * x.getD r 0 - thr ≤ 0) := by intro hc; apply h; linarith
    simp only [h', h, if_false, Option.bind_some, eval_leaf, apply_identity n x hx, set_getD_self]


/-! ### chains of one-row decisions -/

theorem oneRow_row (p : Aff α) (i : Nat) : OneRow (p.row i) := ⟨_, _, rfl, rfl⟩

theorem mem_rows_iff (p : Aff α) (hwf : p.WF) (x : List α) :
    (∀ r ∈ (List.range p.mat.length).map (fun i => p.row i), Poly.Mem r x) ↔ Poly.Mem p x := by
  have hlen := hwf.2
  constructor
  · intro h rb hrb
    unfold Aff.rows at hrb
    obtain ⟨i, hi, hie⟩ := List.mem_iff_getElem.mp hrb
    simp only [List.length_zip, hlen, min_self] at hi
    have := h (p.row i) (List.mem_map.mpr ⟨i, List.mem_range.mpr hi, rfl⟩)
    rw [oneRow_mem (p.row i) _ _ rfl rfl] at this
    simp only [List.getElem_zip] at hie
    rw [← hie]
    simpa [List.getD_eq_getElem?_getD, hi, hlen ▸ hi] using this
  · intro h r hr
    obtain ⟨i, hi, rfl⟩ := List.mem_map.mp hr
    have hi' := List.mem_range.mp hi
    rw [oneRow_mem (p.row i) _ _ rfl rfl]
    have hb : i < p.bias.length := by rw [hlen]; exact hi'
    have : (p.mat[i], p.bias[i]) ∈ p.rows := by
      unfold Aff.rows
      exact List.mem_iff_getElem.mpr ⟨i, by simp [hi', hb], by simp⟩
    have := h _ this
    simpa [List.getD_eq_getElem?_getD, hi', hb] using this

/-- `from_poly(P, f_true, f_false)`: `f_true` on the closed polytope, `f_false` (or undefined) outside -/
theorem C17_from_poly (p fT : Aff α) (fF : Option (Aff α)) (hwf : p.WF) (x : List α) :
    (Poly.Mem p x → PT.eval (Sch.fromPoly p fT fF) x = some (fT.apply x)) ∧
    (¬ Poly.Mem p x → PT.eval (Sch.fromPoly p fT fF) x = fF.map (·.apply x)) := by
  unfold Sch.fromPoly
  have hiff := mem_rows_iff p hwf x
  cases hrows : (List.range p.mat.length).map (fun i => p.row i) with
  | nil =>
    rw [hrows] at hiff
    simp only
    refine ⟨fun _ => eval_leaf _ _ _, fun hn => absurd (hiff.mp (by simp)) hn⟩
  | cons r rs =>
    rw [hrows] at hiff
    simp only
    have hone : ∀ q ∈ r :: rs, OneRow q := by
      intro q hq
      rw [← hrows] at hq
      obtain ⟨i, _, rfl⟩ := List.mem_map.mp hq
      exact oneRow_row p i
    obtain ⟨h1, h0⟩ := eval_chainNode fF fT 0 r rs 1 x (hone r (by simp)) (fun q hq => hone q (by simp [hq]))
    exact ⟨fun hm => h1 (hiff.mpr hm), fun hn => h0 (fun hall => hn (hiff.mp hall))⟩

theorem mem_subtraction (n l r : Nat) (x : List α) (hl : l < n) (hr : r < n) (hlr : l ≠ r) :
    Poly.Mem (Aff.subtraction n l r : Aff α) x ↔ x.getD l 0 ≤ x.getD r 0 := by
  rw [oneRow_mem _ _ _ rfl rfl, dot_subtraction_row n l r x hl hr hlr]
  constructor <;> intro h <;> linarith

theorem all_getD (x : List α) (P : α → Bool) : x.all P = true ↔ ∀ i < x.length, P (x.getD i 0) = true := by
  rw [List.all_eq_true]
  constructor
  · intro h i hi
    have : x.getD i 0 = x[i] := by simp [List.getD_eq_getElem?_getD, hi]
    rw [this]; exact h _ (List.getElem_mem hi)
  · intro h v hv
    obtain ⟨i, hi, rfl⟩ := List.mem_iff_getElem.mp hv
    have := h i hi
    simpa [List.getD_eq_getElem?_getD, hi] using this

/-- a chain that ends in the constant `1` where every row holds and in the constant `0` elsewhere -/
theorem eval_indicatorChain (n : Nat) (rows : List (Aff α)) (x : List α) (P : Bool)
    (hone : ∀ q ∈ rows, OneRow q) (hall : (∀ r ∈ rows, Poly.Mem r x) ↔ P = true) :
    PT.eval (match rows with
      | [] => Sch.leaf 0 (Aff.constant n 1)
      | r :: rs => Sch.chainNode (some (Aff.constant n (0 : α))) (Aff.constant n 1) 0 r rs 1) x =
      some [if P then 1 else 0] := by
  cases rows with
  | nil =>
    simp only
    rw [eval_leaf, apply_constant, hall.mp (by simp)]
    simp
  | cons r rs =>
    simp only
    obtain ⟨h1, h0⟩ := eval_chainNode (some (Aff.constant n (0 : α))) (Aff.constant n 1) 0 r rs 1 x
      (hone r (by simp)) (fun q hq => hone q (by simp [hq]))
    by_cases hm : P = true
    · rw [h1 (hall.mpr hm), apply_constant, hm]; simp
    · rw [h0 (fun h => hm (hall.mp h))]
      simp only [Option.map_some, apply_constant]
      have : P = false := by simpa using hm
      rw [this]; simp

/-- `class_characterization(dim, c)`: `1` where component `c` is maximal (ties included), `0` elsewhere -/
theorem C17_class_char (n c : Nat) (x : List α) (hc : c < n) (hx : x.length = n) :
    PT.eval (Sch.classChar n c : PT α) x = some [if Spec.isMax x c then 1 else 0] := by
  unfold Sch.classChar
  have hall : (∀ r ∈ ((List.range n).filter (· ≠ c)).map (fun i => (Aff.subtraction n i c : Aff α)), Poly.Mem r x) ↔
      Spec.isMax x c = true := by
    unfold Spec.isMax
    rw [all_getD, hx]
    constructor
    · intro h i hi
      by_cases hic : i = c
      · subst hic; simp
      · have := h (Aff.subtraction n i c) (List.mem_map.mpr ⟨i, by simp [hi, hic], rfl⟩)
        simpa using (mem_subtraction n i c x hi hc hic).mp this
    · intro h r hr
      obtain ⟨i, hi, rfl⟩ := List.mem_map.mp hr
      simp only [List.mem_filter, List.mem_range, decide_eq_true_eq] at hi
      rw [mem_subtraction n i c x hi.1 hc hi.2]
      simpa using h i hi.1
  have hone : ∀ q ∈ ((List.range n).filter (· ≠ c)).map (fun i => (Aff.subtraction n i c : Aff α)), OneRow q := by
    intro q hq
    obtain ⟨i, _, rfl⟩ := List.mem_map.mp hq
    exact ⟨_, _, rfl, rfl⟩
  exact eval_indicatorChain n _ x _ hone hall

theorem mem_axisPred (n i : Nat) (c b : α) (x : List α) (hi : i < n) :
    Poly.Mem (Sch.axisPred n i c b : Aff α) x ↔ c * x.getD i 0 ≤ b := by
  rw [oneRow_mem _ _ _ rfl rfl, dot_unitVec]
  simp [hi]

/-- `inf_norm(dim, min, max)`: `1` inside the box (closed), `0` outside -/
theorem C17_inf_norm (n : Nat) (lo hi : Option α) (x : List α) (hx : x.length = n) :
    PT.eval (Sch.infNorm n lo hi : PT α) x = some [if Spec.inBounds x lo hi then 1 else 0] := by
  unfold Sch.infNorm
  simp only
  apply eval_indicatorChain
  · intro q hq
    rcases List.mem_append.mp hq with hq | hq
    · cases lo with
      | none => simp at hq
      | some l => obtain ⟨i, _, rfl⟩ := List.mem_map.mp hq; exact ⟨_, _, rfl, rfl⟩
    · cases hi with
      | none => simp at hq
      | some u => obtain ⟨i, _, rfl⟩ := List.mem_map.mp hq; exact ⟨_, _, rfl, rfl⟩
  · unfold Spec.inBounds
    rw [all_getD, hx]
    constructor
    · intro h i hi'
      simp only [Bool.and_eq_true]
      constructor
      · cases lo with
        | none => rfl
        | some l =>
          have := h (Sch.axisPred n i (-1) (-l)) (List.mem_append_left _ (List.mem_map.mpr ⟨i, List.mem_range.mpr hi', rfl⟩))
          rw [mem_axisPred n i _ _ x hi'] at this
          simp only [decide_eq_true_eq]; linarith
      · cases hi with
        | none => rfl
        | some u =>
          have := h (Sch.axisPred n i 1 u) (List.mem_append_right _ (List.mem_map.mpr ⟨i, List.mem_range.mpr hi', rfl⟩))
          rw [mem_axisPred n i _ _ x hi'] at this
          simp only [decide_eq_true_eq]; linarith
    · intro h r hr
      rcases List.mem_append.mp hr with hr | hr
      · cases lo with
        | none => simp at hr
        | some l =>
          obtain ⟨i, hi', rfl⟩ := List.mem_map.mp hr
          have hi'' := List.mem_range.mp hi'
          rw [mem_axisPred n i _ _ x hi'']
          have := (h i hi'')
          simp only [Bool.and_eq_true, decide_eq_true_eq] at this
          linarith [this.1]
      · cases hi with
        | none => simp at hr
        | some u =>
          obtain ⟨i, hi', rfl⟩ := List.mem_map.mp hr
          have hi'' := List.mem_range.mp hi'
          rw [mem_axisPred n i _ _ x hi'']
          have := (h i hi'')
          simp only [Bool.and_eq_true, decide_eq_true_eq] at this
          linarith [this.2]

/-! ### the `argmax` tournament -/

theorem drop_eq_getD_cons (x : List α) (k : Nat) (hk : k < x.length) : x.drop k = x.getD k 0 :: x.drop (k+1) := by
  rw [List.drop_eq_getElem_cons hk]
  simp [List.getD_eq_getElem?_getD, hk]

theorem eval_argmaxLeafPair (n : Nat) (ofNat : Nat → α) (idx mf mt c : Nat) (x : List α) (hx : x.length = n)
    (hlt : mt < mf) (hmf : mf < n) :
    PT.eval (Sch.dec idx (Aff.subtraction n mf mt) (some (Sch.leaf c (Aff.constant n (ofNat mf))))
      (some (Sch.leaf (c+1) (Aff.constant n (ofNat mt))))) x =
      some [ofNat (if x.getD mf 0 ≤ x.getD mt 0 then mt else mf)] := by
  rw [eval_dec _ _ _ _ x (by simp)]
  obtain ⟨l1, l0⟩ := oneRow_label (Aff.subtraction n mf mt : Aff α) ⟨_, _, rfl, rfl⟩ x
  have hmem := mem_subtraction n mf mt x hmf (by omega) (by omega)
  by_cases h : x.getD mf 0 ≤ x.getD mt 0
  · rw [l1 (hmem.mpr h), if_pos h]; simp [eval_leaf, apply_constant]
  · rw [l0 (fun hm => h (hmem.mp hm)), if_neg h]; simp [eval_leaf, apply_constant]

/-- the node that compares component `mf` with the current maximiser `mt` computes the arg-max of the remaining
    components `mf, mf+1, …` against `mt` — first maximiser wins ties, as in `Spec.argmax` -/
theorem eval_argmaxNode (n : Nat) (ofNat : Nat → α) (x : List α) (hx : x.length = n) :
    ∀ (fuel idx mf mt c : Nat), mt < mf → mf < n → n ≤ mf + 1 + fuel →
      PT.eval (Sch.argmaxNode n ofNat fuel idx (Aff.subtraction n mf mt) mf mt c).1 x =
        some [ofNat (Spec.argmaxFrom (x.drop mf) mf mt (x.getD mt 0))] := by
  intro fuel
  induction fuel with
  | zero =>
    intro idx mf mt c hlt hmf hn
    have hlast : mf + 1 = n := by omega
    simp only [Sch.argmaxNode]
    rw [eval_argmaxLeafPair n ofNat idx mf mt c x hx hlt hmf, drop_eq_getD_cons x mf (by omega)]
    have : x.drop (mf+1) = [] := List.drop_eq_nil_of_le (by omega)
    rw [this]
    simp only [Spec.argmaxFrom]
  | succ fuel ih =>
    intro idx mf mt c hlt hmf hn
    simp only [Sch.argmaxNode]
    split
    · rename_i hmore
      rw [eval_dec _ _ _ _ x (by simp)]
      obtain ⟨l1, l0⟩ := oneRow_label (Aff.subtraction n mf mt : Aff α) ⟨_, _, rfl, rfl⟩ x
      have hmem := mem_subtraction n mf mt x hmf (by omega) (by omega)
      rw [drop_eq_getD_cons x mf (by omega)]
      simp only [Spec.argmaxFrom]
      by_cases h : x.getD mf 0 ≤ x.getD mt 0
      · rw [l1 (hmem.mpr h), if_pos h]
        simp only [Option.bind_some]
        exact ih (c+1) (mf+1) mt (c+2) (by omega) hmore (by omega)
      · rw [l0 (fun hm => h (hmem.mp hm)), if_neg h]
        simp only [Option.bind_some]
        exact ih c (mf+1) mf _ (by omega) hmore (by omega)
    · rename_i hlast
      rw [eval_argmaxLeafPair n ofNat idx mf mt c x hx hlt hmf, drop_eq_getD_cons x mf (by omega)]
      have : x.drop (mf+1) = [] := List.drop_eq_nil_of_le (by omega)
      rw [this]
      simp only [Spec.argmaxFrom]

/-- `argmax(dim)`: the index of the first maximal component, as a one-component vector -/
theorem C17_argmax (n : Nat) (ofNat : Nat → α) (x : List α) (hn : 2 ≤ n) (hx : x.length = n) :
    PT.eval (Sch.argmax n ofNat) x = some [ofNat (Spec.argmax x)] := by
  unfold Sch.argmax
  rw [eval_argmaxNode n ofNat x hx n 0 1 0 1 (by omega) (by omega) (by omega)]
  cases x with
  | nil => simp at hx; omega
  | cons v vs => simp [Spec.argmax]

/-! non-vacuity: ReLU on the second of three components, at the breakpoint and on both sides -/
example : PT.eval (Sch.partialReLU 3 1 : PT Rat) [5, 0, -2] = some [5, 0, -2] := by decide +kernel
example : PT.eval (Sch.partialReLU 3 1 : PT Rat) [5, -7, -2] = some [5, 0, -2] := by decide +kernel
example : PT.eval (Sch.partialHardShrink 1 0 (2 : Rat)) [2] = some [0] := by decide +kernel

/-! ### `from_slice` + `remove_axes` -/

/-- every row of a map has `n` entries and vanishes on the dropped axes -/
def Aff.FreeOf (n : Nat) (p : Nat → Bool) (a : Aff α) : Prop :=
  ∀ r ∈ a.mat, r.length = n ∧ ∀ j < n, p j = false → r.getD j 0 = 0

mutual
def PT.FreeOf (n : Nat) (p : Nat → Bool) : PT α → Prop
  | .node _ c ks => Aff.FreeOf n p c.aff ∧ PKids.FreeOf n p ks
def PKids.FreeOf (n : Nat) (p : Nat → Bool) : PKids α → Prop
  | .nil => True
  | .cons none r => PKids.FreeOf n p r
  | .cons (some t) r => PT.FreeOf n p t ∧ PKids.FreeOf n p r
end

theorem labelBits_map (f : List α → List α) (M : Mat α) (b x y : List α) (h : ∀ r ∈ M, dot (f r) y = dot r x) :
    labelBits (M.map f) b y = labelBits M b x := by
  induction M generalizing b with
  | nil => simp [labelBits]
  | cons r rs ih =>
    cases b with
    | nil => simp [labelBits]
    | cons b0 bs =>
      simp only [List.map_cons, labelBits]
      rw [h r (by simp), ih bs (fun r' hr' => h r' (by simp [hr']))]

theorem PKids.removeAxesK_allNone (keep : List Nat) (ks : PKids α) :
    (Sch.removeAxesK keep ks).allNone = ks.allNone := by
  match ks with
  | .nil => simp [Sch.removeAxesK, IKids.allNone]
  | .cons none r => simp [Sch.removeAxesK, IKids.allNone, PKids.removeAxesK_allNone keep r]
  | .cons (some t) r => simp [Sch.removeAxesK, IKids.allNone]

mutual
/-- `remove_axes` on a tree that does not look at the dropped axes: the value at the kept coordinates of `x` is the
    value of the tree at `x` -/
theorem PT.eval_removeAxes (n : Nat) (p : Nat → Bool) (t : PT α) (x : List α) (hx : x.length = n)
    (hf : PT.FreeOf n p t) :
    PT.eval (Sch.removeAxes (keepOf n p) t) ((keepOf n p).map (fun j => x.getD j 0)) = PT.eval t x := by
  match t with
  | .node i c ks =>
    unfold PT.FreeOf at hf
    have hrow : ∀ r ∈ c.aff.mat, dot ((keepOf n p).map (fun j => r.getD j 0)) ((keepOf n p).map (fun j => x.getD j 0)) = dot r x :=
      fun r hr => dot_keep n p r x (hf.1 r hr).1 hx (hf.1 r hr).2
    simp only [Sch.removeAxes, PT.eval, PKids.removeAxesK_allNone]
    split
    · congr 1
      unfold Aff.apply
      congr 1
      simp only [matVec, List.map_map]
      apply List.map_congr_left
      intro r hr
      exact hrow r hr
    · simp only [Aff.label]
      rw [labelBits_map _ _ _ x _ hrow]
      exact PKids.evalAt_removeAxes n p ks (c.aff.label x) x hx hf.2
theorem PKids.evalAt_removeAxes (n : Nat) (p : Nat → Bool) (ks : PKids α) (l : Nat) (x : List α) (hx : x.length = n)
    (hf : PKids.FreeOf n p ks) :
    PKids.evalAt (Sch.removeAxesK (keepOf n p) ks) l ((keepOf n p).map (fun j => x.getD j 0)) = PKids.evalAt ks l x := by
  match ks, l with
  | .nil, _ => simp [Sch.removeAxesK, PKids.evalAt]
  | .cons none r, 0 => simp [Sch.removeAxesK, PKids.evalAt]
  | .cons (some t) r, 0 =>
    unfold PKids.FreeOf at hf
    simp only [Sch.removeAxesK, PKids.evalAt]
    exact PT.eval_removeAxes n p t x hx hf.1
  | .cons none r, l+1 =>
    unfold PKids.FreeOf at hf
    simp only [Sch.removeAxesK, PKids.evalAt]
    exact PKids.evalAt_removeAxes n p r l x hx hf
  | .cons (some t) r, l+1 =>
    unfold PKids.FreeOf at hf
    simp only [Sch.removeAxesK, PKids.evalAt]
    exact PKids.evalAt_removeAxes n p r l x hx hf.2
end


/-- column `j` of the matrix of `s` is zero for every dropped axis `j` -/
def ColZero (n : Nat) (p : Nat → Bool) (s : Aff α) : Prop :=
  ∀ j < n, p j = false → ∀ e ∈ matVec s.mat (unitVec n j 1), e = 0

/-- a row of `A·S` does not look at the axes on which `S` has a zero column -/
theorem vecMat_free (n : Nat) (p : Nat → Bool) (s : Aff α) (hs : ∀ b ∈ s.mat, b.length = n) (hc : ColZero n p s)
    (r0 : List α) (hr0 : r0.length = s.mat.length) :
    (vecMat n r0 s.mat).length = n ∧ ∀ j < n, p j = false → (vecMat n r0 s.mat).getD j 0 = 0 := by
  refine ⟨vecMat_length n r0 s.mat hs, ?_⟩
  intro j hj hp
  have h1 : dot (unitVec n j 1) (vecMat n r0 s.mat) = (vecMat n r0 s.mat).getD j 0 := by
    rw [dot_unitVec]; simp [hj]
  rw [← h1, dot_comm, dot_vecMat n r0 s.mat _ hs hr0, dot_comm]
  exact dot_all_zero _ _ (hc j hj hp)

theorem matMul_free (n : Nat) (p : Nat → Bool) (s : Aff α) (hs : ∀ b ∈ s.mat, b.length = n) (hc : ColZero n p s)
    (M : Mat α) (hM : ∀ r ∈ M, r.length = s.mat.length) :
    ∀ r ∈ matMul n M s.mat, r.length = n ∧ ∀ j < n, p j = false → r.getD j 0 = 0 := by
  intro r hr
  simp only [matMul, List.mem_map] at hr
  obtain ⟨r0, hr0, rfl⟩ := hr
  exact vecMat_free n p s hs hc r0 (hM r0 hr0)

theorem upd_free (n : Nat) (p : Nat → Bool) (s : Aff α) (hn : s.indim = n) (hs : ∀ b ∈ s.mat, b.length = n)
    (hc : ColZero n p s) (o : Aff α) (ho : ∀ r ∈ o.mat, r.length = s.mat.length) (leaf : Bool) :
    Aff.FreeOf n p (Schema.compose.upd leaf o s) := by
  unfold Aff.FreeOf Schema.upd Schema.compose
  cases leaf
  · simp only [Bool.false_eq_true, if_false, Aff.updDecision, hn]
    exact matMul_free n p s hs hc o.mat ho
  · simp only [if_true, Aff.compose, hn]
    exact matMul_free n p s hs hc o.mat ho

mutual
theorem PT.graft_free (n : Nat) (p : Nat → Bool) (s : Aff α) (hn : s.indim = n) (hs : ∀ b ∈ s.mat, b.length = n)
    (hc : ColZero n p s) (K m : Nat) (g : PT α) (c : Nat) (hg : PT.Shaped K s.mat.length m g) :
    PT.FreeOf n p (PT.graft Schema.compose g s c).1 := by
  match g with
  | .node j gc gk =>
    obtain ⟨gwf, gin, _, _, _, gks⟩ := hg
    simp only [PT.graft, PT.FreeOf, Content.new]
    exact ⟨upd_free n p s hn hs hc gc.aff (fun r hr => by rw [gwf.1 r hr, gin]) _, PKids.graft_free n p s hn hs hc K m gk (c+1) gks⟩
theorem PKids.graft_free (n : Nat) (p : Nat → Bool) (s : Aff α) (hn : s.indim = n) (hs : ∀ b ∈ s.mat, b.length = n)
    (hc : ColZero n p s) (K m : Nat) (ks : PKids α) (c : Nat) (hg : PKids.Shaped K s.mat.length m ks) :
    PKids.FreeOf n p (PKids.graft Schema.compose ks s c).1 := by
  match ks with
  | .nil => simp [PKids.graft, PKids.FreeOf]
  | .cons none r =>
    unfold PKids.Shaped at hg
    simp only [PKids.graft, PKids.FreeOf]
    exact PKids.graft_free n p s hn hs hc K m r c hg
  | .cons (some t) r =>
    unfold PKids.Shaped at hg
    simp only [PKids.graft, PKids.FreeOf]
    exact ⟨PT.graft_free n p s hn hs hc K m t c hg.1, PKids.graft_free n p s hn hs hc K m r _ hg.2⟩
end


theorem slice_mat_rows (ref : List (Option α)) : ∀ b ∈ (Aff.slice ref : Aff α).mat, b.length = ref.length := by
  intro b hb
  simp only [Aff.slice, diag, List.mem_map, List.length_map] at hb
  obtain ⟨i, _, rfl⟩ := hb
  exact unitVec_length _ _ _

theorem slice_mat_length (ref : List (Option α)) : (Aff.slice ref : Aff α).mat.length = ref.length := by
  simp [Aff.slice, diag]

theorem slice_wf (ref : List (Option α)) : (Aff.slice ref : Aff α).WF :=
  ⟨slice_mat_rows ref, by simp [Aff.slice, diag]⟩

theorem getD_unitVec (n i k : Nat) (c : α) (hk : k < n) : (unitVec n i c).getD k 0 = if k = i then c else 0 := by
  simp [unitVec, List.getD_eq_getElem?_getD, List.getElem?_map, List.getElem?_range hk]

theorem slice_colZero (ref : List (Option α)) :
    ColZero ref.length (fun j => (ref.getD j none).isNone) (Aff.slice ref : Aff α) := by
  intro j hj hp e he
  simp only [Aff.slice, diag, List.length_map] at he
  rw [matVec_diagLike] at he
  simp only [List.mem_map, List.mem_range] at he
  obtain ⟨k, hk, rfl⟩ := he
  rw [getD_unitVec _ _ _ _ hk]
  by_cases hkj : k = j
  · subst hkj
    simp only [if_true, mul_one]
    simp only [List.getD_eq_getElem?_getD, List.getElem?_map, List.getElem?_eq_getElem hk, Option.map_some,
      Option.getD_some] at hp ⊢
    cases h : ref[k] with
    | none => simp [h] at hp
    | some v => simp
  · simp [hkj]

/-- `from_slice(ref).compose(g)` followed by `remove_axes(free axes)` is the restriction of `g` to the slice: its value
    at the free coordinates of a point `x` is the value of `g` at `x` with the fixed axes set to the reference values -/
theorem C17_slice (K m : Nat) (g : PT α) (ref : List (Option α)) (x : List α) (hx : x.length = ref.length)
    (hg : PT.Shaped K ref.length m g) :
    PT.eval (Sch.removeAxes (keepOf ref.length (fun j => (ref.getD j none).isNone))
        (PT.compose (PT.fromAff K (Aff.slice ref)) g))
      ((keepOf ref.length (fun j => (ref.getD j none).isNone)).map (fun j => x.getD j 0))
    = PT.eval g ((List.range ref.length).map (fun k => match ref.getD k none with | none => x.getD k 0 | some v => v)) := by
  have hfree : PT.FreeOf ref.length (fun j => (ref.getD j none).isNone) (PT.compose (PT.fromAff K (Aff.slice ref)) g) := by
    unfold PT.compose PT.fromAff
    match g, hg with
    | .node j gc gk, hg =>
      obtain ⟨gwf, gin, _, _, _, gks⟩ := hg
      simp only [PT.composeS, IKids.allNone_empty, if_true, PT.FreeOf, Content.new]
      exact ⟨upd_free _ _ _ (by simp [Aff.slice]) (slice_mat_rows ref) (slice_colZero ref) gc.aff
          (fun r hr => by rw [gwf.1 r hr, gin, slice_mat_length]) _,
        PKids.graft_free _ _ _ (by simp [Aff.slice]) (slice_mat_rows ref) (slice_colZero ref) K m gk _
          (by rw [slice_mat_length]; exact gks)⟩
  rw [PT.eval_removeAxes ref.length _ _ x hx hfree]
  have hS : PT.Shaped K ref.length ref.length (PT.fromAff K (Aff.slice ref : Aff α)) := by
    have := C04_ctor_from_aff K (Aff.slice ref : Aff α) (slice_wf ref)
    simpa [Aff.slice, Aff.outdim, diag] using this
  rw [C02_compose_law' _ g x K ref.length ref.length m hx hS hg]
  simp only [PT.fromAff, PT.eval, IKids.allNone_empty, if_true, Option.bind_some, Content.new]
  rw [C16_slice]
  rfl

end AV
