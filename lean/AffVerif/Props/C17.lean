import AffVerif.Proofs.SchemaLemmas
/-!
# C17 — predefined trees equal their mathematical definitions everywhere

For every dimension `n`, component `r < n`, parameter value and input of length `n` — breakpoints included,
because the comparisons in `Spec.*` are the very comparisons that decide the label (`≤` routes to the closed
side).  `Spec.onComp x r φ` replaces component `r` by `φ (x_r)` and leaves the others untouched.
Proved here: the six per-neuron activations.  `argmax`, `class_characterization`, `inf_norm`, `from_poly` and
`from_slice`/`remove_axes` are covered by the correspondence check with exact comparison of the generated trees
against the model trees and of their values at breakpoints and ties; their theorems are listed as open in DESIGN.md.
-/
set_option linter.unusedSectionVars false
set_option linter.unusedVariables false
namespace AV
variable {α : Type} [Field α] [LinearOrder α] [IsStrictOrderedRing α]

theorem C17_relu (n r : Nat) (x : List α) (hr : r < n) (hx : x.length = n) :
    PT.eval (Sch.partialReLU n r) x = some (Spec.onComp x r Spec.relu) := by
  unfold Sch.partialReLU
  rw [eval_dec _ _ _ _ x (by simp), label_unit n r x hr]
  unfold Spec.onComp Spec.relu
  by_cases h : x.getD r 0 ≤ 0
  · simp only [h, if_true, Option.bind_some, eval_leaf, apply_zeroIdx n r x hx]
  · simp only [h, if_false, Option.bind_some, eval_leaf, apply_identity n x hx, set_getD_self]

theorem C17_leaky_relu (n r : Nat) (a : α) (x : List α) (hr : r < n) (hx : x.length = n) :
    PT.eval (Sch.partialLeakyReLU n r a) x = some (Spec.onComp x r (Spec.leakyRelu a)) := by
  unfold Sch.partialLeakyReLU
  rw [eval_dec _ _ _ _ x (by simp), label_unit n r x hr]
  unfold Spec.onComp Spec.leakyRelu
  by_cases h : x.getD r 0 ≤ 0
  · simp only [h, if_true, Option.bind_some, eval_leaf, apply_diagIdx n r a x hx]
  · simp only [h, if_false, Option.bind_some, eval_leaf, apply_identity n x hx, set_getD_self]

theorem C17_hard_tanh (n r : Nat) (lo hi : α) (x : List α) (hr : r < n) (hx : x.length = n) :
    PT.eval (Sch.partialHardTanh n r lo hi) x = some (Spec.onComp x r (Spec.hardTanh lo hi)) := by
  unfold Sch.partialHardTanh
  rw [eval_dec _ _ _ _ x (by simp), label_axisPred n r _ _ x hr]
  unfold Spec.onComp Spec.hardTanh
  by_cases h : hi ≤ x.getD r 0
  · have h' : -1 * x.getD r 0 - -hi ≤ 0 := by linarith
    simp only [h', h, if_true, Option.bind_some, eval_leaf, apply_setConst n r hi x hx]
  · have h' : ¬ (-1 * x.getD r 0 - -hi ≤ 0) := by intro hc; apply h; linarith
    simp only [h', h, if_false, Option.bind_some]
    rw [eval_dec _ _ _ _ x (by simp), label_axisPred n r _ _ x hr]
    by_cases h2 : x.getD r 0 ≤ lo
    · have h2' : 1 * x.getD r 0 - lo ≤ 0 := by linarith
      simp only [h2', h2, if_true, Option.bind_some, eval_leaf, apply_setConst n r lo x hx]
    · have h2' : ¬ (1 * x.getD r 0 - lo ≤ 0) := by intro hc; apply h2; linarith
      simp only [h2', h2, if_false, Option.bind_some, eval_leaf, apply_identity n x hx, set_getD_self]

theorem C17_hard_shrink (n r : Nat) (lam : α) (x : List α) (hr : r < n) (hx : x.length = n) :
    PT.eval (Sch.partialHardShrink n r lam) x = some (Spec.onComp x r (Spec.hardShrink lam)) := by
  unfold Sch.partialHardShrink
  rw [eval_dec _ _ _ _ x (by simp), label_axisPred n r _ _ x hr]
  unfold Spec.onComp Spec.hardShrink
  by_cases h : lam < x.getD r 0
  · have h' : ¬ (1 * x.getD r 0 - lam ≤ 0) := by intro hc; linarith
    simp only [h', h, if_false, if_true, Option.bind_some, eval_leaf, apply_identity n x hx, set_getD_self]
  · have h' : 1 * x.getD r 0 - lam ≤ 0 := by push Not at h; linarith
    simp only [h', h, if_true, if_false, Option.bind_some]
    rw [eval_dec _ _ _ _ x (by simp), label_axisPred n r _ _ x hr]
    by_cases h2 : x.getD r 0 < -lam
    · have h2' : ¬ (-1 * x.getD r 0 - lam ≤ 0) := by intro hc; linarith
      simp only [h2', h2, if_false, if_true, Option.bind_some, eval_leaf, apply_identity n x hx, set_getD_self]
    · have h2' : -1 * x.getD r 0 - lam ≤ 0 := by push Not at h2; linarith
      simp only [h2', h2, if_true, if_false, Option.bind_some, eval_leaf, apply_zeroIdx n r x hx]

/-- hard sigmoid with the constants of the code as parameters: `three = 3`, `sixth` (the code uses the `f64`
    value of `1/6`), `half = 1/2`; instantiate with `sixth = 1/6` for the textbook function -/
theorem C17_hard_sigmoid (n r : Nat) (three sixth half : α) (x : List α) (hr : r < n) (hx : x.length = n) :
    PT.eval (Sch.partialHardSigmoid n r three sixth half) x =
      some (Spec.onComp x r (Spec.hardSigmoid three sixth half)) := by
  unfold Sch.partialHardSigmoid
  rw [eval_dec _ _ _ _ x (by simp), label_axisPred n r _ _ x hr]
  unfold Spec.onComp Spec.hardSigmoid
  by_cases h : three ≤ x.getD r 0
  · have h' : -1 * x.getD r 0 - -three ≤ 0 := by linarith
    simp only [h', h, if_true, Option.bind_some, eval_leaf, apply_setConst n r 1 x hx]
  · have h' : ¬ (-1 * x.getD r 0 - -three ≤ 0) := by intro hc; apply h; linarith
    simp only [h', h, if_false, Option.bind_some]
    rw [eval_dec _ _ _ _ x (by simp), label_axisPred n r _ _ x hr]
    by_cases h2 : x.getD r 0 ≤ -three
    · have h2' : 1 * x.getD r 0 - -three ≤ 0 := by linarith
      simp only [h2', h2, if_true, Option.bind_some, eval_leaf, apply_setConst n r 0 x hx]
    · have h2' : ¬ (1 * x.getD r 0 - -three ≤ 0) := by intro hc; apply h2; linarith
      simp only [h2', h2, if_false, Option.bind_some, eval_leaf, apply_scaleShift n r sixth half x hx]

theorem C17_threshold (n r : Nat) (thr v : α) (x : List α) (hr : r < n) (hx : x.length = n) :
    PT.eval (Sch.partialThreshold n r thr v) x = some (Spec.onComp x r (Spec.threshold thr v)) := by
  unfold Sch.partialThreshold
  rw [eval_dec _ _ _ _ x (by simp), label_axisPred n r _ _ x hr]
  unfold Spec.onComp Spec.threshold
  by_cases h : x.getD r 0 ≤ thr
  · have h' : 1 * x.getD r 0 - thr ≤ 0 := by linarith
    simp only [h', h, if_true, Option.bind_some, eval_leaf, apply_setConst n r v x hx]
  · have h' : ¬ (1 * x.getD r 0 - thr ≤ 0) := by intro hc; apply h; linarith
    simp only [h', h, if_false, Option.bind_some, eval_leaf, apply_identity n x hx, set_getD_self]

/-! non-vacuity: ReLU on the second of three components, at the breakpoint and on both sides -/
example : PT.eval (Sch.partialReLU 3 1 : PT Rat) [5, 0, -2] = some [5, 0, -2] := by decide +kernel
example : PT.eval (Sch.partialReLU 3 1 : PT Rat) [5, -7, -2] = some [5, 0, -2] := by decide +kernel
example : PT.eval (Sch.partialHardShrink 1 0 (2 : Rat)) [2] = some [0] := by decide +kernel

end AV
