import AffVerif.Model.Schema
import AffVerif.Model.Spec
/-! # C17 — predefined trees equal their definitions (theorems added below as they are proved) -/
namespace AV
end AV
