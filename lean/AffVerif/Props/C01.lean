import AffVerif.Proofs.DistillLemmas
import AffVerif.Props.C03
import AffVerif.Props.C04
import AffVerif.Props.C17
import AffVerif.Proofs.CachePrune
/-!
# C01 — distillation is faithful: the tree computes exactly the network

`afftreeFromLayers` is the fold of `afftree_from_layers_generic` (`apply_func` for a linear layer;
`compose::<false>` with the activation's schema tree followed by `infeasible_elimination` for ReLU, leaky ReLU,
hard tanh, hard sigmoid; `compose::<true>` for the heads); `netEval` is the specification — the layer list applied
directly to the input, no trees involved.

Proved (`C01_distill_faithful`): for every dimension-consistent sequence of linear layers and per-neuron
activations of the four kinds, every precondition tree (in particular `from_poly` of a polytope, with or without
else-branch: the distilled tree is undefined exactly where the precondition is) and every LP backend that is right
when it answers "infeasible" — no completeness assumption: faithfulness survives any amount of missed pruning —
the distilled tree returns the network's output at *every* input, breakpoints included.
The theorem is over any ordered field; with the hard-sigmoid slope as a parameter it covers both the textbook
`1/6` and the `f64` constant of the code.
Sequences containing an `argmax` / class-characterisation head are covered as well (`compose::<true>` with the
tournament / chain tree of C17, for every LP backend that is right about infeasibility).
The rounding clause of C01 (non-representable intermediate values) is outside the reach of a theorem over fields;
see DESIGN.md.
-/
set_option linter.unusedSectionVars false
set_option linter.unusedVariables false
namespace AV
variable {α : Type} [Field α] [LinearOrder α] [IsStrictOrderedRing α]

/-- what the fold maintains: well-formed, and every node marked infeasible has an empty path region -/
def DistInv (n dim : Nat) (t : PT α) : Prop := PT.Shaped 2 n dim t ∧ PT.InfSound [] t

theorem distill_linear (n dim : Nat) (t : PT α) (a : Aff α) (ha : a.WF) (hd : a.indim = dim)
    (hI : DistInv n dim t) :
    DistInv n a.outdim (PT.applyFunc t a) ∧
    ∀ x : List α, x.length = n → PT.eval (PT.applyFunc t a) x = (PT.eval t x).map a.apply := by
  subst hd
  refine ⟨⟨C04_apply_func t a 2 n ha hI.1, PT.infSound_mapTerminals _ t [] hI.2⟩, fun x hx => ?_⟩
  exact C02_apply_func t a x 2 n ha hx hI.1

/-- one activation layer: compose with the schema tree `g`, then eliminate infeasible paths -/
theorem distill_activation {σ : Type} (tol : α) (O : Oracles σ α) (hlp : InfeasibleSound O.lp)
    (n dim : Nat) (t g : PT α) (φ : List α → List α) (s : σ)
    (hI : DistInv n dim t) (hg : PT.Shaped 2 dim dim g)
    (hφ : ∀ y : List α, y.length = dim → PT.eval g y = some (φ y)) :
    DistInv n dim (infeasibleElimination tol O n (PT.compose t g) s).1 ∧
    ∀ x : List α, x.length = n →
      PT.eval (infeasibleElimination tol O n (PT.compose t g) s).1 x = (PT.eval t x).map φ := by
  have hsh : PT.Shaped 2 n dim (PT.compose t g) := C04_compose t g _ 2 n dim dim hI.1 hg
  have hinf : PT.InfSound [] (PT.compose t g) := PT.infSound_composeS Schema.compose t g _ [] hI.2
  refine ⟨⟨C04_elim tol O n dim _ s hsh, ?_⟩, fun x hx => ?_⟩
  · unfold infeasibleElimination
    have hok := PT.elimOK_of_shaped _ n dim hsh
    cases hc : PT.compose t g with
    | node i c ks =>
      rw [hc] at hinf hok
      unfold PT.InfSound at hinf
      exact PT.infSound_elimNode tol O hlp n true [] c.state (.node i c ks) s hok hinf.2 hinf.1
  · rw [C03_elim_sound tol O hlp n dim _ s x hsh hinf, C02_compose_law' t g x 2 n dim dim hx hI.1 hg]
    cases he : PT.eval t x with
    | none => simp
    | some y =>
      simp only [Option.bind_some, Option.map_some]
      exact hφ y (eval_length t 2 n dim x y hI.1 he)

theorem distillLayer_linear {σ : Type} (tol : α) (O : Oracles σ α) (k : NetConsts α) (n : Nat) (t : PT α)
    (dim : Nat) (a : Aff α) (s : σ) :
    distillLayer tol O k n t dim (.linear a) s = (PT.applyFunc t a, a.outdim, s) := rfl

theorem distillLayer_relu {σ : Type} (tol : α) (O : Oracles σ α) (k : NetConsts α) (n : Nat) (t : PT α)
    (dim i : Nat) (s : σ) :
    distillLayer tol O k n t dim (.relu i) s =
      ((infeasibleElimination tol O n (PT.compose t (Sch.partialReLU dim i)) s).1, dim,
       (infeasibleElimination tol O n (PT.compose t (Sch.partialReLU dim i)) s).2) := rfl

theorem distillLayer_leaky {σ : Type} (tol : α) (O : Oracles σ α) (k : NetConsts α) (n : Nat) (t : PT α)
    (dim i : Nat) (a : α) (s : σ) :
    distillLayer tol O k n t dim (.leakyRelu i a) s =
      ((infeasibleElimination tol O n (PT.compose t (Sch.partialLeakyReLU dim i a)) s).1, dim,
       (infeasibleElimination tol O n (PT.compose t (Sch.partialLeakyReLU dim i a)) s).2) := rfl

theorem distillLayer_hardTanh {σ : Type} (tol : α) (O : Oracles σ α) (k : NetConsts α) (n : Nat) (t : PT α)
    (dim i : Nat) (s : σ) :
    distillLayer tol O k n t dim (.hardTanh i) s =
      ((infeasibleElimination tol O n (PT.compose t (Sch.partialHardTanh dim i (-1) 1)) s).1, dim,
       (infeasibleElimination tol O n (PT.compose t (Sch.partialHardTanh dim i (-1) 1)) s).2) := rfl

theorem distillLayer_hardSigmoid {σ : Type} (tol : α) (O : Oracles σ α) (k : NetConsts α) (n : Nat) (t : PT α)
    (dim i : Nat) (s : σ) :
    distillLayer tol O k n t dim (.hardSigmoid i) s =
      ((infeasibleElimination tol O n (PT.compose t (Sch.partialHardSigmoid dim i k.three k.sixth k.half)) s).1, dim,
       (infeasibleElimination tol O n (PT.compose t (Sch.partialHardSigmoid dim i k.three k.sixth k.half)) s).2) := rfl

/-- dimension consistency of a layer list without heads, starting at dimension `d` (what the code asserts:
    a linear layer fits the current dimension, an activation index is in range) -/
def LayersOK : Nat → List (Layer α) → Prop
  | _, [] => True
  | d, .linear a :: ls => a.WF ∧ a.indim = d ∧ LayersOK a.outdim ls
  | d, .relu i :: ls => i < d ∧ LayersOK d ls
  | d, .leakyRelu i _ :: ls => i < d ∧ LayersOK d ls
  | d, .hardTanh i :: ls => i < d ∧ LayersOK d ls
  | d, .hardSigmoid i :: ls => i < d ∧ LayersOK d ls
  | d, .argmax :: ls => 2 ≤ d ∧ LayersOK 1 ls
  | d, .classChar c :: ls => c < d ∧ LayersOK 1 ls

/-- output dimension after the layers -/
def layersOut : Nat → List (Layer α) → Nat
  | d, [] => d
  | _, .linear a :: ls => layersOut a.outdim ls
  | _, .argmax :: ls => layersOut 1 ls
  | _, .classChar _ :: ls => layersOut 1 ls
  | d, _ :: ls => layersOut d ls

/-! ### the heads: shape of the schema trees, one pruned composition -/

theorem wf_subtraction (n l r : Nat) : (Aff.subtraction n l r : Aff α).WF := by
  unfold Aff.subtraction Aff.WF
  simp

theorem wf_constant (n : Nat) (v : α) : (Aff.constant n v : Aff α).WF := by
  unfold Aff.constant Aff.WF
  simp [zeros]

theorem shaped_constLeaf (i n : Nat) (v : α) : PT.Shaped 2 n 1 (Sch.leaf i (Aff.constant n v) : PT α) := by
  have := shaped_leaf i n (Aff.constant n v : Aff α) (wf_constant n v) rfl
  simpa [Aff.constant, Aff.outdim] using this

theorem shaped_chain01 (n : Nat) (v0 v1 : α) (idx : Nat) (row : Aff α) (rows : List (Aff α)) (c : Nat)
    (h : ∀ r ∈ row :: rows, r.WF ∧ r.indim = n ∧ r.outdim = 1) :
    PT.Shaped 2 n 1 (Sch.chainNode (some (Aff.constant n v0)) (Aff.constant n v1) idx row rows c : PT α) := by
  induction rows generalizing idx row c with
  | nil =>
    obtain ⟨h1, h2, h3⟩ := h row (by simp)
    simp only [Sch.chainNode]
    exact shaped_dec idx n 1 row _ _ h1 h2 h3 (shaped_constLeaf _ n v0) (shaped_constLeaf _ n v1)
  | cons r rs ih =>
    obtain ⟨h1, h2, h3⟩ := h row (by simp)
    simp only [Sch.chainNode]
    exact shaped_dec idx n 1 row _ _ h1 h2 h3 (shaped_constLeaf _ n v0)
      (ih (c+1) r (c+2) (fun q hq => h q (List.mem_cons_of_mem _ hq)))

theorem shaped_classChar (n c : Nat) : PT.Shaped 2 n 1 (Sch.classChar n c : PT α) := by
  unfold Sch.classChar
  cases hrows : ((List.range n).filter (· ≠ c)).map (fun i => (Aff.subtraction n i c : Aff α)) with
  | nil => exact shaped_constLeaf 0 n 1
  | cons r rs =>
    simp only
    apply shaped_chain01
    intro q hq
    rw [← hrows] at hq
    obtain ⟨i, _, rfl⟩ := List.mem_map.mp hq
    exact ⟨wf_subtraction n i c, rfl, rfl⟩

theorem shaped_argmaxNode (n : Nat) (ofNat : Nat → α) (fuel idx mf mt c : Nat) :
    PT.Shaped 2 n 1 (Sch.argmaxNode n ofNat fuel idx (Aff.subtraction n mf mt) mf mt c).1 := by
  induction fuel generalizing idx mf mt c with
  | zero =>
    simp only [Sch.argmaxNode]
    exact shaped_dec idx n 1 _ _ _ (wf_subtraction n mf mt) rfl rfl (shaped_constLeaf _ n _) (shaped_constLeaf _ n _)
  | succ fuel ih =>
    simp only [Sch.argmaxNode]
    split
    · exact shaped_dec idx n 1 _ _ _ (wf_subtraction n mf mt) rfl rfl (ih _ _ _ _) (ih _ _ _ _)
    · exact shaped_dec idx n 1 _ _ _ (wf_subtraction n mf mt) rfl rfl (shaped_constLeaf _ n _) (shaped_constLeaf _ n _)

theorem shaped_argmax (n : Nat) (ofNat : Nat → α) : PT.Shaped 2 n 1 (Sch.argmax n ofNat : PT α) :=
  shaped_argmaxNode n ofNat n 0 1 0 1

/-- one head: `compose::<true>` with the head's tree -/
theorem distill_head {σ : Type} (tol : α) (O : Oracles σ α) (hlp : InfeasibleSound O.lp)
    (n dim : Nat) (t g : PT α) (φ : List α → List α) (s : σ) (c : Nat)
    (hI : DistInv n dim t) (hg : PT.Shaped 2 dim 1 g)
    (hφ : ∀ y : List α, y.length = dim → PT.eval g y = some (φ y)) :
    DistInv n 1 (PT.composeP Schema.compose (isEdgeFeasible tol O.lp) n [] t g s c).1 ∧
    ∀ x : List α, x.length = n →
      PT.eval (PT.composeP Schema.compose (isEdgeFeasible tol O.lp) n [] t g s c).1 x = (PT.eval t x).map φ := by
  refine ⟨⟨C04_compose_prune _ t g s c 2 n dim 1 [] hI.1 hg, PT.infSound_composeP _ _ n [] t g s c hI.2⟩, fun x hx => ?_⟩
  rw [C03_compose_prune tol O.lp hlp t g s c x n dim 1 hx hI.1 hg hI.2]
  cases he : PT.eval t x with
  | none => simp
  | some y =>
    simp only [Option.bind_some, Option.map_some]
    exact hφ y (eval_length t 2 n dim x y hI.1 he)

theorem distillLayer_argmax {σ : Type} (tol : α) (O : Oracles σ α) (k : NetConsts α) (n : Nat) (t : PT α)
    (dim : Nat) (s : σ) :
    distillLayer tol O k n t dim .argmax s =
      ((PT.composeP Schema.compose (isEdgeFeasible tol O.lp) n [] t (Sch.argmax dim k.ofNat) s (PT.freshBase t)).1, 1,
       (PT.composeP Schema.compose (isEdgeFeasible tol O.lp) n [] t (Sch.argmax dim k.ofNat) s (PT.freshBase t)).2.1) := rfl

theorem distillLayer_classChar {σ : Type} (tol : α) (O : Oracles σ α) (k : NetConsts α) (n : Nat) (t : PT α)
    (dim cl : Nat) (s : σ) :
    distillLayer tol O k n t dim (.classChar cl) s =
      ((PT.composeP Schema.compose (isEdgeFeasible tol O.lp) n [] t (Sch.classChar dim cl) s (PT.freshBase t)).1, 1,
       (PT.composeP Schema.compose (isEdgeFeasible tol O.lp) n [] t (Sch.classChar dim cl) s (PT.freshBase t)).2.1) := rfl

theorem distill_fold {σ : Type} (tol : α) (O : Oracles σ α) (hlp : InfeasibleSound O.lp) (k : NetConsts α)
    (n : Nat) (layers : List (Layer α)) (t : PT α) (dim : Nat) (s : σ)
    (hI : DistInv n dim t) (hl : LayersOK dim layers) :
    ∀ x : List α, x.length = n →
      PT.eval (layers.foldl (fun (acc : PT α × Nat × σ) l => distillLayer tol O k n acc.1 acc.2.1 l acc.2.2) (t, dim, s)).1 x
        = (PT.eval t x).map (fun y => layers.foldl (fun v l => l.eval k v) y) := by
  induction layers generalizing t dim s with
  | nil => intro x _; simp
  | cons l ls ih =>
    intro x hx
    simp only [List.foldl_cons]
    cases l with
    | linear a =>
      simp only [LayersOK] at hl
      obtain ⟨h1, h2⟩ := distill_linear n dim t a hl.1 hl.2.1 hI
      simp only [distillLayer_linear]
      rw [ih _ _ _ h1 hl.2.2 x hx, h2 x hx]
      cases PT.eval t x <;> simp [Layer.eval]
    | relu i =>
      simp only [LayersOK] at hl
      obtain ⟨h1, h2⟩ := distill_activation tol O hlp n dim t (Sch.partialReLU dim i) _ s hI (shaped_relu dim i)
        (fun y hy => C17_relu dim i y hl.1 hy)
      simp only [distillLayer_relu]
      rw [ih _ _ _ h1 hl.2 x hx, h2 x hx]
      cases PT.eval t x <;> simp [Layer.eval]
    | leakyRelu i a =>
      simp only [LayersOK] at hl
      obtain ⟨h1, h2⟩ := distill_activation tol O hlp n dim t (Sch.partialLeakyReLU dim i a) _ s hI (shaped_leaky dim i a)
        (fun y hy => C17_leaky_relu dim i a y hl.1 hy)
      simp only [distillLayer_leaky]
      rw [ih _ _ _ h1 hl.2 x hx, h2 x hx]
      cases PT.eval t x <;> simp [Layer.eval]
    | hardTanh i =>
      simp only [LayersOK] at hl
      obtain ⟨h1, h2⟩ := distill_activation tol O hlp n dim t (Sch.partialHardTanh dim i (-1) 1) _ s hI
        (shaped_hardTanh dim i (-1) 1) (fun y hy => C17_hard_tanh dim i (-1) 1 y hl.1 hy)
      simp only [distillLayer_hardTanh]
      rw [ih _ _ _ h1 hl.2 x hx, h2 x hx]
      cases PT.eval t x <;> simp [Layer.eval]
    | hardSigmoid i =>
      simp only [LayersOK] at hl
      obtain ⟨h1, h2⟩ := distill_activation tol O hlp n dim t (Sch.partialHardSigmoid dim i k.three k.sixth k.half) _ s hI
        (shaped_hardSigmoid dim i _ _ _) (fun y hy => C17_hard_sigmoid dim i _ _ _ y hl.1 hy)
      simp only [distillLayer_hardSigmoid]
      rw [ih _ _ _ h1 hl.2 x hx, h2 x hx]
      cases PT.eval t x <;> simp [Layer.eval]
    | argmax =>
      simp only [LayersOK] at hl
      obtain ⟨h1, h2⟩ := distill_head tol O hlp n dim t (Sch.argmax dim k.ofNat) _ s (PT.freshBase t) hI
        (shaped_argmax dim k.ofNat) (fun y hy => C17_argmax dim k.ofNat y hl.1 hy)
      simp only [distillLayer_argmax]
      rw [ih _ _ _ h1 hl.2 x hx, h2 x hx]
      cases PT.eval t x <;> simp [Layer.eval]
    | classChar cl =>
      simp only [LayersOK] at hl
      obtain ⟨h1, h2⟩ := distill_head tol O hlp n dim t (Sch.classChar dim cl) _ s (PT.freshBase t) hI
        (shaped_classChar dim cl) (fun y hy => C17_class_char dim cl y hl.1 hy)
      simp only [distillLayer_classChar]
      rw [ih _ _ _ h1 hl.2 x hx, h2 x hx]
      cases PT.eval t x <;> simp [Layer.eval]

/-- **C01**: with a precondition tree `pre` (output dimension `d0`) the distilled tree is
    defined exactly where `pre` is and returns the network applied to `pre`'s output; in particular for
    `pre = from_poly(P, identity, None)`: the network's output inside `P`, undefined outside -/
theorem C01_distill_faithful {σ : Type} (tol : α) (O : Oracles σ α) (hlp : InfeasibleSound O.lp)
    (k : NetConsts α) (n d0 : Nat) (pre : PT α) (layers : List (Layer α)) (s : σ)
    (hpre : PT.Shaped 2 n d0 pre) (hc : PT.InfSound [] pre) (hd : PT.firstOutdim pre = some d0)
    (hl : LayersOK d0 layers) (x : List α) (hx : x.length = n) :
    PT.eval (afftreeFromLayers tol O k n (some pre) layers s).1 x = (PT.eval pre x).map (netEval k layers) := by
  unfold afftreeFromLayers netEval
  simp only [hd, Option.getD_some]
  exact distill_fold tol O hlp k n layers pre d0 s ⟨hpre, hc⟩ hl x hx

/-- without precondition: the distilled tree is total and equals the network everywhere -/
theorem C01_distill_faithful_total {σ : Type} (tol : α) (O : Oracles σ α) (hlp : InfeasibleSound O.lp)
    (k : NetConsts α) (n : Nat) (layers : List (Layer α)) (s : σ)
    (hl : LayersOK n layers) (x : List α) (hx : x.length = n) :
    PT.eval (afftreeFromLayers tol O k n none layers s).1 x = some (netEval k layers x) := by
  unfold afftreeFromLayers netEval
  simp only
  have hI : DistInv n n (PT.fromAff 2 (Aff.identity n : Aff α)) := by
    refine ⟨?_, ?_⟩
    · have := C04_ctor_from_aff 2 (Aff.identity n : Aff α) (wf_identity n)
      rwa [outdim_identity] at this
    · apply PT.infSound_of_fresh
      simp only [PT.fromAff, Content.new]
      unfold PT.Fresh
      refine ⟨rfl, ?_⟩
      simp [IKids.empty, PKids.Fresh]
  rw [distill_fold tol O hlp k n layers _ n s hI hl x hx]
  have : PT.eval (PT.fromAff 2 (Aff.identity n : Aff α)) x = some x := by
    simp [PT.fromAff, PT.eval, IKids.empty, IKids.allNone, Content.new, apply_identity n x hx]
  rw [this]; simp

end AV
