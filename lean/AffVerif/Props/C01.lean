import AffVerif.Model.Distill
/-! # C01 (theorems added below as they are proved) -/
namespace AV
end AV
