import AffVerif.Model.Tree
/-! # C12 — the arena tree stays structurally consistent (theorems added below as they are proved) -/
namespace AV
end AV
