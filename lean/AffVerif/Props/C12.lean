import AffVerif.Proofs.TreeLemmas
/-!
# C12 — the arena tree stays structurally consistent under any operation sequence

The model of `Tree<N,K>` is an inductive tree whose nodes carry their slab index; the arena the implementation
stores is the image `toArena` of it, and the judge accepts an arena dump of the implementation only if it *is*
such an image (`Judge/C12.lean`, after every operation of every generated history). The theorems below state what
that image and the operations guarantee, for every tree and every history:

* `C12_arena_len`, `C12_arena_leaf_flag`, `C12_arena_one_root`, `C12_links_mirror` — the structural clauses of the
  property hold for the arena of *every* tree with pairwise distinct indices;
* `C12_add_child`, `C12_remove_child`, `C12_remove_descendants`, `C12_merge`, `C12_update` — what each operation does
  to the `(index, value)` entries: surviving nodes keep index and value, nothing else appears;
* `C12_history` — distinct indices (the invariant the structural clauses need) hold in every reachable state, for
  every sequence of operations with valid and invalid arguments; a failing operation leaves the state unchanged
  (in the model by construction; on the implementation this is what the correspondence check observes).
-/
set_option linter.unusedVariables false
namespace AV
variable {β : Type}

/-! ### the arena of any tree -/

/-- `len()` = number of reachable nodes: one record per node of the tree -/
theorem C12_arena_len (t : ITree β) : t.toArena.length = t.size := by
  have := congrArg List.length (ITree.toArenaAux_entries t none)
  rw [List.length_map] at this
  rw [ITree.size_eq_entries]; exact this

/-- a node is flagged as leaf exactly when all its child slots are empty -/
theorem C12_arena_leaf_flag (t : ITree β) : ∀ nd ∈ t.toArena, nd.isleaf = nd.children.all Option.isNone :=
  ITree.arena_leaf_flag t none

/-- exactly one record (the first, the root's) has no parent -/
theorem C12_arena_one_root (t : ITree β) :
    ∃ r rest, t.toArena = r :: rest ∧ r.parent = none ∧ r.idx = t.idx ∧ ∀ nd ∈ rest, nd.parent.isSome = true := by
  cases t with
  | node i v ks =>
    refine ⟨⟨i, none, ks.slotIdx, ks.allNone, v⟩, ks.toArenaAux i, by simp [ITree.toArena, ITree.toArenaAux], rfl, rfl, ?_⟩
    exact IKids.arena_parent ks i

/-- parent and child links mirror each other: `b.parent = a` iff `b` sits in one of `a`'s child slots -/
theorem C12_links_mirror (t : ITree β) (hnd : t.indices.Nodup) :
    ∀ a ∈ t.toArena, ∀ b ∈ t.toArena, (b.parent = some a.idx ↔ some b.idx ∈ a.children) := by
  intro a ha b hb
  unfold ITree.toArena at ha hb
  rw [ITree.toArenaAux_eq_subs, List.mem_map] at ha hb
  obtain ⟨sa, hsa, rfl⟩ := ha
  obtain ⟨sb, hsb, rfl⟩ := hb
  exact ITree.subs_mirror t hnd sa hsa sb hsb

/-- the indices stored in the arena are pairwise distinct and are exactly the indices of the tree -/
theorem C12_arena_indices (t : ITree β) : t.toArena.map (·.idx) = t.indices := by
  have := congrArg (List.map Prod.fst) (ITree.toArenaAux_entries t none)
  rw [List.map_map] at this
  rw [ITree.indices_eq_entries, ← this]; rfl

/-! ### what each operation does to the stored `(index, value)` pairs -/

theorem nodup_of_entries_perm {t t' : ITree β} {e : Nat × β} (h : t'.entries.Perm (e :: t.entries))
    (hnd : t.indices.Nodup) (hf : e.1 ∉ t.indices) : t'.indices.Nodup := by
  rw [ITree.indices_eq_entries] at hnd hf ⊢
  have := (h.map Prod.fst).nodup_iff
  rw [this, List.map_cons, List.nodup_cons]
  exact ⟨hf, hnd⟩

theorem nodup_of_entries_sublist {t t' : ITree β} (h : t'.entries.Sublist t.entries)
    (hnd : t.indices.Nodup) : t'.indices.Nodup := by
  rw [ITree.indices_eq_entries] at hnd ⊢
  exact hnd.sublist (h.map Prod.fst)

/-- `add_child_node`: the stored pairs are those of before plus the new node, nothing is lost or renamed -/
theorem C12_add_child (t t' : ITree β) (p l : Nat) (v : β) (fresh : Nat) (hnd : t.indices.Nodup)
    (h : t.addChildNode p l v fresh = .ok t') : t'.entries.Perm ((fresh, v) :: t.entries) := by
  unfold ITree.addChildNode at h
  cases hs : t.find? p with
  | none => rw [hs] at h; simp at h
  | some s =>
    rw [hs] at h
    simp only at h
    split at h
    · simp at h
    · rename_i hlen
      split at h
      · simp at h
      · rename_i hslot
        simp only [Except.ok.injEq] at h
        obtain ⟨pre, suf, h1, h2⟩ := ITree.modifyAt_entries
          (fun s => .node s.idx s.val (s.kids.set l (some (.node fresh v (IKids.empty s.kids.length))))) t p s hs hnd
        rw [← h, h2, h1]
        have hnone : s.kids.get? l = none := by
          cases hg : s.kids.get? l with
          | none => rfl
          | some c => rw [hg] at hslot; simp at hslot
        have hset := IKids.entries_set_some s.kids l (.node fresh v (IKids.empty s.kids.length)) (by omega) hnone
        have hse : s.entries = (s.idx, s.val) :: s.kids.entries := by
          cases s with | node j w gk => simp [ITree.entries, ITree.idx, ITree.val, ITree.kids]
        simp only [ITree.entries, IKids.entries_empty, List.singleton_append] at hset ⊢
        rw [hse]
        -- pre ++ (idx,val) :: set.entries ++ suf  ~  (fresh,v) :: (pre ++ (idx,val) :: kids.entries ++ suf)
        have h3 : ((s.idx, s.val) :: (s.kids.set l (some (.node fresh v (IKids.empty s.kids.length)))).entries).Perm
            ((fresh, v) :: (s.idx, s.val) :: s.kids.entries) :=
          ((List.Perm.cons _ hset)).trans (List.Perm.swap _ _ _)
        have h4 := (List.Perm.append_left pre h3).append_right suf
        refine h4.trans ?_
        simp only [List.append_assoc, List.cons_append]
        exact List.perm_middle

/-- `try_remove_child`: what remains is a sub-sequence of the stored pairs, and the returned value is the child's -/
theorem C12_remove_child (t t' : ITree β) (p l : Nat) (v : β) (hnd : t.indices.Nodup)
    (h : t.tryRemoveChild p l = .ok (t', v)) : t'.entries.Sublist t.entries := by
  unfold ITree.tryRemoveChild at h
  cases hs : t.find? p with
  | none => rw [hs] at h; simp at h
  | some s =>
    rw [hs] at h
    simp only at h
    split at h
    · simp at h
    · cases hg : s.kids.get? l with
      | none => rw [hg] at h; simp at h
      | some c =>
        rw [hg] at h
        simp only [Except.ok.injEq, Prod.mk.injEq] at h
        obtain ⟨pre, suf, h1, h2⟩ := ITree.modifyAt_entries
          (fun s => .node s.idx s.val (s.kids.set l none)) t p s hs hnd
        rw [← h.1, h2, h1]
        have hse : s.entries = (s.idx, s.val) :: s.kids.entries := by
          cases s with | node j w gk => simp [ITree.entries, ITree.idx, ITree.val, ITree.kids]
        rw [hse]
        simp only [ITree.entries]
        exact ((List.Sublist.refl pre).append ((IKids.entries_set_none s.kids l).cons_cons _)).append (List.Sublist.refl suf)

/-- `remove_all_descendants`: what remains is a sub-sequence, and the reported count is the number of nodes that
    disappeared -/
theorem C12_remove_descendants (t t' : ITree β) (i k : Nat) (hnd : t.indices.Nodup)
    (h : t.removeAllDescendants i = .ok (t', k)) : t'.entries.Sublist t.entries ∧ t'.size + k = t.size := by
  unfold ITree.removeAllDescendants at h
  cases hs : t.find? i with
  | none => rw [hs] at h; simp at h
  | some s =>
    rw [hs] at h
    simp only [Except.ok.injEq, Prod.mk.injEq] at h
    obtain ⟨pre, suf, h1, h2⟩ := ITree.modifyAt_entries
      (fun s => .node s.idx s.val (IKids.empty s.kids.length)) t i s hs hnd
    have hse : s.entries = (s.idx, s.val) :: s.kids.entries := by
      cases s with | node j w gk => simp [ITree.entries, ITree.idx, ITree.val, ITree.kids]
    constructor
    · rw [← h.1, h2, h1, hse]
      simp only [ITree.entries, IKids.entries_empty]
      exact ((List.Sublist.refl pre).append ((List.nil_sublist _).cons_cons _)).append (List.Sublist.refl suf)
    · rw [← h.1, ← h.2, ITree.size_eq_entries, ITree.size_eq_entries, ITree.size_eq_entries, h2, h1, hse]
      simp only [ITree.entries, IKids.entries_empty, List.length_append, List.length_cons, List.length_nil]
      omega

/-- `merge_child_with_parent`: what remains is a sub-sequence of the stored pairs -/
theorem C12_merge (t t' : ITree β) (p l : Nat) (hnd : t.indices.Nodup)
    (h : t.mergeChildWithParent p l = .ok t') : t'.entries.Sublist t.entries := by
  unfold ITree.mergeChildWithParent at h
  cases hs : t.find? p with
  | none => rw [hs] at h; simp at h
  | some s =>
    rw [hs] at h
    simp only at h
    split at h
    · simp at h
    · split at h
      · simp at h
      · split at h
        · simp at h
        · cases hg : s.kids.get? l with
          | none => rw [hg] at h; simp at h
          | some c =>
            rw [hg] at h
            simp only [Except.ok.injEq] at h
            obtain ⟨pre, suf, h1, h2⟩ := ITree.modifyAt_entries (fun _ => c) t p s hs hnd
            rw [← h, h2, h1]
            have hse : s.entries = (s.idx, s.val) :: s.kids.entries := by
              cases s with | node j w gk => simp [ITree.entries, ITree.idx, ITree.val, ITree.kids]
            rw [hse]
            exact ((List.Sublist.refl pre).append ((IKids.entries_get s.kids l c hg).cons _)).append
              (List.Sublist.refl suf)

/-- `update_node`: one pair changes its value, every index and every other value stays; the old value is returned -/
theorem C12_update (t t' : ITree β) (i : Nat) (v old : β) (hnd : t.indices.Nodup)
    (h : t.updateNode i v = .ok (t', old)) :
    ∃ pre suf, t.entries = pre ++ (i, old) :: suf ∧ t'.entries = pre ++ (i, v) :: suf := by
  unfold ITree.updateNode at h
  cases hs : t.find? i with
  | none => rw [hs] at h; simp at h
  | some s =>
    rw [hs] at h
    simp only [Except.ok.injEq, Prod.mk.injEq] at h
    obtain ⟨pre, suf, h1, h2⟩ := ITree.modifyAt_entries (fun s => .node s.idx v s.kids) t i s hs hnd
    have hi := ITree.find?_idx t i s hs
    have hse : s.entries = (s.idx, s.val) :: s.kids.entries := by
      cases s with | node j w gk => simp [ITree.entries, ITree.idx, ITree.val, ITree.kids]
    refine ⟨pre, s.kids.entries ++ suf, ?_, ?_⟩
    · rw [h1, hse, ← h.2, hi]; simp
    · rw [← h.1, h2, hi]; simp [ITree.entries]

/-! ### every reachable state -/

/-- the operations of the history alphabet; `fresh` is the slab key the allocator hands out for an insertion -/
inductive TOp (β : Type) where
  | addChild (parent label : Nat) (v : β) (fresh : Nat)
  | removeChild (parent label : Nat)
  | removeDescendants (i : Nat)
  | merge (parent label : Nat)
  | update (i : Nat) (v : β)

/-- one step: a call that returns an error (or panics) leaves the tree as it was -/
def ITree.step (t : ITree β) : TOp β → ITree β
  | .addChild p l v f => match t.addChildNode p l v f with | .ok t' => t' | .error _ => t
  | .removeChild p l => match t.tryRemoveChild p l with | .ok (t', _) => t' | .error _ => t
  | .removeDescendants i => match t.removeAllDescendants i with | .ok (t', _) => t' | .error _ => t
  | .merge p l => match t.mergeChildWithParent p l with | .ok t' => t' | .error _ => t
  | .update i v => match t.updateNode i v with | .ok (t', _) => t' | .error _ => t

/-- the allocator's contract: an insertion receives a key that is not in use -/
def TOp.freshFor (t : ITree β) : TOp β → Prop
  | .addChild _ _ _ f => f ∉ t.indices
  | _ => True

theorem C12_step (t : ITree β) (op : TOp β) (hnd : t.indices.Nodup) (hf : op.freshFor t) :
    (t.step op).indices.Nodup := by
  cases op with
  | addChild p l v f =>
    simp only [ITree.step]
    cases h : t.addChildNode p l v f with
    | error e => exact hnd
    | ok t' => exact nodup_of_entries_perm (C12_add_child t t' p l v f hnd h) hnd hf
  | removeChild p l =>
    simp only [ITree.step]
    cases h : t.tryRemoveChild p l with
    | error e => exact hnd
    | ok r => obtain ⟨t', v⟩ := r; exact nodup_of_entries_sublist (C12_remove_child t t' p l v hnd h) hnd
  | removeDescendants i =>
    simp only [ITree.step]
    cases h : t.removeAllDescendants i with
    | error e => exact hnd
    | ok r => obtain ⟨t', k⟩ := r; exact nodup_of_entries_sublist (C12_remove_descendants t t' i k hnd h).1 hnd
  | merge p l =>
    simp only [ITree.step]
    cases h : t.mergeChildWithParent p l with
    | error e => exact hnd
    | ok t' => exact nodup_of_entries_sublist (C12_merge t t' p l hnd h) hnd
  | update i v =>
    simp only [ITree.step]
    cases h : t.updateNode i v with
    | error e => exact hnd
    | ok r =>
      obtain ⟨t', old⟩ := r
      obtain ⟨pre, suf, h1, h2⟩ := C12_update t t' i v old hnd h
      rw [ITree.indices_eq_entries] at hnd ⊢
      rw [h2]; rw [h1] at hnd
      simpa using hnd

/-- a history whose insertions receive unused keys -/
def FreshHistory : ITree β → List (TOp β) → Prop
  | _, [] => True
  | t, op :: ops => op.freshFor t ∧ FreshHistory (t.step op) ops

/-- after any sequence of operations, successful or failing, the stored indices are pairwise distinct — hence
    (theorems above) links mirror each other, leaf flags are right, one node has no parent and `len()` is the number
    of reachable nodes -/
theorem C12_history (t : ITree β) (ops : List (TOp β)) (hnd : t.indices.Nodup) (hf : FreshHistory t ops) :
    (ops.foldl ITree.step t).indices.Nodup := by
  induction ops generalizing t with
  | nil => exact hnd
  | cons op ops ih => exact ih (t.step op) (C12_step t op hnd hf.1) hf.2

/-- non-vacuity: a tree with index reuse satisfies the hypotheses and runs through a mixed history -/
def exTree : ITree Nat := .node 0 7 (.cons (some (.node 1 8 (IKids.empty 2))) (.cons none .nil))

example : exTree.indices.Nodup := by decide
example : FreshHistory exTree
    [.addChild 0 1 9 2, .removeChild 0 0, .addChild 2 0 5 1, .addChild 0 1 3 4, .update 1 6, .merge 2 0] := by
  simp only [FreshHistory, TOp.freshFor, and_true, true_and]
  decide +kernel

/-! ### the documented exception: `add_root` on a non-empty arena

`Tree::add_root` inserts a node without parent and children and moves the root pointer to it; it does not touch what is
stored already.  On the arena level (root pointer + stored nodes) the result is the *disjoint union* of the old tree's
arena — every old node keeps index, value, links and flags, but none of them is reachable any more — and the arena of
the new one-node tree, for which all clauses of C12 hold again (`C12_arena_*` applied to `newRootTree`).  `len()` is the
old size plus one, the number of reachable nodes is one: this, and nothing else, is the exception. -/

/-- arena-level state of `Tree<N, K>`: the root pointer and the stored nodes -/
structure Arena (β : Type) where
  root : Option Nat
  nodes : List (ANode β)

def ITree.arena (t : ITree β) : Arena β := ⟨some t.idx, t.toArena⟩

/-- `Tree::add_root(value)`; `fresh` is the slot the slab hands out -/
def Arena.addRoot (a : Arena β) (K : Nat) (v : β) (fresh : Nat) : Arena β :=
  ⟨some fresh, a.nodes ++ [⟨fresh, none, List.replicate K none, true, v⟩]⟩

/-- the tree the new root starts -/
def newRootTree (K : Nat) (v : β) (fresh : Nat) : ITree β := .node fresh v (IKids.empty K)

theorem IKids.empty_slotIdx (K : Nat) : (IKids.empty K : IKids β).slotIdx = List.replicate K none := by
  induction K with
  | zero => rfl
  | succ k ih => simp [IKids.empty, IKids.slotIdx, ih, List.replicate_succ]

theorem IKids.empty_toArenaAux (K p : Nat) : (IKids.empty K : IKids β).toArenaAux p = [] := by
  induction K with
  | zero => rfl
  | succ k ih => simp [IKids.empty, IKids.toArenaAux, ih]

theorem newRootTree_arena (K : Nat) (v : β) (fresh : Nat) :
    (newRootTree K v fresh).toArena = [⟨fresh, none, List.replicate K none, true, v⟩] := by
  simp [newRootTree, ITree.toArena, ITree.toArenaAux, IKids.empty_slotIdx, IKids.empty_toArenaAux,
    IKids.allNone_empty]

/-- `add_root` on the arena of a tree: the new root's one-node tree next to the untouched, now unreachable old tree -/
theorem C12_add_root_exception (t : ITree β) (K : Nat) (v : β) (fresh : Nat) (hf : fresh ∉ t.indices) :
    (t.arena.addRoot K v fresh).root = some (newRootTree K v fresh).idx ∧
    (t.arena.addRoot K v fresh).nodes = t.toArena ++ (newRootTree K v fresh).toArena ∧
    (t.arena.addRoot K v fresh).nodes.length = t.size + 1 ∧
    (newRootTree K v fresh).size = 1 ∧
    (∀ nd ∈ t.toArena, nd ∈ (t.arena.addRoot K v fresh).nodes ∧ nd.idx ≠ fresh) := by
  refine ⟨rfl, by simp [Arena.addRoot, ITree.arena, newRootTree_arena], ?_, ?_, ?_⟩
  · simp [Arena.addRoot, ITree.arena, C12_arena_len]
  · have := C12_arena_len (newRootTree K v fresh)
    rw [newRootTree_arena] at this
    simpa using this.symm
  · intro nd hnd
    refine ⟨by simp [Arena.addRoot, ITree.arena, hnd], fun h => hf ?_⟩
    rw [← C12_arena_indices t, ← h]
    exact List.mem_map.2 ⟨nd, hnd, rfl⟩

/-- the first `add_root` (empty arena): no exception, the arena is the arena of the one-node tree -/
theorem C12_add_root_first (K : Nat) (v : β) (fresh : Nat) :
    (Arena.addRoot (⟨none, []⟩ : Arena β) K v fresh) = (newRootTree K v fresh).arena := by
  have h := newRootTree_arena (β := β) K v fresh
  simp only [Arena.addRoot, ITree.arena, List.nil_append, h]
  rfl

end AV
