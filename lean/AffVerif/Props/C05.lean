import AffVerif.Proofs.CacheReduce
import AffVerif.Props.C04
import AffVerif.Props.C03
import AffVerif.Proofs.MirrorSound
import AffVerif.Proofs.CachePlant
/-!
# C05 — cached feasibility data stays sound under every operation history

The cache invariant of a tree (`CacheOK`):

* `WitSound tol []` — every witness stored at a node satisfies all path conditions from the root to that node, within
  the containment tolerance `tol` of the code (`contains`, 1e-8);
* `InfSound []` — a node marked `Infeasible` has an empty closed path region;
* `InfOnly` — a node marked `Infeasible` has no sibling (structural; needed for `reduce`);
* `Shaped 2 n m` — the tree is well formed (C04), which the sweep needs.

Step theorems for every operation of the history alphabet and their closure under histories of any length. The
hypotheses on the oracles are exactly the two contracts the property names:

* `InfeasibleSound lp` — the LP backend answers *infeasible* only for empty polytopes (C10; everything else it
  answers may be wrong: errors, unbounded, bogus witnesses — the sweep re-checks every point with `contains`);
* `MirrorSound tol mirror` — the points `mirror_points` returns lie in the polytope they were asked for (the third
  clause of C05; the judge checks it on every stored witness of every replayed history).

The pruned composition needs no hypothesis: copied nodes start `Indeterminate` whatever the filter answered.
-/
set_option linter.unusedSectionVars false
set_option linter.unusedVariables false
namespace AV
variable {α : Type} [Field α] [LinearOrder α] [IsStrictOrderedRing α]

/-- the cache invariant of a whole tree over `n` inputs with `m` outputs -/
def CacheOK (tol : α) (n m : Nat) (t : PT α) : Prop :=
  PT.Shaped 2 n m t ∧ PT.InfSound [] t ∧ PT.WitSound tol [] t ∧ PT.InfOnly t

/-- a tree without cached data (every constructor, every operand copy) satisfies the invariant -/
theorem C05_fresh (tol : α) (n m : Nat) (t : PT α) (hs : PT.Shaped 2 n m t) (hf : PT.Fresh t) : CacheOK tol n m t :=
  ⟨hs, PT.infSound_of_fresh t [] hf, PT.witSound_of_fresh tol t [] hf, PT.infOnly_of_fresh t hf⟩

theorem C05_apply_func (tol : α) (n : Nat) (t : PT α) (a : Aff α) (ha : a.WF) (h : CacheOK tol n a.indim t) :
    CacheOK tol n a.outdim (PT.applyFunc t a) :=
  ⟨C04_apply_func t a 2 n ha h.1, PT.infSound_mapTerminals _ t [] h.2.1, PT.witSound_mapTerminals tol _ t [] h.2.2.1,
    PT.infOnly_mapTerminals _ t h.2.2.2⟩

/-- negation and the mixed tree/affine operators -/
theorem C05_scalar_op (tol : α) (φ : Aff α → Aff α) (n m : Nat) (t : PT α)
    (hφ : ∀ a : Aff α, a.WF → a.indim = n → a.outdim = m → (φ a).WF ∧ (φ a).indim = n ∧ (φ a).outdim = m)
    (h : CacheOK tol n m t) : CacheOK tol n m (PT.mapTerminals φ t) :=
  ⟨C04_scalar_op φ t 2 n m hφ h.1, PT.infSound_mapTerminals φ t [] h.2.1, PT.witSound_mapTerminals tol φ t [] h.2.2.1,
    PT.infOnly_mapTerminals φ t h.2.2.2⟩

/-- un-pruned composition: the operand's cached states are not copied (whatever they are) -/
theorem C05_compose (tol : α) (n m p : Nat) (f g : PT α) (c : Nat) (h : CacheOK tol n m f) (hg : PT.Shaped 2 m p g) :
    CacheOK tol n p (PT.composeS Schema.compose f g c).1 :=
  ⟨C04_compose f g c 2 n m p h.1 hg, PT.infSound_composeS _ f g c [] h.2.1, PT.witSound_composeS tol _ f g c [] h.2.2.1,
    PT.infOnly_composeS _ f g c h.2.2.2⟩

/-- pruned composition, for every `explore` filter -/
theorem C05_compose_prune {σ : Type} (tol : α) (ex : Explore σ α) (n m p : Nat) (f g : PT α) (s : σ) (c : Nat)
    (h : CacheOK tol n m f) (hg : PT.Shaped 2 m p g) :
    CacheOK tol n p (PT.composeP Schema.compose ex n [] f g s c).1 :=
  ⟨C04_compose_prune ex f g s c 2 n m p [] h.1 hg, PT.infSound_composeP _ ex n [] f g s c h.2.1,
    PT.witSound_composeP tol _ ex n [] f g s c h.2.2.1, PT.infOnly_composeP _ ex n [] f g s c h.2.2.2⟩

/-- the tree-tree operators -/
theorem C05_arith {σ : Type} (tol : α) (op : ArithOp) (ex : Explore σ α) (n m : Nat) (f g : PT α) (s : σ) (c : Nat)
    (h : CacheOK tol n m f) (hg : PT.Shaped 2 n m g) :
    CacheOK tol n m (PT.composeP (Schema.arith op.onAff) ex n [] f g s c).1 :=
  ⟨C04_arith_prune op ex f g s c 2 n m [] h.1 hg, PT.infSound_composeP _ ex n [] f g s c h.2.1,
    PT.witSound_composeP tol _ ex n [] f g s c h.2.2.1, PT.infOnly_composeP _ ex n [] f g s c h.2.2.2⟩

/-- `infeasible_elimination`, including `forward_if_redundant` and repeated runs on cached states -/
theorem C05_elim {σ : Type} (tol : α) (O : Oracles σ α) (hlp : InfeasibleSound O.lp)
    (hm : MirrorSound tol O.mirror) (n m : Nat) (t : PT α) (s : σ) (h : CacheOK tol n m t) :
    CacheOK tol n m (infeasibleElimination tol O n t s).1 := by
  obtain ⟨hs, hi, hw, ho⟩ := h
  have hok := PT.elimOK_of_shaped t n m hs
  refine ⟨C04_elim tol O n m t s hs, ?_, ?_, ?_⟩
  · unfold infeasibleElimination
    cases t with
    | node i c ks =>
      unfold PT.InfSound at hi
      exact PT.infSound_elimNode tol O hlp n true [] c.state (.node i c ks) s hok hi.2 hi.1
  · unfold infeasibleElimination
    cases t with
    | node i c ks =>
      unfold PT.WitSound at hw
      exact PT.witSound_elimNode tol O hm n true [] c.state (.node i c ks) s hok hw.2 hw.1
  · exact PT.infOnly_elimNode tol O n true [] t.val.state t s hok ho

theorem C05_reduce (tol : α) (n m : Nat) (t : PT α) (h : CacheOK tol n m t) : CacheOK tol n m (PT.reduce t) :=
  ⟨C04_reduce t 2 n m h.1, PT.infSound_reduceAux true t [] h.2.1 h.2.2.2, PT.witSound_reduceAux tol true t [] h.2.2.1,
    (PT.infOnly_reduceAux true t h.2.2.2).1⟩

/-- the user appends points to the public witness cache of node `idx`: the invariant survives when the points satisfy
    the path conditions of that node within `tol` -/
theorem C05_plant (tol : α) (n m : Nat) (t : PT α) (idx : Nat) (pts : List (List α)) (h : CacheOK tol n m t)
    (hp : ∀ q ∈ PT.hitPaths t idx [], ∀ w ∈ pts, InPathTol tol q w) : CacheOK tol n m (PT.plant t idx pts) :=
  ⟨PT.shaped_plant pts 2 n m t idx h.1, PT.infSound_plant pts [] t idx h.2.1,
    PT.witSound_plant tol pts [] t idx h.2.2.1 hp, PT.infOnly_plant pts t idx h.2.2.2⟩

/-- one step of a history; the oracles of `elim` satisfy the two contracts, those of the pruned steps are arbitrary -/
inductive CStep (tol : α) (n : Nat) : Nat → PT α → Nat → PT α → Prop where
  | applyFunc (m : Nat) (t : PT α) (a : Aff α) (ha : a.WF) (hm : a.indim = m) :
      CStep tol n m t a.outdim (PT.applyFunc t a)
  | scalar (m : Nat) (t : PT α) (φ : Aff α → Aff α)
      (hφ : ∀ a : Aff α, a.WF → a.indim = n → a.outdim = m → (φ a).WF ∧ (φ a).indim = n ∧ (φ a).outdim = m) :
      CStep tol n m t m (PT.mapTerminals φ t)
  | compose (m p : Nat) (t g : PT α) (c : Nat) (hg : PT.Shaped 2 m p g) :
      CStep tol n m t p (PT.composeS Schema.compose t g c).1
  | composePrune {σ : Type} (m p : Nat) (t g : PT α) (ex : Explore σ α) (s : σ) (c : Nat) (hg : PT.Shaped 2 m p g) :
      CStep tol n m t p (PT.composeP Schema.compose ex n [] t g s c).1
  | arith {σ : Type} (m : Nat) (t g : PT α) (op : ArithOp) (ex : Explore σ α) (s : σ) (c : Nat)
      (hg : PT.Shaped 2 n m g) : CStep tol n m t m (PT.composeP (Schema.arith op.onAff) ex n [] t g s c).1
  | elim {σ : Type} (m : Nat) (t : PT α) (O : Oracles σ α) (s : σ) (hlp : InfeasibleSound O.lp)
      (hmi : MirrorSound tol O.mirror) : CStep tol n m t m (infeasibleElimination tol O n t s).1
  | reduce (m : Nat) (t : PT α) : CStep tol n m t m (PT.reduce t)
  | plant (m : Nat) (t : PT α) (idx : Nat) (pts : List (List α))
      (hp : ∀ q ∈ PT.hitPaths t idx [], ∀ w ∈ pts, InPathTol tol q w) : CStep tol n m t m (PT.plant t idx pts)

theorem C05_step (tol : α) (n m m' : Nat) (t t' : PT α) (h : CacheOK tol n m t) (st : CStep tol n m t m' t') :
    CacheOK tol n m' t' := by
  cases st with
  | applyFunc _ _ a ha hm => subst hm; exact C05_apply_func tol n t a ha h
  | scalar _ _ φ hφ => exact C05_scalar_op tol φ n m t hφ h
  | compose _ _ _ g c hg => exact C05_compose tol n m m' t g c h hg
  | composePrune _ _ _ g ex s c hg => exact C05_compose_prune tol ex n m m' t g s c h hg
  | arith _ _ g op ex s c hg => exact C05_arith tol op ex n m t g s c h hg
  | elim _ _ O s hlp hmi => exact C05_elim tol O hlp hmi n m t s h
  | reduce => exact C05_reduce tol n m t h
  | plant _ _ idx pts hp => exact C05_plant tol n m t idx pts h hp

inductive CSteps (tol : α) (n : Nat) : Nat → PT α → Nat → PT α → Prop where
  | nil (m : Nat) (t : PT α) : CSteps tol n m t m t
  | cons (m m' m'' : Nat) (t t' t'' : PT α) : CStep tol n m t m' t' → CSteps tol n m' t' m'' t'' → CSteps tol n m t m'' t''

/-- after any sequence of operations the caches are sound: every stored witness satisfies its path conditions within
    `tol`, every node marked infeasible has an empty path region -/
theorem C05_history (tol : α) (n m m' : Nat) (t t' : PT α) (h : CacheOK tol n m t) (hs : CSteps tol n m t m' t') :
    CacheOK tol n m' t' := by
  induction hs with
  | nil => exact h
  | cons m m' m'' t t' t'' st _ ih => exact ih (C05_step tol n m m' t t' h st)

/-- what later operations rely on (C03): on a tree with sound caches the sweep and the pruned composition keep the
    function — the hypothesis `InfSound []` of `C03_elim_sound` / `C03_compose_prune` holds in every reachable state -/
theorem C05_caches_usable (tol : α) (n m m' : Nat) (t t' : PT α) (h : CacheOK tol n m t)
    (hs : CSteps tol n m t m' t') : PT.Shaped 2 n m' t' ∧ PT.InfSound [] t' :=
  let r := C05_history tol n m m' t t' h hs
  ⟨r.1, r.2.1⟩

/-- "later operations that trust these caches stay sound": after any history, a further sweep (which skips what the
    caches mark) still represents the same function at every input -/
theorem C05_trusting_sweep_sound {σ : Type} (tol : α) (n m m' : Nat) (t t' : PT α) (h : CacheOK tol n m t)
    (hs : CSteps tol n m t m' t') (O : Oracles σ α) (hlp : InfeasibleSound O.lp) (s : σ) (x : List α) :
    PT.eval (infeasibleElimination tol O n t' s).1 x = PT.eval t' x :=
  let r := C05_history tol n m m' t t' h hs
  C03_elim_sound tol O hlp n m' t' s x r.1 r.2.1

/-! ### the witness-repair heuristic itself -/

/-- `mirror_points` (model of the code's loop, any number of rounds, candidates and dimensions; `norms` are the row
    norms `normalize` divides by): every returned point lies in the polytope it was asked for -/
theorem C05_mirror_points_sound (eps fac : α) (heps : 0 ≤ eps) (p : Aff α) (norms : List (Option α))
    (hlen : norms.length = p.rows.length) (hpos : ∀ o ∈ norms, ∀ k, o = some k → 0 < k)
    (pts : List (List α)) (n : Nat) (res : List (List α)) (j : Nat)
    (h : mirrorPoints eps fac p norms pts n = some (res, j)) :
    res ≠ [] ∧ j < n ∧ ∀ x ∈ res, Poly.Mem p x ∧ ∀ tol, 0 ≤ tol → Poly.containsTol tol p x = true :=
  mirrorPoints_sound eps fac heps p norms hlen hpos pts n res j h

/-- the oracle that runs the model of `mirror_points` -/
def modelMirror {σ : Type} (eps fac : α) (norms : Aff α → List (Option α)) : MirrorOracle σ α :=
  fun s _ poly ws k => ((mirrorPoints eps fac poly (norms poly) ws k).map (·.1), s)

/-- the contract `MirrorSound` that `C05_elim` assumes of the heuristic holds for the model of the heuristic -/
theorem C05_model_mirror_sound {σ : Type} (tol eps fac : α) (htol : 0 ≤ tol) (heps : 0 ≤ eps)
    (norms : Aff α → List (Option α))
    (hn : ∀ p : Aff α, (norms p).length = p.rows.length ∧ ∀ o ∈ norms p, ∀ k, o = some k → 0 < k) :
    MirrorSound (σ := σ) tol (modelMirror eps fac norms) := by
  intro s node poly ws k pts s' h
  unfold modelMirror at h
  simp only [Prod.mk.injEq] at h
  cases hm : mirrorPoints eps fac poly (norms poly) ws k with
  | none => rw [hm] at h; simp at h
  | some r =>
    obtain ⟨res, j⟩ := r
    rw [hm] at h
    simp only [Option.map_some, Option.some.injEq] at h
    obtain ⟨rfl, _⟩ := h
    intro x hx
    exact ((mirrorPoints_sound eps fac heps poly (norms poly) (hn poly).1 (hn poly).2 ws k res j hm).2.2 x hx).2 tol htol

/-- non-vacuity: a tree with a stored witness and a cached `Feasible` state satisfies the invariant -/
def exCache : PT Rat :=
  .node 0 ⟨⟨[[1]], [0], 1⟩, .indeterminate⟩
    (.cons (some (.node 1 ⟨⟨[[2]], [1], 1⟩, .witness [[1]]⟩ (IKids.empty 2)))
    (.cons (some (.node 2 ⟨⟨[[3]], [0], 1⟩, .feasible⟩ (IKids.empty 2))) .nil))

example : CacheOK (1/100 : Rat) 1 1 exCache := by
  refine ⟨?_, ?_, ?_, ?_⟩
  · simp [exCache, PT.Shaped, PKids.Shaped, IKids.empty, IKids.length, IKids.allNone, Aff.WF, Aff.outdim]
  · simp [exCache, PT.InfSound, PKids.InfSound, IKids.empty]
  · simp [exCache, PT.WitSound, PKids.WitSound, IKids.empty, StWit, InPathTol, halfspace]

    decide +kernel
  · simp [exCache, PT.InfOnly, PKids.InfOnly, PKids.noInf, IKids.empty, IKids.count, ITree.val]

/-- non-vacuity of `C05_plant`: the point 2 satisfies the path of node 1 (`x ≥ 0`), and planting it extends the list -/
example : ∀ q ∈ PT.hitPaths exCache 1 [], ∀ w ∈ [[(2 : Rat)]], InPathTol (1/100) q w := by
  simp [exCache, PT.hitPaths, PKids.hitPaths, InPathTol, halfspace]
  decide +kernel
example : (PT.plant exCache 1 [[2]]).find? 1 =
    some (.node 1 ⟨⟨[[2]], [1], 1⟩, .witness [[1], [2]]⟩ (IKids.empty 2)) := by
  simp [exCache, PT.plant, ITree.modifyAt, IKids.modifyAt, PT.plantFn, NState.plant, ITree.find?, IKids.find?]

mutual
theorem PT.fresh_removeAxes (keep : List Nat) (t : PT α) : PT.Fresh (Sch.removeAxes keep t) := by
  match t with
  | .node i c ks =>
    unfold Sch.removeAxes PT.Fresh
    exact ⟨rfl, PKids.fresh_removeAxes keep ks⟩
theorem PKids.fresh_removeAxes (keep : List Nat) (ks : PKids α) : PKids.Fresh (Sch.removeAxesK keep ks) := by
  match ks with
  | .nil => simp [Sch.removeAxesK, PKids.Fresh]
  | .cons none r => simp only [Sch.removeAxesK, PKids.Fresh]; exact PKids.fresh_removeAxes keep r
  | .cons (some t) r =>
    simp only [Sch.removeAxesK, PKids.Fresh]
    exact ⟨PT.fresh_removeAxes keep t, PKids.fresh_removeAxes keep r⟩
end

/-- `remove_axes` resets every cached state (the dropped columns pin the removed coordinates to 0, so every path
    condition changes): whatever the caches were, the result satisfies the cache invariant -/
theorem C05_remove_axes (tol : α) (n m : Nat) (keep : List Nat) (t : PT α) (hs : PT.Shaped 2 n m t) :
    CacheOK tol keep.length m (Sch.removeAxes keep t) :=
  C05_fresh tol keep.length m _ (C04_remove_axes 2 n m keep t hs) (PT.fresh_removeAxes keep t)

end AV
