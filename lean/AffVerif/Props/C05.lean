import AffVerif.Model.Reduce
/-! # C05 (theorems added below as they are proved) -/
namespace AV
end AV
