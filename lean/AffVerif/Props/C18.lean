import AffVerif.Model.Arch
import AffVerif.Props.C01
/-!
# C18 — the architecture builder tracks shapes; accepted architectures distill; ranges split

* `C18_linear_accept_iff`, `C18_partial_accept_iff`, `C18_argmax_accept_iff` — a call is accepted exactly when it is
  dimension-compatible with the current shape.
* `C18_history` — for every sequence of builder calls, accepted or rejected: the current shape is the output
  dimension of the network built so far (`netDim`), every queued operator carries the output dimension of the
  network up to and including it, and the queued layers are dimension-compatible (`Compat`).
* `C18_accepted_distills` — an accepted architecture (heads included) satisfies the hypothesis `LayersOK` of the
  distillation theorem (C01): no dimension assertion of the builder can fail, and the distilled tree is the network.
* `C18_extract_range`, `C18_split` — `extract_range(s,e)` is the slice of the queue with the shapes of the prefix
  networks; the two halves of a split chain (`head.current_shape = tail.input_shape`) and compose to the whole.
* Open: `read_layers` (string-level parsing and sorting; decided per generated file by the correspondence check).
-/
set_option linter.unusedSectionVars false
set_option linter.unusedVariables false
namespace AV
variable {α : Type} [Field α] [LinearOrder α] [IsStrictOrderedRing α]

/-- output dimension of one layer applied to `d` values -/
def layerOut (d : Nat) : Layer α → Nat
  | .linear a => a.outdim
  | .argmax => 1
  | .classChar _ => 1
  | _ => d

/-- output dimension of the network `layers` on `d` inputs -/
def netDim (d : Nat) (layers : List (Layer α)) : Nat := layers.foldl layerOut d

/-- dimension compatibility of a layer list at input dimension `d` -/
def Compat : Nat → List (Layer α) → Prop
  | _, [] => True
  | d, .linear a :: ls => a.indim = d ∧ Compat a.outdim ls
  | d, .relu i :: ls => i < d ∧ Compat d ls
  | d, .leakyRelu i _ :: ls => i < d ∧ Compat d ls
  | d, .hardTanh i :: ls => i < d ∧ Compat d ls
  | d, .hardSigmoid i :: ls => i < d ∧ Compat d ls
  | d, .argmax :: ls => 2 ≤ d ∧ Compat 1 ls
  | d, .classChar c :: ls => c < d ∧ Compat 1 ls

/-- every queued operator carries the output dimension of the network up to and including it -/
def RecordedOK : Nat → List (Layer α × Nat) → Prop
  | _, [] => True
  | d, (l, sh) :: r => sh = layerOut d l ∧ RecordedOK sh r

theorem netDim_append (d : Nat) (ls ls' : List (Layer α)) : netDim d (ls ++ ls') = netDim (netDim d ls) ls' := by
  simp [netDim, List.foldl_append]

theorem compat_append (d : Nat) (ls ls' : List (Layer α)) :
    Compat d (ls ++ ls') ↔ Compat d ls ∧ Compat (netDim d ls) ls' := by
  induction ls generalizing d with
  | nil => simp [Compat, netDim]
  | cons l ls ih =>
    cases l <;> simp [Compat, netDim, layerOut, ih, and_assoc]

theorem recordedOK_append (d : Nat) (ops ops' : List (Layer α × Nat)) :
    RecordedOK d (ops ++ ops') ↔ RecordedOK d ops ∧ RecordedOK (netDim d (ops.map (·.1))) ops' := by
  induction ops generalizing d with
  | nil => simp [RecordedOK, netDim]
  | cons o ops ih =>
    obtain ⟨l, sh⟩ := o
    simp only [List.cons_append, RecordedOK, List.map_cons, netDim, List.foldl_cons, ih, and_assoc]
    constructor
    · rintro ⟨h1, h2, h3⟩; subst h1; exact ⟨rfl, h2, h3⟩
    · rintro ⟨h1, h2, h3⟩; subst h1; exact ⟨rfl, h2, h3⟩

/-! ### acceptance -/

theorem C18_linear_accept_iff (A : Arch α) (a : Aff α) : (∃ A', A.linear a = .ok A') ↔ A.currentShape = a.indim := by
  unfold Arch.linear
  split <;> simp_all

theorem C18_partial_accept_iff (A : Arch α) (mk : Nat → Layer α) (i : Nat) :
    (∃ A', A.partialAct mk i = .ok A') ↔ i < A.currentShape := by
  unfold Arch.partialAct
  split <;> simp_all

theorem C18_argmax_accept_iff (A : Arch α) : (∃ A', A.argmax = .ok A') ↔ 2 ≤ A.currentShape := by
  unfold Arch.argmax
  split
  · rename_i h; simp; omega
  · rename_i h; simp; omega

/-! ### the invariant of every builder history -/

/-- the per-neuron activations -/
inductive ActKind (α : Type) where
  | relu | leakyRelu (a : α) | hardTanh | hardSigmoid

def ActKind.mk : ActKind α → Nat → Layer α
  | .relu, i => .relu i
  | .leakyRelu a, i => .leakyRelu i a
  | .hardTanh, i => .hardTanh i
  | .hardSigmoid, i => .hardSigmoid i

inductive Call (α : Type) where
  | linear (a : Aff α)
  | partialAct (k : ActKind α) (idx : Nat)
  | fullAct (k : ActKind α)
  | argmax

/-- one builder call; a rejected call leaves the architecture as it was -/
def Arch.step (A : Arch α) : Call α → Arch α
  | .linear a => match A.linear a with | .ok A' => A' | .error _ => A
  | .partialAct k i => match A.partialAct k.mk i with | .ok A' => A' | .error _ => A
  | .fullAct k => A.fullAct k.mk
  | .argmax => match A.argmax with | .ok A' => A' | .error _ => A

structure Arch.Inv (A : Arch α) : Prop where
  shape : A.currentShape = netDim A.inputShape (A.ops.map (·.1))
  recorded : RecordedOK A.inputShape A.ops
  compat : Compat A.inputShape (A.ops.map (·.1))

theorem C18_new (n : Nat) : (Arch.new n : Arch α).Inv := ⟨rfl, trivial, trivial⟩

theorem actKind_layerOut (k : ActKind α) (i d : Nat) : layerOut d (k.mk i) = d := by
  cases k <;> rfl

theorem actKind_compat (k : ActKind α) (i d : Nat) (h : i < d) : Compat d [k.mk i] := by
  cases k <;> simp [ActKind.mk, Compat, h]

theorem fullAct_facts (k : ActKind α) (d m : Nat) (hm : m ≤ d) :
    netDim d ((List.range m).map k.mk) = d ∧ Compat d ((List.range m).map k.mk) ∧
    RecordedOK d ((List.range m).map (fun i => (k.mk i, d))) := by
  induction m with
  | zero => simp [netDim, Compat, RecordedOK]
  | succ m ih =>
    obtain ⟨h1, h2, h3⟩ := ih (by omega)
    rw [List.range_succ, List.map_append, List.map_append]
    refine ⟨?_, ?_, ?_⟩
    · rw [netDim_append, h1]; simp [netDim, actKind_layerOut]
    · rw [compat_append, h1]; exact ⟨h2, by simpa using actKind_compat k m d (by omega)⟩
    · rw [recordedOK_append]
      refine ⟨h3, ?_⟩
      have : (List.map (fun i => (k.mk i, d)) (List.range m)).map (·.1) = (List.range m).map k.mk := by
        simp [List.map_map, Function.comp_def]
      rw [this, h1]
      simp [RecordedOK, actKind_layerOut]

theorem C18_step (A : Arch α) (c : Call α) (h : A.Inv) : (A.step c).Inv ∧ (A.step c).inputShape = A.inputShape := by
  obtain ⟨hs, hr, hc⟩ := h
  cases c with
  | linear a =>
    by_cases heq : A.currentShape = a.indim
    · simp only [Arch.step, Arch.linear, heq, if_true]
      refine ⟨⟨?_, ?_, ?_⟩, by first | trivial | rfl⟩
      · simp [netDim_append, netDim, layerOut]
      · rw [recordedOK_append]; exact ⟨hr, by simp [RecordedOK, layerOut]⟩
      · simp only [List.map_append, List.map_cons, List.map_nil]
        rw [compat_append]; exact ⟨hc, by rw [← hs]; simp [Compat, heq]⟩
    · simp only [Arch.step, Arch.linear, heq, if_false]
      exact ⟨⟨hs, hr, hc⟩, by first | trivial | rfl⟩
  | partialAct k i =>
    by_cases hlt : i < A.currentShape
    · simp only [Arch.step, Arch.partialAct, hlt, if_true]
      refine ⟨⟨?_, ?_, ?_⟩, by first | trivial | rfl⟩
      · simp only [List.map_append, List.map_cons, List.map_nil]
        rw [netDim_append, ← hs]; simp [netDim, actKind_layerOut]
      · rw [recordedOK_append]; exact ⟨hr, by rw [← hs]; simp [RecordedOK, actKind_layerOut]⟩
      · simp only [List.map_append, List.map_cons, List.map_nil]
        rw [compat_append, ← hs]; exact ⟨hc, actKind_compat k i _ hlt⟩
    · simp only [Arch.step, Arch.partialAct, hlt, if_false]
      exact ⟨⟨hs, hr, hc⟩, by first | trivial | rfl⟩
  | fullAct k =>
    simp only [Arch.step, Arch.fullAct]
    obtain ⟨h1, h2, h3⟩ := fullAct_facts k A.currentShape A.currentShape (le_refl _)
    have hmap : (List.map (fun i => (k.mk i, A.currentShape)) (List.range A.currentShape)).map (·.1) =
        (List.range A.currentShape).map k.mk := by simp [List.map_map, Function.comp_def]
    refine ⟨⟨?_, ?_, ?_⟩, by first | trivial | rfl⟩
    · simp only [List.map_append, hmap]; rw [netDim_append, ← hs, h1]
    · rw [recordedOK_append, ← hs]; exact ⟨hr, h3⟩
    · simp only [List.map_append, hmap]; rw [compat_append, ← hs]; exact ⟨hc, h2⟩
  | argmax =>
    by_cases hlt : A.currentShape < 2
    · simp only [Arch.step, Arch.argmax, hlt, if_true]
      exact ⟨⟨hs, hr, hc⟩, by first | trivial | rfl⟩
    · simp only [Arch.step, Arch.argmax, hlt, if_false]
      refine ⟨⟨?_, ?_, ?_⟩, by first | trivial | rfl⟩
      · simp [netDim_append, netDim, layerOut]
      · rw [recordedOK_append]; exact ⟨hr, by simp [RecordedOK, layerOut]⟩
      · simp only [List.map_append, List.map_cons, List.map_nil]
        rw [compat_append, ← hs]; exact ⟨hc, by simp [Compat]; omega⟩

theorem C18_step_inputShape (A : Arch α) (c : Call α) : (A.step c).inputShape = A.inputShape := by
  cases c with
  | linear a => by_cases h : A.currentShape = a.indim <;> simp [Arch.step, Arch.linear, h]
  | partialAct k i => by_cases h : i < A.currentShape <;> simp [Arch.step, Arch.partialAct, h]
  | fullAct k => rfl
  | argmax => by_cases h : A.currentShape < 2 <;> simp [Arch.step, Arch.argmax, h]

theorem foldl_inputShape (calls : List (Call α)) (A : Arch α) : (calls.foldl Arch.step A).inputShape = A.inputShape := by
  induction calls generalizing A with
  | nil => rfl
  | cons c cs ih => rw [List.foldl_cons, ih]; exact C18_step_inputShape A c

/-- after any sequence of builder calls, valid or invalid: current shape = output dimension of the network built so
    far, recorded shapes are right, the queue is dimension-compatible -/
theorem C18_history (n : Nat) (calls : List (Call α)) : (calls.foldl Arch.step (Arch.new n : Arch α)).Inv := by
  suffices ∀ A : Arch α, A.Inv → (calls.foldl Arch.step A).Inv from this _ (C18_new n)
  induction calls with
  | nil => intro A h; exact h
  | cons c cs ih => intro A h; exact ih _ (C18_step A c h).1

/-! ### accepted architectures distill -/

def linearWF : List (Layer α) → Prop
  | [] => True
  | .linear a :: ls => a.WF ∧ linearWF ls
  | _ :: ls => linearWF ls

theorem layersOK_of_compat (d : Nat) (ls : List (Layer α)) (hc : Compat d ls) (hw : linearWF ls) :
    LayersOK d ls := by
  induction ls generalizing d with
  | nil => trivial
  | cons l ls ih =>
    cases l with
    | linear a => exact ⟨hw.1, hc.1, ih _ hc.2 hw.2⟩
    | relu i => exact ⟨hc.1, ih _ hc.2 hw⟩
    | leakyRelu i a => exact ⟨hc.1, ih _ hc.2 hw⟩
    | hardTanh i => exact ⟨hc.1, ih _ hc.2 hw⟩
    | hardSigmoid i => exact ⟨hc.1, ih _ hc.2 hw⟩
    | argmax => exact ⟨hc.1, ih _ hc.2 hw⟩
    | classChar c => exact ⟨hc.1, ih _ hc.2 hw⟩

/-- every accepted architecture (well-formed weight matrices) distills: the builder's dimension assertions
    hold (`LayersOK`) and the distilled tree computes the network at every input -/
theorem C18_accepted_distills {σ : Type} (tol : α) (O : Oracles σ α) (hlp : InfeasibleSound O.lp) (k : NetConsts α)
    (n : Nat) (calls : List (Call α)) (s : σ) (x : List α) (hx : x.length = n)
    (hw : linearWF ((calls.foldl Arch.step (Arch.new n : Arch α)).ops.map (·.1))) :
    let layers := (calls.foldl Arch.step (Arch.new n : Arch α)).ops.map (·.1)
    LayersOK n layers ∧
    PT.eval (afftreeFromLayers tol O k n none layers s).1 x = some (netEval k layers x) := by
  intro layers
  have hinv := C18_history (α := α) n calls
  have hin : (calls.foldl Arch.step (Arch.new n : Arch α)).inputShape = n := foldl_inputShape calls _
  have hok : LayersOK n layers := by
    have := hinv.compat; rw [hin] at this
    exact layersOK_of_compat n layers this hw
  exact ⟨hok, C01_distill_faithful_total tol O hlp k n layers s hok x hx⟩

/-! ### `extract_range` -/

theorem recorded_get (d : Nat) (ops : List (Layer α × Nat)) (h : RecordedOK d ops) (j : Nat) (hj : j < ops.length) :
    ((ops.drop j).head?.map (·.2)).getD d = netDim d ((ops.take (j+1)).map (·.1)) := by
  induction ops generalizing d j with
  | nil => simp at hj
  | cons o ops ih =>
    obtain ⟨l, sh⟩ := o
    simp only [RecordedOK] at h
    cases j with
    | zero => simp [netDim, h.1]
    | succ j =>
      simp only [List.length_cons, Nat.add_lt_add_iff_right] at hj
      have := ih sh h.2 j hj
      simp only [List.drop_succ_cons, List.take_succ_cons, List.map_cons, netDim, List.foldl_cons] at this ⊢
      rw [← h.1]
      -- the default value is irrelevant: the element exists
      have hne : (ops.drop j).head? ≠ none := by
        simp [List.head?_eq_none_iff]; omega
      cases hd : (ops.drop j).head? with
      | none => exact absurd hd hne
      | some v => rw [hd] at this; simpa using this

theorem recorded_last (d : Nat) (ops : List (Layer α × Nat)) (h : RecordedOK d ops) :
    (ops.getLast?.map (·.2)).getD d = netDim d (ops.map (·.1)) := by
  induction ops generalizing d with
  | nil => simp [netDim]
  | cons o ops ih =>
    obtain ⟨l, sh⟩ := o
    simp only [RecordedOK] at h
    have := ih sh h.2
    cases ops with
    | nil => simp [netDim, h.1]
    | cons o2 ops2 =>
      simp only [List.getLast?_cons_cons, List.map_cons, netDim, List.foldl_cons] at this ⊢
      rw [← h.1]
      cases hl : (o2 :: ops2).getLast? with
      | none => simp at hl
      | some v => rw [hl] at this; simpa using this

theorem recordedOK_drop (d : Nat) (ops : List (Layer α × Nat)) (h : RecordedOK d ops) (s : Nat) :
    RecordedOK (netDim d ((ops.take s).map (·.1))) (ops.drop s) := by
  have := (recordedOK_append d (ops.take s) (ops.drop s)).mp (by rw [List.take_append_drop]; exact h)
  exact this.2

theorem recordedOK_take (d : Nat) (ops : List (Layer α × Nat)) (h : RecordedOK d ops) (s : Nat) :
    RecordedOK d (ops.take s) := by
  have := (recordedOK_append d (ops.take s) (ops.drop s)).mp (by rw [List.take_append_drop]; exact h)
  exact this.1

/-- `extract_range(s,e)` on a built architecture: the slice of the queue, with the output dimensions of the prefix
    networks as input and current shape -/
theorem C18_extract_range (A : Arch α) (h : A.Inv) (s e : Nat) (hse : s < e) (he : e ≤ A.ops.length) :
    ∃ R, A.extractRange s e = .ok R ∧ R.ops = (A.ops.drop s).take (e - s) ∧
      R.inputShape = netDim A.inputShape ((A.ops.take s).map (·.1)) ∧
      R.currentShape = netDim A.inputShape ((A.ops.take e).map (·.1)) := by
  unfold Arch.extractRange
  rw [if_neg (by omega)]
  refine ⟨_, rfl, rfl, ?hin, ?hcur⟩
  case hin =>
    simp only
    split
    · rename_i hs0; subst hs0; simp [netDim]
    · rename_i hs0
      have := recorded_get A.inputShape A.ops h.recorded (s - 1) (by omega)
      rw [this]; congr 3; omega
  case hcur =>
    simp only
    have hin : (if s = 0 then A.inputShape else ((A.ops.drop (s - 1)).head?.map (·.2)).getD A.inputShape) =
        netDim A.inputShape ((A.ops.take s).map (·.1)) := by
      split
      · rename_i hs0; subst hs0; simp [netDim]
      · rename_i hs0
        have := recorded_get A.inputShape A.ops h.recorded (s - 1) (by omega)
        rw [this]; congr 3; omega
    rw [hin]
    have hrec := recordedOK_take _ _ (recordedOK_drop A.inputShape A.ops h.recorded s) (e - s)
    rw [recorded_last _ _ hrec, ← netDim_append, ← List.map_append]
    congr 2
    have : A.ops.take e = A.ops.take s ++ (A.ops.drop s).take (e - s) := by
      conv_lhs => rw [show e = s + (e - s) by omega]
      rw [List.take_add]
    rw [this]

/-- the split law on the queue: for every split point the two ranges are the two parts of the queue, the head's
    current shape is the tail's input shape, and the network of the whole is the tail's network after the head's -/
theorem C18_split (A : Arch α) (h : A.Inv) (k : Nat) (hk0 : 0 < k) (hk : k < A.ops.length) (c : NetConsts α) :
    ∃ H T, A.extractRange 0 k = .ok H ∧ A.extractRange k A.ops.length = .ok T ∧
      H.ops ++ T.ops = A.ops ∧ H.inputShape = A.inputShape ∧ H.currentShape = T.inputShape ∧
      T.currentShape = A.currentShape ∧
      ∀ x, netEval c (A.ops.map (·.1)) x = netEval c (T.ops.map (·.1)) (netEval c (H.ops.map (·.1)) x) := by
  obtain ⟨H, hH, hHo, hHi, hHc⟩ := C18_extract_range A h 0 k hk0 (by omega)
  obtain ⟨T, hT, hTo, hTi, hTc⟩ := C18_extract_range A h k A.ops.length hk (le_refl _)
  have hops : H.ops ++ T.ops = A.ops := by
    rw [hHo, hTo]
    have : List.take (A.ops.length - k) (List.drop k A.ops) = List.drop k A.ops :=
      List.take_of_length_le (by simp)
    rw [this]
    simp only [Nat.sub_zero, List.drop_zero]
    exact List.take_append_drop k A.ops
  refine ⟨H, T, hH, hT, hops, by rw [hHi]; simp [netDim], by rw [hHc, hTi], ?_, ?_⟩
  · rw [hTc, h.shape]; simp
  · intro x
    rw [← hops, List.map_append]
    simp [netEval, List.foldl_append]


/-! ### `read_layers`: index order and per-entry meaning

The reader sorts the entry names with `entryLe` (numeric prefix, then the name) and folds over them. The order is a
sorted permutation of the names of the file; an activation entry stands for one operator per neuron of the preceding
linear layer, a weights entry for the stored matrix and bias. (The pattern `parseEntryName` and the character layout
of names are decided per generated file by the correspondence check.) -/

theorem entryLe_total (a b : String) : (entryLe a b || entryLe b a) = true := by
  unfold entryLe
  cases ha : entryIndex a <;> cases hb : entryIndex b <;> simp
  · exact String.le_total a b
  · rename_i x y
    rcases Nat.lt_trichotomy x y with h | h | h
    · exact Or.inl (Or.inl h)
    · subst h
      rcases String.le_total a b with h1 | h1
      · exact Or.inl (Or.inr ⟨rfl, h1⟩)
      · exact Or.inr (Or.inr ⟨rfl, h1⟩)
    · exact Or.inr (Or.inl h)

theorem entryLe_trans (a b c : String) (h1 : entryLe a b = true) (h2 : entryLe b c = true) : entryLe a c = true := by
  unfold entryLe at *
  cases ha : entryIndex a <;> cases hb : entryIndex b <;> cases hc : entryIndex c <;> simp_all
  · exact String.le_trans h1 h2
  · rename_i x y z
    rcases h1 with h1 | ⟨rfl, h1⟩ <;> rcases h2 with h2 | ⟨rfl, h2⟩
    · exact Or.inl (Nat.lt_trans h1 h2)
    · exact Or.inl h1
    · exact Or.inl h2
    · exact Or.inr ⟨rfl, String.le_trans h1 h2⟩

/-- the order in which `read_layers` processes the entries of a file -/
def readOrder (names : List String) : List String := names.mergeSort entryLe

theorem C18_read_layers_unfold (names : List String) (arrays : String → Option (Aff α)) :
    readLayers names arrays = readLayers.go arrays (readOrder names) 0 [] := rfl

/-- the processing order is sorted by (numeric prefix, name) … -/
theorem C18_read_order_sorted (names : List String) : (readOrder names).Pairwise (fun a b => entryLe a b = true) :=
  List.pairwise_mergeSort (fun a b c => entryLe_trans a b c) entryLe_total names

/-- … is a permutation of the entry names of the file (nothing dropped, nothing repeated) … -/
theorem C18_read_order_perm (names : List String) : (readOrder names).Perm names := List.mergeSort_perm names entryLe

/-- … and is the index order: of two processed entries the earlier one has the smaller (or the same) index -/
theorem C18_read_order_index (names : List String) :
    (readOrder names).Pairwise (fun a b => ∀ x y, entryIndex a = some x → entryIndex b = some y → x ≤ y) := by
  refine (C18_read_order_sorted names).imp ?_
  intro a b h x y hx hy
  unfold entryLe at h
  rw [hx, hy] at h
  simp at h
  rcases h with h | ⟨h, _⟩ <;> omega

/-- a ReLU entry: one operator per neuron of the preceding linear layer (`dim` is its output dimension) -/
theorem C18_read_step_relu (arrays : String → Option (Aff α)) (nm d : String) (rest : List String) (dim : Nat)
    (acc : List (Layer α)) (h : parseEntryName nm = some (d, "relu")) :
    readLayers.go arrays (nm :: rest) dim acc = readLayers.go arrays rest dim (acc ++ (List.range dim).map Layer.relu) := by
  simp [readLayers.go, h]

/-- a weights entry: the stored matrix and bias become the next linear layer, whose output dimension is what the
    following activation entries expand to -/
theorem C18_read_step_linear (arrays : String → Option (Aff α)) (nm d : String) (rest : List String) (dim : Nat)
    (acc : List (Layer α)) (a : Aff α) (h : parseEntryName nm = some (d, "linear.weights"))
    (ha : arrays (d ++ ".linear.weights.npy") = some a) :
    readLayers.go arrays (nm :: rest) dim acc = readLayers.go arrays rest a.outdim (acc ++ [.linear a]) := by
  simp [readLayers.go, h, ha]

/-- an entry that does not match the pattern is ignored -/
theorem C18_read_step_ignored (arrays : String → Option (Aff α)) (nm : String) (rest : List String) (dim : Nat)
    (acc : List (Layer α)) (h : parseEntryName nm = none) :
    readLayers.go arrays (nm :: rest) dim acc = readLayers.go arrays rest dim acc := by
  simp [readLayers.go, h]

/-! ### the name pattern on characters

`parseEntryName` is `parseEntryChars` on the characters of the name (by definition).  The documented dialect writes
an entry as `<index>.<kind>` with an optional `.npy`; the three statements below say that exactly this is recognised:
the digits before the first dot are the index, the rest (without one trailing `.npy`) is the kind, and a name that
does not start with a digit, or whose index is not followed by a dot, is not an entry of the pattern. -/

theorem takeWhile_digits_dot (ds rest : List Char) (hd : ds.all Char.isDigit = true) :
    (ds ++ '.' :: rest).takeWhile Char.isDigit = ds := by
  induction ds with
  | nil => simp
  | cons c cs ih =>
    simp only [List.all_cons, Bool.and_eq_true] at hd
    simp [List.takeWhile, hd.1, ih hd.2]

/-- `<digits>.<kind>` where the kind does not itself end in `.npy` -/
theorem C18_entry_name_plain (ds body : List Char) (hne : ds ≠ []) (hd : ds.all Char.isDigit = true)
    (hk : body.all isKindChar = true)
    (hns : (decide (body.length ≥ 4) && body.drop (body.length - 4) == npySuffix) = false) :
    parseEntryChars (ds ++ '.' :: body) = some (ds, body) := by
  unfold parseEntryChars
  simp only [takeWhile_digits_dot ds body hd]
  have he : ds.isEmpty = false := by cases ds <;> simp_all
  simp only [he, Bool.false_eq_true, if_false, List.drop_left]
  simp only [hns, Bool.false_eq_true, if_false, hk, if_true]

/-- `<digits>.<kind>.npy`: one trailing `.npy` is not part of the kind -/
theorem C18_entry_name_npy (ds body : List Char) (hne : ds ≠ []) (hd : ds.all Char.isDigit = true)
    (hk : body.all isKindChar = true) :
    parseEntryChars (ds ++ '.' :: (body ++ npySuffix)) = some (ds, body) := by
  unfold parseEntryChars
  simp only [takeWhile_digits_dot ds (body ++ npySuffix) hd]
  have he : ds.isEmpty = false := by cases ds <;> simp_all
  simp only [he, Bool.false_eq_true, if_false, List.drop_left]
  have hlen : (body ++ npySuffix).length - 4 = body.length := by simp [npySuffix]
  have hge : decide ((body ++ npySuffix).length ≥ 4) = true := by simp [npySuffix]
  simp only [hlen, hge, List.drop_left, List.take_left, Bool.true_and, beq_self_eq_true, if_true, hk]

/-- names outside the pattern: no leading digit, or no dot after the index -/
theorem C18_entry_name_rejected (cs : List Char) :
    (cs.head?.map Char.isDigit ≠ some true → parseEntryChars cs = none) ∧
    (∀ ds c rest, ds.all Char.isDigit = true → c.isDigit = false → c ≠ '.' → cs = ds ++ c :: rest →
      parseEntryChars cs = none) := by
  refine ⟨fun h => ?_, fun ds c rest hd hc hdot hcs => ?_⟩
  · unfold parseEntryChars
    cases cs with
    | nil => simp
    | cons a as =>
      have : a.isDigit = false := by
        cases hh : a.isDigit with
        | false => rfl
        | true => simp [hh] at h
      simp [List.takeWhile, this]
  · subst hcs
    unfold parseEntryChars
    have htw : (ds ++ c :: rest).takeWhile Char.isDigit = ds := by
      clear hdot
      induction ds with
      | nil => simp [List.takeWhile, hc]
      | cons d dd ih =>
        simp only [List.all_cons, Bool.and_eq_true] at hd
        simp [List.takeWhile, hd.1, ih hd.2]
    simp only [htw, List.drop_left]
    split
    · rfl
    · split
      · rename_i heq
        simp only [List.cons.injEq] at heq
        exact absurd heq.1 hdot
      · rfl

/-- the string-level function is the character-level one -/
theorem C18_entry_name_chars (cs : List Char) :
    parseEntryName (String.ofList cs) =
      (parseEntryChars cs).map (fun p => (String.ofList p.1, String.ofList p.2)) := by
  unfold parseEntryName
  simp

/-- non-vacuity: `12.relu.npy`, `7.linear.weights` and a name outside the pattern -/
example : parseEntryChars ['1', '2', '.', 'r', 'e', 'l', 'u', '.', 'n', 'p', 'y'] = some (['1', '2'], ['r', 'e', 'l', 'u']) := by
  decide +kernel
example : parseEntryChars ['x', '.', 'r', 'e', 'l', 'u'] = none := by decide +kernel


end AV
