import AffVerif.Model.Arch
/-! # C18 (theorems added below as they are proved) -/
namespace AV
end AV
