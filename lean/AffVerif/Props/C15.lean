import AffVerif.Props.C14
import AffVerif.Model.LP
import AffVerif.Proofs.MirrorSound
/-!
# C15 — constraint clean-up keeps exactly the same point set

Proved: `remove_rows` / `remove_zero_rows` / `remove_tautologies` return a sub-sequence of the original rows (or the
canonical empty / whole-space polytope) and `remove_zero_rows`, `remove_tautologies` keep the point set.
Also: `normalize` (division of rows by positive numbers; the square roots enter as parameters) and
`remove_redundant_row_constraints` with an exact solver (threshold 0).
`remove_duplicate_rows` is proved for the exact comparison of the normalised rows ("positive multiple of an earlier
row") and for every comparison that only identifies equal half-spaces; the code's `relative_eq` is not such a
comparison below `f64::EPSILON` (known finding F-C15-duplicate-rows-below-epsilon).
Open: the `f64::EPSILON` slack of `remove_redundant_row_constraints` (decided by exact set equality per system).
-/
set_option linter.unusedSectionVars false
set_option linter.unusedVariables false
namespace AV
variable {α : Type} [Field α] [LinearOrder α] [IsStrictOrderedRing α]

theorem removeRowsAux_sublist (i : Nat) (idxs : List Nat) (rs : List (List α × α)) :
    (Aff.removeRowsAux i idxs rs).Sublist rs := by
  induction rs generalizing i with
  | nil => simp [Aff.removeRowsAux]
  | cons r rs ih =>
    simp only [Aff.removeRowsAux]
    split
    · exact (ih (i+1)).cons r
    · exact (ih (i+1)).cons_cons r

/-- `remove_rows` only drops rows: the result is a sub-sequence of the original rows -/
theorem C15_remove_rows_subseq (p : Aff α) (idxs : List Nat) : (p.removeRows idxs).rows.Sublist p.rows := by
  unfold Aff.removeRows
  rw [ofRows_rows]
  exact removeRowsAux_sublist 0 idxs p.rows

theorem C15_remove_zero_rows_subseq (p : Aff α) : p.removeZeroRows.rows.Sublist p.rows := by
  unfold Aff.removeZeroRows
  rw [ofRows_rows]
  exact List.filter_sublist

theorem dot_isZeroVec (a x : List α) (h : isZeroVec a = true) : dot a x = 0 := by
  apply dot_all_zero'
  intro e he
  unfold isZeroVec at h
  simp only [List.all_eq_true, beq_iff_eq] at h
  exact h e he
where
  dot_all_zero' (v x : List α) (h : ∀ e ∈ v, e = 0) : dot v x = 0 := by
    induction v generalizing x with
    | nil => simp
    | cons a as ih =>
      cases x with
      | nil => simp
      | cons b bs =>
        simp only [dot_cons]
        rw [h a (List.mem_cons_self), ih bs (fun e he => h e (List.mem_cons_of_mem _ he))]
        ring

/-- `remove_zero_rows` keeps the point set (it drops only rows `0·x ≤ 0`) -/
theorem C15_remove_zero_rows (p : Aff α) (x : List α) : Poly.Mem p.removeZeroRows x ↔ Poly.Mem p x := by
  unfold Poly.Mem Aff.removeZeroRows
  rw [ofRows_rows]
  constructor
  · intro h rb hrb
    by_cases hz : (isZeroVec rb.1 && rb.2 == 0) = true
    · simp only [Bool.and_eq_true, beq_iff_eq] at hz
      rw [dot_isZeroVec rb.1 x hz.1, hz.2]
    · refine h rb (List.mem_filter.mpr ⟨hrb, ?_⟩)
      cases h1 : isZeroVec rb.1 <;> cases h2 : (rb.2 == 0) <;> simp_all
  · intro h rb hrb
    exact h rb (List.mem_filter.mp hrb).1

/-- `remove_tautologies` keeps the point set; an infeasible zero row yields the canonical empty polytope, dropping
    every row the canonical whole-space polytope -/
theorem C15_remove_tautologies (p : Aff α) (x : List α) : Poly.Mem (Poly.removeTautologies p) x ↔ Poly.Mem p x := by
  unfold Poly.removeTautologies
  split
  · rename_i hany
    -- some row is `0·x ≤ b` with `b < 0`: nothing satisfies p
    simp only [List.any_eq_true, Bool.and_eq_true, Bool.not_eq_true', decide_eq_false_iff_not] at hany
    obtain ⟨rb, hrb, hz, hneg⟩ := hany
    constructor
    · intro h; exact absurd h (C14_unbounded_empty p.indim x).2
    · intro h
      have := h rb hrb
      rw [dot_isZeroVec rb.1 x hz] at this
      exact absurd this hneg
  · rename_i hnone
    have hpos : ∀ rb ∈ p.rows, isZeroVec rb.1 = true → 0 ≤ rb.2 := by
      intro rb hrb hz
      by_contra hn
      apply hnone
      simp only [List.any_eq_true, Bool.and_eq_true, Bool.not_eq_true', decide_eq_false_iff_not]
      exact ⟨rb, hrb, hz, hn⟩
    have hback : (∀ rb ∈ p.rows.filter (fun rb => !isZeroVec rb.1), dot rb.1 x ≤ rb.2) → Poly.Mem p x := by
      intro h rb hrb
      by_cases hz : isZeroVec rb.1 = true
      · rw [dot_isZeroVec rb.1 x hz]; exact hpos rb hrb hz
      · exact h rb (List.mem_filter.mpr ⟨hrb, by simpa using hz⟩)
    show Poly.Mem (if (p.rows.filter (fun rb => !isZeroVec rb.1)).isEmpty = true then Poly.unbounded p.indim
      else Aff.ofRows p.indim (p.rows.filter (fun rb => !isZeroVec rb.1))) x ↔ Poly.Mem p x
    split
    · rename_i hemp
      constructor
      · intro _
        apply hback
        intro rb hrb
        have : p.rows.filter (fun rb => !isZeroVec rb.1) = [] := by simpa using hemp
        rw [this] at hrb; simp at hrb
      · intro _; exact (C14_unbounded_empty p.indim x).1
    · unfold Poly.Mem
      rw [ofRows_rows]
      constructor
      · exact hback
      · intro h rb hrb; exact h rb (List.mem_filter.mp hrb).1

/-- `remove_tautologies` only drops rows (when it does not return a canonical polytope) -/
theorem C15_remove_tautologies_subseq (p : Aff α) :
    Poly.removeTautologies p = Poly.empty p.indim ∨ Poly.removeTautologies p = Poly.unbounded p.indim ∨
    (Poly.removeTautologies p).rows.Sublist p.rows := by
  unfold Poly.removeTautologies
  split
  · exact Or.inl rfl
  · show (if (p.rows.filter (fun rb => !isZeroVec rb.1)).isEmpty = true then Poly.unbounded p.indim
      else Aff.ofRows p.indim (p.rows.filter (fun rb => !isZeroVec rb.1))) = Poly.empty p.indim ∨
      (if (p.rows.filter (fun rb => !isZeroVec rb.1)).isEmpty = true then Poly.unbounded p.indim
      else Aff.ofRows p.indim (p.rows.filter (fun rb => !isZeroVec rb.1))) = Poly.unbounded p.indim ∨
      (if (p.rows.filter (fun rb => !isZeroVec rb.1)).isEmpty = true then Poly.unbounded p.indim
      else Aff.ofRows p.indim (p.rows.filter (fun rb => !isZeroVec rb.1))).rows.Sublist p.rows
    split
    · exact Or.inr (Or.inl rfl)
    · right; right
      rw [ofRows_rows]
      exact List.filter_sublist

end AV

namespace AV
variable {α : Type} [Field α] [LinearOrder α] [IsStrictOrderedRing α]

/-! ### `normalize` -/

/-- `normalize` (rows and biases divided by positive numbers, rows of norm ≤ EPSILON left as they are) keeps the point
    set; every row of the result is the original row divided by its scale -/
theorem C15_normalize (p : Aff α) (s : List (Option α)) (hlen : s.length = p.rows.length)
    (hpos : ∀ o ∈ s, ∀ k, o = some k → 0 < k) (x : List α) : Poly.Mem (p.scaleRows s) x ↔ Poly.Mem p x :=
  mem_scaleRows p s hlen hpos x

/-! ### `remove_redundant_row_constraints` -/

theorem removeRowsAux_mem (i : Nat) (idxs : List Nat) (rows : List (List α × α)) (x : List α) :
    (∀ rb ∈ Aff.removeRowsAux i idxs rows, dot rb.1 x ≤ rb.2) ↔
    (∀ j (h : j < rows.length), i + j ∉ idxs → dot (rows[j]).1 x ≤ (rows[j]).2) := by
  induction rows generalizing i with
  | nil => simp [Aff.removeRowsAux]
  | cons r rows ih =>
    simp only [Aff.removeRowsAux]
    have hshift : (∀ j (h : j < rows.length), i + 1 + j ∉ idxs → dot (rows[j]).1 x ≤ (rows[j]).2) ↔
        (∀ j (h : j + 1 < (r :: rows).length), i + (j + 1) ∉ idxs → dot ((r :: rows)[j+1]).1 x ≤ ((r :: rows)[j+1]).2) := by
      constructor
      · intro h j hj hn
        have := h j (by simpa using hj) (by rwa [show i + 1 + j = i + (j + 1) by omega])
        simpa using this
      · intro h j hj hn
        have := h j (by simpa using hj) (by rwa [show i + (j + 1) = i + 1 + j by omega])
        simpa using this
    by_cases hc : idxs.contains i = true
    · rw [if_pos hc, ih (i+1), hshift]
      have hin : i ∈ idxs := by simpa using hc
      constructor
      · intro h j hj hn
        cases j with
        | zero => exact absurd hin (by simpa using hn)
        | succ j => exact h j hj hn
      · intro h j hj hn
        exact h (j+1) hj hn
    · rw [if_neg hc]
      have hin : i ∉ idxs := by simpa using hc
      simp only [List.mem_cons, forall_eq_or_imp]
      rw [ih (i+1), hshift]
      constructor
      · rintro ⟨h0, h⟩ j hj hn
        cases j with
        | zero => simpa using h0
        | succ j => exact h j hj hn
      · intro h
        refine ⟨?_, fun j hj hn => h (j+1) hj hn⟩
        have := h 0 (by simp) (by simpa using hin)
        simpa only [List.getElem_cons_zero] using this

/-- membership in `remove_rows(idxs)`: the rows whose position is not listed -/
theorem mem_removeRows (p : Aff α) (idxs : List Nat) (x : List α) :
    Poly.Mem (p.removeRows idxs) x ↔
    ∀ j (h : j < p.rows.length), j ∉ idxs → dot (p.rows[j]).1 x ≤ (p.rows[j]).2 := by
  unfold Poly.Mem Aff.removeRows
  rw [ofRows_rows, removeRowsAux_mem 0 idxs p.rows x]
  simp

/-- the solver's optimum is a true optimum: the hypothesis under which dropping rows is exact -/
def OptimalSound {σ : Type} (lp : LPOracle σ α) : Prop :=
  ∀ s q c x, (lp s q c).1 = LPAnswer.optimal x → ∀ z, Poly.Mem q z → dot c x ≤ dot c z

theorem removeRedundantLoop_spec {σ : Type} (lp : LPOracle σ α) (hopt : OptimalSound lp) (hinf : InfeasibleSound lp)
    (p : Aff α) (hwf : p.WF) (idxs red : List Nat) (s : σ) (r : Aff α)
    (hinv : ∀ x, Poly.Mem (p.removeRows red) x → Poly.Mem p x)
    (h : (removeRedundantLoop 0 lp p idxs red s).1 = .ok r) :
    ∀ x, Poly.Mem r x ↔ Poly.Mem p x := by
  induction idxs generalizing red s with
  | nil =>
    simp only [removeRedundantLoop, RedResult.ok.injEq] at h
    subst h
    intro x
    refine ⟨hinv x, fun hm => ?_⟩
    rw [mem_removeRows]
    intro j hj _
    exact hm _ (List.getElem_mem hj)
  | cons i rest ih =>
    simp only [removeRedundantLoop] at h
    rcases hlp : lp s (p.removeRows (i :: red)) (vneg (p.mat.getD i [])) with ⟨a, s'⟩
    rw [hlp] at h
    cases a with
    | error => simp at h
    | unbounded => exact ih red s' hinv h
    | infeasible =>
      simp only [RedResult.ok.injEq] at h
      subst h
      intro x
      have hempty := hinf s _ _ (by rw [hlp])
      constructor
      · intro hm; exact absurd hm (C14_unbounded_empty p.indim x).2
      · intro hm
        exfalso
        apply hempty
        refine ⟨x, ?_⟩
        rw [mem_removeRows]
        intro j hj _
        exact hm _ (List.getElem_mem hj)
    | optimal xs =>
      simp only at h
      split at h
      · rename_i hle
        refine ih (i :: red) s' ?_ h
        intro x hx
        apply hinv x
        rw [mem_removeRows] at hx ⊢
        intro j hj hjr
        by_cases hji : j = i
        · subst hji
          -- row j is implied by the other rows: the solver's optimum bounds it
          have hmax := hopt s _ _ xs (by rw [hlp]) x (by rw [mem_removeRows]; exact hx)
          rw [dot_vneg_left, dot_vneg_left] at hmax
          have hjm : j < p.mat.length := by
            unfold Aff.rows at hj; simp only [List.length_zip] at hj; omega
          have hjb : j < p.bias.length := by
            unfold Aff.rows at hj; simp only [List.length_zip] at hj; omega
          have e1 : (p.rows[j]).1 = p.mat.getD j [] := by
            simp only [Aff.rows, List.getElem_zip, List.getD_eq_getElem?_getD, List.getElem?_eq_getElem hjm,
              Option.getD_some]
          have e2 : (p.rows[j]).2 = p.bias.getD j 0 := by
            simp only [Aff.rows, List.getElem_zip, List.getD_eq_getElem?_getD, List.getElem?_eq_getElem hjb,
              Option.getD_some]
          rw [e1, e2]
          simp only [add_zero] at hle
          linarith
        · exact hx j hj (by simp [hji, hjr])
      · exact ih red s' hinv h

/-- `remove_redundant_row_constraints` with an exact solver (its optima are optima, its "infeasible" is right, and
    the comparison threshold is 0): the result denotes the same point set — or is the canonical empty polytope when
    the system is empty. The implementation adds `f64::EPSILON` to the threshold; the judge decides set equality
    per case with exact certificates -/
theorem C15_remove_redundant_exact {σ : Type} (lp : LPOracle σ α) (hopt : OptimalSound lp)
    (hinf : InfeasibleSound lp) (p : Aff α) (hwf : p.WF) (s : σ) (r : Aff α)
    (h : (Poly.removeRedundant 0 lp p s).1 = .ok r) : ∀ x, Poly.Mem r x ↔ Poly.Mem p x := by
  unfold Poly.removeRedundant at h
  refine removeRedundantLoop_spec lp hopt hinf p hwf _ [] s r ?_ h
  intro x hx
  rw [mem_removeRows] at hx
  intro rb hrb
  obtain ⟨j, hj, rfl⟩ := List.mem_iff_getElem.mp hrb
  exact hx j hj (by simp)

/-- an `optimal` answer is a point of the set it was asked about -/
def WitnessIn {σ : Type} (lp : LPOracle σ α) : Prop :=
  ∀ s q c x, (lp s q c).1 = LPAnswer.optimal x → Poly.Mem q x

/-- an `unbounded` answer is right: the objective takes arbitrarily small values on the set -/
def UnboundedSound {σ : Type} (lp : LPOracle σ α) : Prop :=
  ∀ s q c, (lp s q c).1 = LPAnswer.unbounded → ∀ M : α, ∃ x, Poly.Mem q x ∧ dot c x < M

theorem mem_removeRows_mono (p : Aff α) (a b : List Nat) (hab : ∀ i ∈ a, i ∈ b) (x : List α)
    (h : Poly.Mem (p.removeRows a) x) : Poly.Mem (p.removeRows b) x := by
  rw [mem_removeRows] at h ⊢
  intro j hj hjb
  exact h j hj (fun hja => hjb (hab j hja))

theorem mem_removeRows_of_mem (p : Aff α) (a : List Nat) (x : List α) (h : Poly.Mem p x) :
    Poly.Mem (p.removeRows a) x := by
  rw [mem_removeRows]
  intro j hj _
  exact h _ (List.getElem_mem hj)

/-- dropping rows never loses a point, for every threshold and every solver that is right about `infeasible` -/
theorem removeRedundantLoop_superset {σ : Type} (eps : α) (lp : LPOracle σ α) (hinf : InfeasibleSound lp)
    (p : Aff α) (idxs red : List Nat) (s : σ) (r : Aff α)
    (h : (removeRedundantLoop eps lp p idxs red s).1 = .ok r) (x : List α) (hm : Poly.Mem p x) : Poly.Mem r x := by
  induction idxs generalizing red s with
  | nil =>
    simp only [removeRedundantLoop, RedResult.ok.injEq] at h
    subst h
    exact mem_removeRows_of_mem p red x hm
  | cons i rest ih =>
    simp only [removeRedundantLoop] at h
    rcases hlp : lp s (p.removeRows (i :: red)) (vneg (p.mat.getD i [])) with ⟨a, s'⟩
    rw [hlp] at h
    cases a with
    | error => simp at h
    | unbounded => exact ih red s' h
    | infeasible =>
      exact absurd ⟨x, mem_removeRows_of_mem p (i :: red) x hm⟩ (hinf s _ _ (by rw [hlp]))
    | optimal xs =>
      simp only at h
      split at h
      · exact ih (i :: red) s' h
      · exact ih red s' h

/-- what the loop returns: the canonical empty polytope, or `p` without an index set `red' ⊇ red` such that every
    index of `idxs` that stays is needed by a margin of `eps`: some point of the other remaining rows violates it by
    more than `eps` -/
theorem removeRedundantLoop_kept {σ : Type} (eps : α) (lp : LPOracle σ α) (hwit : WitnessIn lp)
    (hunb : UnboundedSound lp) (p : Aff α) (idxs red : List Nat) (s : σ) (r : Aff α)
    (h : (removeRedundantLoop eps lp p idxs red s).1 = .ok r) :
    r = Poly.empty p.indim ∨ ∃ red', r = p.removeRows red' ∧ (∀ j ∈ red, j ∈ red') ∧ (∀ j ∈ red', j ∈ red ∨ j ∈ idxs) ∧
      ∀ i ∈ idxs, i ∉ red' →
        ∃ x, Poly.Mem (p.removeRows (i :: red')) x ∧ p.bias.getD i 0 + eps < dot (p.mat.getD i []) x := by
  induction idxs generalizing red s with
  | nil =>
    simp only [removeRedundantLoop, RedResult.ok.injEq] at h
    exact Or.inr ⟨red, h.symm, fun j hj => hj, fun j hj => Or.inl hj, by simp⟩
  | cons i rest ih =>
    simp only [removeRedundantLoop] at h
    rcases hlp : lp s (p.removeRows (i :: red)) (vneg (p.mat.getD i [])) with ⟨a, s'⟩
    rw [hlp] at h
    cases a with
    | error => simp at h
    | infeasible =>
      simp only [RedResult.ok.injEq] at h
      exact Or.inl h.symm
    | unbounded =>
      rcases ih red s' h with he | ⟨red', hr, hsub, hsup, hk⟩
      · exact Or.inl he
      · refine Or.inr ⟨red', hr, hsub, fun j hj => (hsup j hj).imp id (List.mem_cons_of_mem i), ?_⟩
        intro j hj hjr
        rcases List.mem_cons.1 hj with rfl | hj'
        · obtain ⟨x, hx, hlt⟩ := hunb s _ _ (by rw [hlp]) (-(p.bias.getD j 0 + eps))
          rw [dot_vneg_left] at hlt
          refine ⟨x, mem_removeRows_mono p (j :: red) (j :: red') ?_ x hx, by linarith⟩
          intro k hk'
          rcases List.mem_cons.1 hk' with rfl | hk''
          · exact List.mem_cons_self
          · exact List.mem_cons_of_mem _ (hsub k hk'')
        · exact hk j hj' hjr
    | optimal xs =>
      simp only at h
      split at h
      · rcases ih (i :: red) s' h with he | ⟨red', hr, hsub, hsup, hk⟩
        · exact Or.inl he
        · refine Or.inr ⟨red', hr, fun j hj => hsub j (List.mem_cons_of_mem i hj), ?_, ?_⟩
          · intro j hj
            rcases hsup j hj with h1 | h1
            · rcases List.mem_cons.1 h1 with rfl | h2
              · exact Or.inr List.mem_cons_self
              · exact Or.inl h2
            · exact Or.inr (List.mem_cons_of_mem i h1)
          · intro j hj hjr
            rcases List.mem_cons.1 hj with rfl | hj'
            · exact absurd (hsub j List.mem_cons_self) hjr
            · exact hk j hj' hjr
      · rename_i hnle
        rcases ih red s' h with he | ⟨red', hr, hsub, hsup, hk⟩
        · exact Or.inl he
        · refine Or.inr ⟨red', hr, hsub, fun j hj => (hsup j hj).imp id (List.mem_cons_of_mem i), ?_⟩
          intro j hj hjr
          rcases List.mem_cons.1 hj with rfl | hj'
          · have hx := hwit s _ _ xs (by rw [hlp])
            refine ⟨xs, mem_removeRows_mono p (j :: red) (j :: red') ?_ xs hx, lt_of_not_ge hnle⟩
            intro k hk'
            rcases List.mem_cons.1 hk' with rfl | hk''
            · exact List.mem_cons_self
            · exact List.mem_cons_of_mem _ (hsub k hk'')
          · exact hk j hj' hjr

/-- `remove_redundant_row_constraints` with the code's threshold (`eps` = `f64::EPSILON`, any `eps` here) and *any*
    solver that is right about `infeasible`: no point is lost -/
theorem C15_remove_redundant_superset {σ : Type} (eps : α) (lp : LPOracle σ α) (hinf : InfeasibleSound lp)
    (p : Aff α) (s : σ) (r : Aff α) (h : (Poly.removeRedundant eps lp p s).1 = .ok r) (x : List α)
    (hm : Poly.Mem p x) : Poly.Mem r x :=
  removeRedundantLoop_superset eps lp hinf p _ [] s r h x hm

/-- … the result is the canonical empty polytope or a subsequence of the original rows (any solver, any threshold) -/
theorem C15_remove_redundant_subseq {σ : Type} (eps : α) (lp : LPOracle σ α) (p : Aff α) (s : σ) (r : Aff α)
    (h : (Poly.removeRedundant eps lp p s).1 = .ok r) : r = Poly.empty p.indim ∨ r.rows.Sublist p.rows := by
  suffices hs : ∀ idxs red (s : σ), (removeRedundantLoop eps lp p idxs red s).1 = .ok r →
      r = Poly.empty p.indim ∨ ∃ red', r = p.removeRows red' by
    rcases hs _ [] s h with he | ⟨red', rfl⟩
    · exact Or.inl he
    · exact Or.inr (C15_remove_rows_subseq p red')
  intro idxs
  induction idxs with
  | nil =>
    intro red s h
    simp only [removeRedundantLoop, RedResult.ok.injEq] at h
    exact Or.inr ⟨red, h.symm⟩
  | cons i rest ih =>
    intro red s h
    simp only [removeRedundantLoop] at h
    rcases hlp : lp s (p.removeRows (i :: red)) (vneg (p.mat.getD i [])) with ⟨a, s'⟩
    rw [hlp] at h
    cases a with
    | error => simp at h
    | infeasible => simp only [RedResult.ok.injEq] at h; exact Or.inl h.symm
    | unbounded => exact ih red s' h
    | optimal xs =>
      simp only at h
      split at h
      · exact ih (i :: red) s' h
      · exact ih red s' h

/-- … and it leaves no row that is implied by the remaining ones by a margin: for a solver whose `optimal` points lie
    in the set and whose `unbounded` answers are right, every row `i` that stays is violated by more than `eps` at some
    point satisfying all the other remaining rows -/
theorem C15_remove_redundant_irredundant {σ : Type} (eps : α) (lp : LPOracle σ α) (hwit : WitnessIn lp)
    (hunb : UnboundedSound lp) (p : Aff α) (s : σ) (r : Aff α) (h : (Poly.removeRedundant eps lp p s).1 = .ok r) :
    r = Poly.empty p.indim ∨ ∃ red', r = p.removeRows red' ∧ ∀ i, i < p.mat.length → i ∉ red' →
      ∃ x, Poly.Mem (p.removeRows (i :: red')) x ∧ p.bias.getD i 0 + eps < dot (p.mat.getD i []) x := by
  rcases removeRedundantLoop_kept eps lp hwit hunb p _ [] s r h with he | ⟨red', hr, _, _, hk⟩
  · exact Or.inl he
  · exact Or.inr ⟨red', hr, fun i hi hir => hk i (by simp [hi]) hir⟩

theorem dedupAux_sublist (eqv : List α × α → List α × α → Bool) (seen rs : List (List α × α)) :
    (Poly.dedupAux eqv seen rs).Sublist rs := by
  induction rs generalizing seen with
  | nil => simp [Poly.dedupAux]
  | cons r rs ih =>
    simp only [Poly.dedupAux]
    split
    · exact (ih _).cons r
    · exact (ih _).cons_cons r

/-- a comparison of rows that only identifies rows describing the same half-space -/
def SoundEqv (eqv : List α × α → List α × α → Bool) : Prop :=
  ∀ r r', eqv r r' = true → ∀ x : List α, dot r.1 x ≤ r.2 ↔ dot r'.1 x ≤ r'.2

theorem dedupAux_mem (eqv : List α × α → List α × α → Bool) (h : SoundEqv eqv) (x : List α)
    (seen rs : List (List α × α)) (hs : ∀ s ∈ seen, dot s.1 x ≤ s.2) :
    (∀ r ∈ Poly.dedupAux eqv seen rs, dot r.1 x ≤ r.2) ↔ (∀ r ∈ rs, dot r.1 x ≤ r.2) := by
  induction rs generalizing seen with
  | nil => simp [Poly.dedupAux]
  | cons r rs ih =>
    simp only [Poly.dedupAux]
    split
    · rename_i hany
      obtain ⟨s, hsm, he⟩ := List.any_eq_true.mp hany
      have hr : dot r.1 x ≤ r.2 := (h r s he x).mpr (hs s hsm)
      rw [ih (seen ++ [r]) (by
        intro s' hs'
        rcases List.mem_append.mp hs' with h1 | h1
        · exact hs s' h1
        · simp only [List.mem_singleton] at h1; subst h1; exact hr)]
      simp [hr]
    · simp only [List.forall_mem_cons]
      constructor
      · rintro ⟨hr, hrest⟩
        refine ⟨hr, ?_⟩
        exact (ih (seen ++ [r]) (by
          intro s' hs'
          rcases List.mem_append.mp hs' with h1 | h1
          · exact hs s' h1
          · simp only [List.mem_singleton] at h1; subst h1; exact hr)).mp hrest
      · rintro ⟨hr, hrest⟩
        refine ⟨hr, ?_⟩
        exact (ih (seen ++ [r]) (by
          intro s' hs'
          rcases List.mem_append.mp hs' with h1 | h1
          · exact hs s' h1
          · simp only [List.mem_singleton] at h1; subst h1; exact hr)).mpr hrest

theorem posMultiple_sound : SoundEqv (Poly.posMultiple : List α × α → List α × α → Bool) := by
  intro r r' h x
  unfold Poly.posMultiple at h
  split at h
  · simp at h
  · rename_i a a' _
    simp only [Bool.and_eq_true, Bool.not_eq_true', decide_eq_false_iff_not, not_le, beq_iff_eq] at h
    obtain ⟨⟨hc, h1⟩, h2⟩ := h
    rw [h1, h2, dot_smul_left]
    exact mul_le_mul_iff_right₀ hc

theorem absV_nonpos_iff (a : α) : Poly.absV a ≤ 0 ↔ a = 0 := by
  unfold Poly.absV
  split
  · constructor
    · intro h; exact le_antisymm h ‹0 ≤ a›
    · intro h; rw [h]
  · rename_i hn
    constructor
    · intro h; exact absurd (by linarith : 0 ≤ a) hn
    · intro h; rw [h] at hn; exact absurd (le_refl 0) hn

theorem relEq_zero (a b : α) (h : Poly.relEq 0 a b = true) : a = b := by
  unfold Poly.relEq at h
  simp only [mul_zero, Bool.or_self, decide_eq_true_eq] at h
  have := (absV_nonpos_iff (a - b)).mp h
  linarith

theorem zip_all_eq (u v : List α) (hl : u.length = v.length) (h : ∀ p ∈ u.zip v, p.1 = p.2) : u = v := by
  induction u generalizing v with
  | nil => cases v with
    | nil => rfl
    | cons _ _ => simp at hl
  | cons a u ih =>
    cases v with
    | nil => simp at hl
    | cons b v =>
      simp only [List.zip_cons_cons, List.forall_mem_cons] at h
      rw [h.1, ih v (by simpa using hl) h.2]

/-- with `eps = 0` the comparison inside `remove_duplicate_rows` identifies only rows with the same half-space -/
theorem dupEqv_zero_sound : SoundEqv (Poly.dupEqv (0 : α)) := by
  intro r r' h x
  unfold Poly.dupEqv at h
  simp only at h
  split at h
  · exact posMultiple_sound r r' h x
  · split at h
    · simp only [Bool.and_eq_true, beq_iff_eq, List.all_eq_true] at h
      obtain ⟨⟨hl, hz⟩, hb⟩ := h
      have h1 : r.1 = r'.1 := zip_all_eq _ _ hl (fun p hp => relEq_zero _ _ (hz p hp))
      have h2 : r.2 = r'.2 := relEq_zero _ _ hb
      rw [h1, h2]
    · simp at h

/-- `remove_duplicate_rows` (any `eps`): only rows are dropped -/
theorem C15_remove_duplicate_rows_subseq (eps : α) (p : Aff α) :
    (Poly.removeDuplicateRows eps p).rows.Sublist p.rows := by
  unfold Poly.removeDuplicateRows
  rw [ofRows_rows]
  exact dedupAux_sublist _ _ _

/-- `remove_duplicate_rows` with the exact comparison (`eps = 0`): the point set is unchanged.  PARTIAL: the code runs
    with `eps = f64::EPSILON`, for which the statement is false (`C15_remove_duplicate_rows_eps_counterexample`,
    known finding F-C15-duplicate-rows-below-epsilon). -/
theorem C15_remove_duplicate_rows_partial (p : Aff α) (x : List α) :
    Poly.Mem (Poly.removeDuplicateRows 0 p) x ↔ Poly.Mem p x := by
  unfold Poly.removeDuplicateRows Poly.Mem
  rw [ofRows_rows]
  exact dedupAux_mem _ dupEqv_zero_sound x [] p.rows (by simp)

/-- the same for any comparison that only identifies equal half-spaces -/
theorem C15_remove_duplicate_rows_sound (eqv : List α × α → List α × α → Bool) (h : SoundEqv eqv) (p : Aff α) (x : List α) :
    Poly.Mem (Aff.ofRows p.indim (Poly.dedupAux eqv [] p.rows)) x ↔ Poly.Mem p x := by
  unfold Poly.Mem
  rw [ofRows_rows]
  exact dedupAux_mem _ h x [] p.rows (by simp)

example : (Poly.removeDuplicateRows 0 (⟨[[1, 0], [0, 1], [2, 0], [1, 0], [0, 0], [0, 0]], [1, 1, 2, 3, 5, 5], 2⟩ : Aff Rat)).rows
    = [([1, 0], 1), ([0, 1], 1), ([1, 0], 3), ([0, 0], 5)] := by decide +kernel

/-- with the code's `eps = 2⁻⁵²` the property fails: `2⁻⁶⁰·x ≤ 1` and `−2⁻⁶⁰·x ≤ 1` are "duplicates", the second is
    dropped, and `x = −2⁶¹` satisfies the result but not the original system (replayed on the implementation:
    known finding F-C15-duplicate-rows-below-epsilon) -/
theorem C15_remove_duplicate_rows_eps_counterexample :
    let eps : Rat := 1 / 2^52
    let p : Aff Rat := ⟨[[1 / 2^60], [-(1 / 2^60)]], [1, 1], 1⟩
    let x : List Rat := [-(2^61)]
    Poly.memb (Poly.removeDuplicateRows eps p) x = true ∧ Poly.memb p x = false := by
  decide +kernel


end AV
