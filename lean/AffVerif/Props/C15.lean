import AffVerif.Model.LP
/-! # C15 (theorems added below as they are proved) -/
namespace AV
end AV
