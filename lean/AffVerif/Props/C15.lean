import AffVerif.Props.C14
import AffVerif.Model.LP
/-!
# C15 — constraint clean-up keeps exactly the same point set

Proved: `remove_rows` / `remove_zero_rows` / `remove_tautologies` return a sub-sequence of the original rows (or the
canonical empty / whole-space polytope) and `remove_zero_rows`, `remove_tautologies` keep the point set.
Open: `normalize`, `remove_duplicate_rows`, `remove_redundant_row_constraints` (square roots, `relative_eq` and the
LP oracle enter; covered by exact set-equality decisions on every generated system).
-/
set_option linter.unusedSectionVars false
set_option linter.unusedVariables false
namespace AV
variable {α : Type} [Field α] [LinearOrder α] [IsStrictOrderedRing α]

theorem removeRowsAux_sublist (i : Nat) (idxs : List Nat) (rs : List (List α × α)) :
    (Aff.removeRowsAux i idxs rs).Sublist rs := by
  induction rs generalizing i with
  | nil => simp [Aff.removeRowsAux]
  | cons r rs ih =>
    simp only [Aff.removeRowsAux]
    split
    · exact (ih (i+1)).cons r
    · exact (ih (i+1)).cons₂ r

/-- `remove_rows` only drops rows: the result is a sub-sequence of the original rows -/
theorem C15_remove_rows_subseq (p : Aff α) (idxs : List Nat) : (p.removeRows idxs).rows.Sublist p.rows := by
  unfold Aff.removeRows
  rw [ofRows_rows]
  exact removeRowsAux_sublist 0 idxs p.rows

theorem C15_remove_zero_rows_subseq (p : Aff α) : p.removeZeroRows.rows.Sublist p.rows := by
  unfold Aff.removeZeroRows
  rw [ofRows_rows]
  exact List.filter_sublist

theorem dot_isZeroVec (a x : List α) (h : isZeroVec a = true) : dot a x = 0 := by
  apply dot_all_zero'
  intro e he
  unfold isZeroVec at h
  simp only [List.all_eq_true, beq_iff_eq] at h
  exact h e he
where
  dot_all_zero' (v x : List α) (h : ∀ e ∈ v, e = 0) : dot v x = 0 := by
    induction v generalizing x with
    | nil => simp
    | cons a as ih =>
      cases x with
      | nil => simp
      | cons b bs =>
        simp only [dot_cons]
        rw [h a (List.mem_cons_self), ih bs (fun e he => h e (List.mem_cons_of_mem _ he))]
        ring

/-- `remove_zero_rows` keeps the point set (it drops only rows `0·x ≤ 0`) -/
theorem C15_remove_zero_rows (p : Aff α) (x : List α) : Poly.Mem p.removeZeroRows x ↔ Poly.Mem p x := by
  unfold Poly.Mem Aff.removeZeroRows
  rw [ofRows_rows]
  constructor
  · intro h rb hrb
    by_cases hz : (isZeroVec rb.1 && rb.2 == 0) = true
    · simp only [Bool.and_eq_true, beq_iff_eq] at hz
      rw [dot_isZeroVec rb.1 x hz.1, hz.2]
    · refine h rb (List.mem_filter.mpr ⟨hrb, ?_⟩)
      cases h1 : isZeroVec rb.1 <;> cases h2 : (rb.2 == 0) <;> simp_all
  · intro h rb hrb
    exact h rb (List.mem_filter.mp hrb).1

/-- `remove_tautologies` keeps the point set; an infeasible zero row yields the canonical empty polytope, dropping
    every row the canonical whole-space polytope -/
theorem C15_remove_tautologies (p : Aff α) (x : List α) : Poly.Mem (Poly.removeTautologies p) x ↔ Poly.Mem p x := by
  unfold Poly.removeTautologies
  split
  · rename_i hany
    -- some row is `0·x ≤ b` with `b < 0`: nothing satisfies p
    simp only [List.any_eq_true, Bool.and_eq_true, Bool.not_eq_true', decide_eq_false_iff_not] at hany
    obtain ⟨rb, hrb, hz, hneg⟩ := hany
    constructor
    · intro h; exact absurd h (C14_unbounded_empty p.indim x).2
    · intro h
      have := h rb hrb
      rw [dot_isZeroVec rb.1 x hz] at this
      exact absurd this hneg
  · rename_i hnone
    have hpos : ∀ rb ∈ p.rows, isZeroVec rb.1 = true → 0 ≤ rb.2 := by
      intro rb hrb hz
      by_contra hn
      apply hnone
      simp only [List.any_eq_true, Bool.and_eq_true, Bool.not_eq_true', decide_eq_false_iff_not]
      exact ⟨rb, hrb, hz, hn⟩
    have hback : (∀ rb ∈ p.rows.filter (fun rb => !isZeroVec rb.1), dot rb.1 x ≤ rb.2) → Poly.Mem p x := by
      intro h rb hrb
      by_cases hz : isZeroVec rb.1 = true
      · rw [dot_isZeroVec rb.1 x hz]; exact hpos rb hrb hz
      · exact h rb (List.mem_filter.mpr ⟨hrb, by simpa using hz⟩)
    show Poly.Mem (if (p.rows.filter (fun rb => !isZeroVec rb.1)).isEmpty = true then Poly.unbounded p.indim
      else Aff.ofRows p.indim (p.rows.filter (fun rb => !isZeroVec rb.1))) x ↔ Poly.Mem p x
    split
    · rename_i hemp
      constructor
      · intro _
        apply hback
        intro rb hrb
        have : p.rows.filter (fun rb => !isZeroVec rb.1) = [] := by simpa using hemp
        rw [this] at hrb; simp at hrb
      · intro _; exact (C14_unbounded_empty p.indim x).1
    · unfold Poly.Mem
      rw [ofRows_rows]
      constructor
      · exact hback
      · intro h rb hrb; exact h rb (List.mem_filter.mp hrb).1

/-- `remove_tautologies` only drops rows (when it does not return a canonical polytope) -/
theorem C15_remove_tautologies_subseq (p : Aff α) :
    Poly.removeTautologies p = Poly.empty p.indim ∨ Poly.removeTautologies p = Poly.unbounded p.indim ∨
    (Poly.removeTautologies p).rows.Sublist p.rows := by
  unfold Poly.removeTautologies
  split
  · exact Or.inl rfl
  · show (if (p.rows.filter (fun rb => !isZeroVec rb.1)).isEmpty = true then Poly.unbounded p.indim
      else Aff.ofRows p.indim (p.rows.filter (fun rb => !isZeroVec rb.1))) = Poly.empty p.indim ∨
      (if (p.rows.filter (fun rb => !isZeroVec rb.1)).isEmpty = true then Poly.unbounded p.indim
      else Aff.ofRows p.indim (p.rows.filter (fun rb => !isZeroVec rb.1))) = Poly.unbounded p.indim ∨
      (if (p.rows.filter (fun rb => !isZeroVec rb.1)).isEmpty = true then Poly.unbounded p.indim
      else Aff.ofRows p.indim (p.rows.filter (fun rb => !isZeroVec rb.1))).rows.Sublist p.rows
    split
    · exact Or.inr (Or.inl rfl)
    · right; right
      rw [ofRows_rows]
      exact List.filter_sublist

end AV
