import AffVerif.Proofs.PruneSound
import AffVerif.Model.Reduce
/-!
# C08 — `reduce` preserves the function and only merges identical siblings

`reduce` is modelled as the bottom-up sweep (`PT.reduceAux`); binary trees whose decisions have at most one
row (`BinDec`, what `AffTree<2>` allows: a second row would make the label exceed the branching factor).
-/
set_option linter.unusedSectionVars false
set_option linter.unusedVariables false
namespace AV
variable {α : Type} [Field α] [LinearOrder α] [IsStrictOrderedRing α]

mutual
/-- every decision has at most one predicate row -/
def PT.BinDec : PT α → Prop
  | .node _ c ks => (ks.allNone = false → c.aff.outdim ≤ 1) ∧ PKids.BinDec ks
def PKids.BinDec : PKids α → Prop
  | .nil => True
  | .cons none r => PKids.BinDec r
  | .cons (some t) r => PT.BinDec t ∧ PKids.BinDec r
end

theorem PKids.reduceAux_allNone (ks : PKids α) : (PKids.reduceAux ks).allNone = ks.allNone := by
  match ks with
  | .nil => simp [PKids.reduceAux, IKids.allNone]
  | .cons none r => simp [PKids.reduceAux, IKids.allNone, PKids.reduceAux_allNone r]
  | .cons (some k) r => simp [PKids.reduceAux, IKids.allNone]

/-- what `mergeable?` finds: two terminal children with the same map; the label-0 child is returned -/
theorem mergeable_spec (ks : PKids α) (a : PT α) (h : mergeable? ks = some a) :
    ∃ b : PT α, ks = .cons (some a) (.cons (some b) .nil) ∧ a.kids.allNone = true ∧ b.kids.allNone = true ∧
      a.val.aff = b.val.aff := by
  unfold mergeable? at h
  split at h
  · rename_i a' b'
    split at h
    · rename_i hc
      simp only [Bool.and_eq_true, decide_eq_true_eq] at hc
      simp only [Option.some.injEq] at h
      subst h
      exact ⟨b', rfl, hc.1.1, hc.1.2, hc.2⟩
    · simp at h
  · simp at h

theorem eval_terminal (t : PT α) (x : List α) (h : t.kids.allNone = true) : PT.eval t x = some (t.val.aff.apply x) := by
  match t with
  | .node i c ks => simp only [ITree.kids] at h; simp [PT.eval, h, ITree.val]

mutual
theorem PT.eval_reduceAux (isRoot : Bool) (t : PT α) (x : List α) (hb : PT.BinDec t) :
    PT.eval (PT.reduceAux isRoot t) x = PT.eval t x := by
  match t with
  | .node i c ks =>
    unfold PT.BinDec at hb
    have hk := PKids.evalAt_reduceAux ks (c.aff.label x) x hb.2
    have hall := PKids.reduceAux_allNone ks
    simp only [PT.reduceAux]
    cases isRoot with
    | true => simp only [if_true, PT.eval, hall, hk]
    | false =>
      simp only [Bool.false_eq_true, if_false]
      cases hm : mergeable? (PKids.reduceAux ks) with
      | none => simp only [PT.eval, hall, hk]
      | some a =>
        obtain ⟨b, hks, ha, hbt, hab⟩ := mergeable_spec _ a hm
        -- the node is a decision with both children terminals carrying the same map
        have hnl : ks.allNone = false := by
          rw [← hall, hks]; simp [IKids.allNone]
        have hle := label_le_one c.aff x (hb.1 hnl)
        simp only [PT.eval, hnl, Bool.false_eq_true, if_false]
        rw [← hk, hks]
        rcases (by omega : c.aff.label x = 0 ∨ c.aff.label x = 1) with h0 | h1
        · rw [h0]; simp [PKids.evalAt]
        · rw [h1]; simp only [PKids.evalAt]
          rw [eval_terminal a x ha, eval_terminal b x hbt, hab]
theorem PKids.evalAt_reduceAux (ks : PKids α) (l : Nat) (x : List α) (hb : PKids.BinDec ks) :
    PKids.evalAt (PKids.reduceAux ks) l x = PKids.evalAt ks l x := by
  match ks, l with
  | .nil, _ => simp [PKids.reduceAux]
  | .cons none r, 0 => simp [PKids.reduceAux, PKids.evalAt]
  | .cons (some k) r, 0 =>
    simp only [PKids.reduceAux, PKids.evalAt]
    unfold PKids.BinDec at hb
    exact PT.eval_reduceAux false k x hb.1
  | .cons none r, l+1 =>
    simp only [PKids.reduceAux, PKids.evalAt]
    unfold PKids.BinDec at hb
    exact PKids.evalAt_reduceAux r l x hb
  | .cons (some k) r, l+1 =>
    simp only [PKids.reduceAux, PKids.evalAt]
    unfold PKids.BinDec at hb
    exact PKids.evalAt_reduceAux r l x hb.2
end

/-- `reduce` never changes the value or definedness at any input -/
theorem C08_eval (t : PT α) (x : List α) (hb : PT.BinDec t) : PT.eval (PT.reduce t) x = PT.eval t x :=
  PT.eval_reduceAux true t x hb

mutual
theorem PT.size_reduceAux (isRoot : Bool) (t : PT α) : (PT.reduceAux isRoot t).size ≤ t.size := by
  match t with
  | .node i c ks =>
    have hk := PKids.size_reduceAux ks
    simp only [PT.reduceAux]
    cases isRoot with
    | true => simp only [if_true, ITree.size]; omega
    | false =>
      simp only [Bool.false_eq_true, if_false]
      cases hm : mergeable? (PKids.reduceAux ks) with
      | none => simp only [ITree.size]; omega
      | some a =>
        obtain ⟨b, hks, _, _, _⟩ := mergeable_spec _ a hm
        rw [hks] at hk
        simp only [ITree.size, IKids.size] at hk ⊢
        omega
theorem PKids.size_reduceAux (ks : PKids α) : (PKids.reduceAux ks).size ≤ ks.size := by
  match ks with
  | .nil => simp [PKids.reduceAux]
  | .cons none r => simp only [PKids.reduceAux, IKids.size]; exact PKids.size_reduceAux r
  | .cons (some k) r =>
    simp only [PKids.reduceAux, IKids.size]
    have := PT.size_reduceAux false k
    have := PKids.size_reduceAux r
    omega
end

/-- `reduce` never increases the number of nodes -/
theorem C08_size (t : PT α) : (PT.reduce t).size ≤ t.size := PT.size_reduceAux true t

mutual
/-- no decision below the root has two terminal children carrying the same map -/
def PT.Reduced (isRoot : Bool) : PT α → Prop
  | .node _ _ ks => (isRoot = true ∨ mergeable? ks = none) ∧ PKids.Reduced ks
def PKids.Reduced : PKids α → Prop
  | .nil => True
  | .cons none r => PKids.Reduced r
  | .cons (some t) r => PT.Reduced false t ∧ PKids.Reduced r
end

theorem reduced_terminal (a : PT α) (h : a.kids.allNone = true) : PT.Reduced false a := by
  match a with
  | .node i c ks =>
    simp only [ITree.kids] at h
    unfold PT.Reduced
    constructor
    · right
      match ks, h with
      | .nil, _ => rfl
      | .cons none r, _ => rfl
    · exact allNone_reduced ks h
where
  allNone_reduced (ks : PKids α) (h : ks.allNone = true) : PKids.Reduced ks := by
    match ks, h with
    | .nil, _ => simp [PKids.Reduced]
    | .cons none r, h => simp only [PKids.Reduced]; exact allNone_reduced r (by simpa [IKids.allNone] using h)

mutual
theorem PT.reduced_reduceAux (isRoot : Bool) (t : PT α) : PT.Reduced isRoot (PT.reduceAux isRoot t) := by
  match t with
  | .node i c ks =>
    have hk := PKids.reduced_reduceAux ks
    simp only [PT.reduceAux]
    cases isRoot with
    | true => simp only [if_true]; unfold PT.Reduced; exact ⟨Or.inl rfl, hk⟩
    | false =>
      simp only [Bool.false_eq_true, if_false]
      cases hm : mergeable? (PKids.reduceAux ks) with
      | none => simp only; unfold PT.Reduced; exact ⟨Or.inr hm, hk⟩
      | some a =>
        obtain ⟨b, _, ha, _, _⟩ := mergeable_spec _ a hm
        exact reduced_terminal a ha
theorem PKids.reduced_reduceAux (ks : PKids α) : PKids.Reduced (PKids.reduceAux ks) := by
  match ks with
  | .nil => simp [PKids.reduceAux, PKids.Reduced]
  | .cons none r => simp only [PKids.reduceAux, PKids.Reduced]; exact PKids.reduced_reduceAux r
  | .cons (some k) r =>
    simp only [PKids.reduceAux, PKids.Reduced]
    exact ⟨PT.reduced_reduceAux false k, PKids.reduced_reduceAux r⟩
end

/-- afterwards no decision below the root has two terminal children carrying the same affine function -/
theorem C08_post (t : PT α) : PT.Reduced true (PT.reduce t) := PT.reduced_reduceAux true t

mutual
theorem PT.reduceAux_of_reduced (isRoot : Bool) (t : PT α) (h : PT.Reduced isRoot t) : PT.reduceAux isRoot t = t := by
  match t with
  | .node i c ks =>
    unfold PT.Reduced at h
    have hk := PKids.reduceAux_of_reduced ks h.2
    simp only [PT.reduceAux, hk]
    cases isRoot with
    | true => simp
    | false =>
      simp only [Bool.false_eq_true, if_false]
      rcases h.1 with h1 | h1
      · simp at h1
      · simp [h1]
theorem PKids.reduceAux_of_reduced (ks : PKids α) (h : PKids.Reduced ks) : PKids.reduceAux ks = ks := by
  match ks with
  | .nil => simp [PKids.reduceAux]
  | .cons none r =>
    unfold PKids.Reduced at h
    simp only [PKids.reduceAux, PKids.reduceAux_of_reduced r h]
  | .cons (some k) r =>
    unfold PKids.Reduced at h
    simp only [PKids.reduceAux, PT.reduceAux_of_reduced false k h.1, PKids.reduceAux_of_reduced r h.2]
end

/-- `reduce` is idempotent -/
theorem C08_idem (t : PT α) : PT.reduce (PT.reduce t) = PT.reduce t :=
  PT.reduceAux_of_reduced true _ (C08_post t)

/-- decisions whose children differ in matrix or bias are kept: the sweep replaces a decision only when
    `mergeable?` finds two terminal children with equal maps -/
theorem C08_keeps (i : Nat) (c : Content α) (ks : PKids α) (h : mergeable? (PKids.reduceAux ks) = none) :
    PT.reduceAux false (.node i c ks) = .node i c (PKids.reduceAux ks) := by
  simp [PT.reduceAux, h]

end AV
