import AffVerif.Model.Reduce
/-! # C08 (theorems added below as they are proved) -/
namespace AV
end AV
