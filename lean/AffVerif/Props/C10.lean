import AffVerif.Proofs.CertSound
import AffVerif.Proofs.Chebyshev
import AffVerif.Model.LP
/-!
# C10 — the LP layer classifies polytopes and optimises correctly

What can be proved is everything on the repository's side of the solver interface and the referee that
decides the implementation's answers: the certificate checkers used by the judge are sound, so the exact
simplex in the judge is an untrusted search. The floating-point simplex inside `minilp` is validated per
call, not proved.
-/
set_option linter.unusedSectionVars false
set_option linter.unusedVariables false
namespace AV
variable {α : Type} [Field α] [LinearOrder α] [IsStrictOrderedRing α]

/-- Motzkin transposition, the direction used by the judge: accepted multipliers prove that a mixed
    strict / non-strict system has no solution -/
theorem C10_motzkin_sound (n : Nat) (rows : List (Row α)) (y : List α)
    (h : checkInfeasible n rows y = true) : ¬ ∃ x, Sat rows x :=
  checkInfeasible_sound n rows y h

theorem sat_polyRows (p : Aff α) (x : List α) : Sat (polyRows p) x ↔ Poly.Mem p x := by
  unfold Sat polyRows Poly.Mem Row.sat
  constructor
  · intro h rb hrb
    have := h ⟨rb.1, rb.2, false⟩ (List.mem_map.mpr ⟨rb, hrb, rfl⟩)
    simpa using this
  · intro h r hr
    obtain ⟨rb, hrb, rfl⟩ := List.mem_map.mp hr
    simpa using h rb hrb

/-- Farkas: an accepted certificate for `{x | A x ≤ b}` proves the polytope empty -/
theorem C10_farkas_sound (p : Aff α) (y : List α)
    (h : checkInfeasible p.indim (polyRows p) y = true) : ¬ ∃ x, Poly.Mem p x := by
  rintro ⟨x, hx⟩
  exact checkInfeasible_sound _ _ _ h ⟨x, (sat_polyRows p x).mpr hx⟩

/-- `status()` is `solve_linprog` with the zero objective and `is_feasible` reports infeasible exactly when
    the backend does -/
theorem C10_isFeasible_spec {σ : Type} (lp : LPOracle σ α) (s : σ) (p : Aff α) :
    (Poly.isFeasible lp s p).1 = some false ↔ (lp s p (zeros p.indim)).1 = LPAnswer.infeasible := by
  unfold Poly.isFeasible Poly.status
  rcases h : lp s p (zeros p.indim) with ⟨a, s'⟩
  cases a <;> simp

/-- optimality: a primal/dual pair accepted by the referee's checker proves that `x` lies in the set, has objective
    value `v`, and that `v` is the true minimum -/
theorem C10_optimal_cert_sound (n : Nat) (p : Aff α) (c x : List α) (v : α) (y : List α)
    (h : checkOptimal n p c x v y = true) :
    Poly.Mem p x ∧ dot c x = v ∧ ∀ z, Poly.Mem p z → v ≤ dot c z :=
  checkOptimal_sound n p c x v y h

/-- unboundedness: a point/ray pair accepted by the referee's checker proves that the set is non-empty and the
    objective is unbounded below on it -/
theorem C10_unbounded_cert_sound (n : Nat) (p : Aff α) (c x d : List α) (h : checkUnbounded n p c x d = true) :
    (∃ z, Poly.Mem p z) ∧ ∀ M : α, ∃ z, Poly.Mem p z ∧ dot c z < M := by
  refine ⟨?_, checkUnbounded_sound n p c x d h⟩
  obtain ⟨z, hz, _⟩ := checkUnbounded_sound n p c x d h 0
  exact ⟨z, hz⟩

/-- the three verdicts of the referee exclude each other: a certified optimum rules out unboundedness and emptiness -/
theorem C10_verdicts_exclusive (n : Nat) (p : Aff α) (c x : List α) (v : α) (y : List α)
    (h : checkOptimal n p c x v y = true) :
    (∀ x' d, checkUnbounded n p c x' d = false) ∧ (∀ y', checkInfeasible p.indim (polyRows p) y' = false) := by
  obtain ⟨hx, _, hmin⟩ := checkOptimal_sound n p c x v y h
  constructor
  · intro x' d
    by_contra hc
    have hu : checkUnbounded n p c x' d = true := by simpa using hc
    obtain ⟨z, hz, hlt⟩ := checkUnbounded_sound n p c x' d hu v
    have := hmin z hz
    linarith
  · intro y'
    by_contra hc
    have hi : checkInfeasible p.indim (polyRows p) y' = true := by simpa using hc
    exact C10_farkas_sound p y' hi ⟨x, hx⟩

/-- the Chebyshev-centre program: `(x, r)` satisfies it exactly when `r ≥ 0` and the closed ball of radius `r`
    around `x` lies in the polytope (`norms` are the Euclidean row norms: `s ≥ 0`, `s² = a·a`) -/
theorem C10_chebyshev_program (p : Aff α) (norms : List α) (hwf : p.WF) (hlen : norms.length = p.mat.length)
    (hn : ∀ t ∈ p.mat.zip norms, 0 ≤ t.2 ∧ t.2 * t.2 = dot t.1 t.1)
    (x : List α) (hx : x.length = p.indim) (r : α) :
    Poly.Mem (Poly.chebyshev p norms).1 (x ++ [r]) ↔
      0 ≤ r ∧ ∀ u : List α, u.length = p.indim → dot u u ≤ r * r → Poly.Mem p (vadd x u) :=
  chebyshev_spec p norms hwf hlen hn x hx r

/-- hence a certified optimum of the program is the centre and radius of a *largest* inscribed ball -/
theorem C10_chebyshev_largest (p : Aff α) (norms : List α) (hwf : p.WF) (hlen : norms.length = p.mat.length)
    (hn : ∀ t ∈ p.mat.zip norms, 0 ≤ t.2 ∧ t.2 * t.2 = dot t.1 t.1)
    (x : List α) (hx : x.length = p.indim) (r v : α) (y : List α)
    (hopt : checkOptimal (p.indim + 1) (Poly.chebyshev p norms).1 (Poly.chebyshev p norms).2 (x ++ [r]) v y = true) :
    (0 ≤ r ∧ ∀ u : List α, u.length = p.indim → dot u u ≤ r * r → Poly.Mem p (vadd x u)) ∧
    ∀ (x' : List α) (r' : α), x'.length = p.indim → 0 ≤ r' →
      (∀ u : List α, u.length = p.indim → dot u u ≤ r' * r' → Poly.Mem p (vadd x' u)) → r' ≤ r := by
  obtain ⟨hmem, hval, hmin⟩ := checkOptimal_sound _ _ _ _ _ _ hopt
  refine ⟨(chebyshev_spec p norms hwf hlen hn x hx r).mp hmem, fun x' r' hx' hr' hball => ?_⟩
  have hm' := (chebyshev_spec p norms hwf hlen hn x' hx' r').mpr ⟨hr', hball⟩
  have h1 := hmin _ hm'
  -- the cost vector is `(0, …, 0, −1)`: the value of `(x, r)` is `−r`
  have hcost : ∀ (z : List α) (q : α), z.length = p.indim → dot (Poly.chebyshev p norms).2 (z ++ [q]) = -q := by
    intro z q hz
    unfold Poly.chebyshev
    simp only
    rw [dot_append _ _ _ _ (by simp [hz])]
    simp
  rw [hcost x' r' hx'] at h1
  rw [hcost x r hx] at hval
  linarith

/-- non-vacuity: `x ≤ 1, −x ≤ −2` is refuted by the multipliers `(1, 1)` -/
example : checkInfeasible 1 (polyRows (⟨[[1], [-1]], [1, -2], 1⟩ : Aff Rat)) [1, 1] = true := by decide +kernel

/-- non-vacuity: `min x` over `−1 ≤ x ≤ 3` has the optimum `x = −1` with multipliers `(0, 1)` -/
example : checkOptimal 1 (⟨[[1], [-1]], [3, 1], 1⟩ : Aff Rat) [1] [-1] (-1) [0, 1] = true := by decide +kernel
/-- non-vacuity: `min −x` over `x ≥ −1` is unbounded along `d = 1` -/
example : checkUnbounded 1 (⟨[[-1]], [1], 1⟩ : Aff Rat) [-1] [0] [1] = true := by decide +kernel

end AV
