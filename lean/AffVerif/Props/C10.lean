import AffVerif.Proofs.CertSound
import AffVerif.Model.LP
/-!
# C10 — the LP layer classifies polytopes and optimises correctly

What can be proved is everything on the repository's side of the solver interface and the referee that
decides the implementation's answers: the certificate checkers used by the judge are sound, so the exact
simplex in the judge is an untrusted search. The floating-point simplex inside `minilp` is validated per
call, not proved.
-/
set_option linter.unusedSectionVars false
set_option linter.unusedVariables false
namespace AV
variable {α : Type} [Field α] [LinearOrder α] [IsStrictOrderedRing α]

/-- Motzkin transposition, the direction used by the judge: accepted multipliers prove that a mixed
    strict / non-strict system has no solution -/
theorem C10_motzkin_sound (n : Nat) (rows : List (Row α)) (y : List α)
    (h : checkInfeasible n rows y = true) : ¬ ∃ x, Sat rows x :=
  checkInfeasible_sound n rows y h

theorem sat_polyRows (p : Aff α) (x : List α) : Sat (polyRows p) x ↔ Poly.Mem p x := by
  unfold Sat polyRows Poly.Mem Row.sat
  constructor
  · intro h rb hrb
    have := h ⟨rb.1, rb.2, false⟩ (List.mem_map.mpr ⟨rb, hrb, rfl⟩)
    simpa using this
  · intro h r hr
    obtain ⟨rb, hrb, rfl⟩ := List.mem_map.mp hr
    simpa using h rb hrb

/-- Farkas: an accepted certificate for `{x | A x ≤ b}` proves the polytope empty -/
theorem C10_farkas_sound (p : Aff α) (y : List α)
    (h : checkInfeasible p.indim (polyRows p) y = true) : ¬ ∃ x, Poly.Mem p x := by
  rintro ⟨x, hx⟩
  exact checkInfeasible_sound _ _ _ h ⟨x, (sat_polyRows p x).mpr hx⟩

/-- `status()` is `solve_linprog` with the zero objective and `is_feasible` reports infeasible exactly when
    the backend does -/
theorem C10_isFeasible_spec {σ : Type} (lp : LPOracle σ α) (s : σ) (p : Aff α) :
    (Poly.isFeasible lp s p).1 = some false ↔ (lp s p (zeros p.indim)).1 = LPAnswer.infeasible := by
  unfold Poly.isFeasible Poly.status
  rcases h : lp s p (zeros p.indim) with ⟨a, s'⟩
  cases a <;> simp

/-- non-vacuity: `x ≤ 1, −x ≤ −2` is refuted by the multipliers `(1, 1)` -/
example : checkInfeasible 1 (polyRows (⟨[[1], [-1]], [1, -2], 1⟩ : Aff Rat)) [1, 1] = true := by decide +kernel

end AV
