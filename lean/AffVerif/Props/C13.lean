import AffVerif.Proofs.IterLemmas
import AffVerif.Proofs.BfsLemmas
/-!
# C13 — traversals and tree metrics are exact for every shape and start node

`Dfs`, `DfsE` are the stack machines of `src/tree/iter.rs` (with `skip_subtree` = "pop what the last `next`
pushed and forget it", callable any number of times after any item); `refDfsT` / `refEdgeK` are plain structural
recursions: pre-order, children by ascending label, sub-trees of the items marked in the schedule omitted.
Any branching factor, any start node (`start` is the sub-tree the traversal is started at), no bound on size.
Core Lean only (no Mathlib): axioms `propext`, `Quot.sound` at most.
-/
namespace AV
variable {β : Type}

/-- depth-first node traversal started at any node: exactly the reference pre-order of that node's sub-tree with
    the skipped sub-trees omitted — depth, index and remaining-sibling counter of every item included -/
theorem C13_dfs_run (sk : Nat → Nat) (whole start : ITree β) :
    (Dfs.run sk start.size (Dfs.new whole start) 0).map (·.1) = (refDfsT sk 0 start 0 0).1 := by
  have := dfs_run_eq_ref sk start.size [(0, start, 0)] 0
    (if start.idx = whole.idx then whole.size else 0) whole.size 0 (by simp [stackSize])
  simpa [Dfs.new, refStack] using this

/-- depth-first edge traversal started at any node: the reference edge list below that node -/
theorem C13_edge_run (sk : Nat → Nat) (whole start : ITree β) :
    (DfsE.run sk start.size (DfsE.new whole start) 0).map (·.1) = (refEdgeK sk start.idx 0 start.kids 0).1 := by
  have hsz : stackSizeE (edgeEntries 1 start.idx start.kids.existing) ≤ start.size := by
    have := stackSizeE_entries 1 start.idx start.kids 0
    simp only [IKids.existing] at this ⊢
    cases start with
    | node i v ks => simp only [ITree.kids, ITree.size] at this ⊢; omega
  have := dfsE_run_eq_ref sk start.size (edgeEntries 1 start.idx start.kids.existing) start.kids.existing.length
    (if start.idx = whole.idx then whole.size - 1 else 0) whole.size 0 hsz
  rw [DfsE.new]
  rw [this]
  have h2 := refStackE_entries sk 1 start.idx start.kids 0 0
  simp only [IKids.existing] at h2 ⊢
  rw [h2]

mutual
theorem refDfsT_indices (t : ITree β) (d r k : Nat) :
    (refDfsT (fun _ => 0) d t r k).1.map (·.idx) = t.indices := by
  match t with
  | .node i v ks =>
    simp only [refDfsT, ne_eq, not_true_eq_false, if_false, List.map_cons, ITree.indices]
    rw [refDfsK_indices ks (d+1) (k+1)]
theorem refDfsK_indices (ks : IKids β) (d k : Nat) :
    (refDfsK (fun _ => 0) d ks k).1.map (·.idx) = ks.indices := by
  match ks with
  | .nil => simp [refDfsK, IKids.indices]
  | .cons none rest => simp only [refDfsK, IKids.indices]; exact refDfsK_indices rest d k
  | .cons (some t) rest =>
    simp only [refDfsK, IKids.indices, List.map_append]
    rw [refDfsT_indices t d rest.count k, refDfsK_indices rest d _]
end

/-- without skips every node of the sub-tree is visited exactly once, in pre-order (`indices` lists each node once) -/
theorem C13_dfs_visits_subtree (whole start : ITree β) :
    ((Dfs.run (fun _ => 0) start.size (Dfs.new whole start) 0).map (·.1)).map (·.idx) = start.indices := by
  rw [C13_dfs_run, refDfsT_indices]

/-- `num_nodes(start)` (= number of items of the traversal) is the size of the sub-tree -/
theorem C13_num_nodes (whole start : ITree β) :
    (Dfs.run (fun _ => 0) start.size (Dfs.new whole start) 0).length = start.size := by
  have := congrArg List.length (C13_dfs_visits_subtree whole start)
  simp only [List.length_map] at this
  rw [this]
  exact indices_length start
where
  indices_length (t : ITree β) : t.indices.length = t.size := by
    match t with
    | .node i v ks => simp only [ITree.indices, List.length_cons, ITree.size]; rw [kindices_length ks]; omega
  kindices_length (ks : IKids β) : ks.indices.length = ks.size := by
    match ks with
    | .nil => simp [IKids.indices, IKids.size]
    | .cons none r => simp only [IKids.indices, IKids.size]; exact kindices_length r
    | .cons (some t) r =>
      simp only [IKids.indices, IKids.size, List.length_append]
      rw [indices_length t, kindices_length r]

/-- `size_hint` of `DfsPre`: at every point of every run — after any `next`, after any `skip_subtree` — the bounds
    bracket the number of items still to come if `skip_subtree` is not called again (`stackSize`, see
    `refStack_noskip_length`) -/
theorem C13_size_hint_dfs (whole start : ITree β) (hsub : start.size ≤ whole.size)
    (hroot : start.idx = whole.idx → start.size = whole.size) :
    (Dfs.new whole start).Inv ∧
    (∀ (s s' : Dfs β) (it : Item), Dfs.Inv s → s.next = some (it, s') → Dfs.Inv s') ∧
    (∀ s : Dfs β, Dfs.Inv s → Dfs.Inv s.skip) ∧
    (∀ s : Dfs β, Dfs.Inv s → s.lb ≤ (refStack (fun _ => 0) s.stack 0).1.length ∧
                              (refStack (fun _ => 0) s.stack 0).1.length ≤ s.ub) :=
  ⟨Dfs.inv_new whole start hsub hroot, fun s s' it h hn => Dfs.inv_next s s' it h hn, fun s h => Dfs.inv_skip s h,
   fun s h => by rw [refStack_noskip_length]; exact ⟨h.1, h.2.1⟩⟩

/-- breadth-first traversal started at any node: the level-order reference list of that node's sub-tree (levels by
    repeated expansion, children by ascending label, the children of the items marked in the schedule omitted) -/
theorem C13_bfs_run (sk : Nat → Nat) (whole start : ITree β) :
    (BfsM.run sk start.size (BfsM.new whole start) 0).map (·.1) = start.refBfs sk := by
  have := bfs_run_eq_ref sk (start.size + 1) 0 [(start, 0)] start.size 0 0
    (if start.idx = whole.idx then whole.size else 0) whole.size (by simp [forestSize]) (by simp [forestSize])
  simpa [BfsM.new, qOf, ITree.refBfs] using this

/-- `size_hint` of the breadth-first and of the edge traversal: the bounds bracket the number of items still to come
    (sum of the sizes of the pending sub-trees) in every reachable state, skips included -/
theorem C13_size_hint_bfs_edge (whole start : ITree β) (hsub : start.size ≤ whole.size)
    (hroot : start.idx = whole.idx → start.size = whole.size) :
    ((BfsM.new whole start).Inv ∧
      (∀ (s s' : BfsM β) (it : Item), BfsM.Inv s → s.next = some (it, s') → BfsM.Inv s') ∧
      (∀ s : BfsM β, BfsM.Inv s → BfsM.Inv s.skip)) ∧
    ((DfsE.new whole start).Inv ∧
      (∀ (s s' : DfsE β) (it : EItem), DfsE.Inv s → s.next = some (it, s') → DfsE.Inv s') ∧
      (∀ s : DfsE β, DfsE.Inv s → DfsE.Inv s.skip)) :=
  ⟨⟨BfsM.inv_new whole start hsub hroot, fun s s' it h hn => BfsM.inv_next s s' it h hn, fun s h => BfsM.inv_skip s h⟩,
   ⟨DfsE.inv_new whole start hsub hroot, fun s s' it h hn => DfsE.inv_next s s' it h hn, fun s h => DfsE.inv_skip s h⟩⟩

/-! non-vacuity: a five-node tree, traversal from the root with a skip after the second item -/
def exTree : ITree Nat :=
  .node 0 0 (.cons (some (.node 1 0 (.cons (some (.node 3 0 (.cons none (.cons none .nil))))
                                   (.cons (some (.node 4 0 (.cons none (.cons none .nil)))) .nil))))
            (.cons (some (.node 2 0 (.cons none (.cons none .nil)))) .nil))

example : (Dfs.run (fun k => if k = 1 then 2 else 0) exTree.size (Dfs.new exTree exTree) 0).map (·.1.idx) = [0, 1, 2] := by
  decide

example : (BfsM.run (fun k => if k = 1 then 1 else 0) exTree.size (BfsM.new exTree exTree) 0).map (·.1.idx) = [0, 1, 2] := by
  decide

end AV
