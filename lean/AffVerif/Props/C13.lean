import AffVerif.Model.Iter
/-! # C13 — traversals and tree metrics (theorems added below as they are proved) -/
namespace AV
end AV
