import AffVerif.Proofs.IterLemmas
import AffVerif.Proofs.BfsLemmas
import AffVerif.Proofs.TreeLemmas
import AffVerif.Proofs.Welford
/-!
# C13 — traversals and tree metrics are exact for every shape and start node

`Dfs`, `DfsE` are the stack machines of `src/tree/iter.rs` (with `skip_subtree` = "pop what the last `next`
pushed and forget it", callable any number of times after any item); `refDfsT` / `refEdgeK` are plain structural
recursions: pre-order, children by ascending label, sub-trees of the items marked in the schedule omitted.
Any branching factor, any start node (`start` is the sub-tree the traversal is started at), no bound on size.
The traversal theorems use core Lean only; the metric theorems at the end (`C13_depth`, `C13_num_terminals`,
`C13_depth_stats_sample`, `C13_path_to_node`: the quantities the code computes from the traversals, the arena flags and the parent links are
the structural height, terminal count and root path) use the arena lemmas of `Proofs/TreeLemmas` (two `Mathlib.Data.List`
modules).
-/
namespace AV
variable {β : Type}

/-- depth-first node traversal started at any node: exactly the reference pre-order of that node's sub-tree with
    the skipped sub-trees omitted — depth, index and remaining-sibling counter of every item included -/
theorem C13_dfs_run (sk : Nat → Nat) (whole start : ITree β) :
    (Dfs.run sk start.size (Dfs.new whole start) 0).map (·.1) = (refDfsT sk 0 start 0 0).1 := by
  have := dfs_run_eq_ref sk start.size [(0, start, 0)] 0
    (if start.idx = whole.idx then whole.size else 0) whole.size 0 (by simp [stackSize])
  simpa [Dfs.new, refStack] using this

/-- depth-first edge traversal started at any node: the reference edge list below that node -/
theorem C13_edge_run (sk : Nat → Nat) (whole start : ITree β) :
    (DfsE.run sk start.size (DfsE.new whole start) 0).map (·.1) = (refEdgeK sk start.idx 0 start.kids 0).1 := by
  have hsz : stackSizeE (edgeEntries 1 start.idx start.kids.existing) ≤ start.size := by
    have := stackSizeE_entries 1 start.idx start.kids 0
    simp only [IKids.existing] at this ⊢
    cases start with
    | node i v ks => simp only [ITree.kids, ITree.size] at this ⊢; omega
  have := dfsE_run_eq_ref sk start.size (edgeEntries 1 start.idx start.kids.existing) start.kids.existing.length
    (if start.idx = whole.idx then whole.size - 1 else 0) whole.size 0 hsz
  rw [DfsE.new]
  rw [this]
  have h2 := refStackE_entries sk 1 start.idx start.kids 0 0
  simp only [IKids.existing] at h2 ⊢
  rw [h2]

mutual
theorem refDfsT_indices (t : ITree β) (d r k : Nat) :
    (refDfsT (fun _ => 0) d t r k).1.map (·.idx) = t.indices := by
  match t with
  | .node i v ks =>
    simp only [refDfsT, ne_eq, not_true_eq_false, if_false, List.map_cons, ITree.indices]
    rw [refDfsK_indices ks (d+1) (k+1)]
theorem refDfsK_indices (ks : IKids β) (d k : Nat) :
    (refDfsK (fun _ => 0) d ks k).1.map (·.idx) = ks.indices := by
  match ks with
  | .nil => simp [refDfsK, IKids.indices]
  | .cons none rest => simp only [refDfsK, IKids.indices]; exact refDfsK_indices rest d k
  | .cons (some t) rest =>
    simp only [refDfsK, IKids.indices, List.map_append]
    rw [refDfsT_indices t d rest.count k, refDfsK_indices rest d _]
end

/-- without skips every node of the sub-tree is visited exactly once, in pre-order (`indices` lists each node once) -/
theorem C13_dfs_visits_subtree (whole start : ITree β) :
    ((Dfs.run (fun _ => 0) start.size (Dfs.new whole start) 0).map (·.1)).map (·.idx) = start.indices := by
  rw [C13_dfs_run, refDfsT_indices]

/-- `num_nodes(start)` (= number of items of the traversal) is the size of the sub-tree -/
theorem C13_num_nodes (whole start : ITree β) :
    (Dfs.run (fun _ => 0) start.size (Dfs.new whole start) 0).length = start.size := by
  have := congrArg List.length (C13_dfs_visits_subtree whole start)
  simp only [List.length_map] at this
  rw [this]
  exact indices_length start
where
  indices_length (t : ITree β) : t.indices.length = t.size := by
    match t with
    | .node i v ks => simp only [ITree.indices, List.length_cons, ITree.size]; rw [kindices_length ks]; omega
  kindices_length (ks : IKids β) : ks.indices.length = ks.size := by
    match ks with
    | .nil => simp [IKids.indices, IKids.size]
    | .cons none r => simp only [IKids.indices, IKids.size]; exact kindices_length r
    | .cons (some t) r =>
      simp only [IKids.indices, IKids.size, List.length_append]
      rw [indices_length t, kindices_length r]

/-- `size_hint` of `DfsPre`: at every point of every run — after any `next`, after any `skip_subtree` — the bounds
    bracket the number of items still to come if `skip_subtree` is not called again (`stackSize`, see
    `refStack_noskip_length`) -/
theorem C13_size_hint_dfs (whole start : ITree β) (hsub : start.size ≤ whole.size)
    (hroot : start.idx = whole.idx → start.size = whole.size) :
    (Dfs.new whole start).Inv ∧
    (∀ (s s' : Dfs β) (it : Item), Dfs.Inv s → s.next = some (it, s') → Dfs.Inv s') ∧
    (∀ s : Dfs β, Dfs.Inv s → Dfs.Inv s.skip) ∧
    (∀ s : Dfs β, Dfs.Inv s → s.lb ≤ (refStack (fun _ => 0) s.stack 0).1.length ∧
                              (refStack (fun _ => 0) s.stack 0).1.length ≤ s.ub) :=
  ⟨Dfs.inv_new whole start hsub hroot, fun s s' it h hn => Dfs.inv_next s s' it h hn, fun s h => Dfs.inv_skip s h,
   fun s h => by rw [refStack_noskip_length]; exact ⟨h.1, h.2.1⟩⟩

/-- breadth-first traversal started at any node: the level-order reference list of that node's sub-tree (levels by
    repeated expansion, children by ascending label, the children of the items marked in the schedule omitted) -/
theorem C13_bfs_run (sk : Nat → Nat) (whole start : ITree β) :
    (BfsM.run sk start.size (BfsM.new whole start) 0).map (·.1) = start.refBfs sk := by
  have := bfs_run_eq_ref sk (start.size + 1) 0 [(start, 0)] start.size 0 0
    (if start.idx = whole.idx then whole.size else 0) whole.size (by simp [forestSize]) (by simp [forestSize])
  simpa [BfsM.new, qOf, ITree.refBfs] using this

/-- `size_hint` of the breadth-first and of the edge traversal: the bounds bracket the number of items still to come
    (sum of the sizes of the pending sub-trees) in every reachable state, skips included -/
theorem C13_size_hint_bfs_edge (whole start : ITree β) (hsub : start.size ≤ whole.size)
    (hroot : start.idx = whole.idx → start.size = whole.size) :
    ((BfsM.new whole start).Inv ∧
      (∀ (s s' : BfsM β) (it : Item), BfsM.Inv s → s.next = some (it, s') → BfsM.Inv s') ∧
      (∀ s : BfsM β, BfsM.Inv s → BfsM.Inv s.skip)) ∧
    ((DfsE.new whole start).Inv ∧
      (∀ (s s' : DfsE β) (it : EItem), DfsE.Inv s → s.next = some (it, s') → DfsE.Inv s') ∧
      (∀ s : DfsE β, DfsE.Inv s → DfsE.Inv s.skip)) :=
  ⟨⟨BfsM.inv_new whole start hsub hroot, fun s s' it h hn => BfsM.inv_next s s' it h hn, fun s h => BfsM.inv_skip s h⟩,
   ⟨DfsE.inv_new whole start hsub hroot, fun s s' it h hn => DfsE.inv_next s s' it h hn, fun s h => DfsE.inv_skip s h⟩⟩

/-! non-vacuity: a five-node tree, traversal from the root with a skip after the second item -/
def exTree : ITree Nat :=
  .node 0 0 (.cons (some (.node 1 0 (.cons (some (.node 3 0 (.cons none (.cons none .nil))))
                                   (.cons (some (.node 4 0 (.cons none (.cons none .nil)))) .nil))))
            (.cons (some (.node 2 0 (.cons none (.cons none .nil)))) .nil))

example : (Dfs.run (fun k => if k = 1 then 2 else 0) exTree.size (Dfs.new exTree exTree) 0).map (·.1.idx) = [0, 1, 2] := by
  decide

example : (BfsM.run (fun k => if k = 1 then 1 else 0) exTree.size (BfsM.new exTree exTree) 0).map (·.1.idx) = [0, 1, 2] := by
  decide

/-! ### metrics as consequences of the traversals -/

theorem foldr_max_append (a b : List Nat) : (a ++ b).foldr max 0 = max (a.foldr max 0) (b.foldr max 0) := by
  induction a with
  | nil => simp
  | cons x a ih => simp only [List.cons_append, List.foldr_cons, ih]; omega

theorem IKids.height_of_count_zero (ks : IKids β) (h : ks.count = 0) : ks.height = 0 := by
  match ks with
  | .nil => rfl
  | .cons none r => simp only [IKids.count] at h; simp only [IKids.height]; exact IKids.height_of_count_zero r h
  | .cons (some t) r => simp [IKids.count] at h

mutual
theorem refDfsT_maxDepth (d : Nat) (t : ITree β) (r k : Nat) :
    ((refDfsT (fun _ => 0) d t r k).1.map (·.depth)).foldr max 0 = d + t.height := by
  match t with
  | .node i v ks =>
    have := refDfsK_maxDepth d ks (k+1)
    simp only [refDfsT, ne_eq, not_true_eq_false, if_false, List.map_cons, List.foldr_cons, ITree.height]
    rw [this]
    split
    · rename_i hc; rw [IKids.height_of_count_zero ks hc]; omega
    · omega
theorem refDfsK_maxDepth (d : Nat) (ks : IKids β) (k : Nat) :
    ((refDfsK (fun _ => 0) (d+1) ks k).1.map (·.depth)).foldr max 0 = if ks.count = 0 then 0 else d + ks.height := by
  match ks with
  | .nil => simp [refDfsK, IKids.count]
  | .cons none r =>
    simp only [refDfsK, IKids.count, IKids.height]
    exact refDfsK_maxDepth d r k
  | .cons (some t) r =>
    simp only [refDfsK, List.map_append, foldr_max_append, IKids.height]
    rw [refDfsT_maxDepth (d+1) t r.count k, refDfsK_maxDepth d r _]
    have hne : ¬ ((IKids.cons (some t) r).count = 0) := by simp [IKids.count]
    rw [if_neg hne]
    split
    · rename_i hc; rw [IKids.height_of_count_zero r hc]; omega
    · omega
end

/-- `depth()`: the largest depth reported by the depth-first traversal is the height of the tree -/
theorem C13_depth (t : ITree β) :
    ((refDfsT (fun _ => 0) 0 t 0 0).1.map (·.depth)).foldr max 0 = t.height := by
  rw [refDfsT_maxDepth]; omega

theorem IKids.allNone_arena (ks : IKids β) (p : Nat) (h : ks.allNone = true) : ks.toArenaAux p = [] ∧ ks.numTerminals = 0 := by
  match ks with
  | .nil => simp [IKids.toArenaAux, IKids.numTerminals]
  | .cons none r =>
    simp only [IKids.allNone] at h
    simp only [IKids.toArenaAux, IKids.numTerminals]
    exact IKids.allNone_arena r p h
  | .cons (some t) r => simp [IKids.allNone] at h

mutual
theorem ITree.arena_leaf_count (t : ITree β) (p : Option Nat) :
    ((t.toArenaAux p).filter (·.isleaf)).length = t.numTerminals := by
  match t with
  | .node i v ks =>
    simp only [ITree.toArenaAux, ITree.numTerminals, List.filter_cons]
    cases h : ks.allNone with
    | true =>
      obtain ⟨h1, _⟩ := IKids.allNone_arena ks i h
      simp [h1]
    | false =>
      simp only [Bool.false_eq_true, if_false]
      exact IKids.arena_leaf_count ks i
theorem IKids.arena_leaf_count (ks : IKids β) (p : Nat) :
    ((ks.toArenaAux p).filter (·.isleaf)).length = ks.numTerminals := by
  match ks with
  | .nil => simp [IKids.toArenaAux, IKids.numTerminals]
  | .cons none r => simp only [IKids.toArenaAux, IKids.numTerminals]; exact IKids.arena_leaf_count r p
  | .cons (some t) r =>
    simp only [IKids.toArenaAux, IKids.numTerminals, List.filter_append, List.length_append]
    rw [ITree.arena_leaf_count t (some p), IKids.arena_leaf_count r p]
end

/-- `num_terminals()` (the number of arena nodes flagged as leaves) is the number of terminals of the tree -/
theorem C13_num_terminals (t : ITree β) : (t.toArena.filter (·.isleaf)).length = t.numTerminals :=
  ITree.arena_leaf_count t none


/-! ### `path_to_node` climbs the parent links -/

mutual
theorem ITree.pathTo?_none_iff (t : ITree β) (i : Nat) : t.pathTo? i = none ↔ i ∉ t.indices := by
  match t with
  | .node j v ks =>
    simp only [ITree.pathTo?, ITree.indices, List.mem_cons, not_or]
    by_cases h : j = i
    · simp [h]
    · simp only [h, if_false]
      rw [IKids.pathTo?_none_iff ks j 0 i]
      constructor
      · intro h2; exact ⟨fun e => h e.symm, h2⟩
      · intro h2; exact h2.2
theorem IKids.pathTo?_none_iff (ks : IKids β) (p l i : Nat) : ks.pathTo? p l i = none ↔ i ∉ ks.indices := by
  match ks with
  | .nil => simp [IKids.pathTo?, IKids.indices]
  | .cons none r => simp only [IKids.pathTo?, IKids.indices]; exact IKids.pathTo?_none_iff r p (l+1) i
  | .cons (some t) r =>
    simp only [IKids.pathTo?, IKids.indices, List.mem_append, not_or]
    cases ht : t.pathTo? i with
    | some path =>
      simp only [reduceCtorEq, false_iff, not_and]
      intro hn
      exact absurd ((ITree.pathTo?_none_iff t i).mpr hn) (by rw [ht]; simp)
    | none =>
      simp only
      rw [IKids.pathTo?_none_iff r p (l+1) i]
      constructor
      · intro h2; exact ⟨(ITree.pathTo?_none_iff t i).mp ht, h2⟩
      · intro h2; exact h2.2
end

theorem ITree.pathTo?_root (t : ITree β) : t.pathTo? t.idx = some [] := by
  cases t with
  | node j v ks => simp [ITree.pathTo?, ITree.idx]

/-- a direct child at slot `k` has the one-step path -/
theorem IKids.pathTo?_direct (ks : IKids β) (p l0 k : Nat) (c : ITree β) (hnd : ks.indices.Nodup)
    (h : ks.get? k = some c) : ks.pathTo? p l0 c.idx = some [(p, l0 + k)] := by
  match ks, k with
  | .nil, _ => simp [IKids.get?] at h
  | .cons none r, 0 => simp [IKids.get?] at h
  | .cons (some t) r, 0 =>
    simp only [IKids.get?, Option.some.injEq] at h; subst h
    simp [IKids.pathTo?, ITree.pathTo?_root]
  | .cons none r, k+1 =>
    simp only [IKids.get?] at h
    simp only [IKids.indices] at hnd
    simp only [IKids.pathTo?]
    rw [IKids.pathTo?_direct r p (l0+1) k c hnd h]; congr 3; omega
  | .cons (some t) r, k+1 =>
    simp only [IKids.get?] at h
    simp only [IKids.indices] at hnd
    have hnd' := List.nodup_append.mp hnd
    have hcr : c.idx ∈ r.indices := IKids.members_idx_mem r c (IKids.get?_mem_members r k c h)
    have hct : c.idx ∉ t.indices := fun hm => hnd'.2.2 _ hm _ hcr rfl
    simp only [IKids.pathTo?]
    rw [(ITree.pathTo?_none_iff t c.idx).mpr hct]
    simp only
    rw [IKids.pathTo?_direct r p (l0+1) k c hnd'.2.1 h]; congr 3; omega

mutual
/-- the path to the child in slot `l` of a listed sub-tree `s` is the path to `s` followed by `(s, l)` -/
theorem ITree.pathTo?_of_child (t : ITree β) (q0 : Option Nat) (hnd : t.indices.Nodup) :
    ∀ sq ∈ t.subs q0, ∀ l c, sq.1.kids.get? l = some c → ∀ pre, t.pathTo? sq.1.idx = some pre →
      t.pathTo? c.idx = some (pre ++ [(sq.1.idx, l)]) := by
  match t with
  | .node j v ks =>
    intro sq hsq l c hc pre hpre
    simp only [ITree.subs, List.mem_cons] at hsq
    simp only [ITree.indices, List.nodup_cons] at hnd
    have hcs : c.idx ∈ sq.1.kids.indices := IKids.members_idx_mem _ c (IKids.get?_mem_members _ l c hc)
    rcases hsq with h | h
    · subst h
      simp only [ITree.kids] at hc hcs
      simp only [ITree.idx, ITree.pathTo?, if_true, Option.some.injEq] at hpre
      subst hpre
      have hne : j ≠ c.idx := fun e => hnd.1 (e ▸ hcs)
      simp only [ITree.pathTo?]
      rw [if_neg hne]
      have := IKids.pathTo?_direct ks j 0 l c hnd.2 hc
      rw [this]
      simp [ITree.idx]
    · have hin : ∀ i ∈ sq.1.indices, i ∈ ks.indices := IKids.subs_indices_sub ks j sq h
      have hsi : sq.1.idx ∈ ks.indices := hin _ (ITree.idx_mem_indices sq.1)
      have hci : c.idx ∈ ks.indices := hin _ (ITree.kids_indices_sub sq.1 _ hcs)
      have hne1 : j ≠ sq.1.idx := fun e => hnd.1 (e ▸ hsi)
      have hne2 : j ≠ c.idx := fun e => hnd.1 (e ▸ hci)
      simp only [ITree.pathTo?, hne1, hne2, if_false] at hpre ⊢
      exact IKids.pathTo?_of_child ks j 0 hnd.2 sq h l c hc pre hpre
theorem IKids.pathTo?_of_child (ks : IKids β) (p l0 : Nat) (hnd : ks.indices.Nodup) :
    ∀ sq ∈ ks.subs p, ∀ l c, sq.1.kids.get? l = some c → ∀ pre, ks.pathTo? p l0 sq.1.idx = some pre →
      ks.pathTo? p l0 c.idx = some (pre ++ [(sq.1.idx, l)]) := by
  match ks with
  | .nil => simp [IKids.subs]
  | .cons none r =>
    simp only [IKids.subs, IKids.pathTo?, IKids.indices] at hnd ⊢
    exact IKids.pathTo?_of_child r p (l0+1) hnd
  | .cons (some t) r =>
    intro sq hsq l c hc pre hpre
    simp only [IKids.subs, List.mem_append] at hsq
    simp only [IKids.indices] at hnd
    have hnd' := List.nodup_append.mp hnd
    have hcs : c.idx ∈ sq.1.kids.indices := IKids.members_idx_mem _ c (IKids.get?_mem_members _ l c hc)
    simp only [IKids.pathTo?] at hpre ⊢
    rcases hsq with h | h
    · have hsub : ∀ i ∈ sq.1.indices, i ∈ t.indices := ITree.subs_indices_sub t (some p) sq h
      have hsi : sq.1.idx ∈ t.indices := hsub _ (ITree.idx_mem_indices sq.1)
      cases hts : t.pathTo? sq.1.idx with
      | none => exact absurd ((ITree.pathTo?_none_iff t _).mp hts) (by simpa using hsi)
      | some path =>
        rw [hts] at hpre
        simp only [Option.some.injEq] at hpre
        subst hpre
        rw [ITree.pathTo?_of_child t (some p) hnd'.1 sq h l c hc path hts]
        simp
    · have hsub : ∀ i ∈ sq.1.indices, i ∈ r.indices := IKids.subs_indices_sub r p sq h
      have hsi : sq.1.idx ∈ r.indices := hsub _ (ITree.idx_mem_indices sq.1)
      have hci : c.idx ∈ r.indices := hsub _ (ITree.kids_indices_sub sq.1 _ hcs)
      have h1 : sq.1.idx ∉ t.indices := fun hm => hnd'.2.2 _ hm _ hsi rfl
      have h2 : c.idx ∉ t.indices := fun hm => hnd'.2.2 _ hm _ hci rfl
      rw [(ITree.pathTo?_none_iff t _).mpr h1] at hpre
      rw [(ITree.pathTo?_none_iff t _).mpr h2]
      simp only at hpre ⊢
      exact IKids.pathTo?_of_child r p (l0+1) hnd'.2.1 sq h l c hc pre hpre
end


theorem IKids.members_get? (ks : IKids β) (c : ITree β) (h : c ∈ ks.members) : ∃ l, ks.get? l = some c := by
  match ks with
  | .nil => simp [IKids.members] at h
  | .cons none r =>
    simp only [IKids.members] at h
    obtain ⟨l, hl⟩ := IKids.members_get? r c h
    exact ⟨l+1, by simpa [IKids.get?] using hl⟩
  | .cons (some t) r =>
    simp only [IKids.members, List.mem_cons] at h
    rcases h with h | h
    · exact ⟨0, by simp [IKids.get?, h]⟩
    · obtain ⟨l, hl⟩ := IKids.members_get? r c h
      exact ⟨l+1, by simpa [IKids.get?] using hl⟩

/-- the loop of `path_to_node` (climb the parent links, then reverse) yields the path from the root, for every node of
    every tree with pairwise distinct indices, as soon as the fuel covers the length of the path (`len()` always does) -/
theorem ITree.pathUp_eq (t : ITree β) (hnd : t.indices.Nodup) (n : Nat) :
    ∀ sq ∈ t.subs none, ∀ path, t.pathTo? sq.1.idx = some path → path.length = n →
      ∀ fuel, n ≤ fuel → (ITree.pathUp t fuel sq.1.idx).reverse = path := by
  induction n with
  | zero =>
    intro sq hsq path hp hlen fuel _
    have : path = [] := List.length_eq_zero_iff.mp hlen
    subst this
    -- a node with the empty path is the root
    rcases ITree.subs_up t none sq hsq with h | ⟨sq', h1, h2, h3⟩
    · subst h
      cases fuel with
      | zero => simp [ITree.pathUp]
      | succ f => simp [ITree.pathUp, ITree.parentOf?_root t hnd]
    · obtain ⟨l, hl⟩ := IKids.members_get? _ _ h3
      have hs' : (t.pathTo? sq'.1.idx).isSome := by
        cases h : t.pathTo? sq'.1.idx with
        | some _ => rfl
        | none =>
          exact absurd ((ITree.pathTo?_none_iff t _).mp h)
            (by simpa using ITree.subs_indices_sub t none sq' h1 _ (ITree.idx_mem_indices sq'.1))
      obtain ⟨pre, hpre⟩ := Option.isSome_iff_exists.mp hs'
      have := ITree.pathTo?_of_child t none hnd sq' h1 l sq.1 hl pre hpre
      rw [hp] at this
      simp at this
  | succ n ih =>
    intro sq hsq path hp hlen fuel hfuel
    rcases ITree.subs_up t none sq hsq with h | ⟨sq', h1, h2, h3⟩
    · subst h
      rw [ITree.pathTo?_root] at hp
      simp only [Option.some.injEq] at hp
      subst hp; simp at hlen
    · obtain ⟨l, hl⟩ := IKids.members_get? _ _ h3
      have hs' : (t.pathTo? sq'.1.idx).isSome := by
        cases h : t.pathTo? sq'.1.idx with
        | some _ => rfl
        | none =>
          exact absurd ((ITree.pathTo?_none_iff t _).mp h)
            (by simpa using ITree.subs_indices_sub t none sq' h1 _ (ITree.idx_mem_indices sq'.1))
      obtain ⟨pre, hpre⟩ := Option.isSome_iff_exists.mp hs'
      have hfw := ITree.pathTo?_of_child t none hnd sq' h1 l sq.1 hl pre hpre
      rw [hp] at hfw
      simp only [Option.some.injEq] at hfw
      subst hfw
      have hpar := ITree.parentOf?_of_child t none hnd sq' h1 l sq.1 hl
      have hlen' : pre.length = n := by simpa using hlen
      cases fuel with
      | zero => omega
      | succ f =>
        simp only [ITree.pathUp, hpar, List.reverse_cons]
        rw [ih sq' h1 pre hpre hlen' f (by omega)]

mutual
theorem ITree.pathTo?_length (t : ITree β) (i : Nat) (path : List (Nat × Nat)) (h : t.pathTo? i = some path) :
    path.length < t.size := by
  match t with
  | .node j v ks =>
    simp only [ITree.pathTo?] at h
    simp only [ITree.size]
    split at h
    · simp only [Option.some.injEq] at h; subst h; simp only [List.length_nil]; omega
    · have := IKids.pathTo?_length ks j 0 i path h; omega
theorem IKids.pathTo?_length (ks : IKids β) (p l i : Nat) (path : List (Nat × Nat)) (h : ks.pathTo? p l i = some path) :
    path.length ≤ ks.size := by
  match ks with
  | .nil => simp [IKids.pathTo?] at h
  | .cons none r =>
    simp only [IKids.pathTo?] at h
    simp only [IKids.size]
    exact IKids.pathTo?_length r p (l+1) i path h
  | .cons (some t) r =>
    simp only [IKids.pathTo?] at h
    simp only [IKids.size]
    cases ht : t.pathTo? i with
    | some sub =>
      rw [ht] at h
      simp only [Option.some.injEq] at h
      subst h
      have := ITree.pathTo?_length t i sub ht
      simp only [List.length_cons]; omega
    | none =>
      rw [ht] at h
      have := IKids.pathTo?_length r p (l+1) i path h
      omega
end

/-- `path_to_node(i)` for every node `i` of a tree with distinct indices: climbing the parent links with fuel `len()`
    and reversing gives the `(node, label)` pairs from the root down to `i` -/
theorem C13_path_to_node (t : ITree β) (hnd : t.indices.Nodup) (i : Nat) (hi : i ∈ t.indices) :
    ∃ path, t.pathTo? i = some path ∧ (ITree.pathUp t t.size i).reverse = path := by
  cases hp : t.pathTo? i with
  | none => exact absurd ((ITree.pathTo?_none_iff t i).mp hp) (by simpa using hi)
  | some path =>
    refine ⟨path, rfl, ?_⟩
    -- the node with index i is a listed sub-tree
    rw [← ITree.subs_idx t none] at hi
    obtain ⟨sq, hsq, rfl⟩ := List.mem_map.mp hi
    -- the path is shorter than the tree
    have hlen := ITree.pathTo?_length t _ path hp
    exact ITree.pathUp_eq t hnd path.length sq hsq path hp rfl t.size (by omega)

/-- `is_leaf(index)` as the code asks it: look the node up, test its child slots -/
def ITree.isLeafIdx (whole : ITree β) (i : Nat) : Bool :=
  match whole.find? i with
  | some s => s.kids.allNone
  | none => false

theorem refDfsK_allNone (sk : Nat → Nat) (d : Nat) (ks : IKids β) (k : Nat) (h : ks.allNone = true) :
    refDfsK sk d ks k = ([], k) := by
  match ks with
  | .nil => simp [refDfsK]
  | .cons none r =>
    simp only [IKids.allNone] at h
    simp only [refDfsK]
    exact refDfsK_allNone sk d r k h
  | .cons (some t) r => simp [IKids.allNone] at h

theorem IKids.leafDepths_allNone (ks : IKids β) (d : Nat) (h : ks.allNone = true) : ks.leafDepths d = [] := by
  match ks with
  | .nil => simp [IKids.leafDepths]
  | .cons none r =>
    simp only [IKids.allNone] at h
    simp only [IKids.leafDepths]
    exact IKids.leafDepths_allNone r d h
  | .cons (some t) r => simp [IKids.allNone] at h

mutual
theorem refDfsT_leafDepths (whole : ITree β) (d : Nat) (t : ITree β) (p : Option Nat) (r k : Nat)
    (H : ∀ sq ∈ t.subs p, whole.find? sq.1.idx = some sq.1) :
    (((refDfsT (fun _ => 0) d t r k).1.filter (fun it => whole.isLeafIdx it.idx)).map (·.depth)) = t.leafDepths d := by
  match t with
  | .node i v ks =>
    have hhead : whole.isLeafIdx i = ks.allNone := by
      have := H (.node i v ks, p) (ITree.subs_head _ _)
      simp only [ITree.idx] at this
      simp [ITree.isLeafIdx, this, ITree.kids]
    simp only [refDfsT, ne_eq, not_true_eq_false, if_false, List.filter_cons, hhead, ITree.leafDepths]
    cases hall : ks.allNone with
    | true =>
      simp only [if_true, List.map_cons]
      rw [refDfsK_allNone _ _ ks _ hall]
      simp
    | false =>
      simp only [Bool.false_eq_true, if_false]
      exact refDfsK_leafDepths whole (d+1) ks i (k+1) (fun sq hsq => H sq (by
        simp only [ITree.subs, List.mem_cons]; exact Or.inr hsq))
theorem refDfsK_leafDepths (whole : ITree β) (d : Nat) (ks : IKids β) (p : Nat) (k : Nat)
    (H : ∀ sq ∈ ks.subs p, whole.find? sq.1.idx = some sq.1) :
    (((refDfsK (fun _ => 0) d ks k).1.filter (fun it => whole.isLeafIdx it.idx)).map (·.depth)) = ks.leafDepths d := by
  match ks with
  | .nil => simp [refDfsK, IKids.leafDepths]
  | .cons none r =>
    simp only [refDfsK, IKids.leafDepths]
    exact refDfsK_leafDepths whole d r p k (fun sq hsq => H sq (by simpa [IKids.subs] using hsq))
  | .cons (some t) r =>
    simp only [refDfsK, IKids.leafDepths, List.filter_append, List.map_append]
    rw [refDfsT_leafDepths whole d t (some p) r.count k (fun sq hsq => H sq (by
        simp only [IKids.subs, List.mem_append]; exact Or.inl hsq)),
      refDfsK_leafDepths whole d r p _ (fun sq hsq => H sq (by
        simp only [IKids.subs, List.mem_append]; exact Or.inr hsq))]
end

/-- `depth_stats()` aggregates, over the items of the depth-first traversal whose node is a leaf (`is_leaf(index)`), the
    reported depths: on a tree with pairwise distinct indices these are the depths of the terminals, in pre-order -/
theorem C13_depth_stats_sample (t : ITree β) (hnd : t.indices.Nodup) :
    (((refDfsT (fun _ => 0) 0 t 0 0).1.filter (fun it => t.isLeafIdx it.idx)).map (·.depth)) = t.leafDepths 0 :=
  refDfsT_leafDepths t 0 t none 0 0 (ITree.find?_of_sub t none hnd)

theorem Dfs.skipN_fresh (n : Nat) (s : Dfs β) (h : s.lastPush = 0) :
    ∃ lb ub, Dfs.skipN n s = ⟨s.stack, 0, lb, ub⟩ := by
  induction n generalizing s with
  | zero => exact ⟨s.lb, s.ub, by cases s; simp_all [Dfs.skipN]⟩
  | succ n ih =>
    simp only [Dfs.skipN]
    have hs : s.skip.stack = s.stack ∧ s.skip.lastPush = 0 := by simp [Dfs.skip, h]
    obtain ⟨lb, ub, e⟩ := ih s.skip hs.2
    exact ⟨lb, ub, by rw [e, hs.1]⟩

theorem BfsM.skipN_fresh (n : Nat) (s : BfsM β) (h : s.lastPush = 0) :
    ∃ lb ub, BfsM.skipN n s = ⟨s.queue, 0, lb, ub⟩ := by
  induction n generalizing s with
  | zero => exact ⟨s.lb, s.ub, by cases s; simp_all [BfsM.skipN]⟩
  | succ n ih =>
    simp only [BfsM.skipN]
    have hs : s.skip.queue = s.queue ∧ s.skip.lastPush = 0 := by simp [BfsM.skip, h]
    obtain ⟨lb, ub, e⟩ := ih s.skip hs.2
    exact ⟨lb, ub, by rw [e, hs.1]⟩

/-- `skip_subtree` before the first item skips nothing (nothing has been returned yet): the depth-first node traversal
    still yields the reference pre-order, whatever the later skip schedule is -/
theorem C13_dfs_run_pre_skip (sk : Nat → Nat) (pre : Nat) (whole start : ITree β) :
    (Dfs.run sk start.size (Dfs.skipN pre (Dfs.new whole start)) 0).map (·.1) = (refDfsT sk 0 start 0 0).1 := by
  obtain ⟨lb, ub, e⟩ := Dfs.skipN_fresh pre (Dfs.new whole start) rfl
  rw [e]
  have := dfs_run_eq_ref sk start.size [(0, start, 0)] 0 lb ub 0 (by simp [stackSize])
  simpa [Dfs.new, refStack] using this

/-- the same for the breadth-first traversal -/
theorem C13_bfs_run_pre_skip (sk : Nat → Nat) (pre : Nat) (whole start : ITree β) :
    (BfsM.run sk start.size (BfsM.skipN pre (BfsM.new whole start)) 0).map (·.1) = start.refBfs sk := by
  obtain ⟨lb, ub, e⟩ := BfsM.skipN_fresh pre (BfsM.new whole start) rfl
  rw [e]
  have := bfs_run_eq_ref sk (start.size + 1) 0 [(start, 0)] start.size 0 0 lb ub
    (by simp [forestSize]) (by simp [forestSize])
  simpa [BfsM.new, qOf, ITree.refBfs] using this

/-- `depth_stats()`, mean and variance: the running update of `average::Variance` (Welford; `Model/Stats.lean`) applied
    to the terminal depths in traversal order yields the sample count, the textbook mean `Σd / n` and the textbook sum
    of squared deviations `Σ (d − mean)²` (the reported sample variance is that sum over `n − 1`) — over every ordered
    field, for every non-empty list of samples -/
theorem C13_depth_stats_welford {α : Type} [Field α] [LinearOrder α] [IsStrictOrderedRing α] (ds : List α)
    (hne : ds ≠ []) :
    (Welford.run ds).n = (ds.length : α) ∧
    (Welford.run ds).mean = ds.sum / (ds.length : α) ∧
    (Welford.run ds).sum2 = (ds.map (fun d => (d - ds.sum / (ds.length : α)) * (d - ds.sum / (ds.length : α)))).sum := by
  obtain ⟨hn, hm, hs⟩ := Welford.inv_run ds
  have hlen : (ds.length : α) ≠ 0 := by
    have : ds.length ≠ 0 := fun h => hne (List.length_eq_zero_iff.1 h)
    exact_mod_cast this
  have hmean : (Welford.run ds).mean = ds.sum / (ds.length : α) := by
    rw [eq_div_iff hlen, mul_comm, ← hn]; exact hm
  refine ⟨hn, hmean, ?_⟩
  rw [← hmean, sum_sq_dev, hs, ← hm, hn]
  ring

/-- the sample variance reported for at least two terminals -/
theorem C13_depth_stats_variance {α : Type} [Field α] [LinearOrder α] [IsStrictOrderedRing α] (ds : List α)
    (hne : ds ≠ []) :
    (Welford.meanVar ds).1 = ds.sum / (ds.length : α) ∧
    (Welford.meanVar ds).2 =
      (ds.map (fun d => (d - ds.sum / (ds.length : α)) * (d - ds.sum / (ds.length : α)))).sum / ((ds.length : α) - 1) := by
  obtain ⟨h1, h2, h3⟩ := C13_depth_stats_welford ds hne
  simp only [Welford.meanVar]
  exact ⟨h2, by rw [h3, h1]⟩

/-- non-vacuity / sanity: depths 1, 2, 2, 3 -/
example : Welford.meanVar [(1 : Rat), 2, 2, 3] = (2, 2 / 3) := by decide +kernel

end AV
