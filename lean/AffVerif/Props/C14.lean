import AffVerif.Proofs.PruneSound
import AffVerif.Proofs.ArithLift
import AffVerif.Proofs.CoordLemmas
import Mathlib.Algebra.Order.BigOperators.Group.List
/-!
# C14 — polytope constructors and transformations are set-exact

Membership theorems over any ordered field, each under the dimension guard the code asserts (`WF` = one bias entry
per row and rows of the stated width, which `from_mats` / ndarray guarantee).
`Poly.Mem p x` is `mat·x ≤ bias` row by row.
-/
set_option linter.unusedSectionVars false
set_option linter.unusedVariables false
namespace AV
variable {α : Type} [Field α] [LinearOrder α] [IsStrictOrderedRing α]

theorem rows_append (p q : Aff α) (hp : p.bias.length = p.mat.length) :
    (Poly.intersection p q).rows = p.rows ++ q.rows := by
  unfold Poly.intersection Aff.rows
  simp only
  exact List.zip_append hp.symm

/-- `x ∈ P ∩ Q ↔ x ∈ P ∧ x ∈ Q` -/
theorem C14_intersection (p q : Aff α) (x : List α) (hp : p.WF) :
    Poly.Mem (Poly.intersection p q) x ↔ Poly.Mem p x ∧ Poly.Mem q x := by
  unfold Poly.Mem
  rw [rows_append p q hp.2]
  constructor
  · intro h
    exact ⟨fun rb hrb => h rb (List.mem_append_left _ hrb), fun rb hrb => h rb (List.mem_append_right _ hrb)⟩
  · rintro ⟨h1, h2⟩ rb hrb
    rcases List.mem_append.mp hrb with h | h
    · exact h1 rb h
    · exact h2 rb h

/-- `x ∈ intersection_n(d, Ps) ↔ ∀ P ∈ Ps, x ∈ P` (the empty list gives the whole space) -/
theorem C14_intersection_n (n : Nat) (ps : List (Aff α)) (x : List α) :
    Poly.Mem (Poly.intersectionN n ps) x ↔ ∀ p ∈ ps, Poly.Mem p x := by
  constructor
  · intro h p hp rb hrb
    unfold Poly.intersectionN at h
    have hne : ps.isEmpty = false := by cases ps <;> simp_all
    simp only [hne, Bool.false_eq_true, if_false] at h
    apply h
    rw [ofRows_rows]
    exact List.mem_flatMap.mpr ⟨p, hp, hrb⟩
  · intro h
    exact mem_intersectionN n ps x (fun p hp => h p hp)

theorem mem_iff_zip (mat : Mat α) (bias : List α) (n : Nat) (x : List α) :
    Poly.Mem (⟨mat, bias, n⟩ : Aff α) x ↔ ∀ rb ∈ mat.zip bias, dot rb.1 x ≤ rb.2 := Iff.rfl

/-- `x ∈ P.translate(d) ↔ x − d ∈ P` -/
theorem C14_translate (p : Aff α) (d x : List α) (hxd : x.length = d.length) :
    Poly.Mem (Poly.translate p d) x ↔ Poly.Mem p (vsub x d) := by
  unfold Poly.translate Poly.Mem Aff.rows
  simp only
  -- row by row: a·x ≤ b + a·d ↔ a·(x − d) ≤ b
  have key : ∀ (mat : Mat α) (bias : List α),
      (∀ rb ∈ mat.zip (vadd bias (matVec mat d)), dot rb.1 x ≤ rb.2) ↔
      (∀ rb ∈ mat.zip bias, dot rb.1 (vsub x d) ≤ rb.2) := by
    intro mat
    induction mat with
    | nil => intro bias; simp
    | cons a as ih =>
      intro bias
      cases bias with
      | nil => simp
      | cons b bs =>
        simp only [matVec, List.map_cons, vadd_cons, List.zip_cons_cons, List.mem_cons, forall_eq_or_imp]
        have := ih bs
        simp only [matVec] at this
        rw [this, dot_vsub_right a x d hxd]
        constructor
        · rintro ⟨h1, h2⟩; exact ⟨by linarith, h2⟩
        · rintro ⟨h1, h2⟩; exact ⟨by linarith, h2⟩
  exact key p.mat p.bias

/-- `x ∈ P.apply_pre(f) ↔ f(x) ∈ P` -/
theorem C14_apply_pre (p f : Aff α) (x : List α) (hf : f.WF) (hpf : ∀ r ∈ p.mat, r.length = f.outdim)
    (hx : x.length = f.indim) :
    Poly.Mem (Poly.applyPre p f) x ↔ Poly.Mem p (f.apply x) := by
  unfold Poly.applyPre Poly.Mem Aff.rows
  simp only
  have key : ∀ (mat : Mat α) (bias : List α), (∀ r ∈ mat, r.length = f.outdim) →
      ((∀ rb ∈ (matMul f.indim mat f.mat).zip (vadd (vneg (matVec mat f.bias)) bias), dot rb.1 x ≤ rb.2) ↔
       (∀ rb ∈ mat.zip bias, dot rb.1 (f.apply x) ≤ rb.2)) := by
    intro mat
    induction mat with
    | nil => intro bias _; simp [matMul]
    | cons a as ih =>
      intro bias hm
      cases bias with
      | nil => simp [matMul, matVec, vneg]
      | cons b bs =>
        have ha : a.length = f.mat.length := hm a (List.mem_cons_self)
        simp only [matMul, matVec, vneg, List.map_cons, vadd_cons, List.zip_cons_cons, List.mem_cons,
          forall_eq_or_imp]
        have := ih bs (fun r hr => hm r (List.mem_cons_of_mem _ hr))
        simp only [matMul, matVec, vneg] at this
        rw [this]
        have e1 : dot (vecMat f.indim a f.mat) x = dot a (matVec f.mat x) := dot_vecMat f.indim a f.mat x hf.1 ha
        have e2 : dot a (f.apply x) = dot a (matVec f.mat x) + dot a f.bias := by
          unfold Aff.apply
          exact dot_vadd_right a _ _ (by simp [hf.2])
        rw [e1, e2]
        constructor
        · rintro ⟨h1, h2⟩; exact ⟨by linarith, h2⟩
        · rintro ⟨h1, h2⟩; exact ⟨by linarith, h2⟩
  exact key p.mat p.bias hpf

/-- `unbounded(n)` contains every point, `empty(n)` none -/
theorem C14_unbounded_empty (n : Nat) (x : List α) :
    Poly.Mem (Poly.unbounded n : Aff α) x ∧ ¬ Poly.Mem (Poly.empty n : Aff α) x := by
  constructor
  · intro rb hrb
    simp [Poly.unbounded, Aff.rows] at hrb
    subst hrb; simp
  · intro h
    have := h (zeros n, -1) (by simp [Poly.empty, Aff.rows])
    simp at this
    linarith

/-! ### boxes -/

/-- closed interval with optional (infinite) ends -/
def inInterval (lo hi : Option α) (v : α) : Prop :=
  (match lo with | none => True | some l => l ≤ v) ∧ (match hi with | none => True | some h => v ≤ h)

theorem axisRows_mem (n axis : Nat) (lo hi : Option α) (x : List α) (ha : axis < n) :
    (∀ rb ∈ Poly.axisRows n axis lo hi, dot rb.1 x ≤ rb.2) ↔ inInterval lo hi (x.getD axis 0) := by
  unfold Poly.axisRows inInterval
  simp only [List.mem_cons, List.mem_nil_iff, or_false, forall_eq_or_imp, forall_eq]
  apply and_congr
  · cases lo with
    | none => simp
    | some l => simp only [dot_unitVec, ha, if_true]; constructor <;> intro h <;> linarith
  · cases hi with
    | none => simp
    | some h => simp only [dot_unitVec, ha, if_true, one_mul]

/-- `axis_bounds(dim, axis, lo, hi)`: the slab `lo ≤ x_axis ≤ hi`; an infinite end contributes the row `0 ≤ 1` -/
theorem C14_axis_bounds (n axis : Nat) (lo hi : Option α) (x : List α) (ha : axis < n) :
    Poly.Mem (Poly.axisBounds n axis lo hi) x ↔ inInterval lo hi (x.getD axis 0) := by
  unfold Poly.axisBounds Poly.Mem
  rw [ofRows_rows]
  exact axisRows_mem n axis lo hi x ha

theorem hyperrectangleAux_mem (n : Nat) (i : Nat) (ivs : List (Option α × Option α)) (x : List α)
    (hn : i + ivs.length ≤ n) :
    (∀ rb ∈ Poly.hyperrectangleAux n i ivs, dot rb.1 x ≤ rb.2) ↔
    ∀ j (h : j < ivs.length), inInterval (ivs[j]).1 (ivs[j]).2 (x.getD (i + j) 0) := by
  induction ivs generalizing i with
  | nil => simp [Poly.hyperrectangleAux]
  | cons iv ivs ih =>
    obtain ⟨lo, hi⟩ := iv
    simp only [Poly.hyperrectangleAux, List.mem_append]
    simp only [List.length_cons] at hn
    have h1 := axisRows_mem n i lo hi x (by omega)
    have h2 := ih (i+1) (by omega)
    constructor
    · intro h j hj
      cases j with
      | zero => simpa using h1.mp (fun rb hrb => h rb (Or.inl hrb))
      | succ j =>
        have := h2.mp (fun rb hrb => h rb (Or.inr hrb)) j (by simpa using hj)
        simpa [show i + 1 + j = i + (j + 1) by omega] using this
    · intro h rb hrb
      rcases hrb with hrb | hrb
      · have h0 := h 0 (by simp)
        simp only [List.getElem_cons_zero, Nat.add_zero] at h0
        exact h1.mpr h0 rb hrb
      · refine h2.mpr (fun j hj => ?_) rb hrb
        have := h (j+1) (by simpa using hj)
        simpa [show i + (j + 1) = i + 1 + j by omega] using this

/-- `hyperrectangle(intervals)`: the product of the closed intervals, infinite ends allowed -/
theorem C14_hyperrectangle (ivs : List (Option α × Option α)) (x : List α) :
    Poly.Mem (Poly.hyperrectangle ivs) x ↔
    ∀ j (h : j < ivs.length), inInterval (ivs[j]).1 (ivs[j]).2 (x.getD j 0) := by
  unfold Poly.hyperrectangle Poly.Mem
  rw [ofRows_rows, hyperrectangleAux_mem ivs.length 0 ivs x (by omega)]
  simp

/-! ### affine images -/

theorem matVec_vsub (n : Nat) (M : Mat α) (y c : List α) (hy : y.length = n) (hc : c.length = n) :
    matVec M (vsub y c) = vsub (matVec M y) (matVec M c) := by
  unfold matVec
  induction M with
  | nil => simp [vsub]
  | cons r rs ih =>
    simp only [List.map_cons, vsub_cons]
    rw [ih, dot_vsub_right r y c (by rw [hy, hc])]

/-- `apply_post(inv, c)`: `y` lies in the result exactly when `inv·(y − c)` lies in `P` — i.e. the result is the image
    of `P` under `x ↦ inv⁻¹·x + c` whenever `inv` is invertible -/
theorem C14_apply_post (p : Aff α) (n : Nat) (inv : Mat α) (c y : List α)
    (hinv : ∀ r ∈ inv, r.length = n) (hp : ∀ r ∈ p.mat, r.length = inv.length)
    (hy : y.length = n) (hc : c.length = n) :
    Poly.Mem (Poly.applyPost p n inv c) y ↔ Poly.Mem p (matVec inv (vsub y c)) := by
  unfold Poly.applyPost Poly.Mem Aff.rows
  simp only
  have key : ∀ (mat : Mat α) (bias : List α), (∀ r ∈ mat, r.length = inv.length) →
      ((∀ rb ∈ (matMul n mat inv).zip (vadd (matVec mat (matVec inv c)) bias), dot rb.1 y ≤ rb.2) ↔
       (∀ rb ∈ mat.zip bias, dot rb.1 (matVec inv (vsub y c)) ≤ rb.2)) := by
    intro mat
    induction mat with
    | nil => intro bias _; simp [matMul]
    | cons a as ih =>
      intro bias hm
      cases bias with
      | nil => simp [matMul, matVec]
      | cons b bs =>
        have ha : a.length = inv.length := hm a (List.mem_cons_self)
        simp only [matMul, matVec, List.map_cons, vadd_cons, List.zip_cons_cons, List.mem_cons, forall_eq_or_imp]
        have := ih bs (fun r hr => hm r (List.mem_cons_of_mem _ hr))
        simp only [matMul, matVec] at this
        rw [this]
        have e1 : dot (vecMat n a inv) y = dot a (matVec inv y) := dot_vecMat n a inv y hinv ha
        have e2 : matVec inv (vsub y c) = vsub (matVec inv y) (matVec inv c) := matVec_vsub n inv y c hy hc
        have e3 : dot a (vsub (matVec inv y) (matVec inv c)) = dot a (matVec inv y) - dot a (matVec inv c) :=
          dot_vsub_right a _ _ (by simp)
        simp only [matVec] at e1 e2 e3
        rw [e1, e2, e3]
        constructor
        · rintro ⟨h1, h2⟩; exact ⟨by linarith, h2⟩
        · rintro ⟨h1, h2⟩; exact ⟨by linarith, h2⟩
  exact key p.mat p.bias hp

theorem eye_length (n : Nat) : (eye n : Mat α).length = n := by simp [eye]

theorem mem_zip_eye_replicate (n : Nat) (r : α) (rb : List α × α) :
    rb ∈ (eye n : Mat α).zip (List.replicate n r) ↔ ∃ j < n, rb = (unitVec n j 1, r) := by
  constructor
  · intro h
    obtain ⟨i, hi, hrb⟩ := List.getElem_of_mem h
    have hi' : i < n := by simpa [eye] using hi
    refine ⟨i, hi', ?_⟩
    rw [← hrb]
    simp [eye, List.getElem_zip]
  · rintro ⟨j, hj, rfl⟩
    rw [List.mem_iff_getElem]
    exact ⟨j, by simp [eye, hj], by simp [eye, List.getElem_zip]⟩

theorem mem_zip_negeye_replicate (n : Nat) (r : α) (rb : List α × α) :
    rb ∈ (matNeg (eye n) : Mat α).zip (List.replicate n r) ↔ ∃ j < n, rb = (vneg (unitVec n j 1), r) := by
  constructor
  · intro h
    obtain ⟨i, hi, hrb⟩ := List.getElem_of_mem h
    have hi' : i < n := by simpa [eye, matNeg] using hi
    refine ⟨i, hi', ?_⟩
    rw [← hrb]
    simp [eye, matNeg, List.getElem_zip]
  · rintro ⟨j, hj, rfl⟩
    rw [List.mem_iff_getElem]
    exact ⟨j, by simp [eye, matNeg, hj], by simp [eye, matNeg, List.getElem_zip]⟩

/-- `hypercube(n, r)`: the points with every coordinate in `[−r, r]` -/
theorem C14_hypercube (n : Nat) (r : α) (x : List α) :
    Poly.Mem (Poly.hypercube n r) x ↔ ∀ j < n, -r ≤ x.getD j 0 ∧ x.getD j 0 ≤ r := by
  unfold Poly.Mem Poly.hypercube Aff.rows
  simp only
  have hz : ((eye n : Mat α) ++ matNeg (eye n)).zip (List.replicate (2*n) r) =
      (eye n : Mat α).zip (List.replicate n r) ++ (matNeg (eye n) : Mat α).zip (List.replicate n r) := by
    rw [show 2 * n = n + n by omega, ← List.replicate_append_replicate]
    exact List.zip_append (by simp [eye])
  rw [hz]
  constructor
  · intro h j hj
    have h1 := h (unitVec n j 1, r) (List.mem_append_left _ ((mem_zip_eye_replicate n r _).mpr ⟨j, hj, rfl⟩))
    have h2 := h (vneg (unitVec n j 1), r) (List.mem_append_right _ ((mem_zip_negeye_replicate n r _).mpr ⟨j, hj, rfl⟩))
    simp only [dot_vneg_left, dot_unitVec, hj, if_true, one_mul] at h1 h2
    exact ⟨by linarith, h1⟩
  · intro h rb hrb
    rcases List.mem_append.mp hrb with hrb | hrb
    · obtain ⟨j, hj, rfl⟩ := (mem_zip_eye_replicate n r _).mp hrb
      simp only [dot_unitVec, hj, if_true, one_mul]
      exact (h j hj).2
    · obtain ⟨j, hj, rfl⟩ := (mem_zip_negeye_replicate n r _).mp hrb
      simp only [dot_vneg_left, dot_unitVec, hj, if_true, one_mul]
      linarith [(h j hj).1]


/-- `from_normal(N, P)`: the points on the positive side of every hyperplane through `pᵢ` with normal `nᵢ` -/
theorem C14_from_normal (n : Nat) (N P : Mat α) (x : List α) :
    Poly.Mem (Poly.fromNormal n N P) x ↔ ∀ np ∈ N.zip P, dot np.1 np.2 ≤ dot np.1 x := by
  unfold Poly.Mem Poly.fromNormal Aff.rows matNeg vneg
  simp only
  induction N generalizing P with
  | nil => simp
  | cons a N ih =>
    cases P with
    | nil => simp
    | cons q P =>
      simp only [List.map_cons, List.zipWith_cons_cons, List.zip_cons_cons, List.forall_mem_cons]
      rw [ih P]
      have := dot_vneg_left a x
      unfold vneg at this
      rw [this]
      constructor
      · rintro ⟨h1, h2⟩; exact ⟨by linarith, h2⟩
      · rintro ⟨h1, h2⟩; exact ⟨by linarith, h2⟩

/-- `distance_raw`: the point is in the polytope iff every raw slack `bᵢ − aᵢ·x` is non-negative -/
theorem C14_distance_raw (p : Aff α) (x : List α) (hp : p.bias.length = p.mat.length) :
    Poly.Mem p x ↔ ∀ d ∈ Poly.distanceRaw p x, 0 ≤ d := by
  unfold Poly.Mem Poly.distanceRaw Aff.rows matVec
  generalize p.mat = M at hp
  generalize p.bias = b at hp
  induction M generalizing b with
  | nil => cases b <;> simp [vsub]
  | cons r M ih =>
    cases b with
    | nil => simp at hp
    | cons b0 b =>
      simp only [List.zip_cons_cons, List.forall_mem_cons, List.map_cons, vsub]
      rw [ih b (by simpa using hp)]
      constructor
      · rintro ⟨h1, h2⟩; exact ⟨by linarith, h2⟩
      · rintro ⟨h1, h2⟩; exact ⟨by linarith, h2⟩

/-- `distance`: dividing a slack by the (positive) Euclidean norm of its row keeps its sign — positive inside the
    half-space, negative outside, zero on the hyperplane -/
theorem C14_distance_sign (d k : α) (hk : 0 < k) : (0 ≤ d / k ↔ 0 ≤ d) ∧ (d / k < 0 ↔ d < 0) ∧ (d / k = 0 ↔ d = 0) := by
  refine ⟨div_nonneg_iff.trans ?_, div_neg_iff.trans ?_, ?_⟩
  · constructor
    · rintro (⟨h, _⟩ | ⟨_, h⟩)
      · exact h
      · exact absurd hk (not_lt.mpr h)
    · intro h; exact Or.inl ⟨h, hk.le⟩
  · constructor
    · rintro (⟨_, h⟩ | ⟨h, _⟩)
      · exact absurd hk (not_lt.mpr h.le)
      · exact h
    · intro h; exact Or.inr ⟨h, hk⟩
  · rw [div_eq_zero_iff]
    constructor
    · rintro (h | h)
      · exact h
      · exact absurd h hk.ne'
    · intro h; exact Or.inl h


theorem mem_zip_range_replicate (m : Nat) (f : Nat → List α) (c : α) (rb : List α × α) :
    rb ∈ ((List.range m).map f).zip (List.replicate m c) ↔ ∃ i < m, rb = (f i, c) := by
  constructor
  · intro h
    obtain ⟨i, hi, hrb⟩ := List.getElem_of_mem h
    have hi' : i < m := by simpa using hi
    refine ⟨i, hi', ?_⟩
    rw [← hrb]
    simp [List.getElem_zip]
  · rintro ⟨j, hj, rfl⟩
    rw [List.mem_iff_getElem]
    exact ⟨j, by simp [hj], by simp [List.getElem_zip]⟩

theorem ones_eq_range_map (n : Nat) : (ones n : List α) = (List.range n).map (fun _ => (1 : α)) := by
  unfold ones
  induction n with
  | zero => simp
  | succ n ih => rw [List.replicate_succ', ih, List.range_succ, List.map_append]; simp

theorem dot_simplex_row (n i : Nat) (d : α) (x : List α) :
    dot ((List.range n).map (fun j => if i = j then 1 + d else 1)) x =
      dot (ones n) x + (if i < n then d * x.getD i 0 else 0) := by
  have : (List.range n).map (fun j => if i = j then 1 + d else (1 : α)) = vadd (ones n) (unitVec n i d) := by
    rw [ones_eq_range_map, unitVec, vadd_range_map]
    apply List.map_congr_left
    intro j _
    by_cases h : i = j
    · subst h; simp
    · have h' : ¬ j = i := fun e => h e.symm
      simp [h, h']
  rw [this, dot_vadd_left _ _ _ (by simp [ones, unitVec]), dot_unitVec]

/-- `simplex(n)`: `Σx + dist·xᵢ ≤ 1` for every axis `i` and `Σx ≤ 1`, where `dist = −(1 + √(n+1) + n)`; `nn` and `s` stand
    for `n` and `√(n+1)` as numbers of the field -/
theorem C14_simplex (n : Nat) (nn s : α) (x : List α) :
    Poly.Mem (Poly.simplex n nn s) x ↔
      (∀ i < n, dot (ones n) x + (-(1 + s + nn)) * x.getD i 0 ≤ 1) ∧ dot (ones n) x ≤ 1 := by
  unfold Poly.Mem Poly.simplex Aff.rows ones
  simp only
  constructor
  · intro h
    refine ⟨fun i hi => ?_, ?_⟩
    · have := h _ ((mem_zip_range_replicate (n+1) _ 1 _).mpr ⟨i, by omega, rfl⟩)
      simp only [dot_simplex_row, hi, if_true] at this
      exact this
    · have := h _ ((mem_zip_range_replicate (n+1) _ 1 _).mpr ⟨n, by omega, rfl⟩)
      simp only [dot_simplex_row, lt_irrefl, if_false, add_zero] at this
      exact this
  · rintro ⟨h1, h2⟩ rb hrb
    obtain ⟨i, hi, rfl⟩ := (mem_zip_range_replicate (n+1) _ 1 _).mp hrb
    simp only [dot_simplex_row]
    by_cases hin : i < n
    · simp only [hin, if_true]; exact h1 i hin
    · simp only [hin, if_false, add_zero]; exact h2


/-! ### the cross polytope is the unit ball of the 1-norm -/

theorem dot_range'_map (s n : Nat) (f : Nat → α) (x : List α) :
    dot ((List.range' s n).map f) x = ((List.range' s n).map (fun j => f j * x.getD (j - s) 0)).sum := by
  induction n generalizing s x with
  | zero => simp
  | succ n ih =>
    rw [List.range'_succ]
    cases x with
    | nil =>
      simp only [List.map_cons, dot_nil_right, List.getD_nil, mul_zero, List.sum_cons, zero_add]
      symm
      apply List.sum_eq_zero
      intro e he
      simp only [List.mem_map] at he
      obtain ⟨j, _, rfl⟩ := he
      rfl
    | cons b bs =>
      simp only [List.map_cons, dot_cons, List.sum_cons, Nat.sub_self, List.getD_cons_zero]
      rw [ih (s+1) bs]
      congr 1
      apply congrArg
      apply List.map_congr_left
      intro j hj
      have hj' : s + 1 ≤ j := (List.mem_range'_1.mp hj).1
      rw [show j - s = (j - (s+1)) + 1 by omega, List.getD_cons_succ]

theorem dot_range_map (n : Nat) (f : Nat → α) (x : List α) :
    dot ((List.range n).map f) x = ((List.range n).map (fun j => f j * x.getD j 0)).sum := by
  rw [List.range_eq_range', dot_range'_map]; simp

/-- the number with bit `j` set iff `b j`, for `j < n` -/
def bitsOf (n : Nat) (b : Nat → Bool) : Nat := ((List.range n).map (fun j => if b j then 2^j else 0)).sum

theorem bitsOf_succ (n : Nat) (b : Nat → Bool) : bitsOf (n+1) b = bitsOf n b + (if b n then 2^n else 0) := by
  simp [bitsOf, List.range_succ]

theorem bitsOf_lt (n : Nat) (b : Nat → Bool) : bitsOf n b < 2^n := by
  induction n with
  | zero => simp [bitsOf]
  | succ n ih =>
    rw [bitsOf_succ, Nat.pow_succ]
    split <;> omega

theorem bitsOf_bit (n : Nat) (b : Nat → Bool) (k : Nat) (hk : k < n) :
    bitsOf n b / 2^k % 2 = if b k then 1 else 0 := by
  induction n with
  | zero => omega
  | succ n ih =>
    rw [bitsOf_succ]
    have hlt := bitsOf_lt n b
    by_cases hkn : k = n
    · subst hkn
      by_cases hb : b k = true
      · simp only [hb, if_true]
        rw [Nat.add_div_right _ (Nat.pow_pos (by omega)), Nat.div_eq_of_lt hlt]
      · simp only [hb, Bool.false_eq_true, if_false, add_zero]
        rw [Nat.div_eq_of_lt hlt]
    · have hk' : k < n := by omega
      by_cases hb : b n = true
      · simp only [hb, if_true]
        have : 2^n = 2^k * 2^(n-k) := by rw [← Nat.pow_add]; congr 1; omega
        rw [this, Nat.add_mul_div_left _ _ (Nat.pow_pos (by omega)), Nat.add_mod]
        have hev : 2^(n-k) % 2 = 0 := by
          rw [show n - k = (n - k - 1) + 1 by omega, Nat.pow_succ]; omega
        rw [hev, add_zero, Nat.mod_mod, ih hk']
      · simp only [hb, Bool.false_eq_true, if_false, add_zero]
        exact ih hk'

/-- `cross_polytope(n)` is `{x | Σ|xⱼ| ≤ 1}` -/
theorem C14_cross_polytope (n : Nat) (x : List α) :
    Poly.Mem (Poly.crossPolytope n : Aff α) x ↔ ((List.range n).map (fun j => |x.getD j 0|)).sum ≤ 1 := by
  unfold Poly.Mem Poly.crossPolytope Aff.rows ones
  simp only
  constructor
  · intro h
    have := h _ ((mem_zip_range_replicate (2^n) _ 1 _).mpr ⟨bitsOf n (fun j => decide (x.getD j 0 < 0)), bitsOf_lt _ _, rfl⟩)
    rw [dot_range_map] at this
    refine le_trans (le_of_eq ?_) this
    apply congrArg
    apply List.map_congr_left
    intro j hj
    rw [bitsOf_bit n _ j (List.mem_range.mp hj)]
    generalize x.getD j 0 = v
    by_cases hneg : v < 0
    · rw [abs_of_neg hneg]; simp [hneg]
    · rw [abs_of_nonneg (not_lt.mp hneg)]; simp [hneg]
  · intro h rb hrb
    obtain ⟨i, hi, rfl⟩ := (mem_zip_range_replicate (2^n) _ 1 _).mp hrb
    rw [dot_range_map]
    refine le_trans (List.sum_le_sum ?_) h
    intro j _
    split
    · rw [neg_one_mul]; exact neg_le_abs _
    · rw [one_mul]; exact le_abs_self _

theorem vsub_zeros (y : List α) (n : Nat) (hy : y.length = n) : vsub y (zeros n) = y := by
  induction y generalizing n with
  | nil => simp [vsub]
  | cons a y ih =>
    cases n with
    | zero => simp at hy
    | succ n =>
      simp only [zeros, List.replicate_succ, vsub, sub_zero]
      congr 1
      exact ih n (by simpa using hy)

/-- `rotate(R)` for a square `R`: `y` is in the rotated polytope iff `Rᵀ y` is in the original one (for an orthogonal
    `R`, `Rᵀ = R⁻¹`: the rotated polytope consists exactly of the images `R x` of the points of `P`) -/
theorem C14_rotate (p : Aff α) (R : Mat α) (y : List α) (hp : ∀ r ∈ p.mat, r.length = p.indim)
    (hsq : R.length = p.indim) (hy : y.length = p.indim) :
    Poly.Mem (Poly.rotate p R) y ↔ Poly.Mem p (matVec (transpose p.indim R) y) := by
  unfold Poly.rotate
  have hlen : (transpose p.indim R).length = p.indim := by simp [transpose]
  have hRt : ∀ r ∈ transpose p.indim R, r.length = p.indim := by
    intro r hr
    simp only [transpose, List.mem_map] at hr
    obtain ⟨j, _, rfl⟩ := hr
    simp [hsq]
  rw [C14_apply_post p p.indim (transpose p.indim R) (zeros p.indim) y hRt (fun r hr => by rw [hp r hr, hlen]) hy
      (by simp [zeros]), vsub_zeros y p.indim hy]

end AV
