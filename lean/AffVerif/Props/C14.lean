import AffVerif.Model.Aff
/-! # C14 (theorems added below as they are proved) -/
namespace AV
end AV
