import AffVerif.Proofs.PruneSound
import AffVerif.Proofs.ArithLift
import AffVerif.Proofs.CoordLemmas
/-!
# C14 — polytope constructors and transformations are set-exact

Membership theorems over any ordered field, each under the dimension guard the code asserts (`WF` = one bias entry
per row and rows of the stated width, which `from_mats` / ndarray guarantee).
`Poly.Mem p x` is `mat·x ≤ bias` row by row.
-/
set_option linter.unusedSectionVars false
set_option linter.unusedVariables false
namespace AV
variable {α : Type} [Field α] [LinearOrder α] [IsStrictOrderedRing α]

theorem rows_append (p q : Aff α) (hp : p.bias.length = p.mat.length) :
    (Poly.intersection p q).rows = p.rows ++ q.rows := by
  unfold Poly.intersection Aff.rows
  simp only
  exact List.zip_append hp.symm

/-- `x ∈ P ∩ Q ↔ x ∈ P ∧ x ∈ Q` -/
theorem C14_intersection (p q : Aff α) (x : List α) (hp : p.WF) :
    Poly.Mem (Poly.intersection p q) x ↔ Poly.Mem p x ∧ Poly.Mem q x := by
  unfold Poly.Mem
  rw [rows_append p q hp.2]
  constructor
  · intro h
    exact ⟨fun rb hrb => h rb (List.mem_append_left _ hrb), fun rb hrb => h rb (List.mem_append_right _ hrb)⟩
  · rintro ⟨h1, h2⟩ rb hrb
    rcases List.mem_append.mp hrb with h | h
    · exact h1 rb h
    · exact h2 rb h

/-- `x ∈ intersection_n(d, Ps) ↔ ∀ P ∈ Ps, x ∈ P` (the empty list gives the whole space) -/
theorem C14_intersection_n (n : Nat) (ps : List (Aff α)) (x : List α) :
    Poly.Mem (Poly.intersectionN n ps) x ↔ ∀ p ∈ ps, Poly.Mem p x := by
  constructor
  · intro h p hp rb hrb
    unfold Poly.intersectionN at h
    have hne : ps.isEmpty = false := by cases ps <;> simp_all
    simp only [hne, Bool.false_eq_true, if_false] at h
    apply h
    rw [ofRows_rows]
    exact List.mem_flatMap.mpr ⟨p, hp, hrb⟩
  · intro h
    exact mem_intersectionN n ps x (fun p hp => h p hp)

theorem mem_iff_zip (mat : Mat α) (bias : List α) (n : Nat) (x : List α) :
    Poly.Mem (⟨mat, bias, n⟩ : Aff α) x ↔ ∀ rb ∈ mat.zip bias, dot rb.1 x ≤ rb.2 := Iff.rfl

/-- `x ∈ P.translate(d) ↔ x − d ∈ P` -/
theorem C14_translate (p : Aff α) (d x : List α) (hxd : x.length = d.length) :
    Poly.Mem (Poly.translate p d) x ↔ Poly.Mem p (vsub x d) := by
  unfold Poly.translate Poly.Mem Aff.rows
  simp only
  -- row by row: a·x ≤ b + a·d ↔ a·(x − d) ≤ b
  have key : ∀ (mat : Mat α) (bias : List α),
      (∀ rb ∈ mat.zip (vadd bias (matVec mat d)), dot rb.1 x ≤ rb.2) ↔
      (∀ rb ∈ mat.zip bias, dot rb.1 (vsub x d) ≤ rb.2) := by
    intro mat
    induction mat with
    | nil => intro bias; simp
    | cons a as ih =>
      intro bias
      cases bias with
      | nil => simp
      | cons b bs =>
        simp only [matVec, List.map_cons, vadd_cons, List.zip_cons_cons, List.mem_cons, forall_eq_or_imp]
        have := ih bs
        simp only [matVec] at this
        rw [this, dot_vsub_right a x d hxd]
        constructor
        · rintro ⟨h1, h2⟩; exact ⟨by linarith, h2⟩
        · rintro ⟨h1, h2⟩; exact ⟨by linarith, h2⟩
  exact key p.mat p.bias

/-- `x ∈ P.apply_pre(f) ↔ f(x) ∈ P` -/
theorem C14_apply_pre (p f : Aff α) (x : List α) (hf : f.WF) (hpf : ∀ r ∈ p.mat, r.length = f.outdim)
    (hx : x.length = f.indim) :
    Poly.Mem (Poly.applyPre p f) x ↔ Poly.Mem p (f.apply x) := by
  unfold Poly.applyPre Poly.Mem Aff.rows
  simp only
  have key : ∀ (mat : Mat α) (bias : List α), (∀ r ∈ mat, r.length = f.outdim) →
      ((∀ rb ∈ (matMul f.indim mat f.mat).zip (vadd (vneg (matVec mat f.bias)) bias), dot rb.1 x ≤ rb.2) ↔
       (∀ rb ∈ mat.zip bias, dot rb.1 (f.apply x) ≤ rb.2)) := by
    intro mat
    induction mat with
    | nil => intro bias _; simp [matMul]
    | cons a as ih =>
      intro bias hm
      cases bias with
      | nil => simp [matMul, matVec, vneg]
      | cons b bs =>
        have ha : a.length = f.mat.length := hm a (List.mem_cons_self)
        simp only [matMul, matVec, vneg, List.map_cons, vadd_cons, List.zip_cons_cons, List.mem_cons,
          forall_eq_or_imp]
        have := ih bs (fun r hr => hm r (List.mem_cons_of_mem _ hr))
        simp only [matMul, matVec, vneg] at this
        rw [this]
        have e1 : dot (vecMat f.indim a f.mat) x = dot a (matVec f.mat x) := dot_vecMat f.indim a f.mat x hf.1 ha
        have e2 : dot a (f.apply x) = dot a (matVec f.mat x) + dot a f.bias := by
          unfold Aff.apply
          exact dot_vadd_right a _ _ (by simp [hf.2])
        rw [e1, e2]
        constructor
        · rintro ⟨h1, h2⟩; exact ⟨by linarith, h2⟩
        · rintro ⟨h1, h2⟩; exact ⟨by linarith, h2⟩
  exact key p.mat p.bias hpf

/-- `unbounded(n)` contains every point, `empty(n)` none -/
theorem C14_unbounded_empty (n : Nat) (x : List α) :
    Poly.Mem (Poly.unbounded n : Aff α) x ∧ ¬ Poly.Mem (Poly.empty n : Aff α) x := by
  constructor
  · intro rb hrb
    simp [Poly.unbounded, Aff.rows] at hrb
    subst hrb; simp
  · intro h
    have := h (zeros n, -1) (by simp [Poly.empty, Aff.rows])
    simp at this
    linarith

/-! ### boxes -/

/-- closed interval with optional (infinite) ends -/
def inInterval (lo hi : Option α) (v : α) : Prop :=
  (match lo with | none => True | some l => l ≤ v) ∧ (match hi with | none => True | some h => v ≤ h)

theorem axisRows_mem (n axis : Nat) (lo hi : Option α) (x : List α) (ha : axis < n) :
    (∀ rb ∈ Poly.axisRows n axis lo hi, dot rb.1 x ≤ rb.2) ↔ inInterval lo hi (x.getD axis 0) := by
  unfold Poly.axisRows inInterval
  simp only [List.mem_cons, List.mem_nil_iff, or_false, forall_eq_or_imp, forall_eq]
  apply and_congr
  · cases lo with
    | none => simp
    | some l => simp only [dot_unitVec, ha, if_true]; constructor <;> intro h <;> linarith
  · cases hi with
    | none => simp
    | some h => simp only [dot_unitVec, ha, if_true, one_mul]

/-- `axis_bounds(dim, axis, lo, hi)`: the slab `lo ≤ x_axis ≤ hi`; an infinite end contributes the row `0 ≤ 1` -/
theorem C14_axis_bounds (n axis : Nat) (lo hi : Option α) (x : List α) (ha : axis < n) :
    Poly.Mem (Poly.axisBounds n axis lo hi) x ↔ inInterval lo hi (x.getD axis 0) := by
  unfold Poly.axisBounds Poly.Mem
  rw [ofRows_rows]
  exact axisRows_mem n axis lo hi x ha

theorem hyperrectangleAux_mem (n : Nat) (i : Nat) (ivs : List (Option α × Option α)) (x : List α)
    (hn : i + ivs.length ≤ n) :
    (∀ rb ∈ Poly.hyperrectangleAux n i ivs, dot rb.1 x ≤ rb.2) ↔
    ∀ j (h : j < ivs.length), inInterval (ivs[j]).1 (ivs[j]).2 (x.getD (i + j) 0) := by
  induction ivs generalizing i with
  | nil => simp [Poly.hyperrectangleAux]
  | cons iv ivs ih =>
    obtain ⟨lo, hi⟩ := iv
    simp only [Poly.hyperrectangleAux, List.mem_append]
    simp only [List.length_cons] at hn
    have h1 := axisRows_mem n i lo hi x (by omega)
    have h2 := ih (i+1) (by omega)
    constructor
    · intro h j hj
      cases j with
      | zero => simpa using h1.mp (fun rb hrb => h rb (Or.inl hrb))
      | succ j =>
        have := h2.mp (fun rb hrb => h rb (Or.inr hrb)) j (by simpa using hj)
        simpa [show i + 1 + j = i + (j + 1) by omega] using this
    · intro h rb hrb
      rcases hrb with hrb | hrb
      · have h0 := h 0 (by simp)
        simp only [List.getElem_cons_zero, Nat.add_zero] at h0
        exact h1.mpr h0 rb hrb
      · refine h2.mpr (fun j hj => ?_) rb hrb
        have := h (j+1) (by simpa using hj)
        simpa [show i + (j + 1) = i + 1 + j by omega] using this

/-- `hyperrectangle(intervals)`: the product of the closed intervals, infinite ends allowed -/
theorem C14_hyperrectangle (ivs : List (Option α × Option α)) (x : List α) :
    Poly.Mem (Poly.hyperrectangle ivs) x ↔
    ∀ j (h : j < ivs.length), inInterval (ivs[j]).1 (ivs[j]).2 (x.getD j 0) := by
  unfold Poly.hyperrectangle Poly.Mem
  rw [ofRows_rows, hyperrectangleAux_mem ivs.length 0 ivs x (by omega)]
  simp

/-! ### affine images -/

theorem matVec_vsub (n : Nat) (M : Mat α) (y c : List α) (hy : y.length = n) (hc : c.length = n) :
    matVec M (vsub y c) = vsub (matVec M y) (matVec M c) := by
  unfold matVec
  induction M with
  | nil => simp [vsub]
  | cons r rs ih =>
    simp only [List.map_cons, vsub_cons]
    rw [ih, dot_vsub_right r y c (by rw [hy, hc])]

/-- `apply_post(inv, c)`: `y` lies in the result exactly when `inv·(y − c)` lies in `P` — i.e. the result is the image
    of `P` under `x ↦ inv⁻¹·x + c` whenever `inv` is invertible -/
theorem C14_apply_post (p : Aff α) (n : Nat) (inv : Mat α) (c y : List α)
    (hinv : ∀ r ∈ inv, r.length = n) (hp : ∀ r ∈ p.mat, r.length = inv.length)
    (hy : y.length = n) (hc : c.length = n) :
    Poly.Mem (Poly.applyPost p n inv c) y ↔ Poly.Mem p (matVec inv (vsub y c)) := by
  unfold Poly.applyPost Poly.Mem Aff.rows
  simp only
  have key : ∀ (mat : Mat α) (bias : List α), (∀ r ∈ mat, r.length = inv.length) →
      ((∀ rb ∈ (matMul n mat inv).zip (vadd (matVec mat (matVec inv c)) bias), dot rb.1 y ≤ rb.2) ↔
       (∀ rb ∈ mat.zip bias, dot rb.1 (matVec inv (vsub y c)) ≤ rb.2)) := by
    intro mat
    induction mat with
    | nil => intro bias _; simp [matMul]
    | cons a as ih =>
      intro bias hm
      cases bias with
      | nil => simp [matMul, matVec]
      | cons b bs =>
        have ha : a.length = inv.length := hm a (List.mem_cons_self)
        simp only [matMul, matVec, List.map_cons, vadd_cons, List.zip_cons_cons, List.mem_cons, forall_eq_or_imp]
        have := ih bs (fun r hr => hm r (List.mem_cons_of_mem _ hr))
        simp only [matMul, matVec] at this
        rw [this]
        have e1 : dot (vecMat n a inv) y = dot a (matVec inv y) := dot_vecMat n a inv y hinv ha
        have e2 : matVec inv (vsub y c) = vsub (matVec inv y) (matVec inv c) := matVec_vsub n inv y c hy hc
        have e3 : dot a (vsub (matVec inv y) (matVec inv c)) = dot a (matVec inv y) - dot a (matVec inv c) :=
          dot_vsub_right a _ _ (by simp)
        simp only [matVec] at e1 e2 e3
        rw [e1, e2, e3]
        constructor
        · rintro ⟨h1, h2⟩; exact ⟨by linarith, h2⟩
        · rintro ⟨h1, h2⟩; exact ⟨by linarith, h2⟩
  exact key p.mat p.bias hp

end AV
