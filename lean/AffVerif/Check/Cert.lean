import AffVerif.Model.Compose
/-!
# Verified certificate checkers (import-free, linked into the judge)

`checkInfeasible` accepts Motzkin/Farkas multipliers for a mixed strict / non-strict system;
its soundness (`checkInfeasible_sound` in `Proofs/CertSound.lean`) makes the exact simplex of the judge an
untrusted search.
-/
namespace AV
variable {α : Type} [Zero α] [One α] [Add α] [Mul α] [Neg α] [Sub α] [LE α] [LT α]
  [DecidableLE α] [DecidableLT α] [DecidableEq α]

/-- one constraint `a·x ≤ b` (or `<` when `strict`) -/
structure Row (α : Type) where
  a : List α
  b : α
  strict : Bool

def Row.sat (r : Row α) (x : List α) : Prop := if r.strict then dot r.a x < r.b else dot r.a x ≤ r.b

def Row.satb (r : Row α) (x : List α) : Bool :=
  if r.strict then decide (dot r.a x < r.b) else decide (dot r.a x ≤ r.b)

def Sat (rows : List (Row α)) (x : List α) : Prop := ∀ r ∈ rows, r.sat x

def satb (rows : List (Row α)) (x : List α) : Bool := rows.all (fun r => r.satb x)

/-- `Σ yᵢ aᵢ` (width n) -/
def combVec (n : Nat) : List α → List (Row α) → List α
  | y :: ys, r :: rs => vadd (smul y r.a) (combVec n ys rs)
  | _, _ => zeros n

def combRhs : List α → List (Row α) → α
  | y :: ys, r :: rs => y * r.b + combRhs ys rs
  | _, _ => 0

def strictUsed : List α → List (Row α) → Bool
  | y :: ys, r :: rs => (r.strict && decide (0 < y)) || strictUsed ys rs
  | _, _ => false

/-- Motzkin/Farkas certificate check for infeasibility of a mixed strict / non-strict system -/
def checkInfeasible (n : Nat) (rows : List (Row α)) (y : List α) : Bool :=
  y.length == rows.length
  && y.all (fun c => decide (0 ≤ c))
  && rows.all (fun r => r.a.length == n)
  && (combVec n y rows).all (fun e => e == 0)
  && (decide (combRhs y rows < 0) || (decide (combRhs y rows ≤ 0) && strictUsed y rows))

/-- the closed rows of a polytope `{x | A x ≤ b}` -/
def polyRows (p : Aff α) : List (Row α) := p.rows.map (fun rb => ⟨rb.1, rb.2, false⟩)

/-- primal/dual certificate check for `min c·x` over `{x | A x ≤ b}`: `x` is a point of the set with value `v`,
    `y ≥ 0` are multipliers with `Σ yᵢ aᵢ = −c` and `Σ yᵢ bᵢ = −v` -/
def checkOptimal (n : Nat) (p : Aff α) (c x : List α) (v : α) (y : List α) : Bool :=
  Poly.memb p x && (dot c x == v)
  && (c.length == n)
  && (y.length == p.rows.length)
  && y.all (fun e => decide (0 ≤ e))
  && (polyRows p).all (fun r => r.a.length == n)
  && (combVec n y (polyRows p) == vneg c)
  && (combRhs y (polyRows p) == -v)

/-- certificate check for unboundedness of `min c·x` over `{x | A x ≤ b}`: a point `x` of the set and a direction `d`
    with `A d ≤ 0` and `c·d < 0` -/
def checkUnbounded (n : Nat) (p : Aff α) (c x d : List α) : Bool :=
  Poly.memb p x
  && (x.length == n) && (d.length == n) && (c.length == n)
  && p.rows.all (fun rb => rb.1.length == n && decide (dot rb.1 d ≤ 0))
  && decide (dot c d < 0)

end AV
