import AffVerif.Model.Compose
/-!
# Verified certificate checkers (import-free, linked into the judge)

`checkInfeasible` accepts Motzkin/Farkas multipliers for a mixed strict / non-strict system;
its soundness (`checkInfeasible_sound` in `Proofs/CertSound.lean`) makes the exact simplex of the judge an
untrusted search.
-/
namespace AV
variable {α : Type} [Zero α] [One α] [Add α] [Mul α] [Neg α] [Sub α] [LE α] [LT α]
  [DecidableLE α] [DecidableLT α] [DecidableEq α]

/-- one constraint `a·x ≤ b` (or `<` when `strict`) -/
structure Row (α : Type) where
  a : List α
  b : α
  strict : Bool

def Row.sat (r : Row α) (x : List α) : Prop := if r.strict then dot r.a x < r.b else dot r.a x ≤ r.b

def Row.satb (r : Row α) (x : List α) : Bool :=
  if r.strict then decide (dot r.a x < r.b) else decide (dot r.a x ≤ r.b)

def Sat (rows : List (Row α)) (x : List α) : Prop := ∀ r ∈ rows, r.sat x

def satb (rows : List (Row α)) (x : List α) : Bool := rows.all (fun r => r.satb x)

/-- `Σ yᵢ aᵢ` (width n) -/
def combVec (n : Nat) : List α → List (Row α) → List α
  | y :: ys, r :: rs => vadd (smul y r.a) (combVec n ys rs)
  | _, _ => zeros n

def combRhs : List α → List (Row α) → α
  | y :: ys, r :: rs => y * r.b + combRhs ys rs
  | _, _ => 0

def strictUsed : List α → List (Row α) → Bool
  | y :: ys, r :: rs => (r.strict && decide (0 < y)) || strictUsed ys rs
  | _, _ => false

/-- Motzkin/Farkas certificate check for infeasibility of a mixed strict / non-strict system -/
def checkInfeasible (n : Nat) (rows : List (Row α)) (y : List α) : Bool :=
  y.length == rows.length
  && y.all (fun c => decide (0 ≤ c))
  && rows.all (fun r => r.a.length == n)
  && (combVec n y rows).all (fun e => e == 0)
  && (decide (combRhs y rows < 0) || (decide (combRhs y rows ≤ 0) && strictUsed y rows))

/-- the closed rows of a polytope `{x | A x ≤ b}` -/
def polyRows (p : Aff α) : List (Row α) := p.rows.map (fun rb => ⟨rb.1, rb.2, false⟩)

end AV
