import AffVerif.Model.Schema
import AffVerif.Model.Spec
import AffVerif.Model.Elim
/-!
# Distillation (`src/distill/builder.rs`)

`Layer`, the *specification* `netEval` (direct evaluation of the layer list — no trees involved) and the fold
of `afftree_from_layers_generic`: `apply_func` for a linear layer, `compose::<false>` with the activation's
schema tree followed by `infeasible_elimination` for the four per-neuron activations, `compose::<true>` for
the argmax / class-characterisation heads; the running output dimension `dim` is updated as in the code.
-/
namespace AV
variable {α : Type} [Zero α] [One α] [Add α] [Mul α] [Neg α] [Sub α] [LE α] [DecidableLE α] [LT α] [DecidableLT α]

inductive Layer (α : Type) where
  | linear (a : Aff α)
  | relu (i : Nat)
  | leakyRelu (i : Nat) (alpha : α)
  | hardTanh (i : Nat)
  | hardSigmoid (i : Nat)
  | argmax
  | classChar (c : Nat)

/-- the numeric constants the code uses (`3.`, `1./6.`, `0.5`) and the embedding of class indices -/
structure NetConsts (α : Type) where
  three : α
  sixth : α
  half : α
  ofNat : Nat → α

/-- what one layer computes -/
def Layer.eval (k : NetConsts α) : Layer α → List α → List α
  | .linear a, x => a.apply x
  | .relu i, x => Spec.onComp x i Spec.relu
  | .leakyRelu i a, x => Spec.onComp x i (Spec.leakyRelu a)
  | .hardTanh i, x => Spec.onComp x i (Spec.hardTanh (-1) 1)
  | .hardSigmoid i, x => Spec.onComp x i (Spec.hardSigmoid k.three k.sixth k.half)
  | .argmax, x => [k.ofNat (Spec.argmax x)]
  | .classChar c, x => [if Spec.isMax x c then 1 else 0]

/-- the network: layers applied in order -/
def netEval (k : NetConsts α) (layers : List (Layer α)) (x : List α) : List α :=
  layers.foldl (fun v l => l.eval k v) x

/-- the schema tree the builder composes for an activation / head at the current dimension `dim` -/
def Layer.schema (k : NetConsts α) (dim : Nat) : Layer α → Option (PT α × Bool)   -- tree, pruned composition?
  | .linear _ => none
  | .relu i => some (Sch.partialReLU dim i, false)
  | .leakyRelu i a => some (Sch.partialLeakyReLU dim i a, false)
  | .hardTanh i => some (Sch.partialHardTanh dim i (-1) 1, false)
  | .hardSigmoid i => some (Sch.partialHardSigmoid dim i k.three k.sixth k.half, false)
  | .argmax => some (Sch.argmax dim k.ofNat, true)
  | .classChar c => some (Sch.classChar dim c, true)

/-- one layer of `afftree_from_layers_generic`: new tree, new `dim`, oracle state -/
def distillLayer {σ : Type} (tol : α) (O : Oracles σ α) (k : NetConsts α) (n : Nat)
    (t : PT α) (dim : Nat) (l : Layer α) (s : σ) : PT α × Nat × σ :=
  match l with
  | .linear a => (PT.applyFunc t a, a.outdim, s)
  | _ =>
    match l.schema k dim with
    | none => (t, dim, s)
    | some (g, true) =>
      let r := PT.composeP Schema.compose (isEdgeFeasible tol O.lp) n [] t g s (PT.freshBase t)
      (r.1, 1, r.2.1)
    | some (g, false) =>
      let c := PT.compose t g
      let r := infeasibleElimination tol O n c s
      (r.1, dim, r.2)

/-- `afftree_from_layers(dim, layers, precondition)` -/
def afftreeFromLayers {σ : Type} (tol : α) (O : Oracles σ α) (k : NetConsts α) (n : Nat)
    (pre : Option (PT α)) (layers : List (Layer α)) (s : σ) : PT α × σ :=
  let t0 : PT α := match pre with
    | some p => p
    | none => PT.fromAff 2 (Aff.identity n)
  let d0 : Nat := match pre with
    | some p => (PT.firstOutdim p).getD n
    | none => n
  let r := layers.foldl (fun (acc : PT α × Nat × σ) l => distillLayer tol O k n acc.1 acc.2.1 l acc.2.2) (t0, d0, s)
  (r.1, r.2.2)

end AV
