import AffVerif.Model.Elim
/-!
# `reduce` (`src/pwl/impl_reduction.rs`) and the lifted operators (`src/pwl/impl_ops.rs`)

`reduce` visits the nodes in reverse breadth-first order; a non-root decision whose two children are
terminals with `==` maps is replaced by its label-0 child. Children are final when the parent is visited,
so the sweep is the bottom-up structural recursion below.
-/
namespace AV
variable {α : Type} [Zero α] [One α] [Add α] [Mul α] [Neg α] [Sub α] [DecidableEq α]

/-- both slots hold terminals with equal maps: the label-0 child -/
def mergeable? : PKids α → Option (PT α)
  | .cons (some a) (.cons (some b) .nil) =>
    if a.kids.allNone && b.kids.allNone && decide (a.val.aff = b.val.aff) then some a else none
  | _ => none

mutual
def PT.reduceAux (isRoot : Bool) : PT α → PT α
  | .node i c ks =>
    let ks' := PKids.reduceAux ks
    if isRoot then .node i c ks' else
    match mergeable? ks' with
    | some a => a
    | none => .node i c ks'
def PKids.reduceAux : PKids α → PKids α
  | .nil => .nil
  | .cons none r => .cons none (PKids.reduceAux r)
  | .cons (some t) r => .cons (some (PT.reduceAux false t)) (PKids.reduceAux r)
end

/-- `AffTree::<2>::reduce` -/
def PT.reduce (t : PT α) : PT α := PT.reduceAux true t

/-- the four lifted binary operators on terminals -/
inductive ArithOp | add | sub | mul | div
deriving DecidableEq, Repr

def ArithOp.onAff [Div α] : ArithOp → Aff α → Aff α → Aff α
  | .add, f, g => f.add g
  | .sub, f, g => f.sub g
  | .mul, f, g => f.mul g
  | .div, f, g => f.zipWith (· / ·) g

end AV
