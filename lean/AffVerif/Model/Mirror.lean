import AffVerif.Model.Aff
/-!
# `mirror_points` (`src/pwl/impl_infeasible_elim.rs`) and `normalize` (`src/linalg/affine.rs`)

The witness-repair heuristic: the polytope is normalised, then for at most `n_iterations` rounds every candidate is
tested against the (slightly shrunk) polytope; if some candidates pass, those are returned together with the round
number; otherwise every candidate is moved along the normals of the violated rows (a little further than the
violation). `eps` is the constant `1e-10`, `fac` the constant `1.1` of the code.

`normalize` divides every row and its bias by the row's Euclidean norm when that norm exceeds `f64::EPSILON`; the
square roots are not field operations, so the norms are a parameter of the model (`scaleRows`).
-/
namespace AV
variable {α : Type} [Zero α] [One α] [Add α] [Mul α] [Neg α] [Sub α] [Div α] [LE α] [DecidableLE α]

/-- divide row `i` and its bias by `s i` where a scale is given, leave it where `none` (norm below `EPSILON`) -/
def Aff.scaleRows (p : Aff α) (s : List (Option α)) : Aff α :=
  Aff.ofRows p.indim ((p.rows.zip s).map (fun (rb, o) =>
    match o with
    | some k => (rb.1.map (· / k), rb.2 / k)
    | none => rb))

/-- `bias − mat·x − eps`, per row -/
def mirrorDist (eps : α) (pn : Aff α) (x : List α) : List α := (Poly.distanceRaw pn x).map (· - eps)

/-- a candidate passes when every shrunk distance is non-negative -/
def mirrorInside (eps : α) (pn : Aff α) (x : List α) : Bool := (mirrorDist eps pn x).all (fun d => decide (0 ≤ d))

/-- one update of a candidate -/
def mirrorStep (eps fac : α) (pn : Aff α) (x : List α) : List α :=
  let d := (mirrorDist eps pn x).map (fun v => if 0 ≤ v then 0 else v * fac - eps)
  vadd x (vecMat pn.indim d pn.mat)

/-- `mirror_points` on an already normalised polytope: `k` rounds left, `count` rounds done -/
def mirrorLoop (eps fac : α) (pn : Aff α) : List (List α) → Nat → Nat → Option (List (List α) × Nat)
  | _, 0, _ => none
  | pts, k+1, count =>
    let inside := pts.filter (mirrorInside eps pn)
    if inside.isEmpty then mirrorLoop eps fac pn (pts.map (mirrorStep eps fac pn)) k (count+1)
    else some (inside, count)

/-- `mirror_points(poly, points, n_iterations)` with the row norms `s` supplied -/
def mirrorPoints (eps fac : α) (p : Aff α) (s : List (Option α)) (pts : List (List α)) (n : Nat) :
    Option (List (List α) × Nat) :=
  mirrorLoop eps fac (p.scaleRows s) pts n 0

end AV
