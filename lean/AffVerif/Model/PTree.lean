import AffVerif.Model.Aff
import AffVerif.Model.Tree
/-!
# Piece-wise linear trees (`src/pwl/afftree.rs`, `src/pwl/node.rs`)

`AffTree<K> { tree: Tree<AffContent,K>, in_dim }` with `AffContent { aff, state }`.
A node without children is a *terminal* (its `aff` is the output map), any other node is a
*decision* (its `aff` is read as the predicate rows `A x ≤ b`).
-/
namespace AV

variable {α : Type} [Zero α] [One α] [Add α] [Mul α] [Neg α] [Sub α]

/-- `NodeState` -/
inductive NState (α : Type) where
  | indeterminate
  | infeasible
  | feasible
  | witness (ws : List (List α))
deriving DecidableEq, Repr

def NState.isFeasible : NState α → Bool
  | .feasible => true
  | .witness _ => true
  | _ => false

def NState.isInfeasible : NState α → Bool
  | .infeasible => true
  | _ => false

/-- `AffContent` -/
structure Content (α : Type) where
  aff : Aff α
  state : NState α
deriving DecidableEq, Repr

def Content.new (a : Aff α) : Content α := ⟨a, .indeterminate⟩

abbrev PT (α : Type) := ITree (Content α)
abbrev PKids (α : Type) := IKids (Content α)

section eval
variable [LE α] [DecidableLE α]

/-- `evaluate_decision`: `Σᵢ [Aᵢ x − bᵢ ≤ 0]·2^i` -/
def labelBits : Mat α → List α → List α → Nat
  | r :: rs, b :: bs, x => (if dot r x - b ≤ 0 then 1 else 0) + 2 * labelBits rs bs x
  | _, _, _ => 0

def Aff.label (d : Aff α) (x : List α) : Nat := labelBits d.mat d.bias x

mutual
/-- `evaluate`: follow the labels from the root; `none` when the taken slot is empty -/
def PT.eval : PT α → List α → Option (List α)
  | .node _ c kids, x =>
    if kids.allNone then some (c.aff.apply x) else PKids.evalAt kids (c.aff.label x) x
def PKids.evalAt : PKids α → Nat → List α → Option (List α)
  | .nil, _, _ => none
  | .cons none _, 0, _ => none
  | .cons (some t) _, 0, x => PT.eval t x
  | .cons _ r, n+1, x => PKids.evalAt r n x
end

mutual
/-- `find_terminal`: the terminal reached (its index) and the label sequence -/
def PT.findTerminal : PT α → List α → Option (Nat × List Nat)
  | .node i c kids, x =>
    if kids.allNone then some (i, [])
    else (PKids.findAt kids (c.aff.label x) x).map (fun r => (r.1, c.aff.label x :: r.2))
def PKids.findAt : PKids α → Nat → List α → Option (Nat × List Nat)
  | .nil, _, _ => none
  | .cons none _, 0, _ => none
  | .cons (some t) _, 0, x => PT.findTerminal t x
  | .cons _ r, n+1, x => PKids.findAt r n x
end

mutual
/-- the map of the terminal reached by `x` (structural version of `find_terminal`) -/
def PT.leafAt : PT α → List α → Option (Aff α)
  | .node _ c kids, x => if kids.allNone then some c.aff else PKids.leafAtK kids (c.aff.label x) x
def PKids.leafAtK : PKids α → Nat → List α → Option (Aff α)
  | .nil, _, _ => none
  | .cons none _, 0, _ => none
  | .cons (some t) _, 0, x => PT.leafAt t x
  | .cons _ r, n+1, x => PKids.leafAtK r n x
end

/-- the terminal map reached by `x` -/
def PT.termAt (t : PT α) (x : List α) : Option (Aff α) :=
  (PT.findTerminal t x).bind (fun r => (t.find? r.1).map (·.val.aff))

end eval

mutual
/-- apply `f` to the map of every terminal (`apply_func`, `unary_op_inplace`) -/
def PT.mapTerminals (f : Aff α → Aff α) : PT α → PT α
  | .node i c kids =>
    if kids.allNone then .node i ⟨f c.aff, c.state⟩ kids else .node i c (PKids.mapTerminals f kids)
def PKids.mapTerminals (f : Aff α → Aff α) : PKids α → PKids α
  | .nil => .nil
  | .cons none r => .cons none (PKids.mapTerminals f r)
  | .cons (some t) r => .cons (some (PT.mapTerminals f t)) (PKids.mapTerminals f r)
end

/-- `apply_func(a)`: every terminal `t` becomes `a ∘ t` -/
def PT.applyFunc (t : PT α) (a : Aff α) : PT α := PT.mapTerminals (fun f => a.compose f) t

/-! ### the public witness cache: a user appends points to `tree.node_value(idx).state` -/

/-- `Witness(ws)` becomes `Witness(ws ++ pts)`; other states have no point list -/
def NState.plant (pts : List (List α)) : NState α → NState α
  | .witness ws => .witness (ws ++ pts)
  | s => s

def PT.plantFn (pts : List (List α)) : PT α → PT α
  | .node i c ks => .node i ⟨c.aff, c.state.plant pts⟩ ks

/-- appending points to the witness list of node `idx` -/
def PT.plant (t : PT α) (idx : Nat) (pts : List (List α)) : PT α := ITree.modifyAt (PT.plantFn pts) t idx

/-- `AffTree::new(dim)` / `from_aff(f)`: a single terminal with index 0 and `K` empty slots -/
def PT.fromAff (K : Nat) (f : Aff α) : PT α := .node 0 (Content.new f) (IKids.empty K)

mutual
/-- shape predicate: every map has `n` columns and is well formed; terminals have `m` rows;
    every node has `K` slots and a decision has at most `log₂ K` rows (`2^rows ≤ K`) -/
def PT.Shaped (K n m : Nat) : PT α → Prop
  | .node _ c kids =>
    c.aff.WF ∧ c.aff.indim = n ∧ kids.length = K ∧
    (kids.allNone = true → c.aff.outdim = m) ∧
    (kids.allNone = false → 2 ^ c.aff.outdim ≤ K) ∧ PKids.Shaped K n m kids
def PKids.Shaped (K n m : Nat) : PKids α → Prop
  | .nil => True
  | .cons none r => PKids.Shaped K n m r
  | .cons (some t) r => PT.Shaped K n m t ∧ PKids.Shaped K n m r
end

mutual
/-- decidable version of `Shaped` used by the judge on the implementation's dumps -/
def PT.shapedb (K n m : Nat) : PT α → Bool
  | .node _ c kids =>
    c.aff.wfb && c.aff.indim == n && kids.length == K &&
    (if kids.allNone then c.aff.outdim == m else decide (2 ^ c.aff.outdim ≤ K)) && PKids.shapedb K n m kids
def PKids.shapedb (K n m : Nat) : PKids α → Bool
  | .nil => true
  | .cons none r => PKids.shapedb K n m r
  | .cons (some t) r => PT.shapedb K n m t && PKids.shapedb K n m r
end

mutual
/-- output dimension of the first terminal in pre-order -/
def PT.firstOutdim : PT α → Option Nat
  | .node _ c kids => if kids.allNone then some c.aff.outdim else PKids.firstOutdim kids
def PKids.firstOutdim : PKids α → Option Nat
  | .nil => none
  | .cons none r => PKids.firstOutdim r
  | .cons (some t) r => match PT.firstOutdim t with
    | some d => some d
    | none => PKids.firstOutdim r
end

end AV
